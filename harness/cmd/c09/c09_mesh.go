package main

import (
	"fmt"
	"sort"
	"strconv"
	"strings"
	"verif/harness/hlib"

	"github.com/unixpickle/model3d/model3d"
)

func setStr(ids []int) string {
	sort.Ints(ids)
	ss := make([]string, len(ids))
	for i, x := range ids {
		ss[i] = strconv.Itoa(x)
	}
	return "{" + strings.Join(ss, ",") + "}"
}

func trisStr(ts [][3]int) string {
	sort.Slice(ts, func(i, j int) bool {
		a, b := ts[i], ts[j]
		if a[0] != b[0] {
			return a[0] < b[0]
		}
		if a[1] != b[1] {
			return a[1] < b[1]
		}
		return a[2] < b[2]
	})
	ss := make([]string, len(ts))
	for i, t := range ts {
		ss[i] = fmt.Sprintf("%d,%d,%d", t[0], t[1], t[2])
	}
	return "{" + strings.Join(ss, ";") + "}"
}

// runC09Mesh replays random operation histories on a real *model3d.Mesh.
func runC09Mesh(c *hlib.Ctx) {
	pool := pool3(c)
	hashes := make([]string, len(pool))
	for i, k := range pool {
		hashes[i] = fmt.Sprintf("%x", model3d.VerifFastHash64(k.reps[0]))
	}
	nk := len(pool)
	rep := func(id int) model3d.Coord3D {
		return pool[id].reps[c.Rng.Intn(len(pool[id].reps))]
	}
	meshTris := func(m *model3d.Mesh) [][3]int {
		var ts [][3]int
		m.Iterate(func(t *model3d.Triangle) {
			ts = append(ts, [3]int{idOf3(pool, t[0]), idOf3(pool, t[1]), idOf3(pool, t[2])})
		})
		return ts
	}
	for cse := 0; cse < c.N; cse++ {
		// triangle pool: small key subset so that faces share vertices; duplicates and degenerates
		sub := 3 + c.Rng.Intn(4)
		if sub > nk {
			sub = nk
		}
		subKeys := c.Rng.Perm(nk)[:sub]
		nt := 2 + c.Rng.Intn(8)
		tris := make([]*model3d.Triangle, nt)
		triIDs := make([][3]int, nt)
		for i := range tris {
			var ids [3]int
			switch {
			case i > 0 && c.Rng.Intn(6) == 0:
				ids = triIDs[c.Rng.Intn(i)] // same value, different pointer
			case c.Rng.Intn(8) == 0:
				a, b := subKeys[c.Rng.Intn(sub)], subKeys[c.Rng.Intn(sub)]
				ids = [3]int{a, a, b} // degenerate
				if c.Rng.Intn(2) == 0 {
					ids = [3]int{a, b, a}
				}
			default:
				p := c.Rng.Perm(sub)
				ids = [3]int{subKeys[p[0]], subKeys[p[1]], subKeys[p[2]]}
			}
			triIDs[i] = ids
			tris[i] = &model3d.Triangle{rep(ids[0]), rep(ids[1]), rep(ids[2])}
		}
		faceID := map[*model3d.Triangle]int{}
		for i, t := range tris {
			faceID[t] = i
		}
		ids := func(ts []*model3d.Triangle) []int {
			r := make([]int, len(ts))
			for i, t := range ts {
				id, ok := faceID[t]
				if !ok {
					id = -1
				}
				r[i] = id
			}
			return r
		}
		trisTok := make([]string, nt)
		for i, t := range triIDs {
			trisTok[i] = fmt.Sprintf("%d,%d,%d", t[0], t[1], t[2])
		}
		m := model3d.NewMesh()
		other := model3d.NewMesh()
		var ops, outs []string
		nops := 2 + c.Rng.Intn(40)
		builtAt := -1
		res := hlib.Guard(func() string {
			for i := 0; i < nops; i++ {
				f := c.Rng.Intn(nt)
				switch c.Rng.Intn(23) {
				case 16:
					ops = append(ops, "cp")
					other = m.Copy()
				case 17:
					ops = append(ops, "sw")
					m, other = other, m
				case 18:
					ops = append(ops, "am")
					m.AddMesh(other)
				case 19, 20:
					// IterateSorted with a comparator and a callback that adds/removes faces
					ord := c.Rng.Perm(nt)
					pos := make([]int, nt)
					for i, f := range ord {
						pos[f] = i
					}
					script, tok := genIterScript(c, nt)
					ops = append(ops, "its", seqTok(ord), tok)
					var visited []int
					cb := scriptedCallback(c, script, &visited,
						func(f int) { m.Add(tris[f]) }, func(f int) { m.Remove(tris[f]) },
						func(f int) bool { return m.Contains(tris[f]) })
					m.IterateSorted(func(t *model3d.Triangle) {
						id, ok := faceID[t]
						if !ok {
							id = -1
						}
						cb(id)
					}, func(a, b *model3d.Triangle) bool { return pos[faceID[a]] < pos[faceID[b]] })
					outs = append(outs, seqStr(visited))
					c.Stat("c09.mesh_iterate_sorted_with_mutating_callback", 1)
				case 21:
					// Iterate (Go map order) with such a callback; the observed sequence is the oracle
					script, tok := genIterScript(c, nt)
					var visited []int
					cb := scriptedCallback(c, script, &visited,
						func(f int) { m.Add(tris[f]) }, func(f int) { m.Remove(tris[f]) },
						func(f int) bool { return m.Contains(tris[f]) })
					m.Iterate(func(t *model3d.Triangle) {
						id, ok := faceID[t]
						if !ok {
							id = -1
						}
						cb(id)
					})
					ops = append(ops, "it", tok, seqTok(visited))
					outs = append(outs, seqStr(visited))
					c.Stat("c09.mesh_iterate_with_mutating_callback", 1)
				case 22:
					script, tok := genIterScript(c, nt)
					var visited []int
					cb := scriptedCallback(c, script, &visited,
						func(f int) { m.Add(tris[f]) }, func(f int) { m.Remove(tris[f]) },
						func(f int) bool { return m.Contains(tris[f]) })
					m.IterateVertices(func(p model3d.Coord3D) { cb(idOf3(pool, p)) })
					ops = append(ops, "itv", tok, seqTok(visited))
					outs = append(outs, seqStr(visited))
					c.Stat("c09.mesh_iterate_vertices_with_mutating_callback", 1)
				case 0, 1, 2, 3:
					ops = append(ops, "add", strconv.Itoa(f))
					m.Add(tris[f])
				case 4, 5:
					ops = append(ops, "rem", strconv.Itoa(f))
					m.Remove(tris[f])
				case 6:
					ops = append(ops, "has", strconv.Itoa(f))
					if m.Contains(tris[f]) {
						outs = append(outs, "1")
					} else {
						outs = append(outs, "0")
					}
				case 7:
					ops = append(ops, "num")
					outs = append(outs, strconv.Itoa(m.NumTriangles()))
				case 8:
					ops = append(ops, "faces")
					outs = append(outs, setStr(ids(m.TriangleSlice())))
				case 9:
					a := subKeys[c.Rng.Intn(sub)]
					ops = append(ops, "find1", strconv.Itoa(a))
					outs = append(outs, setStr(ids(m.Find(rep(a)))))
				case 10:
					t := triIDs[f]
					a, b := t[c.Rng.Intn(3)], t[c.Rng.Intn(3)]
					ops = append(ops, "find2", strconv.Itoa(a), strconv.Itoa(b))
					outs = append(outs, setStr(ids(m.Find(rep(a), rep(b)))))
				case 11:
					t := triIDs[f]
					p := c.Rng.Perm(3)
					ops = append(ops, "find3", strconv.Itoa(t[p[0]]), strconv.Itoa(t[p[1]]), strconv.Itoa(t[p[2]]))
					outs = append(outs, setStr(ids(m.Find(rep(t[p[0]]), rep(t[p[1]]), rep(t[p[2]])))))
				case 12:
					ops = append(ops, "nbr", strconv.Itoa(f))
					outs = append(outs, setStr(ids(m.Neighbors(tris[f]))))
				case 13:
					ops = append(ops, "verts")
					var vs []int
					for _, v := range m.VertexSlice() {
						vs = append(vs, idOf3(pool, v))
					}
					outs = append(outs, setStr(vs))
				case 14:
					switch c.Rng.Intn(3) {
					case 0:
						ops = append(ops, "copy")
						outs = append(outs, setStr(ids(m.Copy().TriangleSlice())))
					case 1:
						ops = append(ops, "deep")
						outs = append(outs, trisStr(meshTris(m.DeepCopy())))
					case 2:
						ops = append(ops, "inv")
						outs = append(outs, trisStr(meshTris(m.InvertNormals())))
					}
				case 15:
					perm := c.Rng.Perm(nk)
					ps := make([]string, nk)
					for j, p := range perm {
						ps[j] = strconv.Itoa(p)
					}
					ops = append(ops, "map", strings.Join(ps, ","))
					m1 := m.MapCoords(func(p model3d.Coord3D) model3d.Coord3D {
						return pool[perm[idOf3(pool, p)]].reps[0]
					})
					outs = append(outs, trisStr(meshTris(m1)))
				}
				if builtAt < 0 && model3d.VerifMeshHasIndex(m) {
					builtAt = i
				}
			}
			return strings.Join(outs, " ")
		})
		if builtAt >= 0 {
			c.Stat("c09.mesh_histories_with_lazy_index_built_midway", 1)
		}
		c.Stat("c09.mesh_histories", 1)
		c.Stat("c09.mesh_ops", nops)
		c.Emit(fmt.Sprintf("c09 mesh %d %s %d %s %s", nk, strings.Join(hashes, " "), nt,
			strings.Join(trisTok, " "), strings.Join(ops, " ")), res)
	}
}
