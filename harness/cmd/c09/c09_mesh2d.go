package main

import (
	"fmt"
	"strconv"
	"strings"

	"github.com/unixpickle/model3d/model2d"
	"verif/harness/hlib"
)

// runC09Mesh2D replays random operation histories on a real *model2d.Mesh (the 2-D instance of
// templates/mesh.template).  A segment (a,b) is sent to the model as the triple a,b,b.
func runC09Mesh2D(c *hlib.Ctx) {
	nz := negZero()
	type key2 struct{ reps []model2d.Coord }
	pool := []key2{
		{[]model2d.Coord{{X: 0, Y: 0}, {X: nz, Y: 0}, {X: 0, Y: nz}, {X: nz, Y: nz}}},
		{[]model2d.Coord{{X: 1, Y: 0}, {X: 1, Y: nz}}},
		{[]model2d.Coord{{X: 0.5, Y: 2}}},
		{[]model2d.Coord{{X: -3, Y: 2}}},
		{[]model2d.Coord{{X: 2, Y: 2}}},
	}
	for _, x := range []float64{1.5, 3, 0.7} {
		if y, ok := findCollision2(x); ok {
			pool = append(pool, key2{[]model2d.Coord{{X: x}}}, key2{[]model2d.Coord{{Y: y}}})
		}
	}
	nk := len(pool)
	hashes := make([]string, nk)
	for i, k := range pool {
		hashes[i] = fmt.Sprintf("%x", model2d.VerifFastHash64(k.reps[0]))
	}
	idOf := func(p model2d.Coord) int {
		for i, k := range pool {
			if k.reps[0] == p {
				return i
			}
		}
		return -1
	}
	rep := func(id int) model2d.Coord { return pool[id].reps[c.Rng.Intn(len(pool[id].reps))] }
	for cse := 0; cse < c.N/2; cse++ {
		nt := 2 + c.Rng.Intn(8)
		segs := make([]*model2d.Segment, nt)
		segIDs := make([][2]int, nt)
		for i := range segs {
			var ids [2]int
			switch {
			case i > 0 && c.Rng.Intn(6) == 0:
				ids = segIDs[c.Rng.Intn(i)]
			case c.Rng.Intn(10) == 0:
				a := c.Rng.Intn(nk)
				ids = [2]int{a, a} // degenerate
			default:
				ids = [2]int{c.Rng.Intn(nk), c.Rng.Intn(nk)}
			}
			segIDs[i] = ids
			segs[i] = &model2d.Segment{rep(ids[0]), rep(ids[1])}
		}
		faceID := map[*model2d.Segment]int{}
		for i, s := range segs {
			faceID[s] = i
		}
		ids := func(ss []*model2d.Segment) []int {
			r := make([]int, len(ss))
			for i, s := range ss {
				id, ok := faceID[s]
				if !ok {
					id = -1
				}
				r[i] = id
			}
			return r
		}
		toks := make([]string, nt)
		for i, s := range segIDs {
			toks[i] = fmt.Sprintf("%d,%d,%d", s[0], s[1], s[1])
		}
		m := model2d.NewMesh()
		other := model2d.NewMesh()
		var ops, outs []string
		nops := 2 + c.Rng.Intn(40)
		res := hlib.Guard(func() string {
			for i := 0; i < nops; i++ {
				f := c.Rng.Intn(nt)
				switch c.Rng.Intn(18) {
				case 14, 15:
					ord := c.Rng.Perm(nt)
					pos := make([]int, nt)
					for i, f := range ord {
						pos[f] = i
					}
					script, tok := genIterScript(c, nt)
					ops = append(ops, "its", seqTok(ord), tok)
					var visited []int
					cb := scriptedCallback(c, script, &visited,
						func(f int) { m.Add(segs[f]) }, func(f int) { m.Remove(segs[f]) },
						func(f int) bool { return m.Contains(segs[f]) })
					m.IterateSorted(func(s *model2d.Segment) {
						id, ok := faceID[s]
						if !ok {
							id = -1
						}
						cb(id)
					}, func(a, b *model2d.Segment) bool { return pos[faceID[a]] < pos[faceID[b]] })
					outs = append(outs, seqStr(visited))
					c.Stat("c09.mesh2d_iterate_sorted_with_mutating_callback", 1)
				case 16:
					script, tok := genIterScript(c, nt)
					var visited []int
					cb := scriptedCallback(c, script, &visited,
						func(f int) { m.Add(segs[f]) }, func(f int) { m.Remove(segs[f]) },
						func(f int) bool { return m.Contains(segs[f]) })
					m.Iterate(func(s *model2d.Segment) {
						id, ok := faceID[s]
						if !ok {
							id = -1
						}
						cb(id)
					})
					ops = append(ops, "it", tok, seqTok(visited))
					outs = append(outs, seqStr(visited))
					c.Stat("c09.mesh2d_iterate_with_mutating_callback", 1)
				case 17:
					script, tok := genIterScript(c, nt)
					var visited []int
					cb := scriptedCallback(c, script, &visited,
						func(f int) { m.Add(segs[f]) }, func(f int) { m.Remove(segs[f]) },
						func(f int) bool { return m.Contains(segs[f]) })
					m.IterateVertices(func(p model2d.Coord) { cb(idOf(p)) })
					ops = append(ops, "itv", tok, seqTok(visited))
					outs = append(outs, seqStr(visited))
					c.Stat("c09.mesh2d_iterate_vertices_with_mutating_callback", 1)
				case 0, 1, 2, 3:
					ops = append(ops, "add", strconv.Itoa(f))
					m.Add(segs[f])
				case 4, 5:
					ops = append(ops, "rem", strconv.Itoa(f))
					m.Remove(segs[f])
				case 6:
					ops = append(ops, "has", strconv.Itoa(f))
					if m.Contains(segs[f]) {
						outs = append(outs, "1")
					} else {
						outs = append(outs, "0")
					}
				case 7:
					ops = append(ops, "num")
					outs = append(outs, strconv.Itoa(m.NumSegments()))
				case 8:
					a := c.Rng.Intn(nk)
					ops = append(ops, "find1", strconv.Itoa(a))
					outs = append(outs, setStr(ids(m.Find(rep(a)))))
				case 9:
					ops = append(ops, "nbr2", strconv.Itoa(f))
					outs = append(outs, setStr(ids(m.Neighbors(segs[f]))))
				case 10:
					ops = append(ops, "verts")
					var vs []int
					for _, v := range m.VertexSlice() {
						vs = append(vs, idOf(v))
					}
					outs = append(outs, setStr(vs))
				case 11:
					ops = append(ops, "cp")
					other = m.Copy()
				case 12:
					ops = append(ops, "sw")
					m, other = other, m
				case 13:
					switch c.Rng.Intn(2) {
					case 0:
						ops = append(ops, "am")
						m.AddMesh(other)
					default:
						ops = append(ops, "inv")
						var ts [][3]int
						m.InvertNormals().Iterate(func(s *model2d.Segment) {
							ts = append(ts, [3]int{idOf(s[0]), idOf(s[1]), idOf(s[0])})
						})
						outs = append(outs, trisStr(ts))
					}
				}
			}
			return strings.Join(outs, " ")
		})
		c.Stat("c09.mesh2d_histories", 1)
		c.Emit(fmt.Sprintf("c09 mesh %d %s %d %s %s", nk, strings.Join(hashes, " "), nt,
			strings.Join(toks, " "), strings.Join(ops, " ")), res)
	}
}
