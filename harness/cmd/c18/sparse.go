package main

import (
	"fmt"
	"math"
	"strings"

	"verif/harness/hlib"

	"github.com/unixpickle/model3d/model2d"
	"github.com/unixpickle/model3d/model3d"
	"github.com/unixpickle/model3d/numerical"
)

// ---------------------------------------------------------------- sparse: numerical.SparseMatrix

// kindSparse drives the real numerical.SparseMatrix (the matrix floater97 assembles its system in)
// with a random sequence of Set calls on distinct (row, col) positions - rows with no entry, a few
// entries, and up to 48 entries; filled row by row (as floater97 does), column by column (as
// Transpose does) or in a random interleaving - and records Apply after a prefix of the calls and
// after all of them, ApplyVec2, the rows as Iterate enumerates them, Transpose() and Permute().
// The Lean side answers with the model M3d.Sparse.SM for the same calls
// (sparse_rows_independent: a row holds exactly what was Set in it).  Mode Q: dyadic values, every
// float operation is exact, the answers must be EQUAL as rationals; mode F: arbitrary floats, the
// model performs the same operations in the same order, bit for bit.
func kindSparse(c *hlib.Ctx) {
	exact := c.Rng.Intn(3) != 0
	n := 1 + c.Rng.Intn(12)
	if c.Rng.Intn(2) == 0 {
		n = 1 + c.Rng.Intn(48)
	}
	val := func() float64 {
		if exact {
			for {
				if k := c.Rng.Intn(129) - 64; k != 0 {
					return float64(k) / 8
				}
			}
		}
		return c.Rng.NormFloat64() * math.Ldexp(1, c.Rng.Intn(21)-10)
	}
	type op struct {
		r, c int
		v    float64
	}
	// the columns of every row
	maxLen := 0
	rows := make([][]op, n)
	for i := range rows {
		var k int
		switch c.Rng.Intn(6) {
		case 0:
			k = 0
		case 1:
			k = n // a full row
		case 2:
			k = c.Rng.Intn(n + 1) // anything up to a full row
		default:
			k = c.Rng.Intn(7) // the usual valence of a mesh vertex
		}
		if k > n {
			k = n
		}
		for _, col := range c.Rng.Perm(n)[:k] {
			rows[i] = append(rows[i], op{i, col, val()})
		}
		if k > maxLen {
			maxLen = k
		}
	}
	var ops []op
	order := c.Rng.Intn(4)
	switch order {
	case 0: // row by row, rows ascending: floater97
		for _, r := range rows {
			ops = append(ops, r...)
		}
	case 1: // row by row, rows in a random order
		for _, i := range c.Rng.Perm(n) {
			ops = append(ops, rows[i]...)
		}
	case 2: // round robin over the rows: what Transpose() produces for a full matrix
		for k := 0; k < maxLen; k++ {
			for _, r := range rows {
				if k < len(r) {
					ops = append(ops, r[k])
				}
			}
		}
	default: // any interleaving
		for _, r := range rows {
			ops = append(ops, r...)
		}
		c.Rng.Shuffle(len(ops), func(i, j int) { ops[i], ops[j] = ops[j], ops[i] })
	}
	p := 0
	if len(ops) > 0 {
		p = c.Rng.Intn(len(ops) + 1)
	}
	x := make(numerical.Vec, n)
	y := make(numerical.Vec, n)
	xy := make([]numerical.Vec2, n)
	for i := range x {
		x[i], y[i] = val(), val()
		if exact && c.Rng.Intn(4) == 0 {
			x[i] = 0
		}
		xy[i] = numerical.Vec2{x[i], y[i]}
	}
	perm := c.Rng.Perm(n)

	num := hlib.RatStr
	mode := "Q"
	if !exact {
		num, mode = hlib.Hex, "F"
	}
	var b strings.Builder
	fmt.Fprintf(&b, "c18 sparse %s N %d P %d OPS %d", mode, n, p, len(ops))
	for _, o := range ops {
		fmt.Fprintf(&b, " %d %d %s", o.r, o.c, num(o.v))
	}
	vec := func(v []float64) string {
		ss := make([]string, len(v))
		for i, f := range v {
			ss[i] = num(f)
		}
		return strings.Join(ss, " ")
	}
	fmt.Fprintf(&b, " X %d %s Y %d %s PERM %s", n, vec(x), n, vec(y), intsStr(perm))

	rowsOf := func(m *numerical.SparseMatrix) string {
		rs := make([]string, n)
		for i := 0; i < n; i++ {
			var es []string
			m.Iterate(i, func(col int, v float64) {
				es = append(es, fmt.Sprintf("%d:%s", col, num(v)))
			})
			rs[i] = strings.Join(es, ",")
		}
		return strings.Join(rs, ";")
	}
	var parts []string
	st := watchdog(func() {
		m := numerical.NewSparseMatrix(n)
		for _, o := range ops[:p] {
			m.Set(o.r, o.c, o.v)
		}
		parts = append(parts, "A1 "+vec(m.Apply(x)))
		for _, o := range ops[p:] {
			m.Set(o.r, o.c, o.v)
		}
		parts = append(parts, "A "+vec(m.Apply(x)))
		var vs []string
		for _, q := range m.ApplyVec2(xy) {
			vs = append(vs, num(q[0])+" "+num(q[1]))
		}
		parts = append(parts, "V "+strings.Join(vs, " "))
		parts = append(parts, "I "+rowsOf(m))
		t := m.Transpose()
		parts = append(parts, "T "+rowsOf(t))
		parts = append(parts, "TA "+vec(t.Apply(x)))
		pm := m.Permute(perm)
		parts = append(parts, "PM "+rowsOf(pm))
		parts = append(parts, "PA "+vec(pm.Apply(x)))
	})
	out := strings.Join(parts, " | ")
	if st != "ok" {
		out = st
	}
	c.Stat("sparse:"+mode, 1)
	c.Stat(fmt.Sprintf("sparse-order%d", order), 1)
	c.Stat(fmt.Sprintf("sparse-longest-row-%02d+", maxLen/8*8), 1)
	c.Emit(b.String(), out)
}

// ---------------------------------------------------------------- discs and bodies with high-valence vertices

// latLong: a latitude / longitude sphere; the two poles have valence `slices`.  Radii per stack
// are perturbed so that it is not a copy of one shape.
func latLong(c *hlib.Ctx, stacks, slices int) *model3d.Mesh {
	return latLongPart(c, stacks, slices, stacks)
}

// latLongPart: the stacks 1..upTo of it (upTo = stacks: the whole sphere).
func latLongPart(c *hlib.Ctx, stacks, slices, upTo int) *model3d.Mesh {
	rad := make([]float64, stacks+1)
	for i := range rad {
		rad[i] = 1 + 0.3*c.Rng.Float64()
	}
	point := func(stack, slice int) model3d.Coord3D {
		lat := math.Pi * float64(stack) / float64(stacks)
		lon := 2 * math.Pi * float64(slice%slices) / float64(slices)
		r := rad[stack]
		return model3d.XYZ(r*math.Sin(lat)*math.Cos(lon), r*math.Sin(lat)*math.Sin(lon), r*math.Cos(lat))
	}
	north, south := model3d.Z(rad[0]), model3d.Z(-rad[stacks])
	m := model3d.NewMesh()
	for j := 0; j < slices; j++ {
		m.Add(&model3d.Triangle{north, point(1, j), point(1, j+1)})
		if upTo >= stacks {
			m.Add(&model3d.Triangle{south, point(stacks-1, j+1), point(stacks-1, j)})
		}
		for i := 1; i < stacks-1 && i < upTo; i++ {
			a, b := point(i, j), point(i, j+1)
			cc, d := point(i+1, j), point(i+1, j+1)
			if (i+j)%2 == 0 {
				m.Add(&model3d.Triangle{a, cc, d})
				m.Add(&model3d.Triangle{a, d, b})
			} else {
				m.Add(&model3d.Triangle{a, cc, b})
				m.Add(&model3d.Triangle{b, cc, d})
			}
		}
	}
	return m
}

// wheel: an open disc around a hub of valence `spokes`: the hub fan and rings-1 rings of quads
// around it, over a random height profile (a cone, a dome, a dish, a flat wheel).
func wheel(c *hlib.Ctx, spokes, rings int) *model3d.Mesh {
	hs := make([]float64, rings+1)
	for i := 1; i <= rings; i++ {
		hs[i] = hs[i-1] + c.Rng.Float64() - 0.3
	}
	pt := func(ring, k int) model3d.Coord3D {
		th := 2 * math.Pi * (float64(k%spokes) + 0.5*float64(ring%2)) / float64(spokes)
		return model3d.XYZ(float64(ring)*math.Cos(th), float64(ring)*math.Sin(th), hs[ring])
	}
	hub := model3d.Z(hs[0])
	m := model3d.NewMesh()
	for k := 0; k < spokes; k++ {
		m.Add(&model3d.Triangle{hub, pt(1, k), pt(1, k+1)})
		for j := 1; j < rings; j++ {
			if j%2 == 1 {
				m.Add(&model3d.Triangle{pt(j, k), pt(j+1, k), pt(j, k+1)})
				m.Add(&model3d.Triangle{pt(j, k+1), pt(j+1, k), pt(j+1, k+1)})
			} else {
				m.Add(&model3d.Triangle{pt(j, k), pt(j+1, k), pt(j+1, k+1)})
				m.Add(&model3d.Triangle{pt(j, k), pt(j+1, k+1), pt(j, k+1)})
			}
		}
	}
	return m
}

// hubValence: mostly the valences library meshes never reach (16 and more: a row of the Floater
// system with more than 16 entries), sometimes small ones.
func hubValence(c *hlib.Ctx) int {
	switch c.Rng.Intn(4) {
	case 0:
		return 3 + c.Rng.Intn(13)
	default:
		return 16 + c.Rng.Intn(17)
	}
}

// removeOne removes one triangle (canonical order, random index): a closed genus-0 surface
// becomes a disc whose boundary is that triangle.
func removeOne(c *hlib.Ctx, m *model3d.Mesh) *model3d.Mesh {
	x := index(m)
	res := m.Copy()
	res.Remove(x.tris[c.Rng.Intn(len(x.tris))])
	return res
}

// dome: the `keep` stacks of a latitude / longitude sphere next to the north pole: a disc around the pole.
func dome(c *hlib.Ctx, slices, keep int) *model3d.Mesh {
	return latLongPart(c, keep+1+c.Rng.Intn(3), slices, keep)
}

// hubDisc: a disc with interior vertices of high valence whose neighbours are interior too: a wheel,
// a dome (the cap of a latitude / longitude sphere), a cylinder without one cap - every vertex within
// a few rings of the boundary - and, with punctured (only for kinds that do not run the iterative
// solver: the far side of such a disc is parameterised below the solver's resolution), closed
// surfaces minus one triangle: a latitude / longitude sphere (two hubs), a spindle (two hubs).
func hubDisc(c *hlib.Ctx, maxTris int, punctured bool) (*model3d.Mesh, string) {
	for {
		var m *model3d.Mesh
		label := ""
		v := hubValence(c)
		k := c.Rng.Intn(3)
		if punctured {
			k = c.Rng.Intn(5)
		}
		switch k {
		case 0:
			m, label = wheel(c, v, 2+c.Rng.Intn(3)), "wheel"
		case 1:
			m, label = dome(c, v, 2+c.Rng.Intn(2)), "dome"
		case 2:
			cyl := model3d.NewMeshCylinder(model3d.Origin, model3d.Z(1+c.Rng.Float64()), 0.5+c.Rng.Float64(), v)
			m = model3d.NewMesh()
			cyl.Iterate(func(t *model3d.Triangle) {
				if t[0] == model3d.Origin || t[1] == model3d.Origin || t[2] == model3d.Origin {
					return // the cap around p1
				}
				m.Add(t)
			})
			label = "cylinder-minus-cap"
		case 3:
			m, label = removeOne(c, latLong(c, 3+c.Rng.Intn(4), v)), "latlong-minus-triangle"
		default:
			m = model3d.NewMesh()
			addCone(m, model3d.Origin, model3d.Z(1), 1, 1+c.Rng.Float64(), v, 1+c.Rng.Intn(3), true)
			m, label = removeOne(c, m), "spindle-minus-triangle"
		}
		if n := m.NumTriangles(); n >= 1 && n <= maxTris {
			c.Stat("hub-disc:"+label, 1)
			return m, label
		}
	}
}

// maxInteriorRow: the longest row the Floater system of this disc has: 1 + the largest number of
// interior neighbours of an interior vertex.
func maxInteriorRow(p *paramSetup) int {
	isB := map[int]bool{}
	p.boundary.Range(func(k model3d.Coord3D, _ model2d.Coord) bool {
		isB[p.x.vid[k]] = true
		return true
	})
	best := 0
	for v, ns := range p.nbrs {
		if isB[v] {
			continue
		}
		k := 1
		for _, nb := range ns {
			if !isB[nb] {
				k++
			}
		}
		if k > best {
			best = k
		}
	}
	return best
}

// rowStat buckets the longest row of the Floater system of p (16 entries = the valence no
// library-made mesh reaches).
func rowStat(kind string, p *paramSetup) string {
	k := maxInteriorRow(p)
	switch {
	case k > 24:
		return kind + "-longest-system-row:25+"
	case k > 16:
		return kind + "-longest-system-row:17-24"
	case k > 8:
		return kind + "-longest-system-row:09-16"
	default:
		return kind + "-longest-system-row:01-08"
	}
}
