package main

import (
	"fmt"
	"math"
	"sort"
	"strings"

	"verif/harness/hlib"

	"github.com/unixpickle/model3d/model2d"
	"github.com/unixpickle/model3d/model3d"
	"github.com/unixpickle/model3d/numerical"
)

// ---------------------------------------------------------------- hist: several solves over ONE boundary map

// snapSolver delegates to the library's default solver and records, at every call, the edge
// weights the system was assembled from (StretchMinimizingParameterization rewrites them in place).
type snapSolver struct {
	inner numerical.LargeLinearSolver
	w     *model3d.EdgeMap[float64]
	snaps []*model3d.EdgeMap[float64]
}

func copyWeights(w *model3d.EdgeMap[float64]) *model3d.EdgeMap[float64] {
	cp := model3d.NewEdgeMap[float64]()
	w.Range(func(k [2]model3d.Coord3D, v float64) bool {
		cp.Store(k, v)
		return true
	})
	return cp
}

func (s *snapSolver) SolveLinearSystem(op func(v numerical.Vec) numerical.Vec, b, initGuess numerical.Vec) numerical.Vec {
	s.snaps = append(s.snaps, copyWeights(s.w))
	return s.inner.SolveLinearSystem(op, b, initGuess)
}

// floatResidual: the largest deviation of an interior vertex (not a key of b0) from the weighted
// mean of its neighbours (float arithmetic; only used to pick which recorded weight set to report).
func floatResidual(p *paramSetup, b0 map[model3d.Coord3D]model2d.Coord, w *model3d.EdgeMap[float64],
	res *model3d.CoordMap[model2d.Coord]) float64 {
	worst := 0.0
	for v, ns := range p.nbrs {
		cv := p.x.coords[v]
		if _, isB := b0[cv]; isB {
			continue
		}
		var sum model2d.Coord
		tot := 0.0
		for _, nb := range ns {
			wt, ok := w.Load([2]model3d.Coord3D{cv, p.x.coords[nb]})
			if !ok {
				return math.Inf(1)
			}
			sum = sum.Add(res.Value(p.x.coords[nb]).Scale(wt))
			tot += wt
		}
		d := res.Value(cv).Sub(sum.Scale(1 / tot))
		if e := math.Max(math.Abs(d.X), math.Abs(d.Y)); e > worst || math.IsNaN(e) {
			worst = e
		}
	}
	return worst
}

// kindHist: a history of 2..4 solves (Floater97 / StretchMinimizingParameterization with the four
// weightings) that share ONE boundary CoordMap.  After every solve the line records the boundary
// map as it is then, the weights the returned solution was assembled from and the solution; the
// Lean side demands: the boundary map is what it was before the first solve, the solution agrees
// with it on the boundary, every interior vertex is the weighted mean of its neighbours for THIS
// solve's weights, and the layout is valid.
func kindHist(c *hlib.Ctx) {
	p := newSetup(c, c.Rng.Intn(4) == 0, 100)
	x := p.x
	b0 := map[model3d.Coord3D]model2d.Coord{}
	p.boundary.Range(func(k model3d.Coord3D, v model2d.Coord) bool {
		b0[k] = v
		return true
	})
	isB := func(v model3d.Coord3D) bool {
		_, ok := b0[v]
		return ok
	}
	k := 2 + c.Rng.Intn(3)
	head := fmt.Sprintf("c18 hist L %s H %s TOL 1/1000000 T %s %s K %d", r(p.lo), r(p.hi), soupStr(x.soup),
		p.boundarySection(), k)
	var sb strings.Builder
	desc := p.bdesc
	for s := 0; s < k; s++ {
		w, wd := p.weights, p.wdesc
		if s > 0 {
			wk := c.Rng.Intn(4)
			if st := watchdog(func() { w, wd = pickWeights(c, p, wk, isB) }); st != "ok" {
				c.Stat("hist-weights-failed", 1)
				return
			}
		}
		stretch := c.Rng.Intn(3) == 0
		iters := 1 + c.Rng.Intn(3)
		mode := "floater"
		used := w
		var res *model3d.CoordMap[model2d.Coord]
		st := watchdog(func() {
			if stretch {
				mode = "stretch"
				ss := &snapSolver{inner: model3d.Floater97DefaultSolver(), w: w}
				res = model3d.StretchMinimizingParameterization(x.m, p.boundary, w, ss, iters, 0.75, false)
				// the returned solution is the last or the last but one solve
				n := len(ss.snaps)
				if n == 0 {
					used = copyWeights(w)
					return
				}
				used = ss.snaps[n-1]
				if n >= 4 {
					if floatResidual(p, b0, ss.snaps[n-3], res) < floatResidual(p, b0, used, res) {
						used = ss.snaps[n-3]
						c.Stat("hist-stretch-returned-previous", 1)
					}
				}
			} else {
				used = copyWeights(w)
				res = model3d.Floater97(x.m, p.boundary, w, nil)
			}
		})
		desc += ":" + mode + "-" + wd
		fmt.Fprintf(&sb, " S %s", mode)
		if st != "ok" {
			c.Emit(head+sb.String()+" X "+st, "ok")
			return
		}
		fmt.Fprintf(&sb, " %s BA%s", wSection(x, used), bSection(x, p.boundary))
		var xs strings.Builder
		for id, co := range x.coords {
			v, ok := res.Load(co)
			if !ok || math.IsNaN(v.X) || math.IsNaN(v.Y) || math.IsInf(v.X, 0) || math.IsInf(v.Y, 0) {
				c.Emit(head+sb.String()+" X missing-or-nan", "ok")
				return
			}
			fmt.Fprintf(&xs, " %d %s %s", id, r(v.X), r(v.Y))
		}
		fmt.Fprintf(&sb, " X %d%s", len(x.coords), xs.String())
	}
	c.Stat(fmt.Sprintf("hist-steps-%d", k), 1)
	c.Stat(rowStat("hist", p), 1)
	c.Stat("hist:"+desc, 1)
	c.Emit(head+sb.String(), "ok")
}

// ---------------------------------------------------------------- near: MapFn for queries outside every UV triangle

// isoLayout: a UV layout made of up to four separate blocks of right isosceles triangles with
// power-of-two legs at dyadic positions (some triangles removed), over dyadic 3-D positions.
// Every operation of Triangle.genericSDF / Rect.SDF / AtBarycentric on a query with coordinates in
// 1/64 is exact in float64 (edge lengths squared are powers of two), so the real answer must be
// EQUAL to the model's answer in rational arithmetic.
type isoLayout struct {
	uv [][3]model2d.Coord
	t3 []*model3d.Triangle
	lo model2d.Coord
	hi model2d.Coord
	// number of UV triangles whose corners run clockwise / counter-clockwise
	cw, ccw int
}

func genIsoLayout(c *hlib.Ctx) *isoLayout {
	l := &isoLayout{}
	nb := 1 + c.Rng.Intn(4)
	relabel := c.Rng.Intn(2) == 0 // half of the layouts keep the stored order of every triangle
	for b := 0; b < nb; b++ {
		s := pow2(-1 - c.Rng.Intn(3))
		nx, ny := 1+c.Rng.Intn(3), 1+c.Rng.Intn(3)
		if float64(nx)*s > 1 {
			nx = int(1 / s)
		}
		if float64(ny)*s > 1 {
			ny = int(1 / s)
		}
		// slot (b%2, b/2) of side 3/2; the block stays inside its slot
		ox := 1.5*float64(b%2) + float64(c.Rng.Intn(4))/8
		oy := 1.5*float64(b/2) + float64(c.Rng.Intn(4))/8
		h := make([][]model3d.Coord3D, nx+1)
		for i := range h {
			h[i] = make([]model3d.Coord3D, ny+1)
			for j := range h[i] {
				h[i][j] = model3d.XYZ(float64(4*b+i)+dy(c, 1, 2)/4, float64(j)+dy(c, 1, 2)/4, dy(c, 2, 3))
			}
		}
		// each block through its own symmetry of the square (mirrored / transposed / turned chart; half
		// of them orientation reversing: clockwise UV triangles); the block stays inside its slot
		sym := pickBoxSym(c)
		uvp := func(i, j int) model2d.Coord { return sym.at(ox, oy, s, s, nx, ny, i, j) }
		var tris [][3][2]int
		for i := 0; i < nx; i++ {
			for j := 0; j < ny; j++ {
				if c.Rng.Intn(2) == 0 {
					tris = append(tris, [3][2]int{{i, j}, {i + 1, j}, {i + 1, j + 1}}, [3][2]int{{i, j}, {i + 1, j + 1}, {i, j + 1}})
				} else {
					tris = append(tris, [3][2]int{{i, j}, {i + 1, j}, {i, j + 1}}, [3][2]int{{i + 1, j}, {i + 1, j + 1}, {i, j + 1}})
				}
			}
		}
		kept := 0
		for ti, t := range tris {
			// drop a quarter of the triangles (holes and ragged borders), keep at least one
			if c.Rng.Intn(4) == 0 && !(kept == 0 && ti == len(tris)-1) {
				continue
			}
			kept++
			rot := c.Rng.Intn(3)
			rev := relabel && c.Rng.Intn(3) == 0 // corners stored in the reverse order (3-D and UV alike)
			var u [3]model2d.Coord
			var p3 model3d.Triangle
			for k := 0; k < 3; k++ {
				a := t[(k+rot)%3]
				if rev {
					a = t[(3-k+rot)%3]
				}
				u[k] = uvp(a[0], a[1])
				p3[k] = h[a[0]][a[1]]
			}
			if sym.reverses() != rev {
				l.cw++
			} else {
				l.ccw++
			}
			l.uv = append(l.uv, u)
			tt := p3
			l.t3 = append(l.t3, &tt)
		}
	}
	l.lo, l.hi = l.uv[0][0], l.uv[0][0]
	for _, u := range l.uv {
		for _, p := range u {
			l.lo, l.hi = l.lo.Min(p), l.hi.Max(p)
		}
	}
	return l
}

// query: a point with coordinates in 1/64: anywhere in a box around the layout, close to a
// triangle corner or edge midpoint, or far away.
func (l *isoLayout) query(c *hlib.Ctx) (model2d.Coord, string) {
	q64 := func(x float64) float64 { return math.Round(x*64) / 64 }
	switch c.Rng.Intn(6) {
	case 0:
		sx, sy := float64(c.Rng.Intn(3)-1), float64(c.Rng.Intn(3)-1)
		if sx == 0 && sy == 0 {
			sx = 1
		}
		d := float64(int(4) << uint(c.Rng.Intn(5)))
		return model2d.XY(q64(l.lo.X+sx*d+c.Rng.Float64()), q64(l.lo.Y+sy*d+c.Rng.Float64())), "far"
	case 1, 2:
		u := l.uv[c.Rng.Intn(len(l.uv))]
		base := u[c.Rng.Intn(3)]
		if c.Rng.Intn(2) == 0 {
			base = base.Mid(u[c.Rng.Intn(3)])
		}
		off := model2d.XY(float64(c.Rng.Intn(17)-8)/64, float64(c.Rng.Intn(17)-8)/64)
		return model2d.XY(q64(base.X+off.X), q64(base.Y+off.Y)), "near-corner-or-edge"
	default:
		w := l.hi.Sub(l.lo)
		return model2d.XY(q64(l.lo.X-0.75+c.Rng.Float64()*(w.X+1.5)), q64(l.lo.Y-0.75+c.Rng.Float64()*(w.Y+1.5))), "box"
	}
}

func (l *isoLayout) section(with3d bool) string {
	var b strings.Builder
	fmt.Fprintf(&b, "N %d", len(l.uv))
	for i, u := range l.uv {
		for _, p := range u {
			fmt.Fprintf(&b, " %s %s", r(p.X), r(p.Y))
		}
		if with3d {
			for _, p := range l.t3[i] {
				fmt.Fprintf(&b, " %s %s %s", r(p.X), r(p.Y), r(p.Z))
			}
		}
	}
	return b.String()
}

// contained reports (float arithmetic, exact on these layouts) whether some triangle contains q.
func (l *isoLayout) contained(q model2d.Coord) bool {
	for _, u := range l.uv {
		if model2d.NewTriangle(u[0], u[1], u[2]).Contains(q) {
			return true
		}
	}
	return false
}

// kindNearTree: the hierarchy behind MapFn (newTri2dLookup + Find through the hook) over a triangle
// order chosen here (random, or the one GroupBounders produces), against the faithful model
// (halving tree, containment scan, pruned nearest search with the closer child first): the returned
// triangle and barycentric coordinates must be EQUAL.  Validates the model the theorems are about.
func kindNearTree(c *hlib.Ctx) {
	l := genIsoLayout(c)
	perm := c.Rng.Perm(len(l.uv))
	ordered := &isoLayout{lo: l.lo, hi: l.hi, cw: l.cw, ccw: l.ccw}
	c.Stat("near-tree-uv-orientation:"+orientLabel(l.cw, l.ccw), 1)
	for _, i := range perm {
		ordered.uv = append(ordered.uv, l.uv[i])
		ordered.t3 = append(ordered.t3, l.t3[i])
	}
	l = ordered
	tris := make([]*model2d.Triangle, len(l.uv))
	for i, u := range l.uv {
		tris[i] = model2d.NewTriangle(u[0], u[1], u[2])
	}
	if c.Rng.Intn(2) == 0 {
		// the order MapFn uses; triangles are told apart by pointer
		model2d.GroupBounders(tris)
		c.Stat("near-tree-grouped", 1)
	}
	idx := map[*model2d.Triangle]int{}
	var b strings.Builder
	fmt.Fprintf(&b, "N %d", len(tris))
	for i, t := range tris {
		idx[t] = i
		for _, p := range t.Coords() {
			fmt.Fprintf(&b, " %s %s", r(p.X), r(p.Y))
		}
	}
	var lk *model3d.VerifTri2dLookup
	if st := watchdog(func() { lk = model3d.VerifNewTri2dLookup(tris) }); st != "ok" {
		c.Emit("c18 near T Q 0 0 "+b.String(), st)
		return
	}
	for k := 0; k < 3; k++ {
		q, qd := l.query(c)
		var rt *model2d.Triangle
		var bary [3]float64
		st := watchdog(func() { rt, bary = lk.Find(q, 0) })
		out := st
		if st == "ok" {
			if rt == nil {
				out = "nil"
			} else {
				out = fmt.Sprintf("%d %s %s %s", idx[rt], r(bary[0]), r(bary[1]), r(bary[2]))
			}
		}
		if l.contained(q) {
			c.Stat("near-tree-inside", 1)
		} else {
			c.Stat("near-tree-outside:"+qd, 1)
		}
		c.Emit(fmt.Sprintf("c18 near T Q %s %s %s", r(q.X), r(q.Y), b.String()), out)
	}
}

// emitNear queries the real MapFn at q and records the whole layout and the answer; the Lean side
// answers `ok` iff the returned triangle is one at the smallest distance from q (0 = contains q;
// linear scan in rational arithmetic) and the returned 3-D point is the interpolation, in that
// triangle, of its point closest to q.
func emitNear(c *hlib.Ctx, mode string, sect string, index map[*model3d.Triangle]int,
	fn func(model2d.Coord) (model3d.Coord3D, *model3d.Triangle), q model2d.Coord) {
	var p model3d.Coord3D
	var rt *model3d.Triangle
	st := watchdog(func() { p, rt = fn(q) })
	op := fmt.Sprintf("c18 near %s Q %s %s %s R ", mode, r(q.X), r(q.Y), sect)
	if st != "ok" || rt == nil {
		if st == "ok" {
			st = "nil"
		}
		c.Emit(op+st, "ok")
		return
	}
	i, ok := index[rt]
	if !ok || math.IsNaN(p.X+p.Y+p.Z) || math.IsInf(p.X+p.Y+p.Z, 0) {
		c.Emit(op+"foreign-triangle-or-nan", "ok")
		return
	}
	c.Emit(op+fmt.Sprintf("%d %s %s %s", i, r(p.X), r(p.Y), r(p.Z)), "ok")
}

// kindNearMap: the real MeshUVMap.MapFn on an isoLayout (exact).
func kindNearMap(c *hlib.Ctx) {
	l := genIsoLayout(c)
	uv := model3d.MeshUVMap{}
	index := map[*model3d.Triangle]int{}
	for i, t := range l.t3 {
		uv[t] = l.uv[i]
		index[t] = i
	}
	var fn func(model2d.Coord) (model3d.Coord3D, *model3d.Triangle)
	if st := watchdog(func() { fn = uv.MapFn() }); st != "ok" {
		c.Emit("c18 near M Q 0 0 "+l.section(true)+" R "+st, "ok")
		return
	}
	sect := l.section(true)
	c.Stat(fmt.Sprintf("near-map-triangles-%02d", (len(l.uv)+7)/8*8), 1)
	c.Stat("near-map-uv-orientation:"+orientLabel(l.cw, l.ccw), 1)
	for k := 0; k < 4; k++ {
		q, qd := l.query(c)
		if l.contained(q) {
			c.Stat("near-map-inside", 1)
		} else {
			c.Stat("near-map-outside:"+qd, 1)
		}
		emitNear(c, "M", sect, index, fn, q)
	}
}

// nearAtlas: MapFn of a real atlas at points that are mostly outside every UV triangle (next to
// chart borders, outside the unit square, far away).  Float arithmetic: the Lean side allows
// 1e-9 relative slack on the squared distance and 1e-7 on the point (validation).
func nearAtlas(c *hlib.Ctx, x *indexed, uv model3d.MeshUVMap, fn func(model2d.Coord) (model3d.Coord3D, *model3d.Triangle)) {
	if len(x.tris) > 150 {
		return
	}
	var b strings.Builder
	index := map[*model3d.Triangle]int{}
	fmt.Fprintf(&b, "N %d", len(x.tris))
	for i, t := range x.tris {
		index[t] = i
		for _, p := range uv[t] {
			fmt.Fprintf(&b, " %s %s", r(p.X), r(p.Y))
		}
		for _, p := range t {
			fmt.Fprintf(&b, " %s %s %s", r(p.X), r(p.Y), r(p.Z))
		}
	}
	sect := b.String()
	for k := 0; k < 3; k++ {
		var q model2d.Coord
		switch c.Rng.Intn(4) {
		case 0:
			q = model2d.XY(c.Rng.Float64()*3-1, c.Rng.Float64()*3-1)
			c.Stat("near-atlas:around-unit-square", 1)
		case 1:
			q = model2d.XY((c.Rng.Float64()-0.5)*100, (c.Rng.Float64()-0.5)*100)
			c.Stat("near-atlas:far", 1)
		default:
			// just off a chart border: a UV corner or edge midpoint pushed a little in a random direction
			u := uv[x.tris[c.Rng.Intn(len(x.tris))]]
			base := u[c.Rng.Intn(3)].Mid(u[c.Rng.Intn(3)])
			th := c.Rng.Float64() * 2 * math.Pi
			d := math.Ldexp(1, -2-c.Rng.Intn(9))
			q = base.Add(model2d.XY(math.Cos(th), math.Sin(th)).Scale(d))
			c.Stat("near-atlas:off-border", 1)
		}
		emitNear(c, "N", sect, index, fn, q)
	}
}

// ---------------------------------------------------------------- spiked meshes for the atlas

// addCone adds a cone with `sides` sides and `rings` rings of quads below the apex fan (rings = 1:
// just the fan) around the axis `axis` (unit) at `base`; closed adds the mirrored cone.
func addCone(m *model3d.Mesh, base, axis model3d.Coord3D, radius, height float64, sides, rings int, closed bool) {
	b1, b2 := axis.OrthoBasis()
	pt := func(ring, k int, sign float64) model3d.Coord3D {
		f := 1 - float64(ring)/float64(rings)
		th := 2 * math.Pi * float64(k%sides) / float64(sides)
		return base.Add(b1.Scale(radius * f * math.Cos(th))).Add(b2.Scale(radius * f * math.Sin(th))).
			Add(axis.Scale(sign * height * float64(ring) / float64(rings)))
	}
	half := func(sign float64) {
		add := func(a, b, c model3d.Coord3D) {
			if sign > 0 {
				m.Add(&model3d.Triangle{a, b, c})
			} else {
				m.Add(&model3d.Triangle{b, a, c})
			}
		}
		for j := 0; j+1 < rings; j++ {
			for k := 0; k < sides; k++ {
				add(pt(j, k, sign), pt(j, k+1, sign), pt(j+1, k+1, sign))
				add(pt(j, k, sign), pt(j+1, k+1, sign), pt(j+1, k, sign))
			}
		}
		apex := base.Add(axis.Scale(sign * height))
		for k := 0; k < sides; k++ {
			add(pt(rings-1, k, sign), pt(rings-1, k+1, sign), apex)
		}
	}
	half(1)
	if closed {
		half(-1)
	}
}

// growSpike replaces the triangle t of m by a small central triangle carrying a 3-sided spike of
// the given height (in units of the spike's base size) and six triangles filling the ring.
func growSpike(m *model3d.Mesh, t *model3d.Triangle, shrink, height float64) {
	ctr := t[0].Add(t[1]).Add(t[2]).Scale(1.0 / 3)
	var in [3]model3d.Coord3D
	for i := range in {
		in[i] = ctr.Add(t[i].Sub(ctr).Scale(shrink))
	}
	size := in[0].Dist(in[1])
	apex := ctr.Add(t.Normal().Scale(size * height))
	m.Remove(t)
	for i := 0; i < 3; i++ {
		j := (i + 1) % 3
		m.Add(&model3d.Triangle{t[i], t[j], in[j]})
		m.Add(&model3d.Triangle{t[i], in[j], in[i]})
		m.Add(&model3d.Triangle{in[i], in[j], apex})
	}
}

// spikedMesh: a large body (sheet, grid patch, icosphere, box) with thin spikes, needles or cones:
// separate components or grown out of a face; the normalised stretch of such a chart is about
// height / (2 radius), on both sides of the atlas limit 10, and its share of the area is often
// below 1/512, so that BuildAutomaticUVMap meets over-stretched charts it cannot split.
func spikedMesh(c *hlib.Ctx) gmesh {
	m := model3d.NewMesh()
	closed := true
	label := ""
	big := float64(int(4) << uint(c.Rng.Intn(3)))
	switch c.Rng.Intn(4) {
	case 0:
		a, b, cc, d := model3d.XYZ(0, 0, 0), model3d.XYZ(big, 0, 0), model3d.XYZ(big, big, 0), model3d.XYZ(0, big, 0)
		m.Add(&model3d.Triangle{a, b, cc})
		m.Add(&model3d.Triangle{a, cc, d})
		closed, label = false, "sheet"
	case 1:
		m.AddMesh(heightField(c, 2+c.Rng.Intn(3), 2+c.Rng.Intn(3)).Scale(big))
		closed, label = false, "patch"
	case 2:
		m.AddMesh(model3d.NewMeshIcosphere(model3d.Origin, big/2, 1+c.Rng.Intn(2)))
		label = "icosphere"
	default:
		m.AddMesh(model3d.NewMeshRect(model3d.Origin, model3d.XYZ(big, big/2, big/4)))
		label = "box"
	}
	n := 1 + c.Rng.Intn(3)
	for i := 0; i < n; i++ {
		radius := math.Ldexp(1, -2-c.Rng.Intn(5))
		ratio := []float64{3, 8, 15, 30, 60, 200}[c.Rng.Intn(6)]
		// clear of the body (x <= 2 big) and of the other spikes (needles run along x, cones along z)
		at := model3d.XYZ(3*big+1, float64(10*i), 0)
		switch c.Rng.Intn(5) {
		case 0:
			addCone(m, at, model3d.Z(1), radius, 2*radius*ratio, 3+c.Rng.Intn(6), 1, false)
			closed = false
			label += "+cone"
		case 1:
			addCone(m, at, model3d.Z(1), radius, 2*radius*ratio, 3+c.Rng.Intn(6), 1+c.Rng.Intn(3), true)
			label += "+spindle"
		case 2:
			addCone(m, at, model3d.Z(1), radius, 2*radius*ratio, 3+c.Rng.Intn(4), 2+c.Rng.Intn(3), false)
			closed = false
			label += "+ringed-cone"
		case 3:
			// a needle: one long thin triangle on its own
			m.Add(&model3d.Triangle{at, at.Add(model3d.X(radius * ratio)), at.Add(model3d.XYZ(radius*ratio/2, radius/4, 0))})
			closed = false
			label += "+needle"
		default:
			ts := m.TriangleSlice()
			sort.Slice(ts, func(i, j int) bool {
				for k := 0; k < 3; k++ {
					if ts[i][k] != ts[j][k] {
						return less3(ts[i][k], ts[j][k])
					}
				}
				return false
			})
			growSpike(m, ts[c.Rng.Intn(len(ts))], math.Ldexp(1, -3-c.Rng.Intn(4)), ratio)
			label += "+grown-spike"
		}
	}
	return gmesh{m, "spiked(" + label + ")", closed}
}

// longCone: one long ringed cone on its own (area share 1): an over-stretched disc whose pieces stay
// over-stretched, so the atlas recursion goes deep and ends in pieces it cannot split.
func longCone(c *hlib.Ctx) gmesh {
	m := model3d.NewMesh()
	sides := 3 + c.Rng.Intn(3)
	rings := 4 + c.Rng.Intn(12)
	addCone(m, model3d.Origin, model3d.Z(1), 0.25, 0.5*[]float64{20, 60, 200}[c.Rng.Intn(3)], sides, rings, false)
	return gmesh{m, "long-cone", false}
}
