package main

import (
	"fmt"
	"math"
	"strings"

	"verif/harness/hlib"

	"github.com/unixpickle/model3d/numerical"
)

// ---------------------------------------------------------------- cg: numerical.BiCGSTAB, bit for bit

func hexOrNaN(x float64) string {
	if math.IsNaN(x) {
		return "nan"
	}
	return hlib.Hex(x)
}

// kindCG runs the real BiCGSTABSolver.SolveLinearSystem and the real BiCGSTAB.Iter on the operator
// SparseMatrix.Apply of a generated system and records the returned vectors; the Lean side runs the
// model M3d.CG (over the SparseMatrix model) with the same operations in the same order at Float:
// the bits must be equal.  Systems: Floater-like (diagonal -1, positive weights summing to at most
// 1), diagonally dominant, scaled identities and permutations (BiCGSTAB finishes in its first
// half-step: the `t.Norm() == 0` exit), singular matrices (a zero row / two equal rows), zero
// right-hand sides and exact initial guesses (the `r.Norm() == 0` exit), 1x1 and 2x2 systems.
func kindCG(c *hlib.Ctx) {
	n := 1 + c.Rng.Intn(4)
	if c.Rng.Intn(2) == 0 {
		n = 1 + c.Rng.Intn(24)
	}
	type op struct {
		r, c int
		v    float64
	}
	var ops []op
	kind := c.Rng.Intn(6)
	desc := ""
	switch kind {
	case 0, 1:
		desc = "floater-like"
		for i := 0; i < n; i++ {
			ops = append(ops, op{i, i, -1})
			k := c.Rng.Intn(7)
			if c.Rng.Intn(8) == 0 {
				k = n - 1
			}
			if k > n-1 {
				k = n - 1
			}
			cols := c.Rng.Perm(n)
			ws := make([]float64, 0, k+1)
			tot := 0.0
			for j := 0; j <= k; j++ { // one extra weight for the boundary part
				w := 0.05 + c.Rng.Float64()
				ws = append(ws, w)
				tot += w
			}
			used := 0
			for _, col := range cols {
				if used == k {
					break
				}
				if col == i {
					continue
				}
				ops = append(ops, op{i, col, ws[used] / tot})
				used++
			}
		}
	case 2:
		desc = "diagonally-dominant"
		for i := 0; i < n; i++ {
			sum := 0.0
			for _, col := range c.Rng.Perm(n)[:c.Rng.Intn(n+1)] {
				if col == i {
					continue
				}
				v := c.Rng.NormFloat64()
				ops = append(ops, op{i, col, v})
				sum += math.Abs(v)
			}
			d := sum + 0.1 + c.Rng.Float64()
			if c.Rng.Intn(2) == 0 {
				d = -d
			}
			ops = append(ops, op{i, i, d})
		}
	case 3:
		desc = "scaled-permutation"
		s := math.Ldexp(1, c.Rng.Intn(7)-3)
		if c.Rng.Intn(3) == 0 {
			s = 0.1 + c.Rng.Float64()*3
		}
		p := c.Rng.Perm(n)
		if c.Rng.Intn(2) == 0 {
			for i := range p {
				p[i] = i
			}
		}
		for i := 0; i < n; i++ {
			ops = append(ops, op{i, p[i], s})
		}
	case 4:
		desc = "singular"
		for i := 0; i < n; i++ {
			if i == 0 && c.Rng.Intn(2) == 0 {
				continue // a zero row
			}
			src := i
			if i == n-1 && n > 1 {
				src = 0 // the last row repeats the first
			}
			for col := 0; col < n; col++ {
				if (src+col)%3 != 1 {
					ops = append(ops, op{i, col, float64((src*7+col*3)%5) - 2.5})
				}
			}
		}
	default:
		desc = "random"
		for i := 0; i < n; i++ {
			for _, col := range c.Rng.Perm(n)[:c.Rng.Intn(n+1)] {
				ops = append(ops, op{i, col, c.Rng.NormFloat64()})
			}
		}
	}
	b := make(numerical.Vec, n)
	for i := range b {
		b[i] = c.Rng.NormFloat64()
		if kind == 3 && c.Rng.Intn(2) == 0 {
			b[i] = float64(c.Rng.Intn(17)-8) / 4
		}
	}
	bdesc := "rhs"
	if c.Rng.Intn(8) == 0 {
		for i := range b {
			b[i] = 0
		}
		bdesc = "zero-rhs"
	}
	m := numerical.NewSparseMatrix(n)
	for _, o := range ops {
		m.Set(o.r, o.c, o.v)
	}
	var guess numerical.Vec
	switch c.Rng.Intn(4) {
	case 0:
		guess = make(numerical.Vec, n)
		for i := range guess {
			guess[i] = c.Rng.NormFloat64()
		}
		bdesc += "+guess"
	case 1:
		// an exact solution as the initial guess: b := A*guess
		guess = make(numerical.Vec, n)
		for i := range guess {
			guess[i] = float64(c.Rng.Intn(9) - 4)
		}
		b = m.Apply(guess)
		bdesc = "exact-guess"
	}
	maxIters := 1 + c.Rng.Intn(3*n+8)
	mse, mae := 0.0, 0.0
	switch c.Rng.Intn(4) {
	case 0:
	case 1:
		mse = 1e-16
	case 2:
		mae = math.Ldexp(1, -10-c.Rng.Intn(30))
	default:
		mse, mae = math.Ldexp(1, -20-c.Rng.Intn(40)), math.Ldexp(1, -10-c.Rng.Intn(30))
	}
	iters := 1 + c.Rng.Intn(6)

	vec := func(v []float64) string {
		ss := make([]string, len(v))
		for i, f := range v {
			ss[i] = hexOrNaN(f)
		}
		return strings.Join(ss, " ")
	}
	var sb strings.Builder
	fmt.Fprintf(&sb, "c18 cg F N %d OPS %d", n, len(ops))
	for _, o := range ops {
		fmt.Fprintf(&sb, " %d %d %s", o.r, o.c, hlib.Hex(o.v))
	}
	fmt.Fprintf(&sb, " B %d %s G %d", n, vec(b), len(guess))
	if len(guess) > 0 {
		sb.WriteString(" " + vec(guess))
	}
	fmt.Fprintf(&sb, " MAXIT %d MSE %s MAE %s IT %d", maxIters, hlib.Hex(mse), hlib.Hex(mae), iters)

	sol := ""
	st := watchdog(func() {
		solver := &numerical.BiCGSTABSolver{MaxIters: maxIters, MSETolerance: mse, MAETolerance: mae}
		var g numerical.Vec
		if guess != nil {
			g = append(numerical.Vec{}, guess...)
		}
		sol = vec(solver.SolveLinearSystem(m.Apply, append(numerical.Vec{}, b...), g))
	})
	switch {
	case st == "panic:NaN_detected_during_solving" || strings.HasPrefix(st, "panic:NaN"):
		sol = "panic"
		c.Stat("cg-nan-panic", 1)
	case st != "ok":
		sol = st
	}
	var its []string
	st2 := watchdog(func() {
		var g numerical.Vec
		if guess != nil {
			g = append(numerical.Vec{}, guess...)
		}
		s := numerical.NewBiCGSTAB(m.Apply, append(numerical.Vec{}, b...), g)
		for i := 0; i < iters; i++ {
			its = append(its, vec(s.Iter()))
		}
	})
	out := "S " + sol + " | I " + strings.Join(its, " ; ")
	if st2 != "ok" {
		out = "S " + sol + " | I " + st2
	}
	c.Stat("cg:"+desc+":"+bdesc, 1)
	c.Emit(sb.String(), out)
}
