package main

import (
	"fmt"
	"math"
	"sort"
	"strconv"
	"strings"

	"verif/harness/hlib"

	"github.com/unixpickle/model3d/model2d"
	"github.com/unixpickle/model3d/model3d"
	"github.com/unixpickle/model3d/numerical"
)

func main() { hlib.Main("C18", run) }

func run(c *hlib.Ctx) {
	fixedCases(c)
	n := c.N
	for i := 0; i < n; i++ {
		kindGrow(c)
	}
	for i := 0; i < n; i++ {
		kindCharts(c)
	}
	for i := 0; i < n/2; i++ {
		kindBseq(c)
	}
	for i := 0; i < n/2; i++ {
		kindSystem(c)
	}
	for i := 0; i < n/2; i++ {
		kindParam(c)
	}
	for i := 0; i < n/4+1; i++ {
		kindAtlas(c)
	}
	for i := 0; i < n/4+1; i++ {
		kindCircle(c)
	}
	for i := 0; i < n; i++ {
		kindPack(c)
	}
	for i := 0; i < n; i++ {
		kindMapFnExact(c)
	}
	for i := 0; i < n/4+1; i++ {
		kindHist(c)
	}
	for i := 0; i < n/2; i++ {
		kindNearTree(c)
	}
	for i := 0; i < n/2; i++ {
		kindNearMap(c)
	}
	for i := 0; i < n/4+1; i++ {
		kindExt(c)
	}
	for i := 0; i < n/2; i++ {
		kindSparse(c)
	}
	for i := 0; i < n/2; i++ {
		kindCG(c)
	}
}

// ---------------------------------------------------------------- grow: the state machine, exactly

// kindGrow drives the real nextMeshPlaneGraphs with an integer-valued priority function (all
// compared priorities distinct) and compares the charts with the Lean state machine run with the
// same priorities.  This validates the model the theorems are about.
func kindGrow(c *hlib.Ctx) {
	g := pickMesh(c, 420)
	x := index(g.m)
	if x.hasDupTris() {
		c.Stat("grow-skipped-dup-tris", 1)
		return
	}
	n := len(x.tris)
	pn := c.Rng.Perm(n)
	po := make([]int, n)
	mode := c.Rng.Intn(3)
	switch mode {
	case 0: // priority depends on the new triangle only: a random flood
	case 1: // lexicographic (orig, new): exercises the priority-raise branch
		po = c.Rng.Perm(n)
	case 2: // geometric-like: earlier-added origins first (orig rank = -its PN), breadth-first flavour
		for i := range po {
			po[i] = n - 1 - pn[i]
		}
	}
	prio := func(o, t *model3d.Triangle) float64 {
		if o == nil {
			return float64(pn[x.tidx[t]])
		}
		return float64(po[x.tidx[o]]*n + pn[x.tidx[t]])
	}
	maxSize := 0
	if c.Rng.Intn(3) == 0 {
		maxSize = 1 + c.Rng.Intn(n)
	}
	maxArea := 0.0
	if c.Rng.Intn(3) == 0 {
		maxArea = g.m.Area() * (0.05 + 0.9*c.Rng.Float64())
	}
	hasExisting := !g.closed && c.Rng.Intn(2) == 0
	areas := make([]string, n)
	for i, t := range x.tris {
		areas[i] = hlib.Hex(t.Area())
	}
	var charts []string
	work := g.m.Copy()
	// Copy keeps the triangle pointers, so x.tidx stays valid.
	st := watchdog(func() {
		for iter := 0; iter <= n; iter++ {
			next := model3d.VerifNextMeshPlaneGraphs(work, maxSize, maxArea, hasExisting, prio)
			if len(next) == 0 {
				return
			}
			for _, ch := range next {
				var ids []int
				ch.Iterate(func(t *model3d.Triangle) { ids = append(ids, x.tidx[t]) })
				sort.Ints(ids)
				ss := make([]string, len(ids))
				for i, id := range ids {
					ss[i] = strconv.Itoa(id)
				}
				charts = append(charts, strings.Join(ss, ","))
			}
		}
		panic("outer loop did not terminate")
	})
	out := strings.Join(charts, " | ")
	if st != "ok" {
		out = st
	}
	ma := "-"
	if maxArea != 0 {
		ma = hlib.Hex(maxArea)
	}
	h := 0
	if hasExisting {
		h = 1
	}
	c.Stat("grow:"+baseLabel(g.label), 1)
	c.Stat(fmt.Sprintf("grow-mode%d", mode), 1)
	if maxSize != 0 {
		c.Stat("grow-maxsize", 1)
	}
	if maxArea != 0 {
		c.Stat("grow-maxarea", 1)
	}
	if hasExisting {
		c.Stat("grow-has-existing-boundary", 1)
	}
	c.Stat("grow-charts", len(charts))
	c.Stat("grow-triangles", n)
	if len(charts) == 2 && g.closed && maxSize == 0 && maxArea == 0 {
		c.Stat("grow-sphere-split", 1)
	}
	c.Emit(fmt.Sprintf("c18 grow H %d S %d A %s T %s AR %d %s PN %s PO %s", h, maxSize, ma, soupStr(x.soup),
		n, strings.Join(areas, " "), intsStr(pn), intsStr(po)), out)
}

func baseLabel(l string) string { return strings.SplitN(l, "(", 2)[0] }

// ---------------------------------------------------------------- charts: real decomposition, proved deciders

func kindCharts(c *hlib.Ctx) {
	g := pickMesh(c, 500)
	variant := c.Rng.Intn(4)
	input := g.m
	var out []*model3d.Mesh
	desc := ""
	st := watchdog(func() {
		switch variant {
		case 0:
			desc = "plain"
			out = model3d.MeshToPlaneGraphs(input)
		case 1:
			k := 1 + c.Rng.Intn(input.NumTriangles())
			desc = "maxsize"
			out = model3d.MeshToPlaneGraphsLimited(input, k, 0)
		case 2:
			a := input.Area() * (0.02 + 0.5*c.Rng.Float64())
			desc = "maxarea"
			out = model3d.MeshToPlaneGraphsLimited(input, 0, a)
		default:
			desc = "split"
			discs := model3d.MeshToPlaneGraphs(input)
			input = discs[c.Rng.Intn(len(discs))]
			out = model3d.SplitPlaneGraph(input, nil)
		}
	})
	x := index(input)
	if x.hasDupTris() {
		c.Stat("charts-skipped-dup-tris", 1)
		return
	}
	c.Stat("charts:"+desc+":"+baseLabel(g.label), 1)
	var b strings.Builder
	fmt.Fprintf(&b, "c18 charts %s I %s O ", desc, soupStr(x.soup))
	if st != "ok" {
		b.WriteString(st)
	} else {
		fmt.Fprintf(&b, "%d", len(out))
		for _, ch := range out {
			b.WriteString(" " + soupStr(x.soupOf(ch)))
		}
		c.Stat("charts-count", len(out))
		if desc == "split" && len(out) < 2 && input.NumTriangles() >= 2 {
			c.Stat("split-returned-one-piece", 1)
		}
	}
	c.Emit(b.String(), "ok")
}

// ---------------------------------------------------------------- boundarySequence

func kindBseq(c *hlib.Ctx) {
	var m *model3d.Mesh
	label := ""
	switch c.Rng.Intn(6) {
	case 0:
		g := pickMesh(c, 300)
		m, label = g.m, "whole:"+baseLabel(g.label)
	case 1:
		// a disc with an interior triangle removed (no corner on the boundary): two boundary loops
		d, _ := pickDisc(c, 200)
		var seq []model3d.Coord3D
		if st := watchdog(func() { seq = model3d.VerifBoundarySequence(d) }); st != "ok" {
			return
		}
		onB := map[model3d.Coord3D]bool{}
		for _, p := range seq {
			onB[p] = true
		}
		var cands []*model3d.Triangle
		for _, t := range d.TriangleSlice() {
			if !onB[t[0]] && !onB[t[1]] && !onB[t[2]] {
				cands = append(cands, t)
			}
		}
		if len(cands) == 0 {
			return
		}
		sort.Slice(cands, func(i, j int) bool {
			for k := 0; k < 3; k++ {
				if cands[i][k] != cands[j][k] {
					return less3(cands[i][k], cands[j][k])
				}
			}
			return false
		})
		m = d.Copy()
		m.Remove(cands[c.Rng.Intn(len(cands))])
		label = "disc-minus-interior-triangle"
	default:
		d, l := pickDisc(c, 300)
		m, label = d, "disc:"+baseLabel(l)
	}
	x := index(m)
	if x.hasDupTris() {
		return
	}
	// pinched boundary vertices make the Go result depend on map order; not generated on purpose.
	var seq []model3d.Coord3D
	st := watchdog(func() { seq = model3d.VerifBoundarySequence(m) })
	out := "panic"
	if st == "ok" {
		ids := make([]int, len(seq))
		mi := 0
		for i, p := range seq {
			ids[i] = x.vid[p]
			if ids[i] < ids[mi] {
				mi = i
			}
		}
		rot := append(append([]int{}, ids[mi:]...), ids[:mi]...)
		out = intsStr(rot)
	} else if st == "timeout" {
		out = "timeout"
	}
	c.Stat("bseq:"+label, 1)
	if out == "panic" {
		c.Stat("bseq-panic", 1)
	}
	c.Emit("c18 bseq T "+soupStr(x.soup), out)
}

// ---------------------------------------------------------------- Floater system (exact) and solutions

type recSolver struct {
	op     func(numerical.Vec) numerical.Vec
	biases []numerical.Vec
}

func (r *recSolver) SolveLinearSystem(op func(v numerical.Vec) numerical.Vec, b, initGuess numerical.Vec) numerical.Vec {
	r.op = op
	r.biases = append(r.biases, append(numerical.Vec{}, b...))
	out := make(numerical.Vec, len(b))
	for i := range out {
		out[i] = float64(i)
	}
	return out
}

// neighborsOf lists the distinct vertex neighbours per vertex id.
func neighborsOf(x *indexed) map[int][]int {
	set := map[int]map[int]bool{}
	for _, t := range x.soup {
		for i := 0; i < 3; i++ {
			for j := 0; j < 3; j++ {
				if i != j {
					if set[t[i]] == nil {
						set[t[i]] = map[int]bool{}
					}
					set[t[i]][t[j]] = true
				}
			}
		}
	}
	res := map[int][]int{}
	for k, s := range set {
		for v := range s {
			res[k] = append(res[k], v)
		}
		sort.Ints(res[k])
	}
	return res
}

// dyadicWeights: positive multiples of 1/1024 summing to exactly 1.
func dyadicWeights(c *hlib.Ctx, d int) []float64 {
	ks := make([]int, d)
	rest := 1024 - d
	for i := range ks {
		ks[i] = 1
	}
	for i := 0; i < d-1; i++ {
		k := c.Rng.Intn(rest + 1)
		if c.Rng.Intn(2) == 0 {
			k = k / 4
		}
		ks[i] += k
		rest -= k
	}
	ks[d-1] += rest
	res := make([]float64, d)
	for i, k := range ks {
		res[i] = float64(k) / 1024
	}
	return res
}

type paramSetup struct {
	x        *indexed
	seq      []int
	boundary *model3d.CoordMap[model2d.Coord]
	weights  *model3d.EdgeMap[float64]
	nbrs     map[int][]int
	bdesc    string
	wdesc    string
	lo, hi   float64
}

func (p *paramSetup) weightSection() string { return wSection(p.x, p.weights) }

func (p *paramSetup) boundarySection() string { return "B" + bSection(p.x, p.boundary) }

// wSection renders an edge-weight map as `W n (centre neighbour weight)*`, sorted.
func wSection(x *indexed, weights *model3d.EdgeMap[float64]) string {
	var b strings.Builder
	type e struct {
		c, n int
		w    float64
	}
	var es []e
	weights.Range(func(k [2]model3d.Coord3D, w float64) bool {
		es = append(es, e{x.vid[k[0]], x.vid[k[1]], w})
		return true
	})
	sort.Slice(es, func(i, j int) bool {
		if es[i].c != es[j].c {
			return es[i].c < es[j].c
		}
		return es[i].n < es[j].n
	})
	fmt.Fprintf(&b, "W %d", len(es))
	for _, x := range es {
		fmt.Fprintf(&b, " %d %d %s", x.c, x.n, r(x.w))
	}
	return b.String()
}

// bSection renders a coordinate map as ` n (id x y)*`, sorted by vertex id (a key that is not a mesh vertex gets the id one past the last).
func bSection(x *indexed, m *model3d.CoordMap[model2d.Coord]) string {
	var b strings.Builder
	type e struct {
		id int
		v  model2d.Coord
	}
	var es []e
	m.Range(func(k model3d.Coord3D, v model2d.Coord) bool {
		id, ok := x.vid[k]
		if !ok {
			id = len(x.coords)
		}
		es = append(es, e{id, v})
		return true
	})
	sort.Slice(es, func(i, j int) bool { return es[i].id < es[j].id })
	fmt.Fprintf(&b, " %d", len(es))
	for _, x := range es {
		fmt.Fprintf(&b, " %d %s %s", x.id, r(x.v.X), r(x.v.Y))
	}
	return b.String()
}

// newSetup picks a disc, a boundary map and weights.  exact => dyadic polygon + dyadic weights.
func newSetup(c *hlib.Ctx, exact bool, maxTris int) *paramSetup {
	return newSetupFrom(c, exact, func() *model3d.Mesh {
		d, _ := pickDisc(c, maxTris)
		return d
	})
}

// newSetupFrom: the same over the discs `pick` produces.
func newSetupFrom(c *hlib.Ctx, exact bool, pick func() *model3d.Mesh) *paramSetup {
	for {
		d := pick()
		x := index(d)
		if x.hasDupTris() {
			continue
		}
		p := &paramSetup{x: x, nbrs: neighborsOf(x)}
		var seq []model3d.Coord3D
		if st := watchdog(func() { seq = model3d.VerifBoundarySequence(d) }); st != "ok" || len(seq) < 3 {
			continue
		}
		for _, s := range seq {
			p.seq = append(p.seq, x.vid[s])
		}
		bk := c.Rng.Intn(3)
		if exact {
			bk = 2
		}
		ok := true
		st := watchdog(func() {
			switch bk {
			case 0:
				p.boundary, p.bdesc, p.lo, p.hi = model3d.CircleBoundary(d), "circle", -1, 1
			case 1:
				p.boundary, p.bdesc, p.lo, p.hi = model3d.PNormBoundary(d, 4), "pnorm4", -1, 1
			default:
				poly := convexPolygon(len(seq))
				p.boundary = model3d.NewCoordMap[model2d.Coord]()
				for i, s := range seq {
					p.boundary.Store(s, poly[i])
				}
				p.bdesc, p.lo, p.hi = "polygon", -1, 1
			}
			wk := c.Rng.Intn(4)
			if exact {
				wk = 3
			}
			p.weights, p.wdesc = pickWeights(c, p, wk, func(v model3d.Coord3D) bool {
				_, isB := p.boundary.Load(v)
				return isB
			})
		})
		if st != "ok" || !ok {
			c.Stat("setup-failed:"+st, 1)
			continue
		}
		return p
	}
}

// pickWeights builds one of the four weightings for the disc of p: the library's uniform, inverse
// chord length and shape-preserving weights, or random positive dyadic weights summing to 1.
func pickWeights(c *hlib.Ctx, p *paramSetup, wk int, isBoundary func(model3d.Coord3D) bool) (*model3d.EdgeMap[float64], string) {
	x := p.x
	switch wk {
	case 0:
		return model3d.Floater97UniformWeights(x.m), "uniform"
	case 1:
		return model3d.Floater97InvChordLengthWeights(x.m, 1+c.Rng.Float64()), "invchord"
	case 2:
		return model3d.Floater97ShapePreservingWeights(x.m), "shape"
	default:
		w := model3d.NewEdgeMap[float64]()
		var vs []int
		for v := range p.nbrs {
			vs = append(vs, v)
		}
		sort.Ints(vs)
		for _, v := range vs {
			if isBoundary(x.coords[v]) {
				continue
			}
			ns := p.nbrs[v]
			ws := dyadicWeights(c, len(ns))
			for i, nb := range ns {
				w.Store([2]model3d.Coord3D{x.coords[v], x.coords[nb]}, ws[i])
			}
		}
		return w, "dyadic"
	}
}

// kindSystem: the assembled linear system, read back through the solver interface by probing the
// operator with unit vectors, must equal the model's rows exactly (dyadic boundary and weights:
// every Go operation is exact).
func kindSystem(c *hlib.Ctx) {
	// the assembly is recorded, nothing is solved: also discs whose exact solution is below the
	// resolution of the iterative solver (a closed surface minus one triangle)
	p := newSetupFrom(c, true, func() *model3d.Mesh {
		if c.Rng.Intn(3) == 0 {
			d, _ := hubDisc(c, 160, true)
			return d
		}
		d, _ := pickDisc(c, 160)
		return d
	})
	x := p.x
	rec := &recSolver{}
	var res *model3d.CoordMap[model2d.Coord]
	// the boundary as it is BEFORE the call decides which vertices are unknowns
	head := fmt.Sprintf("c18 system T %s %s %s", soupStr(x.soup), p.boundarySection(), p.weightSection())
	isB0 := map[model3d.Coord3D]bool{}
	p.boundary.Range(func(k model3d.Coord3D, v model2d.Coord) bool {
		isB0[k] = true
		return true
	})
	st := watchdog(func() { res = model3d.Floater97(x.m, p.boundary, p.weights, rec) })
	if st != "ok" {
		c.Emit(head, st)
		return
	}
	// row index of every interior vertex
	rowOf := map[int]int{}
	vertOf := map[int]int{}
	res.Range(func(k model3d.Coord3D, v model2d.Coord) bool {
		if !isB0[k] {
			rowOf[x.vid[k]] = int(v.X)
			vertOf[int(v.X)] = x.vid[k]
		}
		return true
	})
	n := len(rowOf)
	c.Stat("system-rows", n)
	c.Stat(rowStat("system", p), 1)
	unknowns := -1
	if len(rec.biases) == 2 {
		unknowns = len(rec.biases[0])
	}
	if unknowns != n || len(vertOf) != n {
		c.Emit(head, fmt.Sprintf("system-has-%d-unknowns-for-%d-interior-vertices", unknowns, n))
		return
	}
	rows := make([]map[int]float64, n)
	for i := range rows {
		rows[i] = map[int]float64{}
	}
	if n > 0 && rec.op != nil {
		pst := watchdog(func() {
			for j := 0; j < n; j++ {
				e := make(numerical.Vec, n)
				e[j] = 1
				col := rec.op(e)
				for i, v := range col {
					if v != 0 {
						rows[i][j] = v
					}
				}
			}
		})
		if pst != "ok" {
			c.Emit(head, "operator:"+pst)
			return
		}
	}
	var ids []int
	for id := range rowOf {
		ids = append(ids, id)
	}
	sort.Ints(ids)
	var parts []string
	for _, id := range ids {
		i := rowOf[id]
		var cols []int
		for j := range rows[i] {
			if j != i {
				cols = append(cols, vertOf[j])
			}
		}
		sort.Ints(cols)
		var b strings.Builder
		fmt.Fprintf(&b, "%d %s", id, r(rows[i][i]))
		for _, cv := range cols {
			fmt.Fprintf(&b, " %d:%s", cv, r(rows[i][rowOf[cv]]))
		}
		fmt.Fprintf(&b, " ; %s %s", r(rec.biases[0][i]), r(rec.biases[1][i]))
		parts = append(parts, b.String())
	}
	c.Emit(head, strings.Join(parts, " | "))
}

// kindParam: the real solver's output: weighted-mean residual (validation of the iterative
// solver, tolerance 1e-6) and the exact UV validity check on the float outputs.
func kindParam(c *hlib.Ctx) {
	p := newSetup(c, c.Rng.Intn(4) == 0, 130)
	emitParam(c, p, c.Rng.Intn(4) == 0, 1+c.Rng.Intn(4))
}

func emitParam(c *hlib.Ctx, p *paramSetup, stretch bool, iters int) {
	x := p.x
	var res *model3d.CoordMap[model2d.Coord]
	st := watchdog(func() {
		if stretch {
			res = model3d.StretchMinimizingParameterization(x.m, p.boundary, p.weights, nil, iters, 0.75, false)
		} else {
			res = model3d.Floater97(x.m, p.boundary, p.weights, nil)
		}
	})
	mode := "floater"
	if stretch {
		mode = "stretch"
	}
	c.Stat("param:"+mode+":"+p.bdesc+":"+p.wdesc, 1)
	c.Stat(rowStat("param", p), 1)
	head := fmt.Sprintf("c18 param %s L %s H %s TOL 1/1000000 T %s %s %s", mode, r(p.lo), r(p.hi), soupStr(x.soup),
		p.boundarySection(), p.weightSection())
	if st != "ok" {
		c.Emit(head+" X "+st, "resid=ok uv=ok")
		return
	}
	var b strings.Builder
	fmt.Fprintf(&b, " X %d", len(x.coords))
	for id, co := range x.coords {
		v, ok := res.Load(co)
		if !ok || math.IsNaN(v.X) || math.IsNaN(v.Y) || math.IsInf(v.X, 0) || math.IsInf(v.Y, 0) {
			c.Emit(head+" X missing-or-nan", "resid=ok uv=ok")
			return
		}
		fmt.Fprintf(&b, " %d %s %s", id, r(v.X), r(v.Y))
	}
	c.Emit(head+b.String(), "resid=ok uv=ok")
}

// setupFor builds a paramSetup for a given disc with a library boundary and weight function.
func setupFor(d *model3d.Mesh, boundary *model3d.CoordMap[model2d.Coord], weights *model3d.EdgeMap[float64], bdesc, wdesc string) *paramSetup {
	x := index(d)
	return &paramSetup{x: x, nbrs: neighborsOf(x), boundary: boundary, weights: weights, bdesc: bdesc, wdesc: wdesc, lo: -1, hi: 1}
}

// ---------------------------------------------------------------- CircleBoundary / PNormBoundary (libm: validation)

// kindCircle compares the library's arc-length placement with the model (cumulative lengths /
// total, angle 2*pi*t); cos/sin/pow come from libm, so the comparison is `near` and only validates
// the model of the placement.
func kindCircle(c *hlib.Ctx) {
	d, _ := pickDisc(c, 300)
	x := index(d)
	pn := 2
	if c.Rng.Intn(2) == 0 {
		pn = 4
	}
	var bm *model3d.CoordMap[model2d.Coord]
	var seq []model3d.Coord3D
	st := watchdog(func() {
		if pn == 2 {
			bm = model3d.CircleBoundary(d)
		} else {
			bm = model3d.PNormBoundary(d, 4)
		}
		seq = model3d.VerifBoundarySequence(d)
	})
	if st != "ok" {
		c.Emit(fmt.Sprintf("c18 circle P %d N %s", pn, st), "ok")
		return
	}
	// the start vertex is the one placed at angle 2*pi (overwritten last): the largest x
	j, ties := 0, 0
	for i, p := range seq {
		if bm.Value(p).X > bm.Value(seq[j]).X {
			j, ties = i, 0
		} else if i != j && bm.Value(p).X == bm.Value(seq[j]).X {
			ties++
		}
	}
	if ties > 0 {
		c.Stat("circle-skipped-ambiguous-start", 1)
		return
	}
	_ = x
	n := len(seq)
	var b strings.Builder
	fmt.Fprintf(&b, "c18 circle P %d N %d", pn, n)
	for i := 0; i < n; i++ {
		p, p1 := seq[(j+i)%n], seq[(j+i+1)%n]
		v := bm.Value(p1)
		fmt.Fprintf(&b, " %s %s %s", hlib.Hex(p1.Dist(p)), hlib.Hex(v.X), hlib.Hex(v.Y))
	}
	c.Stat(fmt.Sprintf("circle-p%d", pn), 1)
	c.Emit(b.String(), "ok")
}

// ---------------------------------------------------------------- automatic atlas

// uvLine renders the atlas over the mesh triangles in canonical order: how many triangles the mesh
// has, how many keys the UV map has, which mesh triangles are keys (`C k indices`) and their UVs.
func uvLine(x *indexed, uv model3d.MeshUVMap) (string, bool) {
	var b, cov strings.Builder
	k := 0
	for i, t := range x.tris {
		u, ok := uv[t]
		if !ok {
			continue
		}
		k++
		fmt.Fprintf(&cov, " %d", i)
		for _, p := range u {
			if math.IsNaN(p.X) || math.IsNaN(p.Y) || math.IsInf(p.X, 0) || math.IsInf(p.Y, 0) {
				return "", false
			}
			fmt.Fprintf(&b, " %s %s", r(p.X), r(p.Y))
		}
	}
	return fmt.Sprintf("M %d U %d C %d%s T %d%s", len(x.tris), len(uv), k, cov.String(), k, b.String()), true
}

func kindAtlas(c *hlib.Ctx) {
	var g gmesh
	switch c.Rng.Intn(5) {
	case 0, 1:
		for g = spikedMesh(c); g.m.NumTriangles() > 260; g = spikedMesh(c) {
		}
	case 2:
		if c.Rng.Intn(3) == 0 {
			g = longCone(c)
			break
		}
		fallthrough
	default:
		g = pickMesh(c, 260)
	}
	x := index(g.m)
	res := 1 << uint(5+c.Rng.Intn(6))
	// The texture must be large enough for every quad-tree cell to be wider than its two borders
	// (otherwise ToBounds panics or flattens the chart to zero width; `pack` covers that): a chart
	// with area share a sits about log4(1/a)+1 levels deep, a cell at depth d is 2^-d wide and the
	// border is 1/res.  Small meshes (few charts) get any resolution, larger ones at least 128 / 512,
	// meshes with spikes (tiny area shares; also inside a two-component union) at least 256.
	// `atlas-tightest-chart-box` records how close the run came: the smallest side of a chart's UV
	// box in units of the border (0 = flattened; 2 = one more level would flatten).
	minExp := 5
	if n := len(x.tris); n > 40 {
		minExp = 9
	} else if n > 12 {
		minExp = 7
	}
	if res < 1<<uint(minExp) {
		res = 1 << uint(minExp+c.Rng.Intn(11-minExp))
	}
	if strings.Contains(g.label, "spiked") || g.label == "long-cone" {
		res = 1 << uint(8+c.Rng.Intn(5))
		if len(x.tris) > 40 && res < 512 {
			res = 512
		}
	}
	var uv model3d.MeshUVMap
	st := watchdog(func() { uv = model3d.BuildAutomaticUVMap(g.m, res, false) })
	c.Stat("atlas:"+baseLabel(g.label), 1)
	head := fmt.Sprintf("c18 atlas RES %d ", res)
	if st != "ok" {
		c.Emit(head+"M "+st, "cover=ok uv=ok")
		return
	}
	line, ok := uvLine(x, uv)
	if !ok {
		c.Emit(head+"M nan", "cover=ok uv=ok")
		return
	}
	c.Emit(head+line, "cover=ok uv=ok")
	if len(uv) != len(x.tris) {
		return
	}
	c.Stat(fmt.Sprintf("atlas-tightest-chart-box:%s-borders", tightestChartBox(x, uv, res)), 1)
	// MapFn round trip at barycentric sample points (float arithmetic: `near`, validation).  Half of
	// the atlases are queried through a mirrored copy (v -> 1-v: the image convention with V pointing
	// down; u -> 1-u; u <-> v): still inside the unit square with disjoint charts, but every UV
	// triangle runs clockwise.
	switch c.Rng.Intn(6) {
	case 0:
		uv = mirrorUV(uv, func(p model2d.Coord) model2d.Coord { return model2d.XY(p.X, 1-p.Y) })
		c.Stat("mapfn-atlas:flipped-v", 1)
	case 1:
		uv = mirrorUV(uv, func(p model2d.Coord) model2d.Coord { return model2d.XY(1-p.X, p.Y) })
		c.Stat("mapfn-atlas:flipped-u", 1)
	case 2:
		uv = mirrorUV(uv, func(p model2d.Coord) model2d.Coord { return model2d.XY(p.Y, p.X) })
		c.Stat("mapfn-atlas:transposed", 1)
	default:
		c.Stat("mapfn-atlas:as-built", 1)
	}
	var fn func(model2d.Coord) (model3d.Coord3D, *model3d.Triangle)
	if st := watchdog(func() { fn = uv.MapFn() }); st != "ok" {
		c.Emit("c18 mapfn N "+st, "ok")
		return
	}
	for k := 0; k < 6; k++ {
		t := x.tris[c.Rng.Intn(len(x.tris))]
		emitMapFn(c, "N", uv, fn, t, sampleBary(c, false))
	}
	nearAtlas(c, x, uv, fn)
}

// tightestChartBox: the charts of the atlas are the groups of triangles that share a (3-D vertex,
// UV point) pair; returns the smallest side of a chart's UV bounding box in units of the border
// 1/res, as a bucket label.
func tightestChartBox(x *indexed, uv model3d.MeshUVMap, res int) string {
	parent := make([]int, len(x.tris))
	for i := range parent {
		parent[i] = i
	}
	var find func(i int) int
	find = func(i int) int {
		for parent[i] != i {
			parent[i] = parent[parent[i]]
			i = parent[i]
		}
		return i
	}
	first := map[[5]float64]int{}
	for i, t := range x.tris {
		u := uv[t]
		for k := 0; k < 3; k++ {
			key := [5]float64{t[k].X, t[k].Y, t[k].Z, u[k].X, u[k].Y}
			if j, ok := first[key]; ok {
				parent[find(i)] = find(j)
			} else {
				first[key] = i
			}
		}
	}
	lo := map[int]model2d.Coord{}
	hi := map[int]model2d.Coord{}
	for i, t := range x.tris {
		r := find(i)
		for _, p := range uv[t] {
			if _, ok := lo[r]; !ok {
				lo[r], hi[r] = p, p
			}
			lo[r], hi[r] = lo[r].Min(p), hi[r].Max(p)
		}
	}
	tight := math.Inf(1)
	for r := range lo {
		d := hi[r].Sub(lo[r])
		tight = math.Min(tight, math.Min(d.X, d.Y)*float64(res))
	}
	switch {
	case tight < 0.5:
		return "00"
	case tight < 2.5:
		return "02"
	case tight < 6.5:
		return "06"
	case tight < 14.5:
		return "14"
	case tight < 30.5:
		return "30"
	default:
		return "62-or-more"
	}
}

// mirrorUV: the UV map with f applied to every UV corner (same 3-D triangles).
func mirrorUV(uv model3d.MeshUVMap, f func(model2d.Coord) model2d.Coord) model3d.MeshUVMap {
	res := model3d.MeshUVMap{}
	for t, u := range uv {
		res[t] = [3]model2d.Coord{f(u[0]), f(u[1]), f(u[2])}
	}
	return res
}

func sampleBary(c *hlib.Ctx, allowEdge bool) [3]float64 {
	for {
		a, b := c.Rng.Intn(9), c.Rng.Intn(9)
		if a+b > 8 {
			continue
		}
		g := 8 - a - b
		if !allowEdge && (a == 0 || b == 0 || g == 0) {
			continue
		}
		return [3]float64{float64(a) / 8, float64(b) / 8, float64(g) / 8}
	}
}

// emitMapFn queries MapFn at the point with barycentric coordinates w in the UV triangle of t.
func emitMapFn(c *hlib.Ctx, mode string, uv model3d.MeshUVMap, fn func(model2d.Coord) (model3d.Coord3D, *model3d.Triangle),
	t *model3d.Triangle, w [3]float64) {
	u := uv[t]
	p := u[0].Scale(w[0]).Add(u[1].Scale(w[1])).Add(u[2].Scale(w[2]))
	want := t[0].Scale(w[0]).Add(t[1].Scale(w[1])).Add(t[2].Scale(w[2]))
	var q model3d.Coord3D
	var rt *model3d.Triangle
	st := watchdog(func() { q, rt = fn(p) })
	var b strings.Builder
	fmt.Fprintf(&b, "c18 mapfn %s Q %s %s WANT %s %s %s ", mode, r(p.X), r(p.Y), r(want.X), r(want.Y), r(want.Z))
	if st != "ok" || rt == nil {
		b.WriteString("R " + st)
		c.Emit(b.String(), "ok")
		return
	}
	ru := uv[rt]
	fmt.Fprintf(&b, "R %s %s %s U", r(q.X), r(q.Y), r(q.Z))
	for _, pp := range ru {
		fmt.Fprintf(&b, " %s %s", r(pp.X), r(pp.Y))
	}
	b.WriteString(" P")
	for _, pp := range rt {
		fmt.Fprintf(&b, " %s %s %s", r(pp.X), r(pp.Y), r(pp.Z))
	}
	if rt == t {
		c.Stat("mapfn-same-triangle", 1)
	} else {
		c.Stat("mapfn-other-triangle", 1)
	}
	c.Emit(b.String(), "ok")
}

// ---------------------------------------------------------------- PackMeshUVMaps, exact

func pow2(k int) float64 { return math.Ldexp(1, k) }

// kindPack: charts with dyadic UVs whose bounding boxes have power-of-two sides and 3-D triangles
// with exactly representable distinct areas: every Go operation of newParamQuadTree / Joined /
// ToBounds is exact, so the model's output must be equal.
func kindPack(c *hlib.Ctx) {
	k := 1 + c.Rng.Intn(14)
	if c.Rng.Intn(5) == 0 {
		k = 1 + c.Rng.Intn(4)
	}
	usedArea := map[float64]bool{}
	var params []model3d.MeshUVMap
	var order [][]*model3d.Triangle
	var b strings.Builder
	border := []float64{0, 1.0 / 64, 1.0 / 32, 1.0 / 16, 1.0 / 256}[c.Rng.Intn(5)]
	lo := model2d.XY(float64(c.Rng.Intn(3))/2, float64(c.Rng.Intn(3))/2)
	hi := lo.Add(model2d.XY(pow2(c.Rng.Intn(3)-1), pow2(c.Rng.Intn(3)-1)))
	if c.Rng.Intn(2) == 0 {
		lo, hi = model2d.XY(0, 0), model2d.XY(1, 1)
	}
	fmt.Fprintf(&b, "c18 pack B %s R %s %s %s %s N %d", r(border), r(lo.X), r(lo.Y), r(hi.X), r(hi.Y), k)
	for i := 0; i < k; i++ {
		// 3-D: right triangles in the plane z = i with legs a/4, b/4: area a*b/32
		var area float64
		var tris []*model3d.Triangle
		for {
			nt := 1 + c.Rng.Intn(3)
			tris = tris[:0]
			area = 0
			for j := 0; j < nt; j++ {
				a, bb := float64(1+c.Rng.Intn(16))/4, float64(1+c.Rng.Intn(16))/4
				o := model3d.XYZ(float64(4*j), 0, float64(i))
				tris = append(tris, &model3d.Triangle{o, o.Add(model3d.X(a)), o.Add(model3d.Y(bb))})
				area += a * bb / 2
			}
			if !usedArea[area] {
				usedArea[area] = true
				break
			}
		}
		// UV: the bounding box is [ox, ox+2^kx] x [oy, oy+2^ky]; first triangle pins the box
		kx, ky := c.Rng.Intn(4)-2, c.Rng.Intn(4)-2
		ox, oy := dy(c, 2, 2), dy(c, 2, 2)
		sx, sy := pow2(kx), pow2(ky)
		pt := func() model2d.Coord {
			return model2d.XY(ox+sx*float64(c.Rng.Intn(9))/8, oy+sy*float64(c.Rng.Intn(9))/8)
		}
		m := model3d.MeshUVMap{}
		for j, t := range tris {
			var u [3]model2d.Coord
			if j == 0 {
				u = [3]model2d.Coord{model2d.XY(ox, oy), model2d.XY(ox+sx, oy+sy*float64(c.Rng.Intn(9))/8), model2d.XY(ox+sx*float64(c.Rng.Intn(9))/8, oy+sy)}
			} else {
				u = [3]model2d.Coord{pt(), pt(), pt()}
			}
			m[t] = u
		}
		params = append(params, m)
		order = append(order, append([]*model3d.Triangle{}, tris...))
		fmt.Fprintf(&b, " A %s M %d", r(area), len(tris))
		for _, t := range tris {
			for _, p := range m[t] {
				fmt.Fprintf(&b, " %s %s", r(p.X), r(p.Y))
			}
		}
	}
	var packed model3d.MeshUVMap
	st := watchdog(func() { packed = model3d.PackMeshUVMaps(lo, hi, border, params) })
	out := "panic"
	if st == "ok" {
		var ob strings.Builder
		for _, ts := range order {
			for _, t := range ts {
				for _, p := range packed[t] {
					fmt.Fprintf(&ob, "%s %s ", r(p.X), r(p.Y))
				}
			}
		}
		out = strings.TrimSpace(ob.String())
	} else if st == "timeout" {
		out = "timeout"
	} else {
		c.Stat("pack-panic", 1)
	}
	c.Stat(fmt.Sprintf("pack-charts-%02d", k), 1)
	c.Emit(b.String(), out)
}

// ---------------------------------------------------------------- MapFn, exact

// kindMapFnExact: a UV map over a grid of right triangles with power-of-two legs (the inverse
// matrix of every UV triangle is exact) and dyadic 3-D positions; query points with dyadic
// barycentric coordinates, including points on shared edges and at vertices.
func kindMapFnExact(c *hlib.Ctx) {
	nx, ny := 1+c.Rng.Intn(4), 1+c.Rng.Intn(4)
	sx, sy := pow2(c.Rng.Intn(3)-2), pow2(c.Rng.Intn(3)-2)
	if c.Rng.Intn(3) == 0 {
		// a finely triangulated chart (or one squeezed into a small atlas cell): legs down to 2^-18,
		// areas down to 2^-37; still exact: the origin is a multiple of 1/4, all sums fit in 53 bits
		sx, sy = pow2(-3-c.Rng.Intn(16)), pow2(-3-c.Rng.Intn(16))
		c.Stat(fmt.Sprintf("mapfn-exact-uv-triangle-area:2^%03d", int(math.Round(math.Log2(sx*sy/2)/8))*8), 1)
	}
	ox, oy := dy(c, 1, 2), dy(c, 1, 2)
	h := make([][]model3d.Coord3D, nx+1)
	for i := range h {
		h[i] = make([]model3d.Coord3D, ny+1)
		for j := range h[i] {
			h[i][j] = model3d.XYZ(float64(i)+dy(c, 1, 2)/4, float64(j)+dy(c, 1, 2)/4, dy(c, 2, 3))
		}
	}
	// The chart is laid out through one of the eight symmetries of its bounding box (a mirrored chart:
	// V pointing down, a U-mirrored half of a symmetric model, a transposed or turned chart); four of
	// them reverse the orientation, i.e. the UV corners of every triangle run clockwise.  Index based,
	// so still exact.  Independently a triangle may be stored with its corners in the reverse order
	// (both the 3-D and the UV triple: the same affine map, labelled the other way round; in half of the
	// layouts, a third of their triangles).
	sym := pickBoxSym(c)
	uvp := func(i, j int) model2d.Coord { return sym.at(ox, oy, sx, sy, nx, ny, i, j) }
	uv := model3d.MeshUVMap{}
	var tris []*model3d.Triangle
	cw, ccw := 0, 0
	relabel := c.Rng.Intn(2) == 0 // half of the layouts keep the stored order of every triangle
	put := func(t *model3d.Triangle, u [3]model2d.Coord) {
		if relabel && c.Rng.Intn(3) == 0 {
			t[1], t[2] = t[2], t[1]
			u[1], u[2] = u[2], u[1]
		}
		if (u[1].X-u[0].X)*(u[2].Y-u[0].Y)-(u[2].X-u[0].X)*(u[1].Y-u[0].Y) < 0 {
			cw++
		} else {
			ccw++
		}
		uv[t] = u
		tris = append(tris, t)
	}
	add := func(a, b, d [2]int) {
		t := &model3d.Triangle{h[a[0]][a[1]], h[b[0]][b[1]], h[d[0]][d[1]]}
		put(t, [3]model2d.Coord{uvp(a[0], a[1]), uvp(b[0], b[1]), uvp(d[0], d[1])})
	}
	for i := 0; i < nx; i++ {
		for j := 0; j < ny; j++ {
			if c.Rng.Intn(2) == 0 {
				add([2]int{i, j}, [2]int{i + 1, j}, [2]int{i + 1, j + 1})
				add([2]int{i, j}, [2]int{i + 1, j + 1}, [2]int{i, j + 1})
			} else {
				add([2]int{i, j}, [2]int{i + 1, j}, [2]int{i, j + 1})
				add([2]int{i + 1, j}, [2]int{i + 1, j + 1}, [2]int{i, j + 1})
			}
		}
	}
	if sx < 0.125 || sy < 0.125 {
		// a second, coarse chart next to the fine one (charts of one atlas differ in scale): a square of
		// two triangles with legs 1/2, two units to the right
		q := func(i, j int) model3d.Coord3D {
			return model3d.XYZ(8+float64(i)+dy(c, 1, 2)/4, float64(j)+dy(c, 1, 2)/4, dy(c, 2, 3))
		}
		cq := [2][2]model3d.Coord3D{{q(0, 0), q(0, 1)}, {q(1, 0), q(1, 1)}}
		sym2 := pickBoxSym(c) // its own symmetry: one chart of an atlas may be mirrored, another not
		cu := func(i, j int) model2d.Coord { return sym2.at(ox+2, oy, 0.5, 0.5, 1, 1, i, j) }
		for _, tr := range [][3][2]int{{{0, 0}, {1, 0}, {1, 1}}, {{0, 0}, {1, 1}, {0, 1}}} {
			t := &model3d.Triangle{cq[tr[0][0]][tr[0][1]], cq[tr[1][0]][tr[1][1]], cq[tr[2][0]][tr[2][1]]}
			put(t, [3]model2d.Coord{cu(tr[0][0], tr[0][1]), cu(tr[1][0], tr[1][1]), cu(tr[2][0], tr[2][1])})
		}
	}
	c.Stat("mapfn-exact-uv-orientation:"+orientLabel(cw, ccw), 1)
	var fn func(model2d.Coord) (model3d.Coord3D, *model3d.Triangle)
	if st := watchdog(func() { fn = uv.MapFn() }); st != "ok" {
		c.Emit("c18 mapfn E "+st, "ok")
		return
	}
	t := tris[c.Rng.Intn(len(tris))]
	w := sampleBary(c, true)
	if w[0] == 0 || w[1] == 0 || w[2] == 0 {
		c.Stat("mapfn-exact-on-edge", 1)
	} else {
		c.Stat("mapfn-exact-interior", 1)
	}
	if w[1] != w[2] {
		// off the median through corner 0: the weights of corners 1 and 2 can be told apart
		c.Stat("mapfn-exact-off-median", 1)
	}
	emitMapFn(c, "E", uv, fn, t, w)
}

// boxSym is one of the eight symmetries of an axis-aligned box, acting on grid indices: the lattice
// point (i, j) of an nx x ny grid with steps (sx, sy) and lower corner (ox, oy) goes to the lattice
// point of the mirrored / transposed grid with the same lower corner.  Exact whenever the untransformed
// grid is (only index arithmetic and the same products and sums).
type boxSym struct{ flipX, flipY, swap bool }

func pickBoxSym(c *hlib.Ctx) boxSym {
	if c.Rng.Intn(3) == 0 {
		return boxSym{}
	}
	return boxSym{c.Rng.Intn(2) == 0, c.Rng.Intn(2) == 0, c.Rng.Intn(2) == 0}
}

// reverses reports whether the symmetry reverses the orientation.
func (s boxSym) reverses() bool { return (s.flipX != s.flipY) != s.swap }

func (s boxSym) at(ox, oy, sx, sy float64, nx, ny, i, j int) model2d.Coord {
	if s.flipX {
		i = nx - i
	}
	if s.flipY {
		j = ny - j
	}
	if s.swap {
		return model2d.XY(ox+sy*float64(j), oy+sx*float64(i))
	}
	return model2d.XY(ox+sx*float64(i), oy+sy*float64(j))
}

func orientLabel(cw, ccw int) string {
	switch {
	case cw == 0:
		return "all-counter-clockwise"
	case ccw == 0:
		return "all-clockwise"
	default:
		return "mixed"
	}
}

// ---------------------------------------------------------------- fixed cases

func fixedCases(c *hlib.Ctx) {
	// the shapes of the repository's own tests, through the decider
	for _, m := range []*model3d.Mesh{
		model3d.NewMeshIcosphere(model3d.Origin, 1, 4),
		model3d.NewMeshTorus(model3d.Origin, model3d.Z(1), 0.1, 0.5, 6, 12),
	} {
		x := index(m)
		var out []*model3d.Mesh
		st := watchdog(func() { out = model3d.MeshToPlaneGraphs(m) })
		var b strings.Builder
		fmt.Fprintf(&b, "c18 charts fixed I %s O ", soupStr(x.soup))
		if st != "ok" {
			b.WriteString(st)
		} else {
			fmt.Fprintf(&b, "%d", len(out))
			for _, ch := range out {
				b.WriteString(" " + soupStr(x.soupOf(ch)))
			}
		}
		c.Emit(b.String(), "ok")
	}
	// a fan of four triangles over a square with weights 1/4: the right-hand side is exactly zero
	{
		ctr := model3d.XYZ(0, 0, 1)
		ring := []model3d.Coord3D{model3d.XYZ(1, 0, 0), model3d.XYZ(0, 1, 0), model3d.XYZ(-1, 0, 0), model3d.XYZ(0, -1, 0)}
		sq := []model2d.Coord{model2d.XY(1, 0), model2d.XY(0, 1), model2d.XY(-1, 0), model2d.XY(0, -1)}
		m := model3d.NewMesh()
		bd := model3d.NewCoordMap[model2d.Coord]()
		w := model3d.NewEdgeMap[float64]()
		for i := range ring {
			m.Add(&model3d.Triangle{ctr, ring[i], ring[(i+1)%4]})
			bd.Store(ring[i], sq[i])
			w.Store([2]model3d.Coord3D{ctr, ring[i]}, 0.25)
		}
		emitParam(c, setupFor(m, bd, w, "square-fan", "quarter"), false, 0)
		emitParam(c, setupFor(m, bd, w, "square-fan", "quarter"), true, 2)
	}
	// grid patches (corner "ear" triangles) with the library's own weights, plain and stretch-minimising
	for n := 1; n <= 3; n++ {
		m := heightField(c, n, n)
		for k := 0; k < 3; k++ {
			var w *model3d.EdgeMap[float64]
			wd := ""
			switch k {
			case 0:
				w, wd = model3d.Floater97UniformWeights(m), "uniform"
			case 1:
				w, wd = model3d.Floater97InvChordLengthWeights(m, 1), "invchord"
			default:
				w, wd = model3d.Floater97ShapePreservingWeights(m), "shape"
			}
			emitParam(c, setupFor(m, model3d.CircleBoundary(m), w, "circle", wd), true, 2)
		}
	}
}
