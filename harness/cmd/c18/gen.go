package main

import (
	"fmt"
	"math"
	"sort"
	"strconv"
	"strings"
	"time"

	"verif/harness/hlib"

	"github.com/unixpickle/model3d/model2d"
	"github.com/unixpickle/model3d/model3d"
)

const opTimeout = 20 * time.Second

// watchdog runs f in a goroutine; status is "ok", "timeout" or "panic:<msg>".
func watchdog(f func()) string {
	done := make(chan string, 1)
	go func() {
		done <- hlib.Guard(func() string { f(); return "ok" })
	}()
	select {
	case s := <-done:
		return s
	case <-time.After(opTimeout):
		return "timeout"
	}
}

// ---------------------------------------------------------------- id tables

func less3(a, b model3d.Coord3D) bool {
	if a.X != b.X {
		return a.X < b.X
	}
	if a.Y != b.Y {
		return a.Y < b.Y
	}
	return a.Z < b.Z
}

// indexed is a mesh with canonical vertex ids (sorted coordinate order) and a canonical triangle
// order (sorted id triples, corners in the triangle's own order).
type indexed struct {
	m      *model3d.Mesh
	vid    map[model3d.Coord3D]int
	coords []model3d.Coord3D
	tris   []*model3d.Triangle
	tidx   map[*model3d.Triangle]int
	soup   [][3]int
}

func index(m *model3d.Mesh) *indexed {
	x := &indexed{m: m, vid: map[model3d.Coord3D]int{}, tidx: map[*model3d.Triangle]int{}}
	x.coords = m.VertexSlice()
	sort.Slice(x.coords, func(i, j int) bool { return less3(x.coords[i], x.coords[j]) })
	for i, c := range x.coords {
		x.vid[c] = i
	}
	x.tris = m.TriangleSlice()
	key := func(t *model3d.Triangle) [3]int { return [3]int{x.vid[t[0]], x.vid[t[1]], x.vid[t[2]]} }
	sort.Slice(x.tris, func(i, j int) bool {
		a, b := key(x.tris[i]), key(x.tris[j])
		if a[0] != b[0] {
			return a[0] < b[0]
		}
		if a[1] != b[1] {
			return a[1] < b[1]
		}
		return a[2] < b[2]
	})
	for i, t := range x.tris {
		x.tidx[t] = i
		x.soup = append(x.soup, key(t))
	}
	return x
}

// hasDupTris reports two triangles with the same id triple (the id soup could not tell them apart).
func (x *indexed) hasDupTris() bool {
	for i := 1; i < len(x.soup); i++ {
		if x.soup[i] == x.soup[i-1] {
			return true
		}
	}
	return false
}

// soupOf renders another mesh over the same vertices (sorted canonically).
func (x *indexed) soupOf(m *model3d.Mesh) [][3]int {
	var res [][3]int
	m.Iterate(func(t *model3d.Triangle) {
		res = append(res, [3]int{x.vid[t[0]], x.vid[t[1]], x.vid[t[2]]})
	})
	sort.Slice(res, func(i, j int) bool {
		a, b := res[i], res[j]
		if a[0] != b[0] {
			return a[0] < b[0]
		}
		if a[1] != b[1] {
			return a[1] < b[1]
		}
		return a[2] < b[2]
	})
	return res
}

func soupStr(s [][3]int) string {
	var b strings.Builder
	b.WriteString(strconv.Itoa(len(s)))
	for _, t := range s {
		fmt.Fprintf(&b, " %d,%d,%d", t[0], t[1], t[2])
	}
	return b.String()
}

func intsStr(xs []int) string {
	var b strings.Builder
	b.WriteString(strconv.Itoa(len(xs)))
	for _, x := range xs {
		b.WriteString(" " + strconv.Itoa(x))
	}
	return b.String()
}

func r(x float64) string { return hlib.RatStr(x) }

// ---------------------------------------------------------------- mesh generators

type gmesh struct {
	m      *model3d.Mesh
	label  string
	closed bool
}

func dy(c *hlib.Ctx, span int, bits uint) float64 { return c.Dyadic(span, bits) }

// gridBox: the surface of a box with every face cut into a grid of quads (from the C10 harness).
func gridBox(o model3d.Coord3D, nx, ny, nz int, d model3d.Coord3D) *model3d.Mesh {
	m := model3d.NewMesh()
	p := func(i, j, k int) model3d.Coord3D {
		return model3d.XYZ(o.X+float64(i)*d.X, o.Y+float64(j)*d.Y, o.Z+float64(k)*d.Z)
	}
	quad := func(a, b, c, e model3d.Coord3D, alt bool) {
		if alt {
			m.Add(&model3d.Triangle{a, b, e})
			m.Add(&model3d.Triangle{b, c, e})
		} else {
			m.Add(&model3d.Triangle{a, b, c})
			m.Add(&model3d.Triangle{a, c, e})
		}
	}
	for i := 0; i < nx; i++ {
		for j := 0; j < ny; j++ {
			quad(p(i, j, 0), p(i, j+1, 0), p(i+1, j+1, 0), p(i+1, j, 0), (i+j)%2 == 0)
			quad(p(i, j, nz), p(i+1, j, nz), p(i+1, j+1, nz), p(i, j+1, nz), (i+j)%2 == 1)
		}
	}
	for i := 0; i < nx; i++ {
		for k := 0; k < nz; k++ {
			quad(p(i, 0, k), p(i+1, 0, k), p(i+1, 0, k+1), p(i, 0, k+1), (i+k)%2 == 0)
			quad(p(i, ny, k), p(i, ny, k+1), p(i+1, ny, k+1), p(i+1, ny, k), false)
		}
	}
	for j := 0; j < ny; j++ {
		for k := 0; k < nz; k++ {
			quad(p(0, j, k), p(0, j, k+1), p(0, j+1, k+1), p(0, j+1, k), (j+k)%3 == 0)
			quad(p(nx, j, k), p(nx, j+1, k), p(nx, j+1, k+1), p(nx, j, k+1), false)
		}
	}
	return m
}

// boxFrame: a slab with `holes` through holes (genus = holes), meshed by the real marching cubes.
func boxFrame(holes int, delta float64) *model3d.Mesh {
	var solids model3d.JoinedSolid
	w := float64(2*holes + 1)
	solids = append(solids, model3d.NewRect(model3d.XYZ(0, 0, 0), model3d.XYZ(w, 1, 1)))
	solids = append(solids, model3d.NewRect(model3d.XYZ(0, 2, 0), model3d.XYZ(w, 3, 1)))
	for i := 0; i <= holes; i++ {
		x := float64(2 * i)
		solids = append(solids, model3d.NewRect(model3d.XYZ(x, 0, 0), model3d.XYZ(x+1, 3, 1)))
	}
	sh := model3d.XYZ(delta/2, delta/2, delta/2)
	return model3d.MarchingCubes(model3d.TranslateSolid(solids, sh), delta)
}

// heightField: an open disc: a grid patch with random heights (alternating diagonals).
func heightField(c *hlib.Ctx, nx, ny int) *model3d.Mesh {
	h := make([][]float64, nx+1)
	for i := range h {
		h[i] = make([]float64, ny+1)
		for j := range h[i] {
			h[i][j] = dy(c, 1, 3)
		}
	}
	p := func(i, j int) model3d.Coord3D { return model3d.XYZ(float64(i)/2, float64(j)/2, h[i][j]) }
	m := model3d.NewMesh()
	for i := 0; i < nx; i++ {
		for j := 0; j < ny; j++ {
			if (i+j)%2 == 0 {
				m.Add(&model3d.Triangle{p(i, j), p(i+1, j), p(i+1, j+1)})
				m.Add(&model3d.Triangle{p(i, j), p(i+1, j+1), p(i, j+1)})
			} else {
				m.Add(&model3d.Triangle{p(i, j), p(i+1, j), p(i, j+1)})
				m.Add(&model3d.Triangle{p(i+1, j), p(i+1, j+1), p(i, j+1)})
			}
		}
	}
	return m
}

// halfSphere: the triangles of an icosphere whose centroid has z >= cut.
func halfSphere(n int, cut float64) *model3d.Mesh {
	s := model3d.NewMeshIcosphere(model3d.Origin, 1, n)
	m := model3d.NewMesh()
	s.Iterate(func(t *model3d.Triangle) {
		if (t[0].Z+t[1].Z+t[2].Z)/3 >= cut {
			m.Add(t)
		}
	})
	return m
}

// blob: a marching-cubes mesh of a union of random balls (closed, random genus).
func blob(c *hlib.Ctx) *model3d.Mesh {
	var js model3d.JoinedSolid
	n := 2 + c.Rng.Intn(4)
	for i := 0; i < n; i++ {
		ctr := model3d.XYZ(c.Rng.Float64()*1.6-0.8, c.Rng.Float64()*1.6-0.8, c.Rng.Float64()*1.6-0.8)
		js = append(js, &model3d.Sphere{Center: ctr, Radius: 0.35 + c.Rng.Float64()*0.35})
	}
	return model3d.MarchingCubesSearch(js, 0.2+c.Rng.Float64()*0.1, 8)
}

func pickMesh(c *hlib.Ctx, maxTris int) gmesh {
	for {
		g := pickMesh1(c)
		if n := g.m.NumTriangles(); n > 0 && n <= maxTris {
			return g
		}
	}
}

func pickMesh1(c *hlib.Ctx) gmesh {
	org := model3d.XYZ(dy(c, 2, 2), dy(c, 2, 2), dy(c, 2, 2))
	switch c.Rng.Intn(16) {
	case 13:
		return spikedMesh(c)
	case 14:
		return gmesh{latLong(c, 3+c.Rng.Intn(5), hubValence(c)), "latlong", true}
	case 15:
		return gmesh{wheel(c, hubValence(c), 1+c.Rng.Intn(4)), "wheel", false}
	case 0:
		return gmesh{model3d.NewMeshIcosphere(org, 1, 1+c.Rng.Intn(4)), "icosphere", true}
	case 1:
		in, out := 3+c.Rng.Intn(6), 3+c.Rng.Intn(10)
		return gmesh{model3d.NewMeshTorus(org, model3d.Z(1), 0.4, 1, in, out), "torus", true}
	case 2:
		b := org.Add(model3d.XYZ(float64(1+c.Rng.Intn(8))/4, float64(1+c.Rng.Intn(8))/4, float64(1+c.Rng.Intn(8))/4))
		return gmesh{model3d.NewMeshRect(org, b), "box", true}
	case 3:
		nx, ny, nz := 1+c.Rng.Intn(4), 1+c.Rng.Intn(3), 1+c.Rng.Intn(3)
		d := model3d.XYZ(float64(1+c.Rng.Intn(4))/4, float64(1+c.Rng.Intn(4))/4, float64(1+c.Rng.Intn(4))/4)
		return gmesh{gridBox(org, nx, ny, nz, d), "gridbox", true}
	case 4:
		holes := 1 + c.Rng.Intn(2)
		return gmesh{boxFrame(holes, 1), "boxframe-genus" + strconv.Itoa(holes), true}
	case 5:
		return gmesh{blob(c), "mc-blob", true}
	case 6, 7:
		return gmesh{heightField(c, 1+c.Rng.Intn(7), 1+c.Rng.Intn(7)), "heightfield", false}
	case 8:
		return gmesh{halfSphere(2+c.Rng.Intn(3), float64(c.Rng.Intn(5)-2)/4), "halfsphere", false}
	case 9:
		a := pickMesh1(c)
		b := pickMesh1(c)
		m := model3d.NewMesh()
		m.AddMesh(a.m)
		m.AddMesh(b.m.Translate(model3d.X(math.Ceil(a.m.Max().X-b.m.Min().X) + 2)))
		return gmesh{m, "multi(" + a.label + "+" + b.label + ")", a.closed && b.closed}
	case 10:
		sides := 3 + c.Rng.Intn(8)
		if c.Rng.Intn(3) == 0 {
			sides = hubValence(c)
		}
		return gmesh{model3d.NewMeshCylinder(org, org.Add(model3d.Z(1)), 0.5, sides), "cylinder", true}
	case 11:
		// a single triangle / a tetrahedron: the smallest inputs
		if c.Rng.Intn(2) == 0 {
			m := model3d.NewMesh()
			m.Add(&model3d.Triangle{org, org.Add(model3d.X(1)), org.Add(model3d.Y(1))})
			return gmesh{m, "single-triangle", false}
		}
		a, b2, c2, d := org.Add(model3d.XYZ(1, 1, 1)), org.Add(model3d.XYZ(1, -1, -1)), org.Add(model3d.XYZ(-1, 1, -1)), org.Add(model3d.XYZ(-1, -1, 1))
		if c.Rng.Intn(2) == 0 {
			// a wedge: two large faces hinged on the edge a-b2, two slivers (most of the area in two
			// faces: the cumulative-area split of a closed component has to cut right after them)
			h := math.Ldexp(1, -1-c.Rng.Intn(6))
			a, b2 = org.Add(model3d.XYZ(0, -2, 0)), org.Add(model3d.XYZ(0, 2, 0))
			c2, d = org.Add(model3d.XYZ(4+dy(c, 1, 2), dy(c, 1, 2), h)), org.Add(model3d.XYZ(4+dy(c, 1, 2), dy(c, 1, 2), -h))
		}
		m := model3d.NewMesh()
		m.Add(&model3d.Triangle{a, b2, c2})
		m.Add(&model3d.Triangle{a, c2, d})
		m.Add(&model3d.Triangle{a, d, b2})
		m.Add(&model3d.Triangle{b2, d, c2})
		return gmesh{m, "tetra", true}
	default:
		// an annulus-free open patch with a hole-free but non-convex outline: heightfield minus corner cells
		m := heightField(c, 3+c.Rng.Intn(4), 3+c.Rng.Intn(4))
		mx := m.Max()
		m2 := model3d.NewMesh()
		m.Iterate(func(t *model3d.Triangle) {
			ctr := t[0].Add(t[1]).Add(t[2]).Scale(1.0 / 3)
			if ctr.X > mx.X-1 && ctr.Y > mx.Y-1 {
				return
			}
			m2.Add(t)
		})
		return gmesh{m2, "L-patch", false}
	}
}

// pickDisc returns a chart of a generated mesh (a disc by construction of the real code, verified
// by the `charts` kind) or an open patch.
func pickDisc(c *hlib.Ctx, maxTris int) (*model3d.Mesh, string) {
	if maxTris >= 40 && c.Rng.Intn(4) == 0 {
		// discs with interior vertices of high valence (rows of the Floater system with 17 and more entries)
		return hubDisc(c, maxTris, false)
	}
	for tries := 0; tries < 80; tries++ {
		g := pickMesh(c, 600)
		if strings.Contains(g.label, "spiked") {
			// charts with a scale ratio of 1e3 and more inside one disc: the exact parameterisation has
			// UV triangles below the resolution of the iterative solver (MSE 1e-16), whose orientation in
			// the float output is noise; BuildAutomaticUVMap detects and splits them (atlas kind)
			continue
		}
		var discs []*model3d.Mesh
		st := watchdog(func() {
			if c.Rng.Intn(2) == 0 {
				discs = model3d.MeshToPlaneGraphs(g.m)
			} else {
				discs = model3d.MeshToPlaneGraphsLimited(g.m, 20+c.Rng.Intn(maxTris), 0)
			}
		})
		if st != "ok" || len(discs) == 0 {
			continue
		}
		d := discs[c.Rng.Intn(len(discs))]
		if n := d.NumTriangles(); n >= 1 && n <= maxTris {
			return d, g.label
		}
	}
	return heightField(c, 3, 3), "heightfield"
}

// convexPolygon returns n lattice points in strictly convex position, counter-clockwise, scaled to
// dyadic coordinates inside [-1,1]^2: the partial sums of primitive vectors sorted by angle.
func convexPolygon(n int) []model2d.Coord {
	type v struct{ x, y int }
	gcd := func(a, b int) int {
		if a < 0 {
			a = -a
		}
		if b < 0 {
			b = -b
		}
		for b != 0 {
			a, b = b, a%b
		}
		return a
	}
	// enough primitive vectors, symmetric under negation so that they sum to zero
	var half []v
	for R := 1; len(half)*2 < n; R++ {
		half = half[:0]
		for x := -R; x <= R; x++ {
			for y := 0; y <= R; y++ {
				if (y > 0 || x > 0) && gcd(x, y) == 1 {
					half = append(half, v{x, y})
				}
			}
		}
	}
	sort.Slice(half, func(i, j int) bool {
		return math.Atan2(float64(half[i].y), float64(half[i].x)) < math.Atan2(float64(half[j].y), float64(half[j].x))
	})
	k := (n + 1) / 2
	// spread the choice over the half circle
	var sel []v
	for i := 0; i < k; i++ {
		sel = append(sel, half[i*len(half)/k])
	}
	all := append([]v{}, sel...)
	for _, s := range sel {
		all = append(all, v{-s.x, -s.y})
	}
	// partial sums
	pts := make([]v, len(all))
	cur := v{0, 0}
	minx, miny, maxx, maxy := 0, 0, 0, 0
	for i, s := range all {
		pts[i] = cur
		cur = v{cur.x + s.x, cur.y + s.y}
		if cur.x < minx {
			minx = cur.x
		}
		if cur.y < miny {
			miny = cur.y
		}
		if cur.x > maxx {
			maxx = cur.x
		}
		if cur.y > maxy {
			maxy = cur.y
		}
	}
	// drop one point if n is odd (still strictly convex), centre, scale by a power of two
	if len(pts) > n {
		pts = pts[:n]
	}
	span := maxx - minx
	if maxy-miny > span {
		span = maxy - miny
	}
	scale := 1.0
	for scale*float64(span) > 2 {
		scale /= 2
	}
	cx, cy := float64(minx+maxx)/2, float64(miny+maxy)/2
	res := make([]model2d.Coord, len(pts))
	for i, p := range pts {
		res[i] = model2d.XY((float64(p.x)-cx)*scale, (float64(p.y)-cy)*scale)
	}
	return res
}
