package main

import (
	"fmt"
	"math"
	"strings"

	"verif/harness/hlib"

	"github.com/unixpickle/model3d/model2d"
	"github.com/unixpickle/model3d/model3d"
)

// ---------------------------------------------------------------- ext: ExtendBoundaryUVs

// earCount: boundary vertices whose two boundary neighbours lie with them in exactly one triangle
// (what ExtendBoundaryUVs calls m.Find(p0, p1, p2) for).
func earCount(m *model3d.Mesh, seq []model3d.Coord3D) int {
	n := 0
	for i, p1 := range seq {
		p0 := seq[(i+len(seq)-1)%len(seq)]
		p2 := seq[(i+1)%len(seq)]
		if len(m.Find(p0, p1, p2)) == 1 {
			n++
		}
	}
	return n
}

// linMap is a linear map of the UV plane, x -> (a x + b y, c x + d y).
type linMap struct {
	a, b, c, d float64
	desc       string
}

func (l linMap) apply(v model2d.Coord) model2d.Coord {
	return model2d.XY(l.a*v.X+l.b*v.Y, l.c*v.X+l.d*v.Y)
}

func (l linMap) det() float64 { return l.a*l.d - l.b*l.c }

// pickLinMap: the identity, the symmetries of the square (V flip for image conventions, U flip,
// transposition, quarter turns), rotations by Pythagorean and by arbitrary angles with or without
// a reflection, and rotations combined with an axis scaling.  Every such map sends a convex
// boundary polygon around the origin to a convex polygon around the origin and an embedding to an
// embedding; half of them reverse the orientation (clockwise boundary).
func pickLinMap(c *hlib.Ctx) linMap {
	pyth := [][2]float64{{3.0 / 5, 4.0 / 5}, {5.0 / 13, 12.0 / 13}, {8.0 / 17, 15.0 / 17}, {-7.0 / 25, 24.0 / 25}, {-4.0 / 5, -3.0 / 5}}
	refl := c.Rng.Intn(2) == 0
	var l linMap
	switch c.Rng.Intn(7) {
	case 0:
		l = linMap{1, 0, 0, 1, "id"}
	case 1:
		l = linMap{0, -1, 1, 0, "rot90"}
	case 2:
		l = linMap{-1, 0, 0, -1, "rot180"}
	case 3:
		l = linMap{0, 1, 1, 0, "swap"}
		refl = false
	case 4:
		p := pyth[c.Rng.Intn(len(pyth))]
		l = linMap{p[0], -p[1], p[1], p[0], "rot-pyth"}
	case 5:
		th := c.Rng.Float64() * 2 * math.Pi
		l = linMap{math.Cos(th), -math.Sin(th), math.Sin(th), math.Cos(th), "rot-any"}
	default:
		th := c.Rng.Float64() * 2 * math.Pi
		sx, sy := 0.5+1.5*c.Rng.Float64(), 0.5+1.5*c.Rng.Float64()
		l = linMap{math.Cos(th) * sx, -math.Sin(th) * sy, math.Sin(th) * sx, math.Cos(th) * sy, "rot-scale"}
	}
	if refl {
		// reflect V first: (x, y) -> l(x, -y)
		l = linMap{l.a, -l.b, l.c, -l.d, l.desc + "+flipV"}
	}
	return l
}

// kindExt: a disc with at least one ear is parameterised by the library (Floater97 or stretch
// minimisation over a circle / p-norm / lattice polygon boundary around the origin); the map, or
// the boundary map before the solve, is sent through a linear map of the plane (half of them
// orientation reversing: a V-flipped or clockwise parameterisation); then the real
// ExtendBoundaryUVs runs on it.  Two lines per case: `ext S` (before/after maps as exact rationals;
// the Lean side decides what the theorems extend_boundary_* say of the model) and `ext F` (the
// faithful model of the loop at Float, bit for bit).
func kindExt(c *hlib.Ctx) {
	var p *paramSetup
	var seq []model3d.Coord3D
	ears := 0
	for tries := 0; tries < 40; tries++ {
		p = newSetup(c, c.Rng.Intn(5) == 0, 110)
		if tries > 20 {
			// a grid patch always has corner ears
			m := heightField(c, 1+c.Rng.Intn(5), 1+c.Rng.Intn(5))
			p = setupFor(m, model3d.CircleBoundary(m), model3d.Floater97ShapePreservingWeights(m), "circle", "shape")
		}
		if st := watchdog(func() { seq = model3d.VerifBoundarySequence(p.x.m) }); st != "ok" {
			continue
		}
		if ears = earCount(p.x.m, seq); ears > 0 {
			break
		}
		c.Stat("ext-disc-without-ear", 1)
	}
	if ears == 0 {
		return
	}
	x := p.x
	lm := pickLinMap(c)
	boundaryFirst := c.Rng.Intn(3) == 0
	stretch := c.Rng.Intn(5) == 0
	bd := p.boundary
	if boundaryFirst {
		// a user-supplied boundary map (clockwise when det < 0), then the solve
		bd = model3d.NewCoordMap[model2d.Coord]()
		p.boundary.Range(func(k model3d.Coord3D, v model2d.Coord) bool {
			bd.Store(k, lm.apply(v))
			return true
		})
	}
	var res *model3d.CoordMap[model2d.Coord]
	st := watchdog(func() {
		if stretch {
			res = model3d.StretchMinimizingParameterization(x.m, bd, p.weights, nil, 1+c.Rng.Intn(3), 0.75, false)
		} else {
			res = model3d.Floater97(x.m, bd, p.weights, nil)
		}
	})
	if st != "ok" {
		c.Stat("ext-solve-failed:"+st, 1)
		return
	}
	before := model3d.NewCoordMap[model2d.Coord]()
	maxAbs := 0.0
	for _, co := range x.coords {
		v, ok := res.Load(co)
		if !ok || math.IsNaN(v.X+v.Y) || math.IsInf(v.X+v.Y, 0) {
			c.Stat("ext-solve-failed:missing-or-nan", 1)
			return
		}
		if !boundaryFirst {
			v = lm.apply(v)
		}
		before.Store(co, v)
		maxAbs = math.Max(maxAbs, math.Max(math.Abs(v.X), math.Abs(v.Y)))
	}
	maxDist := []float64{0.01, 0.05, 0.1, 0.25, 0.5, 1}[c.Rng.Intn(6)]
	if c.Rng.Intn(3) == 0 {
		maxDist = 0.01 + c.Rng.Float64()*0.3
	}
	after := model3d.NewCoordMap[model2d.Coord]()
	before.Range(func(k model3d.Coord3D, v model2d.Coord) bool {
		after.Store(k, v)
		return true
	})
	start := 0
	est := watchdog(func() {
		// the cycle ExtendBoundaryUVs walks starts where boundarySequence starts; that only matters for
		// a one-triangle mesh (all three corners are ears of the same triangle), where it is the same
		// on every call
		start = x.vid[model3d.VerifBoundarySequence(x.m)[0]]
		model3d.ExtendBoundaryUVs(x.m, after, maxDist)
	})
	orient := "ccw"
	if lm.det() < 0 {
		orient = "cw"
	}
	mode := "floater"
	if stretch {
		mode = "stretch"
	}
	when := "map"
	if boundaryFirst {
		when = "boundary"
	}
	c.Stat("ext:"+orient+":"+lm.desc, 1)
	c.Stat("ext:"+mode+":"+p.bdesc+":"+when, 1)
	c.Stat("ext-ears", ears)
	bound := math.Ceil(maxAbs + maxDist + 1)
	headS := fmt.Sprintf("c18 ext S MD %s L %s H %s T %s B%s A", r(maxDist), r(-bound), r(bound), soupStr(x.soup), bSection(x, before))
	var hp, hb strings.Builder
	fmt.Fprintf(&hp, "P %d", len(x.coords))
	fmt.Fprintf(&hb, "B %d", len(x.coords))
	for _, co := range x.coords {
		fmt.Fprintf(&hp, " %s %s %s", hlib.Hex(co.X), hlib.Hex(co.Y), hlib.Hex(co.Z))
		v := before.Value(co)
		fmt.Fprintf(&hb, " %s %s", hlib.Hex(v.X), hlib.Hex(v.Y))
	}
	headF := fmt.Sprintf("c18 ext F MD %s ST %d T %s %s %s", hlib.Hex(maxDist), start, soupStr(x.soup), hp.String(), hb.String())
	if est != "ok" {
		c.Emit(headS+" "+est, "ok")
		c.Emit(headF, est)
		return
	}
	moved := 0
	for _, co := range x.coords {
		v := after.Value(co)
		if math.IsNaN(v.X+v.Y) || math.IsInf(v.X+v.Y, 0) || after.Len() != before.Len() {
			c.Emit(headS+" nan-or-new-keys", "ok")
			return
		}
		if v != before.Value(co) {
			moved++
		}
	}
	c.Stat("ext-moved-vertices", moved)
	if moved > 0 {
		c.Stat("ext-moved:"+orient, 1)
	}
	c.Emit(headS+bSection(x, after), "ok")
	// the boundary vertices after the call, by id
	ids := make([]int, 0, len(seq))
	for _, s := range seq {
		ids = append(ids, x.vid[s])
	}
	sortInts(ids)
	var out strings.Builder
	for i, id := range ids {
		if i > 0 {
			out.WriteString(" ")
		}
		v := after.Value(x.coords[id])
		fmt.Fprintf(&out, "%d %s %s", id, hlib.Hex(v.X), hlib.Hex(v.Y))
	}
	c.Emit(headF, out.String())
}

func sortInts(a []int) {
	for i := 1; i < len(a); i++ {
		for j := i; j > 0 && a[j] < a[j-1]; j-- {
			a[j], a[j-1] = a[j-1], a[j]
		}
	}
}
