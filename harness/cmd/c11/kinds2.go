package main

import (
	"fmt"
	"math"
	"sort"
	"strings"

	"verif/harness/hlib"

	"github.com/unixpickle/model3d/model2d"
)

func polySegs(pts []model2d.Coord, cw bool) []*model2d.Segment {
	var res []*model2d.Segment
	for i := range pts {
		a, b := pts[i], pts[(i+1)%len(pts)]
		if cw {
			a, b = b, a
		}
		res = append(res, &model2d.Segment{a, b})
	}
	return res
}

func rectPts(lo, hi [2]int, extra int) []model2d.Coord {
	f := func(x, y int) model2d.Coord { return model2d.XY(float64(x)/8, float64(y)/8) }
	pts := []model2d.Coord{f(lo[0], lo[1])}
	// extra colinear vertices on the bottom side
	for i := 1; i <= extra && lo[0]+i < hi[0]; i++ {
		pts = append(pts, f(lo[0]+i, lo[1]))
	}
	pts = append(pts, f(hi[0], lo[1]), f(hi[0], hi[1]), f(lo[0], hi[1]))
	return pts
}

func diamondPts(lo, hi [2]int) []model2d.Coord {
	f := func(x, y float64) model2d.Coord { return model2d.XY(x/8, y/8) }
	cx, cy := float64(lo[0]+hi[0])/2, float64(lo[1]+hi[1])/2
	return []model2d.Coord{f(float64(lo[0]), cy), f(cx, float64(lo[1])), f(float64(hi[0]), cy), f(cx, float64(hi[1]))}
}

// nest2 builds nested rectangles/diamonds in units of 1/8; orient: even-odd orientation
// (outer counter-clockwise, holes clockwise), otherwise every polygon gets a random one.
func nest2(c *hlib.Ctx, lo, hi [2]int, depth, level int, orient bool, out *[]*model2d.Segment, maxLevel *int) {
	cw := level%2 == 1
	if !orient {
		cw = c.Rng.Intn(2) == 0
	}
	ext := hi[0] - lo[0]
	if level > *maxLevel {
		*maxLevel = level
	}
	leaf := depth == 0 || ext < 6
	if leaf && c.Rng.Intn(3) == 0 && ext >= 2 {
		*out = append(*out, polySegs(diamondPts(lo, hi), cw)...)
		return
	}
	*out = append(*out, polySegs(rectPts(lo, hi, c.Rng.Intn(3)), cw)...)
	if leaf {
		return
	}
	k := 1 + c.Rng.Intn(3)
	m := 2
	ilo := [2]int{lo[0] + m, lo[1] + m}
	ihi := [2]int{hi[0] - m, hi[1] - m}
	avail := ihi[0] - ilo[0] - (k-1)*m
	if avail < k || ihi[1]-ilo[1] < 1 {
		return
	}
	w := avail / k
	for i := 0; i < k; i++ {
		clo := [2]int{ilo[0] + i*(w+m), ilo[1]}
		chi := [2]int{clo[0] + w, ihi[1]}
		if chi[1]-clo[1] > 4 && c.Rng.Intn(2) == 0 {
			clo[1] += c.Rng.Intn((chi[1] - clo[1]) / 2)
		}
		if c.Rng.Intn(6) == 0 {
			continue
		}
		nest2(c, clo, chi, depth-1, level+1, orient, out, maxLevel)
	}
}

func nested2(c *hlib.Ctx, orient bool) []*model2d.Segment {
	var segs []*model2d.Segment
	roots := 1 + c.Rng.Intn(3)
	maxLevel := 0
	for i := 0; i < roots; i++ {
		depth := c.Rng.Intn(6)
		ext := []int{8, 24, 64, 160, 400, 400}[depth]
		ox := i*480 + c.Rng.Intn(8)
		oy := c.Rng.Intn(16) - 8
		nest2(c, [2]int{ox, oy}, [2]int{ox + ext, oy + ext}, depth, 0, orient, &segs, &maxLevel)
	}
	c.Stat(fmt.Sprintf("nest2-depth:%d", maxLevel), 1)
	return segs
}

func circle2(c *hlib.Ctx, n int, o model2d.Coord, r float64) []*model2d.Segment {
	var pts []model2d.Coord
	for i := 0; i < n; i++ {
		t := 2 * math.Pi * float64(i) / float64(n)
		// snap to the 1/64 grid so that coordinates are small dyadics
		pts = append(pts, model2d.XY(o.X+math.Round(r*math.Cos(t)*64)/64, o.Y+math.Round(r*math.Sin(t)*64)/64))
	}
	return polySegs(pts, false)
}

// damaged2: closed curves with damages, as a soup.
func damaged2(c *hlib.Ctx) (*soup2, string) {
	var segs []*model2d.Segment
	label := ""
	switch c.Rng.Intn(6) {
	case 0, 1:
		segs, label = nested2(c, true), "nested"
	case 2:
		segs, label = circle2(c, 3+c.Rng.Intn(12), model2d.XY(0, 0), 2), "circle"
	case 3:
		// figure-eight: two loops sharing a vertex
		a := polySegs([]model2d.Coord{model2d.XY(0, 0), model2d.XY(1, 0), model2d.XY(1, 1)}, false)
		b := polySegs([]model2d.Coord{model2d.XY(0, 0), model2d.XY(-1, 0), model2d.XY(-1, -1), model2d.XY(0, -1)}, c.Rng.Intn(2) == 0)
		segs, label = append(a, b...), "figure-eight"
	case 4:
		// open polyline
		n := 1 + c.Rng.Intn(6)
		for i := 0; i < n; i++ {
			segs = append(segs, &model2d.Segment{model2d.XY(float64(i), float64(i%2)), model2d.XY(float64(i+1), float64((i+1)%2))})
		}
		label = "polyline"
	default:
		segs, label = nested2(c, false), "nested-random-orientation"
	}
	s := soupOfSegs(c, segs)
	nd := c.Rng.Intn(3)
	for i := 0; i < nd && len(s.segs) > 0; i++ {
		j := c.Rng.Intn(len(s.segs))
		switch c.Rng.Intn(6) {
		case 0:
			s.segs[j] = [2]int{s.segs[j][1], s.segs[j][0]}
			label += "+reverse"
		case 1:
			s.segs = append(s.segs[:j], s.segs[j+1:]...)
			label += "+open"
		case 2:
			s.segs = append(s.segs, s.segs[j])
			label += "+dup"
		case 3:
			s.segs = append(s.segs, [2]int{s.segs[j][1], s.segs[j][0]})
			label += "+dup-reversed"
		case 4:
			// pinch two vertices
			k := c.Rng.Intn(len(s.segs))
			a, b := s.segs[j][0], s.segs[k][1]
			for i2, g := range s.segs {
				for e := range g {
					if g[e] == b {
						s.segs[i2][e] = a
					}
				}
			}
			label += "+pinch"
		default:
			s.segs = append(s.segs, [2]int{s.segs[j][0], s.segs[j][0]})
			label += "+degenerate"
		}
	}
	s.compact()
	return s, label
}

func kindDiag2(c *hlib.Ctx) {
	s, label := damaged2(c)
	b := s.build()
	ids := s.idOf()
	var out string
	st := watchdog(func() {
		man := b.m.Manifold()
		var iv []int
		for _, v := range b.m.InconsistentVertices() {
			iv = append(iv, ids[v])
		}
		sort.Ints(iv)
		out = fmt.Sprintf("man=%s iv=%s", b01(man), intsStr(iv))
		if !man {
			c.Stat("diag2:non-manifold", 1)
		}
		if len(iv) > 0 {
			c.Stat("diag2:has-inconsistent", 1)
		}
	})
	if st != "ok" {
		out = st
	}
	c.Stat("diag2-src:"+strings.SplitN(label, "+", 2)[0], 1)
	emit(c, "diag2", []string{s.iSection()}, out)
}

func flippedSet2(s *soup2, out *model2d.Mesh) ([]int, bool) {
	outSet := map[model2d.Segment]int{}
	out.Iterate(func(t *model2d.Segment) { outSet[*t]++ })
	var fl []int
	ok := true
	for i, f := range s.segs {
		t := model2d.Segment{s.coords[f[0]], s.coords[f[1]]}
		tf := model2d.Segment{t[1], t[0]}
		switch {
		case outSet[t] > 0:
			outSet[t]--
		case outSet[tf] > 0:
			outSet[tf]--
			fl = append(fl, i)
		default:
			ok = false
		}
	}
	for _, n := range outSet {
		if n != 0 {
			ok = false
		}
	}
	return fl, ok
}

// kindRn2: see probe.go.

func kindRep2(c *hlib.Ctx) {
	var segs []*model2d.Segment
	switch c.Rng.Intn(2) {
	case 0:
		segs = polySegs(rectPts([2]int{0, 0}, [2]int{8 * (1 + c.Rng.Intn(3)), 8}, c.Rng.Intn(4)), false)
	default:
		segs = nested2(c, true)
	}
	s := soupOfSegs(c, segs)
	eps := math.Ldexp(1, -(4 + c.Rng.Intn(7)))
	mode := c.Rng.Intn(6)
	amp := eps / 4
	label := "jitter<eps/4"
	if mode == 2 {
		amp, label = 0.6*eps, "jitter<0.6eps"
	}
	if mode == 3 {
		label = "undamaged"
	} else {
		p := 0.2 + 0.6*c.Rng.Float64()
		if mode >= 4 {
			p, label = 0, "no-jitter"
		}
		for i := range s.segs {
			for k := 0; k < 2; k++ {
				if c.Rng.Float64() < p {
					o := s.coords[s.segs[i][k]]
					if o.X*8 != math.Floor(o.X*8) {
						continue
					}
					s.coords = append(s.coords, o.Add(model2d.XY((c.Rng.Float64()*2-1)*amp, (c.Rng.Float64()*2-1)*amp)))
					s.segs[i][k] = len(s.coords) - 1
				}
			}
		}
	}
	if (mode == 1 || mode >= 4) && len(s.segs) > 0 {
		// chains of near-duplicates 0.9*eps apart around many vertices (see jitter3)
		label += "+chain"
		nv := len(s.coords)
		all := c.Rng.Intn(2) == 0
		forced := s.segs[c.Rng.Intn(len(s.segs))][0]
		for v := 0; v < nv; v++ {
			if v != forced && !all && c.Rng.Intn(3) != 0 {
				continue
			}
			o := s.coords[v]
			if o.X*8 != math.Floor(o.X*8) || o.Y*8 != math.Floor(o.Y*8) {
				continue
			}
			d := []model2d.Coord{model2d.X(1), model2d.Y(1)}[c.Rng.Intn(2)]
			if c.Rng.Intn(2) == 0 {
				d = d.Scale(-1)
			}
			// one or two dangling segments make the chain longer than the two segment ends
			for e := 1 + c.Rng.Intn(2); e > 0; e-- {
				s.coords = append(s.coords, model2d.XY(-500-4*float64(len(s.coords)), -300))
				s.segs = append(s.segs, [2]int{v, len(s.coords) - 1})
			}
			step := 0
			for i := range s.segs {
				for k := 0; k < 2; k++ {
					if s.segs[i][k] == v {
						off := float64((step + 1) / 2)
						if step%2 == 0 {
							off = -off
						}
						s.coords = append(s.coords, o.Add(d.Scale(0.9*eps*off)))
						s.segs[i][k] = len(s.coords) - 1
						step++
					}
				}
			}
		}
	}
	s.compact()
	c.Stat("rep2:"+label, 1)
	b := s.build()
	nv := len(s.coords)
	tagged := model2d.NewMesh()
	tagged.AddMesh(b.m)
	pTag := make([]model2d.Coord, nv)
	for v := 0; v < nv; v++ {
		pTag[v] = model2d.XY(1000+4*float64(v), 500)
		tagged.Add(&model2d.Segment{s.coords[v], pTag[v]})
	}
	var out string
	st := watchdog(func() {
		rep := tagged.Repair(eps)
		ids := s.idOf()
		tagIdx := map[model2d.Coord]int{}
		for v := 0; v < nv; v++ {
			tagIdx[pTag[v]] = v
		}
		img := make([]int, nv)
		for v := range img {
			img[v] = -1
		}
		rep.Iterate(func(t *model2d.Segment) {
			if v, ok := tagIdx[t[1]]; ok {
				if id, ok := ids[t[0]]; ok {
					img[v] = id
				} else {
					img[v] = -2
				}
			}
		})
		fix := true
		cls := make([]int, nv)
		for v := 0; v < nv; v++ {
			if img[v] < 0 || img[img[v]] != img[v] {
				fix = false
			}
			cls[v] = v
			for u := 0; u < nv; u++ {
				if img[u] == img[v] {
					cls[v] = u
					break
				}
			}
		}
		real := b.m.Repair(eps)
		out = fmt.Sprintf("cls=%s fix=%s man=%s", intsStr(cls), b01(fix), b01(real.Manifold()))
	})
	if st != "ok" {
		out = st
	}
	emit(c, "rep2", []string{s.iSection(), "E " + hlib.RatStr(eps), s.cSection()}, out)
}

func kindHier2(c *hlib.Ctx) {
	var s *soup2
	label := "nested"
	var polyRoots []*pnode
	switch c.Rng.Intn(12) {
	case 0:
		s, label = damaged2(c)
	case 2, 3, 4, 5, 6:
		// non-convex, non-concentric nests: polyominoes inside each other's material
		polyRoots = polyNest(c)
		s = soupOfSegs(c, polySegs2(c, polyRoots))
		label = "poly"
		if c.Rng.Intn(2) == 0 {
			label = "poly-loops-flipped"
			flipLoops2(c, s)
		}
	case 1:
		s = soupOfSegs(c, nested2(c, false))
		label = "nested-mixed-orientation"
	default:
		s = soupOfSegs(c, nested2(c, true))
		// whole polygons may be oriented either way: flip every loop with probability 1/2
		if c.Rng.Intn(2) == 0 {
			label = "nested-loops-flipped"
			flipLoops2(c, s)
		}
	}
	hier2Case(c, s, label, polyRoots, randomXform2(c))
}

// flipLoops2 reverses whole loops (connected components) at random.
func flipLoops2(c *hlib.Ctx, s *soup2) {
	parent := make([]int, len(s.coords))
	for i := range parent {
		parent[i] = i
	}
	var find func(int) int
	find = func(x int) int {
		for parent[x] != x {
			parent[x] = parent[parent[x]]
			x = parent[x]
		}
		return x
	}
	for _, g := range s.segs {
		parent[find(g[1])] = find(g[0])
	}
	flip := map[int]bool{}
	for i := range s.coords {
		if find(i) == i {
			flip[i] = c.Rng.Intn(2) == 0
		}
	}
	for i, g := range s.segs {
		if flip[find(g[0])] {
			s.segs[i] = [2]int{g[1], g[0]}
		}
	}
}

// hier2Case runs the 2-D MeshToHierarchy on the image of the soup under xf and prints nodes,
// parents, FullMesh and Contains on query points (drawn in the original frame, then mapped).
func hier2Case(c *hlib.Ctx, s *soup2, label string, polyRoots []*pnode, xf xform) {
	var qs []model2d.Coord
	if len(s.segs) > 0 {
		mn, mx := s.coords[0], s.coords[0]
		for _, p := range s.coords {
			mn, mx = mn.Min(p), mx.Max(p)
		}
		nq := 6 + c.Rng.Intn(10)
		if polyRoots != nil {
			// material cells and notches of the nodes
			for _, q := range polyQueries(c, polyRoots, 8+c.Rng.Intn(8)) {
				qs = append(qs, model2d.XY(q[0], q[1]))
			}
			nq = 4
		}
		for i := 0; i < nq; i++ {
			r := func(lo, hi float64, off float64) float64 {
				span := int((hi-lo)*8) + 2
				return lo + float64(c.Rng.Intn(span)-1)/8 + off/8
			}
			qs = append(qs, model2d.XY(r(mn.X, mx.X, 0.37), r(mn.Y, mx.Y, 0.21)))
		}
	}
	if !xf.isIdentity() {
		for i := range s.coords {
			s.coords[i] = xf.apply2(s.coords[i])
		}
		for i := range qs {
			qs[i] = xf.apply2(qs[i])
		}
	}
	c.Stat("hier2-xform:"+xf.name, 1)
	b := s.build()
	sweepStats2(c, s)
	var out string
	st := watchdog(func() {
		roots := model2d.MeshToHierarchy(b.m)
		var flat []flatNode
		bad := false
		var walk func(h *model2d.MeshHierarchy, parent int)
		walk = func(h *model2d.MeshHierarchy, parent int) {
			var fs []int
			h.Mesh.Iterate(func(t *model2d.Segment) {
				i, ok := b.value[*t]
				if !ok {
					bad = true
					i = -1
				}
				fs = append(fs, i)
			})
			sort.Ints(fs)
			flat = append(flat, flatNode{fs, parent})
			me := len(flat) - 1
			for _, ch := range h.Children {
				walk(ch, me)
			}
		}
		for _, r := range roots {
			walk(r, -1)
		}
		order := make([]int, len(flat))
		for i := range order {
			order[i] = i
		}
		sort.Slice(order, func(i, j int) bool {
			a, bb := flat[order[i]].faces, flat[order[j]].faces
			if len(a) == 0 || len(bb) == 0 {
				return len(a) < len(bb)
			}
			return a[0] < bb[0]
		})
		pos := make([]int, len(flat))
		for p, i := range order {
			pos[i] = p
		}
		nodes := make([]string, len(flat))
		pars := make([]string, len(flat))
		maxDepth := 0
		for p, i := range order {
			nodes[p] = intsStr(flat[i].faces)
			if flat[i].parent < 0 {
				pars[p] = "r"
			} else {
				pars[p] = fmt.Sprint(pos[flat[i].parent])
			}
			d := 0
			for j := i; flat[j].parent >= 0; j = flat[j].parent {
				d++
			}
			if d > maxDepth {
				maxDepth = d
			}
		}
		c.Stat(fmt.Sprintf("hier2:real-depth:%d", maxDepth), 1)
		count := make([]int, len(s.segs))
		full := !bad
		for _, r := range roots {
			r.FullMesh().Iterate(func(t *model2d.Segment) {
				i, ok := b.value[*t]
				if !ok {
					full = false
					return
				}
				count[i]++
			})
		}
		for _, n := range count {
			if n != 1 {
				full = false
			}
		}
		var bits strings.Builder
		for _, q := range qs {
			in := false
			for _, r := range roots {
				if r.Contains(q) {
					in = true
				}
			}
			bits.WriteString(b01(in))
		}
		bs := bits.String()
		if bs == "" {
			bs = "-"
		}
		nstr, pstr := strings.Join(nodes, "|"), strings.Join(pars, ",")
		if len(nodes) == 0 {
			nstr, pstr = "-", "-"
		}
		fstr := "ok"
		if !full {
			fstr = "bad"
		}
		out = fmt.Sprintf("ok nodes=%s par=%s full=%s cont=%s", nstr, pstr, fstr, bs)
	})
	if st != "ok" {
		out = st
	}
	c.Stat("hier2-src:"+strings.SplitN(label, "+", 2)[0], 1)
	emit(c, "hier2", []string{s.iSection(), s.cSection(), qSection2(qs)}, out)
}
