package main

import (
	"fmt"
	"sort"
	"strconv"
	"strings"
	"time"

	"verif/harness/hlib"

	"github.com/unixpickle/model3d/model2d"
	"github.com/unixpickle/model3d/model3d"
)

// opTimeout bounds every call into the library.
const opTimeout = 8 * time.Second

// watchdog runs f in a goroutine; status is "ok", "timeout" or "panic:<msg>".
func watchdog(f func()) string {
	done := make(chan string, 1)
	go func() {
		done <- hlib.Guard(func() string { f(); return "ok" })
	}()
	select {
	case s := <-done:
		return s
	case <-time.After(opTimeout):
		return "timeout"
	}
}

// ---------------------------------------------------------------- 3-D soups

// soup3 is an ordered list of faces over interned coordinates: the id of a vertex is the index
// of its (distinct) coordinate, the index of a face its position.
type soup3 struct {
	coords []model3d.Coord3D
	faces  [][3]int
}

func nz(x float64) float64 {
	if x == 0 {
		return 0 // -0 -> +0
	}
	return x
}

func norm3(c model3d.Coord3D) model3d.Coord3D { return model3d.XYZ(nz(c.X), nz(c.Y), nz(c.Z)) }

func less3(a, b model3d.Coord3D) bool {
	if a.X != b.X {
		return a.X < b.X
	}
	if a.Y != b.Y {
		return a.Y < b.Y
	}
	return a.Z < b.Z
}

// soupOfTris interns the triangles (sorted canonically first, because they usually come out of
// a Go map) and then shuffles the face order with the harness PRNG.
func soupOfTris(c *hlib.Ctx, tris []*model3d.Triangle) *soup3 {
	ts := make([][3]model3d.Coord3D, len(tris))
	for i, t := range tris {
		ts[i] = [3]model3d.Coord3D{norm3(t[0]), norm3(t[1]), norm3(t[2])}
	}
	sort.Slice(ts, func(i, j int) bool {
		for k := 0; k < 3; k++ {
			if ts[i][k] != ts[j][k] {
				return less3(ts[i][k], ts[j][k])
			}
		}
		return false
	})
	c.Rng.Shuffle(len(ts), func(i, j int) { ts[i], ts[j] = ts[j], ts[i] })
	s := &soup3{}
	idx := map[model3d.Coord3D]int{}
	for _, t := range ts {
		var f [3]int
		for k, p := range t {
			id, ok := idx[p]
			if !ok {
				id = len(s.coords)
				idx[p] = id
				s.coords = append(s.coords, p)
			}
			f[k] = id
		}
		s.faces = append(s.faces, f)
	}
	return s
}

func soupOfMesh(c *hlib.Ctx, m *model3d.Mesh) *soup3 { return soupOfTris(c, m.TriangleSlice()) }

func (s *soup3) copy() *soup3 {
	r := &soup3{coords: append([]model3d.Coord3D{}, s.coords...), faces: append([][3]int{}, s.faces...)}
	return r
}

// compact re-interns the coordinates (merging ids with equal coordinates, dropping unused ids).
func (s *soup3) compact() {
	idx := map[model3d.Coord3D]int{}
	var coords []model3d.Coord3D
	for fi, f := range s.faces {
		for k, v := range f {
			p := norm3(s.coords[v])
			id, ok := idx[p]
			if !ok {
				id = len(coords)
				idx[p] = id
				coords = append(coords, p)
			}
			s.faces[fi][k] = id
		}
	}
	s.coords = coords
}

type built3 struct {
	m     *model3d.Mesh
	ptr   map[*model3d.Triangle]int
	value map[model3d.Triangle]int
	dup   bool // two faces with the same value
}

func (s *soup3) build() *built3 {
	b := &built3{m: model3d.NewMesh(), ptr: map[*model3d.Triangle]int{}, value: map[model3d.Triangle]int{}}
	for i, f := range s.faces {
		t := &model3d.Triangle{s.coords[f[0]], s.coords[f[1]], s.coords[f[2]]}
		b.m.Add(t)
		b.ptr[t] = i
		if _, ok := b.value[*t]; ok {
			b.dup = true
		}
		b.value[*t] = i
	}
	return b
}

// faceIndex finds a face by value (any rotation).
func (b *built3) faceIndex(t model3d.Triangle) (int, bool) {
	for k := 0; k < 3; k++ {
		if i, ok := b.value[model3d.Triangle{t[k], t[(k+1)%3], t[(k+2)%3]}]; ok {
			return i, true
		}
	}
	return -1, false
}

func (s *soup3) iSection() string {
	var sb strings.Builder
	fmt.Fprintf(&sb, "I %d", len(s.faces))
	for _, f := range s.faces {
		fmt.Fprintf(&sb, " %d,%d,%d", f[0], f[1], f[2])
	}
	return sb.String()
}

func (s *soup3) cSection() string {
	var sb strings.Builder
	fmt.Fprintf(&sb, "C %d", len(s.coords))
	for i, c := range s.coords {
		fmt.Fprintf(&sb, " %d %s %s %s", i, hlib.RatStr(c.X), hlib.RatStr(c.Y), hlib.RatStr(c.Z))
	}
	return sb.String()
}

func (s *soup3) idOf() map[model3d.Coord3D]int {
	m := map[model3d.Coord3D]int{}
	for i, c := range s.coords {
		m[c] = i
	}
	return m
}

func qSection3(qs []model3d.Coord3D) string {
	var sb strings.Builder
	fmt.Fprintf(&sb, "Q %d", len(qs))
	for _, q := range qs {
		fmt.Fprintf(&sb, " %s %s %s", hlib.RatStr(q.X), hlib.RatStr(q.Y), hlib.RatStr(q.Z))
	}
	return sb.String()
}

// ---------------------------------------------------------------- 2-D soups

type soup2 struct {
	coords []model2d.Coord
	segs   [][2]int
}

func norm2(c model2d.Coord) model2d.Coord { return model2d.XY(nz(c.X), nz(c.Y)) }

func less2(a, b model2d.Coord) bool {
	if a.X != b.X {
		return a.X < b.X
	}
	return a.Y < b.Y
}

func soupOfSegs(c *hlib.Ctx, segs []*model2d.Segment) *soup2 {
	ss := make([][2]model2d.Coord, len(segs))
	for i, t := range segs {
		ss[i] = [2]model2d.Coord{norm2(t[0]), norm2(t[1])}
	}
	sort.Slice(ss, func(i, j int) bool {
		for k := 0; k < 2; k++ {
			if ss[i][k] != ss[j][k] {
				return less2(ss[i][k], ss[j][k])
			}
		}
		return false
	})
	c.Rng.Shuffle(len(ss), func(i, j int) { ss[i], ss[j] = ss[j], ss[i] })
	s := &soup2{}
	idx := map[model2d.Coord]int{}
	for _, t := range ss {
		var f [2]int
		for k, p := range t {
			id, ok := idx[p]
			if !ok {
				id = len(s.coords)
				idx[p] = id
				s.coords = append(s.coords, p)
			}
			f[k] = id
		}
		s.segs = append(s.segs, f)
	}
	return s
}

func (s *soup2) compact() {
	idx := map[model2d.Coord]int{}
	var coords []model2d.Coord
	for fi, f := range s.segs {
		for k, v := range f {
			p := norm2(s.coords[v])
			id, ok := idx[p]
			if !ok {
				id = len(coords)
				idx[p] = id
				coords = append(coords, p)
			}
			s.segs[fi][k] = id
		}
	}
	s.coords = coords
}

type built2 struct {
	m     *model2d.Mesh
	value map[model2d.Segment]int
	dup   bool
}

func (s *soup2) build() *built2 {
	b := &built2{m: model2d.NewMesh(), value: map[model2d.Segment]int{}}
	for i, f := range s.segs {
		t := &model2d.Segment{s.coords[f[0]], s.coords[f[1]]}
		b.m.Add(t)
		if _, ok := b.value[*t]; ok {
			b.dup = true
		}
		b.value[*t] = i
	}
	return b
}

func (s *soup2) iSection() string {
	var sb strings.Builder
	fmt.Fprintf(&sb, "I %d", len(s.segs))
	for _, f := range s.segs {
		fmt.Fprintf(&sb, " %d,%d", f[0], f[1])
	}
	return sb.String()
}

func (s *soup2) cSection() string {
	var sb strings.Builder
	fmt.Fprintf(&sb, "C %d", len(s.coords))
	for i, c := range s.coords {
		fmt.Fprintf(&sb, " %d %s %s", i, hlib.RatStr(c.X), hlib.RatStr(c.Y))
	}
	return sb.String()
}

func (s *soup2) idOf() map[model2d.Coord]int {
	m := map[model2d.Coord]int{}
	for i, c := range s.coords {
		m[c] = i
	}
	return m
}

func qSection2(qs []model2d.Coord) string {
	var sb strings.Builder
	fmt.Fprintf(&sb, "Q %d", len(qs))
	for _, q := range qs {
		fmt.Fprintf(&sb, " %s %s", hlib.RatStr(q.X), hlib.RatStr(q.Y))
	}
	return sb.String()
}

// ---------------------------------------------------------------- output helpers

func intsStr(xs []int) string {
	if len(xs) == 0 {
		return "-"
	}
	parts := make([]string, len(xs))
	for i, x := range xs {
		parts[i] = strconv.Itoa(x)
	}
	return strings.Join(parts, ",")
}

func sortedInts(xs []int) []int {
	r := append([]int{}, xs...)
	sort.Ints(r)
	return r
}

func b01(b bool) string {
	if b {
		return "1"
	}
	return "0"
}

// groupsStr renders groups of indices: each ascending, groups ordered by first index.
func groupsStr(gs [][]int) string {
	var gg [][]int
	for _, g := range gs {
		if len(g) > 0 {
			gg = append(gg, sortedInts(g))
		}
	}
	if len(gg) == 0 {
		return "-"
	}
	sort.Slice(gg, func(i, j int) bool { return gg[i][0] < gg[j][0] })
	parts := make([]string, len(gg))
	for i, g := range gg {
		parts[i] = intsStr(g)
	}
	return strings.Join(parts, "|")
}
