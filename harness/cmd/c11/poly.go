package main

// Non-convex, non-concentric nests for the hierarchy kinds (hier2 / hier3).
//
// A node is a polyomino (a set of grid cells: U, C, L, T, S, comb, spiral, ring, plus, random
// growths) whose boundary is moved inwards by an inset.  Its children live inside its MATERIAL:
// "followers" (a connected part of the parent's cells, with a larger inset: a thin U inside the
// material of a thick U, a thin L inside one arm of a comb, ...) and "slot" children (a fresh
// polyomino on a finer grid inside one cell).  The bounding-box centre of such a component
// usually lies in a notch: outside the component, outside or inside its enclosers.  Everything is
// on the 1/8 grid (exact in float64 and as rationals).

import (
	"fmt"
	"sort"

	"verif/harness/hlib"

	"github.com/unixpickle/model3d/model2d"
	"github.com/unixpickle/model3d/model3d"
)

type pcell [2]int

type pnode struct {
	ox, oy   int // origin, in units of 1/8
	s        int // cell size, in units
	cells    map[pcell]bool
	inset    int // in units, 2*inset < s
	depth    int
	zlo, zhi int // 3-D extent, in units
	kids     []*pnode
	name     string
}

// namedShapes: cells of the classical non-convex shapes (before the random symmetry).
var namedShapes = map[string][]pcell{
	"box":    {{0, 0}},
	"bar":    {{0, 0}, {1, 0}, {2, 0}},
	"L":      {{0, 0}, {1, 0}, {0, 1}},
	"bigL":   {{0, 0}, {1, 0}, {2, 0}, {0, 1}, {0, 2}},
	"U":      {{0, 0}, {1, 0}, {2, 0}, {0, 1}, {2, 1}},
	"deepU":  {{0, 0}, {1, 0}, {2, 0}, {0, 1}, {2, 1}, {0, 2}, {2, 2}},
	"C":      {{0, 0}, {1, 0}, {2, 0}, {0, 1}, {0, 2}, {1, 2}, {2, 2}},
	"T":      {{0, 1}, {1, 1}, {2, 1}, {1, 0}},
	"S":      {{0, 0}, {1, 0}, {1, 1}, {2, 1}},
	"plus":   {{1, 0}, {0, 1}, {1, 1}, {2, 1}, {1, 2}},
	"comb":   {{0, 0}, {1, 0}, {2, 0}, {3, 0}, {4, 0}, {0, 1}, {2, 1}, {4, 1}},
	"ring":   {{0, 0}, {1, 0}, {2, 0}, {0, 1}, {2, 1}, {0, 2}, {1, 2}, {2, 2}},
	"spiral": {{0, 0}, {1, 0}, {2, 0}, {3, 0}, {3, 1}, {3, 2}, {3, 3}, {2, 3}, {1, 3}, {0, 3}, {0, 2}, {1, 2}},
	"hook":   {{0, 0}, {1, 0}, {2, 0}, {2, 1}, {2, 2}, {1, 2}},
}

var namedOrder = []string{"box", "bar", "L", "bigL", "U", "deepU", "C", "T", "S", "plus", "comb", "ring", "spiral", "hook"}

// nonConvexNames: the shapes whose bounding-box centre lies outside themselves (or in a hole).
var nonConvexNames = []string{"L", "bigL", "U", "deepU", "C", "comb", "ring", "spiral", "hook", "U", "C", "deepU"}

func cellSet(cs []pcell) map[pcell]bool {
	m := map[pcell]bool{}
	for _, c := range cs {
		m[c] = true
	}
	return m
}

func sortedCells(m map[pcell]bool) []pcell {
	var r []pcell
	for c := range m {
		r = append(r, c)
	}
	sort.Slice(r, func(i, j int) bool {
		if r[i][0] != r[j][0] {
			return r[i][0] < r[j][0]
		}
		return r[i][1] < r[j][1]
	})
	return r
}

// symmetry applies one of the 8 symmetries of the square and moves the result to the origin.
func symmetry(cs []pcell, k int) []pcell {
	r := make([]pcell, len(cs))
	minx, miny := 1<<30, 1<<30
	for i, c := range cs {
		x, y := c[0], c[1]
		if k&1 != 0 {
			x = -x
		}
		if k&2 != 0 {
			y = -y
		}
		if k&4 != 0 {
			x, y = y, x
		}
		r[i] = pcell{x, y}
		if x < minx {
			minx = x
		}
		if y < miny {
			miny = y
		}
	}
	for i := range r {
		r[i][0] -= minx
		r[i][1] -= miny
	}
	return r
}

func cellsExtent(cs map[pcell]bool) (lo, hi pcell) {
	lo = pcell{1 << 30, 1 << 30}
	hi = pcell{-(1 << 30), -(1 << 30)}
	for c := range cs {
		for a := 0; a < 2; a++ {
			if c[a] < lo[a] {
				lo[a] = c[a]
			}
			if c[a]+1 > hi[a] {
				hi[a] = c[a] + 1
			}
		}
	}
	return
}

// randomGrowth: a random connected polyomino with n cells inside a k x k window.
func randomGrowth(c *hlib.Ctx, n, k int) []pcell {
	set := map[pcell]bool{{0, 0}: true}
	list := []pcell{{0, 0}}
	for tries := 0; len(list) < n && tries < 200; tries++ {
		b := list[c.Rng.Intn(len(list))]
		d := [][2]int{{1, 0}, {-1, 0}, {0, 1}, {0, -1}}[c.Rng.Intn(4)]
		nc := pcell{b[0] + d[0], b[1] + d[1]}
		if set[nc] {
			continue
		}
		set[nc] = true
		lo, hi := cellsExtent(set)
		if hi[0]-lo[0] > k || hi[1]-lo[1] > k {
			delete(set, nc)
			continue
		}
		list = append(list, nc)
	}
	return symmetry(list, 0)
}

type ipt [2]int

// loops traces the boundary of the cell set (material on the left: outer loops counter-clockwise,
// holes clockwise), keeps only the corners, and moves it inwards by inset.  ok=false when two
// cells touch only diagonally (the boundary would pinch).
func (n *pnode) loops(keepCollinear bool) (res [][]ipt, ok bool) {
	type edge struct{ a, b ipt }
	out := map[ipt][]ipt{}
	var starts []ipt
	add := func(a, b ipt) {
		if len(out[a]) == 0 {
			starts = append(starts, a)
		}
		out[a] = append(out[a], b)
	}
	for _, c := range sortedCells(n.cells) {
		i, j := c[0], c[1]
		if !n.cells[pcell{i, j - 1}] {
			add(ipt{i, j}, ipt{i + 1, j})
		}
		if !n.cells[pcell{i + 1, j}] {
			add(ipt{i + 1, j}, ipt{i + 1, j + 1})
		}
		if !n.cells[pcell{i, j + 1}] {
			add(ipt{i + 1, j + 1}, ipt{i, j + 1})
		}
		if !n.cells[pcell{i - 1, j}] {
			add(ipt{i, j + 1}, ipt{i, j})
		}
	}
	for _, v := range out {
		if len(v) != 1 {
			return nil, false
		}
	}
	seen := map[ipt]bool{}
	for _, st := range starts {
		if seen[st] {
			continue
		}
		var lat []ipt
		for p := st; !seen[p]; p = out[p][0] {
			seen[p] = true
			lat = append(lat, p)
		}
		m := len(lat)
		var loop []ipt
		for k := 0; k < m; k++ {
			prev, cur, next := lat[(k+m-1)%m], lat[k], lat[(k+1)%m]
			d1 := ipt{cur[0] - prev[0], cur[1] - prev[1]}
			d2 := ipt{next[0] - cur[0], next[1] - cur[1]}
			var off ipt
			if d1 == d2 {
				if !keepCollinear {
					continue
				}
				off = ipt{-d1[1], d1[0]}
			} else {
				off = ipt{-d1[1] - d2[1], d1[0] + d2[0]}
			}
			loop = append(loop, ipt{n.ox + cur[0]*n.s + off[0]*n.inset, n.oy + cur[1]*n.s + off[1]*n.inset})
		}
		res = append(res, loop)
	}
	return res, true
}

func u2(p ipt) model2d.Coord { return model2d.XY(float64(p[0])/8, float64(p[1])/8) }

// segments of the node alone; cw reverses every loop.
func (n *pnode) segments(keepCollinear, reverse bool) []*model2d.Segment {
	ls, _ := n.loops(keepCollinear)
	var res []*model2d.Segment
	for _, l := range ls {
		for i := range l {
			a, b := u2(l[i]), u2(l[(i+1)%len(l)])
			if reverse {
				a, b = b, a
			}
			res = append(res, &model2d.Segment{a, b})
		}
	}
	return res
}

func (n *pnode) walk(f func(*pnode)) {
	f(n)
	for _, k := range n.kids {
		k.walk(f)
	}
}

func pinchFree(cells map[pcell]bool) bool {
	n := &pnode{cells: cells, s: 4}
	_, ok := n.loops(false)
	return ok
}

// pickShape: a polyomino fitting a square of `side` units with cells of at least minCell units.
func pickShape(c *hlib.Ctx, side, minCell int, wantNonConvex bool) (cells []pcell, s int, name string) {
	for tries := 0; tries < 20; tries++ {
		if c.Rng.Intn(4) == 0 {
			k := 2 + c.Rng.Intn(3)
			cells, name = randomGrowth(c, 3+c.Rng.Intn(2*k+2), k), "growth"
		} else {
			if wantNonConvex || c.Rng.Intn(3) != 0 {
				name = nonConvexNames[c.Rng.Intn(len(nonConvexNames))]
			} else {
				name = namedOrder[c.Rng.Intn(len(namedOrder))]
			}
			cells = symmetry(namedShapes[name], c.Rng.Intn(8))
		}
		set := cellSet(cells)
		if !pinchFree(set) {
			continue
		}
		_, hi := cellsExtent(set)
		ext := hi[0]
		if hi[1] > ext {
			ext = hi[1]
		}
		s = side / ext
		if s >= minCell {
			return cells, s, name
		}
	}
	return []pcell{{0, 0}}, side, "box"
}

// growKids fills the material of n with followers and slot children.
func (n *pnode) growKids(c *hlib.Ctx, budget int, count *int) {
	if budget == 0 || *count > 14 {
		return
	}
	g := 1 + c.Rng.Intn(4)
	if n.s >= 32 && c.Rng.Intn(2) == 0 {
		g += c.Rng.Intn(5)
	}
	m2 := n.inset + g
	thick := n.s - 2*m2
	if thick < 1 {
		return
	}
	zl, zh := n.zlo+1+c.Rng.Intn(2), n.zhi-1-c.Rng.Intn(2)
	if zh-zl < 1 {
		return
	}
	free := map[pcell]bool{}
	for cc := range n.cells {
		free[cc] = true
	}
	order := sortedCells(n.cells)
	c.Rng.Shuffle(len(order), func(i, j int) { order[i], order[j] = order[j], order[i] })
	first := true
	for _, start := range order {
		if !free[start] || *count > 14 {
			continue
		}
		r := c.Rng.Intn(10)
		switch {
		case r < 5 || (first && r < 8):
			// follower: a connected part of the free cells around start
			want := 1 + c.Rng.Intn(len(n.cells))
			if first && c.Rng.Intn(2) == 0 {
				want = len(n.cells)
			}
			part := map[pcell]bool{start: true}
			list := []pcell{start}
			for i := 0; i < len(list) && len(list) < want; i++ {
				b := list[i]
				ds := [][2]int{{1, 0}, {-1, 0}, {0, 1}, {0, -1}}
				c.Rng.Shuffle(4, func(i, j int) { ds[i], ds[j] = ds[j], ds[i] })
				for _, d := range ds {
					nc := pcell{b[0] + d[0], b[1] + d[1]}
					if free[nc] && !part[nc] && len(list) < want {
						part[nc] = true
						list = append(list, nc)
					}
				}
			}
			if !pinchFree(part) {
				part = map[pcell]bool{start: true}
			}
			for cc := range part {
				delete(free, cc)
			}
			k := &pnode{ox: n.ox, oy: n.oy, s: n.s, cells: part, inset: m2, depth: n.depth + 1, zlo: zl, zhi: zh, name: "follower"}
			n.kids = append(n.kids, k)
			*count++
			c.Stat("poly:follower", 1)
			k.growKids(c, budget-1, count)
		case r < 9:
			// slot child: a fresh polyomino inside the free square of this cell
			delete(free, start)
			if thick < 4 {
				continue
			}
			cells, s, name := pickShape(c, thick, 2, c.Rng.Intn(2) == 0)
			set := cellSet(cells)
			_, hi := cellsExtent(set)
			slackX, slackY := thick-hi[0]*s, thick-hi[1]*s
			k := &pnode{
				ox: n.ox + start[0]*n.s + m2 + c.Rng.Intn(slackX+1), oy: n.oy + start[1]*n.s + m2 + c.Rng.Intn(slackY+1),
				s: s, cells: set, inset: 0, depth: n.depth + 1, zlo: zl, zhi: zh, name: name,
			}
			n.kids = append(n.kids, k)
			*count++
			c.Stat("poly:slot", 1)
			k.growKids(c, budget-1, count)
		default:
			delete(free, start)
		}
		first = false
	}
}

// polyNest builds 1-2 root polyominoes with their nests.
func polyNest(c *hlib.Ctx) []*pnode {
	var roots []*pnode
	nr := 1 + c.Rng.Intn(4)/3
	for i := 0; i < nr; i++ {
		side := []int{48, 64, 96, 128}[c.Rng.Intn(4)]
		cells, s, name := pickShape(c, side, 12, c.Rng.Intn(3) != 0)
		budget := 2 + c.Rng.Intn(4)
		root := &pnode{ox: i*200 + c.Rng.Intn(8) - 4, oy: c.Rng.Intn(16) - 8, s: s, cells: cellSet(cells), depth: 0,
			zlo: c.Rng.Intn(8) - 4, name: name}
		root.zhi = root.zlo + 2*budget + 3 + c.Rng.Intn(6)
		count := 1
		root.growKids(c, budget, &count)
		roots = append(roots, root)
	}
	maxD, nodes, nonconv := 0, 0, 0
	for _, r := range roots {
		r.walk(func(n *pnode) {
			nodes++
			if n.depth > maxD {
				maxD = n.depth
			}
			if n.centreOutside() {
				nonconv++
			}
		})
	}
	c.Stat(fmt.Sprintf("poly:depth:%d", maxD), 1)
	c.Stat("poly:nodes", nodes)
	c.Stat("poly:nodes-with-bbox-centre-outside", nonconv)
	return roots
}

// centreOutside: the centre of the bounding box is not in the node's own material.
func (n *pnode) centreOutside() bool {
	lo, hi := cellsExtent(n.cells)
	// doubled cell coordinates of the centre
	cx, cy := lo[0]+hi[0], lo[1]+hi[1]
	if cx%2 == 0 || cy%2 == 0 {
		// on a grid line: inside only if all adjacent cells are material
		for _, dx := range []int{-1, 0} {
			for _, dy := range []int{-1, 0} {
				x, y := cx/2, cy/2
				if cx%2 == 0 {
					x += dx
				} else if dx == -1 {
					continue
				}
				if cy%2 == 0 {
					y += dy
				} else if dy == -1 {
					continue
				}
				if !n.cells[pcell{x, y}] {
					return true
				}
			}
		}
		return false
	}
	return !n.cells[pcell{cx / 2, cy / 2}]
}

// queries2: points in cells of the nodes' bounding grids (material and notches alike), off the
// unit grid so that none lies on a curve.
func polyQueries(c *hlib.Ctx, roots []*pnode, nq int) [][3]float64 {
	var all []*pnode
	for _, r := range roots {
		r.walk(func(n *pnode) { all = append(all, n) })
	}
	var qs [][3]float64
	for i := 0; i < nq; i++ {
		n := all[c.Rng.Intn(len(all))]
		lo, hi := cellsExtent(n.cells)
		ci := lo[0] - 1 + c.Rng.Intn(hi[0]-lo[0]+2)
		cj := lo[1] - 1 + c.Rng.Intn(hi[1]-lo[1]+2)
		if c.Rng.Intn(3) != 0 {
			ci = lo[0] + c.Rng.Intn(hi[0]-lo[0])
			cj = lo[1] + c.Rng.Intn(hi[1]-lo[1])
		}
		x := float64(n.ox+ci*n.s+c.Rng.Intn(n.s)) + 0.37
		y := float64(n.oy+cj*n.s+c.Rng.Intn(n.s)) + 0.21
		z := float64(n.zlo-1+c.Rng.Intn(n.zhi-n.zlo+2)) + 0.13
		if c.Rng.Intn(4) != 0 {
			z = float64(n.zlo+c.Rng.Intn(n.zhi-n.zlo)) + 0.13
		}
		qs = append(qs, [3]float64{x / 8, y / 8, z / 8})
	}
	return qs
}

// prismDirect builds the closed surface of (inset polyomino) x [zlo, zhi] on the compressed
// coordinate grid of its corners: two triangles per elementary rectangle on top and bottom, two
// per boundary side.  No library code involved.
func (n *pnode) prismDirect() *model3d.Mesh {
	ls, _ := n.loops(false)
	xsSet, ysSet := map[int]bool{}, map[int]bool{}
	for _, l := range ls {
		for _, p := range l {
			xsSet[p[0]], ysSet[p[1]] = true, true
		}
	}
	var xs, ys []int
	for x := range xsSet {
		xs = append(xs, x)
	}
	for y := range ysSet {
		ys = append(ys, y)
	}
	sort.Ints(xs)
	sort.Ints(ys)
	// even-odd test of the (doubled) centre of an elementary rectangle against the loops
	inside := func(a, b int) bool {
		if a < 0 || b < 0 || a+1 >= len(xs) || b+1 >= len(ys) {
			return false
		}
		cx2, cy2 := xs[a]+xs[a+1], ys[b]+ys[b+1]
		cnt := 0
		for _, l := range ls {
			for i := range l {
				p, q := l[i], l[(i+1)%len(l)]
				if p[0] != q[0] {
					continue // horizontal edge
				}
				ylo, yhi := p[1], q[1]
				if ylo > yhi {
					ylo, yhi = yhi, ylo
				}
				if 2*p[0] > cx2 && 2*ylo < cy2 && cy2 < 2*yhi {
					cnt++
				}
			}
		}
		return cnt%2 == 1
	}
	m := model3d.NewMesh()
	P := func(x, y, z int) model3d.Coord3D {
		return model3d.XYZ(float64(x)/8, float64(y)/8, float64(z)/8)
	}
	quad := func(a, b, c, d model3d.Coord3D, alt bool) {
		if alt {
			m.Add(&model3d.Triangle{a, b, d})
			m.Add(&model3d.Triangle{b, c, d})
		} else {
			m.Add(&model3d.Triangle{a, b, c})
			m.Add(&model3d.Triangle{a, c, d})
		}
	}
	for a := 0; a+1 < len(xs); a++ {
		for b := 0; b+1 < len(ys); b++ {
			if !inside(a, b) {
				continue
			}
			x0, x1, y0, y1 := xs[a], xs[a+1], ys[b], ys[b+1]
			alt := (a+b)%2 == 0
			quad(P(x0, y0, n.zlo), P(x0, y1, n.zlo), P(x1, y1, n.zlo), P(x1, y0, n.zlo), alt)
			quad(P(x0, y0, n.zhi), P(x1, y0, n.zhi), P(x1, y1, n.zhi), P(x0, y1, n.zhi), !alt)
			if !inside(a, b-1) {
				quad(P(x0, y0, n.zlo), P(x1, y0, n.zlo), P(x1, y0, n.zhi), P(x0, y0, n.zhi), alt)
			}
			if !inside(a, b+1) {
				quad(P(x1, y1, n.zlo), P(x0, y1, n.zlo), P(x0, y1, n.zhi), P(x1, y1, n.zhi), alt)
			}
			if !inside(a-1, b) {
				quad(P(x0, y1, n.zlo), P(x0, y0, n.zlo), P(x0, y0, n.zhi), P(x0, y1, n.zhi), !alt)
			}
			if !inside(a+1, b) {
				quad(P(x1, y0, n.zlo), P(x1, y1, n.zlo), P(x1, y1, n.zhi), P(x1, y0, n.zhi), !alt)
			}
		}
	}
	return m
}

// prismProfile extrudes the node's own outline with the library's ProfileMesh (triangulation of
// a polygon with holes).  ok=false if that output is not a closed surface (not C11's concern).
func (n *pnode) prismProfile() (res *model3d.Mesh, ok bool) {
	st := watchdog(func() {
		m2 := model2d.NewMeshSegments(n.segments(false, true))
		res = model3d.ProfileMesh(m2, float64(n.zlo)/8, float64(n.zhi)/8)
	})
	if st != "ok" || res == nil || res.NumTriangles() == 0 || res.NeedsRepair() {
		return nil, false
	}
	// the triangulation may emit zero-area triangles on collinear vertices: such a surface touches
	// itself, which is outside the property's "non-intersecting" inputs
	flat := false
	res.Iterate(func(t *model3d.Triangle) {
		if t[1].Sub(t[0]).Cross(t[2].Sub(t[0])) == (model3d.Coord3D{}) {
			flat = true
		}
	})
	if flat {
		return nil, false
	}
	return res, true
}

// polyMesh3 assembles the 3-D mesh of a nest; mode 0: direct prisms, 1: ProfileMesh, 2: mixed.
func polyMesh3(c *hlib.Ctx, roots []*pnode, mode int) *model3d.Mesh {
	m := model3d.NewMesh()
	for _, r := range roots {
		r.walk(func(n *pnode) {
			useProfile := mode == 1 || (mode == 2 && c.Rng.Intn(2) == 0)
			if useProfile {
				if pm, ok := n.prismProfile(); ok {
					c.Stat("poly3:profile-mesh", 1)
					m.AddMesh(pm)
					return
				}
				c.Stat("poly3:profile-mesh-unusable", 1)
			}
			c.Stat("poly3:direct-prism", 1)
			m.AddMesh(n.prismDirect())
		})
	}
	return m
}

func polySegs2(c *hlib.Ctx, roots []*pnode) []*model2d.Segment {
	var segs []*model2d.Segment
	keep := c.Rng.Intn(3) == 0
	for _, r := range roots {
		r.walk(func(n *pnode) {
			// even-odd orientation by depth, or random per node
			segs = append(segs, n.segments(keep, n.depth%2 == 1)...)
		})
	}
	return segs
}

// demoNest: box > thick U > thin U (in the material of the thick one) > small box in one arm,
// plus a second small box in the other arm: the scene of the classical counterexample for
// "probe with the bounding-box centre".
func demoNest(variant int) []*pnode {
	U := symmetry(namedShapes["U"], variant%8)
	if variant >= 8 {
		U = symmetry(namedShapes["C"], variant%8)
	}
	box := &pnode{ox: -8, oy: -8, s: 112, cells: cellSet([]pcell{{0, 0}}), zlo: 0, zhi: 24, name: "box"}
	thick := &pnode{ox: 0, oy: 0, s: 32, cells: cellSet(U), inset: 0, depth: 1, zlo: 2, zhi: 22, name: "U"}
	thin := &pnode{ox: 0, oy: 0, s: 32, cells: cellSet(U), inset: 6, depth: 2, zlo: 4, zhi: 20, name: "follower"}
	var arms []pcell
	for _, cc := range U {
		arms = append(arms, cc)
	}
	a, b := arms[0], arms[len(arms)-1]
	d1 := &pnode{ox: a[0]*32 + 12, oy: a[1]*32 + 12, s: 8, cells: cellSet([]pcell{{0, 0}}), depth: 3, zlo: 6, zhi: 18, name: "box"}
	d2 := &pnode{ox: b[0]*32 + 10, oy: b[1]*32 + 13, s: 4, cells: cellSet(symmetry(namedShapes["L"], variant%4)), depth: 3, zlo: 7, zhi: 12, name: "L"}
	thin.kids = []*pnode{d1, d2}
	thick.kids = []*pnode{thin}
	box.kids = []*pnode{thick}
	return []*pnode{box}
}
