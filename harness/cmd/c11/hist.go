package main

import (
	"fmt"
	"sort"
	"strings"

	"verif/harness/hlib"

	"github.com/unixpickle/model3d/model2d"
	"github.com/unixpickle/model3d/model3d"
)

// hist3: the diagnostics along a HISTORY of one mesh object.  A model3d.Mesh is a set of face
// pointers plus a vertex index that is built by the first call that needs it and then maintained
// by Add/Remove; the property is about the current set of faces, so NeedsRepair, SingularVertices,
// InconsistentEdges and Orientable have to give the answer of their definitions at every point of
// every history - whatever was added, removed or asked before, index cached or not.
//
// A case is an initial soup plus a list of steps (generated first, then executed under the
// watchdog); the op line carries both, the output has one token per observation.

type hstep struct {
	kind byte   // 'a' Add(new pointer) 'r' Remove 'A' Add(old pointer) 't' call, result ignored 'c' m = m.Copy() 'o' observe
	id   int    // pointer id ('a','r','A'), vertex id (t:find), pointer id (t:nb)
	tri  [3]int // 'a'
	name string // 't', 'o'
}

// histSim is the harness-side bookkeeping used while GENERATING the steps (no library code).
type histSim struct {
	coords  []model3d.Coord3D
	tris    [][3]int // every pointer created so far
	present []bool
	log     []int // mutation log for undo: +id+1 = added, -(id+1) = removed
	steps   []hstep
	nReadd  int // number of 're-add held pointers' steps (statistics)
}

func (h *histSim) ids(want bool) []int {
	var r []int
	for i, p := range h.present {
		if p == want {
			r = append(r, i)
		}
	}
	return r
}

func (h *histSim) usedVerts() []int {
	set := map[int]bool{}
	for i, t := range h.tris {
		if h.present[i] {
			set[t[0]], set[t[1]], set[t[2]] = true, true, true
		}
	}
	var r []int
	for v := range set {
		r = append(r, v)
	}
	sort.Ints(r)
	return r
}

// component: the present faces connected to face id through shared vertices.
func (h *histSim) component(id int) []int {
	verts := map[int]bool{}
	in := map[int]bool{id: true}
	for _, v := range h.tris[id] {
		verts[v] = true
	}
	for changed := true; changed; {
		changed = false
		for i, t := range h.tris {
			if !h.present[i] || in[i] {
				continue
			}
			if verts[t[0]] || verts[t[1]] || verts[t[2]] {
				in[i] = true
				verts[t[0]], verts[t[1]], verts[t[2]] = true, true, true
				changed = true
			}
		}
	}
	var r []int
	for i := range in {
		r = append(r, i)
	}
	sort.Ints(r)
	return r
}

func (h *histSim) fresh() int {
	n := len(h.coords)
	h.coords = append(h.coords, model3d.XYZ(3000+float64(n), 21, 23+float64(n%5)))
	return n
}

func (h *histSim) addNew(t [3]int) {
	h.tris = append(h.tris, t)
	h.present = append(h.present, true)
	id := len(h.tris) - 1
	h.steps = append(h.steps, hstep{kind: 'a', id: id, tri: t})
	h.log = append(h.log, id+1)
}

func (h *histSim) remove(id int) {
	h.steps = append(h.steps, hstep{kind: 'r', id: id})
	if h.present[id] {
		h.present[id] = false
		h.log = append(h.log, -(id + 1))
	}
}

func (h *histSim) readd(id int) {
	h.steps = append(h.steps, hstep{kind: 'A', id: id})
	if !h.present[id] {
		h.present[id] = true
		h.log = append(h.log, id+1)
	}
}

// closedWithLowFan: every edge of the present faces is used exactly twice AND some vertex has
// exactly two faces (a double-covered triangle) - computed by the harness for the statistics only.
func (h *histSim) closedWithLowFan() (closed, lowFan bool) {
	edges := map[[2]int]int{}
	fan := map[int]int{}
	for i, t := range h.tris {
		if !h.present[i] {
			continue
		}
		for k := 0; k < 3; k++ {
			a, b := t[k], t[(k+1)%3]
			if a > b {
				a, b = b, a
			}
			edges[[2]int{a, b}]++
			fan[t[k]]++
		}
	}
	closed = true
	for _, n := range edges {
		if n != 2 {
			closed = false
		}
	}
	for _, n := range fan {
		if n < 3 {
			lowFan = true
		}
	}
	return
}

var histTouchIndex = []string{"sv", "find", "nb", "vs", "rep", "or"}
var histTouchPlain = []string{"nr", "ie", "it", "num"}
var histObs = []string{"nr", "sv", "ie", "or", "gate"}

func (h *histSim) touch(c *hlib.Ctx, name string) {
	st := hstep{kind: 't', name: name}
	switch name {
	case "find":
		vs := h.usedVerts()
		if len(vs) == 0 {
			st.name = "vs"
		} else {
			st.id = vs[c.Rng.Intn(len(vs))]
		}
	case "nb":
		if len(h.tris) == 0 {
			st.name = "vs"
		} else {
			st.id = c.Rng.Intn(len(h.tris)) // present or not: Neighbors only reads its corners
		}
	}
	h.steps = append(h.steps, st)
}

func (h *histSim) observe(c *hlib.Ctx, all bool) {
	perm := c.Rng.Perm(len(histObs))
	n := len(perm)
	if !all {
		n = 1 + c.Rng.Intn(len(perm))
	}
	for _, i := range perm[:n] {
		h.steps = append(h.steps, hstep{kind: 'o', name: histObs[i]})
	}
}

// pillow adds the double cover of one triangle: two faces on the same three vertices, `shared`
// of which (0..2) are existing vertices of the mesh (it touches the rest in a vertex or along an
// edge), the others fresh.
func (h *histSim) pillowTris(c *hlib.Ctx, shared int) [2][3]int {
	vs := h.usedVerts()
	var v [3]int
	for k := 0; k < 3; k++ {
		if k < shared && len(vs) > 0 {
			v[k] = vs[c.Rng.Intn(len(vs))]
		} else {
			v[k] = h.fresh()
		}
	}
	if v[0] == v[1] {
		v[1] = h.fresh()
	}
	c.Rng.Shuffle(3, func(i, j int) { v[i], v[j] = v[j], v[i] })
	a := [3]int{v[0], v[1], v[2]}
	b := flipFace(a)
	switch c.Rng.Intn(6) {
	case 0:
		b = a // the same orientation twice: closed, but every edge inconsistent
	case 1:
		b = [3]int{a[2], a[1], a[0]}
	case 2:
		b = [3]int{a[0], a[2], a[1]}
	}
	return [2][3]int{a, b}
}

func pillowShared(c *hlib.Ctx) int {
	switch r := c.Rng.Intn(10); {
	case r < 6:
		return 0
	case r < 9:
		return 1
	default:
		return 2
	}
}

func (h *histSim) mutate(c *hlib.Ctx) {
	pres, abs := h.ids(true), h.ids(false)
	r := c.Rng.Intn(100)
	switch {
	case r < 20 && len(pres) > 0:
		h.remove(pres[c.Rng.Intn(len(pres))])
	case r < 34 && len(abs) > 0:
		h.readd(abs[c.Rng.Intn(len(abs))])
	case r < 48 && len(h.log) > 0:
		// undo the latest mutation
		x := h.log[len(h.log)-1]
		h.log = h.log[:len(h.log)-1]
		n := len(h.log)
		if x > 0 {
			h.remove(x - 1)
		} else {
			h.readd(-x - 1)
		}
		h.log = h.log[:n]
	case r < 58 && len(pres) > 0 && len(pres) <= 14:
		// empty the mesh face by face (a mesh emptied by Remove is a mesh without faces), look, and
		// mostly put everything back in another order
		c.Rng.Shuffle(len(pres), func(i, j int) { pres[i], pres[j] = pres[j], pres[i] })
		for _, id := range pres {
			h.remove(id)
		}
		h.observe(c, c.Rng.Intn(2) == 0)
		if c.Rng.Intn(4) != 0 {
			c.Rng.Shuffle(len(pres), func(i, j int) { pres[i], pres[j] = pres[j], pres[i] })
			for _, id := range pres {
				h.readd(id)
			}
		}
	case r < 66 && len(pres) > 0:
		// remove a whole component (all its vertices leave the mesh), look, mostly put it back
		comp := h.component(pres[c.Rng.Intn(len(pres))])
		if len(comp) <= 40 {
			c.Rng.Shuffle(len(comp), func(i, j int) { comp[i], comp[j] = comp[j], comp[i] })
			for _, id := range comp {
				h.remove(id)
			}
			h.observe(c, false)
			if c.Rng.Intn(3) != 0 {
				c.Rng.Shuffle(len(comp), func(i, j int) { comp[i], comp[j] = comp[j], comp[i] })
				for _, id := range comp {
					h.readd(id)
				}
			}
		}
	case r < 78 && r >= 70 && len(pres) > 0:
		// AddMesh of a shallow copy (m.AddMesh(m.Copy()), AddMesh of a part taken from a Copy): face
		// POINTERS that are already in the mesh are added again - mostly with the vertex index cached -,
		// then some of them are removed and the diagnostics are asked
		if c.Rng.Intn(4) != 0 {
			h.touch(c, histTouchIndex[c.Rng.Intn(len(histTouchIndex))])
		}
		sub := pres
		switch c.Rng.Intn(3) {
		case 0:
			sub = h.component(pres[c.Rng.Intn(len(pres))])
		case 1:
			c.Rng.Shuffle(len(sub), func(i, j int) { sub[i], sub[j] = sub[j], sub[i] })
			sub = sub[:1+c.Rng.Intn(len(sub))]
		}
		if len(sub) > 60 {
			sub = sub[:60]
		}
		for _, id := range sub {
			h.readd(id)
		}
		h.nReadd++
		if c.Rng.Intn(3) == 0 {
			h.observe(c, false)
		}
		if c.Rng.Intn(4) != 0 {
			comp := h.component(sub[c.Rng.Intn(len(sub))])
			if len(comp) > 40 || c.Rng.Intn(3) == 0 {
				comp = []int{sub[c.Rng.Intn(len(sub))]}
			}
			for _, id := range comp {
				h.remove(id)
			}
			h.observe(c, c.Rng.Intn(2) == 0)
			if c.Rng.Intn(2) == 0 {
				for _, id := range comp {
					h.readd(id)
				}
			}
		}
	case r < 70 && len(h.tris) > 0:
		// no-ops: Remove of a pointer that is not in the mesh, Add of one that is
		id := c.Rng.Intn(len(h.tris))
		if h.present[id] {
			h.readd(id)
		} else {
			h.remove(id)
		}
	default:
		switch k := c.Rng.Intn(8); {
		case k == 0 && len(pres) > 0:
			h.addNew(flipFace(h.tris[pres[c.Rng.Intn(len(pres))]]))
		case k == 1 && len(pres) > 0:
			h.addNew(h.tris[pres[c.Rng.Intn(len(pres))]])
		case k == 2 && len(pres) > 0:
			t := h.tris[pres[c.Rng.Intn(len(pres))]]
			e := c.Rng.Intn(3)
			h.addNew([3]int{t[e], t[(e+1)%3], h.fresh()})
		case k == 3 && len(pres) > 0:
			vs := h.usedVerts()
			a, b, d := vs[c.Rng.Intn(len(vs))], vs[c.Rng.Intn(len(vs))], vs[c.Rng.Intn(len(vs))]
			if a != b && b != d && a != d {
				h.addNew([3]int{a, b, d})
			} else {
				h.addNew([3]int{a, h.fresh(), h.fresh()})
			}
		default:
			p := h.pillowTris(c, pillowShared(c))
			h.addNew(p[0])
			if c.Rng.Intn(3) == 0 {
				// something happens between the two halves
				h.touch(c, histTouchIndex[c.Rng.Intn(len(histTouchIndex))])
				if c.Rng.Intn(2) == 0 {
					h.observe(c, false)
				}
			}
			h.addNew(p[1])
		}
	}
}

func genHist(c *hlib.Ctx, s *soup3, nsteps int) *histSim {
	h := &histSim{coords: append([]model3d.Coord3D{}, s.coords...)}
	for _, f := range s.faces {
		h.tris = append(h.tris, f)
		h.present = append(h.present, true)
	}
	for i := 0; i < nsteps; i++ {
		switch r := c.Rng.Intn(100); {
		case r < 45:
			h.mutate(c)
		case r < 70:
			h.touch(c, histTouchIndex[c.Rng.Intn(len(histTouchIndex))])
		case r < 82:
			h.touch(c, histTouchPlain[c.Rng.Intn(len(histTouchPlain))])
		case r < 90:
			h.steps = append(h.steps, hstep{kind: 'c'})
		default:
			h.observe(c, false)
		}
		if c.Rng.Intn(100) < 35 {
			h.observe(c, false)
		}
	}
	h.observe(c, true)
	return h
}

// runHist executes the steps on a real mesh and emits the case.
func runHist(c *hlib.Ctx, s *soup3, h *histSim, label string) {
	b := s.build()
	m := b.m
	ptrs := make([]*model3d.Triangle, len(h.tris))
	for t, i := range b.ptr {
		ptrs[i] = t
	}
	idOf := map[model3d.Coord3D]int{}
	for i, p := range h.coords {
		idOf[p] = i
	}
	// the harness's own copy of the face set, for the statistics
	sim := &histSim{tris: h.tris, present: make([]bool, len(h.tris))}
	for i := range s.faces {
		sim.present[i] = true
	}
	var toks, outs []string
	stats := map[string]int{}
	st := watchdog(func() {
		for _, sp := range h.steps {
			switch sp.kind {
			case 'a':
				t := &model3d.Triangle{h.coords[sp.tri[0]], h.coords[sp.tri[1]], h.coords[sp.tri[2]]}
				ptrs[sp.id] = t
				m.Add(t)
				sim.present[sp.id] = true
				toks = append(toks, fmt.Sprintf("a:%d:%d,%d,%d", sp.id, sp.tri[0], sp.tri[1], sp.tri[2]))
			case 'r':
				m.Remove(ptrs[sp.id])
				sim.present[sp.id] = false
				toks = append(toks, fmt.Sprintf("r:%d", sp.id))
			case 'A':
				if sim.present[sp.id] && model3d.VerifMeshHasIndex(m) {
					stats["hist3:add-of-a-pointer-already-in-the-mesh-with-index-cached"]++
				}
				m.Add(ptrs[sp.id])
				sim.present[sp.id] = true
				toks = append(toks, fmt.Sprintf("A:%d", sp.id))
			case 'c':
				m = m.Copy()
				toks = append(toks, "c")
			case 't':
				switch sp.name {
				case "sv":
					m.SingularVertices()
				case "find":
					m.Find(h.coords[sp.id])
				case "nb":
					m.Neighbors(ptrs[sp.id])
				case "vs":
					m.VertexSlice()
				case "rep":
					m.Repair(1e-6)
				case "or":
					m.Orientable()
				case "nr":
					m.NeedsRepair()
				case "ie":
					m.InconsistentEdges()
				case "it":
					m.Iterate(func(*model3d.Triangle) {})
				case "num":
					m.NumTriangles()
				}
				toks = append(toks, fmt.Sprintf("t:%s:%s", b01(model3d.VerifMeshHasIndex(m)), sp.name))
			case 'o':
				cached := model3d.VerifMeshHasIndex(m)
				toks = append(toks, "o:"+sp.name)
				switch sp.name {
				case "nr":
					outs = append(outs, "nr="+b01(m.NeedsRepair()))
					closed, low := sim.closedWithLowFan()
					if cached {
						stats["hist3:nr-observed-with-index-cached"]++
						if closed && low {
							stats["hist3:nr-observed-with-index-cached-on-closed-mesh-with-a-2-fan-vertex"]++
						}
					} else {
						stats["hist3:nr-observed-without-index"]++
					}
				case "sv":
					var sv []int
					for _, v := range m.SingularVertices() {
						id, ok := idOf[v]
						if !ok {
							id = -1
						}
						sv = append(sv, id)
					}
					sort.Ints(sv)
					outs = append(outs, "sv="+intsStr(sv))
					if cached {
						stats["hist3:sv-observed-with-index-cached"]++
					}
					if len(sv) > 0 {
						stats["hist3:sv-nonempty"]++
					}
				case "ie":
					var ie [][2]int
					for _, e := range m.InconsistentEdges() {
						ie = append(ie, [2]int{idOf[e[0]], idOf[e[1]]})
					}
					sort.Slice(ie, func(i, j int) bool {
						if ie[i][0] != ie[j][0] {
							return ie[i][0] < ie[j][0]
						}
						return ie[i][1] < ie[j][1]
					})
					es := "-"
					if len(ie) > 0 {
						parts := make([]string, len(ie))
						for i, e := range ie {
							parts[i] = fmt.Sprintf("%d>%d", e[0], e[1])
						}
						es = strings.Join(parts, ",")
					}
					outs = append(outs, "ie="+es)
				case "gate":
					// MeshToHierarchy is gated on NeedsRepair: it refuses ("mesh needs repair") exactly the
					// meshes that need repair; what it builds otherwise is compared by hier3, not here
					g := hlib.Guard(func() string { model3d.MeshToHierarchy(m); return "0" })
					if strings.HasPrefix(g, "panic:") {
						if strings.Contains(g, "needs repair") || strings.Contains(g, "needs_repair") {
							g = "1"
						} else {
							g = "0"
							stats["hist3:gate-other-panic"]++
						}
					}
					outs = append(outs, "gate="+g)
					if cached {
						stats["hist3:gate-observed-with-index-cached"]++
					}
				case "or":
					or := hlib.Guard(func() string { return b01(m.Orientable()) })
					if strings.HasPrefix(or, "panic:") {
						or = "panic"
					}
					outs = append(outs, "or="+or)
				}
			}
		}
	})
	for k, n := range stats {
		c.Stat(k, n)
	}
	c.Stat("hist3:steps", len(h.steps))
	out := strings.Join(outs, " ")
	if st != "ok" {
		// the op line must still describe the whole history
		out = st
		toks = nil
		for _, sp := range h.steps {
			switch sp.kind {
			case 'a':
				toks = append(toks, fmt.Sprintf("a:%d:%d,%d,%d", sp.id, sp.tri[0], sp.tri[1], sp.tri[2]))
			case 'r':
				toks = append(toks, fmt.Sprintf("r:%d", sp.id))
			case 'A':
				toks = append(toks, fmt.Sprintf("A:%d", sp.id))
			case 'c':
				toks = append(toks, "c")
			case 't':
				toks = append(toks, "t:1:"+sp.name)
			case 'o':
				toks = append(toks, "o:"+sp.name)
			}
		}
	} else if out == "" {
		out = "-"
	}
	c.Stat("hist3-src:"+label, 1)
	emit(c, "hist3", []string{s.iSection(), fmt.Sprintf("S %d", len(toks)), strings.Join(toks, " ")}, out)
}

func kindHist3(c *hlib.Ctx) {
	var s *soup3
	var label string
	switch r := c.Rng.Intn(10); {
	case r < 3:
		m, l := closed3simple(c)
		s, label = soupOfMesh(c, m), "closed-"+l
	case r < 5:
		m, l := closed3(c)
		s, label = soupOfMesh(c, m), "closed-"+l
	case r < 6:
		s, label = &soup3{}, "empty"
	default:
		s, label = damaged3(c)
		label = "damaged-" + strings.SplitN(label, "+", 2)[0]
	}
	if len(s.faces) > 300 {
		c.Stat("hist3:skipped-large", 1)
		m, l := closed3simple(c)
		s, label = soupOfMesh(c, m), "closed-"+l
	}
	s.nondegenerate()
	s.compact()
	// double-covered triangles in the initial mesh
	if c.Rng.Intn(2) == 0 {
		h := &histSim{coords: s.coords}
		for _, f := range s.faces {
			h.tris = append(h.tris, f)
			h.present = append(h.present, true)
		}
		for i, n := 0, 1+c.Rng.Intn(2); i < n; i++ {
			p := h.pillowTris(c, pillowShared(c))
			h.tris = append(h.tris, p[0], p[1])
			h.present = append(h.present, true, true)
			s.faces = append(s.faces, p[0], p[1])
		}
		s.coords = h.coords
		c.Rng.Shuffle(len(s.faces), func(i, j int) { s.faces[i], s.faces[j] = s.faces[j], s.faces[i] })
		label += "+pillow"
	}
	h := genHist(c, s, c.Rng.Intn(9))
	c.Stat("hist3:re-add-held-pointers-steps", h.nReadd)
	runHist(c, s, h, label)
}

// histFixed: a few deterministic histories.
func histFixed(c *hlib.Ctx) {
	P := model3d.XYZ
	tri := []model3d.Coord3D{P(0, 0, 0), P(1, 0, 0), P(0, 1, 0)}
	obsAll := []hstep{{kind: 'o', name: "nr"}, {kind: 'o', name: "sv"}, {kind: 'o', name: "ie"}, {kind: 'o', name: "or"}, {kind: 'o', name: "gate"}}
	run := func(s *soup3, label string, steps ...hstep) {
		h := &histSim{coords: append([]model3d.Coord3D{}, s.coords...)}
		for _, f := range s.faces {
			h.tris = append(h.tris, f)
			h.present = append(h.present, true)
		}
		for _, st := range steps {
			if st.kind == 'a' {
				for _, v := range st.tri {
					for v >= len(h.coords) {
						h.fresh()
					}
				}
				h.tris = append(h.tris, st.tri)
				h.present = append(h.present, true)
				st.id = len(h.tris) - 1
			}
			h.steps = append(h.steps, st)
		}
		runHist(c, s, h, label)
	}
	cat := func(a ...[]hstep) []hstep {
		var r []hstep
		for _, x := range a {
			r = append(r, x...)
		}
		return r
	}
	// a double-covered triangle alone: asked before and after every index-building call
	pillow := &soup3{coords: tri, faces: [][3]int{{0, 1, 2}, {1, 0, 2}}}
	for _, name := range histTouchIndex {
		run(pillow, "fixed-pillow", cat([]hstep{{kind: 'o', name: "nr"}, {kind: 't', name: name, id: 0}}, obsAll)...)
	}
	// next to / touching an ordinary closed component
	tet := soupOfMesh(c, tetrahedron(P(4, 4, 4), 1))
	for shared := 0; shared < 2; shared++ {
		s := tet.copy()
		n := len(s.coords)
		s.coords = append(s.coords, P(9, 0, 0), P(9, 1, 0), P(9, 0, 1))
		a := n
		if shared == 1 {
			a = s.faces[0][0]
		}
		s.faces = append(s.faces, [3]int{a, n + 1, n + 2}, [3]int{n + 1, a, n + 2})
		run(s, "fixed-tetra+pillow", cat([]hstep{{kind: 't', name: "vs"}}, obsAll, []hstep{{kind: 'c'}}, obsAll)...)
	}
	// built face by face on a mesh whose (empty) index exists from the start
	run(&soup3{}, "fixed-grown", cat([]hstep{{kind: 't', name: "vs"}, {kind: 'a', tri: [3]int{0, 1, 2}}}, obsAll,
		[]hstep{{kind: 'a', tri: [3]int{0, 2, 1}}}, obsAll, []hstep{{kind: 'a', tri: [3]int{0, 1, 3}}}, obsAll)...)
	// a mesh emptied by Remove (index cached / not cached), then refilled
	for _, warm := range []bool{true, false} {
		var st []hstep
		if warm {
			st = append(st, hstep{kind: 't', name: "vs"})
		}
		for id := 0; id < 4; id++ {
			st = append(st, hstep{kind: 'r', id: id})
		}
		st = append(st, obsAll...)
		for id := 3; id >= 0; id-- {
			st = append(st, hstep{kind: 'A', id: id})
		}
		run(tet, "fixed-emptied", cat(st, obsAll)...)
	}
	// m.AddMesh(m.Copy()) with the index cached: every pointer is added a second time; then one
	// of two components touching in a vertex is removed (its faces must leave every fan), and put back
	{
		s := tet.copy()
		n := len(s.coords)
		s.coords = append(s.coords, P(9, 0, 0), P(9, 1, 0), P(9, 0, 1))
		a := s.faces[0][0]
		s.faces = append(s.faces, [3]int{a, n, n + 1}, [3]int{a, n + 1, n + 2}, [3]int{a, n + 2, n}, [3]int{n, n + 2, n + 1})
		for _, warm := range []string{"sv", "vs", ""} {
			var st []hstep
			if warm != "" {
				st = append(st, hstep{kind: 't', name: warm})
			}
			for id := 0; id < 8; id++ {
				st = append(st, hstep{kind: 'A', id: id})
			}
			st = append(st, obsAll...)
			for id := 4; id < 8; id++ {
				st = append(st, hstep{kind: 'r', id: id})
			}
			st = append(st, obsAll...)
			for id := 7; id >= 4; id-- {
				st = append(st, hstep{kind: 'A', id: id})
			}
			run(s, "fixed-readd", cat(st, obsAll)...)
		}
	}
	// open and close a tetrahedron with the index cached: the slices are reordered by the removal
	run(tet, "fixed-reopen", cat([]hstep{{kind: 't', name: "sv"}, {kind: 'r', id: 0}}, obsAll, []hstep{{kind: 'A', id: 0}}, obsAll,
		[]hstep{{kind: 'r', id: 1}, {kind: 'r', id: 2}, {kind: 'A', id: 2}, {kind: 'A', id: 1}}, obsAll)...)
}

// ---------------------------------------------------------------- hist2: the 2-D twin

// model2d.Mesh has the same lazily built, incrementally maintained vertex index (mesh.template);
// Manifold and InconsistentVertices read its slices, MeshToHierarchy is gated on Manifold.

var hist2TouchIndex = []string{"man", "iv", "find", "nb", "vs", "rep"}
var hist2TouchPlain = []string{"it", "num", "segs"}
var hist2Obs = []string{"man", "iv", "gate"}

type hstep2 struct {
	kind byte
	id   int
	seg  [2]int
	name string
}

func kindHist2(c *hlib.Ctx) {
	var s *soup2
	var label string
	switch r := c.Rng.Intn(10); {
	case r < 4:
		segs := circle2(c, 3+c.Rng.Intn(6), model2d.XY(0, 0), 2)
		if c.Rng.Intn(2) == 0 {
			segs = append(segs, polySegs([]model2d.Coord{model2d.XY(8, 0), model2d.XY(9, 0), model2d.XY(9, 1)}, c.Rng.Intn(2) == 0)...)
		}
		s, label = soupOfSegs(c, segs), "closed"
	case r < 5:
		s, label = &soup2{}, "empty"
	default:
		s, label = damaged2(c)
		label = "damaged-" + strings.SplitN(label, "+", 2)[0]
	}
	if len(s.segs) > 200 {
		c.Stat("hist2:skipped-large", 1)
		s, label = soupOfSegs(c, circle2(c, 5, model2d.XY(0, 0), 2)), "closed"
	}
	// generation (harness-side bookkeeping only)
	coords := append([]model2d.Coord{}, s.coords...)
	segs := append([][2]int{}, s.segs...)
	present := make([]bool, len(segs))
	for i := range present {
		present[i] = true
	}
	var steps []hstep2
	var log []int
	fresh := func() int {
		coords = append(coords, model2d.XY(3000+float64(len(coords)), 21))
		return len(coords) - 1
	}
	ids := func(want bool) []int {
		var r []int
		for i, p := range present {
			if p == want {
				r = append(r, i)
			}
		}
		return r
	}
	addNew := func(g [2]int) {
		segs = append(segs, g)
		present = append(present, true)
		steps = append(steps, hstep2{kind: 'a', id: len(segs) - 1, seg: g})
		log = append(log, len(segs))
	}
	remove := func(id int, record bool) {
		steps = append(steps, hstep2{kind: 'r', id: id})
		if present[id] {
			present[id] = false
			if record {
				log = append(log, -(id + 1))
			}
		}
	}
	readd := func(id int, record bool) {
		steps = append(steps, hstep2{kind: 'A', id: id})
		if !present[id] {
			present[id] = true
			if record {
				log = append(log, id+1)
			}
		}
	}
	observe := func(all bool) {
		perm := c.Rng.Perm(len(hist2Obs))
		n := len(perm)
		if !all {
			n = 1 + c.Rng.Intn(len(perm))
		}
		for _, i := range perm[:n] {
			steps = append(steps, hstep2{kind: 'o', name: hist2Obs[i]})
		}
	}
	touch := func(name string) {
		st := hstep2{kind: 't', name: name}
		if name == "find" {
			if len(coords) == 0 {
				st.name = "vs"
			} else {
				st.id = c.Rng.Intn(len(coords))
			}
		}
		if name == "nb" {
			if len(segs) == 0 {
				st.name = "vs"
			} else {
				st.id = c.Rng.Intn(len(segs))
			}
		}
		steps = append(steps, st)
	}
	nsteps := c.Rng.Intn(9)
	for i := 0; i < nsteps; i++ {
		switch r := c.Rng.Intn(100); {
		case r < 45:
			pres, abs := ids(true), ids(false)
			switch q := c.Rng.Intn(100); {
			case q < 22 && len(pres) > 0:
				remove(pres[c.Rng.Intn(len(pres))], true)
			case q < 36 && len(abs) > 0:
				readd(abs[c.Rng.Intn(len(abs))], true)
			case q < 50 && len(log) > 0:
				x := log[len(log)-1]
				log = log[:len(log)-1]
				if x > 0 {
					remove(x-1, false)
				} else {
					readd(-x-1, false)
				}
			case q < 62 && len(pres) > 0:
				// remove a whole component (its vertices leave the mesh), look, mostly put it back
				start := pres[c.Rng.Intn(len(pres))]
				verts := map[int]bool{segs[start][0]: true, segs[start][1]: true}
				in := map[int]bool{start: true}
				for changed := true; changed; {
					changed = false
					for i, g := range segs {
						if present[i] && !in[i] && (verts[g[0]] || verts[g[1]]) {
							in[i], verts[g[0]], verts[g[1]] = true, true, true
							changed = true
						}
					}
				}
				var comp []int
				for i := range in {
					comp = append(comp, i)
				}
				sort.Ints(comp)
				if len(comp) <= 30 {
					c.Rng.Shuffle(len(comp), func(i, j int) { comp[i], comp[j] = comp[j], comp[i] })
					for _, id := range comp {
						remove(id, true)
					}
					observe(false)
					if c.Rng.Intn(3) != 0 {
						for _, id := range comp {
							readd(id, true)
						}
					}
				}
			case q < 80 && q >= 68 && len(pres) > 0:
				// m.AddMesh(m.Copy()): pointers that are already in the mesh are added again, mostly with
				// the vertex index cached; then the diagnostics are asked, sometimes after a removal
				if c.Rng.Intn(4) != 0 {
					touch(hist2TouchIndex[c.Rng.Intn(len(hist2TouchIndex))])
				}
				sub := pres
				if c.Rng.Intn(2) == 0 {
					c.Rng.Shuffle(len(sub), func(i, j int) { sub[i], sub[j] = sub[j], sub[i] })
					sub = sub[:1+c.Rng.Intn(len(sub))]
				}
				if len(sub) > 60 {
					sub = sub[:60]
				}
				for _, id := range sub {
					readd(id, false)
				}
				c.Stat("hist2:re-add-held-pointers-steps", 1)
				observe(c.Rng.Intn(2) == 0)
				if c.Rng.Intn(2) == 0 {
					id := sub[c.Rng.Intn(len(sub))]
					remove(id, true)
					observe(false)
					if c.Rng.Intn(2) == 0 {
						readd(id, true)
					}
				}
			case q < 68 && len(segs) > 0:
				id := c.Rng.Intn(len(segs))
				if present[id] {
					readd(id, false)
				} else {
					remove(id, false)
				}
			default:
				switch k := c.Rng.Intn(6); {
				case k == 0 && len(pres) > 0:
					g := segs[pres[c.Rng.Intn(len(pres))]]
					addNew([2]int{g[1], g[0]})
				case k == 1 && len(pres) > 0:
					addNew(segs[pres[c.Rng.Intn(len(pres))]])
				case k == 2 && len(pres) > 0:
					g := segs[pres[c.Rng.Intn(len(pres))]]
					addNew([2]int{g[c.Rng.Intn(2)], fresh()})
				case k == 3 && len(pres) > 0:
					// split a segment: remove it, add its two halves
					j := pres[c.Rng.Intn(len(pres))]
					g := segs[j]
					mid := fresh()
					remove(j, true)
					addNew([2]int{g[0], mid})
					if c.Rng.Intn(3) == 0 {
						touch(hist2TouchIndex[c.Rng.Intn(len(hist2TouchIndex))])
						observe(false)
					}
					addNew([2]int{mid, g[1]})
				default:
					// a two-segment loop (digon) or a triangle on fresh vertices
					a, b := fresh(), fresh()
					addNew([2]int{a, b})
					if c.Rng.Intn(2) == 0 {
						addNew([2]int{b, a})
					} else {
						d := fresh()
						addNew([2]int{b, d})
						addNew([2]int{d, a})
					}
				}
			}
		case r < 72:
			touch(hist2TouchIndex[c.Rng.Intn(len(hist2TouchIndex))])
		case r < 84:
			touch(hist2TouchPlain[c.Rng.Intn(len(hist2TouchPlain))])
		case r < 92:
			steps = append(steps, hstep2{kind: 'c'})
		default:
			observe(false)
		}
		if c.Rng.Intn(100) < 35 {
			observe(false)
		}
	}
	observe(true)

	// execution
	m := model2d.NewMesh()
	ptrs := make([]*model2d.Segment, len(segs))
	for i, f := range s.segs {
		ptrs[i] = &model2d.Segment{coords[f[0]], coords[f[1]]}
		m.Add(ptrs[i])
	}
	idOf := map[model2d.Coord]int{}
	for i, p := range coords {
		idOf[p] = i
	}
	var toks, outs []string
	stats := map[string]int{}
	st := watchdog(func() {
		for _, sp := range steps {
			switch sp.kind {
			case 'a':
				ptrs[sp.id] = &model2d.Segment{coords[sp.seg[0]], coords[sp.seg[1]]}
				m.Add(ptrs[sp.id])
				toks = append(toks, fmt.Sprintf("a:%d:%d,%d", sp.id, sp.seg[0], sp.seg[1]))
			case 'r':
				m.Remove(ptrs[sp.id])
				toks = append(toks, fmt.Sprintf("r:%d", sp.id))
			case 'A':
				m.Add(ptrs[sp.id])
				toks = append(toks, fmt.Sprintf("A:%d", sp.id))
			case 'c':
				m = m.Copy()
				toks = append(toks, "c")
			case 't':
				switch sp.name {
				case "man":
					m.Manifold()
				case "iv":
					m.InconsistentVertices()
				case "find":
					m.Find(coords[sp.id])
				case "nb":
					m.Neighbors(ptrs[sp.id])
				case "vs":
					m.VertexSlice()
				case "rep":
					m.Repair(1e-6)
				case "it":
					m.Iterate(func(*model2d.Segment) {})
				case "num":
					m.NumSegments()
				case "segs":
					m.SegmentSlice()
				}
				toks = append(toks, fmt.Sprintf("t:%s:%s", b01(model2d.VerifMeshHasIndex(m)), sp.name))
			case 'o':
				cached := model2d.VerifMeshHasIndex(m)
				toks = append(toks, "o:"+sp.name)
				if cached {
					stats["hist2:observed-with-index-cached"]++
				} else {
					stats["hist2:observed-without-index"]++
				}
				switch sp.name {
				case "man":
					outs = append(outs, "man="+b01(m.Manifold()))
				case "iv":
					var iv []int
					for _, v := range m.InconsistentVertices() {
						iv = append(iv, idOf[v])
					}
					sort.Ints(iv)
					outs = append(outs, "iv="+intsStr(iv))
				case "gate":
					g := hlib.Guard(func() string { model2d.MeshToHierarchy(m); return "0" })
					if strings.HasPrefix(g, "panic:") {
						if strings.Contains(g, "must_be_manifold") {
							g = "1"
						} else {
							g = "0"
							stats["hist2:gate-other-panic"]++
						}
					}
					outs = append(outs, "gate="+g)
				}
			}
		}
	})
	for k, n := range stats {
		c.Stat(k, n)
	}
	c.Stat("hist2:steps", len(steps))
	out := strings.Join(outs, " ")
	if st != "ok" {
		out = st
		toks = nil
		for _, sp := range steps {
			switch sp.kind {
			case 'a':
				toks = append(toks, fmt.Sprintf("a:%d:%d,%d", sp.id, sp.seg[0], sp.seg[1]))
			case 'r':
				toks = append(toks, fmt.Sprintf("r:%d", sp.id))
			case 'A':
				toks = append(toks, fmt.Sprintf("A:%d", sp.id))
			case 'c':
				toks = append(toks, "c")
			case 't':
				toks = append(toks, "t:1:"+sp.name)
			case 'o':
				toks = append(toks, "o:"+sp.name)
			}
		}
	}
	c.Stat("hist2-src:"+label, 1)
	emit(c, "hist2", []string{s.iSection(), fmt.Sprintf("S %d", len(toks)), strings.Join(toks, " ")}, out)
}
