package main

// rn2 / rn3: scenes for RepairNormals whose epsilon is chosen RELATIVE TO THE CLEARANCE of the
// scene, and which contain segments (triangles) much longer (larger) than the shape is thick.
//
// RepairNormals(epsilon) asks the even-odd solid about the point `centre + epsilon * unit normal`
// of every face.  The answer is determined by the mesh exactly when that point stays inside the
// clearance of the face: the stretch of the normal line from the centre up to distance epsilon
// must not touch the mesh (Props/C11: repair_normals2_offset_irrelevant_within_clearance).  The
// old generator used unit-size, roughly isotropic scenes with epsilon <= 1/256, so the probe was
// always "very close" whatever the code did with epsilon.  Here
//
//   - the scene is measured first (clearance2 / clearance3: the smallest distance, over all faces
//     and both sides, from the centre of a face along its normal line to the next touch of the
//     mesh - the same closed test the driver repeats in exact arithmetic), and epsilon is
//     clearance/2, /4, /16, /256 (times 1 or 13/16, or a decimal below clearance/2);
//   - thin shapes with long sides (plates cut into unequal pieces, thin-walled frames and onions,
//     slivers, bent strips), the nests of kinds2.go / poly.go, and their images under needle / slab /
//     power-of-two scalings: face length x epsilon exceeds the local thickness by factors up to 10^5
//     (counted: rn2:segments-with-eps*length>clearance, ...:cases-with-such-a-segment).
//
// Everything the check DECIDES with is recomputed by the driver from the op line (exact
// rationals); the float clearance here only chooses epsilon.

import (
	"fmt"
	"math"

	"verif/harness/hlib"

	"github.com/unixpickle/model3d/model2d"
	"github.com/unixpickle/model3d/model3d"
)

// ---------------------------------------------------------------- thin 2-D shapes (units of 1/8)

func ipSegs(loop []ipt, reverse bool) []*model2d.Segment {
	var res []*model2d.Segment
	for i := range loop {
		a, b := u2(loop[i]), u2(loop[(i+1)%len(loop)])
		if reverse {
			a, b = b, a
		}
		res = append(res, &model2d.Segment{a, b})
	}
	return res
}

// cutSide inserts k collinear vertices at random positions of the side a-b (both on the grid).
func cutSide(c *hlib.Ctx, a, b ipt, k int) []ipt {
	res := []ipt{a}
	if k > 0 {
		dx, dy := b[0]-a[0], b[1]-a[1]
		n := dx
		if n < 0 {
			n = -n
		}
		if dy != 0 {
			n = dy
			if n < 0 {
				n = -n
			}
		}
		// only axis-aligned sides are cut (so the cut points are on the grid)
		if (dx == 0 || dy == 0) && n > 1 {
			seen := map[int]bool{}
			var ts []int
			for i := 0; i < k; i++ {
				t := 1 + c.Rng.Intn(n-1)
				if !seen[t] {
					seen[t] = true
					ts = append(ts, t)
				}
			}
			sortInts(ts)
			for _, t := range ts {
				res = append(res, ipt{a[0] + sign(dx)*t, a[1] + sign(dy)*t})
			}
		}
	}
	return res
}

func sign(x int) int {
	if x > 0 {
		return 1
	}
	if x < 0 {
		return -1
	}
	return 0
}

func sortInts(xs []int) {
	for i := 1; i < len(xs); i++ {
		for j := i; j > 0 && xs[j] < xs[j-1]; j-- {
			xs[j], xs[j-1] = xs[j-1], xs[j]
		}
	}
}

func rectLoop(c *hlib.Ctx, x0, y0, x1, y1, cuts int) []ipt {
	corners := []ipt{{x0, y0}, {x1, y0}, {x1, y1}, {x0, y1}}
	var loop []ipt
	for i := range corners {
		k := 0
		if cuts > 0 {
			k = c.Rng.Intn(cuts + 1)
		}
		loop = append(loop, cutSide(c, corners[i], corners[(i+1)%4], k)...)
	}
	return loop
}

// logInt draws an integer in [lo, hi] with a roughly log-uniform distribution.
func logInt(c *hlib.Ctx, lo, hi int) int {
	v := math.Exp(math.Log(float64(lo)) + c.Rng.Float64()*(math.Log(float64(hi))-math.Log(float64(lo))))
	n := int(math.Round(v))
	if n < lo {
		n = lo
	}
	if n > hi {
		n = hi
	}
	return n
}

// thin2 draws a thin shape with long sides; coordinates in units of 1/8.
func thin2(c *hlib.Ctx) ([]*model2d.Segment, string) {
	var segs []*model2d.Segment
	ox, oy := c.Rng.Intn(64)-32, c.Rng.Intn(64)-32
	switch c.Rng.Intn(6) {
	case 0:
		// plate, sides cut into unequal pieces
		L, h := logInt(c, 64, 8000), logInt(c, 1, 16)
		segs = ipSegs(rectLoop(c, ox, oy, ox+L, oy+h, c.Rng.Intn(4)), false)
		return segs, "plate"
	case 1:
		// thin-walled frame: two nested loops
		W, H, w := logInt(c, 100, 8000), logInt(c, 100, 8000), logInt(c, 1, 8)
		segs = ipSegs(rectLoop(c, ox, oy, ox+W, oy+H, c.Rng.Intn(3)), false)
		segs = append(segs, ipSegs(rectLoop(c, ox+w, oy+w, ox+W-w, oy+H-w, c.Rng.Intn(3)), true)...)
		return segs, "frame"
	case 2:
		// onion: k nested loops, walls and gaps of different small widths
		W, H := logInt(c, 200, 8000), logInt(c, 200, 8000)
		k := 2 + c.Rng.Intn(4)
		in := 0
		for i := 0; i < k; i++ {
			if W-2*in < 4 || H-2*in < 4 {
				break
			}
			segs = append(segs, ipSegs(rectLoop(c, ox+in, oy+in, ox+W-in, oy+H-in, c.Rng.Intn(2)), i%2 == 1)...)
			in += logInt(c, 1, 12)
		}
		return segs, "onion"
	case 3:
		// sliver: a long base and a low chain above it
		L := logInt(c, 200, 8000)
		k := 1 + c.Rng.Intn(4)
		loop := []ipt{{ox, oy}, {ox + L, oy}}
		for i := k; i >= 1; i-- {
			loop = append(loop, ipt{ox + L*i/(k+1) + c.Rng.Intn(9) - 4, oy + logInt(c, 1, 16)})
		}
		return ipSegs(loop, c.Rng.Intn(2) == 0), "sliver"
	case 4:
		// bent strip: a chain of long slanted pieces and the same chain shifted by the width w
		k := 2 + c.Rng.Intn(4)
		w := logInt(c, 1, 12)
		step := logInt(c, 100, 3000)
		var bot, top []ipt
		y := 0
		for i := 0; i <= k; i++ {
			bot = append(bot, ipt{ox + i*step, oy + y})
			top = append(top, ipt{ox + i*step, oy + y + w})
			y += c.Rng.Intn(2*w+1) - w
		}
		loop := append([]ipt{}, bot...)
		for i := len(top) - 1; i >= 0; i-- {
			loop = append(loop, top[i])
		}
		return ipSegs(loop, false), "strip"
	default:
		// two thin plates side by side with a narrow gap, plus a small box far away
		L, h, gap := logInt(c, 100, 8000), logInt(c, 1, 8), logInt(c, 1, 8)
		segs = ipSegs(rectLoop(c, ox, oy, ox+L, oy+h, c.Rng.Intn(3)), false)
		segs = append(segs, ipSegs(rectLoop(c, ox, oy+h+gap, ox+L, oy+2*h+gap, c.Rng.Intn(3)), false)...)
		segs = append(segs, ipSegs(rectLoop(c, ox-40, oy-40, ox-24, oy-24, 0), false)...)
		return segs, "plates-with-gap"
	}
}

// ---------------------------------------------------------------- clearance along the normal (2-D)

type touch struct{ lo, hi float64 }

// lineTouches2: where the mesh touches the line m + u n (closed test), as parameter intervals.
func lineTouches2(s *soup2, skip int, m, n model2d.Coord) []touch {
	var res []touch
	side := func(q model2d.Coord) float64 { return n.X*(q.Y-m.Y) - n.Y*(q.X-m.X) }
	nn := n.Dot(n)
	for j, g := range s.segs {
		if j == skip {
			continue
		}
		a, b := s.coords[g[0]], s.coords[g[1]]
		sa, sb := side(a), side(b)
		switch {
		case sa*sb > 0:
		case sa == 0 && sb == 0:
			ua, ub := a.Sub(m).Dot(n)/nn, b.Sub(m).Dot(n)/nn
			res = append(res, touch{math.Min(ua, ub), math.Max(ua, ub)})
		default:
			e := b.Sub(a)
			w := a.Sub(m)
			u := (w.X*e.Y - w.Y*e.X) / (n.X*e.Y - n.Y*e.X)
			res = append(res, touch{u, u})
		}
	}
	return res
}

// clearance2: per segment the distance from its midpoint along the normal line (both sides) to
// the next touch of the mesh; +Inf when nothing is touched.  ok=false when something passes through a
// midpoint (the scene is rejected).
func clearance2(s *soup2) (per []float64, ok bool) {
	per = make([]float64, len(s.segs))
	for i, g := range s.segs {
		a, b := s.coords[g[0]], s.coords[g[1]]
		d := b.Sub(a)
		n := model2d.XY(-d.Y, d.X)
		l := n.Norm()
		if l == 0 {
			return nil, false
		}
		m := a.Mid(b)
		per[i] = math.Inf(1)
		for _, t := range lineTouches2(s, i, m, n) {
			if t.lo <= 0 && t.hi >= 0 {
				return nil, false
			}
			per[i] = math.Min(per[i], math.Min(math.Abs(t.lo), math.Abs(t.hi))*l)
		}
	}
	return per, true
}

func minOf(xs []float64) float64 {
	m := math.Inf(1)
	for _, x := range xs {
		m = math.Min(m, x)
	}
	return m
}

// pickEps chooses epsilon below half the clearance cl.
func pickEps(c *hlib.Ctx, cl float64) float64 {
	if math.IsInf(cl, 1) {
		cl = 1
	}
	switch c.Rng.Intn(8) {
	case 0:
		// the old absolute values when they fit
		e := []float64{1.0 / 1024, 1.0 / 256, 1e-3}[c.Rng.Intn(3)]
		if e <= cl/2 {
			return e
		}
		return cl / 4
	case 1:
		return cl / 256
	case 2:
		return cl / 16
	case 3:
		return cl / 4 * 0.8125
	case 4:
		// a decimal (not dyadic) value
		return float64(float32(cl * 0.3))
	default:
		return cl / 2
	}
}

// ---------------------------------------------------------------- rn2

func rn2Scene(c *hlib.Ctx) (*soup2, string) {
	var segs []*model2d.Segment
	label := ""
	switch r := c.Rng.Intn(10); {
	case r < 1:
		segs, label = circle2(c, 3+c.Rng.Intn(12), model2d.XY(1, 1), 2), "circle"
	case r < 3:
		segs, label = nested2(c, true), "nested"
	case r < 5:
		segs, label = polySegs2(c, polyNest(c)), "poly"
	default:
		segs, label = thin2(c)
	}
	s := soupOfSegs(c, segs)
	xf := randomXform2(c)
	if !xf.isIdentity() {
		for i := range s.coords {
			s.coords[i] = xf.apply2(s.coords[i])
		}
	}
	return s, label + "/" + xf.name
}

// flipSome re-orients segments: none (1/8), a random subset, every second one, all, or only the
// longest ones.
func flipSome2(c *hlib.Ctx, s *soup2) string {
	rev := func(j int) { s.segs[j] = [2]int{s.segs[j][1], s.segs[j][0]} }
	switch r := c.Rng.Intn(8); {
	case r == 0:
		return "none"
	case r < 4:
		k := 1 + c.Rng.Intn(1+len(s.segs)/2)
		for i := 0; i < k; i++ {
			rev(c.Rng.Intn(len(s.segs)))
		}
		return "random"
	case r == 4:
		for j := range s.segs {
			if j%2 == 1 {
				rev(j)
			}
		}
		return "odd"
	case r == 5:
		for j := range s.segs {
			rev(j)
		}
		return "all"
	default:
		// the segments at least half as long as the longest
		mx := 0.0
		ln := func(j int) float64 { return s.coords[s.segs[j][0]].Dist(s.coords[s.segs[j][1]]) }
		for j := range s.segs {
			mx = math.Max(mx, ln(j))
		}
		for j := range s.segs {
			if ln(j) >= mx/2 {
				rev(j)
			}
		}
		return "long"
	}
}

func rn2Case(c *hlib.Ctx, s *soup2, label string, eps float64, per []float64) {
	long := 0
	for i, g := range s.segs {
		if eps*s.coords[g[0]].Dist(s.coords[g[1]]) > per[i] {
			long++
		}
	}
	c.Stat("rn2:segments", len(s.segs))
	c.Stat("rn2:segments-with-eps*length>clearance", long)
	if long > 0 {
		c.Stat("rn2:cases-with-a-segment-whose-eps*length>clearance", 1)
	}
	b := s.build()
	var out string
	st := watchdog(func() {
		res, n := b.m.RepairNormals(eps)
		fl, ok := flippedSet2(s, res)
		if !ok {
			out = "output-is-not-a-reorientation-of-the-input"
			return
		}
		clean := res.Manifold() && len(res.InconsistentVertices()) == 0
		out = fmt.Sprintf("flip=%s n=%d clean=%s", intsStr(fl), n, b01(clean))
		if n > 0 {
			c.Stat("rn2:flipped-something", 1)
		}
	})
	if st != "ok" {
		out = st
	}
	c.Stat("rn2-src:"+label, 1)
	emit(c, "rn2", []string{s.iSection(), "E " + hlib.RatStr(eps), s.cSection()}, out)
}

func kindRn2(c *hlib.Ctx) {
	for try := 0; try < 20; try++ {
		s, label := rn2Scene(c)
		if len(s.segs) == 0 || len(s.segs) > 600 {
			continue
		}
		per, ok := clearance2(s)
		if !ok {
			c.Stat("rn2:scene-rejected", 1)
			continue
		}
		cl := minOf(per)
		if cl <= 0 {
			c.Stat("rn2:scene-rejected", 1)
			continue
		}
		eps := pickEps(c, cl)
		// keep the probe many float64 steps away from its segment: epsilon >= 1e-7 x the largest
		// coordinate (needles reach 6.4e4 with walls of 1/64)
		ext := 0.0
		for _, p := range s.coords {
			ext = math.Max(ext, math.Max(math.Abs(p.X), math.Abs(p.Y)))
		}
		if eps < 1e-7*ext {
			c.Stat("rn2:epsilon-raised-to-clearance/2", 1)
			eps = cl / 2
		}
		if eps < 1e-7*ext {
			c.Stat("rn2:scene-rejected", 1)
			continue
		}
		fl := flipSome2(c, s)
		c.Stat("rn2-flip:"+fl, 1)
		rn2Case(c, s, label, eps, per)
		return
	}
}

// rn2Fixed: the demo nests of poly.go (box > thick U/C > thin follower in its material > small
// shapes in the arms) as they are and as needles, all / every second segment reversed, epsilon =
// clearance/2 and /8.
func rn2Fixed(c *hlib.Ctx) {
	for v := 0; v < 12; v++ {
		for mode := 0; mode < 2; mode++ {
			s := soupOfSegs(c, polySegs2(c, demoNest(v)))
			xf := identity
			if mode == 1 {
				xf = needle(2*(v%2), v%4, v%2, 5, 2)
			}
			if !xf.isIdentity() {
				for i := range s.coords {
					s.coords[i] = xf.apply2(s.coords[i])
				}
			}
			per, ok := clearance2(s)
			if !ok {
				continue
			}
			for j := range s.segs {
				if v%2 == 0 || j%2 == 1 {
					s.segs[j] = [2]int{s.segs[j][1], s.segs[j][0]}
				}
			}
			eps := minOf(per) / 2
			if v%3 == 0 {
				eps /= 4
			}
			rn2Case(c, s, "demo-nest/"+xf.name, eps, per)
		}
	}
}

// ---------------------------------------------------------------- thin 3-D shapes (units of 1/8)

func box3(lo, hi [3]int) *model3d.Mesh {
	f := func(v [3]int) model3d.Coord3D {
		return model3d.XYZ(float64(v[0])/8, float64(v[1])/8, float64(v[2])/8)
	}
	return model3d.NewMeshRect(f(lo), f(hi))
}

// gridBox3: a box cut into nx*ny*nz cells of equal size (extents must be divisible).
func gridBox3(lo, hi [3]int, n [3]int) *model3d.Mesh {
	for a := 0; a < 3; a++ {
		if n[a] < 1 || (hi[a]-lo[a])%n[a] != 0 {
			n[a] = 1
		}
	}
	d := model3d.XYZ(float64(hi[0]-lo[0])/float64(8*n[0]), float64(hi[1]-lo[1])/float64(8*n[1]), float64(hi[2]-lo[2])/float64(8*n[2]))
	return gridBox(model3d.XYZ(float64(lo[0])/8, float64(lo[1])/8, float64(lo[2])/8), n[0], n[1], n[2], d)
}

// thin3 draws a thin solid with large faces.
func thin3(c *hlib.Ctx) (*model3d.Mesh, string) {
	o := [3]int{c.Rng.Intn(64) - 32, c.Rng.Intn(64) - 32, c.Rng.Intn(64) - 32}
	add := func(a [3]int, x, y, z int) [3]int { return [3]int{a[0] + x, a[1] + y, a[2] + z} }
	switch c.Rng.Intn(4) {
	case 0:
		// slab: two huge triangles per large face, or cut into unequal numbers of cells
		L, W, h := logInt(c, 64, 4000), logInt(c, 64, 4000), logInt(c, 1, 16)
		if c.Rng.Intn(2) == 0 {
			return box3(o, add(o, L, W, h)), "slab"
		}
		L, W = L/4*4, W/4*4
		return gridBox3(o, add(o, L, W, h), [3]int{[]int{1, 2, 4}[c.Rng.Intn(3)], []int{1, 2, 4}[c.Rng.Intn(3)], 1}), "slab-grid"
	case 1:
		// thin-walled hollow box
		L, W, H, w := logInt(c, 100, 4000), logInt(c, 100, 4000), logInt(c, 100, 4000), logInt(c, 1, 8)
		m := box3(o, add(o, L, W, H))
		m.AddMesh(invert3(box3(add(o, w, w, w), add(o, L-w, W-w, H-w))))
		return m, "hollow-box"
	case 2:
		// onion of boxes, walls and gaps of different small widths
		L, W, H := logInt(c, 200, 4000), logInt(c, 200, 4000), logInt(c, 200, 4000)
		m := model3d.NewMesh()
		in := 0
		for i, k := 0, 2+c.Rng.Intn(3); i < k; i++ {
			if L-2*in < 4 || W-2*in < 4 || H-2*in < 4 {
				break
			}
			b := box3(add(o, in, in, in), add(o, L-in, W-in, H-in))
			if i%2 == 1 {
				b = invert3(b)
			}
			m.AddMesh(b)
			in += logInt(c, 1, 12)
		}
		return m, "onion"
	default:
		// plates stacked with narrow gaps
		L, W := logInt(c, 100, 4000), logInt(c, 100, 4000)
		m := model3d.NewMesh()
		z := 0
		for i, k := 0, 2+c.Rng.Intn(2); i < k; i++ {
			h := logInt(c, 1, 8)
			m.AddMesh(box3(add(o, 0, 0, z), add(o, L, W, z+h)))
			z += h + logInt(c, 1, 8)
		}
		return m, "plates-with-gap"
	}
}

// ---------------------------------------------------------------- clearance along the normal (3-D)

func vol3f(d, u, v model3d.Coord3D) float64 { return d.Dot(u.Cross(v)) }

// lineTouches3: where the mesh touches the line m + u n (closed test with a tolerance that only
// ever ADDS touches), as parameter intervals.
func lineTouches3(s *soup3, skip int, m, n model3d.Coord3D) []touch {
	var res []touch
	nl := n.Norm()
	nn := n.Dot(n)
	for j, f := range s.faces {
		if j == skip {
			continue
		}
		a, b, cc := s.coords[f[0]].Sub(m), s.coords[f[1]].Sub(m), s.coords[f[2]].Sub(m)
		v1, v2, v3 := vol3f(n, a, b), vol3f(n, b, cc), vol3f(n, cc, a)
		t1, t2, t3 := 1e-9*nl*a.Norm()*b.Norm(), 1e-9*nl*b.Norm()*cc.Norm(), 1e-9*nl*cc.Norm()*a.Norm()
		pos := v1 >= -t1 && v2 >= -t2 && v3 >= -t3
		neg := v1 <= t1 && v2 <= t2 && v3 <= t3
		if !pos && !neg {
			continue
		}
		N := b.Sub(a).Cross(cc.Sub(a))
		den := N.Dot(n)
		if math.Abs(den) > 1e-9*N.Norm()*nl {
			u := N.Dot(a) / den
			res = append(res, touch{u, u})
		} else {
			ua, ub, uc := a.Dot(n)/nn, b.Dot(n)/nn, cc.Dot(n)/nn
			res = append(res, touch{math.Min(ua, math.Min(ub, uc)), math.Max(ua, math.Max(ub, uc))})
		}
	}
	return res
}

func clearance3(s *soup3) (per []float64, ok bool) {
	per = make([]float64, len(s.faces))
	for i, f := range s.faces {
		a, b, cc := s.coords[f[0]], s.coords[f[1]], s.coords[f[2]]
		n := b.Sub(a).Cross(cc.Sub(a))
		l := n.Norm()
		if l == 0 {
			return nil, false
		}
		m := a.Add(b).Add(cc).Scale(1.0 / 3)
		per[i] = math.Inf(1)
		for _, t := range lineTouches3(s, i, m, n) {
			if t.lo <= 0 && t.hi >= 0 {
				return nil, false
			}
			per[i] = math.Min(per[i], math.Min(math.Abs(t.lo), math.Abs(t.hi))*l)
		}
	}
	return per, true
}

// ---------------------------------------------------------------- rn3

func rn3Scene(c *hlib.Ctx) (*soup3, string) {
	var m *model3d.Mesh
	var label string
	switch r := c.Rng.Intn(10); {
	case r < 2:
		m, label = nested3(c, true)
	case r < 3:
		m, label = closed3(c)
	case r < 5:
		m, label = closed3simple(c)
	default:
		m, label = thin3(c)
	}
	if m.NumTriangles() > 260 {
		c.Stat("rn3:skipped-large", 1)
		m, label = closed3simple(c)
	}
	s := soupOfMesh(c, m)
	xf := randomXform3(c)
	if !xf.isIdentity() {
		for i := range s.coords {
			s.coords[i] = xf.apply3(s.coords[i])
		}
	}
	return s, label + "/" + xf.name
}

func flipSome3(c *hlib.Ctx, s *soup3) string {
	switch r := c.Rng.Intn(8); {
	case r == 0:
		return "none"
	case r == 1:
		for _, g := range s.components() {
			if c.Rng.Intn(2) == 0 {
				for _, j := range g {
					s.faces[j] = flipFace(s.faces[j])
				}
			}
		}
		return "components"
	case r < 5:
		k := 1 + c.Rng.Intn(1+len(s.faces)/2)
		for i := 0; i < k; i++ {
			j := c.Rng.Intn(len(s.faces))
			s.faces[j] = flipFace(s.faces[j])
		}
		return "random"
	case r == 5:
		for j := range s.faces {
			s.faces[j] = flipFace(s.faces[j])
		}
		return "all"
	default:
		// the faces at least half as large as the largest
		ar := func(j int) float64 {
			f := s.faces[j]
			return s.coords[f[1]].Sub(s.coords[f[0]]).Cross(s.coords[f[2]].Sub(s.coords[f[0]])).Norm()
		}
		mx := 0.0
		for j := range s.faces {
			mx = math.Max(mx, ar(j))
		}
		for j := range s.faces {
			if ar(j) >= mx/2 {
				s.faces[j] = flipFace(s.faces[j])
			}
		}
		return "large"
	}
}

func kindRn3(c *hlib.Ctx) {
	for try := 0; try < 20; try++ {
		s, label := rn3Scene(c)
		if len(s.faces) == 0 {
			continue
		}
		per, ok := clearance3(s)
		if !ok || minOf(per) <= 0 {
			c.Stat("rn3:scene-rejected", 1)
			continue
		}
		eps := pickEps(c, minOf(per))
		ext := 0.0
		for _, p := range s.coords {
			ext = math.Max(ext, math.Max(math.Abs(p.X), math.Max(math.Abs(p.Y), math.Abs(p.Z))))
		}
		if eps < 1e-7*ext {
			c.Stat("rn3:epsilon-raised-to-clearance/2", 1)
			eps = minOf(per) / 2
		}
		if eps < 1e-7*ext {
			c.Stat("rn3:scene-rejected", 1)
			continue
		}
		c.Stat("rn3-flip:"+flipSome3(c, s), 1)
		large := 0
		for i, f := range s.faces {
			area2 := s.coords[f[1]].Sub(s.coords[f[0]]).Cross(s.coords[f[2]].Sub(s.coords[f[0]])).Norm()
			if eps*area2 > per[i] {
				large++
			}
		}
		c.Stat("rn3:faces", len(s.faces))
		c.Stat("rn3:faces-with-eps*2area>clearance", large)
		if large > 0 {
			c.Stat("rn3:cases-with-a-face-whose-eps*2area>clearance", 1)
		}
		b := s.build()
		var out string
		st := watchdog(func() {
			res, n := b.m.RepairNormals(eps)
			fl, ok := flippedSet(s, res)
			if !ok {
				out = "output-is-not-a-reorientation-of-the-input"
				return
			}
			clean := !res.NeedsRepair() && len(res.InconsistentEdges()) == 0
			out = fmt.Sprintf("flip=%s n=%d clean=%s", intsStr(fl), n, b01(clean))
			if n > 0 {
				c.Stat("rn3:flipped-something", 1)
			}
		})
		if st != "ok" {
			out = st
		}
		c.Stat("rn3-src:"+label, 1)
		emit(c, "rn3", []string{s.iSection(), "E " + hlib.RatStr(eps), s.cSection()}, out)
		return
	}
}
