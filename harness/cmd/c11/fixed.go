package main

import (
	"verif/harness/hlib"

	"github.com/unixpickle/model3d/model3d"
)

// fixed runs a few hand-made inputs first (edge cases that random generation rarely hits).
func fixed(c *hlib.Ctx) {
	nfixed := 0
	emitDiag := func(s *soup3) {
		s.compact()
		// every input in the declaration order and in a rotated order (NeedsRepair asked after
		// SingularVertices / Orientable have built the vertex index)
		for _, order := range [][]int{{0, 1, 2, 3}, {1 + nfixed%3, 0, 1 + (nfixed+1)%3, 1 + (nfixed+2)%3}} {
			b := s.build()
			emit(c, "diag3", []string{s.iSection(), oSection(order)}, diagString(s, b.m, true, order))
		}
		nfixed++
	}
	// empty mesh, single triangle
	emitDiag(&soup3{})
	one := &soup3{coords: []model3d.Coord3D{model3d.XYZ(0, 0, 0), model3d.XYZ(1, 0, 0), model3d.XYZ(0, 1, 0)}, faces: [][3]int{{0, 1, 2}}}
	emitDiag(one)
	// a lone triangle twice (duplicates do not "share an edge": three vertices in common),
	// and a triangle with its own reversal
	emitDiag(&soup3{coords: one.coords, faces: [][3]int{{0, 1, 2}, {0, 1, 2}}})
	emitDiag(&soup3{coords: one.coords, faces: [][3]int{{0, 1, 2}, {1, 0, 2}}})
	emitDiag(&soup3{coords: one.coords, faces: [][3]int{{0, 1, 2}, {1, 2, 0}, {2, 0, 1}}})
	// an edge used three times whose third use comes last / first in the list
	tet := soupOfMesh(c, tetrahedron(model3d.XYZ(0, 0, 0), 1))
	for rot := 0; rot < 3; rot++ {
		s := tet.copy()
		f := s.faces[0]
		s.coords = append(s.coords, model3d.XYZ(9, 9, 9))
		fin := [3]int{f[0], f[1], len(s.coords) - 1}
		if rot == 0 {
			s.faces = append([][3]int{fin}, s.faces...)
		} else if rot == 1 {
			s.faces = append(s.faces, fin)
		} else {
			s.faces = append(s.faces[:2], append([][3]int{fin}, s.faces[2:]...)...)
		}
		emitDiag(s)
	}
	// two tetrahedra touching at a vertex; along an edge
	{
		s := tet.copy()
		n := len(s.coords)
		s.coords = append(s.coords, model3d.XYZ(5, 0, 0), model3d.XYZ(5, 1, 0), model3d.XYZ(5, 0, 1))
		a := s.faces[0][0]
		s.faces = append(s.faces, [3]int{a, n, n + 1}, [3]int{a, n + 1, n + 2}, [3]int{a, n + 2, n}, [3]int{n, n + 2, n + 1})
		emitDiag(s)
		b := s.build()
		_ = b
	}
	// Moebius band and annulus
	emitDiag(band(5, true))
	emitDiag(band(5, false))
	emitDiag(gridSurface(4, 4, true))
	emitDiag(gridSurface(4, 4, false))
	histFixed(c)
	rn2Fixed(c)
	// nests of non-convex components: box > thick U/C > thin U/C in its material > small shapes in
	// the arms (the bounding-box centre of the thin one lies in the notch), 2-D and 3-D
	for v := 0; v < 12; v++ {
		roots := demoNest(v)
		hier2Case(c, soupOfSegs(c, polySegs2(c, roots)), "demo-nest", roots, identity)
		hier3Case(c, polyMesh3(c, roots, v%3), "demo-nest", roots, identity)
		// the same scenes as needles along x, y, z (every signed permutation over the 12 variants)
		hier2Case(c, soupOfSegs(c, polySegs2(c, roots)), "demo-nest", roots, needle(2*(v%2), v%4, v%2, 5, 2))
		hier3Case(c, polyMesh3(c, roots, v%3), "demo-nest", roots, needle(v%6, (5*v+3)%8, v%3, 6, 3))
	}
	// a needle along each axis (both directions) with two small inner boxes, one in each of two
	// opposite corners of its bounding box, for every pair of opposite corners
	for long := 0; long < 3; long++ {
		for corner := 0; corner < 8; corner++ {
			m := model3d.NewMeshRect(model3d.XYZ(0, 0, 0), model3d.XYZ(4, 4, 4))
			for side := 0; side < 2; side++ {
				var lo [3]float64
				for k := 0; k < 3; k++ {
					if (corner>>uint(k))&1 == side {
						lo[k] = 0.25
					} else {
						lo[k] = 3.25
					}
				}
				size := 0.5 - 0.25*float64(side)
				a := model3d.XYZ(lo[0], lo[1], lo[2])
				if side == 1 {
					a = a.Add(model3d.XYZ(0.125, 0.125, 0.125))
				}
				m.AddMesh(invert3(model3d.NewMeshRect(a, a.Add(model3d.XYZ(size, size, size)))))
			}
			hier3Case(c, m, "corner-needle", nil, needle((long+corner)%6, corner, long, 5, 2))
		}
	}
}
