package main

// Axis-aligned affine images of the hierarchy scenes (hier3 / hier2).
//
// The nesting of components and the even-odd classification of a point are invariant under
// every invertible affine map; the builder, however, sweeps along ONE fixed axis and may use the
// bounding boxes of the components, so its work depends on how a scene lies relative to that
// axis.  The scenes of gen3.go / poly.go are roughly isotropic and always lie the same way
// (children towards -x/-y, prisms flat in z).  An xform permutes the coordinate axes, reflects
// any of them, scales each by a power of two (exact in float64 and as rationals) and shifts by a
// multiple of 1/8: needles (one axis stretched by 2^4..2^9 relative to the others), slabs (one
// axis squashed), boxes of random proportions - in every direction and with the inner components
// in every corner of their enclosers' bounding boxes.  Query points are drawn in the original
// frame (where they are known to be off every surface) and mapped along.

import (
	"fmt"
	"math"

	"verif/harness/hlib"

	"github.com/unixpickle/model3d/model2d"
	"github.com/unixpickle/model3d/model3d"
)

type xform struct {
	perm  [3]int     // output axis i reads input axis perm[i]
	neg   [3]bool    // output axis i is reflected
	exp   [3]int     // output axis i is scaled by 2^exp[i]
	shift [3]float64 // multiples of 1/8, added last
	name  string
}

var identity = xform{perm: [3]int{0, 1, 2}, name: "id"}

func (x *xform) isIdentity() bool {
	return x.perm == [3]int{0, 1, 2} && x.neg == [3]bool{} && x.exp == [3]int{} && x.shift == [3]float64{}
}

func (x *xform) apply(p [3]float64) [3]float64 {
	var r [3]float64
	for i := 0; i < 3; i++ {
		v := math.Ldexp(p[x.perm[i]], x.exp[i])
		if x.neg[i] {
			v = -v
		}
		r[i] = nz(v + x.shift[i])
	}
	return r
}

func (x *xform) apply3(p model3d.Coord3D) model3d.Coord3D {
	r := x.apply([3]float64{p.X, p.Y, p.Z})
	return model3d.XYZ(r[0], r[1], r[2])
}

// apply2 uses the first two output axes; perm must keep {0,1} (see xform2).
func (x *xform) apply2(p model2d.Coord) model2d.Coord {
	r := x.apply([3]float64{p.X, p.Y, 0})
	return model2d.XY(r[0], r[1])
}

var perms3 = [][3]int{{0, 1, 2}, {0, 2, 1}, {1, 0, 2}, {1, 2, 0}, {2, 0, 1}, {2, 1, 0}}

// needleCounter cycles the long (resp. short) output axis of needles and slabs through x, y, z,
// so that every run has all of them whatever the seed.
var needleCounter int

// signedPerm: permutation number p (0..5), reflection bits s (0..7).
func signedPerm(p, s int) xform {
	x := xform{perm: perms3[p%6]}
	for i := 0; i < 3; i++ {
		x.neg[i] = s&(1<<uint(i)) != 0
	}
	return x
}

// needle: output axis `long` is stretched by 2^hi, the other two scaled by 2^-lo.
func needle(p, s, long, hi, lo int) xform {
	x := signedPerm(p, s)
	for i := 0; i < 3; i++ {
		x.exp[i] = -lo
	}
	x.exp[long] = hi
	x.name = fmt.Sprintf("needle-%c", "xyz"[long])
	return x
}

// randomXform3 draws a transformation: identity (1/4), a signed permutation (1/8), a needle
// (3/8), a slab (1/8) or independent scales (1/8).
func randomXform3(c *hlib.Ctx) xform {
	p, s := c.Rng.Intn(6), c.Rng.Intn(8)
	var x xform
	switch r := c.Rng.Intn(8); {
	case r < 2:
		return identity
	case r < 3:
		x = signedPerm(p, s)
		x.name = "signed-perm"
	case r < 6:
		long := needleCounter % 3
		needleCounter++
		x = needle(p, s, long, 3+c.Rng.Intn(4), 1+c.Rng.Intn(3))
	case r < 7:
		short := needleCounter % 3
		needleCounter++
		x = signedPerm(p, s)
		for i := 0; i < 3; i++ {
			x.exp[i] = 1 + c.Rng.Intn(3)
		}
		x.exp[short] = -(1 + c.Rng.Intn(3))
		x.name = fmt.Sprintf("slab-%c", "xyz"[short])
	default:
		x = signedPerm(p, s)
		for i := 0; i < 3; i++ {
			x.exp[i] = c.Rng.Intn(7) - 3
		}
		x.name = "scales"
	}
	for i := 0; i < 3; i++ {
		x.shift[i] = float64(c.Rng.Intn(129)-64) / 8
	}
	return x
}

// randomXform2: the same in the plane (axes 0 and 1 only).
func randomXform2(c *hlib.Ctx) xform {
	x := xform{perm: [3]int{0, 1, 2}}
	r := c.Rng.Intn(8)
	if r < 2 {
		return identity
	}
	if c.Rng.Intn(2) == 0 {
		x.perm = [3]int{1, 0, 2}
	}
	x.neg[0], x.neg[1] = c.Rng.Intn(2) == 0, c.Rng.Intn(2) == 0
	switch {
	case r < 3:
		x.name = "signed-perm"
	case r < 6:
		long := needleCounter % 2
		needleCounter++
		x.exp[long], x.exp[1-long] = 3+c.Rng.Intn(4), -(1 + c.Rng.Intn(3))
		x.name = fmt.Sprintf("needle-%c", "xy"[long])
	default:
		x.exp[0], x.exp[1] = c.Rng.Intn(7)-3, c.Rng.Intn(7)-3
		x.name = "scales"
	}
	x.shift[0], x.shift[1] = float64(c.Rng.Intn(129)-64)/8, float64(c.Rng.Intn(129)-64)/8
	return x
}

// ---------------------------------------------------------------- statistics (evidence only)

// sweepAxis3 / sweepAxis2 repeat the library's arbitraryAxis; they are used ONLY to count how
// often a scene has the arrangement described below (c.Stat), never to decide anything.
var sweepAxis3 = [3]float64{0.95177695, 0.26858931, -0.14825794}
var sweepAxis2 = [3]float64{0.95177695, 0.26858931, 0}

type compBox struct {
	lo, hi   [3]float64
	first    [3]float64 // the vertex with the smallest projection on the sweep axis
	firstDot float64
}

func dotA(a, p [3]float64) float64 { return a[0]*p[0] + a[1]*p[1] + a[2]*p[2] }

func boxesOf(groups [][][3]float64, axis [3]float64) []compBox {
	var res []compBox
	for _, g := range groups {
		if len(g) == 0 {
			continue
		}
		b := compBox{lo: g[0], hi: g[0], first: g[0], firstDot: dotA(axis, g[0])}
		for _, p := range g {
			for i := 0; i < 3; i++ {
				b.lo[i] = math.Min(b.lo[i], p[i])
				b.hi[i] = math.Max(b.hi[i], p[i])
			}
			if d := dotA(axis, p); d < b.firstDot {
				b.first, b.firstDot = p, d
			}
		}
		res = append(res, b)
	}
	return res
}

// sweepStats counts, over the pairs (A, B) of components with bbox(B) inside bbox(A):
//   - pairs whose B starts (first vertex along the sweep axis) beyond the projection of the MAX
//     corner of bbox(A), which is not the furthest corner when the axis has a negative component;
//   - pairs whose B starts beyond the projection of the second-furthest corner of bbox(A) (any
//     shortcut "the sweep has passed corner X of A" with X not the furthest corner drops them);
//   - pairs whose B starts before the projection of the centre of bbox(A).
func sweepStats(c *hlib.Ctx, kind string, boxes []compBox, axis [3]float64, dims int) {
	pairs, beyondMax, beyondSome, early := 0, 0, 0, 0
	for i, a := range boxes {
		for j, b := range boxes {
			if i == j {
				continue
			}
			in := true
			for k := 0; k < dims; k++ {
				if !(a.lo[k] < b.lo[k] && b.hi[k] < a.hi[k]) {
					in = false
				}
			}
			if !in {
				continue
			}
			pairs++
			if dotA(axis, a.hi) < b.firstDot {
				beyondMax++
			}
			far, some := math.Inf(-1), false
			var dots []float64
			for m := 0; m < 1<<uint(dims); m++ {
				var p [3]float64
				for k := 0; k < dims; k++ {
					p[k] = a.lo[k]
					if m&(1<<uint(k)) != 0 {
						p[k] = a.hi[k]
					}
				}
				d := dotA(axis, p)
				dots = append(dots, d)
				far = math.Max(far, d)
			}
			second := math.Inf(-1)
			for _, d := range dots {
				if d < far {
					second = math.Max(second, d)
				}
			}
			some = second < b.firstDot
			if some {
				beyondSome++
			}
			var mid [3]float64
			for k := 0; k < dims; k++ {
				mid[k] = (a.lo[k] + a.hi[k]) / 2
			}
			if b.firstDot < dotA(axis, mid) {
				early++
			}
		}
	}
	c.Stat(kind+":bbox-nested-pairs", pairs)
	c.Stat(kind+":bbox-nested-pairs-inner-starts-beyond-max-corner-of-outer", beyondMax)
	c.Stat(kind+":bbox-nested-pairs-inner-starts-beyond-second-furthest-corner-of-outer", beyondSome)
	c.Stat(kind+":bbox-nested-pairs-inner-starts-before-centre-of-outer", early)
	if beyondMax > 0 {
		c.Stat(kind+":cases-with-inner-start-beyond-max-corner", 1)
	}
}

func sweepStats3(c *hlib.Ctx, s *soup3) {
	var groups [][][3]float64
	for _, g := range s.components() {
		var pts [][3]float64
		for _, fi := range g {
			for _, v := range s.faces[fi] {
				p := s.coords[v]
				pts = append(pts, [3]float64{p.X, p.Y, p.Z})
			}
		}
		groups = append(groups, pts)
	}
	sweepStats(c, "hier3", boxesOf(groups, sweepAxis3), sweepAxis3, 3)
}

func sweepStats2(c *hlib.Ctx, s *soup2) {
	parent := make([]int, len(s.coords))
	for i := range parent {
		parent[i] = i
	}
	var find func(int) int
	find = func(x int) int {
		for parent[x] != x {
			parent[x] = parent[parent[x]]
			x = parent[x]
		}
		return x
	}
	for _, g := range s.segs {
		parent[find(g[1])] = find(g[0])
	}
	byRoot := map[int]int{}
	var groups [][][3]float64
	for _, g := range s.segs {
		r := find(g[0])
		k, ok := byRoot[r]
		if !ok {
			k = len(groups)
			byRoot[r] = k
			groups = append(groups, nil)
		}
		for _, v := range g {
			p := s.coords[v]
			groups[k] = append(groups[k], [3]float64{p.X, p.Y, 0})
		}
	}
	sweepStats(c, "hier2", boxesOf(groups, sweepAxis2), sweepAxis2, 2)
}
