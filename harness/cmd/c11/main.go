// Command c11 is the correspondence harness of property C11 (mesh diagnostics, repair and
// nesting agree with their definitions): it damages closed manifolds in many ways, runs the REAL
// model3d / model2d diagnostics, repairs and hierarchy builder on them and prints their results
// in the canonical form that lean/M3d/Drv/C11.lean derives from the definitions.  hist3 / hist2
// (hist.go) run the diagnostics along generated HISTORIES of one mesh object (Add, Remove, Copy,
// calls that build the lazily maintained vertex index).  `-gen HierAxis` (genaxis.go) regenerates
// lean/M3d/Gen/HierAxis.lean from the sweep axes in the source.
package main

import (
	"verif/harness/hlib"
)

func main() { hlib.Main("C11", run) }

func run(c *hlib.Ctx) {
	fixed(c)
	type k struct {
		w int
		f func(*hlib.Ctx)
	}
	kinds := []k{
		{22, kindDiag3}, {5, kindDiagD3}, {9, kindClus3}, {14, kindRnm3}, {8, kindRn3}, {8, kindRep3},
		{10, kindHier3}, {8, kindDiag2}, {8, kindRn2}, {4, kindRep2}, {7, kindHier2}, {16, kindHist3}, {8, kindHist2},
	}
	total := 0
	for _, x := range kinds {
		total += x.w
	}
	for _, x := range kinds {
		n := (c.N*x.w + total - 1) / total
		for i := 0; i < n; i++ {
			x.f(c)
		}
	}
	// self3 (round 7) runs AFTER all earlier kinds, with its own budget (weight 8 against the 127
	// of the kinds above), so that the PRNG streams of the earlier kinds stay what they were.
	fixedSelf(c)
	for i, n := 0, (c.N*8+126)/127; i < n; i++ {
		kindSelf3(c)
	}
}
