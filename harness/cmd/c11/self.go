package main

// self3 (round 7): Mesh.SelfIntersections() against its exhaustive definition.
//
//	c11 self3 I <n> faces C <m> coords   ->   n=<SelfIntersections()>
//
// The driver prints the number of ordered pairs of faces for which Triangle.TriangleCollisions
// reports a segment, computed exactly over Rat with C07's model of that method
// (M3d.C11.self_intersections_eq_exhaustive: equal to the count through EVERY hierarchy).
//
// The scenes are meshes that do and do not cut through themselves, most of them with faces lying
// exactly in axis-aligned planes (boxes, subdivided plates, slabs: a bounding box without
// thickness, also at inner nodes of the hierarchy when a plate is subdivided), plus slanted ones
// (icospheres, octahedra, random triangles).  Different objects of a scene take their coordinates
// from different residue classes of the 1/32 grid, so that no edge of one object lies in a face
// plane of another.  Soundness of the float primitive on the inputs: every pair of faces whose
// bounding boxes meet is classified with big.Rat (plane clipping, the construction of C07's
// harness): the scene is used only if every such pair either shares >= 2 vertices, lies in
// exactly parallel planes, meets in at most ONE point (the computed parameter ranges can then only
// meet in a stretch of rounding size, which the "collision at a vertex" filter drops), or meets in
// a segment longer than 1e-5 with no edge of one triangle inside the plane of the other and the
// planes not within 3e-8 of the co-planarity tolerance.

import (
	"fmt"
	"math"
	"math/big"

	"github.com/unixpickle/model3d/model3d"
	"verif/harness/hlib"
)

type sq3 [3]*big.Rat

func sqRat(x float64) *big.Rat { return new(big.Rat).SetFloat64(x) }
func sqv(p model3d.Coord3D) sq3 { return sq3{sqRat(p.X), sqRat(p.Y), sqRat(p.Z)} }
func sqsub(a, b sq3) sq3 {
	return sq3{new(big.Rat).Sub(a[0], b[0]), new(big.Rat).Sub(a[1], b[1]), new(big.Rat).Sub(a[2], b[2])}
}
func sqadd(a, b sq3) sq3 {
	return sq3{new(big.Rat).Add(a[0], b[0]), new(big.Rat).Add(a[1], b[1]), new(big.Rat).Add(a[2], b[2])}
}
func sqscale(a sq3, s *big.Rat) sq3 {
	return sq3{new(big.Rat).Mul(a[0], s), new(big.Rat).Mul(a[1], s), new(big.Rat).Mul(a[2], s)}
}
func sqdot(a, b sq3) *big.Rat {
	r := new(big.Rat).Mul(a[0], b[0])
	r.Add(r, new(big.Rat).Mul(a[1], b[1]))
	r.Add(r, new(big.Rat).Mul(a[2], b[2]))
	return r
}
func sqcross(a, b sq3) sq3 {
	m := func(x, y *big.Rat) *big.Rat { return new(big.Rat).Mul(x, y) }
	return sq3{
		new(big.Rat).Sub(m(a[1], b[2]), m(a[2], b[1])),
		new(big.Rat).Sub(m(a[2], b[0]), m(a[0], b[2])),
		new(big.Rat).Sub(m(a[0], b[1]), m(a[1], b[0])),
	}
}

type selfExact struct {
	parallel bool     // planes parallel (co-planar included) or a triangle without area
	edgeIn   bool     // an edge of one triangle lies in the plane of the other
	len2     *big.Rat // squared length of the common segment (0: at most one common point)
}

// selfTriTri: the exact common segment of two closed triangles whose planes are not parallel
// (T1 cut by the plane of T, the chord clipped against the barycentric constraints of T).
func selfTriTri(t, t1 *model3d.Triangle) selfExact {
	a, b, cc := sqv(t[0]), sqv(t[1]), sqv(t[2])
	e1, e2 := sqsub(b, a), sqsub(cc, a)
	n := sqcross(e1, e2)
	a1, b1, c1 := sqv(t1[0]), sqv(t1[1]), sqv(t1[2])
	n1 := sqcross(sqsub(b1, a1), sqsub(c1, a1))
	x := sqcross(n, n1)
	if sqdot(x, x).Sign() == 0 {
		return selfExact{parallel: true, len2: new(big.Rat)}
	}
	res := selfExact{len2: new(big.Rat)}
	vs := []sq3{a1, b1, c1}
	var ds [3]*big.Rat
	for i, v := range vs {
		ds[i] = sqdot(n, sqsub(v, a))
	}
	zeros := 0
	for _, v := range []sq3{a, b, cc} {
		if sqdot(n1, sqsub(v, a1)).Sign() == 0 {
			zeros++
		}
	}
	if zeros >= 2 {
		res.edgeIn = true
	}
	var pts []sq3
	zeros1 := 0
	for i := 0; i < 3; i++ {
		if ds[i].Sign() == 0 {
			pts = append(pts, vs[i])
			zeros1++
		}
		j := (i + 1) % 3
		if ds[i].Sign()*ds[j].Sign() < 0 {
			s := new(big.Rat).Quo(ds[i], new(big.Rat).Sub(ds[i], ds[j]))
			pts = append(pts, sqadd(vs[i], sqscale(sqsub(vs[j], vs[i]), s)))
		}
	}
	if zeros1 >= 2 {
		res.edgeIn = true
	}
	if len(pts) < 2 {
		return res
	}
	P, Q := pts[0], pts[1]
	nn := sqdot(n, n)
	one := big.NewRat(1, 1)
	bary := func(X sq3) (u, v *big.Rat) {
		w := sqsub(X, a)
		u = new(big.Rat).Quo(sqdot(sqcross(w, e2), n), nn)
		v = new(big.Rat).Quo(sqdot(sqcross(e1, w), n), nn)
		return
	}
	u0, v0 := bary(P)
	u1, v1 := bary(Q)
	w0 := new(big.Rat).Sub(one, new(big.Rat).Add(u0, v0))
	w1 := new(big.Rat).Sub(one, new(big.Rat).Add(u1, v1))
	slo, shi := new(big.Rat), big.NewRat(1, 1)
	for _, g := range [][2]*big.Rat{{u0, u1}, {v0, v1}, {w0, w1}} {
		g0, g1 := g[0], g[1]
		if g0.Cmp(g1) == 0 {
			if g0.Sign() < 0 {
				return res
			}
			continue
		}
		root := new(big.Rat).Quo(g0, new(big.Rat).Sub(g0, g1))
		if g0.Cmp(g1) < 0 {
			if slo.Cmp(root) < 0 {
				slo = root
			}
		} else if root.Cmp(shi) < 0 {
			shi = root
		}
	}
	if slo.Cmp(shi) >= 0 {
		return res
	}
	d := sqsub(Q, P)
	pq := sqsub(sqadd(P, sqscale(d, shi)), sqadd(P, sqscale(d, slo)))
	res.len2 = sqdot(pq, pq)
	return res
}

func selfInCommon(t, t1 *model3d.Triangle) int {
	n := 0
	for _, p := range t {
		if p == t1[0] || p == t1[1] || p == t1[2] {
			n++
		}
	}
	return n
}

// selfClass: "segment" (a segment must be reported), "none" (nothing may be reported), "skip"
// (rounding may decide: the scene is not used).
func selfClass(t, t1 *model3d.Triangle) string {
	if selfInCommon(t, t1) >= 2 {
		return "none"
	}
	ex := selfTriTri(t, t1)
	if ex.parallel {
		return "none"
	}
	if ex.len2.Sign() == 0 {
		return "none"
	}
	if dd := math.Abs(t.Normal().Dot(t1.Normal())); dd > 1-3e-8 || math.IsNaN(dd) {
		return "skip"
	}
	if ex.edgeIn {
		return "skip"
	}
	if l2, _ := ex.len2.Float64(); l2 < 1e-10 {
		return "skip"
	}
	return "segment"
}

func selfBoxesMeet(t, t1 *model3d.Triangle) bool {
	mn, mx := t.Min().Max(t1.Min()), t.Max().Min(t1.Max())
	return mn.X <= mx.X && mn.Y <= mx.Y && mn.Z <= mx.Z
}

func selfFlat(t *model3d.Triangle) bool {
	mn, mx := t.Min(), t.Max()
	return mn.X == mx.X || mn.Y == mx.Y || mn.Z == mx.Z
}

// coordinate k of the object number obj: k/2 + (2*obj+1)/32
func selfGrid(obj, k int) float64 { return float64(k)/2 + float64(2*obj+1)/32 }

// a flat plate in the plane axis = const, cut into nu x nv cells of two triangles
func selfPlate(c *hlib.Ctx, obj int) []*model3d.Triangle {
	axis := c.Rng.Intn(3)
	h := selfGrid(obj, c.Rng.Intn(7))
	u0, v0 := c.Rng.Intn(4), c.Rng.Intn(4)
	nu, nv := 1+c.Rng.Intn(4), 1+c.Rng.Intn(4)
	su, sv := 1+c.Rng.Intn(2), 1+c.Rng.Intn(2)
	if c.Rng.Intn(3) == 0 {
		nu, nv, su, sv = 1, 1, 2+c.Rng.Intn(5), 2+c.Rng.Intn(5)
	}
	p := func(i, j int) model3d.Coord3D {
		u, v := selfGrid(obj, u0+i*su), selfGrid(obj, v0+j*sv)
		switch axis {
		case 0:
			return model3d.XYZ(h, u, v)
		case 1:
			return model3d.XYZ(v, h, u)
		}
		return model3d.XYZ(u, v, h)
	}
	var res []*model3d.Triangle
	for i := 0; i < nu; i++ {
		for j := 0; j < nv; j++ {
			if c.Rng.Intn(2) == 0 {
				res = append(res, &model3d.Triangle{p(i, j), p(i+1, j), p(i+1, j+1)}, &model3d.Triangle{p(i, j), p(i+1, j+1), p(i, j+1)})
			} else {
				res = append(res, &model3d.Triangle{p(i, j), p(i+1, j), p(i, j+1)}, &model3d.Triangle{p(i+1, j), p(i+1, j+1), p(i, j+1)})
			}
		}
	}
	return res
}

func selfBox(c *hlib.Ctx, obj int) []*model3d.Triangle {
	var lo, hi [3]float64
	for a := 0; a < 3; a++ {
		k := c.Rng.Intn(6)
		lo[a], hi[a] = selfGrid(obj, k), selfGrid(obj, k+1+c.Rng.Intn(5))
	}
	if c.Rng.Intn(4) == 0 {
		// a slab / a needle
		a := c.Rng.Intn(3)
		hi[a] = lo[a] + 0.5
	}
	return model3d.NewMeshRect(model3d.XYZ(lo[0], lo[1], lo[2]), model3d.XYZ(hi[0], hi[1], hi[2])).TriangleSlice()
}

func selfCentre(c *hlib.Ctx, obj int) model3d.Coord3D {
	return model3d.XYZ(selfGrid(obj, 1+c.Rng.Intn(6)), selfGrid(obj, 1+c.Rng.Intn(6)), selfGrid(obj, 1+c.Rng.Intn(6)))
}

func selfSphere(c *hlib.Ctx, obj int) []*model3d.Triangle {
	r := float64(2+c.Rng.Intn(5)) / 4
	n := 1
	if c.Rng.Intn(3) == 0 {
		n = 2
	}
	return model3d.NewMeshIcosphere(selfCentre(c, obj), r, n).TriangleSlice()
}

func selfOcta(c *hlib.Ctx, obj int) []*model3d.Triangle {
	return octahedron(selfCentre(c, obj), float64(3+c.Rng.Intn(6))/4+1.0/64).TriangleSlice()
}

func selfRandomTris(c *hlib.Ctx, obj int) []*model3d.Triangle {
	var res []*model3d.Triangle
	p := func() model3d.Coord3D {
		return model3d.XYZ(float64(c.Rng.Intn(97))/16+float64(obj)/128, float64(c.Rng.Intn(97))/16, float64(c.Rng.Intn(97))/16)
	}
	for i, n := 0, 1+c.Rng.Intn(6); i < n; i++ {
		res = append(res, &model3d.Triangle{p(), p(), p()})
	}
	return res
}

func selfScene(c *hlib.Ctx) ([]*model3d.Triangle, string) {
	var tris []*model3d.Triangle
	add := func(f func(*hlib.Ctx, int) []*model3d.Triangle, obj int) {
		tris = append(tris, f(c, obj)...)
	}
	switch c.Rng.Intn(10) {
	case 0, 1:
		n := 2 + c.Rng.Intn(3)
		for i := 0; i < n; i++ {
			add(selfBox, i)
		}
		return tris, "boxes"
	case 2:
		add(selfBox, 0)
		add(selfSphere, 1)
		return tris, "box+sphere"
	case 3, 4:
		n := 2 + c.Rng.Intn(3)
		for i := 0; i < n; i++ {
			add(selfPlate, i)
		}
		return tris, "plates"
	case 5:
		add(selfPlate, 0)
		if c.Rng.Intn(2) == 0 {
			add(selfBox, 1)
		} else {
			add(selfBox, 1)
			add(selfPlate, 2)
		}
		return tris, "plate+box"
	case 6:
		add(selfPlate, 0)
		if c.Rng.Intn(2) == 0 {
			add(selfSphere, 1)
		} else {
			add(selfOcta, 1)
		}
		return tris, "plate+slanted"
	case 7:
		add(selfSphere, 0)
		if c.Rng.Intn(2) == 0 {
			add(selfOcta, 1)
		} else {
			add(selfSphere, 1)
		}
		return tris, "slanted"
	case 8:
		// one object only: nothing may be reported
		switch c.Rng.Intn(3) {
		case 0:
			add(selfBox, 0)
		case 1:
			add(selfPlate, 0)
		default:
			add(selfSphere, 0)
		}
		return tris, "single"
	}
	add(selfRandomTris, 0)
	if c.Rng.Intn(2) == 0 {
		add(selfBox, 1)
	} else {
		add(selfPlate, 1)
	}
	return tris, "random+flat"
}

// selfCase classifies all pairs, runs the real SelfIntersections and emits the case; false = the
// scene is outside the certified input class (not used).
func selfCase(c *hlib.Ctx, tris []*model3d.Triangle, label string) bool {
	if len(tris) == 0 || len(tris) > 140 {
		return false
	}
	want, flatPairs := 0, 0
	for i, t := range tris {
		if a := t.Area(); !(a > 1e-3) {
			return false
		}
		for j := i + 1; j < len(tris); j++ {
			t1 := tris[j]
			if !selfBoxesMeet(t, t1) {
				continue
			}
			switch selfClass(t, t1) {
			case "skip":
				c.Stat("self3:scene-not-used(a-pair-where-rounding-may-decide)", 1)
				return false
			case "segment":
				want += 2
				if selfFlat(t) || selfFlat(t1) {
					flatPairs += 2
				}
			}
		}
	}
	m := model3d.NewMeshTriangles(tris)
	s := soupOfMesh(c, m)
	b := s.build()
	var got int
	st := watchdog(func() { got = b.m.SelfIntersections() })
	out := st
	if st == "ok" {
		out = fmt.Sprintf("n=%d", got)
	}
	c.Stat("self3-src:"+label, 1)
	c.Stat("self3:faces", len(s.faces))
	if want > 0 {
		c.Stat("self3:meshes-that-cut-through-themselves", 1)
		c.Stat("self3:crossing-ordered-pairs", want)
	} else {
		c.Stat("self3:meshes-without-a-crossing", 1)
	}
	if flatPairs > 0 {
		c.Stat("self3:meshes-with-a-crossing-of-an-axis-aligned-face", 1)
		c.Stat("self3:crossing-ordered-pairs-with-an-axis-aligned-face", flatPairs)
	}
	emit(c, "self3", []string{s.iSection(), s.cSection()}, out)
	return true
}

func kindSelf3(c *hlib.Ctx) {
	for try := 0; try < 20; try++ {
		tris, label := selfScene(c)
		if selfCase(c, tris, label) {
			return
		}
	}
	c.Stat("self3:no-usable-scene-in-20-draws", 1)
}

// fixedSelf: deterministic scenes (no PRNG for the geometry): two boxes through each other, a box
// through an icosphere, two perpendicular plates (one triangle pair each / subdivided), two
// spheres, a clean box.
func fixedSelf(c *hlib.Ctx) {
	rect := func(a, b, cc, d, e, f float64) []*model3d.Triangle {
		return model3d.NewMeshRect(model3d.XYZ(a, b, cc), model3d.XYZ(d, e, f)).TriangleSlice()
	}
	join := func(xs ...[]*model3d.Triangle) []*model3d.Triangle {
		var r []*model3d.Triangle
		for _, x := range xs {
			r = append(r, x...)
		}
		return r
	}
	plate := func(axis int, h, u0, v0, s float64, n int) []*model3d.Triangle {
		p := func(i, j int) model3d.Coord3D {
			u, v := u0+float64(i)*s, v0+float64(j)*s
			switch axis {
			case 0:
				return model3d.XYZ(h, u, v)
			case 1:
				return model3d.XYZ(v, h, u)
			}
			return model3d.XYZ(u, v, h)
		}
		var r []*model3d.Triangle
		for i := 0; i < n; i++ {
			for j := 0; j < n; j++ {
				r = append(r, &model3d.Triangle{p(i, j), p(i+1, j), p(i+1, j+1)}, &model3d.Triangle{p(i, j), p(i+1, j+1), p(i, j+1)})
			}
		}
		return r
	}
	sphere := func(x, y, z, r float64, n int) []*model3d.Triangle {
		return model3d.NewMeshIcosphere(model3d.XYZ(x, y, z), r, n).TriangleSlice()
	}
	scenes := []struct {
		label string
		tris  []*model3d.Triangle
	}{
		{"fixed-two-boxes", join(rect(0, 0, 0, 2, 2, 2), rect(1.03125, 0.90625, 1.15625, 3.03125, 2.90625, 3.15625))},
		{"fixed-box-through-sphere", join(sphere(0.03125, 0.09375, 0.15625, 1, 1), rect(-0.5, -0.5, -2, 0.5, 0.5, 2))},
		{"fixed-two-plates", join(plate(2, 0, 0, 0, 2, 1), plate(0, 0.53125, 0.28125, -1.03125, 1.5, 1))},
		{"fixed-two-plates-subdivided", join(plate(2, 0, 0, 0, 0.5, 4), plate(1, 0.78125, -0.53125, 0.28125, 0.5, 3))},
		{"fixed-plate-through-box", join(rect(0, 0, 0, 2, 2, 2), plate(1, 1.03125, -0.46875, -0.53125, 1, 3))},
		{"fixed-two-spheres", join(sphere(0, 0, 0, 1, 1), sphere(0.78125, 0.53125, 0.28125, 1, 1))},
		{"fixed-clean-box", rect(0, 0, 0, 1, 2, 3)},
		{"fixed-disjoint-boxes", join(rect(0, 0, 0, 1, 1, 1), rect(2.03125, 0.03125, 0.03125, 3.03125, 1.03125, 1.03125))},
	}
	for _, sc := range scenes {
		if !selfCase(c, sc.tris, sc.label) {
			c.Stat("self3:fixed-scene-not-used:"+sc.label, 1)
		}
	}
}
