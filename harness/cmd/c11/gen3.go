package main

import (
	"fmt"
	"sort"

	"verif/harness/hlib"

	"github.com/unixpickle/model3d/model3d"
)

func dyq(c *hlib.Ctx, span int) float64 { return c.Dyadic(span, 2) }

func octahedron(o model3d.Coord3D, r float64) *model3d.Mesh {
	m := model3d.NewMesh()
	px, nx := o.Add(model3d.X(r)), o.Add(model3d.X(-r))
	py, ny := o.Add(model3d.Y(r)), o.Add(model3d.Y(-r))
	pz, nzz := o.Add(model3d.Z(r)), o.Add(model3d.Z(-r))
	for _, t := range [][3]model3d.Coord3D{
		{px, py, pz}, {py, nx, pz}, {nx, ny, pz}, {ny, px, pz},
		{py, px, nzz}, {nx, py, nzz}, {ny, nx, nzz}, {px, ny, nzz},
	} {
		m.Add(&model3d.Triangle{t[0], t[1], t[2]})
	}
	return m
}

func tetrahedron(o model3d.Coord3D, r float64) *model3d.Mesh {
	a := o.Add(model3d.XYZ(r, r, r))
	b := o.Add(model3d.XYZ(r, -r, -r))
	c := o.Add(model3d.XYZ(-r, r, -r))
	d := o.Add(model3d.XYZ(-r, -r, r))
	m := model3d.NewMesh()
	m.Add(&model3d.Triangle{a, b, c})
	m.Add(&model3d.Triangle{a, c, d})
	m.Add(&model3d.Triangle{a, d, b})
	m.Add(&model3d.Triangle{b, d, c})
	return m
}

// gridBox: the surface of a box with every side cut into a grid of quads (two triangles each).
func gridBox(o model3d.Coord3D, nx, ny, nz int, d model3d.Coord3D) *model3d.Mesh {
	m := model3d.NewMesh()
	p := func(i, j, k int) model3d.Coord3D {
		return model3d.XYZ(o.X+float64(i)*d.X, o.Y+float64(j)*d.Y, o.Z+float64(k)*d.Z)
	}
	quad := func(a, b, c, e model3d.Coord3D, alt bool) {
		if alt {
			m.Add(&model3d.Triangle{a, b, e})
			m.Add(&model3d.Triangle{b, c, e})
		} else {
			m.Add(&model3d.Triangle{a, b, c})
			m.Add(&model3d.Triangle{a, c, e})
		}
	}
	for i := 0; i < nx; i++ {
		for j := 0; j < ny; j++ {
			quad(p(i, j, 0), p(i, j+1, 0), p(i+1, j+1, 0), p(i+1, j, 0), (i+j)%2 == 0)
			quad(p(i, j, nz), p(i+1, j, nz), p(i+1, j+1, nz), p(i, j+1, nz), (i+j)%2 == 1)
		}
	}
	for i := 0; i < nx; i++ {
		for k := 0; k < nz; k++ {
			quad(p(i, 0, k), p(i+1, 0, k), p(i+1, 0, k+1), p(i, 0, k+1), (i+k)%2 == 0)
			quad(p(i, ny, k), p(i, ny, k+1), p(i+1, ny, k+1), p(i+1, ny, k), false)
		}
	}
	for j := 0; j < ny; j++ {
		for k := 0; k < nz; k++ {
			quad(p(0, j, k), p(0, j, k+1), p(0, j+1, k+1), p(0, j+1, k), (j+k)%3 == 0)
			quad(p(nx, j, k), p(nx, j+1, k), p(nx, j+1, k+1), p(nx, j, k+1), false)
		}
	}
	return m
}

// latticeSolid: marching cubes of a union of unit boxes on the integer grid, optionally hollow.
func latticeSolid(c *hlib.Ctx, hollow bool) *model3d.Mesh {
	var solids model3d.JoinedSolid
	if hollow {
		outer := model3d.NewRect(model3d.XYZ(0, 0, 0), model3d.XYZ(4, 4, 4))
		inner := model3d.NewRect(model3d.XYZ(1, 1, 1), model3d.XYZ(3, 3, 3))
		s := &model3d.SubtractedSolid{Positive: outer, Negative: inner}
		sh := model3d.XYZ(0.25, 0.25, 0.25)
		return model3d.MarchingCubes(model3d.TranslateSolid(s, sh), 0.5)
	}
	n := 1 + c.Rng.Intn(4)
	x, y, z := 0, 0, 0
	for i := 0; i < n; i++ {
		solids = append(solids, model3d.NewRect(model3d.XYZ(float64(x), float64(y), float64(z)),
			model3d.XYZ(float64(x+1), float64(y+1), float64(z+1))))
		switch c.Rng.Intn(3) {
		case 0:
			x++
		case 1:
			y++
		default:
			z++
		}
	}
	sh := model3d.XYZ(0.25, 0.25, 0.25)
	return model3d.MarchingCubes(model3d.TranslateSolid(solids, sh), 0.5)
}

// closed3 picks a closed, consistently oriented manifold.
func closed3(c *hlib.Ctx) (*model3d.Mesh, string) {
	org := model3d.XYZ(dyq(c, 2), dyq(c, 2), dyq(c, 2))
	switch c.Rng.Intn(12) {
	case 0:
		return tetrahedron(org, float64(1+c.Rng.Intn(3))/2), "tetra"
	case 1:
		return octahedron(org, float64(1+c.Rng.Intn(4))/2), "octa"
	case 2, 3:
		b := org.Add(model3d.XYZ(float64(1+c.Rng.Intn(8))/4, float64(1+c.Rng.Intn(8))/4, float64(1+c.Rng.Intn(8))/4))
		return model3d.NewMeshRect(org, b), "rect"
	case 4, 5:
		nx, ny, nz := 1+c.Rng.Intn(3), 1+c.Rng.Intn(3), 1+c.Rng.Intn(2)
		d := model3d.XYZ(float64(1+c.Rng.Intn(4))/4, float64(1+c.Rng.Intn(4))/4, float64(1+c.Rng.Intn(4))/4)
		return gridBox(org, nx, ny, nz, d), "gridbox"
	case 6:
		return model3d.NewMeshIcosphere(org, 1, 1+c.Rng.Intn(2)), "icosphere"
	case 7:
		return model3d.NewMeshTorus(org, model3d.Z(1), 0.4, 1, 3+c.Rng.Intn(4), 3+c.Rng.Intn(5)), "torus"
	case 8:
		return latticeSolid(c, false), "lattice-mc"
	case 9:
		return latticeSolid(c, true), "hollow-mc"
	case 10:
		// nested shells: boxes inside boxes, alternately oriented
		m := model3d.NewMesh()
		depth := 2 + c.Rng.Intn(3)
		for i := 0; i < depth; i++ {
			lo := float64(i) / 2
			hi := 8 - float64(i)/2
			b := model3d.NewMeshRect(model3d.XYZ(lo, lo, lo), model3d.XYZ(hi, hi, hi))
			if i%2 == 1 {
				b = invert3(b)
			}
			m.AddMesh(b)
		}
		return m, "shells"
	default:
		// several components side by side
		m := model3d.NewMesh()
		k := 2 + c.Rng.Intn(3)
		for i := 0; i < k; i++ {
			a, _ := closed3simple(c)
			m.AddMesh(a.Translate(model3d.X(float64(16 * i))))
		}
		return m, "multi"
	}
}

func closed3simple(c *hlib.Ctx) (*model3d.Mesh, string) {
	org := model3d.XYZ(dyq(c, 1), dyq(c, 1), dyq(c, 1))
	switch c.Rng.Intn(4) {
	case 0:
		return tetrahedron(org, 1), "tetra"
	case 1:
		return octahedron(org, 1.5), "octa"
	case 2:
		return model3d.NewMeshRect(org, org.Add(model3d.XYZ(1, 2, 1.5))), "rect"
	default:
		return gridBox(org, 2, 1, 1, model3d.XYZ(0.5, 0.5, 0.5)), "gridbox"
	}
}

// invert3 reverses every face (Mesh.InvertNormals is not used: it is covered by C09).
func invert3(m *model3d.Mesh) *model3d.Mesh {
	r := model3d.NewMesh()
	m.Iterate(func(t *model3d.Triangle) {
		r.Add(&model3d.Triangle{t[1], t[0], t[2]})
	})
	return r
}

// ---------------------------------------------------------------- purely combinatorial shapes

// band builds a strip of 2k triangles closed into an annulus (twist=false) or a Möbius band.
func band(k int, twist bool) *soup3 {
	s := &soup3{}
	for i := 0; i < k; i++ {
		s.coords = append(s.coords, model3d.XYZ(float64(i), 0, 100))
	}
	for i := 0; i < k; i++ {
		s.coords = append(s.coords, model3d.XYZ(float64(i), 1, 100))
	}
	top := func(i int) int { return i % k }
	bot := func(i int) int { return k + i%k }
	for i := 0; i < k; i++ {
		a, b := top(i), bot(i)
		var a2, b2 int
		if i == k-1 && twist {
			a2, b2 = bot(0), top(0)
		} else {
			a2, b2 = top(i+1), bot(i+1)
		}
		s.faces = append(s.faces, [3]int{a, a2, b}, [3]int{a2, b2, b})
	}
	return s
}

// kleinLike: a k x l grid of quads with the left/right sides identified straight and the
// top/bottom sides identified with a reflection (a Klein bottle), or straight (a torus).
func gridSurface(k, l int, klein bool) *soup3 {
	s := &soup3{}
	for i := 0; i < k; i++ {
		for j := 0; j < l; j++ {
			s.coords = append(s.coords, model3d.XYZ(float64(i), float64(j), 200))
		}
	}
	id := func(i, j int) int {
		if j == l {
			j = 0
			if klein {
				i = (k - i) % k
			}
		}
		i %= k
		return i*l + j
	}
	for i := 0; i < k; i++ {
		for j := 0; j < l; j++ {
			a, b, c2, d := id(i, j), id(i+1, j), id(i+1, j+1), id(i, j+1)
			s.faces = append(s.faces, [3]int{a, b, c2}, [3]int{a, c2, d})
		}
	}
	return s
}

// ---------------------------------------------------------------- damages (on soups)

func (s *soup3) nondegenerate() {
	var fs [][3]int
	for _, f := range s.faces {
		if f[0] != f[1] && f[1] != f[2] && f[0] != f[2] {
			fs = append(fs, f)
		}
	}
	s.faces = fs
}

func canonFace(f [3]int) [3]int {
	if f[1] < f[0] && f[1] <= f[2] {
		return [3]int{f[1], f[2], f[0]}
	}
	if f[2] < f[0] && f[2] < f[1] {
		return [3]int{f[2], f[0], f[1]}
	}
	return f
}

func unorientedKey(f [3]int) [3]int {
	v := []int{f[0], f[1], f[2]}
	sort.Ints(v)
	return [3]int{v[0], v[1], v[2]}
}

// dedup removes duplicate faces; with unoriented=true also a face on the same three vertices
// (in particular its own reversal).
func (s *soup3) dedup(unoriented bool) {
	seen := map[[3]int]bool{}
	var fs [][3]int
	for _, f := range s.faces {
		k := canonFace(f)
		if unoriented {
			k = unorientedKey(f)
		}
		if seen[k] {
			continue
		}
		seen[k] = true
		fs = append(fs, f)
	}
	s.faces = fs
}

func (s *soup3) usedVerts() []int {
	set := map[int]bool{}
	for _, f := range s.faces {
		set[f[0]], set[f[1]], set[f[2]] = true, true, true
	}
	var r []int
	for v := range set {
		r = append(r, v)
	}
	sort.Ints(r)
	return r
}

// components by shared vertices (harness-side bookkeeping only, used to flip whole components).
func (s *soup3) components() [][]int {
	parent := make([]int, len(s.coords))
	for i := range parent {
		parent[i] = i
	}
	var find func(int) int
	find = func(x int) int {
		for parent[x] != x {
			parent[x] = parent[parent[x]]
			x = parent[x]
		}
		return x
	}
	for _, f := range s.faces {
		a, b, c := find(f[0]), find(f[1]), find(f[2])
		parent[b] = a
		parent[c] = a
	}
	groups := map[int][]int{}
	var order []int
	for i, f := range s.faces {
		r := find(f[0])
		if _, ok := groups[r]; !ok {
			order = append(order, r)
		}
		groups[r] = append(groups[r], i)
	}
	var res [][]int
	for _, r := range order {
		res = append(res, groups[r])
	}
	return res
}

func flipFace(f [3]int) [3]int { return [3]int{f[1], f[0], f[2]} }

// damage applies one random damage and returns its name.
func damage(c *hlib.Ctx, s *soup3) string {
	if len(s.faces) == 0 {
		return "none"
	}
	switch c.Rng.Intn(12) {
	case 0: // open: remove faces
		k := 1 + c.Rng.Intn(3)
		for i := 0; i < k && len(s.faces) > 1; i++ {
			j := c.Rng.Intn(len(s.faces))
			s.faces = append(s.faces[:j], s.faces[j+1:]...)
		}
		return "open"
	case 1: // pinch: identify two vertices
		vs := s.usedVerts()
		if len(vs) < 2 {
			return "none"
		}
		a := vs[c.Rng.Intn(len(vs))]
		b := vs[c.Rng.Intn(len(vs))]
		if a == b {
			return "none"
		}
		for i, f := range s.faces {
			for k := range f {
				if f[k] == b {
					s.faces[i][k] = a
				}
			}
		}
		return "pinch"
	case 2: // flip random faces
		k := 1 + c.Rng.Intn(1+len(s.faces)/3)
		for i := 0; i < k; i++ {
			j := c.Rng.Intn(len(s.faces))
			s.faces[j] = flipFace(s.faces[j])
		}
		return "flip-faces"
	case 3: // flip a whole component
		comps := s.components()
		g := comps[c.Rng.Intn(len(comps))]
		for _, j := range g {
			s.faces[j] = flipFace(s.faces[j])
		}
		return "flip-component"
	case 4: // duplicate a face
		j := c.Rng.Intn(len(s.faces))
		f := s.faces[j]
		if c.Rng.Intn(2) == 0 {
			f = flipFace(f)
		}
		s.faces = append(s.faces, f)
		return "dup-face"
	case 5: // fin: an extra triangle on an existing edge
		j := c.Rng.Intn(len(s.faces))
		f := s.faces[j]
		k := c.Rng.Intn(3)
		s.coords = append(s.coords, model3d.XYZ(500+float64(len(s.coords)), 7, 7))
		s.faces = append(s.faces, [3]int{f[k], f[(k+1)%3], len(s.coords) - 1})
		return "fin"
	case 6: // a translated copy touching at one vertex
		if len(s.faces) > 500 {
			return "none" // keep the cases small: the copy doubles the mesh
		}
		vs := s.usedVerts()
		p := s.coords[vs[c.Rng.Intn(len(vs))]]
		q := s.coords[vs[c.Rng.Intn(len(vs))]]
		d := p.Sub(q)
		if d.Norm() == 0 {
			d = model3d.XYZ(64, 0, 0) // plain disjoint copy
		}
		n := len(s.coords)
		for _, cc := range s.coords[:n] {
			s.coords = append(s.coords, cc.Add(d))
		}
		nf := len(s.faces)
		for _, f := range s.faces[:nf] {
			s.faces = append(s.faces, [3]int{f[0] + n, f[1] + n, f[2] + n})
		}
		s.compact()
		return "touch-copy"
	case 7: // glue a tetrahedron onto an existing edge (edge shared by 4 faces)
		j := c.Rng.Intn(len(s.faces))
		f := s.faces[j]
		n := len(s.coords)
		s.coords = append(s.coords, model3d.XYZ(700+float64(n), 3, 3), model3d.XYZ(700+float64(n), 5, 3))
		a, b, x, y := f[0], f[1], n, n+1
		s.faces = append(s.faces, [3]int{a, b, x}, [3]int{b, a, y}, [3]int{a, x, y}, [3]int{b, y, x})
		return "edge-tetra"
	case 8: // a tetrahedron sharing exactly one vertex
		vs := s.usedVerts()
		a := vs[c.Rng.Intn(len(vs))]
		n := len(s.coords)
		s.coords = append(s.coords, model3d.XYZ(900+float64(n), 1, 1), model3d.XYZ(900+float64(n), 2, 1), model3d.XYZ(900+float64(n), 1, 2))
		x, y, z := n, n+1, n+2
		s.faces = append(s.faces, [3]int{a, x, y}, [3]int{a, y, z}, [3]int{a, z, x}, [3]int{x, z, y})
		return "vertex-tetra"
	case 9: // remove a whole vertex star (a hole with a longer boundary)
		vs := s.usedVerts()
		a := vs[c.Rng.Intn(len(vs))]
		var fs [][3]int
		for _, f := range s.faces {
			if f[0] != a && f[1] != a && f[2] != a {
				fs = append(fs, f)
			}
		}
		if len(fs) > 0 {
			s.faces = fs
		}
		return "open-star"
	case 10: // a doubled fin: two coincident triangles on an existing edge (or a free pillow)
		j := c.Rng.Intn(len(s.faces))
		f := s.faces[j]
		k := c.Rng.Intn(3)
		n := len(s.coords)
		s.coords = append(s.coords, model3d.XYZ(300+float64(n), 9, 9))
		a, b := f[k], f[(k+1)%3]
		if c.Rng.Intn(3) == 0 {
			s.coords = append(s.coords, model3d.XYZ(300+float64(n), 11, 9), model3d.XYZ(300+float64(n), 9, 11))
			a, b = n+1, n+2
		}
		s.faces = append(s.faces, [3]int{a, b, n})
		if c.Rng.Intn(2) == 0 {
			s.faces = append(s.faces, [3]int{b, a, n})
		} else {
			s.faces = append(s.faces, [3]int{a, b, n})
		}
		return "double-fin"
	default:
		return "none"
	}
}

// damaged3 produces a closed manifold with 0-3 damages; the label lists them.
func damaged3(c *hlib.Ctx) (*soup3, string) {
	var s *soup3
	var label string
	switch c.Rng.Intn(14) {
	case 0:
		s, label = band(3+c.Rng.Intn(6), true), "moebius"
	case 1:
		s, label = band(3+c.Rng.Intn(6), false), "annulus"
	case 2:
		s, label = gridSurface(3+c.Rng.Intn(3), 3+c.Rng.Intn(3), true), "klein"
	case 3:
		s, label = gridSurface(3+c.Rng.Intn(3), 3+c.Rng.Intn(3), false), "grid-torus"
	default:
		m, l := closed3(c)
		s, label = soupOfMesh(c, m), l
	}
	c.Rng.Shuffle(len(s.faces), func(i, j int) { s.faces[i], s.faces[j] = s.faces[j], s.faces[i] })
	nd := 0
	switch r := c.Rng.Intn(10); {
	case r < 2:
		nd = 0
	case r < 6:
		nd = 1
	case r < 9:
		nd = 2
	default:
		nd = 3
	}
	for i := 0; i < nd; i++ {
		d := damage(c, s)
		label += "+" + d
		c.Stat("damage3:"+d, 1)
	}
	if nd == 0 {
		c.Stat("damage3:undamaged", 1)
	}
	s.compact()
	return s, label
}

// ---------------------------------------------------------------- nested solids for hier3 / rn3

type nestNode struct {
	lo, hi [3]int // in units of 1/8
	kids   []*nestNode
	shape  int // 0 box, 1 octahedron (leaf), 2 gridbox
}

func genNest(c *hlib.Ctx, lo, hi [3]int, depth int) *nestNode {
	n := &nestNode{lo: lo, hi: hi}
	ext := hi[0] - lo[0]
	if depth == 0 || ext < 4 {
		if c.Rng.Intn(3) == 0 && ext >= 2 && ext%2 == 0 && hi[1]-lo[1] == ext && hi[2]-lo[2] == ext {
			n.shape = 1
		}
		return n
	}
	if c.Rng.Intn(4) == 0 && ext <= 24 {
		n.shape = 2
	}
	k := 1 + c.Rng.Intn(3)
	if c.Rng.Intn(5) == 0 {
		k = 0
	}
	// interior with margin >= 2 units (= 1/4)
	m := 2
	ilo := [3]int{lo[0] + m, lo[1] + m, lo[2] + m}
	ihi := [3]int{hi[0] - m, hi[1] - m, hi[2] - m}
	avail := ihi[0] - ilo[0] - (k-1)*m
	if k == 0 || avail < k || ihi[1]-ilo[1] < 1 || ihi[2]-ilo[2] < 1 {
		return n
	}
	w := avail / k
	for i := 0; i < k; i++ {
		clo := [3]int{ilo[0] + i*(w+m), ilo[1], ilo[2]}
		chi := [3]int{clo[0] + w, ihi[1], ihi[2]}
		// shrink randomly inside the slot (keeps margins)
		for a := 0; a < 3; a++ {
			if chi[a]-clo[a] > 2 && c.Rng.Intn(2) == 0 {
				d := c.Rng.Intn((chi[a] - clo[a]) / 2)
				clo[a] += d / 2
				chi[a] -= d - d/2
			}
		}
		if c.Rng.Intn(6) == 0 {
			continue
		}
		n.kids = append(n.kids, genNest(c, clo, chi, depth-1))
	}
	return n
}

func (n *nestNode) mesh(depth int, orient bool) *model3d.Mesh {
	f := func(v [3]int) model3d.Coord3D {
		return model3d.XYZ(float64(v[0])/8, float64(v[1])/8, float64(v[2])/8)
	}
	var m *model3d.Mesh
	switch n.shape {
	case 1:
		r := float64(n.hi[0]-n.lo[0]) / 16
		m = octahedron(f(n.lo).Mid(f(n.hi)), r)
	case 2:
		d := f(n.hi).Sub(f(n.lo)).Scale(0.5)
		m = gridBox(f(n.lo), 2, 2, 2, d)
	default:
		m = model3d.NewMeshRect(f(n.lo), f(n.hi))
	}
	if orient && depth%2 == 1 {
		m = invert3(m)
	}
	for _, k := range n.kids {
		m.AddMesh(k.mesh(depth+1, orient))
	}
	return m
}

func (n *nestNode) count() (nodes, maxDepth int) {
	nodes = 1
	for _, k := range n.kids {
		a, d := k.count()
		nodes += a
		if d+1 > maxDepth {
			maxDepth = d + 1
		}
	}
	return
}

// nested3 builds a forest of nested solids (1-3 roots) on the 1/8 grid; orient=true gives the
// even-odd orientation (outer shells outward, cavities inward).
func nested3(c *hlib.Ctx, orient bool) (*model3d.Mesh, string) {
	m := model3d.NewMesh()
	roots := 1 + c.Rng.Intn(3)
	maxD, nodes := 0, 0
	for i := 0; i < roots; i++ {
		depth := c.Rng.Intn(6)
		ext := []int{8, 24, 64, 160, 400, 400}[depth]
		ox := i*480 + c.Rng.Intn(8)
		oy, oz := c.Rng.Intn(16)-8, c.Rng.Intn(16)-8
		n := genNest(c, [3]int{ox, oy, oz}, [3]int{ox + ext, oy + ext, oz + ext}, depth)
		m.AddMesh(n.mesh(0, orient))
		a, d := n.count()
		nodes += a
		if d > maxD {
			maxD = d
		}
	}
	c.Stat(fmt.Sprintf("nest3-depth:%d", maxD), 1)
	c.Stat("nest3-components", nodes)
	return m, "nested"
}
