package main

import (
	"fmt"
	"math"
	"sort"
	"strings"

	"verif/harness/hlib"

	"github.com/unixpickle/model3d/model3d"
)

func emit(c *hlib.Ctx, kind string, sections []string, impl string) {
	c.Emit("c11 "+kind+" "+strings.Join(sections, " "), impl)
	c.Stat("kind:"+kind, 1)
	if strings.HasPrefix(impl, "panic:") || impl == "timeout" {
		c.Stat("status:"+kind+":"+strings.SplitN(impl, " ", 2)[0], 1)
	}
}

// ---------------------------------------------------------------- diag3 / diagd3

// diagString runs the diagnostics in the given order (a permutation of 0..3: NeedsRepair,
// SingularVertices, InconsistentEdges, Orientable - the answers must not depend on which of them
// ran before, e.g. on whether an earlier call has built the vertex index) and prints them in the
// canonical order.
func diagString(s *soup3, m *model3d.Mesh, withOr bool, order []int) string {
	ids := s.idOf()
	var nrS, svS, ieS, orS string
	for _, which := range order {
		var st string
		switch which {
		case 0:
			st = watchdog(func() { nrS = b01(m.NeedsRepair()) })
		case 1:
			if !withOr {
				// degenerate faces: SingularVertices depends on the map iteration order there
				continue
			}
			st = watchdog(func() {
				var sv []int
				for _, v := range m.SingularVertices() {
					sv = append(sv, ids[v])
				}
				sort.Ints(sv)
				svS = intsStr(sv)
			})
		case 2:
			st = watchdog(func() {
				var ie [][2]int
				for _, e := range m.InconsistentEdges() {
					ie = append(ie, [2]int{ids[e[0]], ids[e[1]]})
				}
				sort.Slice(ie, func(i, j int) bool {
					if ie[i][0] != ie[j][0] {
						return ie[i][0] < ie[j][0]
					}
					return ie[i][1] < ie[j][1]
				})
				ieS = "-"
				if len(ie) > 0 {
					parts := make([]string, len(ie))
					for i, e := range ie {
						parts[i] = fmt.Sprintf("%d>%d", e[0], e[1])
					}
					ieS = strings.Join(parts, ",")
				}
			})
		default:
			if !withOr {
				continue
			}
			st = watchdog(func() { orS = b01(m.Orientable()) })
			if st != "ok" {
				if strings.HasPrefix(st, "panic:") {
					orS = "panic"
				} else {
					orS = st
				}
				st = "ok"
			}
		}
		if st != "ok" {
			return st
		}
	}
	if withOr {
		return fmt.Sprintf("nr=%s sv=%s ie=%s or=%s", nrS, svS, ieS, orS)
	}
	return fmt.Sprintf("nr=%s ie=%s", nrS, ieS)
}

// oSection records the order in which the diagnostics were called (part of the failing input of
// a replay; the definitions do not depend on it, the driver ignores the section).
func oSection(order []int) string { return "O " + intsStr(order) }

// diagOrder: half of the cases in the declaration order (NeedsRepair first, on a mesh whose index
// has not been built), the others in a random order.
func diagOrder(c *hlib.Ctx) []int {
	if c.Rng.Intn(2) == 0 {
		return []int{0, 1, 2, 3}
	}
	o := c.Rng.Perm(4)
	if o[0] != 0 {
		c.Stat("diag3:needs-repair-asked-after-another-diagnostic", 1)
	}
	return o
}

func kindDiag3(c *hlib.Ctx) {
	s, label := damaged3(c)
	s.nondegenerate()
	s.compact()
	c.Stat("diag3-src:"+strings.SplitN(label, "+", 2)[0], 1)
	b := s.build()
	order := diagOrder(c)
	out := diagString(s, b.m, true, order)
	if strings.Contains(out, "nr=1") {
		c.Stat("diag3:needs-repair", 1)
	}
	if !strings.Contains(out, "sv=-") {
		c.Stat("diag3:has-singular", 1)
	}
	if !strings.Contains(out, "ie=-") {
		c.Stat("diag3:has-inconsistent", 1)
	}
	if strings.Contains(out, "or=0") {
		c.Stat("diag3:not-orientable", 1)
	}
	emit(c, "diag3", []string{s.iSection(), oSection(order)}, out)
}

func kindDiagD3(c *hlib.Ctx) {
	s, _ := damaged3(c)
	// force at least one pinch so that degenerate faces are likely
	if len(s.faces) > 0 {
		f := s.faces[c.Rng.Intn(len(s.faces))]
		a, b := f[0], f[1+c.Rng.Intn(2)]
		if c.Rng.Intn(4) == 0 {
			// collapse a whole face
			for i, g := range s.faces {
				for k := range g {
					if g[k] == f[1] || g[k] == f[2] {
						s.faces[i][k] = f[0]
					}
				}
			}
		} else {
			for i, g := range s.faces {
				for k := range g {
					if g[k] == b {
						s.faces[i][k] = a
					}
				}
			}
		}
	}
	s.compact()
	deg := 0
	for _, f := range s.faces {
		if f[0] == f[1] || f[1] == f[2] || f[0] == f[2] {
			deg++
		}
	}
	c.Stat("diagd3:degenerate-faces", deg)
	b := s.build()
	order := diagOrder(c)
	emit(c, "diagd3", []string{s.iSection(), oSection(order)}, diagString(s, b.m, false, order))
}

// ---------------------------------------------------------------- clus3

func kindClus3(c *hlib.Ctx) {
	s, _ := damaged3(c)
	s.nondegenerate()
	s.dedup(false)
	s.compact()
	b := s.build()
	var out string
	st := watchdog(func() {
		res := model3d.VerifClusters(b.m)
		ids := s.idOf()
		type ent struct {
			v int
			g string
		}
		var ents []ent
		multi := 0
		for coord, fams := range res {
			var gs [][]int
			for _, fam := range fams {
				var g []int
				for _, t := range fam {
					i, ok := b.value[t]
					if !ok {
						i = -1
					}
					g = append(g, i)
				}
				gs = append(gs, g)
			}
			if len(gs) > 1 {
				multi++
			}
			ents = append(ents, ent{ids[coord], groupsStr(gs)})
		}
		c.Stat("clus3:vertices-with-several-clusters", multi)
		sort.Slice(ents, func(i, j int) bool { return ents[i].v < ents[j].v })
		parts := make([]string, len(ents))
		for i, e := range ents {
			parts[i] = fmt.Sprintf("%d:%s", e.v, e.g)
		}
		out = strings.Join(parts, " ")
		if len(parts) == 0 {
			out = "-"
		}
	})
	if st != "ok" {
		out = st
	}
	emit(c, "clus3", []string{s.iSection()}, out)
}

// ---------------------------------------------------------------- rnm3

// flippedSet compares the real output with the input face by face (by value).
func flippedSet(s *soup3, out *model3d.Mesh) ([]int, bool) {
	outSet := map[model3d.Triangle]int{}
	out.Iterate(func(t *model3d.Triangle) { outSet[*t]++ })
	var fl []int
	ok := true
	for i, f := range s.faces {
		t := model3d.Triangle{s.coords[f[0]], s.coords[f[1]], s.coords[f[2]]}
		tf := model3d.Triangle{t[1], t[0], t[2]}
		switch {
		case outSet[t] > 0:
			outSet[t]--
		case outSet[tf] > 0:
			outSet[tf]--
			fl = append(fl, i)
		default:
			ok = false
		}
	}
	for _, n := range outSet {
		if n != 0 {
			ok = false
		}
	}
	return fl, ok
}

func kindRnm3(c *hlib.Ctx) {
	s, label := damaged3(c)
	s.nondegenerate()
	s.dedup(true)
	s.compact()
	b := s.build()
	var out string
	st := watchdog(func() {
		groups := b.m.FaceOrientations()
		res, count := b.m.RepairNormalsMajority()
		fl, ok := flippedSet(s, res)
		if !ok {
			out = "ok output-is-not-a-reorientation-of-the-input"
			return
		}
		isFl := map[int]bool{}
		for _, i := range fl {
			isFl[i] = true
		}
		var gstrs []struct {
			first int
			s     string
		}
		var flips []int
		for _, g := range groups {
			type fe struct {
				i int
				v bool
			}
			var fes []fe
			for t, v := range g {
				fes = append(fes, fe{b.ptr[t], v})
			}
			sort.Slice(fes, func(i, j int) bool { return fes[i].i < fes[j].i })
			inv := fes[0].v
			parts := make([]string, len(fes))
			nfl := 0
			for i, e := range fes {
				parts[i] = fmt.Sprintf("%d:%s", e.i, b01(e.v != inv))
				if isFl[e.i] {
					nfl++
				}
			}
			gstrs = append(gstrs, struct {
				first int
				s     string
			}{fes[0].i, strings.Join(parts, ",")})
			// tie normalisation
			comp := 2*nfl == len(fes) && isFl[fes[0].i]
			for _, e := range fes {
				if isFl[e.i] != comp {
					flips = append(flips, e.i)
				}
			}
		}
		sort.Slice(gstrs, func(i, j int) bool { return gstrs[i].first < gstrs[j].first })
		gs := make([]string, len(gstrs))
		for i, g := range gstrs {
			gs[i] = g.s
		}
		gjoin := strings.Join(gs, "|")
		if len(gs) == 0 {
			gjoin = "-"
		}
		sort.Ints(flips)
		clean := len(res.InconsistentEdges()) == 0
		out = fmt.Sprintf("ok groups=%s flip=%s n=%d clean=%s", gjoin, intsStr(flips), count, b01(clean))
		c.Stat("rnm3:groups", len(groups))
		if count > 0 {
			c.Stat("rnm3:flipped-something", 1)
		}
	})
	if st != "ok" {
		out = st
	}
	c.Stat("rnm3-src:"+strings.SplitN(label, "+", 2)[0], 1)
	emit(c, "rnm3", []string{s.iSection()}, out)
}

// ---------------------------------------------------------------- rn3

// kindRn3: see probe.go.

// ---------------------------------------------------------------- rep3

// jitter3 splits vertices of a closed manifold on the 1/8 grid into near-duplicates.
func jitter3(c *hlib.Ctx, s *soup3, eps float64) string {
	mode := c.Rng.Intn(6)
	amp := eps / 4
	label := "jitter<eps/4"
	if mode == 2 {
		amp = 0.6 * eps
		label = "jitter<0.6eps"
	}
	if mode == 3 {
		return "undamaged"
	}
	p := 0.2 + 0.6*c.Rng.Float64()
	if mode >= 4 {
		// chains only
		mode, p, label = 1, 0, "no-jitter"
	}
	for i := range s.faces {
		for k := 0; k < 3; k++ {
			if c.Rng.Float64() < p {
				o := s.coords[s.faces[i][k]]
				// only split vertices that are still on the grid (not already a copy)
				if o.X*8 != math.Floor(o.X*8) {
					continue
				}
				off := model3d.XYZ((c.Rng.Float64()*2-1)*amp, (c.Rng.Float64()*2-1)*amp, (c.Rng.Float64()*2-1)*amp)
				s.coords = append(s.coords, o.Add(off))
				s.faces[i][k] = len(s.coords) - 1
			}
		}
	}
	if mode == 1 && len(s.faces) > 0 {
		// chains of near-duplicates 0.9*eps apart (consecutive copies share a grid hash, copies two
		// steps apart share none) around many vertices, along any axis and in both directions: the
		// merge has to be transitive whatever the order in which the map hands out the copies
		label += "+chain"
		nv := len(s.coords)
		all := c.Rng.Intn(2) == 0
		forced := s.faces[c.Rng.Intn(len(s.faces))][0]
		chains := 0
		for v := 0; v < nv; v++ {
			if v != forced && !all && c.Rng.Intn(3) != 0 {
				continue
			}
			o := s.coords[v]
			if o.X*8 != math.Floor(o.X*8) || o.Y*8 != math.Floor(o.Y*8) || o.Z*8 != math.Floor(o.Z*8) {
				continue // already a jittered copy
			}
			d := []model3d.Coord3D{model3d.X(1), model3d.Y(1), model3d.Z(1)}[c.Rng.Intn(3)]
			if c.Rng.Intn(2) == 0 {
				d = d.Scale(-1)
			}
			// the first use keeps the original; the others go to alternating sides: 0, +1, -1, +2, ...
			step := 0
			for i := range s.faces {
				for k := 0; k < 3; k++ {
					if s.faces[i][k] == v {
						off := float64((step + 1) / 2)
						if step%2 == 0 {
							off = -off
						}
						s.coords = append(s.coords, o.Add(d.Scale(0.9*eps*off)))
						s.faces[i][k] = len(s.coords) - 1
						step++
					}
				}
			}
			chains++
		}
		c.Stat("rep3:chained-vertices", chains)
	}
	return label
}

func kindRep3(c *hlib.Ctx) {
	var m *model3d.Mesh
	switch c.Rng.Intn(4) {
	case 0:
		m = model3d.NewMeshRect(model3d.XYZ(0, 0, 0), model3d.XYZ(1, 0.5, 0.25))
	case 1:
		m = gridBox(model3d.XYZ(-1, 0, 0), 1+c.Rng.Intn(3), 1+c.Rng.Intn(2), 1, model3d.XYZ(0.25, 0.5, 0.125))
	case 2:
		m = octahedron(model3d.XYZ(0.5, 0.25, 0), 0.5)
	default:
		m = tetrahedron(model3d.XYZ(0, 0, 0), 0.5)
		m.AddMesh(model3d.NewMeshRect(model3d.XYZ(4, 0, 0), model3d.XYZ(5, 1, 1)))
	}
	s := soupOfMesh(c, m)
	eps := math.Ldexp(1, -(4 + c.Rng.Intn(7)))
	label := jitter3(c, s, eps)
	s.compact()
	c.Stat("rep3:"+label, 1)
	b := s.build()

	// tagged copy: one far-away tag triangle per vertex reveals the vertex map of Repair
	tagged := model3d.NewMesh()
	tagged.AddMesh(b.m)
	nv := len(s.coords)
	pTag := make([]model3d.Coord3D, nv)
	qTag := make([]model3d.Coord3D, nv)
	for v := 0; v < nv; v++ {
		pTag[v] = model3d.XYZ(1000+4*float64(v), 0, 0)
		qTag[v] = model3d.XYZ(1000+4*float64(v), 1, 0)
		tagged.Add(&model3d.Triangle{s.coords[v], pTag[v], qTag[v]})
	}
	var out string
	st := watchdog(func() {
		rep := tagged.Repair(eps)
		img := make([]int, nv)
		for v := range img {
			img[v] = -1
		}
		ids := s.idOf()
		tagIdx := map[model3d.Coord3D]int{}
		for v := 0; v < nv; v++ {
			tagIdx[pTag[v]] = v
		}
		rep.Iterate(func(t *model3d.Triangle) {
			for k := 0; k < 3; k++ {
				if v, ok := tagIdx[t[k]]; ok {
					for j := 0; j < 3; j++ {
						if t[j] != pTag[v] && t[j] != qTag[v] {
							if id, ok := ids[t[j]]; ok {
								img[v] = id
							} else {
								img[v] = -2
							}
						}
					}
				}
			}
		})
		fix := true
		cls := make([]int, nv)
		for v := 0; v < nv; v++ {
			if img[v] < 0 || img[img[v]] != img[v] {
				fix = false
			}
			cls[v] = v
			for u := 0; u < nv; u++ {
				if img[u] == img[v] {
					cls[v] = u
					break
				}
			}
		}
		merged := 0
		for v := 0; v < nv; v++ {
			if cls[v] != v {
				merged++
			}
		}
		c.Stat("rep3:merged-vertices", merged)
		real := b.m.Repair(eps)
		nr := real.NeedsRepair()
		if !nr {
			c.Stat("rep3:result-clean", 1)
		}
		out = fmt.Sprintf("cls=%s fix=%s nr=%s", intsStr(cls), b01(fix), b01(nr))
	})
	if st != "ok" {
		out = st
	}
	emit(c, "rep3", []string{s.iSection(), "E " + hlib.RatStr(eps), s.cSection()}, out)
}

// ---------------------------------------------------------------- hier3

type flatNode struct {
	faces  []int
	parent int // index into the flat list, -1 for roots
}

func kindHier3(c *hlib.Ctx) {
	var m *model3d.Mesh
	var label string
	var polyRoots []*pnode
	switch c.Rng.Intn(10) {
	case 0:
		m, label = closed3(c)
	case 1:
		// needs repair: the documented panic
		mm, _ := closed3simple(c)
		s := soupOfMesh(c, mm)
		s.faces = s.faces[1:]
		m, label = s.build().m, "opened"
	case 2, 3, 4, 5:
		// non-convex, non-concentric nests (polyomino prisms inside each other's material)
		polyRoots = polyNest(c)
		mode := c.Rng.Intn(3)
		m, label = polyMesh3(c, polyRoots, mode), []string{"poly-direct", "poly-profile", "poly-mixed"}[mode]
	default:
		m, label = nested3(c, c.Rng.Intn(2) == 0)
	}
	if m.NumTriangles() > 900 {
		c.Stat("hier3:skipped-large", 1)
		m, label = closed3simple(c)
		polyRoots = nil
	}
	hier3Case(c, m, label, polyRoots, randomXform3(c))
}

// hier3Case runs MeshToHierarchy on the image of m under xf (faces shuffled, whole components
// re-oriented at random) and prints nodes, parents, FullMesh and Contains on query points (drawn
// in the frame of m, then mapped by xf).
func hier3Case(c *hlib.Ctx, m *model3d.Mesh, label string, polyRoots []*pnode, xf xform) {
	s := soupOfMesh(c, m)
	// random orientation of whole components (the hierarchy must not depend on it)
	if c.Rng.Intn(2) == 0 {
		for _, g := range s.components() {
			if c.Rng.Intn(2) == 0 {
				for _, j := range g {
					s.faces[j] = flipFace(s.faces[j])
				}
			}
		}
	}
	// query points off the 1/16 grid
	mn, mx := m.Min(), m.Max()
	var qs []model3d.Coord3D
	nq := 6 + c.Rng.Intn(10)
	if len(s.faces) == 0 {
		nq = 0
	}
	if polyRoots != nil {
		for _, q := range polyQueries(c, polyRoots, 10+c.Rng.Intn(10)) {
			qs = append(qs, model3d.XYZ(q[0], q[1], q[2]))
		}
		nq = 4
	}
	for i := 0; i < nq; i++ {
		r := func(lo, hi float64, off float64) float64 {
			span := int((hi-lo)*8) + 2
			return lo + float64(c.Rng.Intn(span)-1)/8 + off/8
		}
		qs = append(qs, model3d.XYZ(r(mn.X, mx.X, 0.37), r(mn.Y, mx.Y, 0.21), r(mn.Z, mx.Z, 0.13)))
	}
	if !xf.isIdentity() {
		for i := range s.coords {
			s.coords[i] = xf.apply3(s.coords[i])
		}
		for i := range qs {
			qs[i] = xf.apply3(qs[i])
		}
	}
	c.Stat("hier3-xform:"+xf.name, 1)
	b := s.build()
	sweepStats3(c, s)
	var out string
	st := watchdog(func() {
		roots := model3d.MeshToHierarchy(b.m)
		var flat []flatNode
		var walk func(h *model3d.MeshHierarchy, parent int)
		bad := false
		walk = func(h *model3d.MeshHierarchy, parent int) {
			var fs []int
			h.Mesh.Iterate(func(t *model3d.Triangle) {
				i, ok := b.faceIndex(*t)
				if !ok {
					bad = true
				}
				fs = append(fs, i)
			})
			sort.Ints(fs)
			flat = append(flat, flatNode{fs, parent})
			me := len(flat) - 1
			for _, ch := range h.Children {
				walk(ch, me)
			}
		}
		for _, r := range roots {
			walk(r, -1)
		}
		// canonical order: by smallest face index
		order := make([]int, len(flat))
		for i := range order {
			order[i] = i
		}
		sort.Slice(order, func(i, j int) bool {
			a, bb := flat[order[i]].faces, flat[order[j]].faces
			if len(a) == 0 || len(bb) == 0 {
				return len(a) < len(bb)
			}
			return a[0] < bb[0]
		})
		pos := make([]int, len(flat))
		for p, i := range order {
			pos[i] = p
		}
		nodes := make([]string, len(flat))
		pars := make([]string, len(flat))
		maxDepth := 0
		for p, i := range order {
			nodes[p] = intsStr(flat[i].faces)
			if flat[i].parent < 0 {
				pars[p] = "r"
			} else {
				pars[p] = fmt.Sprint(pos[flat[i].parent])
			}
			d := 0
			for j := i; flat[j].parent >= 0; j = flat[j].parent {
				d++
			}
			if d > maxDepth {
				maxDepth = d
			}
		}
		c.Stat(fmt.Sprintf("hier3:real-depth:%d", maxDepth), 1)
		c.Stat("hier3:real-nodes", len(flat))
		// FullMesh of all roots: every input face exactly once
		count := make([]int, len(s.faces))
		full := !bad
		for _, r := range roots {
			r.FullMesh().Iterate(func(t *model3d.Triangle) {
				i, ok := b.faceIndex(*t)
				if !ok {
					full = false
					return
				}
				count[i]++
			})
		}
		for _, n := range count {
			if n != 1 {
				full = false
			}
		}
		var bits strings.Builder
		inside := 0
		for _, q := range qs {
			in := false
			for _, r := range roots {
				if r.Contains(q) {
					in = true
				}
			}
			bits.WriteString(b01(in))
			if in {
				inside++
			}
		}
		c.Stat("hier3:queries-inside", inside)
		c.Stat("hier3:queries", len(qs))
		bs := bits.String()
		if bs == "" {
			bs = "-"
		}
		nstr, pstr := strings.Join(nodes, "|"), strings.Join(pars, ",")
		if len(nodes) == 0 {
			nstr, pstr = "-", "-"
		}
		fstr := "ok"
		if !full {
			fstr = "bad"
		}
		out = fmt.Sprintf("ok nodes=%s par=%s full=%s cont=%s", nstr, pstr, fstr, bs)
	})
	if st != "ok" {
		out = st
	}
	c.Stat("hier3-src:"+label, 1)
	emit(c, "hier3", []string{s.iSection(), s.cSection(), qSection3(qs)}, out)
}
