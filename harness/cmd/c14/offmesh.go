package main

// offmesh.go: kind `offmesh` — model3d.ReadOFF on files with MANY polygonal faces.
//
// The `off` kind reads one face per file.  ReadOFF is an observation point of C14 for whole files:
// EVERY face of the file has to come back triangulated (M3d.C14.readOFF_every_face: the model of
// the face loop returns the concatenation of the triangulations of all faces, whatever their
// number).  A file here is a small polyhedral TILE (a prism over a generated polygon, a soup of
// generated polygons in their own planes, or a sheet of quadrilaterals; lattice-affine images, so
// every face is exactly planar) repeated R times along a lattice vector, so that the number of
// faces F = R·k ranges over five orders of magnitude: a few faces, a few hundred, and sizes around
// and beyond the powers of two where import code typically bounds its pre-allocations (2^12, 2^16,
// 2^17: files with more vertices / faces than any such bound are produced in EVERY run).
//
// Op line (the output of the real code is carried run-length encoded: consecutive copies of the
// tile whose triangles are the same local id triples form one block):
//
//	c14 offmesh [S e] D den V nv x y z … F k (n id…)×k R r tx ty tz B nb (r0 r1 T m a b c …)×nb
//
// The driver evaluates, for the first and the last copy of every block, the face certificate of
// every face on the triangles that lie in it (the certificate is translation invariant:
// M3d.C14.off_copy_cert_transfer), requires every triangle to lie in exactly one face, and prints
// `ok faces=R·k tris=…`.  The implementation column counts the faces that received a triangle.

import (
	"fmt"
	"math/rand"
	"sort"
	"strconv"
	"strings"

	"verif/harness/hlib"

	"github.com/unixpickle/model3d/model3d"
)

type offTile struct {
	name  string
	verts [][3]int64
	faces [][]int
}

// a random lattice-affine map of space with non-zero determinant (entries in [-3, 3])
func randAffine3(r *rand.Rand) func(x, y, z int64) [3]int64 {
	for {
		var m [3][3]int64
		for i := range m {
			for j := range m[i] {
				m[i][j] = r.Int63n(7) - 3
			}
		}
		det := m[0][0]*(m[1][1]*m[2][2]-m[1][2]*m[2][1]) - m[0][1]*(m[1][0]*m[2][2]-m[1][2]*m[2][0]) +
			m[0][2]*(m[1][0]*m[2][1]-m[1][1]*m[2][0])
		if det == 0 {
			continue
		}
		if r.Intn(3) == 0 {
			m = [3][3]int64{{1, 0, 0}, {0, 1, 0}, {0, 0, 1}}
		}
		return func(x, y, z int64) [3]int64 {
			return [3]int64{m[0][0]*x + m[0][1]*y + m[0][2]*z, m[1][0]*x + m[1][1]*y + m[1][2]*z,
				m[2][0]*x + m[2][1]*y + m[2][2]*z}
		}
	}
}

func smallPoly(c *hlib.Ctx, maxLen int) []ipt {
	for {
		p, _ := genPoly(c, 6)
		if c.Rng.Intn(3) == 0 {
			p = gen2opt(c.Rng, 1+c.Rng.Int63n(12), 3+c.Rng.Intn(3))
			if !isSimple(p) {
				continue
			}
		}
		if len(p) <= maxLen {
			if c.Rng.Intn(2) == 0 {
				p = reversed(p)
			}
			return rotated(p, c.Rng.Intn(len(p)))
		}
	}
}

// genTile: maxFaces bounds the number of faces of the tile.
func genTile(c *hlib.Ctx, maxFaces int) offTile {
	r := c.Rng
	aff := randAffine3(r)
	switch r.Intn(3) {
	case 0:
		// prism over a polygon: top, bottom (reversed), one quadrilateral per edge
		p := smallPoly(c, minInt(12, maxFaces-2))
		n := len(p)
		z0 := r.Int63n(9) - 4
		z1 := z0 + 1 + r.Int63n(6)
		t := offTile{name: "prism"}
		for _, q := range p {
			t.verts = append(t.verts, aff(q.x, q.y, z0))
		}
		for _, q := range p {
			t.verts = append(t.verts, aff(q.x, q.y, z1))
		}
		top, bot := make([]int, n), make([]int, n)
		for i := 0; i < n; i++ {
			top[i] = n + i
			bot[i] = n - 1 - i
		}
		t.faces = append(t.faces, top, bot)
		for i := 0; i < n; i++ {
			j := (i + 1) % n
			t.faces = append(t.faces, []int{i, j, n + j, n + i})
		}
		return t
	case 1:
		// a soup of polygons, each in a plane of its own, side by side
		k := 1 + r.Intn(minInt(6, maxFaces))
		t := offTile{name: "soup"}
		var x0 int64
		for f := 0; f < k; f++ {
			p := smallPoly(c, 10)
			es := embeddings(r)
			e := es[r.Intn(len(es))]
			minx, _, maxx, _ := int64(0), int64(0), int64(0), int64(0)
			pts := make([][3]int64, len(p))
			for i, q := range p {
				pts[i] = e.f(q)
				if i == 0 || pts[i][0] < minx {
					minx = pts[i][0]
				}
				if i == 0 || pts[i][0] > maxx {
					maxx = pts[i][0]
				}
			}
			var face []int
			for _, v := range pts {
				face = append(face, len(t.verts))
				t.verts = append(t.verts, [3]int64{v[0] - minx + x0, v[1], v[2]})
			}
			x0 += maxx - minx + 1 + r.Int63n(4)
			t.faces = append(t.faces, face)
		}
		return t
	default:
		// a sheet of a x b quadrilaterals over shared vertices (a sheared, tilted lattice)
		a := 1 + r.Intn(6)
		b := 1 + r.Intn(6)
		for a*b > maxFaces {
			if a > b {
				a--
			} else {
				b--
			}
		}
		t := offTile{name: "sheet"}
		for i := 0; i <= a; i++ {
			for j := 0; j <= b; j++ {
				t.verts = append(t.verts, aff(int64(i), int64(j), 0))
			}
		}
		id := func(i, j int) int { return i*(b+1) + j }
		flip := r.Intn(2) == 0
		for i := 0; i < a; i++ {
			for j := 0; j < b; j++ {
				f := []int{id(i, j), id(i+1, j), id(i+1, j+1), id(i, j+1)}
				if flip {
					f = []int{f[3], f[2], f[1], f[0]}
				}
				s := r.Intn(4)
				f = append(f[s:], f[:s]...)
				t.faces = append(t.faces, f)
			}
		}
		return t
	}
}

func minInt(a, b int) int {
	if a < b {
		return a
	}
	return b
}

// emitOffMesh: the tile repeated R times along T, written as one OFF file and read by ReadOFF.
func emitOffMesh(c *hlib.Ctx, t offTile, R int, sizeClass string) {
	r := c.Rng
	den := randDen(c)
	var sc scaleSpec
	if r.Intn(3) == 0 {
		sc = pickDyadic(r)
	}
	// the translation between consecutive copies: beyond the tile's extent along one axis, so that
	// all vertices of the file are distinct points
	var T [3]int64
	ax := r.Intn(3)
	lo, hi := t.verts[0][ax], t.verts[0][ax]
	for _, v := range t.verts {
		lo, hi = min64(lo, v[ax]), max64(hi, v[ax])
	}
	for a := 0; a < 3; a++ {
		T[a] = r.Int63n(7) - 3
	}
	T[ax] = hi - lo + 1 + r.Int63n(5)
	if r.Intn(2) == 0 {
		T[ax] = -T[ax]
	}
	nv, k := len(t.verts), len(t.faces)
	c.Stat("offmesh.cases", 1)
	c.Stat("offmesh.tile."+t.name, 1)
	c.Stat("offmesh.size."+sizeClass, 1)
	c.Stat("offmesh.faces-total", R*k)
	coord := func(cp, v int) model3d.Coord3D {
		var f [3]float64
		for a := 0; a < 3; a++ {
			f[a] = sc.apply(float64(t.verts[v][a]+int64(cp)*T[a]) / float64(den))
		}
		return model3d.XYZ(f[0], f[1], f[2])
	}
	// the file: vertex table in a random order when it is small, copy by copy otherwise
	total := R * nv
	perm := make([]int, total) // file position -> global id (cp*nv + v)
	for i := range perm {
		perm[i] = i
	}
	if total <= 4000 && r.Intn(2) == 0 {
		r.Shuffle(total, func(i, j int) { perm[i], perm[j] = perm[j], perm[i] })
	}
	pos := make([]int, total)
	ids := make(map[model3d.Coord3D]int, total)
	var sb strings.Builder
	fmt.Fprintf(&sb, "OFF\n%d %d 0\n", total, R*k)
	for p, g := range perm {
		pos[g] = p
		cc := coord(g/nv, g%nv)
		if _, dup := ids[cc]; dup {
			panic("offmesh: duplicate vertex")
		}
		ids[cc] = g
		sb.WriteString(strconv.FormatFloat(cc.X, 'g', -1, 64))
		sb.WriteByte(' ')
		sb.WriteString(strconv.FormatFloat(cc.Y, 'g', -1, 64))
		sb.WriteByte(' ')
		sb.WriteString(strconv.FormatFloat(cc.Z, 'g', -1, 64))
		sb.WriteByte('\n')
	}
	for cp := 0; cp < R; cp++ {
		for _, f := range t.faces {
			sb.WriteString(strconv.Itoa(len(f)))
			for _, v := range f {
				sb.WriteByte(' ')
				sb.WriteString(strconv.Itoa(pos[cp*nv+v]))
			}
			sb.WriteByte('\n')
		}
	}
	text := sb.String()
	var out []*model3d.Triangle
	fail := guarded(func() string {
		ts, err := model3d.ReadOFF(strings.NewReader(text))
		if err != nil {
			return "error"
		}
		out = ts
		return ""
	})
	// op line
	var op strings.Builder
	op.WriteString("c14 offmesh ")
	if sc.k != 0 {
		fmt.Fprintf(&op, "S %d ", sc.k)
	}
	fmt.Fprintf(&op, "D %d V %d", den, nv)
	for _, v := range t.verts {
		fmt.Fprintf(&op, " %d %d %d", v[0], v[1], v[2])
	}
	fmt.Fprintf(&op, " F %d", k)
	for _, f := range t.faces {
		fmt.Fprintf(&op, " %d", len(f))
		for _, v := range f {
			fmt.Fprintf(&op, " %d", v)
		}
	}
	fmt.Fprintf(&op, " R %d %d %d %d ", R, T[0], T[1], T[2])
	if fail != "" {
		c.Stat("offmesh.fail", 1)
		c.Emit(op.String()+"B x", fail)
		return
	}
	// triangles per copy, as local ids
	perCopy := make([][]itri, R)
	for _, tr := range out {
		var it itri
		cp := -1
		for a := 0; a < 3; a++ {
			g, ok := ids[tr[a]]
			if !ok || (cp >= 0 && g/nv != cp) {
				c.Stat("offmesh.foreign", 1)
				c.Emit(op.String()+"B f", "foreign-vertex")
				return
			}
			cp = g / nv
			it[a] = g % nv
		}
		perCopy[cp] = append(perCopy[cp], it)
	}
	// faces that received a triangle (a triangle belongs to a face when all its corners do)
	inFace := make([]map[int]bool, k)
	for j, f := range t.faces {
		inFace[j] = map[int]bool{}
		for _, v := range f {
			inFace[j][v] = true
		}
	}
	hit := 0
	keys := make([]string, R)
	for cp := range perCopy {
		got := make([]bool, k)
		for _, it := range perCopy[cp] {
			which, cnt := -1, 0
			for j := range t.faces {
				if inFace[j][it[0]] && inFace[j][it[1]] && inFace[j][it[2]] {
					which = j
					cnt++
				}
			}
			if cnt == 1 && !got[which] {
				got[which] = true
				hit++
			}
		}
		ts := canonTris(perCopy[cp], true)
		keys[cp] = trisField(ts)
	}
	var blocks []string
	for cp := 0; cp < R; {
		e := cp + 1
		for e < R && keys[e] == keys[cp] {
			e++
		}
		blocks = append(blocks, fmt.Sprintf("%d %d %s", cp, e, keys[cp]))
		cp = e
	}
	c.Stat("offmesh.blocks", len(blocks))
	fmt.Fprintf(&op, "B %d %s", len(blocks), strings.Join(blocks, " "))
	c.Emit(op.String(), fmt.Sprintf("ok faces=%d tris=%d", hit, len(out)))
}

// runOffMesh: n small files, then the large ones (sizes around 2^12, 2^16, 2^17 faces and one
// in between; the extra faces beyond the power of two are drawn on purpose, not left to chance).
func runOffMesh(c *hlib.Ctx, n int) {
	r := c.Rng
	for i := 0; i < n; i++ {
		t := genTile(c, 40)
		R := 1 + r.Intn(4)
		if r.Intn(3) == 0 {
			R = 5 + r.Intn(60)
		}
		emitOffMesh(c, t, R, "small")
	}
	type big struct {
		class  string
		target int
	}
	sizes := []big{
		{"around-2^12", 1<<12 - 40 + r.Intn(400)},
		{"above-2^16", 1<<16 + 1 + r.Intn(700)},
		{"2^16..2^17", 1<<16 + 1000 + r.Intn(1<<16)},
	}
	if r.Intn(2) == 0 {
		sizes = append(sizes, big{"just-below-2^16", 1<<16 - r.Intn(300)})
	} else {
		sizes = append(sizes, big{"above-2^17", 1<<17 + 1 + r.Intn(3000)})
	}
	sort.Slice(sizes, func(i, j int) bool { return sizes[i].target < sizes[j].target })
	for _, s := range sizes {
		t := genTile(c, 40)
		k := len(t.faces)
		R := (s.target + k - 1) / k
		if s.class == "just-below-2^16" {
			R = s.target / k // stays at or below the target
		}
		emitOffMesh(c, t, R, s.class)
	}
}
