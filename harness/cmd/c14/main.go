// Command c14: correspondence harness for property C14 (triangulation covers the polygon
// exactly).  Every case drives the REAL model2d/model3d code on a generated polygon / region /
// planar 3-D face with dyadic coordinates; the triangles it returns are translated to input
// vertex ids and embedded in the op line, so that the Lean driver evaluates the PROVED
// certificate checker (M3d.Tri.certOk, theorems in M3d/Props/C14.lean) on exactly that output,
// in exact rational arithmetic, and prints what the property requires ("ok area=… n=…").
// The implementation column is what the harness computed from the real output with exact
// integer arithmetic (sum of |triangle areas|, count).  Any disagreement is a failing input.
package main

import (
	"fmt"
	"math"
	"math/big"
	"os"
	"sort"
	"strconv"
	"strings"
	"time"

	"verif/harness/hlib"

	"github.com/unixpickle/model3d/model2d"
	"github.com/unixpickle/model3d/model3d"
)

func main() { hlib.Main("C14", run) }

// Far placements (scale.go): |offset| ≈ 2^b.  Triangulate / TriangulateFace / the stack algorithm
// only ever look at coordinate differences (exact here), so any exactly representable offset is a
// legitimate input: b up to 44 (offset/size up to ~1e12).  TriangulateMesh first rotates the
// ABSOLUTE coordinates by a fixed angle (misalignMesh), which rounds them to ~2^(b-53): offsets
// are kept at b ≤ 36 there and, per region, so small that the rounding (≤ 2^(b-52)) is at least 64
// times below the region's clearance (smallest vertex–edge distance; farPlacedSweep), so that a
// failure is a failure of the algorithm and not of float64.
const (
	farMinBits     = 31
	farMaxBitsEar  = 44
	farMaxBitsMesh = 36
)

// farOrDyadic: the placement of the internals' cases: a third in another dyadic unit, two ninths far.
func farOrDyadic(c *hlib.Ctx, r *region, maxBits int) {
	switch c.Rng.Intn(9) {
	case 0, 1, 2:
		r.sc = pickDyadic(c.Rng)
	case 3, 4:
		if fr := farPlacedSweep(c.Rng, r, farMinBits, maxBits); fr != nil {
			r.sc = fr.sc
		} else {
			c.Stat("far.skipped-small-clearance", 1)
		}
	}
}

const watchdog = 20 * time.Second

// guarded runs f under Guard and a watchdog.
func guarded(f func() string) string {
	ch := make(chan string, 1)
	go func() { ch <- hlib.Guard(f) }()
	select {
	case s := <-ch:
		return s
	case <-time.After(watchdog):
		return "timeout"
	}
}

type region struct {
	den   int64
	loops [][]ipt // documented orientation for mesh kinds: outer cw, holes ccw, islands cw …
	sc    scaleSpec
}

func (r *region) coord(p ipt) model2d.Coord {
	if r.sc.th != 0 {
		// arbitrary rotation (rounded), then the non-dyadic factor (rounded)
		x, y := float64(p.x)/float64(r.den), float64(p.y)/float64(r.den)
		cs, sn := math.Cos(r.sc.th), math.Sin(r.sc.th)
		return model2d.XY(r.sc.apply(x*cs-y*sn), r.sc.apply(x*sn+y*cs))
	}
	return model2d.XY(r.sc.applyX(float64(p.x)/float64(r.den)), r.sc.applyY(float64(p.y)/float64(r.den)))
}

func (r *region) all() []ipt {
	var a []ipt
	for _, l := range r.loops {
		a = append(a, l...)
	}
	return a
}

func (r *region) ids() map[model2d.Coord]int {
	m := map[model2d.Coord]int{}
	for i, p := range r.all() {
		m[r.coord(p)] = i
	}
	return m
}

func (r *region) header() string { return r.headerZ(nil) }

// headerZ: the op-line header.  Unit scale: `D den L …` with the lattice integers.  Dyadic scale
// 2^k (exact in float64): `S k D den L …` – the driver multiplies by 2^k in Q.  Non-dyadic factor:
// the float64 inputs are rounded, so the header carries them EXACTLY as big integers over a common
// power-of-two denominator (`D 2^m L …`); extra values zs (ProfileMesh's minZ, maxZ) share that
// denominator and are appended as ` Z z0 z1`.
func (r *region) headerZ(zs []float64) string {
	var sb strings.Builder
	if r.sc.f != 0 {
		var vals []float64
		for _, l := range r.loops {
			for _, p := range l {
				cc := r.coord(p)
				vals = append(vals, cc.X, cc.Y)
			}
		}
		vals = append(vals, zs...)
		den, ints := exactInts(vals)
		fmt.Fprintf(&sb, "D %s L %d", den.String(), len(r.loops))
		k := 0
		for _, l := range r.loops {
			fmt.Fprintf(&sb, " %d", len(l))
			for range l {
				fmt.Fprintf(&sb, " %s %s", ints[k].String(), ints[k+1].String())
				k += 2
			}
		}
		if len(zs) == 2 {
			fmt.Fprintf(&sb, " Z %s %s", ints[k].String(), ints[k+1].String())
		}
		return sb.String()
	}
	if r.sc.far() {
		fmt.Fprintf(&sb, "O %d %d ", r.sc.ox, r.sc.oy)
	}
	if r.sc.k != 0 {
		fmt.Fprintf(&sb, "S %d ", r.sc.k)
	}
	fmt.Fprintf(&sb, "D %d L %d", r.den, len(r.loops))
	for _, l := range r.loops {
		fmt.Fprintf(&sb, " %d", len(l))
		for _, p := range l {
			fmt.Fprintf(&sb, " %d %d", p.x, p.y)
		}
	}
	return sb.String()
}

func (r *region) mesh() *model2d.Mesh {
	m := model2d.NewMesh()
	for _, l := range r.loops {
		for i := range l {
			m.Add(&model2d.Segment{r.coord(l[i]), r.coord(l[(i+1)%len(l)])})
		}
	}
	return m
}

func (r *region) segs() []*model2d.Segment {
	var s []*model2d.Segment
	for _, l := range r.loops {
		for i := range l {
			s = append(s, &model2d.Segment{r.coord(l[i]), r.coord(l[(i+1)%len(l)])})
		}
	}
	return s
}

// twice the region area in lattice units (cw loops count positive)
func (r *region) area2cw() int64 {
	var s int64
	for _, l := range r.loops {
		s -= area2(l)
	}
	return s
}

type itri [3]int

func canonTris(ts []itri, sortThem bool) []itri {
	out := make([]itri, len(ts))
	for i, t := range ts {
		// rotate so that the smallest id comes first (orientation preserved)
		k := 0
		for j := 1; j < 3; j++ {
			if t[j] < t[k] {
				k = j
			}
		}
		out[i] = itri{t[k], t[(k+1)%3], t[(k+2)%3]}
	}
	if sortThem {
		sort.Slice(out, func(i, j int) bool {
			for k := 0; k < 3; k++ {
				if out[i][k] != out[j][k] {
					return out[i][k] < out[j][k]
				}
			}
			return false
		})
	}
	return out
}

func trisField(ts []itri) string {
	var sb strings.Builder
	fmt.Fprintf(&sb, "T %d", len(ts))
	for _, t := range ts {
		fmt.Fprintf(&sb, " %d %d %d", t[0], t[1], t[2])
	}
	return sb.String()
}

func ratArea(a2 int64, den int64) string {
	if a2 < 0 {
		a2 = -a2
	}
	return new(big.Rat).SetFrac(big.NewInt(a2), new(big.Int).Mul(big.NewInt(2), new(big.Int).Mul(big.NewInt(den), big.NewInt(den)))).String()
}

func showRatFull(q *big.Rat) string { // always num/den, as Lean's showRat
	return q.Num().String() + "/" + q.Denom().String()
}

func ratAreaFull(a2 int64, den int64) string {
	if a2 < 0 {
		a2 = -a2
	}
	q := new(big.Rat).SetFrac(big.NewInt(a2), new(big.Int).Mul(big.NewInt(2), new(big.Int).Mul(big.NewInt(den), big.NewInt(den))))
	return showRatFull(q)
}

// result of a real call: triangles as ids (foreign vertex = -1) or a failure word
type callRes struct {
	fail string // "" | panic:… | timeout
	tris []itri
}

func toIDs(ids map[model2d.Coord]int, tris [][3]model2d.Coord) []itri {
	out := make([]itri, len(tris))
	for i, t := range tris {
		for j, c := range t {
			if id, ok := ids[c]; ok {
				out[i][j] = id
			} else {
				out[i][j] = -1
			}
		}
	}
	return out
}

func call2d(r *region, f func() [][3]model2d.Coord) callRes {
	var tris [][3]model2d.Coord
	s := guarded(func() string { tris = f(); return "" })
	if s != "" {
		return callRes{fail: s}
	}
	return callRes{tris: toIDs(r.ids(), tris)}
}

// implementation column: sum of |areas| and count, computed exactly from the returned ids
func implSummary(r *region, res callRes) string {
	if res.fail != "" {
		return res.fail
	}
	all := r.all()
	for _, t := range res.tris {
		for _, v := range t {
			if v < 0 {
				return "foreign-vertex"
			}
		}
	}
	if r.sc.f != 0 {
		// rounded inputs: sum of |areas| of the returned triangles, exactly, on the float64 inputs
		ex := r.exactPts()
		sum := new(big.Rat)
		for _, t := range res.tris {
			a := orientRat(ex[t[0]], ex[t[1]], ex[t[2]])
			sum.Add(sum, a.Abs(a))
		}
		sum.Quo(sum, big.NewRat(2, 1))
		return fmt.Sprintf("ok area=%s n=%d", showRatFull(sum), len(res.tris))
	}
	var s int64
	for _, t := range res.tris {
		a := orient(all[t[0]], all[t[1]], all[t[2]])
		if a < 0 {
			a = -a
		}
		s += a
	}
	q := new(big.Rat).SetFrac(big.NewInt(s), new(big.Int).Mul(big.NewInt(2), new(big.Int).Mul(big.NewInt(r.den), big.NewInt(r.den))))
	q.Mul(q, r.sc.dyadicPow(2))
	return fmt.Sprintf("ok area=%s n=%d", showRatFull(q), len(res.tris))
}

func opTris(res callRes, sortThem bool) string {
	if res.fail != "" {
		return "T x"
	}
	for _, t := range res.tris {
		for _, v := range t {
			if v < 0 {
				return "T f"
			}
		}
	}
	return trisField(canonTris(res.tris, sortThem))
}

// ---------------------------------------------------------------------------

func run(c *hlib.Ctx) {
	n := c.N
	runEar(c, n)
	runMesh(c, n/2+1)
	runSingle(c, n/3+1)
	runMono(c, n/3+1)
	runVType(c, n/4+1)
	runSplits(c, n/3+1)
	runEarSeq(c, n/2+1)
	runFace(c, n/3+1)
	runFaceRun(c, n+1)
	runProfile(c, n/6+1)
	// new kinds go LAST: the random stream of the families above stays what it was
	runNearSide(c, n/8+1)
	runOffMesh(c, n/20+1)
	runLarge(c, n/25+1)
}

// pick a polygon family
func genPoly(c *hlib.Ctx, maxN int) ([]ipt, string) {
	r := c.Rng
	for {
		var p []ipt
		var fam string
		switch r.Intn(13) {
		case 12:
			// quadrilaterals and pentagons (a third of random quads are concave "darts"): the
			// vertex counts where special-cased fast paths live
			p, fam = gen2opt(r, 1+r.Int63n(12), 4+r.Intn(2)), "quad-pent"
			if r.Intn(3) == 0 {
				p, fam = genDart(r), "dart"
			}
		case 0:
			p, fam = genConvex(r, 8+r.Int63n(40), 3+r.Intn(maxN)), "convex"
		case 1:
			p, fam = genStar(r, 10+r.Int63n(60), 4+r.Intn(maxN)), "star"
		case 2:
			p, fam = genSpiral(r, 40+r.Int63n(100), 1+r.Intn(3)), "spiral"
		case 3:
			p, fam = genRectSpiral(r, 3+r.Intn(8)), "rectspiral"
		case 4:
			p, fam = genComb(r, 1+r.Intn(5), r.Intn(2) == 0), "comb"
		case 5:
			p, fam = genStaircase(r, 1+r.Intn(6)), "staircase"
		case 6:
			p, fam = gen2opt(r, 4+r.Int63n(12), 4+r.Intn(maxN)), "2opt"
		case 7:
			p, fam = genGrow(r, 6+r.Int63n(20), 5+r.Intn(maxN)), "grow"
		case 8:
			p, fam = genSliver(r, 1+r.Intn(5)), "sliver"
		case 9:
			q, _ := genPoly(c, maxN/2+3)
			p, fam = subdivide(r, q, int64(2+r.Intn(3)), 0.6), "colinear"
		case 10:
			p, fam = gen2opt(r, 2+r.Int63n(3), 4+r.Intn(8)), "2opt-tiny"
		default:
			p, fam = genMonotone(r, 3+r.Intn(maxN), 6, true), "monotone"
		}
		if p != nil && len(p) <= 3*maxN && isSimple(p) {
			return p, fam
		}
	}
}

func randDen(c *hlib.Ctx) int64 { return int64(1) << uint(c.Rng.Intn(5)) }

func runEar(c *hlib.Ctx, n int) {
	for i := 0; i < n; i++ {
		p, fam := genPoly(c, 14)
		c.Stat("ear.family."+fam, 1)
		den := randDen(c)
		rg := rigids(c.Rng)
		m := rg[c.Rng.Intn(len(rg))]
		c.Stat("ear.rigid."+m.name, 1)
		p = mapPts(p, m.f)
		// every rotation of the start vertex (sampled when the polygon is large), both orders
		rots := make([]int, 0)
		if len(p) <= 10 {
			for k := range p {
				rots = append(rots, k)
			}
		} else {
			for k := 0; k < 4; k++ {
				rots = append(rots, c.Rng.Intn(len(p)))
			}
		}
		// the polygon at unit scale, then the same polygon in another unit of length
		base := &region{den: den, loops: [][]ipt{p}}
		pl := placed(c.Rng, base, true, false)
		// … and the same polygon far from the origin (any rigid placement): Triangulate works on
		// coordinate differences only, which are exact for these inputs, so every offset is legitimate
		fr := farPlaced(c.Rng, base, farMinBits, farMaxBitsEar)
		for _, rr := range []*region{base, pl, fr} {
			c.Stat("ear.scale."+rr.sc.name(), 1)
			pp := rr.loops[0]
			for _, k := range rots {
				for rev := 0; rev < 2; rev++ {
					q := rotated(pp, k)
					if rev == 1 {
						q = reversed(q)
					}
					r := &region{den: den, loops: [][]ipt{q}, sc: rr.sc}
					poly := make([]model2d.Coord, len(q))
					for j, v := range q {
						poly[j] = r.coord(v)
					}
					res := call2d(r, func() [][3]model2d.Coord { return model2d.Triangulate(poly) })
					statRes(c, "ear", r, res)
					c.Emit("c14 ear "+r.header()+" "+opTris(res, false), implSummary(r, res))
				}
			}
		}
	}
}

func statRes(c *hlib.Ctx, kind string, r *region, res callRes) {
	c.Stat(kind+".cases", 1)
	if res.fail != "" {
		c.Stat(kind+".fail", 1)
		return
	}
	if kind == "ear" {
		if os.Getenv("C14_DEBUG") != "" && goCert(r, res.tris, true, 0) != "ok" {
			fmt.Fprintln(os.Stderr, goCert(r, res.tris, true, 0), r.header(), trisField(res.tris))
		}
		c.Stat(kind+".gocert."+goCert(r, res.tris, true, 0), 1)
		if goCert(r, res.tris, false, 0) != "ok" {
			c.Stat(kind+".tjunction-or-colinear", 1)
		}
	} else if kind != "mono" {
		c.Stat(kind+".gocert."+goCert(r, res.tris, true, -1), 1)
	}
}

// genRegion: outer polygons with holes and nested islands, documented orientation
// (outer clockwise = outward normals, holes counter-clockwise, islands clockwise …)
func genRegion(c *hlib.Ctx, maxLoops int) *region {
	r := c.Rng
	scale := int64(4 + r.Intn(5))
	var loops [][]ipt
	type node struct {
		poly  []ipt
		depth int
	}
	var nodes []node
	outerP, _ := genPoly(c, 10)
	outerP = mapPts(outerP, func(p ipt) ipt { return ipt{p.x * scale, p.y * scale} })
	nodes = append(nodes, node{outerP, 0})
	// optionally a second, disjoint outer polygon
	tries := 0
	for len(nodes) < maxLoops && tries < 60 {
		tries++
		q, _ := genPoly(c, 7)
		// place q somewhere: translate to a random vertex neighbourhood of a random parent
		par := nodes[r.Intn(len(nodes))]
		minx, miny, maxx, maxy := bbox(par.poly)
		if maxx-minx < 4 || maxy-miny < 4 {
			continue
		}
		qminx, qminy, qmaxx, qmaxy := bbox(q)
		// shrink q to fit roughly into a third of the parent
		_ = qmaxx
		_ = qmaxy
		tx := minx + r.Int63n(maxx-minx) - qminx
		ty := miny + r.Int63n(maxy-miny) - qminy
		var cand []ipt
		if r.Intn(6) == 0 && par.depth == 0 {
			// disjoint sibling of the outer polygon
			tx = maxx + 1 + r.Int63n(5) - qminx
			cand = mapPts(q, func(p ipt) ipt { return ipt{p.x + tx, p.y + ty} })
			ok := true
			for _, nd := range nodes {
				if boundariesTouch(cand, nd.poly) || insideStrict(nd.poly, cand[0]) || insideStrict(cand, nd.poly[0]) {
					ok = false
				}
			}
			if ok {
				nodes = append(nodes, node{cand, 0})
			}
			continue
		}
		cand = mapPts(q, func(p ipt) ipt { return ipt{p.x + tx, p.y + ty} })
		if !polyInside(cand, par.poly) {
			continue
		}
		// must be disjoint from every other loop, and not inside any deeper loop of this parent
		ok := true
		for _, nd := range nodes {
			if &nd.poly[0] == &par.poly[0] {
				continue
			}
			if boundariesTouch(cand, nd.poly) {
				ok = false
				break
			}
		}
		if !ok {
			continue
		}
		// depth = number of loops containing it
		d := 0
		for _, nd := range nodes {
			if insideStrict(nd.poly, cand[0]) {
				d++
			}
		}
		// no existing loop may be inside cand (keeps the nesting consistent)
		for _, nd := range nodes {
			if insideStrict(cand, nd.poly[0]) {
				ok = false
			}
		}
		if !ok {
			continue
		}
		nodes = append(nodes, node{cand, d})
	}
	for _, nd := range nodes {
		if nd.depth%2 == 0 {
			loops = append(loops, makeCW(nd.poly))
		} else {
			loops = append(loops, makeCCW(nd.poly))
		}
	}
	return &region{den: randDen(c), loops: loops}
}

func bbox(p []ipt) (minx, miny, maxx, maxy int64) {
	minx, miny, maxx, maxy = p[0].x, p[0].y, p[0].x, p[0].y
	for _, q := range p {
		minx, maxx = min64(minx, q.x), max64(maxx, q.x)
		miny, maxy = min64(miny, q.y), max64(maxy, q.y)
	}
	return
}

func (r *region) mapped(m rigid) *region {
	out := &region{den: r.den, sc: r.sc}
	for _, l := range r.loops {
		q := mapPts(l, m.f)
		if m.flip {
			q = reversed(q)
		}
		out.loops = append(out.loops, q)
	}
	return out
}

func runMesh(c *hlib.Ctx, n int) {
	for i := 0; i < n; i++ {
		var r *region
		if c.Rng.Intn(3) == 0 {
			p, fam := genPoly(c, 24)
			c.Stat("mesh.family."+fam, 1)
			r = &region{den: randDen(c), loops: [][]ipt{makeCW(p)}}
		} else {
			r = genRegion(c, 1+c.Rng.Intn(6))
			c.Stat(fmt.Sprintf("mesh.loops.%d", len(r.loops)), 1)
		}
		rg := rigids(c.Rng)
		r = r.mapped(rg[c.Rng.Intn(len(rg))])
		switch c.Rng.Intn(4) {
		case 0, 1:
			r = placed(c.Rng, r, true, true)
		case 2:
			if fr := farPlacedSweep(c.Rng, r, farMinBits, farMaxBitsMesh); fr != nil {
				r = fr
			} else {
				c.Stat("far.skipped-small-clearance", 1)
			}
		}
		c.Stat("mesh.scale."+r.sc.name(), 1)
		m := r.mesh()
		res := call2d(r, func() [][3]model2d.Coord { return model2d.TriangulateMesh(m) })
		statRes(c, "mesh", r, res)
		emitMesh(c, "mesh", r, res)
	}
}

// emitMesh labels a case whose ONLY defect is zero-area triangles (everything else of the
// certificate holds) with its own site, so that the known finding about exactly colinear boundary
// vertices does not mask any other disagreement.  The label is advisory; the verdict is the driver's.
func emitMesh(c *hlib.Ctx, kind string, r *region, res callRes) {
	op := "c14 " + kind + " " + r.header() + " " + opTris(res, true)
	if res.fail == "" && goCert(r, res.tris, true, -1) == "degenerate" && goCertW(r, res.tris, false, -1, true) == "ok" {
		c.Stat(kind+".zero-area-only", 1)
		c.EmitSite(op, implSummary(r, res), "corr:c14 "+kind+"/zero-area-triangle-on-colinear-boundary")
		return
	}
	c.Emit(op, implSummary(r, res))
}

// distinctX: the sweep requires pairwise distinct x (TriangulateMesh rotates to get that);
// the un-rotated internals are driven only on such inputs.
func distinctX(r *region) bool {
	seen := map[int64]bool{}
	for _, p := range r.all() {
		if seen[p.x] {
			return false
		}
		seen[p.x] = true
	}
	return true
}

// shearX: x' = a*x + b*y with a,b making x distinct (a lattice shear composed with scaling is
// an affine bijection: simple polygons stay simple, orientation preserved when a > 0).
func shearDistinct(r *region) *region {
	for _, k := range []int64{0, 1, 2, 3, 5, 7, 11, 13} {
		K := int64(1)
		if k > 0 {
			K = 64
		}
		out := &region{den: r.den, sc: r.sc}
		for _, l := range r.loops {
			out.loops = append(out.loops, mapPts(l, func(p ipt) ipt { return ipt{K*p.x + k*p.y, p.y} }))
		}
		if distinctX(out) {
			return out
		}
	}
	return nil
}

func runSingle(c *hlib.Ctx, n int) {
	for i := 0; i < n; i++ {
		var r *region
		if c.Rng.Intn(2) == 0 {
			p, _ := genPoly(c, 20)
			r = &region{den: randDen(c), loops: [][]ipt{makeCW(p)}}
		} else {
			// one outer polygon with direct holes only (triangulateSingleMesh's contract)
			for {
				r = genRegion(c, 1+c.Rng.Intn(4))
				ok := true
				outer := 0
				for _, l := range r.loops {
					if area2(l) < 0 {
						outer++
					}
				}
				if outer != 1 {
					ok = false
				}
				if ok {
					break
				}
			}
		}
		r = shearDistinct(r)
		if r == nil {
			continue
		}
		farOrDyadic(c, r, farMaxBitsMesh)
		c.Stat("single.scale."+r.sc.name(), 1)
		segs := r.segs()
		res := call2d(r, func() [][3]model2d.Coord { return model2d.VerifTriangulateSingleMesh(segs) })
		statRes(c, "single", r, res)
		emitMesh(c, "single", r, res)
	}
}

func runMono(c *hlib.Ctx, n int) {
	for i := 0; i < n; i++ {
		p := genMonotone(c.Rng, 3+c.Rng.Intn(16), 1+c.Rng.Int63n(12), false)
		if p == nil {
			continue
		}
		r := &region{den: randDen(c), loops: [][]ipt{p}}
		farOrDyadic(c, r, farMaxBitsMesh)
		c.Stat("mono.scale."+r.sc.name(), 1)
		segs := r.segs()
		res := call2d(r, func() [][3]model2d.Coord { return model2d.VerifTriangulateMonotoneMesh(segs) })
		statRes(c, "mono", r, res)
		impl := res.fail
		if impl == "" {
			impl = trisField(res.tris) // exact sequence, exact vertex order
		}
		c.Emit("c14 mono "+r.header(), impl)
	}
}

func runVType(c *hlib.Ctx, n int) {
	for i := 0; i < n; i++ {
		r := genRegion(c, 1+c.Rng.Intn(4))
		r = shearDistinct(r)
		if r == nil {
			continue
		}
		farOrDyadic(c, r, farMaxBitsMesh)
		c.Stat("vtype.scale."+r.sc.name(), 1)
		segs := r.segs()
		ids := r.ids()
		impl := guarded(func() string {
			cs, ts := model2d.VerifSweepVertexTypes(segs)
			var sb strings.Builder
			for j, cc := range cs {
				if j > 0 {
					sb.WriteByte(' ')
				}
				fmt.Fprintf(&sb, "%d:%d", ids[cc], ts[j])
			}
			return sb.String()
		})
		c.Stat("vtype.cases", 1)
		c.Emit("c14 vtype "+r.header(), impl)
	}
}

// runSplits: the sweep's diagonals (triangulateMonotoneSplits) against the model sweepSplits.
// Validates the faithful model of the helper bookkeeping; not a property verdict by itself.
func runSplits(c *hlib.Ctx, n int) {
	for i := 0; i < n; i++ {
		var r *region
		for {
			r = genRegion(c, 1+c.Rng.Intn(4))
			outer := 0
			for _, l := range r.loops {
				if area2(l) < 0 {
					outer++
				}
			}
			// triangulateMonotoneDecomp's contract: one polygon with one depth of holes
			depthOK := true
			for _, l := range r.loops {
				if area2(l) < 0 && outer > 1 {
					depthOK = false
				}
			}
			if outer == 1 && depthOK {
				break
			}
		}
		r = shearDistinct(r)
		if r == nil {
			continue
		}
		farOrDyadic(c, r, farMaxBitsMesh)
		c.Stat("splits.scale."+r.sc.name(), 1)
		segs := r.segs()
		ids := r.ids()
		impl := guarded(func() string {
			sp := model2d.VerifMonotoneSplits(segs)
			var sb strings.Builder
			fmt.Fprintf(&sb, "S %d", len(sp))
			for _, s := range sp {
				fmt.Fprintf(&sb, " %d %d", ids[s[0]], ids[s[1]])
			}
			return sb.String()
		})
		if strings.HasPrefix(impl, "panic") {
			impl = "panic"
		}
		c.Stat("splits.cases", 1)
		c.EmitSite("c14 splits "+r.header(), impl, "corr:c14 splits (model validation)")
	}
}

// runEarSeq: the exact sequence of triangles of Triangulate against the exact model
// M3d.Tri.triangulate (same ear choice).  Validates the faithful model.
func runEarSeq(c *hlib.Ctx, n int) {
	for i := 0; i < n; i++ {
		p, _ := genPoly(c, 10)
		if c.Rng.Intn(2) == 0 {
			p = reversed(p)
		}
		p = rotated(p, c.Rng.Intn(len(p)))
		r := &region{den: randDen(c), loops: [][]ipt{p}}
		switch c.Rng.Intn(3) {
		case 0:
			r.sc = pickDyadic(c.Rng)
		case 1:
			r.sc = farPlaced(c.Rng, r, farMinBits, farMaxBitsEar).sc
		}
		c.Stat("earseq.scale."+r.sc.name(), 1)
		poly := make([]model2d.Coord, len(p))
		for j, v := range p {
			poly[j] = r.coord(v)
		}
		res := call2d(r, func() [][3]model2d.Coord { return model2d.Triangulate(poly) })
		impl := "panic"
		if res.fail == "" {
			impl = trisField(res.tris)
		} else if res.fail == "timeout" {
			impl = "timeout"
		}
		c.Stat("earseq.cases", 1)
		c.EmitSite("c14 earseq "+r.header(), impl, "corr:c14 earseq (model validation)")
	}
}

// ---------------------------------------------------------------------------
// planar 3-D faces: exact lattice embeddings of 2-D polygons

type emb3 struct {
	name string
	f    func(p ipt) [3]int64
}

func embeddings(r interface{ Int63n(int64) int64 }) []emb3 {
	tx, ty, tz := r.Int63n(21)-10, r.Int63n(21)-10, r.Int63n(21)-10
	return []emb3{
		{"xy", func(p ipt) [3]int64 { return [3]int64{p.x + tx, p.y + ty, tz} }},
		{"yz", func(p ipt) [3]int64 { return [3]int64{tx, p.x + ty, p.y + tz} }},
		{"zx", func(p ipt) [3]int64 { return [3]int64{p.y + tx, ty, p.x + tz} }},
		{"yx", func(p ipt) [3]int64 { return [3]int64{p.y + tx, p.x + ty, tz} }},
		// lattice-affine tilted planes (not rigid, but exact affine bijections of the plane
		// onto a plane in space: simple stays simple, area ratios preserved)
		{"tilt1", func(p ipt) [3]int64 { return [3]int64{p.x + tx, p.y + ty, p.x + p.y + tz} }},
		{"tilt2", func(p ipt) [3]int64 { return [3]int64{p.x + tx, p.x + p.y + ty, p.y - p.x + tz} }},
		{"tilt3", func(p ipt) [3]int64 { return [3]int64{2*p.x - p.y + tx, p.y + ty, 3*p.x + 2*p.y + tz} }},
		// exact rotation by the Pythagorean angle (3,4,5) about x followed by scaling by 5
		{"pyth", func(p ipt) [3]int64 { return [3]int64{5*p.x + tx, 3*p.y + ty, 4*p.y + tz} }},
		randomEmbedding(r, tx, ty, tz),
	}
}

// randomEmbedding: p -> p.x·u + p.y·w + t for random integer vectors u, w (entries in [-6, 6], not
// parallel): an exact affine bijection of the plane onto a plane of space in "generic" position
// (simple stays simple, colinear stays colinear, area ratios preserved; M3d.C14.orient_affine).
// Nothing is axis-parallel, so every normalisation / projection inside TriangulateFace rounds.
func randomEmbedding(r interface{ Int63n(int64) int64 }, tx, ty, tz int64) emb3 {
	for {
		var u, w [3]int64
		for a := 0; a < 3; a++ {
			u[a], w[a] = r.Int63n(13)-6, r.Int63n(13)-6
		}
		cx, cy, cz := u[1]*w[2]-u[2]*w[1], u[2]*w[0]-u[0]*w[2], u[0]*w[1]-u[1]*w[0]
		if cx == 0 && cy == 0 && cz == 0 {
			continue
		}
		return emb3{"rand", func(p ipt) [3]int64 {
			return [3]int64{p.x*u[0] + p.y*w[0] + tx, p.x*u[1] + p.y*w[1] + ty, p.x*u[2] + p.y*w[2] + tz}
		}}
	}
}

func runFace(c *hlib.Ctx, n int) {
	for i := 0; i < n; i++ {
		p, fam := genPoly(c, 10)
		if c.Rng.Intn(4) == 0 {
			// a quarter of the faces are quads / pentagons (by far the most common face types of
			// polygonal files), convex and concave
			for {
				p, fam = gen2opt(c.Rng, 1+c.Rng.Int63n(12), 4+c.Rng.Intn(2)), "quad-pent"
				if c.Rng.Intn(3) == 0 {
					p, fam = genDart(c.Rng), "dart"
				}
				if isSimple(p) {
					break
				}
			}
		}
		c.Stat("face.family."+fam, 1)
		if c.Rng.Intn(2) == 0 {
			p = reversed(p)
		}
		p = rotated(p, c.Rng.Intn(len(p)))
		den := randDen(c)
		es := embeddings(c.Rng)
		ei := c.Rng.Intn(len(es))
		// placement in another unit of length (half of the cases).  A non-dyadic factor rounds every
		// coordinate, which keeps the face exactly planar only in the axis-parallel embeddings (one
		// coordinate constant), and needs the polygon in general position (see scale.go).
		var sc scaleSpec
		if c.Rng.Intn(2) == 0 {
			sc = pickScale(c.Rng, ei < 4)
			if sc.f != 0 {
				j := jitterGeneral(c.Rng, [][]ipt{p}, false)
				if j == nil {
					sc = pickDyadic(c.Rng)
				} else {
					p = j[0]
				}
			}
		}
		e := es[ei]
		// far placement in space (a third of the exactly representable cases): the lattice integers
		// are shifted by up to 2^44 lattice units per axis; still exact in float64 (< 2^53), so the
		// face is exactly the translated planar simple polygon
		var far [3]int64
		if sc.f == 0 && c.Rng.Intn(3) == 0 {
			far = pickFar3(c)
		}
		emitFace(c, "face", p, den, e, sc, far, c.Rng.Intn(4) == 0)
	}
}

// runFaceRun: planar faces whose vertex list STARTS INSIDE OR AT A COLINEAR RUN: an edge of the face
// carries extra vertices (what T-junction removal, edge subdivision and polygonal exporters produce),
// and the list starts at the first vertex of that edge (polygon[0], polygon[1], polygon[2] exactly
// colinear: the vertices TriangulateFace builds its chart from), at one of the extra vertices, or at
// its last vertex.  The planes are lattice-affine images (half of them random, see randomEmbedding), so
// the input is EXACTLY planar and EXACTLY colinear where it claims to be, while every intermediate
// result of TriangulateFace (normalised first edge, the residual of a colinear vertex after
// ProjectOut: pure rounding noise of length ~1e-16 instead of 0) is rounded.  Same op lines / driver
// as `face` and `off`.
func runFaceRun(c *hlib.Ctx, n int) {
	r := c.Rng
	for i := 0; i < n; i++ {
		var p []ipt
		var fam string
		for {
			p, fam = genPoly(c, 8)
			if r.Intn(4) == 0 {
				p, fam = gen2opt(r, 1+r.Int63n(12), 3+r.Intn(3)), "tri-quad-pent"
				if !isSimple(p) {
					continue
				}
			}
			if len(p) <= 24 {
				break
			}
		}
		if r.Intn(2) == 0 {
			p = reversed(p)
		}
		// start at a vertex whose outgoing edge is a genuine edge (no straight vertex at its ends is
		// required, any edge will do), refine the lattice by m and put 1 … m-1 extra vertices on it;
		// now and then also on other edges
		p = rotated(p, r.Intn(len(p)))
		m := int64(2 + r.Intn(4))
		var q []ipt
		for j := range p {
			a := ipt{p[j].x * m, p[j].y * m}
			b := ipt{p[(j+1)%len(p)].x * m, p[(j+1)%len(p)].y * m}
			q = append(q, a)
			if j == 0 || r.Intn(5) == 0 {
				any := false
				for t := int64(1); t < m; t++ {
					if r.Intn(2) == 0 || (t == m-1 && !any && j == 0) {
						q = append(q, ipt{a.x + (b.x-a.x)/m*t, a.y + (b.y-a.y)/m*t})
						any = true
					}
				}
			}
		}
		// q[0], q[1], q[2] are colinear (q[1] is an extra vertex of the first edge)
		if orient(q[0], q[1], q[2]) != 0 || !isSimple(q) {
			panic("runFaceRun: generator broken")
		}
		switch r.Intn(6) {
		case 0: // start at an extra vertex: q[n-1], q[0], q[1] colinear
			q = rotated(q, 1)
			c.Stat("facerun.start.inside-run", 1)
		case 1: // the run ends at the start vertex: the LAST vertices are colinear with the first
			k := 2
			for orient(q[0], q[1], q[k]) == 0 {
				k++
			}
			q = rotated(q, k-1)
			c.Stat("facerun.start.end-of-run", 1)
		default:
			c.Stat("facerun.start.first-three-colinear", 1)
		}
		c.Stat("facerun.family."+fam, 1)
		den := randDen(c)
		es := embeddings(r)
		var e emb3
		switch r.Intn(4) {
		case 0:
			e = es[r.Intn(len(es))]
		case 1:
			e = es[4+r.Intn(len(es)-4)] // tilted
		default:
			e = es[len(es)-1] // random plane
		}
		var sc scaleSpec
		if r.Intn(3) == 0 {
			sc = pickDyadic(r)
		}
		var far [3]int64
		if r.Intn(4) == 0 {
			far = pickFar3(c)
		}
		emitFace(c, "facerun", q, den, e, sc, far, r.Intn(4) == 0)
	}
}

func pickFar3(c *hlib.Ctx) [3]int64 {
	fx, fy := pickFar(c.Rng, farMinBits, farMaxBitsEar)
	fz, _ := pickFar(c.Rng, farMinBits, farMaxBitsEar)
	return [3]int64{fx, fy, fz}
}

// emitFace: one `face` / `off` case.  The lattice polygon p (coordinates /den) is embedded in space by
// the exact lattice-affine map e, translated by the whole-number vector far, put in the unit sc, and
// given to TriangulateFace (or, viaOff, written as a one-face OFF file and read by ReadOFF).  stat is
// the prefix of the distribution counters.
func emitFace(c *hlib.Ctx, stat string, p []ipt, den int64, e emb3, sc scaleSpec, far [3]int64, viaOff bool) {
	c.Stat(stat+".emb."+e.name, 1)
	c.Stat(stat+".scale."+sc.name(), 1)
	if far != [3]int64{} {
		c.Stat(stat+".far", 1)
	}
	pts := make([][3]int64, len(p))
	poly := make([]model3d.Coord3D, len(p))
	ids := map[model3d.Coord3D]int{}
	var vals []float64
	for j, q := range p {
		pts[j] = e.f(q)
		for a := 0; a < 3; a++ {
			pts[j][a] += far[a]
		}
		poly[j] = model3d.XYZ(sc.apply(float64(pts[j][0])/float64(den)), sc.apply(float64(pts[j][1])/float64(den)),
			sc.apply(float64(pts[j][2])/float64(den)))
		ids[poly[j]] = j
		vals = append(vals, poly[j].X, poly[j].Y, poly[j].Z)
	}
	var out []*model3d.Triangle
	kind := "face"
	var fail string
	if viaOff {
		// the same face as the single polygon of an OFF file, through ReadOFF (vertex table in
		// a random order, shortest round-tripping decimal representation of every float64)
		kind = "off"
		perm := c.Rng.Perm(len(poly))
		inv := make([]int, len(poly))
		var off strings.Builder
		fmt.Fprintf(&off, "OFF\n%d 1 0\n", len(poly))
		for pos, j := range perm {
			inv[j] = pos
			fmt.Fprintf(&off, "%s %s %s\n", strconv.FormatFloat(poly[j].X, 'g', -1, 64),
				strconv.FormatFloat(poly[j].Y, 'g', -1, 64), strconv.FormatFloat(poly[j].Z, 'g', -1, 64))
		}
		fmt.Fprintf(&off, "%d", len(poly))
		for j := range poly {
			fmt.Fprintf(&off, " %d", inv[j])
		}
		off.WriteString("\n")
		text := off.String()
		fail = guarded(func() string {
			ts, err := model3d.ReadOFF(strings.NewReader(text))
			if err != nil {
				return "error"
			}
			out = ts
			return ""
		})
	} else {
		fail = guarded(func() string { out = model3d.TriangulateFace(poly); return "" })
	}
	c.Stat(stat+".via."+kind, 1)
	var sb strings.Builder
	if sc.f != 0 {
		// the rounded float64 coordinates, exactly
		d, ints := exactInts(vals)
		fmt.Fprintf(&sb, "c14 %s D %s P %d", kind, d.String(), len(p))
		for _, v := range ints {
			fmt.Fprintf(&sb, " %s", v.String())
		}
	} else {
		sb.WriteString("c14 " + kind + " ")
		if sc.k != 0 {
			fmt.Fprintf(&sb, "S %d ", sc.k)
		}
		fmt.Fprintf(&sb, "D %d P %d", den, len(p))
		for _, q := range pts {
			fmt.Fprintf(&sb, " %d %d %d", q[0], q[1], q[2])
		}
	}
	impl := fail
	if fail != "" {
		sb.WriteString(" T x")
	} else {
		foreign := false
		tris := make([]itri, len(out))
		for j, t := range out {
			for k := 0; k < 3; k++ {
				id, ok := ids[t[k]]
				if !ok {
					foreign = true
					id = -1
				}
				tris[j][k] = id
			}
		}
		if foreign {
			sb.WriteString(" T f")
			impl = "foreign-vertex"
			c.Stat(stat+".foreign", 1)
		} else {
			sb.WriteString(" " + trisField(canonTris(tris, false)))
			impl = fmt.Sprintf("ok n=%d", len(tris))
		}
	}
	c.Stat(stat+".cases", 1)
	c.Emit(sb.String(), impl)
}

// ---------------------------------------------------------------------------
// ProfileMesh: closed manifold, volume = area * height

// pickZ: the extrusion range.  mode 0: lattice values z/den in the region's unit (as the outline's
// coordinates); mode 1: decimal values as a user types them (-0.7, 0.1, -12.5 …); mode 2: arbitrary
// float64 values with full mantissas.  Half of the non-lattice ranges are mirrored to lie mostly
// below zero.  minZ < maxZ always.  Non-lattice ranges are written exactly (`ZQ num/den num/den`).
func pickZ(c *hlib.Ctx, r *region) (fz0, fz1 float64, lattice bool, z0, z1 int64) {
	rng := c.Rng
	mode := rng.Intn(3)
	if mode == 0 {
		z0 = rng.Int63n(17) - 8
		z1 = z0 + 1 + rng.Int63n(9)
		c.Stat("profile.z.lattice", 1)
		return r.sc.apply(float64(z0) / float64(r.den)), r.sc.apply(float64(z1) / float64(r.den)), true, z0, z1
	}
	for {
		var a, b float64
		if mode == 1 {
			dec := func() float64 {
				d := []float64{10, 100, 1000}[rng.Intn(3)]
				return float64(rng.Int63n(int64(15*d))-int64(5*d)) / d
			}
			a, b = dec(), dec()
		} else {
			rnd := func() float64 {
				v := math.Ldexp(1+rng.Float64(), rng.Intn(13)-8)
				if rng.Intn(2) == 0 {
					v = -v
				}
				return v
			}
			a, b = rnd(), rnd()
		}
		if a == b {
			continue
		}
		if a > b {
			a, b = b, a
		}
		if rng.Intn(2) == 0 && math.Abs(a) < math.Abs(b) {
			a, b = -b, -a
		}
		if mode == 1 {
			c.Stat("profile.z.decimal", 1)
		} else {
			c.Stat("profile.z.float", 1)
		}
		if a+(b-a) != b {
			c.Stat("profile.z.roundtrip-inexact", 1)
		}
		return a, b, false, 0, 0
	}
}

func runProfile(c *hlib.Ctx, n int) {
	for i := 0; i < n; i++ {
		r := genRegion(c, 1+c.Rng.Intn(4))
		switch c.Rng.Intn(4) {
		case 0, 1:
			r = placed(c.Rng, r, true, true)
		case 2:
			if fr := farPlacedSweep(c.Rng, r, farMinBits, farMaxBitsMesh); fr != nil {
				r = fr
			} else {
				c.Stat("far.skipped-small-clearance", 1)
			}
		}
		c.Stat("profile.scale."+r.sc.name(), 1)
		fz0, fz1, lattice, z0, z1 := pickZ(c, r)
		m2 := r.mesh()
		ids := r.ids()
		var tris []itri
		fail := guarded(func() string {
			m := model3d.ProfileMesh(m2, fz0, fz1)
			foreign, offCaps := false, 0
			var offZ float64
			m.Iterate(func(t *model3d.Triangle) {
				var it itri
				for k := 0; k < 3; k++ {
					id, ok := ids[model2d.XY(t[k].X, t[k].Y)]
					if !ok {
						foreign = true
						continue
					}
					if t[k].Z != fz0 && t[k].Z != fz1 {
						offCaps++
						offZ = t[k].Z
						continue
					}
					it[k] = 2 * id
					if t[k].Z == fz1 {
						it[k]++
					}
				}
				tris = append(tris, it)
			})
			if foreign {
				return "foreign-vertex"
			}
			if offCaps > 0 {
				// vertices that are neither at minZ nor at maxZ: report them together with the number of
				// directed edges of the real mesh that have no opposite (exact Coord3D comparison)
				type de [2]model3d.Coord3D
				cnt := map[de]int{}
				m.Iterate(func(t *model3d.Triangle) {
					for k := 0; k < 3; k++ {
						cnt[de{t[k], t[(k+1)%3]}]++
					}
				})
				open := 0
				for e, k := range cnt {
					if cnt[de{e[1], e[0]}] != k {
						open++
					}
				}
				return fmt.Sprintf("vertex-off-caps corners=%d z=%s unmatched-directed-edges=%d", offCaps, hlib.Hex(offZ), open)
			}
			return ""
		})
		c.Stat("profile.cases", 1)
		var op string
		switch {
		case r.sc.f != 0:
			op = fmt.Sprintf("c14 profile %s ", r.headerZ([]float64{fz0, fz1}))
		case lattice:
			op = fmt.Sprintf("c14 profile %s Z %d %d ", r.header(), z0, z1)
		default:
			op = fmt.Sprintf("c14 profile %s ZQ %s %s ", r.header(),
				showRatFull(new(big.Rat).SetFloat64(fz0)), showRatFull(new(big.Rat).SetFloat64(fz1)))
		}
		if fail != "" {
			c.Stat("profile.fail", 1)
			if strings.HasPrefix(fail, "vertex-off-caps") || fail == "foreign-vertex" {
				c.Emit(op+"T f", fail)
			} else {
				c.Emit(op+"T x", fail)
			}
			continue
		}
		tris = canonTris(tris, true)
		// exact signed volume of the real soup on the float64 inputs: Σ det(a,b,c)/6 in Q
		ex := r.exactPts()
		q0, q1 := new(big.Rat).SetFloat64(fz0), new(big.Rat).SetFloat64(fz1)
		p3 := func(id int) [3]*big.Rat {
			z := q0
			if id%2 == 1 {
				z = q1
			}
			return [3]*big.Rat{ex[id/2][0], ex[id/2][1], z}
		}
		mul := func(a, b *big.Rat) *big.Rat { return new(big.Rat).Mul(a, b) }
		sub := func(a, b *big.Rat) *big.Rat { return new(big.Rat).Sub(a, b) }
		s := new(big.Rat)
		for _, t := range tris {
			a, b, cc := p3(t[0]), p3(t[1]), p3(t[2])
			s.Add(s, mul(a[0], sub(mul(b[1], cc[2]), mul(b[2], cc[1]))))
			s.Sub(s, mul(a[1], sub(mul(b[0], cc[2]), mul(b[2], cc[0]))))
			s.Add(s, mul(a[2], sub(mul(b[0], cc[1]), mul(b[1], cc[0]))))
		}
		vol := s.Quo(s, big.NewRat(6, 1))
		c.Emit(op+trisField(tris), fmt.Sprintf("ok vol=%s n=%d", showRatFull(vol), len(tris)))
	}
}
