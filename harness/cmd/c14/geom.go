package main

import (
	"math"
	"math/rand"
	"sort"
)

// Integer lattice geometry: a polygon is a cyclic list of lattice points, the real
// coordinate of a point is (x/den, y/den) for a power-of-two den, so every coordinate is a
// dyadic rational and exactly representable as float64.

type ipt struct{ x, y int64 }

func orient(a, b, c ipt) int64 {
	return (b.x-a.x)*(c.y-a.y) - (b.y-a.y)*(c.x-a.x)
}

func sgn(v int64) int {
	if v > 0 {
		return 1
	} else if v < 0 {
		return -1
	}
	return 0
}

func onSeg(a, b, p ipt) bool { // p on closed segment ab
	if orient(a, b, p) != 0 {
		return false
	}
	return min64(a.x, b.x) <= p.x && p.x <= max64(a.x, b.x) && min64(a.y, b.y) <= p.y && p.y <= max64(a.y, b.y)
}

func min64(a, b int64) int64 {
	if a < b {
		return a
	}
	return b
}
func max64(a, b int64) int64 {
	if a > b {
		return a
	}
	return b
}

// closed segments share a point
func segsTouch(a, b, c, d ipt) bool {
	o1, o2 := sgn(orient(a, b, c)), sgn(orient(a, b, d))
	o3, o4 := sgn(orient(c, d, a)), sgn(orient(c, d, b))
	if o1*o2 < 0 && o3*o4 < 0 {
		return true
	}
	return onSeg(a, b, c) || onSeg(a, b, d) || onSeg(c, d, a) || onSeg(c, d, b)
}

// proper crossing (interiors cross) – used by 2-opt
func segsCross(a, b, c, d ipt) bool {
	o1, o2 := sgn(orient(a, b, c)), sgn(orient(a, b, d))
	o3, o4 := sgn(orient(c, d, a)), sgn(orient(c, d, b))
	return o1*o2 < 0 && o3*o4 < 0
}

// isSimple: strictly simple closed polygon: distinct vertices, non-adjacent edges disjoint,
// adjacent edges meet only in their common end point (no spikes).  Straight (colinear, forward)
// vertices are allowed.
func isSimple(p []ipt) bool {
	n := len(p)
	if n < 3 {
		return false
	}
	seen := map[ipt]bool{}
	for _, q := range p {
		if seen[q] {
			return false
		}
		seen[q] = true
	}
	for i := 0; i < n; i++ {
		a, b, c := p[i], p[(i+1)%n], p[(i+2)%n]
		if orient(a, b, c) == 0 {
			// must go forward: b strictly between a and c
			if !(onSeg(a, c, b)) {
				return false
			}
		}
	}
	if n == 3 {
		return orient(p[0], p[1], p[2]) != 0
	}
	for i := 0; i < n; i++ {
		for j := i + 2; j < n; j++ {
			if i == 0 && j == n-1 {
				continue
			}
			if segsTouch(p[i], p[(i+1)%n], p[j], p[(j+1)%n]) {
				return false
			}
		}
	}
	return area2(p) != 0
}

// twice the signed area (counter-clockwise positive)
func area2(p []ipt) int64 {
	var s int64
	for i := range p {
		a, b := p[i], p[(i+1)%len(p)]
		s += a.x*b.y - a.y*b.x
	}
	return s
}

// point strictly inside simple polygon (false if on the boundary)
func insideStrict(p []ipt, q ipt) bool {
	n := len(p)
	in := false
	for i := 0; i < n; i++ {
		a, b := p[i], p[(i+1)%n]
		if onSeg(a, b, q) {
			return false
		}
		if (a.y <= q.y) != (b.y <= q.y) {
			o := orient(a, b, q)
			if b.y > a.y {
				if o > 0 {
					in = !in
				}
			} else if o < 0 {
				in = !in
			}
		}
	}
	return in
}

// polygon a strictly inside polygon b (boundaries disjoint)
func polyInside(a, b []ipt) bool {
	for _, q := range a {
		if !insideStrict(b, q) {
			return false
		}
	}
	return !boundariesTouch(a, b)
}

func boundariesTouch(a, b []ipt) bool {
	for i := range a {
		for j := range b {
			if segsTouch(a[i], a[(i+1)%len(a)], b[j], b[(j+1)%len(b)]) {
				return true
			}
		}
	}
	return false
}

func reversed(p []ipt) []ipt {
	r := make([]ipt, len(p))
	for i, q := range p {
		r[len(p)-1-i] = q
	}
	return r
}

func rotated(p []ipt, k int) []ipt {
	r := make([]ipt, 0, len(p))
	r = append(r, p[k:]...)
	r = append(r, p[:k]...)
	return r
}

func makeCW(p []ipt) []ipt {
	if area2(p) > 0 {
		return reversed(p)
	}
	return p
}
func makeCCW(p []ipt) []ipt {
	if area2(p) < 0 {
		return reversed(p)
	}
	return p
}

func mapPts(p []ipt, f func(ipt) ipt) []ipt {
	r := make([]ipt, len(p))
	for i, q := range p {
		r[i] = f(q)
	}
	return r
}

// ---------------------------------------------------------------------------
// generators (all return a strictly simple polygon or nil)

func genConvex(r *rand.Rand, span int64, k int) []ipt {
	pts := make([]ipt, 0, k)
	for i := 0; i < k; i++ {
		pts = append(pts, ipt{r.Int63n(2*span+1) - span, r.Int63n(2*span+1) - span})
	}
	return hull(pts)
}

func hull(pts []ipt) []ipt {
	sort.Slice(pts, func(i, j int) bool {
		if pts[i].x != pts[j].x {
			return pts[i].x < pts[j].x
		}
		return pts[i].y < pts[j].y
	})
	var u []ipt
	for _, p := range pts {
		if len(u) > 0 && u[len(u)-1] == p {
			continue
		}
		u = append(u, p)
	}
	pts = u
	if len(pts) < 3 {
		return nil
	}
	var h []ipt
	for _, p := range pts {
		for len(h) >= 2 && orient(h[len(h)-2], h[len(h)-1], p) <= 0 {
			h = h[:len(h)-1]
		}
		h = append(h, p)
	}
	lo := len(h) + 1
	for i := len(pts) - 2; i >= 0; i-- {
		p := pts[i]
		for len(h) >= lo && orient(h[len(h)-2], h[len(h)-1], p) <= 0 {
			h = h[:len(h)-1]
		}
		h = append(h, p)
	}
	h = h[:len(h)-1]
	if len(h) < 3 {
		return nil
	}
	return h
}

func genStar(r *rand.Rand, span int64, k int) []ipt {
	angles := make([]float64, k)
	for i := range angles {
		angles[i] = r.Float64() * 2 * math.Pi
	}
	sort.Float64s(angles)
	p := make([]ipt, 0, k)
	for _, a := range angles {
		rad := float64(span) * (0.15 + 0.85*r.Float64())
		if r.Intn(3) == 0 {
			rad = float64(span) * 0.2
		}
		p = append(p, ipt{int64(math.Round(rad * math.Cos(a))), int64(math.Round(rad * math.Sin(a)))})
	}
	return p
}

// spiral: a band following a polygonal spiral
func genSpiral(r *rand.Rand, span int64, turns int) []ipt {
	steps := 6 + r.Intn(6) // per turn
	total := turns * steps
	var outer, inner []ipt
	rot := r.Float64() * 2 * math.Pi
	for i := 0; i <= total; i++ {
		t := float64(i) / float64(total)
		a := rot + 2*math.Pi*float64(i)/float64(steps)
		rad := float64(span) * (1 - 0.8*t)
		w := float64(span) * 0.8 / float64(turns) * 0.45
		outer = append(outer, ipt{int64(math.Round(rad * math.Cos(a))), int64(math.Round(rad * math.Sin(a)))})
		inner = append(inner, ipt{int64(math.Round((rad - w) * math.Cos(a))), int64(math.Round((rad - w) * math.Sin(a)))})
	}
	p := append([]ipt{}, outer...)
	p = append(p, reversed(inner)...)
	return p
}

// rectilinear spiral
func genRectSpiral(r *rand.Rand, arms int) []ipt {
	// centre line spiral with unit thickness, built on a grid of step 2
	var outer, inner []ipt
	x, y := int64(0), int64(0)
	dirs := []ipt{{1, 0}, {0, 1}, {-1, 0}, {0, -1}}
	l := int64(2 * (arms + 2))
	outer = append(outer, ipt{x, y})
	inner = append(inner, ipt{x + 1, y + 1})
	for i := 0; i < arms; i++ {
		d := dirs[i%4]
		x += d.x * l
		y += d.y * l
		outer = append(outer, ipt{x, y})
		nd := dirs[(i+1)%4]
		// inner offset: inside is to the left of travel (ccw spiral)
		inner = append(inner, ipt{x - d.x + nd.x, y - d.y + nd.y})
		if i%2 == 1 || i == 0 {
			l -= 2
		}
		if l < 2 {
			break
		}
	}
	// cap the end
	p := append([]ipt{}, outer...)
	p = append(p, reversed(inner)...)
	return p
}

func genComb(r *rand.Rand, teeth int, rect bool) []ipt {
	var p []ipt
	w := int64(2 + r.Intn(3))
	p = append(p, ipt{0, 0})
	p = append(p, ipt{int64(teeth)*2*w + w, 0})
	base := int64(2 + r.Intn(3))
	for i := teeth - 1; i >= 0; i-- {
		h := base + 1 + int64(r.Intn(8))
		x0 := int64(i) * 2 * w
		if rect {
			p = append(p, ipt{x0 + 2*w + w, base}, ipt{x0 + 2*w, base}, ipt{x0 + 2*w, h}, ipt{x0 + w, h})
			if i == 0 {
				p = append(p, ipt{x0 + w, base})
			}
		} else {
			p = append(p, ipt{x0 + 2*w, base}, ipt{x0 + w + int64(r.Intn(int(w))), h})
		}
	}
	if rect {
		p = append(p, ipt{0, base})
	} else {
		p = append(p, ipt{0, base})
	}
	return dedupConsecutive(p)
}

func dedupConsecutive(p []ipt) []ipt {
	var r []ipt
	for i, q := range p {
		if i > 0 && r[len(r)-1] == q {
			continue
		}
		r = append(r, q)
	}
	if len(r) > 1 && r[0] == r[len(r)-1] {
		r = r[:len(r)-1]
	}
	return r
}

func genStaircase(r *rand.Rand, steps int) []ipt {
	var p []ipt
	x, y := int64(0), int64(0)
	p = append(p, ipt{x, y})
	for i := 0; i < steps; i++ {
		x += 1 + int64(r.Intn(3))
		p = append(p, ipt{x, y})
		y += 1 + int64(r.Intn(3))
		p = append(p, ipt{x, y})
	}
	switch r.Intn(3) {
	case 0:
		p = append(p, ipt{0, y})
	case 1:
		// second staircase back
		for x > 2 && y > 2 && len(p) < 4*steps {
			y += 1
			p = append(p, ipt{x, y})
			x -= 1 + int64(r.Intn(2))
			p = append(p, ipt{x, y})
			if x <= 1 {
				break
			}
		}
		p = append(p, ipt{-1, y}, ipt{-1, 0})
	default:
		p = append(p, ipt{-1 - int64(r.Intn(3)), y + int64(r.Intn(3))})
	}
	return dedupConsecutive(p)
}

// random simple polygon by 2-opt untangling of a random permutation of random points
func gen2opt(r *rand.Rand, span int64, k int) []ipt {
	seen := map[ipt]bool{}
	var p []ipt
	for len(p) < k {
		q := ipt{r.Int63n(2*span+1) - span, r.Int63n(2*span+1) - span}
		if !seen[q] {
			seen[q] = true
			p = append(p, q)
		}
	}
	n := len(p)
	for iter := 0; iter < 10000; iter++ {
		found := false
		for i := 0; i < n && !found; i++ {
			for j := i + 2; j < n && !found; j++ {
				if i == 0 && j == n-1 {
					continue
				}
				if segsCross(p[i], p[(i+1)%n], p[j], p[(j+1)%n]) {
					// reverse p[i+1..j]
					for a, b := i+1, j; a < b; a, b = a+1, b-1 {
						p[a], p[b] = p[b], p[a]
					}
					found = true
				}
			}
		}
		if !found {
			break
		}
	}
	return p
}

// genDart: a concave quadrilateral (arrow head): tip, right wing, notch, left wing.  Narrow darts
// (wing tips closer together than tip and notch) and wide ones alike; the only diagonal inside the
// quadrilateral is the one through the notch.
func genDart(r *rand.Rand) []ipt {
	w1, w2 := 1+r.Int63n(5), 1+r.Int63n(5)
	d := 1 + r.Int63n(6)
	h := d + 1 + r.Int63n(24)
	y1, y2 := r.Int63n(d), r.Int63n(d)
	return []ipt{{0, h}, {w1, y1}, {0, d}, {-w2, y2}}
}

// random polygon grown by splitting edges (many reflex vertices)
func genGrow(r *rand.Rand, span int64, k int) []ipt {
	p := genConvex(r, span, 3+r.Intn(3))
	if p == nil {
		return nil
	}
	for tries := 0; len(p) < k && tries < 40*k; tries++ {
		i := r.Intn(len(p))
		a, b := p[i], p[(i+1)%len(p)]
		m := ipt{(a.x+b.x)/2 + r.Int63n(span+1) - span/2, (a.y+b.y)/2 + r.Int63n(span+1) - span/2}
		q := append([]ipt{}, p[:i+1]...)
		q = append(q, m)
		q = append(q, p[i+1:]...)
		if isSimple(q) {
			p = q
		}
	}
	return p
}

// zig-zag sliver: nearly colinear vertices (|orient| small)
func genSliver(r *rand.Rand, k int) []ipt {
	var top, bot []ipt
	x := int64(0)
	for i := 0; i < k; i++ {
		x += 3 + int64(r.Intn(40))
		top = append(top, ipt{x, 2 + int64(r.Intn(2))})
		bot = append(bot, ipt{x + int64(r.Intn(3)) - 1, int64(r.Intn(2))})
	}
	p := append([]ipt{{0, 1}}, bot...)
	p = append(p, ipt{x + 5, 1})
	p = append(p, reversed(top)...)
	// random shear keeps it thin but tilts it
	s := int64(r.Intn(5) - 2)
	return mapPts(p, func(q ipt) ipt { return ipt{q.x, q.y + s*q.x} })
}

// subdivide edges with lattice points (colinear runs); scales the polygon by m first
func subdivide(r *rand.Rand, p []ipt, m int64, prob float64) []ipt {
	var res []ipt
	n := len(p)
	for i := 0; i < n; i++ {
		a := ipt{p[i].x * m, p[i].y * m}
		b := ipt{p[(i+1)%n].x * m, p[(i+1)%n].y * m}
		res = append(res, a)
		if r.Float64() < prob {
			// choose a subset of the m-1 interior lattice points
			for t := int64(1); t < m; t++ {
				if r.Intn(2) == 0 {
					res = append(res, ipt{a.x + (b.x-a.x)/m*t, a.y + (b.y-a.y)/m*t})
				}
			}
		}
	}
	return res
}

// x-monotone polygon with distinct x; returns polygon clockwise (upper chain left to right)
func genMonotone(r *rand.Rand, k int, span int64, colinearOK bool) []ipt {
	xs := r.Perm(int(4*k + 4))[:k]
	sort.Ints(xs)
	var upper, lower []ipt
	first := ipt{int64(xs[0]), r.Int63n(2*span+1) - span}
	last := ipt{int64(xs[k-1]), r.Int63n(2*span+1) - span}
	for _, x := range xs[1 : k-1] {
		// keep upper chain strictly above the line first-last ... simple approach: above/below a
		// separating line y = first.y + slope(x)
		t := float64(int64(x)-first.x) / float64(last.x-first.x)
		mid := float64(first.y) + t*float64(last.y-first.y)
		if r.Intn(2) == 0 {
			y := int64(math.Floor(mid)) + 1 + r.Int63n(span+1)
			upper = append(upper, ipt{int64(x), y})
		} else {
			y := int64(math.Ceil(mid)) - 1 - r.Int63n(span+1)
			lower = append(lower, ipt{int64(x), y})
		}
	}
	p := []ipt{first}
	p = append(p, upper...)
	p = append(p, last)
	p = append(p, reversed(lower)...)
	if len(p) < 3 {
		return nil
	}
	if !colinearOK {
		n := len(p)
		for i := 0; i < n; i++ {
			if orient(p[(i+n-1)%n], p[i], p[(i+1)%n]) == 0 {
				return nil
			}
		}
	}
	return p
}

// ---------------------------------------------------------------------------
// rigid lattice maps

type rigid struct {
	name string
	f    func(ipt) ipt
	flip bool // orientation reversing
}

func rigids(r *rand.Rand) []rigid {
	tx, ty := r.Int63n(41)-20, r.Int63n(41)-20
	return []rigid{
		{"id", func(p ipt) ipt { return p }, false},
		{"r90", func(p ipt) ipt { return ipt{-p.y, p.x} }, false},
		{"r180", func(p ipt) ipt { return ipt{-p.x, -p.y} }, false},
		{"r270", func(p ipt) ipt { return ipt{p.y, -p.x} }, false},
		{"tr", func(p ipt) ipt { return ipt{p.x + tx, p.y + ty} }, false},
		{"mx", func(p ipt) ipt { return ipt{-p.x, p.y} }, true},
		{"my", func(p ipt) ipt { return ipt{p.x, -p.y} }, true},
		{"sw", func(p ipt) ipt { return ipt{p.y, p.x} }, true},
		{"r90tr", func(p ipt) ipt { return ipt{-p.y + tx, p.x + ty} }, false},
		// exact rotations by Pythagorean angles (composed with the scaling by the hypotenuse, which the
		// lattice absorbs: similarity maps, cert_similarity_invariant): rectilinear outlines and colinear
		// runs stay exactly rectilinear / colinear but are no longer parallel to the axes
		{"pyth345", func(p ipt) ipt { return ipt{3*p.x - 4*p.y + tx, 4*p.x + 3*p.y + ty} }, false},
		{"pyth51213", func(p ipt) ipt { return ipt{12*p.x + 5*p.y, -5*p.x + 12*p.y} }, false},
		{"pyth345mx", func(p ipt) ipt { return ipt{-(3*p.x - 4*p.y), 4*p.x + 3*p.y} }, true},
	}
}
