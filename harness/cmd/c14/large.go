package main

// large.go: polygons with MANY vertices (56 … 270), kinds `ear` (model2d.Triangulate), `ear3`
// (model3d.Triangulate, the wrapper TriangulateFace and ReadOFF go through), `face`, `off`.
//
// The other families stop at about 40 vertices (ear clipping is cubic, the certificates quadratic),
// so a code path selected by the SIZE of the polygon (a faster algorithm for "large" inputs behind a
// threshold such as 64, 128 or 256 vertices) was never executed.  The property quantifies over all
// simple polygons, "any vertex order and starting vertex": this family produces outlines of every
// shape class with sizes drawn around the powers of two, and lists each of them
//   - starting so that the SECOND vertex of the list is a reflex corner, a convex corner, a straight
//     (colinear) vertex where the outline has one, and at a random vertex,
//   - in both orders (clockwise and counter-clockwise),
// so that any decision derived from a few leading vertices instead of the whole outline (orientation
// from one turn, chart from one corner, …) meets both of its cases in every run.
//
// SOUNDNESS (the documented tolerances of Triangulate must not fire): every base polygon lies in a
// lattice box with W·H ≤ 4e6 and W²+H² ≤ 1e7.  Barycentric coordinates of a lattice point in a
// lattice triangle are multiples of 1/|det| ≥ 1/(W·H) ≥ 2.5e-7, so no vertex is within (0, 1e-8)
// beyond an ear's diagonal; a non-colinear vertex triple has |sin| ≥ 1/(W²+H²) ≥ 1e-7 > 1e-8.  Both
// quantities are invariant under the similarity maps applied afterwards (rigids, dyadic units, far
// translations, the similarity embeddings in space); barycentric coordinates are invariant under
// every affine embedding, and for the sheared embeddings (tilt*, rand) the sines are re-checked on
// the embedded integer points (largeSinesOK: every vertex triple exactly colinear or |sin| ≥ 1e-7 at
// each corner), falling back to a similarity embedding otherwise.  All coordinates given to the Go
// code are exact in float64.

import (
	"math"

	"github.com/unixpickle/model3d/model2d"
	"github.com/unixpickle/model3d/model3d"
	"verif/harness/hlib"
)

// genGear: a gear / saw outline with T teeth around the origin.  flat=false: tip, notch per tooth
// (2T vertices); flat=true: root, tip, tip, root per tooth (4T vertices).  Angles and radii jittered.
func genGear(c *hlib.Ctx, T int, flat bool, span float64) []ipt {
	r := c.Rng
	var p []ipt
	rot := r.Float64() * 2 * math.Pi
	inner := span * (0.45 + 0.3*r.Float64())
	pt := func(rad, a float64) ipt {
		return ipt{int64(math.Round(rad * math.Cos(a))), int64(math.Round(rad * math.Sin(a)))}
	}
	for i := 0; i < T; i++ {
		a0 := rot + 2*math.Pi*float64(i)/float64(T)
		da := 2 * math.Pi / float64(T)
		ro := span * (0.85 + 0.15*r.Float64())
		ri := inner * (0.9 + 0.1*r.Float64())
		if flat {
			p = append(p, pt(ri, a0+0.05*da), pt(ro, a0+(0.15+0.1*r.Float64())*da),
				pt(ro, a0+(0.45+0.1*r.Float64())*da), pt(ri, a0+0.7*da))
		} else {
			p = append(p, pt(ro, a0+0.2*da*r.Float64()), pt(ri, a0+(0.4+0.2*r.Float64())*da))
		}
	}
	return p
}

// genBigComb: a comb with many teeth of random height; rect: rectangular teeth.
func genBigComb(c *hlib.Ctx, teeth int, rect bool) []ipt {
	r := c.Rng
	var p []ipt
	w := int64(2 + r.Intn(2))
	base := int64(2 + r.Intn(6))
	p = append(p, ipt{0, 0}, ipt{int64(teeth)*2*w + w, 0})
	for i := teeth - 1; i >= 0; i-- {
		h := base + 1 + int64(r.Intn(60))
		x0 := int64(i) * 2 * w
		if rect {
			p = append(p, ipt{x0 + 3*w, base}, ipt{x0 + 2*w, base}, ipt{x0 + 2*w, h}, ipt{x0 + w, h})
			if i == 0 {
				p = append(p, ipt{x0 + w, base})
			}
		} else {
			p = append(p, ipt{x0 + 2*w, base}, ipt{x0 + w + int64(r.Intn(int(w))), h})
		}
	}
	p = append(p, ipt{0, base})
	return dedupConsecutive(p)
}

// genBigSpiral: a band following a polygonal spiral with `total` steps (2·total+2 vertices).
func genBigSpiral(c *hlib.Ctx, total int, span float64) []ipt {
	r := c.Rng
	steps := 7 + r.Intn(10)
	turns := float64(total) / float64(steps)
	var outer, inner []ipt
	rot := r.Float64() * 2 * math.Pi
	for i := 0; i <= total; i++ {
		t := float64(i) / float64(total)
		a := rot + 2*math.Pi*float64(i)/float64(steps)
		rad := span * (1 - 0.8*t)
		w := span * 0.8 / turns * 0.45
		outer = append(outer, ipt{int64(math.Round(rad * math.Cos(a))), int64(math.Round(rad * math.Sin(a)))})
		inner = append(inner, ipt{int64(math.Round((rad - w) * math.Cos(a))), int64(math.Round((rad - w) * math.Sin(a)))})
	}
	p := append([]ipt{}, outer...)
	return append(p, reversed(inner)...)
}

// genBigStar: star-shaped outline with k vertices at random angles and radii.
func genBigStar(c *hlib.Ctx, k int, span float64) []ipt {
	r := c.Rng
	p := make([]ipt, 0, k)
	rot := r.Float64() * 2 * math.Pi
	for i := 0; i < k; i++ {
		a := rot + 2*math.Pi*(float64(i)+0.8*r.Float64())/float64(k)
		rad := span * (0.5 + 0.5*r.Float64())
		if r.Intn(4) == 0 {
			rad = span * 0.55
		}
		p = append(p, ipt{int64(math.Round(rad * math.Cos(a))), int64(math.Round(rad * math.Sin(a)))})
	}
	return p
}

// largeTarget: the vertex count aimed at; sizes cluster around 64, 128, 256 (both sides).
func largeTarget(c *hlib.Ctx) int {
	r := c.Rng
	switch r.Intn(20) {
	case 0, 1:
		return 56 + r.Intn(8) // just below 64
	case 2, 3, 4, 5, 6:
		return 64 + r.Intn(9)
	case 7, 8, 9, 10, 11:
		return 73 + r.Intn(55)
	case 12, 13, 14:
		return 128 + r.Intn(13)
	case 15, 16:
		return 141 + r.Intn(115)
	case 17:
		return 256 + r.Intn(15)
	default:
		return 60 + r.Intn(10) // straddling 64
	}
}

// genLarge: a simple lattice polygon with about `target` vertices inside the certified box.
func genLarge(c *hlib.Ctx, target int) ([]ipt, string) {
	r := c.Rng
	for {
		var p []ipt
		var fam string
		span := 250 + 250*r.Float64()
		switch r.Intn(9) {
		case 0:
			p, fam = genGear(c, (target+1)/2, false, span), "gear"
		case 1:
			p, fam = genGear(c, (target+3)/4, true, span), "gear-flat"
		case 2:
			p, fam = genBigStar(c, target, span), "star"
		case 3:
			p, fam = genBigComb(c, (target-2)/2, false), "comb"
		case 4:
			p, fam = genBigComb(c, (target-3)/4, true), "comb-rect"
		case 5:
			p, fam = genBigSpiral(c, target/2-1, span), "spiral"
		case 6:
			p, fam = genMonotone(r, target, 6+r.Int63n(40), true), "monotone"
		case 7:
			p, fam = genStaircase(r, (target-2)/2), "staircase"
		default:
			// an outline of one of the small families with most of its vertices ON its edges
			// (colinear runs): what edge subdivision / T-junction removal leaves
			q, _ := genPoly(c, 10)
			m := int64(2*target/len(q) + 2)
			p, fam = subdivide(r, q, m, 0.9), "colinear"
		}
		if p == nil || len(p) < 50 || len(p) > 280 || !isSimple(p) {
			continue
		}
		x0, y0, x1, y1 := bbox(p)
		w, h := x1-x0, y1-y0
		if w*h > 4000000 || w*w+h*h > 10000000 {
			continue
		}
		return p, fam
	}
}

// turnAtSecond: the corner at q[1] relative to the polygon's orientation.
func turnAtSecond(q []ipt) string {
	o := sgn(orient(q[0], q[1], q[2]))
	if o == 0 {
		return "straight"
	}
	if (o > 0) == (area2(q) > 0) {
		return "convex"
	}
	return "reflex"
}

// largeSinesOK: every triple of the embedded points is exactly colinear or has |sin| ≥ 1e-7 at each
// of its corners (coordinates are integers below 2^16: cross products and squared lengths are exact
// in float64 up to 2^53, the margin 10 × the tolerance of removeColinearPoints absorbs the rest).
func largeSinesOK(pts [][3]int64) bool {
	n := len(pts)
	f := make([][3]float64, n)
	for i, p := range pts {
		f[i] = [3]float64{float64(p[0]), float64(p[1]), float64(p[2])}
	}
	const lim = 1e-14 // sin² ≥ 1e-14
	for i := 0; i < n; i++ {
		for j := i + 1; j < n; j++ {
			ax, ay, az := f[j][0]-f[i][0], f[j][1]-f[i][1], f[j][2]-f[i][2]
			la := ax*ax + ay*ay + az*az
			for k := j + 1; k < n; k++ {
				bx, by, bz := f[k][0]-f[i][0], f[k][1]-f[i][1], f[k][2]-f[i][2]
				cx, cy, cz := ay*bz-az*by, az*bx-ax*bz, ax*by-ay*bx
				cr := cx*cx + cy*cy + cz*cz
				if cr == 0 {
					continue
				}
				lb := bx*bx + by*by + bz*bz
				dx, dy, dz := bx-ax, by-ay, bz-az
				lc := dx*dx + dy*dy + dz*dz
				// the cross product has the same length at all three corners
				if cr < lim*la*lb || cr < lim*la*lc || cr < lim*lb*lc {
					return false
				}
			}
		}
	}
	return true
}

func runLarge(c *hlib.Ctx, n int) {
	r := c.Rng
	for i := 0; i < n; i++ {
		target := largeTarget(c)
		p, fam := genLarge(c, target)
		c.Stat("large.family."+fam, 1)
		switch {
		case len(p) < 64:
			c.Stat("large.n.below-64", 1)
		case len(p) < 128:
			c.Stat("large.n.64-127", 1)
		case len(p) < 256:
			c.Stat("large.n.128-255", 1)
		default:
			c.Stat("large.n.256-up", 1)
		}
		rg := rigids(r)
		m := rg[r.Intn(len(rg))]
		p = mapPts(p, m.f)
		den := randDen(c)
		np := len(p)

		// the vertex lists: for each wanted corner type at the second vertex one start (if the
		// outline has such a corner), in the order of p and reversed; plus a random start.  The
		// certificates are quadratic in the driver (0.1 s at 90 vertices, 1 s at 256), so the number
		// of lists goes down with the size; a reflex second vertex is always among them, in one
		// random order (both orders below 200 vertices).
		type vlist struct {
			q    []ipt
			turn string
		}
		find := func(rev bool, want string) *vlist {
			base := p
			if rev {
				base = reversed(p)
			}
			off := r.Intn(np)
			for d := 0; d < np; d++ {
				q := rotated(base, (off+d)%np)
				if t := turnAtSecond(q); want == "any" || t == want {
					return &vlist{q, t}
				}
			}
			return nil
		}
		flip := r.Intn(2) == 0
		var lists []*vlist // lists[0], and lists[1] below 200 vertices: reflex second vertex (if any)
		lists = append(lists, find(flip, "reflex"))
		if np < 200 {
			lists = append(lists, find(!flip, "reflex"))
		}
		lists = append(lists, find(r.Intn(2) == 0, "convex"))
		if np < 128 {
			lists = append(lists, find(r.Intn(2) == 0, "straight"), find(r.Intn(2) == 0, "any"))
		}
		faces := 0
		for li, l := range lists {
			if l == nil {
				continue
			}
			q := l.q
			cw := "ccw"
			if area2(q) < 0 {
				cw = "cw"
			}
			c.Stat("large.second-vertex."+l.turn+"."+cw, 1)
			rr := &region{den: den, loops: [][]ipt{q}}
			switch r.Intn(4) {
			case 0:
				rr.sc = pickDyadic(r)
			case 1:
				rr = farPlaced(r, rr, farMinBits, farMaxBitsEar)
			}
			poly := make([]model2d.Coord, len(q))
			for j, v := range q {
				poly[j] = rr.coord(v)
			}
			// model3d.Triangulate on every list
			res := call2d(rr, func() [][3]model2d.Coord { return model3d.Triangulate(poly) })
			largeStat(c, "large.ear3", rr, res)
			c.Emit("c14 ear3 "+rr.header()+" "+opTris(res, false), implSummary(rr, res))
			// model2d.Triangulate on one list (below 128 vertices)
			if np < 128 && li == 2 {
				res := call2d(rr, func() [][3]model2d.Coord { return model2d.Triangulate(poly) })
				largeStat(c, "large.ear", rr, res)
				c.Emit("c14 ear "+rr.header()+" "+opTris(res, false), implSummary(rr, res))
			}
			// the same list as a planar face in space (TriangulateFace / ReadOFF): the lists with a
			// reflex second vertex (one of them from 128 vertices on) and, below 128, one other
			if (l.turn == "reflex" && (np < 128 || faces == 0)) || (np < 128 && li == 3+i%2) {
				faces++
				es := embeddings(r)
				e := es[r.Intn(len(es))]
				pts := make([][3]int64, len(q))
				for j, v := range q {
					pts[j] = e.f(v)
				}
				if !largeSinesOK(pts) {
					c.Stat("large.face.sheared-embedding-replaced", 1)
					sim := []emb3{es[0], es[1], es[2], es[3], es[7]}
					e = sim[r.Intn(len(sim))]
				}
				var sc scaleSpec
				if r.Intn(3) == 0 {
					sc = pickDyadic(r)
				}
				var far [3]int64
				if r.Intn(4) == 0 {
					far = pickFar3(c)
				}
				c.Stat("large.face.second-vertex."+l.turn, 1)
				emitFace(c, "large.face", q, den, e, sc, far, r.Intn(3) == 0)
			}
		}
	}
}

func largeStat(c *hlib.Ctx, kind string, r *region, res callRes) {
	c.Stat(kind+".cases", 1)
	if res.fail != "" {
		c.Stat(kind+".fail", 1)
		return
	}
	c.Stat(kind+".gocert."+goCert(r, res.tris, true, 0), 1)
}
