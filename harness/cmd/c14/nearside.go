package main

// nearside.go: MULTI-SCALE simple polygons — a feature of the outline that comes closer than 1e-8
// edge lengths to an edge (the tip of a small notch at a corner whose other side is 2^30 … 2^38 units
// long), kinds ear / earseq / face / off.
//
// Why: every other family of this harness lives on a lattice of a few hundred units, so the
// barycentric coordinates (X, Y) that isVertexEar computes for a vertex inside a candidate ear are
// never below ~1e-5.  The property quantifies over ALL simple polygons: a vertex strictly inside the
// triangle of a candidate ear — however close to one of its two polygon sides — makes that triangle
// stick out of the polygon, so the ear must be rejected (M3d.C14.ear_test_rejects_interior_vertex:
// the model's test has no lower tolerance).  Here such vertices have X or Y in [1e-12, 1e-8].
//
// Soundness (no false alarm on the unchanged tree).  The real code works in float64 and has two
// documented tolerances: removeColinearPoints drops a vertex with |sin θ| ≤ 1e-8, and a vertex within
// 1e-8 (barycentric) beyond the diagonal of an ear blocks it.  On a multi-scale polygon these
// tolerances CAN fire legitimately (seen from a vertex 2^36 units away two vertices a few units apart
// are "colinear"), and the output is then only exact up to the tolerance, which the exact certificate
// would report.  Every polygon of this family is therefore certified beforehand, in exact integer
// arithmetic (math/big), on the INPUT only — never on the output of the real code:
//
//   - nsGlobal (order independent): every triple of vertices is exactly colinear or has |sin| ≥ 1e-6
//     at each of its corners, and no vertex lies within (0, 1e-6) beyond a possible ear diagonal while
//     on the inner side of the two other sides.  Every corner of every sub-polygon and every
//     point-in-ear decision on any sub-polygon is then taken with a margin of 100x the tolerance,
//     whatever ears are cut in whatever order; float64 evaluates each of these quantities to a
//     relative 1e-9 or better (coordinate differences are exact, |coordinates| < 2^50), so the real
//     code takes the decisions of the exact algorithm and must return an exact triangulation.  A
//     version of Triangulate that visits the corners in another order stays within the certificate.
//   - nsSim (per vertex order): an exact run of the documented algorithm — colinear removal, first ear
//     in index order, point-in-ear test with the closed diagonal — on the very vertex order passed to
//     the real code, re-checking the margin of every decision taken along that run; it also counts the
//     runs in which a corner is rejected ONLY because of a vertex with min(X, Y) ≤ 1e-8
//     (nearside.ear.rejection-rests-on-vertex-next-to-a-side: > 0 in every run).
//
// Polygons that fail nsGlobal are re-sampled; an order that fails nsSim (none does) is not emitted.

import (
	"fmt"
	"math/big"
	"math/rand"

	"verif/harness/hlib"

	"github.com/unixpickle/model3d/model2d"
)

func bI(v int64) *big.Int { return big.NewInt(v) }

// exact orientation determinant (coordinates < 2^50, so the differences fit int64)
func borient(a, b, c ipt) *big.Int {
	t1 := new(big.Int).Mul(bI(b.x-a.x), bI(c.y-a.y))
	t2 := new(big.Int).Mul(bI(b.y-a.y), bI(c.x-a.x))
	return t1.Sub(t1, t2)
}

func bdist2(a, b ipt) *big.Int {
	t1 := new(big.Int).Mul(bI(b.x-a.x), bI(b.x-a.x))
	t2 := new(big.Int).Mul(bI(b.y-a.y), bI(b.y-a.y))
	return t1.Add(t1, t2)
}

func bsgn(a, b, c ipt) int { return borient(a, b, c).Sign() }

func bOnSeg(a, b, p ipt) bool {
	if bsgn(a, b, p) != 0 {
		return false
	}
	return min64(a.x, b.x) <= p.x && p.x <= max64(a.x, b.x) && min64(a.y, b.y) <= p.y && p.y <= max64(a.y, b.y)
}

func bSegsTouch(a, b, c, d ipt) bool {
	o1, o2 := bsgn(a, b, c), bsgn(a, b, d)
	o3, o4 := bsgn(c, d, a), bsgn(c, d, b)
	if o1*o2 < 0 && o3*o4 < 0 {
		return true
	}
	return bOnSeg(a, b, c) || bOnSeg(a, b, d) || bOnSeg(c, d, a) || bOnSeg(c, d, b)
}

func bArea2(p []ipt) *big.Int {
	s := new(big.Int)
	for i := range p {
		a, b := p[i], p[(i+1)%len(p)]
		s.Add(s, new(big.Int).Mul(bI(a.x), bI(b.y)))
		s.Sub(s, new(big.Int).Mul(bI(a.y), bI(b.x)))
	}
	return s
}

// isSimpleBig: isSimple for coordinates whose products do not fit int64.
func isSimpleBig(p []ipt) bool {
	n := len(p)
	if n < 3 {
		return false
	}
	seen := map[ipt]bool{}
	for _, q := range p {
		if seen[q] {
			return false
		}
		seen[q] = true
	}
	for i := 0; i < n; i++ {
		a, b, c := p[i], p[(i+1)%n], p[(i+2)%n]
		if bsgn(a, b, c) == 0 && !bOnSeg(a, c, b) {
			return false
		}
	}
	if n == 3 {
		return bsgn(p[0], p[1], p[2]) != 0
	}
	for i := 0; i < n; i++ {
		for j := i + 2; j < n; j++ {
			if i == 0 && j == n-1 {
				continue
			}
			if bSegsTouch(p[i], p[(i+1)%n], p[j], p[(j+1)%n]) {
				return false
			}
		}
	}
	return bArea2(p).Sign() != 0
}

var (
	nsTol2    = new(big.Int).Exp(bI(10), bI(12), nil) // (1/1e-6)^2
	nsMargin  = new(big.Int).Exp(bI(10), bI(6), nil)  // 1/1e-6
	nsNearInv = new(big.Int).Exp(bI(10), bI(8), nil)  // 1/1e-8
	nsSumErr  = bI(1267650600228)                     // (1e-9 / 2^-50)^2
)

// sumErrSmall: float64 evaluates X + Y (the barycentric coordinates of q in the ear p1 p2 p3, through
// the inverse matrix) with an absolute error below 1e-9: the error is at most 8·2^-53 times
// (|p1−p2| + |p3−p2|)·|q−p2| / |det| (rounding of the determinant, of the scaled inverse, of the two
// products and of the sums), and (|a|+|b|)² ≤ 2(|a|²+|b|²).
func sumErrSmall(p1, p2, p3, q ipt, det *big.Int) bool {
	l := new(big.Int).Add(bdist2(p2, p1), bdist2(p2, p3))
	l.Mul(l, bdist2(p2, q))
	l.Lsh(l, 1)
	r := new(big.Int).Mul(det, det)
	r.Mul(r, nsSumErr)
	return l.Cmp(r) <= 0
}

// sinMargin: the sine of the angle between the vectors (of squared lengths n1, n2) whose cross
// product is o has absolute value ≥ 1e-6.
func sinMargin(o, n1, n2 *big.Int) bool {
	l := new(big.Int).Mul(o, o)
	l.Mul(l, nsTol2)
	return l.Cmp(new(big.Int).Mul(n1, n2)) >= 0
}

// nsRun: the result of the exact run of the documented algorithm on one vertex order.
type nsRun struct {
	clean bool   // every decision has the margin
	why   string // first decision without it
	// number of ear tests (in the order the algorithm performs them) that reject a convex corner ONLY
	// because of vertices with min(X, Y) ≤ 1e-8: the rejection rests on a vertex next to a side
	nearOnly int
	// … the smallest barycentric coordinate of a vertex that decided such a rejection, as 1/value
	nearInv float64
	tris    int
}

func (r *nsRun) fail(why string) {
	if r.clean {
		r.clean, r.why = false, why
	}
}

// exact removeColinearPoints with the margin check on every corner
func nsRemoveColinear(p []ipt, r *nsRun) []ipt {
	n := len(p)
	var out []ipt
	for i := range p {
		a, b, c := p[(i+n-1)%n], p[i], p[(i+1)%n]
		o := borient(a, b, c)
		if o.Sign() == 0 {
			continue
		}
		if !sinMargin(o, bdist2(b, a), bdist2(b, c)) {
			r.fail("corner-within-colinearity-tolerance")
		}
		out = append(out, b)
	}
	return out
}

// exact isVertexEar (closed diagonal) with the margin check on every decision the loop takes up to
// and including the first blocking vertex (the real loop returns there).
func nsIsEar(p []ipt, v int, cw bool, r *nsRun) bool {
	n := len(p)
	i1, i3 := (v+n-1)%n, (v+1)%n
	p1, p2, p3 := p[i1], p[v], p[i3]
	o := borient(p1, p2, p3)
	if cw != (o.Sign() <= 0) {
		return false
	}
	det := borient(p2, p1, p3) // = -o
	adet := new(big.Int).Abs(det)
	blocked, decided, nearOnly := false, false, true
	nearInv := 0.0
	for i, q := range p {
		if i == i1 || i == v || i == i3 {
			continue
		}
		nx, ny := borient(p2, q, p3), borient(p2, p1, q) // X = nx/det, Y = ny/det
		ns := new(big.Int).Add(nx, ny)
		ns.Sub(ns, det) // X + Y - 1 = ns/det
		sx, sy, ss := nx.Sign()*det.Sign(), ny.Sign()*det.Sign(), ns.Sign()*det.Sign()
		rx := nx.Sign() != 0 && sinMargin(nx, bdist2(p2, q), bdist2(p2, p3))
		ry := ny.Sign() != 0 && sinMargin(ny, bdist2(p2, p1), bdist2(p2, q))
		if !decided && sx > 0 && sy > 0 && !sumErrSmall(p1, p2, p3, q, det) {
			r.fail("barycentric-sum-not-accurate-to-1e-9")
		}
		if sx > 0 && sy > 0 && ss <= 0 {
			if !decided && !(rx && ry) {
				r.fail("blocking-vertex-sign-without-margin")
			}
			blocked, decided = true, true
			ax := new(big.Int).Mul(new(big.Int).Abs(nx), nsNearInv)
			ay := new(big.Int).Mul(new(big.Int).Abs(ny), nsNearInv)
			if ax.Cmp(adet) <= 0 || ay.Cmp(adet) <= 0 {
				m := nx
				if new(big.Int).Abs(ny).Cmp(new(big.Int).Abs(nx)) < 0 {
					m = ny
				}
				f, _ := new(big.Rat).SetFrac(adet, new(big.Int).Abs(m)).Float64()
				if f > nearInv {
					nearInv = f
				}
			} else {
				nearOnly = false
			}
			continue
		}
		if decided {
			continue
		}
		beyond := ss > 0 && new(big.Int).Mul(new(big.Int).Abs(ns), nsMargin).Cmp(adet) >= 0
		if !((sx < 0 && rx) || (sy < 0 && ry) || beyond) {
			r.fail("non-blocking-vertex-without-margin")
		}
	}
	if blocked && nearOnly {
		r.nearOnly++
		if nearInv > r.nearInv {
			r.nearInv = nearInv
		}
	}
	return !blocked
}

// nsSim: the documented algorithm of model2d.Triangulate, exactly, on the vertex order poly.
func nsSim(poly []ipt) nsRun {
	r := nsRun{clean: true}
	p := nsRemoveColinear(poly, &r)
	for len(p) > 3 {
		cw := bArea2(p).Sign() < 0
		ear := -1
		for i := range p {
			if nsIsEar(p, i, cw, &r) {
				ear = i
				break
			}
		}
		if ear < 0 {
			r.fail("no-ear")
			return r
		}
		q := append([]ipt{}, p[:ear]...)
		q = append(q, p[ear+1:]...)
		r.tris++
		p = nsRemoveColinear(q, &r)
	}
	if len(p) < 3 {
		r.fail("flat")
	}
	r.tris++
	return r
}

// ---------------------------------------------------------------------------
// construction

// strictly inside the triangle a b c and barycentric weight of a (X) and of c (Y) w.r.t. corner b
func nsBary(p1, p2, p3, q ipt) (inside bool, xInv, yInv float64) {
	det := borient(p2, p1, p3)
	nx, ny := borient(p2, q, p3), borient(p2, p1, q)
	ns := new(big.Int).Add(nx, ny)
	ns.Sub(ns, det)
	if det.Sign() == 0 || nx.Sign()*det.Sign() <= 0 || ny.Sign()*det.Sign() <= 0 || ns.Sign()*det.Sign() >= 0 {
		return false, 0, 0
	}
	xInv, _ = new(big.Rat).SetFrac(new(big.Int).Abs(det), new(big.Int).Abs(nx)).Float64()
	yInv, _ = new(big.Rat).SetFrac(new(big.Int).Abs(det), new(big.Int).Abs(ny)).Float64()
	return true, xInv, yInv
}

func maxAbs(p []ipt) int64 {
	var m int64
	for _, q := range p {
		m = max64(m, max64(q.x, -q.x))
		m = max64(m, max64(q.y, -q.y))
	}
	return m
}

// genNearSide: a coarse lattice polygon A of any family, blown up by M = 2^m (m = 30 … 38), with ONE
// small feature at a convex corner p2 = A[i] (neighbours prev, next): the edge p2 → next is replaced
// by the chain p2 → p3 → P → w → next, where
//
//   - p3 = p2 + S·e and w = p2 + S·g lie at the small scale S = 2^-12 … 2^-8 of the blow-up, in
//     lattice directions e, g strictly INSIDE the wedge of the corner (next, e, g, prev in angular
//     order), so that no far vertex lies on the line through two vertices of the feature;
//   - P lies over the short side p2 p3 (a fraction y/16 along it), on the side of prev, at the height
//     h·2^d, d = m−32 … m−25: strictly inside the needle-shaped triangle (prev, p2, p3) — one side
//     2^8 … 2^12 times the other — at a barycentric distance X = h·2^d / (|prev − p2| sin θ) in
//     [1e-12, 1e-8] from the side p2 p3.
//
// P is a reflex vertex of the new polygon, the corner p2 is convex, its ear must be rejected because of
// P alone.  Reversing the vertex order turns X into Y.  Returns nil when the sampled feature does not
// give a simple polygon with the tip where it should be (the caller re-samples).
func genNearSide(c *hlib.Ctx) ([]ipt, string) {
	r := c.Rng
	a, fam := genPoly(c, 6)
	if len(a) > 12 || maxAbs(a) > 200 {
		return nil, ""
	}
	if r.Intn(2) == 0 {
		a = reversed(a)
	}
	// drop straight vertices of the coarse polygon (they would only add exactly colinear corners)
	var a2 []ipt
	for i := range a {
		if orient(a[(i+len(a)-1)%len(a)], a[i], a[(i+1)%len(a)]) != 0 {
			a2 = append(a2, a[i])
		}
	}
	a = a2
	n := len(a)
	if n < 3 || !isSimple(a) {
		return nil, ""
	}
	m := 30 + r.Intn(9)
	M := int64(1) << uint(m)
	A := mapPts(a, func(p ipt) ipt { return ipt{p.x * M, p.y * M} })
	ccw := area2(a) > 0
	var conv []int
	for i := range a {
		o := orient(a[(i+n-1)%n], a[i], a[(i+1)%n])
		if (o > 0) == ccw {
			conv = append(conv, i)
		}
	}
	if len(conv) == 0 {
		return nil, ""
	}
	i := conv[r.Intn(len(conv))]
	prev, p2 := A[(i+n-1)%n], A[i]
	sg := int64(1)
	if !ccw {
		sg = -1
	}
	u1 := ipt{a[(i+n-1)%n].x - a[i].x, a[(i+n-1)%n].y - a[i].y} // towards prev, coarse units
	u2 := ipt{a[(i+1)%n].x - a[i].x, a[(i+1)%n].y - a[i].y}     // towards next
	cr := func(p, q ipt) int64 { return p.x*q.y - p.y*q.x }
	rv := func() ipt { return ipt{r.Int63n(13) - 6, r.Int63n(13) - 6} }
	inWedge := func(e, g ipt) bool { return sg*cr(u2, e) > 0 && sg*cr(e, g) > 0 && sg*cr(g, u1) > 0 }
	ev, gv := rv(), rv()
	for t := 0; t < 200 && !inWedge(ev, gv); t++ {
		ev, gv = rv(), rv()
	}
	if !inWedge(ev, gv) {
		return nil, ""
	}
	S := int64(1) << uint(m-12+r.Intn(5))
	d := int64(1) << uint(m-32+r.Intn(8))
	p3 := ipt{p2.x + S*ev.x, p2.y + S*ev.y}
	w := ipt{p2.x + S*gv.x, p2.y + S*gv.y}
	y := 3 + r.Int63n(11)
	hd := d * (1 + r.Int63n(3))
	// (−e.y, e.x) is e turned left: towards prev for a counter-clockwise polygon
	P := ipt{p2.x + (S/16)*y*ev.x - sg*hd*ev.y, p2.y + (S/16)*y*ev.y + sg*hd*ev.x}
	ok, xi, yi := nsBary(prev, p2, p3, P)
	if !ok || xi < 1e8 || xi > 1e12 || yi > 1e3 {
		return nil, ""
	}
	var out []ipt
	out = append(out, A[:i+1]...)
	out = append(out, p3, P, w)
	out = append(out, A[i+1:]...)
	if maxAbs(out) >= int64(1)<<50 || !isSimpleBig(out) {
		return nil, ""
	}
	return out, fam
}

// bigImplSummary: implSummary for coordinates whose products do not fit int64.
func bigImplSummary(r *region, res callRes) string {
	if res.fail != "" {
		return res.fail
	}
	all := r.all()
	for _, t := range res.tris {
		for _, v := range t {
			if v < 0 {
				return "foreign-vertex"
			}
		}
	}
	s := new(big.Int)
	for _, t := range res.tris {
		o := borient(all[t[0]], all[t[1]], all[t[2]])
		s.Add(s, o.Abs(o))
	}
	q := new(big.Rat).SetFrac(s, new(big.Int).Mul(bI(2), new(big.Int).Mul(bI(r.den), bI(r.den))))
	q.Mul(q, r.sc.dyadicPow(2))
	return fmt.Sprintf("ok area=%s n=%d", showRatFull(q), len(res.tris))
}

// the embeddings of the plane into space that are similarities (the chart TriangulateFace builds is
// an isometry of the plane, so the 2-D polygon it triangulates is similar to the lattice polygon
// and every margin certified by nsSim carries over)
func similarityEmbeddings(r *rand.Rand) []emb3 {
	es := embeddings(r)
	return []emb3{es[0], es[1], es[2], es[3], es[7]}
}

func runNearSide(c *hlib.Ctx, n int) {
	r := c.Rng
	for made, tries := 0, 0; made < n && tries < 400*n; tries++ {
		p, fam := genNearSide(c)
		if p == nil {
			c.Stat("nearside.rejected-sample", 1)
			continue
		}
		if !nsGlobal(p) {
			c.Stat("nearside.rejected-not-in-general-position-at-every-scale", 1)
			continue
		}
		// vertex orders: every rotation of the start vertex (sampled above 8 vertices) x both orders;
		// each order is certified on its own
		var rots []int
		if len(p) <= 8 {
			for k := range p {
				rots = append(rots, k)
			}
		} else {
			for k := 0; k < 6; k++ {
				rots = append(rots, r.Intn(len(p)))
			}
		}
		var sc scaleSpec
		if r.Intn(3) == 0 {
			sc = scaleSpec{k: -(1 + r.Intn(40))}
		}
		emitted := 0
		var cleanOrders [][]ipt
		for _, k := range rots {
			for rev := 0; rev < 2; rev++ {
				q := rotated(p, k)
				if rev == 1 {
					q = reversed(q)
				}
				sim := nsSim(q)
				if !sim.clean {
					c.Stat("nearside.unclean-order", 1)
					c.Stat("nearside.unclean."+sim.why, 1)
					continue
				}
				cleanOrders = append(cleanOrders, q)
				c.Stat("nearside.ear.cases", 1)
				if sim.nearOnly > 0 {
					c.Stat("nearside.ear.rejection-rests-on-vertex-next-to-a-side", 1)
					switch {
					case sim.nearInv >= 1e10:
						c.Stat("nearside.bary.le-1e-10", 1)
					case sim.nearInv >= 1e9:
						c.Stat("nearside.bary.le-1e-9", 1)
					default:
						c.Stat("nearside.bary.le-1e-8", 1)
					}
				}
				rg := &region{den: 1, loops: [][]ipt{q}, sc: sc}
				poly := make([]model2d.Coord, len(q))
				for j, v := range q {
					poly[j] = rg.coord(v)
				}
				res := call2d(rg, func() [][3]model2d.Coord { return model2d.Triangulate(poly) })
				if res.fail != "" {
					c.Stat("nearside.ear.fail", 1)
				}
				c.Emit("c14 ear "+rg.header()+" "+opTris(res, false), bigImplSummary(rg, res))
				emitted++
			}
		}
		if emitted == 0 {
			continue
		}
		made++
		c.Stat("nearside.polygons", 1)
		c.Stat("nearside.base."+fam, 1)
		// the exact ear sequence against the faithful model, and the same polygon as a planar 3-D face
		// (TriangulateFace / ReadOFF), on certified orders
		q := cleanOrders[r.Intn(len(cleanOrders))]
		rg := &region{den: 1, loops: [][]ipt{q}, sc: sc}
		poly := make([]model2d.Coord, len(q))
		for j, v := range q {
			poly[j] = rg.coord(v)
		}
		res := call2d(rg, func() [][3]model2d.Coord { return model2d.Triangulate(poly) })
		impl := "panic"
		if res.fail == "" {
			impl = trisField(res.tris)
		} else if res.fail == "timeout" {
			impl = "timeout"
		}
		c.Stat("nearside.earseq.cases", 1)
		c.EmitSite("c14 earseq "+rg.header(), impl, "corr:c14 earseq (model validation)")
		q = cleanOrders[r.Intn(len(cleanOrders))]
		es := similarityEmbeddings(r)
		emitFace(c, "nearside.face", q, 1, es[r.Intn(len(es))], sc, [3]int64{}, r.Intn(3) == 0)
	}
}

// nsGlobal: order-independent certification.  Every triple of vertices is exactly colinear or has
// |sin| ≥ 1e-6 at each corner, and no vertex lies within (0, 1e-6) beyond the diagonal of the triangle
// of any three others while strictly on the inner side of its two other sides; for the vertices on
// the inner side of those two sides float64 computes X + Y to within 1e-9 (sumErrSmall), so the
// comparison with 1 + 1e-8 comes out as the exact comparison with 1 does.  Then every corner of
// every sub-polygon, and every point-in-ear decision on any sub-polygon, has the margin — whatever
// ears are cut in whatever order.
func nsGlobal(p []ipt) bool {
	n := len(p)
	for i := 0; i < n; i++ {
		for j := 0; j < n; j++ {
			for k := j + 1; k < n; k++ {
				if i == j || i == k {
					continue
				}
				o := borient(p[j], p[i], p[k])
				if o.Sign() != 0 && !sinMargin(o, bdist2(p[i], p[j]), bdist2(p[i], p[k])) {
					return false
				}
			}
		}
	}
	for a := 0; a < n; a++ {
		for b := 0; b < n; b++ {
			for cc := a + 1; cc < n; cc++ {
				if a == b || cc == b || cc == a+1 || (a == 0 && cc == n-1) {
					// (an edge of the polygon is never the diagonal of an ear)
					continue
				}
				det := borient(p[b], p[a], p[cc])
				if det.Sign() == 0 {
					continue
				}
				adet := new(big.Int).Abs(det)
				for q := 0; q < n; q++ {
					if q == a || q == b || q == cc {
						continue
					}
					nx, ny := borient(p[b], p[q], p[cc]), borient(p[b], p[a], p[q])
					if nx.Sign()*det.Sign() <= 0 || ny.Sign()*det.Sign() <= 0 {
						continue
					}
					if !sumErrSmall(p[a], p[b], p[cc], p[q], det) {
						return false
					}
					ns := new(big.Int).Add(nx, ny)
					ns.Sub(ns, det)
					if ns.Sign()*det.Sign() > 0 && new(big.Int).Mul(new(big.Int).Abs(ns), nsMargin).Cmp(adet) < 0 {
						return false
					}
				}
			}
		}
	}
	return true
}
