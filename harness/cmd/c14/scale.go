package main

import (
	"math"
	"math/big"
	"math/rand"
)

// Placement at other units of length.  The property quantifies over every simple polygon, so in
// particular over the SAME polygon expressed in another unit.  A scaleSpec turns the lattice
// coordinate v = x/den into the float64 input of the real code:
//
//   - k ≠ 0: v·2^k.  Exact in float64 (no over/underflow for |k| ≤ 40 and our ranges), all angles
//     and colinearities of the lattice polygon are preserved exactly, so every family (colinear
//     runs, rectilinear combs, …) is a legitimate input at every such scale.
//   - f ≠ 0: fl(v·2^k·f) for a non-dyadic factor f (1e-4, 1e-5, 1e3 …).  The product is ROUNDED, so
//     exact colinearity of the lattice polygon is destroyed at the 1e-16 level, where
//     removeColinearPoints' documented tolerance (|sin| ≤ 1e-8) may legitimately drop vertices.
//     These scales are therefore only applied to inputs in certified general position
//     (generalPosition: every triple of input vertices has |sin| > 1e-6 at each of its corners),
//     obtained by jittering the lattice polygon (jitterGeneral).  The op line then carries the
//     rounded float64 coordinates exactly, and the certificate is evaluated in Q on those.
//   - ox, oy ≠ 0: FAR PLACEMENT.  The polygon is translated by the whole-number vector (ox, oy)
//     BEFORE the change of unit: the real code gets 2^k·(v + (ox, oy)).  |ox|, |oy| < 2^45 and v has at
//     most 4 fractional bits below 2^20, so the sum is exact in float64 (checkExact re-verifies every
//     coordinate with big.Rat): the input is EXACTLY the translated lattice polygon, a legitimate
//     simple polygon whose distance from the origin is 1e7 … 1e12 times its size.  The property
//     quantifies over "any rigid placement"; the certificate is translation invariant
//     (M3d.C14.cert_placement_invariant), so the expected answer is the one at the origin.
//     Never combined with a non-dyadic factor.
//   - th ≠ 0 (only together with f ≠ 0, only for 2-D regions): the lattice polygon (in certified
//     general position) is first ROTATED by the arbitrary angle th in float64, then multiplied by f.
//     Both steps round; the op line carries the resulting float64 coordinates exactly and the driver
//     re-decides validity on them, so this is simply another exactly-known input in general position:
//     a rigid placement by an arbitrary angle.
type scaleSpec struct {
	k      int
	f      float64
	ox, oy int64
	th     float64
}

func (s scaleSpec) unit() bool { return s.k == 0 && s.f == 0 && !s.far() }

func (s scaleSpec) far() bool { return s.ox != 0 || s.oy != 0 }

// applyX / applyY: the float64 coordinate the real code is given for the lattice value v.
func (s scaleSpec) applyX(v float64) float64 { return s.applyOff(v, s.ox) }
func (s scaleSpec) applyY(v float64) float64 { return s.applyOff(v, s.oy) }

func (s scaleSpec) applyOff(v float64, o int64) float64 {
	if o == 0 {
		return s.apply(v)
	}
	if s.f != 0 {
		panic("far placement combined with a non-dyadic factor")
	}
	w := v + float64(o)
	// exactness of the float64 sum (the op line promises the exact translated polygon)
	ex := new(big.Rat).Add(new(big.Rat).SetFloat64(v), new(big.Rat).SetInt64(o))
	if new(big.Rat).SetFloat64(w).Cmp(ex) != 0 {
		panic("far placement not exact in float64")
	}
	return s.apply(w)
}

// pickFar: a far translation with |ox|, |oy| ≈ 2^b, b uniform in [minBits, maxBits], full random
// mantissas, random signs; one time in six only one of the two components is far.
func pickFar(r *rand.Rand, minBits, maxBits int) (int64, int64) {
	one := func() int64 {
		b := minBits + r.Intn(maxBits-minBits+1)
		v := int64(1)<<uint(b) + r.Int63n(int64(1)<<uint(b))
		if r.Intn(2) == 0 {
			v = -v
		}
		return v
	}
	ox, oy := one(), one()
	switch r.Intn(12) {
	case 0:
		ox = r.Int63n(41) - 20
	case 1:
		oy = r.Int63n(41) - 20
	case 2:
		// "round" placements as a user would type them
		ox, oy = 1000000000*(1+r.Int63n(900)), -1000000000*(1+r.Int63n(900))
		if maxBits < 40 {
			ox, oy = 1000000000*(1+r.Int63n(9)), -1000000000*(1+r.Int63n(9))
		}
	}
	if ox == 0 && oy == 0 {
		ox = int64(1) << uint(minBits)
	}
	return ox, oy
}

// clearance: the smallest Euclidean distance, in units (lattice/den), between a vertex and an edge
// it is not an end point of (edges of all loops).  Everything the sweep decides from ABSOLUTE
// coordinates (misalignMesh's rotation, yAtX interpolation, ComparePoint) is a comparison between a
// vertex and such an edge, so a perturbation of the coordinates far below the clearance cannot
// change a decision.
func clearance(r *region) float64 {
	type seg struct{ a, b ipt }
	var segs []seg
	for _, l := range r.loops {
		for i := range l {
			segs = append(segs, seg{l[i], l[(i+1)%len(l)]})
		}
	}
	best := math.Inf(1)
	for _, l := range r.loops {
		for _, v := range l {
			for _, s := range segs {
				if v == s.a || v == s.b {
					continue
				}
				ax, ay := float64(s.b.x-s.a.x), float64(s.b.y-s.a.y)
				px, py := float64(v.x-s.a.x), float64(v.y-s.a.y)
				t := (px*ax + py*ay) / (ax*ax + ay*ay)
				if t < 0 {
					t = 0
				} else if t > 1 {
					t = 1
				}
				d := math.Hypot(px-t*ax, py-t*ay)
				if d < best {
					best = d
				}
			}
		}
	}
	return best / float64(r.den)
}

// farPlacedSweep: a far placement for the kinds that look at absolute coordinates (TriangulateMesh
// rotates them, the sweep interpolates them): the offset 2^b is only used if the rounding it causes
// (≤ 2^(b-52) per operation) is at least 64 times smaller than the region's clearance; b is lowered
// until that holds, and below 2^farMinBits the region is not placed far at all (nil).
func farPlacedSweep(rng *rand.Rand, r *region, minBits, maxBits int) *region {
	cl := clearance(r)
	for maxBits >= minBits && math.Ldexp(64, maxBits+1-52) > cl {
		maxBits--
	}
	if maxBits < minBits {
		return nil
	}
	return farPlaced(rng, r, minBits, maxBits)
}

// farPlaced: region r far from the origin (optionally also in another dyadic unit).
func farPlaced(rng *rand.Rand, r *region, minBits, maxBits int) *region {
	out := &region{den: r.den, loops: r.loops}
	out.sc.ox, out.sc.oy = pickFar(rng, minBits, maxBits)
	if rng.Intn(4) == 0 {
		k := 1 + rng.Intn(20)
		if rng.Intn(2) == 0 {
			k = -k
		}
		out.sc.k = k
	}
	return out
}

func (s scaleSpec) apply(v float64) float64 {
	if s.k != 0 {
		v = math.Ldexp(v, s.k)
	}
	if s.f != 0 {
		v *= s.f
	}
	return v
}

func (s scaleSpec) name() string {
	switch {
	case s.far() && s.k != 0:
		return "far+dyadic"
	case s.far():
		return "far"
	case s.f != 0 && s.th != 0:
		return "nondyadic+rotated"
	case s.f != 0:
		return "nondyadic"
	case s.k < 0:
		return "dyadic-small"
	case s.k > 0:
		return "dyadic-large"
	}
	return "unit"
}

var nonDyadicFactors = []float64{1e-4, 1e-5, 1e3, 1e-3, 1e-6, 3e-5, 0.1, 1e5, 7, 1.0 / 3, 2.5e-7}

// pickScale: a non-unit placement; small units twice as often as large ones.
func pickScale(r *rand.Rand, nonDyadic bool) scaleSpec {
	if nonDyadic && r.Intn(3) == 0 {
		return scaleSpec{f: nonDyadicFactors[r.Intn(len(nonDyadicFactors))]}
	}
	k := 1 + r.Intn(30)
	if r.Intn(3) != 0 {
		k = -k
	}
	return scaleSpec{k: k}
}

func pickDyadic(r *rand.Rand) scaleSpec { return pickScale(r, false) }

// exactInts: a power-of-two denominator den and integers with vals[i] = ints[i]/den EXACTLY.
func exactInts(vals []float64) (*big.Int, []*big.Int) {
	rats := make([]*big.Rat, len(vals))
	den := big.NewInt(1)
	for i, v := range vals {
		rats[i] = new(big.Rat).SetFloat64(v)
		if rats[i] == nil {
			panic("non-finite coordinate")
		}
		if rats[i].Denom().Cmp(den) > 0 {
			den = new(big.Int).Set(rats[i].Denom())
		}
	}
	ints := make([]*big.Int, len(vals))
	for i, q := range rats {
		m := new(big.Int).Quo(den, q.Denom()) // both powers of two
		ints[i] = m.Mul(m, q.Num())
	}
	return den, ints
}

// scaleRat: the exact value of the dyadic scale factor to the power p.
func (s scaleSpec) dyadicPow(p int) *big.Rat {
	e := s.k * p
	one := big.NewInt(1)
	if e >= 0 {
		return new(big.Rat).SetInt(new(big.Int).Lsh(one, uint(e)))
	}
	return new(big.Rat).SetFrac(one, new(big.Int).Lsh(one, uint(-e)))
}

// exact 2-D orientation determinant of float64 points
func orientRat(a, b, c [2]*big.Rat) *big.Rat {
	t1 := new(big.Rat).Mul(new(big.Rat).Sub(b[0], a[0]), new(big.Rat).Sub(c[1], a[1]))
	t2 := new(big.Rat).Mul(new(big.Rat).Sub(b[1], a[1]), new(big.Rat).Sub(c[0], a[0]))
	return t1.Sub(t1, t2)
}

func (r *region) exactPts() [][2]*big.Rat {
	all := r.all()
	out := make([][2]*big.Rat, len(all))
	for i, p := range all {
		cc := r.coord(p)
		out[i] = [2]*big.Rat{new(big.Rat).SetFloat64(cc.X), new(big.Rat).SetFloat64(cc.Y)}
	}
	return out
}

// generalPosition: every triple of points has |sin| > 1e-6 at each of its three corners (so the
// tolerance 1e-8 of removeColinearPoints and of the ear's diagonal test can never fire, whatever
// sub-polygon the recursion reaches), with a margin that dwarfs the 1e-16 rounding of a
// non-dyadic scaling.
func generalPosition(pts []ipt) bool {
	n := len(pts)
	d := func(a, b ipt) float64 { return math.Hypot(float64(b.x-a.x), float64(b.y-a.y)) }
	for i := 0; i < n; i++ {
		for j := i + 1; j < n; j++ {
			dij := d(pts[i], pts[j])
			for k := j + 1; k < n; k++ {
				o := math.Abs(float64(orient(pts[i], pts[j], pts[k])))
				dik, djk := d(pts[i], pts[k]), d(pts[j], pts[k])
				if o <= 1e-6*dij*dik || o <= 1e-6*dij*djk || o <= 1e-6*dik*djk {
					return false
				}
			}
		}
	}
	return true
}

// depthOf: number of loops strictly containing the first vertex of loop i
func depthOf(loops [][]ipt, i int) int {
	d := 0
	for j, l := range loops {
		if j != i && insideStrict(l, loops[i][0]) {
			d++
		}
	}
	return d
}

// validRegionInt: replica of the driver's validRegion on the lattice: simple loops, pairwise
// disjoint boundaries, orientation alternating with the nesting depth (outer loops clockwise).
// (The driver re-decides validity; this only keeps the generator from emitting invalid inputs.)
func validRegionInt(loops [][]ipt, oriented bool) bool {
	for _, l := range loops {
		if !isSimple(l) {
			return false
		}
	}
	for i := range loops {
		for j := i + 1; j < len(loops); j++ {
			if boundariesTouch(loops[i], loops[j]) {
				return false
			}
		}
	}
	if oriented {
		for i, l := range loops {
			if (depthOf(loops, i)%2 == 0) != (area2(l) < 0) {
				return false
			}
		}
	}
	return true
}

// jitterGeneral: blow the lattice up by 256 and move every vertex by up to 8 units, until the
// result is a valid region (same nesting and orientations) in general position.  nil on failure.
func jitterGeneral(rng *rand.Rand, loops [][]ipt, oriented bool) [][]ipt {
	const M, J = 256, 8
	for try := 0; try < 12; try++ {
		out := make([][]ipt, len(loops))
		var all []ipt
		for i, l := range loops {
			out[i] = mapPts(l, func(p ipt) ipt {
				return ipt{p.x*M + rng.Int63n(2*J+1) - J, p.y*M + rng.Int63n(2*J+1) - J}
			})
			all = append(all, out[i]...)
		}
		if !validRegionInt(out, oriented) || !generalPosition(all) {
			continue
		}
		ok := true
		for i := range loops {
			if (area2(loops[i]) < 0) != (area2(out[i]) < 0) || depthOf(loops, i) != depthOf(out, i) {
				ok = false
			}
		}
		if ok {
			return out
		}
	}
	return nil
}

// placed: give region r a non-unit placement.  With a non-dyadic factor the region is first put
// in general position; if that fails the placement falls back to a dyadic one.
func placed(rng *rand.Rand, r *region, nonDyadic, oriented bool) *region {
	sc := pickScale(rng, nonDyadic)
	out := &region{den: r.den, loops: r.loops, sc: sc}
	if sc.f != 0 {
		j := jitterGeneral(rng, r.loops, oriented)
		if j == nil {
			out.sc = pickDyadic(rng)
		} else {
			out.loops = j
			if rng.Intn(2) == 0 {
				out.sc.th = 0.01 + rng.Float64()*6.27
			}
		}
	}
	return out
}
