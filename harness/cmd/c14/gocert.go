package main

import "sort"

// goCert is an UNTRUSTED replica of the Lean certificate checker, in integer arithmetic.
// It only feeds the #stat distribution counters (which reasons occur how often); the verdict is
// the Lean driver's.
//
// wantSign: -1 all triangles clockwise, +1 counter-clockwise, 0 = same sign as the region.
func goCert(r *region, tris []itri, refine bool, wantSign int) string {
	return goCertW(r, tris, refine, wantSign, false)
}

// goCertW: weak = zero-area triangles tolerated.
func goCertW(r *region, tris []itri, refine bool, wantSign int, weak bool) string {
	all := r.all()
	for _, t := range tris {
		for _, v := range t {
			if v < 0 || v >= len(all) {
				return "foreign"
			}
		}
	}
	if wantSign == 0 {
		wantSign = sgn(-r.area2cw())
	}
	var sum int64
	for _, t := range tris {
		o := orient(all[t[0]], all[t[1]], all[t[2]])
		if o == 0 && weak {
			continue
		}
		if o == 0 {
			return "degenerate"
		}
		if sgn(o) != wantSign {
			return "orientation"
		}
		sum += o
	}
	type edge [2]int
	split := func(a, b int) []edge {
		if !refine {
			return []edge{{a, b}}
		}
		var mid []int
		for v := range all {
			if v != a && v != b && onSeg(all[a], all[b], all[v]) {
				mid = append(mid, v)
			}
		}
		d := func(v int) int64 {
			return (all[v].x-all[a].x)*(all[b].x-all[a].x) + (all[v].y-all[a].y)*(all[b].y-all[a].y)
		}
		sort.Slice(mid, func(i, j int) bool { return d(mid[i]) < d(mid[j]) })
		var es []edge
		prev := a
		for _, v := range mid {
			es = append(es, edge{prev, v})
			prev = v
		}
		return append(es, edge{prev, b})
	}
	cnt := map[edge]int{}
	for _, t := range tris {
		for k := 0; k < 3; k++ {
			for _, e := range split(t[k], t[(k+1)%3]) {
				cnt[e]++
			}
		}
	}
	bnd := map[edge]bool{}
	off := 0
	for _, l := range r.loops {
		for i := range l {
			a, b := off+i, off+(i+1)%len(l)
			if wantSign != sgn(-r.area2cw()) {
				a, b = b, a
			}
			for _, e := range split(a, b) {
				if bnd[e] {
					return "boundary-dup"
				}
				bnd[e] = true
			}
		}
		off += len(l)
	}
	for e, k := range cnt {
		if k != 1 {
			return "edge-twice"
		}
		rev := edge{e[1], e[0]}
		if bnd[e] {
			if cnt[rev] != 0 {
				return "boundary-reversed"
			}
		} else if cnt[rev] != 1 {
			return "unmatched-edge"
		}
	}
	for e := range bnd {
		if cnt[e] != 1 {
			return "boundary-missing"
		}
	}
	if sum != -r.area2cw()*int64(sgn(-r.area2cw())*wantSign) {
		return "area"
	}
	return "ok"
}
