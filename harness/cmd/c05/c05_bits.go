package main

import (
	"fmt"
	"math"

	"github.com/unixpickle/model3d/model2d"
	"github.com/unixpickle/model3d/model3d"
	"github.com/unixpickle/model3d/toolbox3d"
	"verif/harness/hlib"
)

// Bits mode: arbitrary doubles (nothing is exact), the Lean model is run at Float with the same
// operations in the same order and must agree bit for bit.  Rotations are made by the REAL
// Rotation()/NewMatrix3Rotation(); the model of NewMatrix3Rotation gets Go's own math.Cos/math.Sin
// values as inputs (sin/cos are not part of the model).

func h3(p model3d.Coord3D) string { return hxl(p.X, p.Y, p.Z) }

func (g *gen) f() float64 { return g.c.Rng.NormFloat64() * 3 }

func (g *gen) fp3() model3d.Coord3D { return model3d.XYZ(g.f(), g.f(), g.f()) }

// unitAxis draws a unit vector: random, axis-aligned, or with two equal components (the
// comparisons inside OrthoBasis).
func (g *gen) unitAxis() model3d.Coord3D {
	switch g.c.Rng.Intn(5) {
	case 0:
		arr := [3]float64{}
		arr[g.c.Rng.Intn(3)] = g.sign()
		return model3d.NewCoord3DArray(arr)
	case 1:
		v := g.fp3()
		v.Y = v.X
		return v.Normalize()
	case 2:
		v := g.fp3()
		v.X = 0
		return v.Normalize()
	}
	return g.fp3().Normalize()
}

func (g *gen) angle() float64 {
	switch g.c.Rng.Intn(5) {
	case 0:
		return []float64{0, math.Pi / 2, math.Pi, -math.Pi / 2, math.Pi / 3, 2 * math.Pi}[g.c.Rng.Intn(6)]
	}
	return (g.c.Rng.Float64()*2 - 1) * 7
}

// fprim draws a primitive transform with arbitrary double parameters.
func (g *gen) fprim(distOnly bool) *xf {
	for {
		switch g.c.Rng.Intn(6) {
		case 0:
			return &xf{kind: 'T', v: [3]float64{g.f(), g.f(), g.f()}}
		case 1:
			return &xf{kind: 'S', s: g.sign() * (0.2 + g.c.Rng.Float64()*3)}
		case 2:
			if distOnly {
				continue
			}
			return &xf{kind: 'V', v: [3]float64{g.sign() * (0.2 + g.c.Rng.Float64()*3), g.sign() * (0.2 + g.c.Rng.Float64()*3), g.sign() * (0.2 + g.c.Rng.Float64()*3)}}
		case 3:
			if distOnly {
				continue
			}
			m := make([]float64, 9)
			for i := range m {
				m[i] = g.f()
			}
			return &xf{kind: 'M', m: m}
		case 4:
			// a REAL rotation: the matrix is whatever Rotation() computed
			t := model3d.Rotation(g.unitAxis(), g.angle())
			m, _ := model3d.VerifOrthoMatrix(t)
			g.c.Stat("bits.rotation", 1)
			return &xf{kind: 'O', m: append([]float64{}, m[:]...)}
		case 5:
			if distOnly {
				continue
			}
			lo := g.f()
			return &xf{kind: 'Q', axis: g.c.Rng.Intn(3), lo: lo, hi: lo + g.c.Rng.Float64()*4, ratio: 0.05 + g.c.Rng.Float64()*2}
		}
	}
}

func (g *gen) ftransform(distOnly bool, depth int) *xf {
	if depth >= 2 || g.c.Rng.Intn(10) < 5 {
		return g.fprim(distOnly)
	}
	x := &xf{kind: 'J'}
	for n := g.c.Rng.Intn(5); n > 0; n-- {
		x.subs = append(x.subs, g.ftransform(distOnly, depth+1))
	}
	return x
}

type stubSDF3 struct {
	v    float64
	seen []model3d.Coord3D
}

func (s *stubSDF3) Min() model3d.Coord3D { return model3d.XYZ(-1.5, -2.25, -0.7) }
func (s *stubSDF3) Max() model3d.Coord3D { return model3d.XYZ(1.1, 2.3, 3.9) }
func (s *stubSDF3) SDF(c model3d.Coord3D) float64 {
	s.seen = append(s.seen, c)
	return s.v
}

func runBits(c *hlib.Ctx) {
	g := &gen{c: c, dim: 3}
	n := c.N
	// NewMatrix3Rotation / OrthoBasis / NewMatrix2Rotation
	for i := 0; i < n; i++ {
		axis := g.unitAxis()
		theta := g.angle()
		b1, b2 := axis.OrthoBasis()
		c.Emit("c05 bits.ortho3 "+h3(axis), h3(b1)+" "+h3(b2))
		m := model3d.NewMatrix3Rotation(axis, theta)
		c.Emit(fmt.Sprintf("c05 bits.rotm3 %s %s", h3(axis), hxl(math.Cos(theta), math.Sin(theta))), hxl(m[:]...))
		m2 := model2d.NewMatrix2Rotation(theta)
		c.Emit("c05 bits.rotm2 "+hxl(math.Cos(theta), math.Sin(theta)), hxl(m2[:]...))
	}
	// every Transform method on arbitrary doubles, rotations included
	for i := 0; i < n; i++ {
		x := g.ftransform(false, 0)
		t := x.build3()
		p := g.fp3()
		c.Emit(fmt.Sprintf("c05 bits.fapply3 %s %s", x.tokensHex(3), h3(p)), h3(t.Apply(p)))
		a, b := g.fp3(), g.fp3()
		lo, hi := a.Min(b), a.Max(b)
		nlo, nhi := t.ApplyBounds(lo, hi)
		c.Emit(fmt.Sprintf("c05 bits.fbounds3 %s %s %s", x.tokensHex(3), h3(lo), h3(hi)), h3(nlo)+" "+h3(nhi))
		c.Emit("c05 bits.finvdesc3 "+x.tokensHex(3), describeHex3(t.Inverse()))
		// TransformSolid over a Rect (panics on invalid/NaN bounds are part of the behaviour; skip those)
		res := guardPanic(func() string {
			ts := model3d.TransformSolid(t, model3d.NewRect(lo, hi))
			q := g.fp3()
			if c.Rng.Intn(2) == 0 {
				q = t.Apply(lo.Mid(hi))
			}
			return fmt.Sprintf("%s %s %s\x00%s", bstr(ts.Contains(q)), h3(ts.Min())+" "+h3(ts.Max()), h3(t.Inverse().Apply(q)), h3(q))
		})
		if res != "panic" {
			var out, q string
			for j := 0; j < len(res); j++ {
				if res[j] == 0 {
					out, q = res[:j], res[j+1:]
				}
			}
			c.Emit(fmt.Sprintf("c05 bits.fsolidr3 %s %s %s %s", x.tokensHex(3), h3(lo), h3(hi), q), out)
		} else {
			c.Stat("bits.solid-invalid-bounds", 1)
		}
	}
	// DistTransforms: ApplyDistance, TransformSDF, transformedCollider
	for i := 0; i < n; i++ {
		x := g.ftransform(true, 0)
		t := x.build3().(model3d.DistTransform)
		d := g.f()
		c.Emit(fmt.Sprintf("c05 bits.fappdist3 %s %s", x.tokensHex(3), hx(d)), hx(t.ApplyDistance(d)))
		r := model3d.Ray{Origin: g.fp3(), Direction: g.fp3()}
		st := &stub3{}
		tc := model3d.TransformCollider(t, st)
		tc.RayCollisions(&r, func(model3d.RayCollision) {})
		c.Emit(fmt.Sprintf("c05 bits.finner3 %s %s %s", x.tokensHex(3), h3(r.Origin), h3(r.Direction)),
			h3(st.rays[0].Origin)+" "+h3(st.rays[0].Direction))
		h := model3d.RayCollision{Scale: math.Abs(g.f()), Normal: g.fp3().Normalize()}
		st = &stub3{hits: []model3d.RayCollision{h}}
		tc = model3d.TransformCollider(t, st)
		var got string
		tc.RayCollisions(&r, func(rc model3d.RayCollision) { got = hx(rc.Scale) + " " + h3(rc.Normal) })
		c.Emit(fmt.Sprintf("c05 bits.fouter3 %s %s %s", x.tokensHex(3), hx(h.Scale), h3(h.Normal)), got)
		ctr, rad := g.fp3(), math.Abs(g.f())
		st = &stub3{}
		model3d.TransformCollider(t, st).SphereCollision(ctr, rad)
		if len(st.sphC) > 0 {
			c.Emit(fmt.Sprintf("c05 bits.fsphin3 %s %s %s", x.tokensHex(3), h3(ctr), hx(rad)), h3(st.sphC[0])+" "+hx(st.sphR[0]))
		} else {
			// answered without asking the wrapped collider: judged by the exact kinds (sphin3 / sphc3)
			c.Stat("bits.fsphin3.not-asked", 1)
		}
		sd := &stubSDF3{v: g.f()}
		p := g.fp3()
		res := guardPanic(func() string {
			ts := model3d.TransformSDF(t, sd)
			v := ts.SDF(p)
			return hx(v) + " " + h3(ts.Min()) + " " + h3(ts.Max()) + " " + h3(sd.seen[0])
		})
		c.Emit(fmt.Sprintf("c05 bits.fsdf3 %s %s %s %s %s", x.tokensHex(3), h3(sd.Min()), h3(sd.Max()), h3(p), hx(sd.v)), res)
	}
}

func describeHex3(t model3d.Transform) string {
	if m, ok := model3d.VerifOrthoMatrix(t); ok {
		return "O " + hxl(m[:]...)
	}
	switch t := t.(type) {
	case *model3d.Translate:
		return "T " + h3(t.Offset)
	case *model3d.Scale:
		return "S " + hx(t.Scale)
	case *model3d.VecScale:
		return "V " + h3(t.Scale)
	case *model3d.Matrix3Transform:
		return "M " + hxl(t.Matrix[:]...)
	case *toolbox3d.AxisSqueeze:
		return fmt.Sprintf("Q %d %s", int(t.Axis), hxl(t.Min, t.Max, t.Ratio))
	case model3d.JoinedTransform:
		s := fmt.Sprintf("J %d", len(t))
		for _, u := range t {
			s += " " + describeHex3(u)
		}
		return s
	}
	return fmt.Sprintf("unknown:%T", t)
}

// runPinchBits: toolbox3d.AxisPinch.Apply / Inverse for a sweep of powers on arbitrary doubles.
// math.Pow is a parameter of the model; its value at the one argument Apply passes to it is computed
// here with the same expression sequence and handed to the Float run as a one-entry table.
func runPinchBits(c *hlib.Ctx) {
	g := &gen{c: c, dim: 3}
	powers := []float64{toolbox3d.DefaultPinchPower, 0.5, 1.0 / 3, 2, 3, 1.7, 0.1, 4, 1, 0.75}
	for i := 0; i < c.N; i++ {
		power := powers[c.Rng.Intn(len(powers))]
		if c.Rng.Intn(4) == 0 {
			power = 0.05 + c.Rng.Float64()*5
		}
		lo := g.f()
		hi := lo + 0.01 + c.Rng.Float64()*6
		axis := c.Rng.Intn(3)
		a := &toolbox3d.AxisPinch{Axis: toolbox3d.Axis(axis), Min: lo, Max: hi, Power: power}
		p := g.fp3()
		arr := p.Array()
		switch c.Rng.Intn(6) {
		case 0:
			arr[axis] = lo - c.Rng.Float64()
		case 1:
			arr[axis] = hi + c.Rng.Float64()
		case 2:
			arr[axis] = []float64{lo, hi, (lo + hi) / 2}[c.Rng.Intn(3)]
		case 3:
			// near the centre of the range, at every scale down to the rounding of the centre itself
			e := -1 - c.Rng.Intn(48)
			arr[axis] = (lo+hi)/2 + g.sign()*(0.5+c.Rng.Float64()/2)*math.Ldexp((hi-lo)/2, e)
			c.Stat(fmt.Sprintf("pinchbits.near-centre.2^-%d0s", -e/10), 1)
		default:
			arr[axis] = lo + c.Rng.Float64()*(hi-lo)
		}
		p = model3d.NewCoord3DArray(arr)
		var t1, pw float64
		if !(arr[axis] < lo || arr[axis] > hi) {
			center := (a.Min + a.Max) / 2
			scale := (a.Max - a.Min) / 2
			t := (arr[axis] - center) / scale
			if t < 0 {
				t = -t
			}
			t1, pw = t, math.Pow(t, power)
			c.Stat("pinchbits.in-range", 1)
		}
		c.Emit(fmt.Sprintf("c05 bits.fpinch %d %s %s %s", axis, hxl(lo, hi), hxl(t1, pw), h3(p)), h3(a.Apply(p)))
		inv := a.Inverse().(*toolbox3d.AxisPinch)
		c.Emit("c05 bits.fpinchinv "+hx(power), hx(inv.Power))
	}
}

// ---- 2-D bits mode

func h2(p model2d.Coord) string { return hxl(p.X, p.Y) }

func (g *gen) fp2() model2d.Coord { return model2d.XY(g.f(), g.f()) }

func (g *gen) fprim2(distOnly bool) *xf {
	for {
		switch g.c.Rng.Intn(5) {
		case 0:
			return &xf{kind: 'T', v: [3]float64{g.f(), g.f(), 0}}
		case 1:
			return &xf{kind: 'S', s: g.sign() * (0.2 + g.c.Rng.Float64()*3)}
		case 2:
			if distOnly {
				continue
			}
			return &xf{kind: 'V', v: [3]float64{g.sign() * (0.2 + g.c.Rng.Float64()*3), g.sign() * (0.2 + g.c.Rng.Float64()*3), 0}}
		case 3:
			if distOnly {
				continue
			}
			return &xf{kind: 'M', m: []float64{g.f(), g.f(), g.f(), g.f()}}
		default:
			t := model2d.Rotation(g.angle()) // the REAL rotation
			m, _ := model2d.VerifOrthoMatrix(t)
			g.c.Stat("bits.rotation2", 1)
			return &xf{kind: 'O', m: append([]float64{}, m[:]...)}
		}
	}
}

func (g *gen) ftransform2(distOnly bool, depth int) *xf {
	if depth >= 2 || g.c.Rng.Intn(10) < 5 {
		return g.fprim2(distOnly)
	}
	x := &xf{kind: 'J'}
	for n := g.c.Rng.Intn(5); n > 0; n-- {
		x.subs = append(x.subs, g.ftransform2(distOnly, depth+1))
	}
	return x
}

func describeHex2(t model2d.Transform) string {
	if m, ok := model2d.VerifOrthoMatrix(t); ok {
		return "O " + hxl(m[:]...)
	}
	switch t := t.(type) {
	case *model2d.Translate:
		return "T " + h2(t.Offset)
	case *model2d.Scale:
		return "S " + hx(t.Scale)
	case *model2d.VecScale:
		return "V " + h2(t.Scale)
	case *model2d.Matrix2Transform:
		return "M " + hxl(t.Matrix[:]...)
	case model2d.JoinedTransform:
		s := fmt.Sprintf("J %d", len(t))
		for _, u := range t {
			s += " " + describeHex2(u)
		}
		return s
	}
	return fmt.Sprintf("unknown:%T", t)
}

func runBits2(c *hlib.Ctx) {
	g := &gen{c: c, dim: 2}
	for i := 0; i < c.N; i++ {
		x := g.ftransform2(false, 0)
		t := x.build2()
		p := g.fp2()
		c.Emit(fmt.Sprintf("c05 bits.fapply2 %s %s", x.tokensHex(2), h2(p)), h2(t.Apply(p)))
		a, b := g.fp2(), g.fp2()
		lo, hi := a.Min(b), a.Max(b)
		nlo, nhi := t.ApplyBounds(lo, hi)
		c.Emit(fmt.Sprintf("c05 bits.fbounds2 %s %s %s", x.tokensHex(2), h2(lo), h2(hi)), h2(nlo)+" "+h2(nhi))
		c.Emit("c05 bits.finvdesc2 "+x.tokensHex(2), describeHex2(t.Inverse()))
		q := g.fp2()
		if c.Rng.Intn(2) == 0 {
			q = t.Apply(lo.Mid(hi))
		}
		res := guardPanic(func() string {
			ts := model2d.TransformSolid(t, model2d.NewRect(lo, hi))
			return bstr(ts.Contains(q)) + " " + h2(ts.Min()) + " " + h2(ts.Max())
		})
		if res != "panic" {
			c.Emit(fmt.Sprintf("c05 bits.fsolidr2 %s %s %s %s", x.tokensHex(2), h2(lo), h2(hi), h2(q)), res)
		}

		y := g.ftransform2(true, 0)
		u := y.build2().(model2d.DistTransform)
		d := g.f()
		c.Emit(fmt.Sprintf("c05 bits.fappdist2 %s %s", y.tokensHex(2), hx(d)), hx(u.ApplyDistance(d)))
		r := model2d.Ray{Origin: g.fp2(), Direction: g.fp2()}
		st := &stub2{}
		model2d.TransformCollider(u, st).RayCollisions(&r, func(model2d.RayCollision) {})
		c.Emit(fmt.Sprintf("c05 bits.finner2 %s %s %s", y.tokensHex(2), h2(r.Origin), h2(r.Direction)),
			h2(st.rays[0].Origin)+" "+h2(st.rays[0].Direction))
		h := model2d.RayCollision{Scale: math.Abs(g.f()), Normal: g.fp2().Normalize()}
		st = &stub2{hits: []model2d.RayCollision{h}}
		var got string
		model2d.TransformCollider(u, st).RayCollisions(&r, func(rc model2d.RayCollision) { got = hx(rc.Scale) + " " + h2(rc.Normal) })
		c.Emit(fmt.Sprintf("c05 bits.fouter2 %s %s %s", y.tokensHex(2), hx(h.Scale), h2(h.Normal)), got)
	}
}
