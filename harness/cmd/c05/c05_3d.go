package main

import (
	"fmt"
	"math"
	"strings"

	"github.com/unixpickle/model3d/model3d"
	"verif/harness/hlib"
)

func p3s(p model3d.Coord3D) string { return rsl(p.X, p.Y, p.Z) }

func (g *gen) p3() model3d.Coord3D { return model3d.XYZ(g.dy(), g.dy(), g.dy()) }

func (g *gen) box3() (model3d.Coord3D, model3d.Coord3D) {
	a, b := g.p3(), g.p3()
	if g.c.Rng.Intn(8) == 0 {
		b.X = a.X // degenerate (flat) box
		g.c.Stat("box.flat", 1)
	}
	return a.Min(b), a.Max(b)
}

func (g *gen) inBox3(lo, hi model3d.Coord3D) model3d.Coord3D {
	pick := func(a, b float64) float64 {
		switch g.c.Rng.Intn(4) {
		case 0:
			return a
		case 1:
			return b
		}
		n := int(math.Round((b - a) * 8))
		return a + float64(g.c.Rng.Intn(n+1))/8
	}
	return model3d.XYZ(pick(lo.X, hi.X), pick(lo.Y, hi.Y), pick(lo.Z, hi.Z))
}

// stub3 is a recording collider standing for "any inner collider": it reports a fixed list
// of collisions and remembers what it was asked.
type stub3 struct {
	hits     []model3d.RayCollision
	rays     []model3d.Ray
	sphC     []model3d.Coord3D
	sphR     []float64
	sphReply bool
}

func (s *stub3) Min() model3d.Coord3D { return model3d.XYZ(-1, -2, -3) }
func (s *stub3) Max() model3d.Coord3D { return model3d.XYZ(1, 2, 3) }
func (s *stub3) RayCollisions(r *model3d.Ray, f func(model3d.RayCollision)) int {
	s.rays = append(s.rays, *r)
	for _, h := range s.hits {
		if f != nil {
			f(h)
		}
	}
	return len(s.hits)
}
func (s *stub3) FirstRayCollision(r *model3d.Ray) (model3d.RayCollision, bool) {
	s.rays = append(s.rays, *r)
	if len(s.hits) == 0 {
		return model3d.RayCollision{}, false
	}
	return s.hits[0], true
}
func (s *stub3) SphereCollision(c model3d.Coord3D, r float64) bool {
	s.sphC = append(s.sphC, c)
	s.sphR = append(s.sphR, r)
	return s.sphReply
}

// affMB3 wraps a real metaball, replacing the (identity) distance bound of the primitive shapes
// by a non-trivial non-decreasing one, so that the argument passed to it is observable.
type affMB3 struct {
	model3d.Metaball
	a, b float64
}

func (m affMB3) MetaballDistBound(d float64) float64 { return m.a*d + m.b }

func hit3s(rc model3d.RayCollision) string {
	return rs(rc.Scale) + " " + p3s(rc.Normal)
}

// linear3 is the image of a direction under the linear part of t.
func linear3(t model3d.Transform, o, d model3d.Coord3D) model3d.Coord3D {
	return t.Apply(o.Add(d)).Sub(t.Apply(o))
}

// collider3 draws a real collider whose normals are exactly representable unit vectors.
func (g *gen) collider3() (model3d.Collider, string) {
	switch g.c.Rng.Intn(3) {
	case 0:
		lo, hi := g.box3()
		hi = hi.Add(model3d.XYZ(0.5, 0.5, 0.5))
		return model3d.NewRect(lo, hi), "rect"
	case 1:
		ctr := model3d.XYZ(float64(g.c.Rng.Intn(9)-4), float64(g.c.Rng.Intn(9)-4), float64(g.c.Rng.Intn(9)-4))
		return &model3d.Sphere{Center: ctr, Radius: g.pow2(2)}, "sphere"
	default:
		// axis-aligned right triangle with power-of-two legs, moved by a signed permutation and a shift
		a, b := g.pow2(2), g.pow2(2)
		pts := [3]model3d.Coord3D{{}, {X: a}, {Y: b}}
		var m model3d.Matrix3
		copy(m[:], g.signedPerm())
		off := g.p3()
		tri := &model3d.Triangle{}
		for i, p := range pts {
			tri[i] = m.MulColumn(p).Add(off)
		}
		return tri, "triangle"
	}
}

// ray3 draws a ray aimed (mostly) at the collider; directions are not unit.
func (g *gen) ray3(c model3d.Collider) model3d.Ray {
	target := g.inBox3(c.Min(), c.Max())
	switch s := c.(type) {
	case *model3d.Sphere:
		if g.c.Rng.Intn(4) != 0 {
			h := s.Radius / 2
			target = s.Center.Add(model3d.XYZ(float64(g.c.Rng.Intn(3)-1)*h, float64(g.c.Rng.Intn(3)-1)*h, 0))
		}
	case *model3d.Triangle:
		if g.c.Rng.Intn(4) != 0 {
			w := [][3]float64{{0.5, 0.25, 0.25}, {0.25, 0.25, 0.5}, {0.5, 0.5, 0}, {1, 0, 0}, {0.25, 0.5, 0.25}}[g.c.Rng.Intn(5)]
			target = s[0].Scale(w[0]).Add(s[1].Scale(w[1])).Add(s[2].Scale(w[2]))
		}
	}
	var dir model3d.Coord3D
	switch g.c.Rng.Intn(3) {
	case 0: // axis ray
		arr := [3]float64{}
		arr[g.c.Rng.Intn(3)] = g.sign() * g.pow2(2)
		dir = model3d.NewCoord3DArray(arr)
	case 1:
		dir = model3d.XYZ(float64(g.c.Rng.Intn(5)-2), float64(g.c.Rng.Intn(5)-2), float64(g.c.Rng.Intn(5)-2)).Scale(0.5)
	default:
		dir = g.p3().Scale(0.25)
	}
	if b, ok := c.(*model3d.Sphere); ok && g.c.Rng.Intn(5) < 3 {
		// through the centre along an axis: the hit normals are exactly representable
		target = b.Center
		arr := [3]float64{}
		arr[g.c.Rng.Intn(3)] = g.sign() * g.pow2(2)
		dir = model3d.NewCoord3DArray(arr)
	}
	if dir == (model3d.Coord3D{}) {
		dir = model3d.X(2)
	}
	k := float64(g.c.Rng.Intn(9) - 2)
	return model3d.Ray{Origin: target.Sub(dir.Scale(k)), Direction: dir}
}

func run3(c *hlib.Ctx) {
	g := &gen{c: c, dim: 3}
	n := c.N

	// --- faithful kinds: the model of each method against the real method
	for i := 0; i < n; i++ {
		x := g.transform(false, 0)
		x.stat(c, "xf3")
		t := x.build3()
		p := g.p3()
		c.Emit(fmt.Sprintf("c05 apply3 %s %s", x.tokens(3), p3s(p)), p3s(t.Apply(p)))
		lo, hi := g.box3()
		nlo, nhi := t.ApplyBounds(lo, hi)
		c.Emit(fmt.Sprintf("c05 bounds3 %s %s %s", x.tokens(3), p3s(lo), p3s(hi)), p3s(nlo)+" "+p3s(nhi))
		c.Emit(fmt.Sprintf("c05 invdesc3 %s", x.tokens(3)), describe3(t.Inverse()))

		// --- property kinds: the driver answers with what the property demands
		inv := t.Inverse()
		c.Emit(fmt.Sprintf("c05 roundtrip3 %s %s", x.tokens(3), p3s(p)),
			p3s(inv.Apply(t.Apply(p)))+" "+p3s(t.Apply(inv.Apply(p))))
		q := g.inBox3(lo, hi)
		img := t.Apply(q)
		c.Emit(fmt.Sprintf("c05 encl3 %s %s %s %s", x.tokens(3), p3s(lo), p3s(hi), p3s(q)),
			bstr(img.Min(nlo) == nlo && img.Max(nhi) == nhi))
	}

	// --- distances (DistTransform kinds)
	for i := 0; i < n; i++ {
		x := g.distTransform()
		x.stat(c, "dxf3")
		t := x.build3().(model3d.DistTransform)
		p := g.p3()
		// q at an exactly representable distance from p
		var delta model3d.Coord3D
		switch c.Rng.Intn(3) {
		case 0:
			arr := [3]float64{}
			arr[c.Rng.Intn(3)] = g.dy()
			delta = model3d.NewCoord3DArray(arr)
		case 1:
			var m model3d.Matrix3
			copy(m[:], g.signedPerm())
			delta = m.MulColumn(model3d.XYZ(3, 4, 0)).Scale(g.pow2(2))
		default:
			var m model3d.Matrix3
			copy(m[:], g.signedPerm())
			delta = m.MulColumn(model3d.XYZ(2, 3, 6)).Scale(g.pow2(2)) // |.| = 7
		}
		q := p.Add(delta)
		d := p.Dist(q)
		c.Emit(fmt.Sprintf("c05 appdist3 %s %s", x.tokens(3), rs(d)), rs(t.ApplyDistance(d)))
		c.Emit(fmt.Sprintf("c05 dist3 %s %s %s", x.tokens(3), p3s(p), p3s(q)),
			rs(t.ApplyDistance(d))+" "+rs(t.Apply(p).Dist(t.Apply(q))))
	}

	// --- TransformSolid / TransformSDF / TransformMetaball on real shapes
	for i := 0; i < n; i++ {
		x := g.transform(false, 0)
		t := x.build3()
		var s model3d.Solid
		if c.Rng.Intn(2) == 0 {
			lo, hi := g.box3()
			s = model3d.NewRect(lo, hi)
		} else {
			s = &model3d.Sphere{Center: g.p3(), Radius: g.pow2(2)}
		}
		q := g.inBox3(s.Min().AddScalar(-0.5), s.Max().AddScalar(0.5))
		if c.Rng.Intn(2) == 0 {
			if b, ok := s.(*model3d.Sphere); ok {
				q = b.Center.Add(g.p3().Scale(b.Radius / 32))
			} else {
				q = g.inBox3(s.Min(), s.Max())
			}
		}
		inside := s.Contains(q)
		c.Stat("solid3.inside."+bstr(inside), 1)
		c.Emit(fmt.Sprintf("c05 solid3 %s %s %s %s %s", x.tokens(3), p3s(s.Min()), p3s(s.Max()), p3s(q), bstr(inside)),
			guardPanic(func() string {
				ts := model3d.TransformSolid(t, s)
				return bstr(ts.Contains(t.Apply(q))) + " " + p3s(ts.Min()) + " " + p3s(ts.Max())
			}))
		// arbitrary query point against a Rect solid (Rect.Contains is modelled)
		lo, hi := g.box3()
		rect := model3d.NewRect(lo, hi)
		var p model3d.Coord3D
		if k := c.Rng.Intn(3); k == 0 {
			p = g.p3()
		} else if k == 1 {
			p = t.Apply(g.inBox3(lo, hi))
		} else {
			nlo, nhi := t.ApplyBounds(lo, hi)
			p = g.inBox3(nlo.Min(nhi).AddScalar(-0.25), nlo.Max(nhi).AddScalar(0.25))
		}
		c.Emit(fmt.Sprintf("c05 solidr3 %s %s %s %s", x.tokens(3), p3s(lo), p3s(hi), p3s(p)), guardPanic(func() string {
			res := model3d.TransformSolid(t, rect).Contains(p)
			c.Stat("solidr3.inside."+bstr(res), 1)
			return bstr(res)
		}))
	}
	for i := 0; i < n; i++ {
		x := g.distTransform()
		t := x.build3().(model3d.DistTransform)
		var s interface {
			model3d.SDF
			model3d.Metaball
		}
		if c.Rng.Intn(2) == 0 {
			lo, hi := g.box3()
			s = model3d.NewRect(lo, hi.AddScalar(0.5))
		} else {
			s = &model3d.Sphere{Center: g.p3(), Radius: g.pow2(2)}
		}
		q := g.inBox3(s.Min().AddScalar(-1), s.Max().AddScalar(1))
		v := s.SDF(q)
		// the factor by which t changes distances, measured on two points one unit apart
		factor := t.Apply(q.Add(model3d.X(1))).Dist(t.Apply(q))
		c.Emit(fmt.Sprintf("c05 sdf3 %s %s %s %s %s", x.tokens(3), p3s(s.Min()), p3s(s.Max()), p3s(q), rs(v)),
			guardPanic(func() string {
				ts := model3d.TransformSDF(t, s)
				return rs(ts.SDF(t.Apply(q))) + " " + p3s(ts.Min()) + " " + p3s(ts.Max())
			}))
		mv := s.MetaballField(q)
		mb := affMB3{s, 3, 0.5}
		d := math.Abs(g.dy())
		c.Emit(fmt.Sprintf("c05 mball3 %s %s %s %s %s %s %s", x.tokens(3), p3s(s.Min()), p3s(s.Max()), p3s(q), rs(mv),
			rs(d), rs(mb.MetaballDistBound(d))),
			guardPanic(func() string {
				tm := model3d.TransformMetaball(t, mb)
				return rs(tm.MetaballField(t.Apply(q))) + " " + rs(tm.MetaballDistBound(d*factor)) + " " + p3s(tm.Min()) + " " + p3s(tm.Max())
			}))
		// VecScaleMetaball
		sc := model3d.XYZ(g.sign()*g.pow2(2), g.sign()*g.pow2(2), g.sign()*g.pow2(2))
		vm := model3d.VecScaleMetaball(mb, sc)
		c.Emit(fmt.Sprintf("c05 vmball3 %s %s %s %s %s %s %s", p3s(sc), p3s(s.Min()), p3s(s.Max()), p3s(q), rs(mv), rs(d), rsl(mb.a, mb.b)),
			rs(vm.MetaballField(q.Mul(sc)))+" "+rs(vm.MetaballDistBound(d))+" "+p3s(vm.Min())+" "+p3s(vm.Max()))
	}

	// --- transformedCollider, faithful kinds with the recording stub
	for i := 0; i < n; i++ {
		x := g.distTransform()
		t := x.build3().(model3d.DistTransform)
		r := model3d.Ray{Origin: g.p3(), Direction: g.p3()}
		st := &stub3{}
		tc := model3d.TransformCollider(t, st)
		tc.RayCollisions(&r, func(model3d.RayCollision) {})
		c.Emit(fmt.Sprintf("c05 inner3 %s %s %s", x.tokens(3), p3s(r.Origin), p3s(r.Direction)),
			p3s(st.rays[0].Origin)+" "+p3s(st.rays[0].Direction))
		// outer collision for an axis-aligned unit normal (so renormalisation, if any, is exact)
		arr := [3]float64{}
		arr[c.Rng.Intn(3)] = g.sign()
		h := model3d.RayCollision{Scale: math.Abs(g.dy()), Normal: model3d.NewCoord3DArray(arr)}
		st = &stub3{hits: []model3d.RayCollision{h}}
		tc = model3d.TransformCollider(t, st)
		var got []string
		tc.RayCollisions(&r, func(rc model3d.RayCollision) { got = append(got, hit3s(rc)) })
		c.Emit(fmt.Sprintf("c05 outer3 %s %s", x.tokens(3), hit3s(h)), strings.Join(got, "|"))
		// nil callback, k inner hits
		k := c.Rng.Intn(3)
		st = &stub3{}
		for j := 0; j < k; j++ {
			st.hits = append(st.hits, h)
		}
		tc = model3d.TransformCollider(t, st)
		c.Emit(fmt.Sprintf("c05 nilcb3 %s %d", x.tokens(3), k), guardPanic(func() string {
			return fmt.Sprint(tc.RayCollisions(&r, nil))
		}))
		// sphere query as seen by the inner collider
		ctr, rad := g.p3(), math.Abs(g.dy())
		st = &stub3{sphReply: c.Rng.Intn(2) == 0}
		tc = model3d.TransformCollider(t, st)
		got1 := tc.SphereCollision(ctr, rad)
		if seen, ok := sphSeen3(c, st, []*xf{x}, ctr, rad, got1); ok {
			c.Emit(fmt.Sprintf("c05 sphin3 %s %s %s %s", x.tokens(3), p3s(ctr), rs(rad), bstr(st.sphReply)), seen)
		}
		lo, hi := tc.Min(), tc.Max()
		c.Emit(fmt.Sprintf("c05 cbounds3 %s %s %s", x.tokens(3), p3s(st.Min()), p3s(st.Max())), p3s(lo)+" "+p3s(hi))
	}

	// --- transformedCollider on REAL colliders: the conjugacy law itself.
	// inner ray (o',d') is drawn first, the outer ray is its image; the inner collider's own
	// answers on (o',d') are part of the case, the driver answers with what the property demands.
	// the textbook cases first: unit ball translated by (5,0,…), scaled by 2, both, hit along the x axis
	unit := &model3d.Sphere{Radius: 1}
	axis := model3d.Ray{Origin: model3d.X(-3), Direction: model3d.X(1)}
	fixed := []*xf{{kind: 'T', v: [3]float64{5, 0, 0}}, {kind: 'S', s: 2},
		{kind: 'J', subs: []*xf{{kind: 'S', s: 2}, {kind: 'T', v: [3]float64{5, 0, 0}}}}}
	for _, x := range fixed {
		g.emitColl3(x, unit, "unit-ball", axis)
	}
	for i := 0; i < 2*n; i++ {
		x := g.distTransform()
		col, cname := g.collider3()
		g.emitColl3(x, col, cname, g.ray3(col))
	}
}

// sphereOutside3 draws a query sphere whose centre lies OUTSIDE the bounding box of the collider, at a
// distance d from one face (the other coordinates inside the box or slightly beyond it), with a radius
// between d/2 and 4d: spheres that just miss, just reach and clearly overlap the box from outside,
// at several scales (d = 2^-3 .. 2^2).
func (g *gen) sphereOutside3(col model3d.Collider) (model3d.Coord3D, float64) {
	lo, hi := col.Min(), col.Max()
	q := g.inBox3(lo, hi).Array()
	d := math.Ldexp(1, g.c.Rng.Intn(6)-3)
	ax := g.c.Rng.Intn(3)
	if g.c.Rng.Intn(2) == 0 {
		q[ax] = hi.Array()[ax] + d
	} else {
		q[ax] = lo.Array()[ax] - d
	}
	if g.c.Rng.Intn(4) == 0 { // off a second face too (edge / corner region)
		ax2 := (ax + 1 + g.c.Rng.Intn(2)) % 3
		q[ax2] = hi.Array()[ax2] + d/2
	}
	rad := d * []float64{0.5, 1, 1.125, 1.25, 1.5, 2, 3, 4}[g.c.Rng.Intn(8)]
	return model3d.NewCoord3DArray(q), rad
}

// statSphere3 records how often a sphere query is of the kind where the outer and the inner view differ:
// the centre outside the outer bounds, the sphere reaching them, and a distance factor above / below 1.
func (g *gen) statSphere3(kind string, col model3d.Collider, q model3d.Coord3D, rad, orad float64) {
	boxDist := q.Dist(q.Max(col.Min()).Min(col.Max()))
	if boxDist == 0 || rad == 0 {
		return
	}
	cls := "same-scale"
	if orad > rad {
		cls = "enlarging"
	} else if orad < rad {
		cls = "shrinking"
	}
	reach := "missing-box"
	if boxDist <= rad {
		reach = "reaching-box"
		if boxDist*orad/rad > rad {
			// the box distance measured in one space exceeds the radius measured in the other
			reach = "reaching-box.mixed-units-would-miss"
		}
	}
	g.c.Stat(kind+".outside."+cls+"."+reach, 1)
}

// emitColl3: one transformed-collider case on a real collider (see run3).
func (g *gen) emitColl3(x *xf, col model3d.Collider, cname string, ir model3d.Ray) {
	c := g.c
	t := x.build3().(model3d.DistTransform)
	or := model3d.Ray{Origin: t.Apply(ir.Origin), Direction: linear3(t, ir.Origin, ir.Direction)}
	var inner []model3d.RayCollision
	cnt := col.RayCollisions(&ir, func(rc model3d.RayCollision) { inner = append(inner, rc) })
	nice := true
	for _, h := range inner {
		if !niceNorm(h.Normal.NormSquared()) || !fewBits(h.Normal.X, h.Normal.Y, h.Normal.Z) {
			nice = false
		}
	}
	if !nice {
		c.Stat("coll3.skipped-inexact-normal", 1)
		return
	}
	c.Stat(fmt.Sprintf("coll3.%s.hits%d", cname, cnt), 1)
	x.stat(c, "cxf3")
	tc := model3d.TransformCollider(t, col)
	innerStr := make([]string, len(inner))
	for j, h := range inner {
		innerStr[j] = hit3s(h)
	}
	head := fmt.Sprintf("%s %s %s %s %s %d %d %s", x.tokens(3), p3s(or.Origin), p3s(or.Direction),
		p3s(ir.Origin), p3s(ir.Direction), cnt, len(inner), strings.Join(innerStr, " "))
	head = strings.TrimSpace(head)
	c.Emit("c05 coll3 cb "+head, guardPanic(func() string {
		var got []string
		k := tc.RayCollisions(&or, func(rc model3d.RayCollision) { got = append(got, hit3s(rc)) })
		return strings.TrimSpace(fmt.Sprintf("%d %s", k, strings.Join(got, "|")))
	}))
	c.Emit("c05 coll3 nil "+head, guardPanic(func() string {
		return fmt.Sprint(tc.RayCollisions(&or, nil))
	}))
	frc, fok := col.FirstRayCollision(&ir)
	fhead := fmt.Sprintf("%s %s %s %s %s %s", x.tokens(3), p3s(or.Origin), p3s(or.Direction),
		p3s(ir.Origin), p3s(ir.Direction), bstr(fok))
	if fok {
		fhead += " " + hit3s(frc)
	}
	c.Emit("c05 first3 "+fhead, guardPanic(func() string {
		rc, ok := tc.FirstRayCollision(&or)
		if !ok {
			return "miss"
		}
		return "hit " + hit3s(rc)
	}))
	// sphere query: centre q, radius r in the original space; the outer radius is the
	// distance between the images of q and of a point r away from it.
	q := g.inBox3(col.Min().AddScalar(-1), col.Max().AddScalar(1))
	rad := math.Abs(g.dy())
	if g.c.Rng.Intn(2) == 0 {
		q, rad = g.sphereOutside3(col)
	}
	orad := t.Apply(q.Add(model3d.X(rad))).Dist(t.Apply(q))
	g.statSphere3("sphc3", col, q, rad, orad)
	want := col.SphereCollision(q, rad)
	c.Stat("sphc3.inner."+bstr(want), 1)
	c.Emit(fmt.Sprintf("c05 sphc3 %s %s %s %s %s %s", x.tokens(3), p3s(t.Apply(q)), rs(orad), p3s(q), rs(rad), bstr(want)),
		bstr(tc.SphereCollision(t.Apply(q), orad)))
}
