package main

import (
	"fmt"
	"math"
	"strings"

	"github.com/unixpickle/model3d/model3d"
	"verif/harness/hlib"
)

// Nested wrappers (3-D): TransformX(tk, … TransformX(t1, obj)) with 2..4 members that do not all
// commute.  The op line carries the members as "N k t1 … tk" (t1 innermost); everything else on the
// line is as in the single-wrap kind of the same name.  The Lean driver folds the model's wrapper over
// the list and answers with what the property demands for the composite t1;…;tk (theorems
// nested_solid / nested_sdf_metaball / nested_collider: the nested wrapper IS the wrapper of
// JoinedTransform{t1,…,tk}).  Images are computed here by applying the members one after the other
// (no JoinedTransform is involved on this side).

func nestTokens(xs []*xf, dim int) string {
	parts := []string{fmt.Sprintf("N %d", len(xs))}
	for _, x := range xs {
		parts = append(parts, x.tokens(dim))
	}
	return strings.Join(parts, " ")
}

// scaleBits bounds the number of binary digits a transform can shift a coordinate by (in either
// direction); nested instances keep the total small so that every float64 operation stays exact.
func (x *xf) scaleBits() int {
	l2 := func(v float64) int {
		if v == 0 {
			return 0
		}
		_, e := math.Frexp(math.Abs(v))
		if e-1 < 0 {
			return 1 - e
		}
		return e - 1
	}
	switch x.kind {
	case 'S':
		return l2(x.s)
	case 'V':
		m := 0
		for _, v := range x.v {
			if b := l2(v); b > m {
				m = b
			}
		}
		return m
	case 'M':
		return 6
	case 'Q':
		return l2(x.ratio)
	case 'J':
		n := 0
		for _, s := range x.subs {
			n += s.scaleBits()
		}
		return n
	}
	return 0
}

func isIdentityPerm(m []float64, d int) bool {
	for i := 0; i < d; i++ {
		for j := 0; j < d; j++ {
			want := 0.0
			if i == j {
				want = 1
			}
			if m[i*d+j] != want {
				return false
			}
		}
	}
	return true
}

// nestMembers draws 2..4 wrapper transforms, innermost first.  A translation with a non-zero offset
// and a non-trivial linear member (scale ≠ ±1, non-identity quarter turn / axis permutation, a
// reflecting join, and — unless distOnly — a per-axis scale, an integer matrix or a squeeze) are
// always present, in random positions, so the members do not all commute.
func (g *gen) nestMembers(distOnly bool) []*xf {
	for {
		k := 2 + g.c.Rng.Intn(3)
		t := &xf{kind: 'T'}
		for i := 0; i < g.dim; i++ {
			for t.v[i] == 0 {
				if g.c.Rng.Intn(2) == 0 {
					t.v[i] = float64(g.c.Rng.Intn(17) - 8)
				} else {
					t.v[i] = g.dy()
				}
			}
		}
		var lin *xf
		nk := 3
		if !distOnly {
			nk = 6
		}
		switch g.c.Rng.Intn(nk) {
		case 0:
			e := []int{-2, -1, 1, 2}[g.c.Rng.Intn(4)]
			lin = &xf{kind: 'S', s: g.sign() * math.Ldexp(1, e)}
		case 1:
			m := g.signedPerm()
			for isIdentityPerm(m, g.dim) {
				m = g.signedPerm()
			}
			lin = &xf{kind: 'O', m: m}
		case 2:
			lin = g.reflJoin()
		case 3:
			lin = &xf{kind: 'V'}
			for i := 0; i < g.dim; i++ {
				lin.v[i] = g.sign() * math.Ldexp(1, i+1-g.dim)
			}
		case 4:
			lin = &xf{kind: 'M', m: g.intMatrix()}
		default:
			if g.dim == 2 {
				lin = &xf{kind: 'M', m: g.intMatrix()}
			} else {
				lo := g.c.Dyadic(4, 2)
				lin = &xf{kind: 'Q', axis: g.c.Rng.Intn(3), lo: lo, hi: lo + float64(g.c.Rng.Intn(16)+1)/4,
					ratio: math.Ldexp(1, -(g.c.Rng.Intn(2) + 1))}
			}
		}
		xs := []*xf{t, lin}
		for len(xs) < k {
			if distOnly {
				xs = append(xs, g.distTransform())
			} else {
				xs = append(xs, g.transform(false, 1))
			}
		}
		g.c.Rng.Shuffle(len(xs), func(i, j int) { xs[i], xs[j] = xs[j], xs[i] })
		bits := 0
		for _, x := range xs {
			bits += x.scaleBits()
		}
		if bits > 14 {
			g.c.Stat("nest.redrawn-too-many-scale-bits", 1)
			continue
		}
		g.c.Stat(fmt.Sprintf("nest%d.depth%d", g.dim, len(xs)), 1)
		for _, x := range xs {
			x.stat(g.c, fmt.Sprintf("nxf%d", g.dim))
		}
		return xs
	}
}

func applyAll3(xs []*xf, p model3d.Coord3D) model3d.Coord3D {
	for _, x := range xs {
		p = x.build3().Apply(p)
	}
	return p
}

func boundsAll3(xs []*xf, lo, hi model3d.Coord3D) (model3d.Coord3D, model3d.Coord3D) {
	for _, x := range xs {
		lo, hi = x.build3().ApplyBounds(lo, hi)
	}
	return lo, hi
}

func (g *gen) statCommute3(xs []*xf) {
	probe := model3d.XYZ(1, 2, 3)
	a := applyAll3(xs, probe)
	rev := make([]*xf, len(xs))
	for i, x := range xs {
		rev[len(xs)-1-i] = x
	}
	if applyAll3(rev, probe) != a {
		g.c.Stat("nest3.non-commuting", 1)
	} else {
		g.c.Stat("nest3.commuting-at-probe", 1)
	}
}

func wrapSolid3(xs []*xf, s model3d.Solid) model3d.Solid {
	for _, x := range xs {
		s = model3d.TransformSolid(x.build3(), s)
	}
	return s
}

func wrapSDF3(xs []*xf, s model3d.SDF) model3d.SDF {
	for _, x := range xs {
		s = model3d.TransformSDF(x.build3().(model3d.DistTransform), s)
	}
	return s
}

func wrapMetaball3(xs []*xf, m model3d.Metaball) model3d.Metaball {
	for _, x := range xs {
		m = model3d.TransformMetaball(x.build3().(model3d.DistTransform), m)
	}
	return m
}

func wrapCollider3(xs []*xf, c model3d.Collider) model3d.Collider {
	for _, x := range xs {
		c = model3d.TransformCollider(x.build3().(model3d.DistTransform), c)
	}
	return c
}

// emitNestSolid3: nested TransformSolid on a real shape (property kind) and on a Rect at an arbitrary
// query point (faithful kind).
func (g *gen) emitNestSolid3(xs []*xf) {
	c := g.c
	tok := nestTokens(xs, 3)
	var s model3d.Solid
	if c.Rng.Intn(2) == 0 {
		lo, hi := g.box3()
		s = model3d.NewRect(lo, hi)
	} else {
		s = &model3d.Sphere{Center: g.p3(), Radius: g.pow2(2)}
	}
	q := g.inBox3(s.Min().AddScalar(-0.5), s.Max().AddScalar(0.5))
	if c.Rng.Intn(2) == 0 {
		if b, ok := s.(*model3d.Sphere); ok {
			q = b.Center.Add(g.p3().Scale(b.Radius / 32))
		} else {
			q = g.inBox3(s.Min(), s.Max())
		}
	}
	inside := s.Contains(q)
	c.Stat("nest.solid3.inside."+bstr(inside), 1)
	c.Emit(fmt.Sprintf("c05 nest.solid3 %s %s %s %s %s", tok, p3s(s.Min()), p3s(s.Max()), p3s(q), bstr(inside)),
		guardPanic(func() string {
			ts := wrapSolid3(xs, s)
			return bstr(ts.Contains(applyAll3(xs, q))) + " " + p3s(ts.Min()) + " " + p3s(ts.Max())
		}))
	lo, hi := g.box3()
	rect := model3d.NewRect(lo, hi)
	var p model3d.Coord3D
	if k := c.Rng.Intn(3); k == 0 {
		p = g.p3()
	} else if k == 1 {
		p = applyAll3(xs, g.inBox3(lo, hi))
	} else {
		nlo, nhi := boundsAll3(xs, lo, hi)
		p = g.inBox3(nlo.Min(nhi).AddScalar(-0.25), nlo.Max(nhi).AddScalar(0.25))
	}
	c.Emit(fmt.Sprintf("c05 nest.solidr3 %s %s %s %s", tok, p3s(lo), p3s(hi), p3s(p)), guardPanic(func() string {
		res := wrapSolid3(xs, rect).Contains(p)
		c.Stat("nest.solidr3.inside."+bstr(res), 1)
		return bstr(res)
	}))
}

// emitNestSdf3: nested TransformSDF / TransformMetaball on real shapes.
func (g *gen) emitNestSdf3(xs []*xf) {
	c := g.c
	tok := nestTokens(xs, 3)
	var s interface {
		model3d.SDF
		model3d.Metaball
	}
	if c.Rng.Intn(2) == 0 {
		lo, hi := g.box3()
		s = model3d.NewRect(lo, hi.AddScalar(0.5))
	} else {
		s = &model3d.Sphere{Center: g.p3(), Radius: g.pow2(2)}
	}
	q := g.inBox3(s.Min().AddScalar(-1), s.Max().AddScalar(1))
	v := s.SDF(q)
	img := applyAll3(xs, q)
	factor := applyAll3(xs, q.Add(model3d.X(1))).Dist(img)
	c.Emit(fmt.Sprintf("c05 nest.sdf3 %s %s %s %s %s", tok, p3s(s.Min()), p3s(s.Max()), p3s(q), rs(v)),
		guardPanic(func() string {
			ts := wrapSDF3(xs, s)
			return rs(ts.SDF(img)) + " " + p3s(ts.Min()) + " " + p3s(ts.Max())
		}))
	mv := s.MetaballField(q)
	mb := affMB3{s, 3, 0.5}
	d := math.Abs(g.dy())
	c.Emit(fmt.Sprintf("c05 nest.mball3 %s %s %s %s %s %s %s", tok, p3s(s.Min()), p3s(s.Max()), p3s(q), rs(mv),
		rs(d), rs(mb.MetaballDistBound(d))),
		guardPanic(func() string {
			tm := wrapMetaball3(xs, mb)
			return rs(tm.MetaballField(img)) + " " + rs(tm.MetaballDistBound(d*factor)) + " " + p3s(tm.Min()) + " " + p3s(tm.Max())
		}))
}

// emitNestStub3: nested TransformCollider around the recording stub (faithful kinds): the ray and the
// sphere the innermost collider is asked about, the collision handed back out, the bounds.
func (g *gen) emitNestStub3(xs []*xf) {
	c := g.c
	tok := nestTokens(xs, 3)
	r := model3d.Ray{Origin: g.p3(), Direction: g.p3()}
	st := &stub3{}
	tc := wrapCollider3(xs, st)
	tc.RayCollisions(&r, func(model3d.RayCollision) {})
	c.Emit(fmt.Sprintf("c05 nest.inner3 %s %s %s", tok, p3s(r.Origin), p3s(r.Direction)),
		p3s(st.rays[0].Origin)+" "+p3s(st.rays[0].Direction))
	arr := [3]float64{}
	arr[c.Rng.Intn(3)] = g.sign()
	h := model3d.RayCollision{Scale: math.Abs(g.dy()), Normal: model3d.NewCoord3DArray(arr)}
	st = &stub3{hits: []model3d.RayCollision{h}}
	tc = wrapCollider3(xs, st)
	var got []string
	tc.RayCollisions(&r, func(rc model3d.RayCollision) { got = append(got, hit3s(rc)) })
	c.Emit(fmt.Sprintf("c05 nest.outer3 %s %s", tok, hit3s(h)), strings.Join(got, "|"))
	k := c.Rng.Intn(3)
	st = &stub3{}
	for j := 0; j < k; j++ {
		st.hits = append(st.hits, h)
	}
	tc = wrapCollider3(xs, st)
	c.Emit(fmt.Sprintf("c05 nest.nilcb3 %s %d", tok, k), guardPanic(func() string {
		return fmt.Sprint(tc.RayCollisions(&r, nil))
	}))
	ctr, rad := g.p3(), math.Abs(g.dy())
	st = &stub3{sphReply: c.Rng.Intn(2) == 0}
	tc = wrapCollider3(xs, st)
	got1 := tc.SphereCollision(ctr, rad)
	if seen, ok := sphSeen3(c, st, xs, ctr, rad, got1); ok {
		c.Emit(fmt.Sprintf("c05 nest.sphin3 %s %s %s %s", tok, p3s(ctr), rs(rad), bstr(st.sphReply)), seen)
	}
	c.Emit(fmt.Sprintf("c05 nest.cbounds3 %s %s %s", tok, p3s(st.Min()), p3s(st.Max())), p3s(tc.Min())+" "+p3s(tc.Max()))
}

// emitNestColl3: nested TransformCollider on a REAL collider: the conjugacy law for the composite.
// The inner ray is drawn first, the outer ray is its image under t1;…;tk.  Besides the correspondence
// kinds two predicates are evaluated directly on the real outputs: every reported hit point is the image
// of the inner hit point with the same index, and the bounds enclose the images of the inner box corners.
func (g *gen) emitNestColl3(xs []*xf, col model3d.Collider, cname string, ir model3d.Ray) {
	c := g.c
	tok := nestTokens(xs, 3)
	oo := applyAll3(xs, ir.Origin)
	or := model3d.Ray{Origin: oo, Direction: applyAll3(xs, ir.Origin.Add(ir.Direction)).Sub(oo)}
	var inner []model3d.RayCollision
	cnt := col.RayCollisions(&ir, func(rc model3d.RayCollision) { inner = append(inner, rc) })
	for _, h := range inner {
		if !niceNorm(h.Normal.NormSquared()) || !fewBits(h.Normal.X, h.Normal.Y, h.Normal.Z) {
			c.Stat("nest.coll3.skipped-inexact-normal", 1)
			return
		}
	}
	c.Stat(fmt.Sprintf("nest.coll3.%s.hits%d", cname, cnt), 1)
	g.statCommute3(xs)
	tc := wrapCollider3(xs, col)
	innerStr := make([]string, len(inner))
	for j, h := range inner {
		innerStr[j] = hit3s(h)
	}
	head := strings.TrimSpace(fmt.Sprintf("%s %s %s %s %s %d %d %s", tok, p3s(or.Origin), p3s(or.Direction),
		p3s(ir.Origin), p3s(ir.Direction), cnt, len(inner), strings.Join(innerStr, " ")))
	var outer []model3d.RayCollision
	c.Emit("c05 nest.coll3 cb "+head, guardPanic(func() string {
		var got []string
		k := tc.RayCollisions(&or, func(rc model3d.RayCollision) {
			got = append(got, hit3s(rc))
			outer = append(outer, rc)
		})
		return strings.TrimSpace(fmt.Sprintf("%d %s", k, strings.Join(got, "|")))
	}))
	c.Emit("c05 nest.coll3 nil "+head, guardPanic(func() string {
		return fmt.Sprint(tc.RayCollisions(&or, nil))
	}))
	frc, fok := col.FirstRayCollision(&ir)
	fhead := fmt.Sprintf("%s %s %s %s %s %s", tok, p3s(or.Origin), p3s(or.Direction),
		p3s(ir.Origin), p3s(ir.Direction), bstr(fok))
	if fok {
		fhead += " " + hit3s(frc)
	}
	c.Emit("c05 nest.first3 "+fhead, guardPanic(func() string {
		rc, ok := tc.FirstRayCollision(&or)
		if !ok {
			return "miss"
		}
		return "hit " + hit3s(rc)
	}))
	q := g.inBox3(col.Min().AddScalar(-1), col.Max().AddScalar(1))
	rad := math.Abs(g.dy())
	if g.c.Rng.Intn(2) == 0 {
		q, rad = g.sphereOutside3(col)
	}
	iq := applyAll3(xs, q)
	orad := applyAll3(xs, q.Add(model3d.X(rad))).Dist(iq)
	g.statSphere3("nest.sphc3", col, q, rad, orad)
	want := col.SphereCollision(q, rad)
	c.Stat("nest.sphc3.inner."+bstr(want), 1)
	c.Emit(fmt.Sprintf("c05 nest.sphc3 %s %s %s %s %s %s", tok, p3s(iq), rs(orad), p3s(q), rs(rad), bstr(want)),
		bstr(tc.SphereCollision(iq, orad)))

	// predicates on the real outputs
	desc := fmt.Sprintf("members(innermost first)=[%s] collider=%s inner ray=(%s ; %s) outer ray=(%s ; %s)", tok, cname,
		p3s(ir.Origin), p3s(ir.Direction), p3s(or.Origin), p3s(or.Direction))
	if len(outer) != len(inner) {
		c.PropFail("prop:c05/nested_collider_hit_points", fmt.Sprintf("%s: %d hits reported, the wrapped collider has %d on the pre-image ray", desc, len(outer), len(inner)))
	} else {
		for j, h := range inner {
			if !fewBits(h.Scale) {
				c.Stat("nest.coll3.hitpoint-skipped-inexact-parameter", 1)
				continue
			}
			want := applyAll3(xs, ir.Origin.Add(ir.Direction.Scale(h.Scale)))
			got := or.Origin.Add(or.Direction.Scale(outer[j].Scale))
			c.Stat("nest.coll3.hitpoint-checked", 1)
			if got != want {
				c.PropFail("prop:c05/nested_collider_hit_points", fmt.Sprintf("%s: hit %d at parameter %v is the point %s, the image of the inner hit point (parameter %v) is %s",
					desc, j, outer[j].Scale, p3s(got), h.Scale, p3s(want)))
				break
			}
		}
	}
	lo, hi := col.Min(), col.Max()
	tlo, thi := tc.Min(), tc.Max()
	for i := 0; i < 8; i++ {
		corner := model3d.XYZ(pick2(i&1, lo.X, hi.X), pick2(i&2, lo.Y, hi.Y), pick2(i&4, lo.Z, hi.Z))
		img := applyAll3(xs, corner)
		if img.Min(tlo) != tlo || img.Max(thi) != thi {
			c.PropFail("prop:c05/nested_collider_bounds", fmt.Sprintf("%s: bounds %s .. %s do not contain the image %s of the corner %s of the wrapped collider's box",
				desc, p3s(tlo), p3s(thi), p3s(img), p3s(corner)))
			break
		}
	}
}

func pick2(bit int, a, b float64) float64 {
	if bit != 0 {
		return b
	}
	return a
}

func runNest3(c *hlib.Ctx) {
	g := &gen{c: c, dim: 3}
	// the textbook cases: the unit ball moved by a translation and a scale / a quarter turn, in both orders
	unit := &model3d.Sphere{Radius: 1}
	axis := model3d.Ray{Origin: model3d.X(-3), Direction: model3d.X(1)}
	tr := &xf{kind: 'T', v: [3]float64{5, 0, 0}}
	sc := &xf{kind: 'S', s: 2}
	quarter := &xf{kind: 'O', m: []float64{0, -1, 0, 1, 0, 0, 0, 0, 1}}
	for _, xs := range [][]*xf{{tr, sc}, {sc, tr}, {tr, quarter}, {quarter, tr}, {tr, sc, quarter, tr}} {
		g.emitNestColl3(xs, unit, "unit-ball", axis)
	}
	for i := 0; i < c.N; i++ {
		g.emitNestSolid3(g.nestMembers(false))
		g.emitNestSdf3(g.nestMembers(true))
		g.emitNestStub3(g.nestMembers(true))
		for j := 0; j < 2; j++ {
			col, cname := g.collider3()
			g.emitNestColl3(g.nestMembers(true), col, cname, g.ray3(col))
		}
	}
}
