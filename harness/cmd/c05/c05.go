// Command c05 is the correspondence harness for property C05 (transforms invert, and
// transformed objects are images of the original).  It drives the REAL code of
// model3d / model2d / toolbox3d in "exact mode": every input is a small dyadic rational and
// every transform is chosen so that each float64 operation the library performs is exact
// (integer / dyadic translations, power-of-two uniform and per-axis scales with signs,
// integer matrices with determinant ±1 or ±2^k, signed permutation matrices as orthogonal
// transforms, power-of-two squeeze ratios, and compositions of those).  The Lean driver runs
// the models of lean/M3d/Model/Transform.lean at Rat on the same lines; outputs must be equal.
package main

import (
	"fmt"
	"math"
	"strings"

	"github.com/unixpickle/model3d/model2d"
	"github.com/unixpickle/model3d/model3d"
	"github.com/unixpickle/model3d/toolbox3d"
	"verif/harness/hlib"
)

// xf describes a transform independently of the dimension; build2/build3 make the real one.
type xf struct {
	kind  byte // T S V M O Q J
	v     [3]float64
	s     float64
	m     []float64 // 4 or 9 entries, row-major
	axis  int
	lo    float64
	hi    float64
	ratio float64
	subs  []*xf
}

func rs(x float64) string { return hlib.RatStr(x) }

func rsl(xs ...float64) string {
	parts := make([]string, len(xs))
	for i, x := range xs {
		parts[i] = rs(x)
	}
	return strings.Join(parts, " ")
}

func (x *xf) tokens(dim int) string { return x.tokensWith(dim, rsl) }

// tokensHex renders the description with IEEE bit patterns (bits mode).
func (x *xf) tokensHex(dim int) string { return x.tokensWith(dim, hxl) }

func (x *xf) tokensWith(dim int, f func(...float64) string) string {
	switch x.kind {
	case 'T':
		return "T " + f(x.v[:dim]...)
	case 'S':
		return "S " + f(x.s)
	case 'V':
		return "V " + f(x.v[:dim]...)
	case 'M':
		return "M " + f(x.m...)
	case 'O':
		return "O " + f(x.m...)
	case 'Q':
		return fmt.Sprintf("Q %d %s", x.axis, f(x.lo, x.hi, x.ratio))
	case 'J':
		parts := []string{fmt.Sprintf("J %d", len(x.subs))}
		for _, s := range x.subs {
			parts = append(parts, s.tokensWith(dim, f))
		}
		return strings.Join(parts, " ")
	}
	panic("bad kind")
}

// hx renders a float64 for bits mode: IEEE bit pattern, -0 as +0, any NaN as "nan".
func hx(x float64) string {
	if math.IsNaN(x) {
		return "nan"
	}
	if x == 0 {
		x = 0
	}
	return hlib.Hex(x)
}

func hxl(xs ...float64) string {
	parts := make([]string, len(xs))
	for i, x := range xs {
		parts[i] = hx(x)
	}
	return strings.Join(parts, " ")
}

func (x *xf) isDist() bool {
	switch x.kind {
	case 'T', 'S', 'O':
		return true
	case 'J':
		for _, s := range x.subs {
			if !s.isDist() {
				return false
			}
		}
		return true
	}
	return false
}

// corruptGraph is the panic value of checkGraph3/2: Inverse() of a freshly built join returned an object
// graph that contains itself (results sharing storage).  Calling Apply/Inverse on it would overflow the
// stack, which cannot be recovered from, so the run stops here with one failing invdesc case.
type corruptGraph struct{ op string }

func (x *xf) build3() model3d.Transform {
	t := x.rawBuild3()
	if x.kind == 'J' {
		inv := t.Inverse()
		if !saneTop3(inv) || !saneTop3(inv.Inverse()) {
			panic(corruptGraph{"c05 invdesc3 " + x.tokens(3)})
		}
	}
	return t
}

func (x *xf) build2() model2d.Transform {
	t := x.rawBuild2()
	if x.kind == 'J' {
		inv := t.Inverse()
		if !saneTop2(inv) || !saneTop2(inv.Inverse()) {
			panic(corruptGraph{"c05 invdesc2 " + x.tokens(2)})
		}
	}
	return t
}

func (x *xf) rawBuild3() model3d.Transform {
	switch x.kind {
	case 'T':
		return &model3d.Translate{Offset: model3d.XYZ(x.v[0], x.v[1], x.v[2])}
	case 'S':
		return &model3d.Scale{Scale: x.s}
	case 'V':
		return &model3d.VecScale{Scale: model3d.XYZ(x.v[0], x.v[1], x.v[2])}
	case 'M':
		var m model3d.Matrix3
		copy(m[:], x.m)
		return &model3d.Matrix3Transform{Matrix: &m}
	case 'O':
		var m model3d.Matrix3
		copy(m[:], x.m)
		return model3d.VerifOrthoTransform(&m)
	case 'Q':
		return &toolbox3d.AxisSqueeze{Axis: toolbox3d.Axis(x.axis), Min: x.lo, Max: x.hi, Ratio: x.ratio}
	case 'J':
		res := model3d.JoinedTransform{}
		for _, s := range x.subs {
			res = append(res, s.build3())
		}
		return res
	}
	panic("bad kind")
}

func (x *xf) rawBuild2() model2d.Transform {
	switch x.kind {
	case 'T':
		return &model2d.Translate{Offset: model2d.XY(x.v[0], x.v[1])}
	case 'S':
		return &model2d.Scale{Scale: x.s}
	case 'V':
		return &model2d.VecScale{Scale: model2d.XY(x.v[0], x.v[1])}
	case 'M':
		var m model2d.Matrix2
		copy(m[:], x.m)
		return &model2d.Matrix2Transform{Matrix: &m}
	case 'O':
		var m model2d.Matrix2
		copy(m[:], x.m)
		return model2d.VerifOrthoTransform(&m)
	case 'J':
		res := model2d.JoinedTransform{}
		for _, s := range x.subs {
			res = append(res, s.build2())
		}
		return res
	}
	panic("bad kind")
}

// describe3 renders a real 3D transform value in the token syntax (used for Inverse()).
func describe3(t model3d.Transform) string {
	if m, ok := model3d.VerifOrthoMatrix(t); ok {
		return "O " + rsl(m[:]...)
	}
	switch t := t.(type) {
	case *model3d.Translate:
		return "T " + rsl(t.Offset.X, t.Offset.Y, t.Offset.Z)
	case *model3d.Scale:
		return "S " + rs(t.Scale)
	case *model3d.VecScale:
		return "V " + rsl(t.Scale.X, t.Scale.Y, t.Scale.Z)
	case *model3d.Matrix3Transform:
		return "M " + rsl(t.Matrix[:]...)
	case *toolbox3d.AxisSqueeze:
		return fmt.Sprintf("Q %d %s", int(t.Axis), rsl(t.Min, t.Max, t.Ratio))
	case model3d.JoinedTransform:
		parts := []string{fmt.Sprintf("J %d", len(t))}
		for _, s := range t {
			parts = append(parts, describe3(s))
		}
		return strings.Join(parts, " ")
	}
	return fmt.Sprintf("unknown:%T", t)
}

func describe2(t model2d.Transform) string {
	if m, ok := model2d.VerifOrthoMatrix(t); ok {
		return "O " + rsl(m[:]...)
	}
	switch t := t.(type) {
	case *model2d.Translate:
		return "T " + rsl(t.Offset.X, t.Offset.Y)
	case *model2d.Scale:
		return "S " + rs(t.Scale)
	case *model2d.VecScale:
		return "V " + rsl(t.Scale.X, t.Scale.Y)
	case *model2d.Matrix2Transform:
		return "M " + rsl(t.Matrix[:]...)
	case model2d.JoinedTransform:
		parts := []string{fmt.Sprintf("J %d", len(t))}
		for _, s := range t {
			parts = append(parts, describe2(s))
		}
		return strings.Join(parts, " ")
	}
	return fmt.Sprintf("unknown:%T", t)
}

// ---------------------------------------------------------------- generators

type gen struct {
	c   *hlib.Ctx
	dim int
}

func (g *gen) pow2(maxExp int) float64 {
	return math.Ldexp(1, g.c.Rng.Intn(2*maxExp+1)-maxExp)
}

func (g *gen) sign() float64 {
	if g.c.Rng.Intn(3) == 0 {
		return -1
	}
	return 1
}

func (g *gen) dy() float64 { return g.c.Dyadic(8, 3) }

// signedPerm returns a random signed permutation matrix (orthogonal, exact).
func (g *gen) signedPerm() []float64 {
	d := g.dim
	perm := g.c.Rng.Perm(d)
	m := make([]float64, d*d)
	for i, j := range perm {
		m[i*d+j] = 1
		if g.c.Rng.Intn(2) == 0 {
			m[i*d+j] = -1
		}
	}
	return m
}

func matMul(d int, a, b []float64) []float64 {
	res := make([]float64, d*d)
	for i := 0; i < d; i++ {
		for j := 0; j < d; j++ {
			for k := 0; k < d; k++ {
				res[i*d+j] += a[i*d+k] * b[k*d+j]
			}
		}
	}
	return res
}

// intMatrix returns an invertible matrix whose determinant is ±1 (mostly) or ±2^k, built as a
// product of signed permutations, integer shears and (sometimes) a power-of-two axis scaling,
// so that the adjugate/determinant inverse formula is exact in float64.
func (g *gen) intMatrix() []float64 {
	d := g.dim
	m := g.signedPerm()
	for n := g.c.Rng.Intn(3) + 1; n > 0; n-- {
		sh := make([]float64, d*d)
		for i := 0; i < d; i++ {
			sh[i*d+i] = 1
		}
		i, j := g.c.Rng.Intn(d), g.c.Rng.Intn(d)
		if i != j {
			sh[i*d+j] = float64(g.c.Rng.Intn(5) - 2)
		}
		m = matMul(d, m, sh)
	}
	if g.c.Rng.Intn(3) == 0 {
		sc := make([]float64, d*d)
		for i := 0; i < d; i++ {
			sc[i*d+i] = g.pow2(1)
		}
		m = matMul(d, m, sc)
		g.c.Stat("matrix.det-pow2", 1)
	} else {
		g.c.Stat("matrix.unimodular", 1)
	}
	return m
}

// prim draws one primitive transform; distOnly restricts to DistTransform kinds,
// affineOnly excludes the squeeze.
func (g *gen) prim(distOnly bool) *xf {
	for {
		switch g.c.Rng.Intn(6) {
		case 0:
			x := &xf{kind: 'T'}
			for i := 0; i < g.dim; i++ {
				if g.c.Rng.Intn(2) == 0 {
					x.v[i] = float64(g.c.Rng.Intn(17) - 8)
				} else {
					x.v[i] = g.dy()
				}
			}
			return x
		case 1:
			return &xf{kind: 'S', s: g.sign() * g.pow2(2)}
		case 2:
			if distOnly {
				continue
			}
			x := &xf{kind: 'V'}
			for i := 0; i < g.dim; i++ {
				x.v[i] = g.sign() * g.pow2(2)
			}
			return x
		case 3:
			if distOnly {
				continue
			}
			return &xf{kind: 'M', m: g.intMatrix()}
		case 4:
			return &xf{kind: 'O', m: g.signedPerm()}
		case 5:
			if distOnly || g.dim == 2 {
				continue
			}
			lo := g.c.Dyadic(4, 2)
			hi := lo + float64(g.c.Rng.Intn(16)+1)/4
			ratio := math.Ldexp(1, -(g.c.Rng.Intn(3) + 1))
			if g.c.Rng.Intn(4) == 0 {
				ratio = 1 / ratio
			}
			return &xf{kind: 'Q', axis: g.c.Rng.Intn(3), lo: lo, hi: hi, ratio: ratio}
		}
	}
}

// transform draws a primitive (60%) or a composition of 0..4 transforms (nested once at most).
func (g *gen) transform(distOnly bool, depth int) *xf {
	if depth >= 2 || g.c.Rng.Intn(10) < 6 {
		return g.prim(distOnly)
	}
	n := g.c.Rng.Intn(5)
	x := &xf{kind: 'J'}
	for i := 0; i < n; i++ {
		x.subs = append(x.subs, g.transform(distOnly, depth+1))
	}
	return x
}

// reflJoin draws a JoinedTransform of 3-5 DistTransforms that always contains a reflection (negative
// uniform scale), a translation and an orthogonal matrix, in random order, sometimes with one member
// being itself a join (so JoinedTransform.ApplyDistance and nested Inverse() are exercised).
func (g *gen) reflJoin() *xf {
	subs := []*xf{
		{kind: 'S', s: -g.pow2(2)},
		{kind: 'O', m: g.signedPerm()},
	}
	t := &xf{kind: 'T'}
	for i := 0; i < g.dim; i++ {
		t.v[i] = g.dy()
	}
	subs = append(subs, t)
	for n := g.c.Rng.Intn(3); n > 0; n-- {
		subs = append(subs, g.prim(true))
	}
	if g.c.Rng.Intn(2) == 0 {
		subs = append(subs, &xf{kind: 'J', subs: []*xf{g.prim(true), g.prim(true)}})
	}
	g.c.Rng.Shuffle(len(subs), func(i, j int) { subs[i], subs[j] = subs[j], subs[i] })
	g.c.Stat(fmt.Sprintf("refljoin%d.len%d", g.dim, len(subs)), 1)
	return &xf{kind: 'J', subs: subs}
}

// distTransform draws a DistTransform: a reflecting join of >= 3 members one time in three.
func (g *gen) distTransform() *xf {
	if g.c.Rng.Intn(3) == 0 {
		return g.reflJoin()
	}
	return g.transform(true, 0)
}

func (x *xf) stat(c *hlib.Ctx, prefix string) {
	c.Stat(prefix+"."+string(x.kind), 1)
	if x.kind == 'S' && x.s < 0 {
		c.Stat(prefix+".S-negative", 1)
	}
	if x.kind == 'J' {
		c.Stat(fmt.Sprintf("%s.J-len%d", prefix, len(x.subs)), 1)
	}
	for _, s := range x.subs {
		s.stat(c, prefix+".sub")
	}
}

func guardPanic(f func() string) string {
	res := hlib.Guard(f)
	if strings.HasPrefix(res, "panic:") {
		return "panic"
	}
	return res
}

func bstr(b bool) string {
	if b {
		return "1"
	}
	return "0"
}

// niceUnit reports whether a vector's squared norm has an exactly representable square root
// and 1/norm is exact, so that Normalize() on it (and on its image under an exact similarity)
// is exact in float64.
func niceNorm(sq float64) bool {
	if sq <= 0 || math.IsNaN(sq) || math.IsInf(sq, 0) {
		return false
	}
	r := math.Sqrt(sq)
	if r*r != sq {
		return false
	}
	fr, _ := math.Frexp(r)
	return fr == 0.5 // r is a power of two => 1/r exact
}

// sphSeen3 renders what the recording stub saw of ONE sphere query put to wrappers xs (innermost first) around
// it: "<centre> <radius> <answer>".  A wrapper that answers without asking the wrapped collider is not
// reported as long as that is what every collider with these bounds would have led to: the sphere pulled
// back through the inverses (computed here member by member, exact on these inputs) does not reach the
// stub's bounds and the answer is "no collision" - or the answer is the stub's own.  Otherwise the case is
// emitted with "not-asked <answer>", which no model output equals (theorem transform_collider_sphere).
func sphSeen3(c *hlib.Ctx, st *stub3, xs []*xf, ctr model3d.Coord3D, rad float64, got bool) (string, bool) {
	if len(st.sphC) > 0 {
		return p3s(st.sphC[0]) + " " + rs(st.sphR[0]) + " " + bstr(got), true
	}
	for i := len(xs) - 1; i >= 0; i-- {
		inv := xs[i].build3().Inverse().(model3d.DistTransform)
		ctr, rad = inv.Apply(ctr), inv.ApplyDistance(rad)
	}
	near := ctr.Max(st.Min()).Min(st.Max())
	d2, r2 := near.Sub(ctr).NormSquared(), rad*rad
	if (d2 >= r2 && !got) || (d2 <= r2 && got == st.sphReply) {
		c.Stat("sphin3.not-asked-but-consistent", 1)
		return "", false
	}
	c.Stat("sphin3.not-asked", 1)
	return "not-asked " + bstr(got), true
}

// sphSeen2 is the 2-D twin of sphSeen3.
func sphSeen2(c *hlib.Ctx, st *stub2, xs []*xf, ctr model2d.Coord, rad float64, got bool) (string, bool) {
	if len(st.sphC) > 0 {
		return p2s(st.sphC[0]) + " " + rs(st.sphR[0]) + " " + bstr(got), true
	}
	for i := len(xs) - 1; i >= 0; i-- {
		inv := xs[i].build2().Inverse().(model2d.DistTransform)
		ctr, rad = inv.Apply(ctr), inv.ApplyDistance(rad)
	}
	near := ctr.Max(st.Min()).Min(st.Max())
	d2, r2 := near.Sub(ctr).NormSquared(), rad*rad
	if (d2 >= r2 && !got) || (d2 <= r2 && got == st.sphReply) {
		c.Stat("sphin2.not-asked-but-consistent", 1)
		return "", false
	}
	c.Stat("sphin2.not-asked", 1)
	return "not-asked " + bstr(got), true
}

func fewBits(xs ...float64) bool {
	for _, x := range xs {
		if x != math.Round(x*1024)/1024 || math.Abs(x) > 1024 {
			return false
		}
	}
	return true
}

func run(c *hlib.Ctx) {
	defer func() {
		if r := recover(); r != nil {
			cg, ok := r.(corruptGraph)
			if !ok {
				panic(r)
			}
			c.Emit(cg.op, "corrupt-object-graph")
			c.Stat("corrupt-object-graph", 1)
		}
	}()
	run3(c)
	run2(c)
	runMatrix(c)
	runPinch(c)
	runConj(c)
	runSmart(c)
	runSmartCorr(c)
	runBits(c)
	runPinchBits(c)
	runBits2(c)
	runNest3(c)
	runNest2(c)
	runSmallDet(c)
	runHist3(c)
	runHistConj3(c)
	runHist2(c)
	runScene3(c)
	runScene2(c)
}

func main() { hlib.Main("C05", run) }
