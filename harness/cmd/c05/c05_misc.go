package main

import (
	"fmt"
	"math"

	"github.com/unixpickle/model3d/model2d"
	"github.com/unixpickle/model3d/model3d"
	"github.com/unixpickle/model3d/toolbox3d"
	"verif/harness/hlib"
)

// runMatrix: Matrix2 / Matrix3 Det, Inverse, Mul, MulColumn, MulColumnInv, Transpose against the
// model, and the law Inverse·m = m·Inverse = identity on exactly invertible matrices.
func runMatrix(c *hlib.Ctx) {
	for _, dim := range []int{3, 2} {
		g := &gen{c: c, dim: dim}
		for i := 0; i < c.N/2+1; i++ {
			a := g.intMatrix()
			b := g.intMatrix()
			if c.Rng.Intn(3) == 0 { // singular / arbitrary second operand
				for j := range b {
					b[j] = float64(c.Rng.Intn(7) - 3)
				}
			}
			if dim == 3 {
				var m, n model3d.Matrix3
				copy(m[:], a)
				copy(n[:], b)
				p := g.p3()
				c.Emit("c05 mat3 det "+rsl(n[:]...), rs(n.Det()))
				c.Emit("c05 mat3 inv "+rsl(m[:]...), rsl(m.Inverse()[:]...))
				c.Emit("c05 mat3 mul "+rsl(m[:]...)+" "+rsl(n[:]...), rsl(m.Mul(&n)[:]...))
				c.Emit("c05 mat3 mulcol "+rsl(n[:]...)+" "+p3s(p), p3s(n.MulColumn(p)))
				c.Emit("c05 mat3 mulcolinv "+rsl(m[:]...)+" "+p3s(p), p3s(m.MulColumnInv(p, m.Det())))
				c.Emit("c05 mat3 tr "+rsl(n[:]...), rsl(n.Transpose()[:]...))
				c.Emit("c05 mat3 invmul "+rsl(m[:]...), rsl(m.Inverse().Mul(&m)[:]...)+" "+rsl(m.Mul(m.Inverse())[:]...))
			} else {
				var m, n model2d.Matrix2
				copy(m[:], a)
				copy(n[:], b)
				p := g.p2()
				c.Emit("c05 mat2 det "+rsl(n[:]...), rs(n.Det()))
				c.Emit("c05 mat2 inv "+rsl(m[:]...), rsl(m.Inverse()[:]...))
				c.Emit("c05 mat2 mul "+rsl(m[:]...)+" "+rsl(n[:]...), rsl(m.Mul(&n)[:]...))
				c.Emit("c05 mat2 mulcol "+rsl(n[:]...)+" "+p2s(p), p2s(n.MulColumn(p)))
				c.Emit("c05 mat2 mulcolinv "+rsl(m[:]...)+" "+p2s(p), p2s(m.MulColumnInv(p, m.Det())))
				c.Emit("c05 mat2 tr "+rsl(n[:]...), rsl(n.Transpose()[:]...))
				c.Emit("c05 mat2 invmul "+rsl(m[:]...), rsl(m.Inverse().Mul(&m)[:]...)+" "+rsl(m.Mul(m.Inverse())[:]...))
			}
		}
	}
}

// runPinch: toolbox3d.AxisPinch for the powers for which math.Pow is algebraic and exact on the
// chosen inputs (2, 1/2, 1): Apply, Inverse, ApplyBounds.
func runPinch(c *hlib.Ctx) {
	g := &gen{c: c, dim: 3}
	powers := []struct {
		name string
		p    float64
	}{{"sq", 2}, {"rt", 0.5}, {"one", 1}}
	for i := 0; i < c.N; i++ {
		pw := powers[c.Rng.Intn(len(powers))]
		half := g.pow2(2)
		lo := g.c.Dyadic(4, 2)
		hi := lo + 2*half
		center := lo + half
		axis := c.Rng.Intn(3)
		a := &toolbox3d.AxisPinch{Axis: toolbox3d.Axis(axis), Min: lo, Max: hi, Power: pw.p}
		// axis value: inside the range with t = ±(j/8)^2 (so both the square and the root are exact),
		// on the range ends, or outside the range
		pick := func() float64 {
			switch c.Rng.Intn(6) {
			case 0:
				return lo - math.Abs(g.dy()) - 0.125
			case 1:
				return hi + math.Abs(g.dy()) + 0.125
			case 2:
				return []float64{lo, hi, center}[c.Rng.Intn(3)]
			}
			j := float64(c.Rng.Intn(9))
			return center + g.sign()*(j*j/64)*half
		}
		p := g.p3()
		arr := p.Array()
		arr[axis] = pick()
		p = model3d.NewCoord3DArray(arr)
		head := fmt.Sprintf("%d %s %s", axis, rsl(lo, hi), pw.name)
		c.Stat("pinch."+pw.name, 1)
		c.Emit(fmt.Sprintf("c05 pinch apply %s %s", head, p3s(p)), p3s(a.Apply(p)))
		inv := a.Inverse()
		ia, _ := inv.(*toolbox3d.AxisPinch)
		c.Emit(fmt.Sprintf("c05 pinch invdesc %s", head),
			fmt.Sprintf("%d %s %s", int(ia.Axis), rsl(ia.Min, ia.Max), rs(ia.Power)))
		c.Emit(fmt.Sprintf("c05 pinch roundtrip %s %s", head, p3s(p)),
			p3s(inv.Apply(a.Apply(p)))+" "+p3s(a.Apply(inv.Apply(p))))
		// a box along the axis with exact images, a point in between
		q := p
		arrLo, arrHi := p.Array(), p.Array()
		v1, v2 := pick(), pick()
		arrLo[axis] = math.Min(math.Min(v1, v2), arr[axis])
		arrHi[axis] = math.Max(math.Max(v1, v2), arr[axis])
		blo, bhi := model3d.NewCoord3DArray(arrLo), model3d.NewCoord3DArray(arrHi)
		nlo, nhi := a.ApplyBounds(blo, bhi)
		img := a.Apply(q)
		c.Emit(fmt.Sprintf("c05 pinch encl %s %s %s %s", head, p3s(blo), p3s(bhi), p3s(q)),
			bstr(img.Min(nlo) == nlo && img.Max(nhi) == nhi))
	}
}
