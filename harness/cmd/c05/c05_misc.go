package main

import (
	"fmt"
	"math"

	"github.com/unixpickle/model3d/model2d"
	"github.com/unixpickle/model3d/model3d"
	"github.com/unixpickle/model3d/toolbox3d"
	"verif/harness/hlib"
)

// runMatrix: Matrix2 / Matrix3 Det, Inverse, Mul, MulColumn, MulColumnInv, Transpose against the
// model, and the law Inverse·m = m·Inverse = identity on exactly invertible matrices.
func runMatrix(c *hlib.Ctx) {
	for _, dim := range []int{3, 2} {
		g := &gen{c: c, dim: dim}
		for i := 0; i < c.N/2+1; i++ {
			a := g.intMatrix()
			b := g.intMatrix()
			if c.Rng.Intn(3) == 0 { // singular / arbitrary second operand
				for j := range b {
					b[j] = float64(c.Rng.Intn(7) - 3)
				}
			}
			if dim == 3 {
				var m, n model3d.Matrix3
				copy(m[:], a)
				copy(n[:], b)
				p := g.p3()
				c.Emit("c05 mat3 det "+rsl(n[:]...), rs(n.Det()))
				c.Emit("c05 mat3 inv "+rsl(m[:]...), rsl(m.Inverse()[:]...))
				c.Emit("c05 mat3 mul "+rsl(m[:]...)+" "+rsl(n[:]...), rsl(m.Mul(&n)[:]...))
				c.Emit("c05 mat3 mulcol "+rsl(n[:]...)+" "+p3s(p), p3s(n.MulColumn(p)))
				c.Emit("c05 mat3 mulcolinv "+rsl(m[:]...)+" "+p3s(p), p3s(m.MulColumnInv(p, m.Det())))
				c.Emit("c05 mat3 tr "+rsl(n[:]...), rsl(n.Transpose()[:]...))
				c.Emit("c05 mat3 invmul "+rsl(m[:]...), rsl(m.Inverse().Mul(&m)[:]...)+" "+rsl(m.Mul(m.Inverse())[:]...))
			} else {
				var m, n model2d.Matrix2
				copy(m[:], a)
				copy(n[:], b)
				p := g.p2()
				c.Emit("c05 mat2 det "+rsl(n[:]...), rs(n.Det()))
				c.Emit("c05 mat2 inv "+rsl(m[:]...), rsl(m.Inverse()[:]...))
				c.Emit("c05 mat2 mul "+rsl(m[:]...)+" "+rsl(n[:]...), rsl(m.Mul(&n)[:]...))
				c.Emit("c05 mat2 mulcol "+rsl(n[:]...)+" "+p2s(p), p2s(n.MulColumn(p)))
				c.Emit("c05 mat2 mulcolinv "+rsl(m[:]...)+" "+p2s(p), p2s(m.MulColumnInv(p, m.Det())))
				c.Emit("c05 mat2 tr "+rsl(n[:]...), rsl(n.Transpose()[:]...))
				c.Emit("c05 mat2 invmul "+rsl(m[:]...), rsl(m.Inverse().Mul(&m)[:]...)+" "+rsl(m.Mul(m.Inverse())[:]...))
			}
		}
	}
}

// runPinch: toolbox3d.AxisPinch for the powers for which math.Pow is algebraic and exact on the
// chosen inputs (2, 1/2, 1): Apply, Inverse, ApplyBounds.
func runPinch(c *hlib.Ctx) {
	g := &gen{c: c, dim: 3}
	powers := []struct {
		name string
		p    float64
	}{{"sq", 2}, {"rt", 0.5}, {"one", 1}}
	for i := 0; i < c.N; i++ {
		pw := powers[c.Rng.Intn(len(powers))]
		half := g.pow2(2)
		lo := g.c.Dyadic(4, 2)
		// near-centre cases (one in three): points at t = ±4^-k from the centre of the range, k = 1..11 for any
		// range (centre + 16^-k * half is still a float64) and k up to 120 for a range centred at 0 — the
		// power law has its singular point there, and a pinch followed by its inverse has to return to the
		// point at every scale (pinch_inverse has no lower bound on |t|).
		nearCentre := c.Rng.Intn(3) == 0
		maxK := 11
		if nearCentre && c.Rng.Intn(2) == 0 {
			lo = -half
			maxK = 120
		}
		hi := lo + 2*half
		center := lo + half
		axis := c.Rng.Intn(3)
		a := &toolbox3d.AxisPinch{Axis: toolbox3d.Axis(axis), Min: lo, Max: hi, Power: pw.p}
		// axis value: inside the range with t = ±(j/8)^2 (so both the square and the root are exact),
		// on the range ends, or outside the range
		pick := func() float64 {
			switch c.Rng.Intn(6) {
			case 0:
				return lo - math.Abs(g.dy()) - 0.125
			case 1:
				return hi + math.Abs(g.dy()) + 0.125
			case 2:
				return []float64{lo, hi, center}[c.Rng.Intn(3)]
			}
			if nearCentre && c.Rng.Intn(4) != 0 {
				k := 1 + c.Rng.Intn(maxK)
				c.Stat(fmt.Sprintf("pinch.near-centre.%s.t=4^-k.%s", pw.name, []string{"k=1..6", "k=7..13", "k>=14", "k>=14"}[int(math.Min(float64(k/7), 3))]), 1)
				return center + g.sign()*math.Ldexp(1, -2*k)*half
			}
			j := float64(c.Rng.Intn(9))
			return center + g.sign()*(j*j/64)*half
		}
		p := g.p3()
		arr := p.Array()
		arr[axis] = pick()
		p = model3d.NewCoord3DArray(arr)
		head := fmt.Sprintf("%d %s %s", axis, rsl(lo, hi), pw.name)
		c.Stat("pinch."+pw.name, 1)
		c.Emit(fmt.Sprintf("c05 pinch apply %s %s", head, p3s(p)), p3s(a.Apply(p)))
		inv := a.Inverse()
		ia, _ := inv.(*toolbox3d.AxisPinch)
		c.Emit(fmt.Sprintf("c05 pinch invdesc %s", head),
			fmt.Sprintf("%d %s %s", int(ia.Axis), rsl(ia.Min, ia.Max), rs(ia.Power)))
		c.Emit(fmt.Sprintf("c05 pinch roundtrip %s %s", head, p3s(p)),
			p3s(inv.Apply(a.Apply(p)))+" "+p3s(a.Apply(inv.Apply(p))))
		// a box along the axis with exact images, a point in between
		q := p
		arrLo, arrHi := p.Array(), p.Array()
		v1, v2 := pick(), pick()
		arrLo[axis] = math.Min(math.Min(v1, v2), arr[axis])
		arrHi[axis] = math.Max(math.Max(v1, v2), arr[axis])
		blo, bhi := model3d.NewCoord3DArray(arrLo), model3d.NewCoord3DArray(arrHi)
		nlo, nhi := a.ApplyBounds(blo, bhi)
		img := a.Apply(q)
		c.Emit(fmt.Sprintf("c05 pinch encl %s %s %s %s", head, p3s(blo), p3s(bhi), p3s(q)),
			bstr(img.Min(nlo) == nlo && img.Max(nhi) == nhi))
		// TransformSolid(pinch, box) at the image of a point of the box (theorem pinch_solid_conj)
		c.Emit(fmt.Sprintf("c05 pinch solid %s %s %s %s", head, p3s(blo), p3s(bhi), p3s(q)), guardPanic(func() string {
			return bstr(model3d.TransformSolid(a, model3d.NewRect(blo, bhi)).Contains(img))
		}))
	}
}

// canonTri rotates a triangle so that its least vertex (X, then Y, then Z) comes first: the orientation is kept,
// the choice of the first vertex is forgotten.
func canonTri(t model3d.Triangle) model3d.Triangle {
	less := func(a, b model3d.Coord3D) bool {
		if a.X != b.X {
			return a.X < b.X
		}
		if a.Y != b.Y {
			return a.Y < b.Y
		}
		return a.Z < b.Z
	}
	k := 0
	for i := 1; i < 3; i++ {
		if less(t[i], t[k]) {
			k = i
		}
	}
	return model3d.Triangle{t[k], t[(k+1)%3], t[(k+2)%3]}
}

// orientedKey: the triangle multiset of a mesh up to rotation of each triangle's vertex order; with reverse, every
// triangle is turned round first.
func orientedKey(m *model3d.Mesh, reverse bool) map[model3d.Triangle]int {
	r := map[model3d.Triangle]int{}
	m.Iterate(func(t *model3d.Triangle) {
		u := *t
		if reverse {
			u[0], u[1] = u[1], u[0]
		}
		r[canonTri(u)]++
	})
	return r
}

// det3rm: determinant of a row-major 3x3 matrix (small integers / powers of two here: exact).
func det3rm(m []float64) float64 {
	return m[0]*(m[4]*m[8]-m[5]*m[7]) - m[1]*(m[3]*m[8]-m[5]*m[6]) + m[2]*(m[3]*m[7]-m[4]*m[6])
}

// runConj: MarchingCubesConj(s, delta, iters, xforms...) must be the mesh of the transformed solid
// mapped back vertex by vertex through the inverse (theorem marching_cubes_conj is about that solid
// and that map; the meshing itself is C01/C02) - with every triangle turned round iff the joined
// transform reverses orientation (a mirror image, a negative uniform scale, an odd number of them), so
// that the normals still point out of the solid (C01: M3d.C01.conj_flip_iff_reversing; /repo d1d50a8).
// The reference is built from MarchingCubesSearch + Mesh.Transform, the orientation of the list is known
// by construction; triangles are compared up to rotation of their vertex order.  Evaluated directly on
// the implementation.
func runConj(c *hlib.Ctx) {
	g := &gen{c: c, dim: 3}
	for i := 0; i < 8; i++ {
		var xs []*xf
		rev := false
		for n := c.Rng.Intn(3) + 1; n > 0; n-- {
			switch c.Rng.Intn(5) {
			case 0:
				xs = append(xs, &xf{kind: 'T', v: [3]float64{float64(c.Rng.Intn(5) - 2), 0, float64(c.Rng.Intn(3))}})
			case 1:
				x := &xf{kind: 'S', s: g.sign() * g.pow2(1)}
				rev = rev != (x.s < 0)
				xs = append(xs, x)
			case 2:
				// a mirror image / rotation by pi: axis scaling by factors of either sign
				x := &xf{kind: 'V', v: [3]float64{g.sign() * g.pow2(1), g.sign(), g.sign() * g.pow2(1)}}
				rev = rev != (x.v[0]*x.v[1]*x.v[2] < 0)
				xs = append(xs, x)
			case 3:
				// a reflection or rotation matrix (signed permutation)
				x := &xf{kind: 'M', m: g.signedPerm()}
				rev = rev != (det3rm(x.m) < 0)
				xs = append(xs, x)
			default:
				xs = append(xs, &xf{kind: 'Q', axis: c.Rng.Intn(3), lo: 0.25, hi: 1.25, ratio: 0.5})
			}
		}
		var ts []model3d.Transform
		desc := ""
		for _, x := range xs {
			ts = append(ts, x.build3())
			desc += x.tokens(3) + " "
		}
		s := model3d.NewRect(model3d.XYZ(0, 0, 0), model3d.XYZ(1, 1.5, 1))
		res := guardPanic(func() string {
			got := model3d.MarchingCubesConj(s, 0.25, 0, ts...)
			joined := model3d.JoinedTransform(ts)
			want := model3d.MarchingCubesSearch(model3d.TransformSolid(joined, s), 0.25, 0).Transform(joined.Inverse())
			a, b := orientedKey(got, false), orientedKey(want, rev)
			if len(a) != len(b) || len(a) == 0 {
				return fmt.Sprintf("triangle sets differ in size: %d vs %d", len(a), len(b))
			}
			for k, v := range a {
				if b[k] != v {
					if orientedKey(want, !rev)[k] == v {
						return fmt.Sprintf("triangles are oriented the wrong way round (the transform list reverses orientation: %v)", rev)
					}
					return "triangle sets differ"
				}
			}
			// every vertex mapped forward again must lie on the lattice-meshed transformed solid's bounds
			min, max := joined.ApplyBounds(s.Min(), s.Max())
			bad := ""
			got.Iterate(func(t *model3d.Triangle) {
				for _, p := range t {
					q := joined.Apply(p)
					if q.Min(min.AddScalar(-0.26)) != min.AddScalar(-0.26) || q.Max(max.AddScalar(0.26)) != max.AddScalar(0.26) {
						bad = "vertex outside the transformed bounds"
					}
				}
			})
			return bad
		})
		c.Stat("conj3.cases", 1)
		if rev {
			c.Stat("conj3.reversing", 1)
		}
		if res != "" {
			c.PropFail("prop:c05/marching_cubes_conj", fmt.Sprintf("xforms=[%s] %s", desc, res))
		}
	}
}

// runSmart: toolbox3d.SmartSqueeze.Transform without pinches must be the piecewise-linear map of
// the axis whose slope is SqueezeRatio on every squeezable cell and 1 on every unsqueezable one
// (ranges may overlap, be unsorted, or stick out of the bounds), and must invert exactly.
// Breakpoints are multiples of 1/4, cells 1/8 wide, the ratio a power of two: all arithmetic exact.
// Evaluated directly on the implementation (the breakpoint loop is not modelled in Lean).
func runSmart(c *hlib.Ctx) {
	for i := 0; i < c.N/4+5; i++ {
		axis := c.Rng.Intn(3)
		ratio := math.Ldexp(1, -(c.Rng.Intn(3) + 1))
		ss := toolbox3d.NewSmartSqueeze(toolbox3d.Axis(axis), ratio, 0, 0)
		lo := float64(c.Rng.Intn(9)-4) / 4
		hi := lo + float64(c.Rng.Intn(24)+1)/4
		var ranges [][2]float64
		for n := c.Rng.Intn(4); n > 0; n-- {
			a := lo + float64(c.Rng.Intn(28)-2)/4
			b := a + float64(c.Rng.Intn(8)+1)/4
			ss.AddUnsqueezable(a, b)
			ranges = append(ranges, [2]float64{a, b})
		}
		c.Stat(fmt.Sprintf("smart.ranges%d", len(ranges)), 1)
		var minA, maxA [3]float64
		minA[axis], maxA[axis] = lo, hi
		maxA[(axis+1)%3], maxA[(axis+2)%3] = 1, 1
		bounds := model3d.NewRect(model3d.NewCoord3DArray(minA), model3d.NewCoord3DArray(maxA))
		res := guardPanic(func() string {
			t := ss.Transform(bounds)
			inv := t.Inverse()
			at := func(x float64) float64 {
				var arr [3]float64
				arr[axis] = x
				arr[(axis+1)%3] = 0.5
				return t.Apply(model3d.NewCoord3DArray(arr)).Array()[axis]
			}
			for x := lo - 0.5; x < hi+0.5; x += 0.125 {
				want := 0.125
				if x >= lo && x+0.125 <= hi {
					want = 0.125 * ratio
					for _, r := range ranges {
						if x >= r[0] && x+0.125 <= r[1] {
							want = 0.125
						}
					}
				}
				if got := at(x+0.125) - at(x); got != want {
					return fmt.Sprintf("cell [%v,%v]: image length %v, want %v", x, x+0.125, got, want)
				}
				var arr [3]float64
				arr[axis] = x
				p := model3d.NewCoord3DArray(arr)
				if q := inv.Apply(t.Apply(p)); q != p {
					return fmt.Sprintf("Inverse(Apply(%v)) = %v", p, q)
				}
				if q := t.Apply(inv.Apply(p)); q != p {
					return fmt.Sprintf("Apply(Inverse(%v)) = %v", p, q)
				}
			}
			if at(lo-0.5) != lo-0.5 {
				return "points below the bounds moved"
			}
			return ""
		})
		if res != "" {
			c.PropFail("prop:c05/smart_squeeze_piecewise_linear",
				fmt.Sprintf("axis=%d ratio=%v bounds=[%v,%v] unsqueezable=%v: %s", axis, ratio, lo, hi, ranges, res))
		}
	}
}

// runSmartCorr: SmartSqueeze.Transform against its Lean model (exact mode): the returned
// JoinedTransform is described member by member (AxisSqueeze / AxisPinch with their fields).
// Also Mesh.Transform(t.Inverse()) — the vertex map of MarchingCubesConj — on one triangle.
func runSmartCorr(c *hlib.Ctx) {
	g := &gen{c: c, dim: 3}
	for i := 0; i < c.N; i++ {
		axis := c.Rng.Intn(3)
		ratio := math.Ldexp(1, -(c.Rng.Intn(3) + 1))
		prange := float64(c.Rng.Intn(3)+1) / 8
		ppow := []float64{0.25, 0.5, 2}[c.Rng.Intn(3)]
		ss := toolbox3d.NewSmartSqueeze(toolbox3d.Axis(axis), ratio, prange, ppow)
		lo := float64(c.Rng.Intn(17)-8) / 4
		hi := lo + float64(c.Rng.Intn(24))/4 // may be empty (hi == lo)
		desc := fmt.Sprintf("%d %s", axis, rsl(ratio, prange, ppow, lo, hi))
		nu := c.Rng.Intn(4)
		desc += fmt.Sprintf(" %d", nu)
		for j := 0; j < nu; j++ {
			a := lo + float64(c.Rng.Intn(28)-3)/4
			b := a + float64(c.Rng.Intn(8))/4 // may be empty
			if c.Rng.Intn(6) == 0 {
				a, b = b, a // inverted range
			}
			ss.AddUnsqueezable(a, b)
			desc += " " + rsl(a, b)
		}
		np := c.Rng.Intn(3)
		desc += fmt.Sprintf(" %d", np)
		for j := 0; j < np; j++ {
			p := lo + float64(c.Rng.Intn(26)-1)/4
			ss.AddPinch(p)
			desc += " " + rs(p)
		}
		c.Stat(fmt.Sprintf("smartcorr.u%d.p%d", nu, np), 1)
		var minA, maxA [3]float64
		minA[axis], maxA[axis] = lo, hi
		bounds := model3d.NewRect(model3d.NewCoord3DArray(minA), model3d.NewCoord3DArray(maxA))
		c.Emit("c05 smart "+desc, guardPanic(func() string {
			t := ss.Transform(bounds)
			j, ok := t.(model3d.JoinedTransform)
			if !ok {
				return fmt.Sprintf("unknown:%T", t)
			}
			res := fmt.Sprintf("J %d", len(j))
			for _, m := range j {
				switch m := m.(type) {
				case *toolbox3d.AxisSqueeze:
					res += fmt.Sprintf(" Q %d %s", int(m.Axis), rsl(m.Min, m.Max, m.Ratio))
				case *toolbox3d.AxisPinch:
					res += fmt.Sprintf(" P %d %s", int(m.Axis), rsl(m.Min, m.Max, m.Power))
				default:
					res += fmt.Sprintf(" unknown:%T", m)
				}
			}
			return res
		}))

		x := g.transform(false, 0)
		t := x.build3()
		tri := &model3d.Triangle{g.p3(), g.p3(), g.p3()}
		mesh := model3d.NewMesh()
		mesh.Add(tri)
		out := mesh.Transform(t.Inverse())
		var got *model3d.Triangle
		out.Iterate(func(u *model3d.Triangle) { got = u })
		c.Emit(fmt.Sprintf("c05 meshxf3 %s %s %s %s", x.tokens(3), p3s(tri[0]), p3s(tri[1]), p3s(tri[2])),
			p3s(got[0])+" "+p3s(got[1])+" "+p3s(got[2]))
	}
}
