package main

import (
	"fmt"
	"math"
	"strings"
)

// Helpers shared by the 3-D and 2-D history kinds (c05_hist3.go, c05_hist2.go): the description the
// harness keeps next to every real object (generation only) and the step syntax.

// toV pads coordinates to the [3]float64 of a description.
func toV(xs []float64) [3]float64 {
	var r [3]float64
	copy(r[:], xs)
	return r
}

func cloneXf(x *xf) *xf {
	y := *x
	y.m = append([]float64(nil), x.m...)
	y.subs = nil
	for _, s := range x.subs {
		y.subs = append(y.subs, cloneXf(s))
	}
	return &y
}

// matInvD is the exact inverse (adjugate / determinant) of a d×d matrix, d = 2 or 3.
func matInvD(d int, m []float64) []float64 {
	if d == 2 {
		det := m[0]*m[3] - m[1]*m[2]
		return []float64{m[3] / det, -m[1] / det, -m[2] / det, m[0] / det}
	}
	det := m[0]*(m[4]*m[8]-m[5]*m[7]) - m[1]*(m[3]*m[8]-m[5]*m[6]) + m[2]*(m[3]*m[7]-m[4]*m[6])
	adj := []float64{
		m[4]*m[8] - m[5]*m[7], m[2]*m[7] - m[1]*m[8], m[1]*m[5] - m[2]*m[4],
		m[5]*m[6] - m[3]*m[8], m[0]*m[8] - m[2]*m[6], m[2]*m[3] - m[0]*m[5],
		m[3]*m[7] - m[4]*m[6], m[1]*m[6] - m[0]*m[7], m[0]*m[4] - m[1]*m[3],
	}
	for i := range adj {
		adj[i] /= det
	}
	return adj
}

// invDesc is the description of the inverse (generation only).
func invDesc(d int, x *xf) *xf {
	switch x.kind {
	case 'T':
		return &xf{kind: 'T', v: [3]float64{-x.v[0], -x.v[1], -x.v[2]}}
	case 'S':
		return &xf{kind: 'S', s: 1 / x.s}
	case 'V':
		r := &xf{kind: 'V'}
		for i := 0; i < d; i++ {
			r.v[i] = 1 / x.v[i]
		}
		return r
	case 'M', 'O':
		return &xf{kind: x.kind, m: matInvD(d, x.m)}
	case 'Q':
		return &xf{kind: 'Q', axis: x.axis, lo: x.lo, hi: x.lo + (x.hi-x.lo)*x.ratio, ratio: 1 / x.ratio}
	case 'J':
		r := &xf{kind: 'J'}
		for i := len(x.subs) - 1; i >= 0; i-- {
			r.subs = append(r.subs, invDesc(d, x.subs[i]))
		}
		return r
	}
	panic("bad kind")
}

func navDesc(x *xf, path []int) *xf {
	for _, k := range path {
		x = x.subs[k]
	}
	return x
}

// mutablePaths lists the slice paths of all nodes that have caller-reachable mutable state.
func mutablePaths(x *xf, prefix []int, out *[][]int, kinds *[]byte) {
	if x.kind != 'O' {
		*out = append(*out, append([]int(nil), prefix...))
		*kinds = append(*kinds, x.kind)
	}
	for i, s := range x.subs {
		mutablePaths(s, append(prefix, i), out, kinds)
	}
}

func pathTokens(path []int) string {
	s := fmt.Sprint(len(path))
	for _, k := range path {
		s += fmt.Sprintf(" %d", k)
	}
	return s
}

func ostep(kind, tail string) string {
	return fmt.Sprintf("o %s %d %s", kind, len(strings.Fields(tail)), tail)
}

func (g *gen) squeezeDesc() *xf {
	lo := g.c.Dyadic(4, 2)
	hi := lo + float64(g.c.Rng.Intn(16)+1)/4
	ratio := math.Ldexp(1, -(g.c.Rng.Intn(3) + 1))
	if g.c.Rng.Intn(4) == 0 {
		ratio = 1 / ratio
	}
	return &xf{kind: 'Q', axis: g.c.Rng.Intn(3), lo: lo, hi: hi, ratio: ratio}
}
