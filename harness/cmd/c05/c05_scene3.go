package main

import (
	"fmt"
	"math"
	"strings"

	"github.com/unixpickle/model3d/model3d"
	"verif/harness/hlib"
)

// Scene graphs (3-D): TransformCollider applied to a collider with a MEMBER LIST whose members are again
// transformed colliders (a moved part next to a fixed part, the assembly placed in the world), queried with
// rays — also re-entrantly: the RayCollisions callback casts a secondary ray at the same scene while the
// primary query is still running (shadow rays).  A multi-member collider hands the *Ray it received to one
// member after the other, so every member has to be asked about the ray as the group received it, whatever
// the members before it did.
//
// Op line "c05 scene3 <mode> <scene> args…", <scene> =
//   L id lo hi a b k (scale normal)^k   probe3: reports its k collisions with a·origin + b·direction added to the
//                                        parameter (so the parameter shows which ray the probe was handed) and
//                                        Extra = id; SphereCollision(c, r) = (a·c <= r)
//   G n <scene>^n                        group3, a user-defined collider with a member list
//   C n <scene>^n                        the real model3d.NewJoinedCollider (probe bounds are ±2^24·m, every ray
//                                        origin and sphere centre lies inside, so its bounds gate passes)
//   X <transform> <scene>                model3d.TransformCollider
// modes: cb (RayCollisions with a callback), nil (nil callback), first, re (the callback casts a secondary
// ray at the whole scene on every collision), sph, bounds.
// The driver answers with the collider VALUE of the scene (theorems transform_group_distrib, scene_two_level,
// scene_pointer_semantics, scene_shadow_rays of M3d/Props/C05.lean).

type probe3 struct {
	id     int
	lo, hi model3d.Coord3D
	a, b   model3d.Coord3D
	hits   []model3d.RayCollision
}

func (p *probe3) Min() model3d.Coord3D { return p.lo }
func (p *probe3) Max() model3d.Coord3D { return p.hi }

func (p *probe3) shift(r *model3d.Ray, h model3d.RayCollision) model3d.RayCollision {
	return model3d.RayCollision{Scale: h.Scale + (p.a.Dot(r.Origin) + p.b.Dot(r.Direction)), Normal: h.Normal, Extra: p.id}
}

func (p *probe3) RayCollisions(r *model3d.Ray, f func(model3d.RayCollision)) int {
	for _, h := range p.hits {
		if f != nil {
			f(p.shift(r, h)) // reads *r when the collision is found, like a real traversal
		}
	}
	return len(p.hits)
}

func (p *probe3) FirstRayCollision(r *model3d.Ray) (model3d.RayCollision, bool) {
	if len(p.hits) == 0 {
		return model3d.RayCollision{}, false
	}
	return p.shift(r, p.hits[0]), true
}

func (p *probe3) SphereCollision(c model3d.Coord3D, r float64) bool { return p.a.Dot(c) <= r }

// group3 is a user-defined collider with a member list: every query goes to each member in turn, with the
// very *Ray the group was given (what JoinedCollider does for a ray that meets its bounds).
type group3 struct{ ms []model3d.Collider }

func (g *group3) Min() model3d.Coord3D {
	res := g.ms[0].Min()
	for _, m := range g.ms[1:] {
		res = res.Min(m.Min())
	}
	return res
}

func (g *group3) Max() model3d.Coord3D {
	res := g.ms[0].Max()
	for _, m := range g.ms[1:] {
		res = res.Max(m.Max())
	}
	return res
}

func (g *group3) RayCollisions(r *model3d.Ray, f func(model3d.RayCollision)) int {
	n := 0
	for _, m := range g.ms {
		n += m.RayCollisions(r, f)
	}
	return n
}

func (g *group3) FirstRayCollision(r *model3d.Ray) (model3d.RayCollision, bool) {
	var closest model3d.RayCollision
	var any bool
	for _, m := range g.ms {
		if rc, ok := m.FirstRayCollision(r); ok {
			if rc.Scale < closest.Scale || !any {
				closest, any = rc, true
			}
		}
	}
	return closest, any
}

func (g *group3) SphereCollision(c model3d.Coord3D, r float64) bool {
	for _, m := range g.ms {
		if m.SphereCollision(c, r) {
			return true
		}
	}
	return false
}

type scn3 struct {
	kind byte // L G C X
	leaf *probe3
	kids []*scn3
	x    *xf
}

func (s *scn3) tokens() string {
	switch s.kind {
	case 'L':
		p := s.leaf
		parts := []string{fmt.Sprintf("L %d %s %s %s %s %d", p.id, p3s(p.lo), p3s(p.hi), p3s(p.a), p3s(p.b), len(p.hits))}
		for _, h := range p.hits {
			parts = append(parts, hit3s(h))
		}
		return strings.Join(parts, " ")
	case 'X':
		return "X " + s.x.tokens(3) + " " + s.kids[0].tokens()
	}
	parts := []string{fmt.Sprintf("%c %d", s.kind, len(s.kids))}
	for _, k := range s.kids {
		parts = append(parts, k.tokens())
	}
	return strings.Join(parts, " ")
}

func (s *scn3) build() model3d.Collider {
	switch s.kind {
	case 'L':
		return s.leaf
	case 'X':
		return model3d.TransformCollider(s.x.build3().(model3d.DistTransform), s.kids[0].build())
	}
	var ms []model3d.Collider
	for _, k := range s.kids {
		ms = append(ms, k.build())
	}
	if s.kind == 'C' {
		return model3d.NewJoinedCollider(ms)
	}
	return &group3{ms: ms}
}

// movedBeforeSibling reports whether some group of the scene has a transformed member that is followed by
// another member (the member after it is asked about the group's ray after a nested inner ray was made).
func (s *scn3) movedBeforeSibling() bool {
	for i, k := range s.kids {
		if (s.kind == 'G' || s.kind == 'C') && k.kind == 'X' && i+1 < len(s.kids) {
			return true
		}
		if k.movedBeforeSibling() {
			return true
		}
	}
	return false
}

type sceneGen3 struct {
	g      *gen
	nextID int
}

type arr3 = [3]float64

// intVec3: a vector of small integers.
func (g *gen) intVec3() model3d.Coord3D {
	var a arr3
	for i := range a {
		a[i] = float64(g.c.Rng.Intn(5) - 2)
	}
	return model3d.NewCoord3DArray(a)
}

// cube3: the box [-b, b]^n.
func cube3(b float64) (model3d.Coord3D, model3d.Coord3D) {
	var lo, hi arr3
	for i := range lo {
		lo[i], hi[i] = -b, b
	}
	return model3d.NewCoord3DArray(lo), model3d.NewCoord3DArray(hi)
}

func (sg *sceneGen3) leaf() *scn3 {
	g := sg.g
	sg.nextID++
	b := math.Ldexp(float64(1+g.c.Rng.Intn(2)), 24)
	p := &probe3{id: sg.nextID, a: g.intVec3(), b: g.intVec3()}
	p.lo, p.hi = cube3(b)
	if g.c.Rng.Intn(4) == 0 {
		p.a = model3d.X(1) // the parameter is the x of the ray origin
		p.b = model3d.Coord3D{}
	}
	for k := []int{0, 1, 1, 1, 2, 2}[g.c.Rng.Intn(6)]; k > 0; k-- {
		arr := arr3{}
		arr[g.c.Rng.Intn(g.dim)] = g.sign()
		p.hits = append(p.hits, model3d.RayCollision{Scale: math.Abs(g.dy()), Normal: model3d.NewCoord3DArray(arr)})
	}
	return &scn3{kind: 'L', leaf: p}
}

// xform draws the transform of one scene node: mostly a non-trivial primitive (translation, scale != ±1 by at
// most one binary digit, signed permutation), sometimes a join; bits is the budget of binary digits left on
// this root-to-leaf path.
func (sg *sceneGen3) xform(bits *int) *xf {
	g := sg.g
	for {
		var x *xf
		switch g.c.Rng.Intn(6) {
		case 0, 1:
			x = &xf{kind: 'T'}
			for i := 0; i < g.dim; i++ {
				x.v[i] = g.dy()
			}
			x.v[g.c.Rng.Intn(g.dim)] = float64(1 + g.c.Rng.Intn(7))
		case 2:
			x = &xf{kind: 'S', s: g.sign() * []float64{0.5, 2}[g.c.Rng.Intn(2)]}
		case 3:
			x = &xf{kind: 'O', m: g.signedPerm()}
		case 4:
			t := &xf{kind: 'T'}
			for i := 0; i < g.dim; i++ {
				t.v[i] = g.dy()
			}
			subs := []*xf{t, {kind: 'S', s: g.sign() * []float64{0.5, 2}[g.c.Rng.Intn(2)]}}
			g.c.Rng.Shuffle(2, func(i, j int) { subs[i], subs[j] = subs[j], subs[i] })
			x = &xf{kind: 'J', subs: subs}
		default:
			x = g.distTransform()
		}
		if b := x.scaleBits(); b <= *bits {
			*bits -= b
			return x
		}
	}
}

func (sg *sceneGen3) group(depth, bits int) *scn3 {
	g := sg.g
	s := &scn3{kind: []byte{'G', 'C'}[g.c.Rng.Intn(2)]}
	for n := 2 + g.c.Rng.Intn(3); n > 0; n-- {
		s.kids = append(s.kids, sg.member(depth, bits))
	}
	return s
}

func (sg *sceneGen3) member(depth, bits int) *scn3 {
	g := sg.g
	switch k := g.c.Rng.Intn(20); {
	case k < 8:
		return sg.leaf()
	case k < 15 || depth >= 2:
		return &scn3{kind: 'X', x: sg.xform(&bits), kids: []*scn3{sg.leaf()}}
	case k < 19:
		return &scn3{kind: 'X', x: sg.xform(&bits), kids: []*scn3{sg.group(depth+1, bits)}}
	default:
		return sg.group(depth+1, bits)
	}
}

// scene draws X(t, group{…}); three times in four it makes sure that the top group has a transformed member
// that is followed by another member.
func (sg *sceneGen3) scene() *scn3 {
	g := sg.g
	sg.nextID = 0
	bits := 10
	t := sg.xform(&bits)
	grp := sg.group(0, bits)
	if g.c.Rng.Intn(4) != 0 && !(&scn3{kind: 'G', kids: grp.kids}).movedBeforeSibling() {
		b := bits
		grp.kids[0] = &scn3{kind: 'X', x: sg.xform(&b), kids: []*scn3{grp.kids[0]}}
	}
	return &scn3{kind: 'X', x: t, kids: []*scn3{grp}}
}

func hit3x(rc model3d.RayCollision) string {
	id := -1
	if v, ok := rc.Extra.(int); ok {
		id = v
	}
	return fmt.Sprintf("%s %d", hit3s(rc), id)
}

func hits3x(n int, hs []string) string {
	return strings.TrimSpace(fmt.Sprintf("%d %s", n, strings.Join(hs, "|")))
}

func (g *gen) sceneRay3() model3d.Ray {
	var dir model3d.Coord3D
	switch g.c.Rng.Intn(3) {
	case 0:
		arr := arr3{}
		arr[g.c.Rng.Intn(g.dim)] = g.sign() * g.pow2(2)
		dir = model3d.NewCoord3DArray(arr)
	case 1:
		dir = g.intVec3().Scale(0.5)
	default:
		dir = g.p3().Scale(0.25)
	}
	if dir == (model3d.Coord3D{}) {
		dir = model3d.X(2)
	}
	return model3d.Ray{Origin: g.p3(), Direction: dir}
}

func runScene3(c *hlib.Ctx) {
	g := &gen{c: c, dim: 3}
	sg := &sceneGen3{g: g}
	// the textbook scene first: a part moved by (1,0,0) next to a fixed part, the assembly moved by (5,0,0);
	// both probes show the x of the ray origin they are handed
	mk := func(id int) *scn3 {
		p := &probe3{id: id, a: model3d.X(1), hits: []model3d.RayCollision{{Scale: 0, Normal: model3d.X(1)}}}
		p.lo, p.hi = cube3(math.Ldexp(1, 24))
		return &scn3{kind: 'L', leaf: p}
	}
	for _, kind := range []byte{'G', 'C'} {
		for _, movedFirst := range []bool{true, false} {
			moved := &scn3{kind: 'X', x: &xf{kind: 'T', v: [3]float64{1, 0, 0}}, kids: []*scn3{mk(1)}}
			kids := []*scn3{moved, mk(2)}
			if !movedFirst {
				kids = []*scn3{mk(2), moved}
			}
			s := &scn3{kind: 'X', x: &xf{kind: 'T', v: [3]float64{5, 0, 0}}, kids: []*scn3{{kind: kind, kids: kids}}}
			site := "corr:c05 scene3 textbook.fixed-part-before-moved-part"
			if movedFirst {
				site = "corr:c05 scene3 textbook.moved-part-before-fixed-part"
			}
			g.emitScene3(s, model3d.Ray{Origin: model3d.X(10), Direction: model3d.X(1)},
				model3d.Ray{Origin: model3d.Y(3), Direction: model3d.Y(-1)}, site)
		}
	}
	for i := 0; i < c.N; i++ {
		g.emitScene3(sg.scene(), g.sceneRay3(), g.sceneRay3(), "")
	}
}

// emitScene3 emits all query modes for one scene; a non-empty site labels the cases (the textbook scenes keep
// their own, smallest, replay).
func (g *gen) emitScene3(s *scn3, r, sec model3d.Ray, site string) {
	c := g.c
	emit := func(op, impl string) {
		if site == "" {
			c.Emit(op, impl)
		} else {
			c.EmitSite(op, impl, site)
		}
	}
	tok := s.tokens()
	c.Stat("scene3.moved-member-before-sibling."+bstr(s.movedBeforeSibling()), 1)
	rays := fmt.Sprintf("%s %s", p3s(r.Origin), p3s(r.Direction))
	emit(fmt.Sprintf("c05 scene3 cb %s %s", tok, rays), guardPanic(func() string {
		root, rr := s.build(), r
		var got []string
		n := root.RayCollisions(&rr, func(rc model3d.RayCollision) { got = append(got, hit3x(rc)) })
		c.Stat(fmt.Sprintf("scene3.cb.hits%d", int(math.Min(float64(len(got)), 4))), 1)
		return hits3x(n, got)
	}))
	emit(fmt.Sprintf("c05 scene3 nil %s %s", tok, rays), guardPanic(func() string {
		root, rr := s.build(), r
		return fmt.Sprint(root.RayCollisions(&rr, nil))
	}))
	emit(fmt.Sprintf("c05 scene3 first %s %s", tok, rays), guardPanic(func() string {
		root, rr := s.build(), r
		rc, ok := root.FirstRayCollision(&rr)
		if !ok {
			return "miss"
		}
		return "hit " + hit3x(rc)
	}))
	emit(fmt.Sprintf("c05 scene3 re %s %s %s %s", tok, rays, p3s(sec.Origin), p3s(sec.Direction)), guardPanic(func() string {
		root, rr := s.build(), r
		var prim, secs []string
		n := root.RayCollisions(&rr, func(rc model3d.RayCollision) {
			prim = append(prim, hit3x(rc))
			// a secondary ray cast at the same scene from inside the callback
			sr := sec
			var got []string
			n2 := root.RayCollisions(&sr, func(rc2 model3d.RayCollision) { got = append(got, hit3x(rc2)) })
			secs = append(secs, hits3x(n2, got))
		})
		return strings.Join(append([]string{hits3x(n, prim)}, secs...), " ; ")
	}))
	ctr, rad := g.p3(), math.Abs(g.dy())
	emit(fmt.Sprintf("c05 scene3 sph %s %s %s", tok, p3s(ctr), rs(rad)), guardPanic(func() string {
		return bstr(s.build().SphereCollision(ctr, rad))
	}))
	emit(fmt.Sprintf("c05 scene3 bounds %s", tok), guardPanic(func() string {
		root := s.build()
		return p3s(root.Min()) + " " + p3s(root.Max())
	}))
}
