package main

import (
	"fmt"
	"math"
	"strings"

	"github.com/unixpickle/model3d/model3d"
	"github.com/unixpickle/model3d/toolbox3d" // 3D-ONLY-LINE
	"verif/harness/hlib"
)

// Histories of ONE transform object (3-D).  The transform types are mutable: Offset / Scale / the
// AxisSqueeze fields are exported, Matrix3Transform.Matrix is an exported POINTER whose target has
// the in-place mutators Scale and InvertInPlace (and plain `*xf.Matrix = m`), a JoinedTransform is
// a slice that can be stored to.  The property demands that t.Inverse() — and everything that asks
// for it: TransformSolid / TransformSDF / TransformCollider / TransformMetaball, Mesh.Transform of
// MarchingCubesConj — is the inverse of t AS IT IS WHEN IT IS ASKED, whatever happened to the
// object (or to objects obtained from it) before.
//
// One case = one history:
//
//	c05 hist3 <xf> <n> step_1 … step_n
//
// over a table of objects (object 0 = <xf>) and a table of wrapper sets:
//
//	inv i                   objs = append(objs, objs[i].Inverse())       output: description of the new object
//	mut i k p1..pk <edit>   in-place edit of objs[i] at the slice path p   output: description of objs[i] after it
//	    off v | sc s | vec v | sq axis lo hi ratio            field stores
//	    mscale s | massign m | minvert                         t.Matrix.Scale(s) | *t.Matrix = m | t.Matrix.InvertInPlace()
//	    mptr m                                                 t.Matrix = &m
//	    jset k <xf> | japp <xf> | jswap a b                    j[k] = x | j = append(j, x) | j[a], j[b] = j[b], j[a]
//	snap i                  TransformSolid / SDF / Collider of objs[i] are built now and kept   output: -
//	o <kind> <k> tok…       one of the single-object kinds (roundtrip apply encl solid solidr sdf coll first sphc
//	                        meshxf) with `@i` (objs[i] as it is now; wrappers are built on the spot) or `%w` (the kept
//	                        wrappers of snap number w — only while their object has not been edited since) in place
//	                        of the transform tokens
//
// The Lean driver runs the value semantics (M3d/Model/TransformHist.lean): `inv` yields the inverse of
// the CURRENT value, an edit changes the edited object and nothing else; theorems
// M3d.C05.inverse_fresh / history_value_semantics / inverse_after_history prove that this is what the
// heap semantics of the Go code (fresh allocation in every Inverse()) does.  The harness keeps a
// description next to every real object only to draw applicable steps; every output comes from the
// real objects.

type hobj3 struct {
	d   *xf               // what the harness believes the public state is (generation only)
	t   model3d.Transform // the real object
	gen int               // number of edits so far
	src int               // object this one was obtained from by Inverse() (-1: none)
}

type hwrap3 struct {
	base  int
	gen   int
	t     model3d.Transform
	d     *xf
	rlo   model3d.Coord3D
	rhi   model3d.Coord3D
	solid model3d.Solid
	sdfS  interface {
		model3d.SDF
		model3d.Metaball
	}
	sdf   model3d.SDF
	col   model3d.Collider
	cname string
	tc    model3d.Collider
}

type htgt3 struct {
	tok string
	d   *xf
	t   model3d.Transform
	w   *hwrap3
}

type hist3 struct {
	g     *gen
	objs  []*hobj3
	wraps []*hwrap3
	steps []string
	outs  []string
	// pattern bookkeeping (statistics)
	used       map[int]bool // object has been inverted / wrapped / observed
	editedUsed map[int]bool // object was edited in place after a use
	reuse      bool         // … and used again afterwards
	editedInv  map[int]bool // sources whose returned inverse has been edited
	invReuse   bool         // a source was used again after its returned inverse was edited
	dead       bool         // an object graph is corrupt: no further steps
}

func nav3(t model3d.Transform, path []int) model3d.Transform {
	for _, k := range path {
		t = t.(model3d.JoinedTransform)[k]
	}
	return t
}

func (h *hist3) push(step, out string) {
	h.steps = append(h.steps, step)
	h.outs = append(h.outs, out)
	h.checkGraph()
}

// sane3 bounds the size and depth of the object graph of a transform: an implementation that shares
// storage between the slices it returns can build a JoinedTransform that contains itself, and a stack
// overflow in Apply / Inverse cannot be recovered from.
func sane3(t model3d.Transform, depth int, budget *int) bool {
	*budget--
	if depth > 8 || *budget < 0 {
		return false
	}
	if j, ok := t.(model3d.JoinedTransform); ok {
		for _, m := range j {
			if !sane3(m, depth+1, budget) {
				return false
			}
		}
	}
	return true
}

func saneTop3(t model3d.Transform) bool {
	budget := 200
	return t != nil && sane3(t, 0, &budget)
}

// checkGraph ends the history (with a step the model answers differently) as soon as an object has a
// corrupt graph; no method of such an object is called any more.
func (h *hist3) checkGraph() {
	if h.dead {
		return
	}
	for i, o := range h.objs {
		if !saneTop3(o.t) {
			h.dead = true
			h.steps = append(h.steps, ostep("apply", fmt.Sprintf("@%d %s", i, p3s(h.g.p3()))))
			h.outs = append(h.outs, "corrupt-object-graph")
			return
		}
	}
}

func (h *hist3) noteUse(i int) {
	if h.editedUsed[i] {
		h.reuse = true
	}
	if h.editedInv[i] {
		h.invReuse = true
	}
	h.used[i] = true
}

func (h *hist3) stepInv(i int) {
	if h.dead {
		return
	}
	o := h.objs[i]
	h.noteUse(i)
	var nt model3d.Transform
	out := guardPanic(func() string {
		nt = o.t.Inverse()
		if !saneTop3(nt) {
			nt = nil
			return "corrupt-object-graph"
		}
		return describe3(nt)
	})
	if nt == nil {
		h.push(fmt.Sprintf("inv %d", i), out)
		return
	}
	h.objs = append(h.objs, &hobj3{d: invDesc(3, o.d), t: nt, src: i})
	h.push(fmt.Sprintf("inv %d", i), out)
	h.g.c.Stat("hist3.step.inv", 1)
}

// smallPrim draws a primitive to store into a slice (dist-only when the object must stay a DistTransform).
func (h *hist3) smallPrim(distOnly bool) *xf {
	return h.g.prim(distOnly)
}

// stepMut draws an in-place edit of object i and applies it to the real object.
func (h *hist3) stepMut(i int, preferMatrix bool) bool {
	if h.dead {
		return true
	}
	g := h.g
	c := g.c
	o := h.objs[i]
	var paths [][]int
	var kinds []byte
	mutablePaths(o.d, nil, &paths, &kinds)
	if len(paths) == 0 {
		return false
	}
	pick := c.Rng.Intn(len(paths))
	if preferMatrix {
		var ms []int
		for j, k := range kinds {
			if k == 'M' {
				ms = append(ms, j)
			}
		}
		if len(ms) > 0 {
			pick = ms[c.Rng.Intn(len(ms))]
		}
	}
	path := paths[pick]
	d := navDesc(o.d, path)
	keepDist := o.d.isDist()
	head := fmt.Sprintf("mut %d %s ", i, pathTokens(path))
	var edit string
	var apply func()
	switch d.kind {
	case 'T':
		nv := g.p3()
		edit = "off " + p3s(nv)
		apply = func() { nav3(o.t, path).(*model3d.Translate).Offset = nv }
		arr := nv.Array()
		d.v = toV(arr[:])
	case 'S':
		ns := g.sign() * g.pow2(2)
		edit = "sc " + rs(ns)
		apply = func() { nav3(o.t, path).(*model3d.Scale).Scale = ns }
		d.s = ns
	case 'V':
		arr := g.p3().Array()
		for k := range arr {
			arr[k] = g.sign() * g.pow2(2)
		}
		nv := model3d.NewCoord3DArray(arr)
		edit = "vec " + p3s(nv)
		apply = func() { nav3(o.t, path).(*model3d.VecScale).Scale = nv }
		d.v = toV(arr[:])
	// 3D-ONLY{
	case 'Q':
		q := g.squeezeDesc()
		edit = fmt.Sprintf("sq %d %s", q.axis, rsl(q.lo, q.hi, q.ratio))
		apply = func() { setSqueeze3(nav3(o.t, path), q) }
		d.axis, d.lo, d.hi, d.ratio = q.axis, q.lo, q.hi, q.ratio
	// }3D-ONLY
	case 'M':
		switch c.Rng.Intn(6) {
		case 0, 1: // t.Matrix.Scale(s)
			s := []float64{2, 0.5, -1, -2, 4, 0.25}[c.Rng.Intn(6)]
			edit = "mscale " + rs(s)
			apply = func() { nav3(o.t, path).(*model3d.Matrix3Transform).Matrix.Scale(s) }
			nm := make([]float64, len(d.m))
			for k, v := range d.m {
				nm[k] = v * s
			}
			d.m = nm
		case 2, 3: // *t.Matrix = m
			nm := g.intMatrix()
			edit = "massign " + rsl(nm...)
			apply = func() {
				var m model3d.Matrix3
				copy(m[:], nm)
				*nav3(o.t, path).(*model3d.Matrix3Transform).Matrix = m
			}
			d.m = nm
		case 4: // t.Matrix.InvertInPlace()
			edit = "minvert"
			apply = func() { nav3(o.t, path).(*model3d.Matrix3Transform).Matrix.InvertInPlace() }
			d.m = matInvD(3, d.m)
		default: // t.Matrix = &m
			nm := g.intMatrix()
			edit = "mptr " + rsl(nm...)
			apply = func() {
				var m model3d.Matrix3
				copy(m[:], nm)
				nav3(o.t, path).(*model3d.Matrix3Transform).Matrix = &m
			}
			d.m = nm
		}
	case 'J':
		k := c.Rng.Intn(4)
		if len(d.subs) == 0 || (k == 2 && len(d.subs) < 2) {
			k = 1
		}
		if len(d.subs) >= 5 && k == 1 {
			k = 0
		}
		switch k {
		case 0, 3: // j[k] = x
			idx := c.Rng.Intn(len(d.subs))
			x := h.smallPrim(keepDist)
			edit = fmt.Sprintf("jset %d %s", idx, x.tokens(3))
			apply = func() { nav3(o.t, path).(model3d.JoinedTransform)[idx] = x.build3() }
			d.subs[idx] = x
		case 1: // j = append(j, x)
			x := h.smallPrim(keepDist)
			edit = "japp " + x.tokens(3)
			apply = func() {
				nj := append(nav3(o.t, path).(model3d.JoinedTransform), x.build3())
				if len(path) == 0 {
					o.t = nj
				} else {
					nav3(o.t, path[:len(path)-1]).(model3d.JoinedTransform)[path[len(path)-1]] = nj
				}
			}
			d.subs = append(d.subs, x)
		default: // j[a], j[b] = j[b], j[a]
			a := c.Rng.Intn(len(d.subs))
			b := c.Rng.Intn(len(d.subs))
			edit = fmt.Sprintf("jswap %d %d", a, b)
			apply = func() {
				j := nav3(o.t, path).(model3d.JoinedTransform)
				j[a], j[b] = j[b], j[a]
			}
			d.subs[a], d.subs[b] = d.subs[b], d.subs[a]
		}
	default:
		return false
	}
	out := guardPanic(func() string {
		apply()
		if !saneTop3(o.t) {
			return "corrupt-object-graph"
		}
		return describe3(o.t)
	})
	o.gen++
	if h.used[i] {
		h.editedUsed[i] = true
	}
	if o.src >= 0 {
		h.editedInv[o.src] = true
	}
	h.push(head+edit, out)
	c.Stat("hist3.step.mut."+strings.Fields(edit)[0], 1)
	return true
}

func (h *hist3) stepSnap(i int) {
	if h.dead {
		return
	}
	g := h.g
	o := h.objs[i]
	h.noteUse(i)
	w := &hwrap3{base: i, gen: o.gen, t: o.t, d: cloneXf(o.d)}
	w.rlo, w.rhi = g.box3()
	out := guardPanic(func() string {
		w.solid = model3d.TransformSolid(o.t, model3d.NewRect(w.rlo, w.rhi))
		if o.d.isDist() {
			dt := o.t.(model3d.DistTransform)
			if g.c.Rng.Intn(2) == 0 {
				lo, hi := g.box3()
				w.sdfS = model3d.NewRect(lo, hi.AddScalar(0.5))
			} else {
				w.sdfS = &model3d.Sphere{Center: g.p3(), Radius: g.pow2(2)}
			}
			w.sdf = model3d.TransformSDF(dt, w.sdfS)
			w.col, w.cname = g.collider3()
			w.tc = model3d.TransformCollider(dt, w.col)
		}
		return "-"
	})
	h.wraps = append(h.wraps, w)
	h.push(fmt.Sprintf("snap %d", i), out)
	g.c.Stat("hist3.step.snap", 1)
}

func (h *hist3) liveWraps() []int {
	var res []int
	for j, w := range h.wraps {
		if w.solid != nil && h.objs[w.base].gen == w.gen {
			res = append(res, j)
		}
	}
	return res
}

// stepObs draws one observation of the target.
func (h *hist3) stepObs(tg htgt3) {
	g := h.g
	c := g.c
	dist := tg.d.isDist()
	var kinds []string
	if tg.w == nil {
		kinds = []string{"roundtrip", "roundtrip", "apply", "encl", "solid", "solid", "solidr"}
		kinds = append(kinds, "meshxf") // 3D-ONLY-LINE
		if dist {
			kinds = append(kinds, "sdf", "coll", "coll", "coll")
		}
	} else {
		kinds = []string{"solid", "solidr"}
		if tg.w.sdf != nil {
			kinds = append(kinds, "sdf", "coll", "coll")
		}
	}
	kind := kinds[c.Rng.Intn(len(kinds))]
	t := tg.t
	switch kind {
	case "roundtrip":
		p := g.p3()
		h.push(ostep("roundtrip", tg.tok+" "+p3s(p)), guardPanic(func() string {
			inv := t.Inverse()
			return p3s(inv.Apply(t.Apply(p))) + " " + p3s(t.Apply(inv.Apply(p)))
		}))
	case "apply":
		p := g.p3()
		h.push(ostep("apply", tg.tok+" "+p3s(p)), p3s(t.Apply(p)))
	case "encl":
		lo, hi := g.box3()
		q := g.inBox3(lo, hi)
		nlo, nhi := t.ApplyBounds(lo, hi)
		img := t.Apply(q)
		h.push(ostep("encl", fmt.Sprintf("%s %s %s %s", tg.tok, p3s(lo), p3s(hi), p3s(q))),
			bstr(img.Min(nlo) == nlo && img.Max(nhi) == nhi))
	// 3D-ONLY{
	case "meshxf":
		tri := &model3d.Triangle{g.p3(), g.p3(), g.p3()}
		h.push(ostep("meshxf", fmt.Sprintf("%s %s %s %s", tg.tok, p3s(tri[0]), p3s(tri[1]), p3s(tri[2]))),
			guardPanic(func() string {
				mesh := model3d.NewMesh()
				mesh.Add(tri)
				out := mesh.Transform(t.Inverse())
				var got *model3d.Triangle
				out.Iterate(func(u *model3d.Triangle) { got = u })
				return p3s(got[0]) + " " + p3s(got[1]) + " " + p3s(got[2])
			}))
	// }3D-ONLY
	case "solid":
		var s model3d.Solid
		if tg.w != nil {
			s = model3d.NewRect(tg.w.rlo, tg.w.rhi)
		} else if c.Rng.Intn(2) == 0 {
			lo, hi := g.box3()
			s = model3d.NewRect(lo, hi)
		} else {
			s = &model3d.Sphere{Center: g.p3(), Radius: g.pow2(2)}
		}
		q := g.inBox3(s.Min().AddScalar(-0.5), s.Max().AddScalar(0.5))
		if c.Rng.Intn(2) == 0 {
			if b, ok := s.(*model3d.Sphere); ok {
				q = b.Center.Add(g.p3().Scale(b.Radius / 32))
			} else {
				q = g.inBox3(s.Min(), s.Max())
			}
		}
		inside := s.Contains(q)
		h.push(ostep("solid", fmt.Sprintf("%s %s %s %s %s", tg.tok, p3s(s.Min()), p3s(s.Max()), p3s(q), bstr(inside))),
			guardPanic(func() string {
				var ts model3d.Solid
				if tg.w != nil {
					ts = tg.w.solid
				} else {
					ts = model3d.TransformSolid(t, s)
				}
				return bstr(ts.Contains(t.Apply(q))) + " " + p3s(ts.Min()) + " " + p3s(ts.Max())
			}))
	case "solidr":
		var lo, hi model3d.Coord3D
		if tg.w != nil {
			lo, hi = tg.w.rlo, tg.w.rhi
		} else {
			lo, hi = g.box3()
		}
		var p model3d.Coord3D
		if k := c.Rng.Intn(3); k == 0 {
			p = g.p3()
		} else if k == 1 {
			p = t.Apply(g.inBox3(lo, hi))
		} else {
			nlo, nhi := t.ApplyBounds(lo, hi)
			p = g.inBox3(nlo.Min(nhi).AddScalar(-0.25), nlo.Max(nhi).AddScalar(0.25))
		}
		h.push(ostep("solidr", fmt.Sprintf("%s %s %s %s", tg.tok, p3s(lo), p3s(hi), p3s(p))), guardPanic(func() string {
			var ts model3d.Solid
			if tg.w != nil {
				ts = tg.w.solid
			} else {
				ts = model3d.TransformSolid(t, model3d.NewRect(lo, hi))
			}
			return bstr(ts.Contains(p))
		}))
	case "sdf":
		dt := t.(model3d.DistTransform)
		var s model3d.SDF
		if tg.w != nil {
			s = tg.w.sdfS
		} else if c.Rng.Intn(2) == 0 {
			lo, hi := g.box3()
			s = model3d.NewRect(lo, hi.AddScalar(0.5))
		} else {
			s = &model3d.Sphere{Center: g.p3(), Radius: g.pow2(2)}
		}
		q := g.inBox3(s.Min().AddScalar(-1), s.Max().AddScalar(1))
		v := s.SDF(q)
		h.push(ostep("sdf", fmt.Sprintf("%s %s %s %s %s", tg.tok, p3s(s.Min()), p3s(s.Max()), p3s(q), rs(v))),
			guardPanic(func() string {
				var ts model3d.SDF
				if tg.w != nil {
					ts = tg.w.sdf
				} else {
					ts = model3d.TransformSDF(dt, s)
				}
				return rs(ts.SDF(t.Apply(q))) + " " + p3s(ts.Min()) + " " + p3s(ts.Max())
			}))
	case "coll":
		h.obsColl(tg)
	}
	c.Stat("hist3.step.o."+kind, 1)
}

// obsColl: one query of TransformCollider(t, col) on a real collider, as in emitColl3: the inner ray is
// drawn first, the outer ray is its image under t as it is now.
func (h *hist3) obsColl(tg htgt3) {
	g := h.g
	c := g.c
	t := tg.t.(model3d.DistTransform)
	var col model3d.Collider
	if tg.w != nil {
		col = tg.w.col
	} else {
		col, _ = g.collider3()
	}
	var ir model3d.Ray
	var inner []model3d.RayCollision
	cnt := 0
	for try := 0; ; try++ {
		ir = g.ray3(col)
		inner = nil
		cnt = col.RayCollisions(&ir, func(rc model3d.RayCollision) { inner = append(inner, rc) })
		nice := true
		for _, hh := range inner {
			if !niceNorm(hh.Normal.NormSquared()) || !fewBits(hh.Normal.X, hh.Normal.Y, hh.Normal.Z) {
				nice = false
			}
		}
		if nice {
			break
		}
		if try > 20 {
			// fall back to the sphere query, which involves no normals
			inner, cnt = nil, -1
			break
		}
	}
	build := func() model3d.Collider {
		if tg.w != nil {
			return tg.w.tc
		}
		return model3d.TransformCollider(t, col)
	}
	mode := c.Rng.Intn(4)
	if cnt < 0 {
		mode = 3
	}
	or := model3d.Ray{Origin: t.Apply(ir.Origin), Direction: linear3(t, ir.Origin, ir.Direction)}
	switch mode {
	case 0, 1:
		innerStr := make([]string, len(inner))
		for j, hh := range inner {
			innerStr[j] = hit3s(hh)
		}
		head := strings.TrimSpace(fmt.Sprintf("%s %s %s %s %s %d %d %s", tg.tok, p3s(or.Origin), p3s(or.Direction),
			p3s(ir.Origin), p3s(ir.Direction), cnt, len(inner), strings.Join(innerStr, " ")))
		if mode == 0 {
			h.push(ostep("coll", "cb "+head), guardPanic(func() string {
				var got []string
				k := build().RayCollisions(&or, func(rc model3d.RayCollision) { got = append(got, hit3s(rc)) })
				return strings.TrimSpace(fmt.Sprintf("%d %s", k, strings.Join(got, "|")))
			}))
		} else {
			h.push(ostep("coll", "nil "+head), guardPanic(func() string {
				return fmt.Sprint(build().RayCollisions(&or, nil))
			}))
		}
	case 2:
		frc, fok := col.FirstRayCollision(&ir)
		fhead := fmt.Sprintf("%s %s %s %s %s %s", tg.tok, p3s(or.Origin), p3s(or.Direction),
			p3s(ir.Origin), p3s(ir.Direction), bstr(fok))
		if fok {
			fhead += " " + hit3s(frc)
		}
		h.push(ostep("first", fhead), guardPanic(func() string {
			rc, ok := build().FirstRayCollision(&or)
			if !ok {
				return "miss"
			}
			return "hit " + hit3s(rc)
		}))
	default:
		q := g.inBox3(col.Min().AddScalar(-1), col.Max().AddScalar(1))
		rad := math.Abs(g.dy())
		orad := t.Apply(q.Add(model3d.X(rad))).Dist(t.Apply(q))
		want := col.SphereCollision(q, rad)
		h.push(ostep("sphc", fmt.Sprintf("%s %s %s %s %s %s", tg.tok, p3s(t.Apply(q)), rs(orad), p3s(q), rs(rad), bstr(want))),
			guardPanic(func() string { return bstr(build().SphereCollision(t.Apply(q), orad)) }))
	}
}

func (h *hist3) obsObj(i int) {
	if h.dead {
		return
	}
	h.noteUse(i)
	o := h.objs[i]
	h.stepObs(htgt3{tok: fmt.Sprintf("@%d", i), d: o.d, t: o.t})
}

func (h *hist3) obsWrap(j int) {
	if h.dead {
		return
	}
	w := h.wraps[j]
	h.stepObs(htgt3{tok: fmt.Sprintf("%%%d", j), d: w.d, t: w.t, w: w})
}

// 3D-ONLY{
func setSqueeze3(t model3d.Transform, q *xf) {
	a := t.(*toolbox3d.AxisSqueeze)
	a.Axis, a.Min, a.Max, a.Ratio = toolbox3d.Axis(q.axis), q.lo, q.hi, q.ratio
}

// }3D-ONLY

// histStart3 draws the object a history is about: a matrix transform (alone or inside a join) half of
// the time, otherwise any transform.
func (g *gen) histStart3() *xf {
	if g.c.Rng.Intn(10) == 0 {
		// identity-like objects (a fast path that returns the receiver, or a shared constant, as
		// "the inverse" would alias it)
		id := make([]float64, g.dim*g.dim)
		for i := 0; i < g.dim; i++ {
			id[i*g.dim+i] = 1
		}
		g.c.Stat(fmt.Sprintf("hist%d.start.identity-like", g.dim), 1)
		switch g.c.Rng.Intn(5) {
		case 0:
			return &xf{kind: 'T'}
		case 1:
			return &xf{kind: 'S', s: 1}
		case 2:
			return &xf{kind: 'V', v: [3]float64{1, 1, 1}}
		case 3:
			return &xf{kind: 'M', m: id}
		default:
			return &xf{kind: 'J', subs: []*xf{{kind: 'T'}, {kind: 'S', s: 1}, {kind: 'M', m: id}}}
		}
	}
	switch g.c.Rng.Intn(6) {
	case 0, 1:
		return &xf{kind: 'M', m: g.intMatrix()}
	case 2:
		subs := []*xf{{kind: 'M', m: g.intMatrix()}, g.prim(false)}
		if g.c.Rng.Intn(2) == 0 {
			subs = append(subs, &xf{kind: 'J', subs: []*xf{g.prim(false), {kind: 'M', m: g.intMatrix()}}})
		}
		g.c.Rng.Shuffle(len(subs), func(i, j int) { subs[i], subs[j] = subs[j], subs[i] })
		return &xf{kind: 'J', subs: subs}
	case 3:
		return g.distTransform()
	case 4:
		x := g.reflJoin()
		return x
	}
	return g.transform(false, 0)
}

func newHist3(g *gen, x *xf) *hist3 {
	h := &hist3{g: g, used: map[int]bool{}, editedUsed: map[int]bool{}, editedInv: map[int]bool{}}
	h.objs = []*hobj3{{d: cloneXf(x), t: x.build3(), src: -1}}
	return h
}

// emit writes the history as one case; scripted scenarios get their own site so that each keeps its
// own (smallest) replay.
func (h *hist3) emit(x0tok, scenario string) {
	c := h.g.c
	op := fmt.Sprintf("c05 hist3 %s %d %s", x0tok, len(h.steps), strings.Join(h.steps, " "))
	if scenario == "" {
		c.Emit(op, strings.Join(h.outs, " ; "))
	} else {
		c.EmitSite(op, strings.Join(h.outs, " ; "), "corr:c05 hist3 "+scenario)
	}
	c.Stat("hist3.histories", 1)
	c.Stat(fmt.Sprintf("hist3.len%d", len(h.steps)), 1)
	if h.reuse {
		c.Stat("hist3.pattern.use-edit-use", 1)
	}
	if h.invReuse {
		c.Stat("hist3.pattern.edit-returned-inverse-then-use-source", 1)
	}
}

func runHist3(c *hlib.Ctx) {
	g := &gen{c: c, dim: 3}
	// scripted histories: the textbook sequences on a matrix transform
	for rep := 0; rep < 1+c.N/30; rep++ {
		for script := 0; script < 6; script++ {
			x := &xf{kind: 'M', m: g.intMatrix()}
			if script == 4 {
				x = &xf{kind: 'J', subs: []*xf{{kind: 'T', v: [3]float64{g.dy(), g.dy(), g.dy()}}, {kind: 'M', m: g.intMatrix()}}}
			}
			if script == 5 {
				// an identity-like object: "the inverse is the object itself" must not become an alias
				id := make([]float64, g.dim*g.dim)
				for i := 0; i < g.dim; i++ {
					id[i*g.dim+i] = 1
				}
				x = []*xf{{kind: 'T'}, {kind: 'S', s: 1}, {kind: 'V', v: [3]float64{1, 1, 1}}, {kind: 'M', m: id},
					{kind: 'J', subs: []*xf{{kind: 'T'}, {kind: 'S', s: 1}}}}[rep%5]
			}
			tok := x.tokens(3)
			h := newHist3(g, x)
			switch script {
			case 0: // use, scale in place, use again
				h.obsObj(0)
				h.stepMut(0, true)
				h.obsObj(0)
				h.stepInv(0)
				h.obsObj(0)
			case 1: // a frame loop that overwrites the matrix through the pointer
				h.obsObj(0)
				for f := 0; f < 3; f++ {
					h.stepMut(0, true)
					h.obsObj(0)
				}
			case 2: // edit the matrix of a returned inverse, then use the source again
				h.stepInv(0)
				h.stepMut(1, true)
				h.obsObj(0)
				h.stepInv(0)
				h.obsObj(1)
				h.obsObj(2)
			case 3: // wrappers kept while a returned inverse is edited
				h.stepSnap(0)
				h.stepInv(0)
				h.stepMut(1, true)
				h.obsWrap(0)
				h.obsWrap(0)
				h.obsObj(0)
			case 5: // edit what Inverse() returned for an identity-like object, then look at the source
				h.stepInv(0)
				h.stepMut(1, false)
				h.stepInv(0)
				h.obsObj(0)
				h.obsObj(0)
			case 4: // a matrix inside a join
				h.obsObj(0)
				h.stepMut(0, true)
				h.obsObj(0)
				h.stepInv(0)
				h.stepMut(1, true)
				h.obsObj(0)
			}
			h.emit(tok, []string{"matrix-edited-in-place", "matrix-overwritten-per-frame", "returned-inverse-edited",
				"kept-wrappers-returned-inverse-edited", "matrix-inside-join", "identity-like-returned-inverse-edited"}[script])
		}
	}
	// random histories
	for i := 0; i < c.N; i++ {
		x := g.histStart3()
		tok := x.tokens(3)
		x.stat(c, "hxf3")
		h := newHist3(g, x)
		n := 3 + c.Rng.Intn(7)
		for len(h.steps) < n && !h.dead {
			// the source object, or one of the objects obtained from it
			oi := 0
			if c.Rng.Intn(3) == 0 {
				oi = c.Rng.Intn(len(h.objs))
			}
			switch k := c.Rng.Intn(20); {
			case k < 7:
				h.obsObj(oi)
			case k < 12:
				if !h.stepMut(oi, c.Rng.Intn(2) == 0) {
					h.obsObj(oi)
				}
			case k < 15:
				if len(h.objs) < 6 {
					h.stepInv(oi)
				} else {
					h.obsObj(oi)
				}
			case k < 17:
				if len(h.wraps) < 3 {
					h.stepSnap(oi)
				} else {
					h.obsObj(oi)
				}
			default:
				if live := h.liveWraps(); len(live) > 0 {
					h.obsWrap(live[c.Rng.Intn(len(live))])
				} else {
					h.obsObj(oi)
				}
			}
		}
		h.emit(tok, "")
	}
}

// 3D-ONLY{

// runHistConj3: MarchingCubesConj asks the transform for its inverse when it is called; after an in-place
// edit of the matrix it must mesh with (and map back through) the transform as it is now.  Go-side
// predicate: the mesh obtained from the edited object equals the mesh obtained from a freshly built
// transform with the same public state (theorems marching_cubes_conj + inverse_after_history).
func runHistConj3(c *hlib.Ctx) {
	g := &gen{c: c, dim: 3}
	// triangles up to rotation of their vertex order (orientation kept): both meshes come from MarchingCubesConj,
	// which turns the triangles round when the matrix reverses orientation (intMatrix has determinants of both signs)
	key := func(m *model3d.Mesh) map[model3d.Triangle]int { return orientedKey(m, false) }
	for i := 0; i < 4; i++ {
		x := &xf{kind: 'M', m: g.intMatrix()}
		tok := x.tokens(3)
		t := x.build3().(*model3d.Matrix3Transform)
		var lo model3d.Coord3D
		s := model3d.NewRect(lo, lo.AddScalar(1))
		edit := ""
		res := guardPanic(func() string {
			first := model3d.MarchingCubesConj(s, 0.25, 0, t)
			if len(key(first)) == 0 {
				return "empty mesh"
			}
			if i%2 == 0 {
				t.Matrix.Scale(2)
				edit = "Matrix.Scale(2)"
			} else {
				var m model3d.Matrix3
				copy(m[:], g.intMatrix())
				*t.Matrix = m
				edit = "*Matrix = " + rsl(m[:]...)
			}
			got := model3d.MarchingCubesConj(s, 0.25, 0, t)
			cp := *t.Matrix
			want := model3d.MarchingCubesConj(s, 0.25, 0, &model3d.Matrix3Transform{Matrix: &cp})
			a, b := key(got), key(want)
			if len(a) != len(b) || len(a) == 0 {
				return fmt.Sprintf("triangle sets differ in size: %d vs %d", len(a), len(b))
			}
			for k, v := range a {
				if b[k] != v {
					return "triangle sets differ"
				}
			}
			return ""
		})
		c.Stat("hist3.conj.cases", 1)
		if res != "" {
			c.PropFail("prop:c05/history_marching_cubes_conj",
				fmt.Sprintf("xf=[%s]; MarchingCubesConj(unit cube, 0.25, 0, xf); %s; MarchingCubesConj again differs from the mesh for a fresh transform with the same matrix: %s", tok, edit, res))
		}
	}
}

// }3D-ONLY
