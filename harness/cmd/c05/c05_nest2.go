package main

import (
	"fmt"
	"math"
	"strings"

	"github.com/unixpickle/model3d/model2d"
	"verif/harness/hlib"
)

// Nested wrappers (2-D): derived mechanically from c05_nest3.go (see there).

func applyAll2(xs []*xf, p model2d.Coord) model2d.Coord {
	for _, x := range xs {
		p = x.build2().Apply(p)
	}
	return p
}

func boundsAll2(xs []*xf, lo, hi model2d.Coord) (model2d.Coord, model2d.Coord) {
	for _, x := range xs {
		lo, hi = x.build2().ApplyBounds(lo, hi)
	}
	return lo, hi
}

func (g *gen) statCommute2(xs []*xf) {
	probe := model2d.XY(1, 2)
	a := applyAll2(xs, probe)
	rev := make([]*xf, len(xs))
	for i, x := range xs {
		rev[len(xs)-1-i] = x
	}
	if applyAll2(rev, probe) != a {
		g.c.Stat("nest2.non-commuting", 1)
	} else {
		g.c.Stat("nest2.commuting-at-probe", 1)
	}
}

func wrapSolid2(xs []*xf, s model2d.Solid) model2d.Solid {
	for _, x := range xs {
		s = model2d.TransformSolid(x.build2(), s)
	}
	return s
}

func wrapSDF2(xs []*xf, s model2d.SDF) model2d.SDF {
	for _, x := range xs {
		s = model2d.TransformSDF(x.build2().(model2d.DistTransform), s)
	}
	return s
}

func wrapMetaball2(xs []*xf, m model2d.Metaball) model2d.Metaball {
	for _, x := range xs {
		m = model2d.TransformMetaball(x.build2().(model2d.DistTransform), m)
	}
	return m
}

func wrapCollider2(xs []*xf, c model2d.Collider) model2d.Collider {
	for _, x := range xs {
		c = model2d.TransformCollider(x.build2().(model2d.DistTransform), c)
	}
	return c
}

// emitNestSolid2: nested TransformSolid on a real shape (property kind) and on a Rect at an arbitrary
// query point (faithful kind).
func (g *gen) emitNestSolid2(xs []*xf) {
	c := g.c
	tok := nestTokens(xs, 2)
	var s model2d.Solid
	if c.Rng.Intn(2) == 0 {
		lo, hi := g.box2()
		s = model2d.NewRect(lo, hi)
	} else {
		s = &model2d.Circle{Center: g.p2(), Radius: g.pow2(2)}
	}
	q := g.inBox2(s.Min().AddScalar(-0.5), s.Max().AddScalar(0.5))
	if c.Rng.Intn(2) == 0 {
		if b, ok := s.(*model2d.Circle); ok {
			q = b.Center.Add(g.p2().Scale(b.Radius / 32))
		} else {
			q = g.inBox2(s.Min(), s.Max())
		}
	}
	inside := s.Contains(q)
	c.Stat("nest.solid2.inside."+bstr(inside), 1)
	c.Emit(fmt.Sprintf("c05 nest.solid2 %s %s %s %s %s", tok, p2s(s.Min()), p2s(s.Max()), p2s(q), bstr(inside)),
		guardPanic(func() string {
			ts := wrapSolid2(xs, s)
			return bstr(ts.Contains(applyAll2(xs, q))) + " " + p2s(ts.Min()) + " " + p2s(ts.Max())
		}))
	lo, hi := g.box2()
	rect := model2d.NewRect(lo, hi)
	var p model2d.Coord
	if k := c.Rng.Intn(3); k == 0 {
		p = g.p2()
	} else if k == 1 {
		p = applyAll2(xs, g.inBox2(lo, hi))
	} else {
		nlo, nhi := boundsAll2(xs, lo, hi)
		p = g.inBox2(nlo.Min(nhi).AddScalar(-0.25), nlo.Max(nhi).AddScalar(0.25))
	}
	c.Emit(fmt.Sprintf("c05 nest.solidr2 %s %s %s %s", tok, p2s(lo), p2s(hi), p2s(p)), guardPanic(func() string {
		res := wrapSolid2(xs, rect).Contains(p)
		c.Stat("nest.solidr2.inside."+bstr(res), 1)
		return bstr(res)
	}))
}

// emitNestSdf2: nested TransformSDF / TransformMetaball on real shapes.
func (g *gen) emitNestSdf2(xs []*xf) {
	c := g.c
	tok := nestTokens(xs, 2)
	var s interface {
		model2d.SDF
		model2d.Metaball
	}
	if c.Rng.Intn(2) == 0 {
		lo, hi := g.box2()
		s = model2d.NewRect(lo, hi.AddScalar(0.5))
	} else {
		s = &model2d.Circle{Center: g.p2(), Radius: g.pow2(2)}
	}
	q := g.inBox2(s.Min().AddScalar(-1), s.Max().AddScalar(1))
	v := s.SDF(q)
	img := applyAll2(xs, q)
	factor := applyAll2(xs, q.Add(model2d.X(1))).Dist(img)
	c.Emit(fmt.Sprintf("c05 nest.sdf2 %s %s %s %s %s", tok, p2s(s.Min()), p2s(s.Max()), p2s(q), rs(v)),
		guardPanic(func() string {
			ts := wrapSDF2(xs, s)
			return rs(ts.SDF(img)) + " " + p2s(ts.Min()) + " " + p2s(ts.Max())
		}))
	mv := s.MetaballField(q)
	mb := affMB2{s, 3, 0.5}
	d := math.Abs(g.dy())
	c.Emit(fmt.Sprintf("c05 nest.mball2 %s %s %s %s %s %s %s", tok, p2s(s.Min()), p2s(s.Max()), p2s(q), rs(mv),
		rs(d), rs(mb.MetaballDistBound(d))),
		guardPanic(func() string {
			tm := wrapMetaball2(xs, mb)
			return rs(tm.MetaballField(img)) + " " + rs(tm.MetaballDistBound(d*factor)) + " " + p2s(tm.Min()) + " " + p2s(tm.Max())
		}))
}

// emitNestStub2: nested TransformCollider around the recording stub (faithful kinds): the ray and the
// sphere the innermost collider is asked about, the collision handed back out, the bounds.
func (g *gen) emitNestStub2(xs []*xf) {
	c := g.c
	tok := nestTokens(xs, 2)
	r := model2d.Ray{Origin: g.p2(), Direction: g.p2()}
	st := &stub2{}
	tc := wrapCollider2(xs, st)
	tc.RayCollisions(&r, func(model2d.RayCollision) {})
	c.Emit(fmt.Sprintf("c05 nest.inner2 %s %s %s", tok, p2s(r.Origin), p2s(r.Direction)),
		p2s(st.rays[0].Origin)+" "+p2s(st.rays[0].Direction))
	arr := [2]float64{}
	arr[c.Rng.Intn(2)] = g.sign()
	h := model2d.RayCollision{Scale: math.Abs(g.dy()), Normal: model2d.NewCoordArray(arr)}
	st = &stub2{hits: []model2d.RayCollision{h}}
	tc = wrapCollider2(xs, st)
	var got []string
	tc.RayCollisions(&r, func(rc model2d.RayCollision) { got = append(got, hit2s(rc)) })
	c.Emit(fmt.Sprintf("c05 nest.outer2 %s %s", tok, hit2s(h)), strings.Join(got, "|"))
	k := c.Rng.Intn(3)
	st = &stub2{}
	for j := 0; j < k; j++ {
		st.hits = append(st.hits, h)
	}
	tc = wrapCollider2(xs, st)
	c.Emit(fmt.Sprintf("c05 nest.nilcb2 %s %d", tok, k), guardPanic(func() string {
		return fmt.Sprint(tc.RayCollisions(&r, nil))
	}))
	ctr, rad := g.p2(), math.Abs(g.dy())
	st = &stub2{sphReply: c.Rng.Intn(2) == 0}
	tc = wrapCollider2(xs, st)
	got1 := tc.CircleCollision(ctr, rad)
	if seen, ok := sphSeen2(c, st, xs, ctr, rad, got1); ok {
		c.Emit(fmt.Sprintf("c05 nest.sphin2 %s %s %s %s", tok, p2s(ctr), rs(rad), bstr(st.sphReply)), seen)
	}
	c.Emit(fmt.Sprintf("c05 nest.cbounds2 %s %s %s", tok, p2s(st.Min()), p2s(st.Max())), p2s(tc.Min())+" "+p2s(tc.Max()))
}

// emitNestColl2: nested TransformCollider on a REAL collider: the conjugacy law for the composite.
// The inner ray is drawn first, the outer ray is its image under t1;…;tk.  Besides the correspondence
// kinds two predicates are evaluated directly on the real outputs: every reported hit point is the image
// of the inner hit point with the same index, and the bounds enclose the images of the inner box corners.
func (g *gen) emitNestColl2(xs []*xf, col model2d.Collider, cname string, ir model2d.Ray) {
	c := g.c
	tok := nestTokens(xs, 2)
	oo := applyAll2(xs, ir.Origin)
	or := model2d.Ray{Origin: oo, Direction: applyAll2(xs, ir.Origin.Add(ir.Direction)).Sub(oo)}
	var inner []model2d.RayCollision
	cnt := col.RayCollisions(&ir, func(rc model2d.RayCollision) { inner = append(inner, rc) })
	for _, h := range inner {
		if !niceNorm(h.Normal.NormSquared()) || !fewBits(h.Normal.X, h.Normal.Y) {
			c.Stat("nest.coll2.skipped-inexact-normal", 1)
			return
		}
	}
	c.Stat(fmt.Sprintf("nest.coll2.%s.hits%d", cname, cnt), 1)
	g.statCommute2(xs)
	tc := wrapCollider2(xs, col)
	innerStr := make([]string, len(inner))
	for j, h := range inner {
		innerStr[j] = hit2s(h)
	}
	head := strings.TrimSpace(fmt.Sprintf("%s %s %s %s %s %d %d %s", tok, p2s(or.Origin), p2s(or.Direction),
		p2s(ir.Origin), p2s(ir.Direction), cnt, len(inner), strings.Join(innerStr, " ")))
	var outer []model2d.RayCollision
	c.Emit("c05 nest.coll2 cb "+head, guardPanic(func() string {
		var got []string
		k := tc.RayCollisions(&or, func(rc model2d.RayCollision) {
			got = append(got, hit2s(rc))
			outer = append(outer, rc)
		})
		return strings.TrimSpace(fmt.Sprintf("%d %s", k, strings.Join(got, "|")))
	}))
	c.Emit("c05 nest.coll2 nil "+head, guardPanic(func() string {
		return fmt.Sprint(tc.RayCollisions(&or, nil))
	}))
	frc, fok := col.FirstRayCollision(&ir)
	fhead := fmt.Sprintf("%s %s %s %s %s %s", tok, p2s(or.Origin), p2s(or.Direction),
		p2s(ir.Origin), p2s(ir.Direction), bstr(fok))
	if fok {
		fhead += " " + hit2s(frc)
	}
	c.Emit("c05 nest.first2 "+fhead, guardPanic(func() string {
		rc, ok := tc.FirstRayCollision(&or)
		if !ok {
			return "miss"
		}
		return "hit " + hit2s(rc)
	}))
	q := g.inBox2(col.Min().AddScalar(-1), col.Max().AddScalar(1))
	rad := math.Abs(g.dy())
	if g.c.Rng.Intn(2) == 0 {
		q, rad = g.circleOutside2(col)
	}
	iq := applyAll2(xs, q)
	orad := applyAll2(xs, q.Add(model2d.X(rad))).Dist(iq)
	g.statCircle2("nest.sphc2", col, q, rad, orad)
	want := col.CircleCollision(q, rad)
	c.Stat("nest.sphc2.inner."+bstr(want), 1)
	c.Emit(fmt.Sprintf("c05 nest.sphc2 %s %s %s %s %s %s", tok, p2s(iq), rs(orad), p2s(q), rs(rad), bstr(want)),
		bstr(tc.CircleCollision(iq, orad)))

	// predicates on the real outputs
	desc := fmt.Sprintf("members(innermost first)=[%s] collider=%s inner ray=(%s ; %s) outer ray=(%s ; %s)", tok, cname,
		p2s(ir.Origin), p2s(ir.Direction), p2s(or.Origin), p2s(or.Direction))
	if len(outer) != len(inner) {
		c.PropFail("prop:c05/nested_collider_hit_points", fmt.Sprintf("%s: %d hits reported, the wrapped collider has %d on the pre-image ray", desc, len(outer), len(inner)))
	} else {
		for j, h := range inner {
			if !fewBits(h.Scale) {
				c.Stat("nest.coll2.hitpoint-skipped-inexact-parameter", 1)
				continue
			}
			want := applyAll2(xs, ir.Origin.Add(ir.Direction.Scale(h.Scale)))
			got := or.Origin.Add(or.Direction.Scale(outer[j].Scale))
			c.Stat("nest.coll2.hitpoint-checked", 1)
			if got != want {
				c.PropFail("prop:c05/nested_collider_hit_points", fmt.Sprintf("%s: hit %d at parameter %v is the point %s, the image of the inner hit point (parameter %v) is %s",
					desc, j, outer[j].Scale, p2s(got), h.Scale, p2s(want)))
				break
			}
		}
	}
	lo, hi := col.Min(), col.Max()
	tlo, thi := tc.Min(), tc.Max()
	for i := 0; i < 4; i++ {
		corner := model2d.XY(pick2(i&1, lo.X, hi.X), pick2(i&2, lo.Y, hi.Y))
		img := applyAll2(xs, corner)
		if img.Min(tlo) != tlo || img.Max(thi) != thi {
			c.PropFail("prop:c05/nested_collider_bounds", fmt.Sprintf("%s: bounds %s .. %s do not contain the image %s of the corner %s of the wrapped collider's box",
				desc, p2s(tlo), p2s(thi), p2s(img), p2s(corner)))
			break
		}
	}
}

func runNest2(c *hlib.Ctx) {
	g := &gen{c: c, dim: 2}
	// the textbook cases: the unit ball moved by a translation and a scale / a quarter turn, in both orders
	unit := &model2d.Circle{Radius: 1}
	axis := model2d.Ray{Origin: model2d.X(-3), Direction: model2d.X(1)}
	tr := &xf{kind: 'T', v: [3]float64{5, 0, 0}}
	sc := &xf{kind: 'S', s: 2}
	quarter := &xf{kind: 'O', m: []float64{0, -1, 1, 0}}
	for _, xs := range [][]*xf{{tr, sc}, {sc, tr}, {tr, quarter}, {quarter, tr}, {tr, sc, quarter, tr}} {
		g.emitNestColl2(xs, unit, "unit-ball", axis)
	}
	for i := 0; i < c.N; i++ {
		g.emitNestSolid2(g.nestMembers(false))
		g.emitNestSdf2(g.nestMembers(true))
		g.emitNestStub2(g.nestMembers(true))
		for j := 0; j < 2; j++ {
			col, cname := g.collider2()
			g.emitNestColl2(g.nestMembers(true), col, cname, g.ray2(col))
		}
	}
}
