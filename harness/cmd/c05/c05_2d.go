package main

import (
	"fmt"
	"math"
	"strings"

	"github.com/unixpickle/model3d/model2d"
	"verif/harness/hlib"
)

func p2s(p model2d.Coord) string { return rsl(p.X, p.Y) }

func (g *gen) p2() model2d.Coord { return model2d.XY(g.dy(), g.dy()) }

func (g *gen) box2() (model2d.Coord, model2d.Coord) {
	a, b := g.p2(), g.p2()
	if g.c.Rng.Intn(8) == 0 {
		b.X = a.X // degenerate (flat) box
		g.c.Stat("box.flat", 1)
	}
	return a.Min(b), a.Max(b)
}

func (g *gen) inBox2(lo, hi model2d.Coord) model2d.Coord {
	pick := func(a, b float64) float64 {
		switch g.c.Rng.Intn(4) {
		case 0:
			return a
		case 1:
			return b
		}
		n := int(math.Round((b - a) * 8))
		return a + float64(g.c.Rng.Intn(n+1))/8
	}
	return model2d.XY(pick(lo.X, hi.X), pick(lo.Y, hi.Y))
}

// stub2 is a recording collider standing for "any inner collider": it reports a fixed list
// of collisions and remembers what it was asked.
type stub2 struct {
	hits     []model2d.RayCollision
	rays     []model2d.Ray
	sphC     []model2d.Coord
	sphR     []float64
	sphReply bool
}

func (s *stub2) Min() model2d.Coord { return model2d.XY(-1, -2) }
func (s *stub2) Max() model2d.Coord { return model2d.XY(1, 2) }
func (s *stub2) RayCollisions(r *model2d.Ray, f func(model2d.RayCollision)) int {
	s.rays = append(s.rays, *r)
	for _, h := range s.hits {
		if f != nil {
			f(h)
		}
	}
	return len(s.hits)
}
func (s *stub2) FirstRayCollision(r *model2d.Ray) (model2d.RayCollision, bool) {
	s.rays = append(s.rays, *r)
	if len(s.hits) == 0 {
		return model2d.RayCollision{}, false
	}
	return s.hits[0], true
}
func (s *stub2) CircleCollision(c model2d.Coord, r float64) bool {
	s.sphC = append(s.sphC, c)
	s.sphR = append(s.sphR, r)
	return s.sphReply
}

// affMB2 wraps a real metaball, replacing the (identity) distance bound of the primitive shapes
// by a non-trivial non-decreasing one, so that the argument passed to it is observable.
type affMB2 struct {
	model2d.Metaball
	a, b float64
}

func (m affMB2) MetaballDistBound(d float64) float64 { return m.a*d + m.b }

func hit2s(rc model2d.RayCollision) string {
	return rs(rc.Scale) + " " + p2s(rc.Normal)
}

// linear2 is the image of a direction under the linear part of t.
func linear2(t model2d.Transform, o, d model2d.Coord) model2d.Coord {
	return t.Apply(o.Add(d)).Sub(t.Apply(o))
}

// collider2 draws a real collider whose normals are exactly representable unit vectors.
func (g *gen) collider2() (model2d.Collider, string) {
	switch g.c.Rng.Intn(3) {
	case 0:
		lo, hi := g.box2()
		hi = hi.Add(model2d.XY(0.5, 0.5))
		return model2d.NewRect(lo, hi), "rect"
	case 1:
		ctr := model2d.XY(float64(g.c.Rng.Intn(9)-4), float64(g.c.Rng.Intn(9)-4))
		return &model2d.Circle{Center: ctr, Radius: g.pow2(2)}, "circle"
	default:
		// axis-aligned segment (unit normal exactly representable), shifted
		a := g.pow2(2) * 2
		off := g.p2()
		var seg model2d.Segment
		if g.c.Rng.Intn(2) == 0 {
			seg = model2d.Segment{off, off.Add(model2d.X(a))}
		} else {
			seg = model2d.Segment{off.Add(model2d.Y(a)), off}
		}
		return &seg, "segment"
	}
}

// ray2 draws a ray aimed (mostly) at the collider; directions are not unit.
func (g *gen) ray2(c model2d.Collider) model2d.Ray {
	target := g.inBox2(c.Min(), c.Max())
	switch s := c.(type) {
	case *model2d.Circle:
		if g.c.Rng.Intn(4) != 0 {
			h := s.Radius / 2
			target = s.Center.Add(model2d.XY(float64(g.c.Rng.Intn(3)-1)*h, float64(g.c.Rng.Intn(3)-1)*h))
		}
	case *model2d.Segment:
		if g.c.Rng.Intn(4) != 0 {
			w := []float64{0.5, 0.25, 0.75, 1, 0}[g.c.Rng.Intn(5)]
			target = s[0].Scale(w).Add(s[1].Scale(1 - w))
		}
	}
	var dir model2d.Coord
	switch g.c.Rng.Intn(3) {
	case 0: // axis ray
		arr := [2]float64{}
		arr[g.c.Rng.Intn(2)] = g.sign() * g.pow2(2)
		dir = model2d.NewCoordArray(arr)
	case 1:
		dir = model2d.XY(float64(g.c.Rng.Intn(5)-2), float64(g.c.Rng.Intn(5)-2)).Scale(0.5)
	default:
		dir = g.p2().Scale(0.25)
	}
	if b, ok := c.(*model2d.Circle); ok && g.c.Rng.Intn(5) < 3 {
		// through the centre along an axis: the hit normals are exactly representable
		target = b.Center
		arr := [2]float64{}
		arr[g.c.Rng.Intn(2)] = g.sign() * g.pow2(2)
		dir = model2d.NewCoordArray(arr)
	}
	if dir == (model2d.Coord{}) {
		dir = model2d.X(2)
	}
	k := float64(g.c.Rng.Intn(9) - 2)
	return model2d.Ray{Origin: target.Sub(dir.Scale(k)), Direction: dir}
}

func run2(c *hlib.Ctx) {
	g := &gen{c: c, dim: 2}
	n := c.N

	// --- faithful kinds: the model of each method against the real method
	for i := 0; i < n; i++ {
		x := g.transform(false, 0)
		x.stat(c, "xf2")
		t := x.build2()
		p := g.p2()
		c.Emit(fmt.Sprintf("c05 apply2 %s %s", x.tokens(2), p2s(p)), p2s(t.Apply(p)))
		lo, hi := g.box2()
		nlo, nhi := t.ApplyBounds(lo, hi)
		c.Emit(fmt.Sprintf("c05 bounds2 %s %s %s", x.tokens(2), p2s(lo), p2s(hi)), p2s(nlo)+" "+p2s(nhi))
		c.Emit(fmt.Sprintf("c05 invdesc2 %s", x.tokens(2)), describe2(t.Inverse()))

		// --- property kinds: the driver answers with what the property demands
		inv := t.Inverse()
		c.Emit(fmt.Sprintf("c05 roundtrip2 %s %s", x.tokens(2), p2s(p)),
			p2s(inv.Apply(t.Apply(p)))+" "+p2s(t.Apply(inv.Apply(p))))
		q := g.inBox2(lo, hi)
		img := t.Apply(q)
		c.Emit(fmt.Sprintf("c05 encl2 %s %s %s %s", x.tokens(2), p2s(lo), p2s(hi), p2s(q)),
			bstr(img.Min(nlo) == nlo && img.Max(nhi) == nhi))
	}

	// --- distances (DistTransform kinds)
	for i := 0; i < n; i++ {
		x := g.distTransform()
		x.stat(c, "dxf2")
		t := x.build2().(model2d.DistTransform)
		p := g.p2()
		// q at an exactly representable distance from p
		var delta model2d.Coord
		switch c.Rng.Intn(3) {
		case 0:
			arr := [2]float64{}
			arr[c.Rng.Intn(2)] = g.dy()
			delta = model2d.NewCoordArray(arr)
		case 1:
			var m model2d.Matrix2
			copy(m[:], g.signedPerm())
			delta = m.MulColumn(model2d.XY(3, 4)).Scale(g.pow2(2))
		default:
			var m model2d.Matrix2
			copy(m[:], g.signedPerm())
			delta = m.MulColumn(model2d.XY(5, 12)).Scale(g.pow2(2)) // |.| = 13
		}
		q := p.Add(delta)
		d := p.Dist(q)
		c.Emit(fmt.Sprintf("c05 appdist2 %s %s", x.tokens(2), rs(d)), rs(t.ApplyDistance(d)))
		c.Emit(fmt.Sprintf("c05 dist2 %s %s %s", x.tokens(2), p2s(p), p2s(q)),
			rs(t.ApplyDistance(d))+" "+rs(t.Apply(p).Dist(t.Apply(q))))
	}

	// --- TransformSolid / TransformSDF / TransformMetaball on real shapes
	for i := 0; i < n; i++ {
		x := g.transform(false, 0)
		t := x.build2()
		var s model2d.Solid
		if c.Rng.Intn(2) == 0 {
			lo, hi := g.box2()
			s = model2d.NewRect(lo, hi)
		} else {
			s = &model2d.Circle{Center: g.p2(), Radius: g.pow2(2)}
		}
		q := g.inBox2(s.Min().AddScalar(-0.5), s.Max().AddScalar(0.5))
		if c.Rng.Intn(2) == 0 {
			if b, ok := s.(*model2d.Circle); ok {
				q = b.Center.Add(g.p2().Scale(b.Radius / 32))
			} else {
				q = g.inBox2(s.Min(), s.Max())
			}
		}
		inside := s.Contains(q)
		c.Stat("solid2.inside."+bstr(inside), 1)
		c.Emit(fmt.Sprintf("c05 solid2 %s %s %s %s %s", x.tokens(2), p2s(s.Min()), p2s(s.Max()), p2s(q), bstr(inside)),
			guardPanic(func() string {
				ts := model2d.TransformSolid(t, s)
				return bstr(ts.Contains(t.Apply(q))) + " " + p2s(ts.Min()) + " " + p2s(ts.Max())
			}))
		// arbitrary query point against a Rect solid (Rect.Contains is modelled)
		lo, hi := g.box2()
		rect := model2d.NewRect(lo, hi)
		var p model2d.Coord
		if k := c.Rng.Intn(3); k == 0 {
			p = g.p2()
		} else if k == 1 {
			p = t.Apply(g.inBox2(lo, hi))
		} else {
			nlo, nhi := t.ApplyBounds(lo, hi)
			p = g.inBox2(nlo.Min(nhi).AddScalar(-0.25), nlo.Max(nhi).AddScalar(0.25))
		}
		c.Emit(fmt.Sprintf("c05 solidr2 %s %s %s %s", x.tokens(2), p2s(lo), p2s(hi), p2s(p)), guardPanic(func() string {
			res := model2d.TransformSolid(t, rect).Contains(p)
			c.Stat("solidr2.inside."+bstr(res), 1)
			return bstr(res)
		}))
	}
	for i := 0; i < n; i++ {
		x := g.distTransform()
		t := x.build2().(model2d.DistTransform)
		var s interface {
			model2d.SDF
			model2d.Metaball
		}
		if c.Rng.Intn(2) == 0 {
			lo, hi := g.box2()
			s = model2d.NewRect(lo, hi.AddScalar(0.5))
		} else {
			s = &model2d.Circle{Center: g.p2(), Radius: g.pow2(2)}
		}
		q := g.inBox2(s.Min().AddScalar(-1), s.Max().AddScalar(1))
		v := s.SDF(q)
		// the factor by which t changes distances, measured on two points one unit apart
		factor := t.Apply(q.Add(model2d.X(1))).Dist(t.Apply(q))
		c.Emit(fmt.Sprintf("c05 sdf2 %s %s %s %s %s", x.tokens(2), p2s(s.Min()), p2s(s.Max()), p2s(q), rs(v)),
			guardPanic(func() string {
				ts := model2d.TransformSDF(t, s)
				return rs(ts.SDF(t.Apply(q))) + " " + p2s(ts.Min()) + " " + p2s(ts.Max())
			}))
		mv := s.MetaballField(q)
		mb := affMB2{s, 3, 0.5}
		d := math.Abs(g.dy())
		c.Emit(fmt.Sprintf("c05 mball2 %s %s %s %s %s %s %s", x.tokens(2), p2s(s.Min()), p2s(s.Max()), p2s(q), rs(mv),
			rs(d), rs(mb.MetaballDistBound(d))),
			guardPanic(func() string {
				tm := model2d.TransformMetaball(t, mb)
				return rs(tm.MetaballField(t.Apply(q))) + " " + rs(tm.MetaballDistBound(d*factor)) + " " + p2s(tm.Min()) + " " + p2s(tm.Max())
			}))
		// VecScaleMetaball
		sc := model2d.XY(g.sign()*g.pow2(2), g.sign()*g.pow2(2))
		vm := model2d.VecScaleMetaball(mb, sc)
		c.Emit(fmt.Sprintf("c05 vmball2 %s %s %s %s %s %s %s", p2s(sc), p2s(s.Min()), p2s(s.Max()), p2s(q), rs(mv), rs(d), rsl(mb.a, mb.b)),
			rs(vm.MetaballField(q.Mul(sc)))+" "+rs(vm.MetaballDistBound(d))+" "+p2s(vm.Min())+" "+p2s(vm.Max()))
	}

	// --- transformedCollider, faithful kinds with the recording stub
	for i := 0; i < n; i++ {
		x := g.distTransform()
		t := x.build2().(model2d.DistTransform)
		r := model2d.Ray{Origin: g.p2(), Direction: g.p2()}
		st := &stub2{}
		tc := model2d.TransformCollider(t, st)
		tc.RayCollisions(&r, func(model2d.RayCollision) {})
		c.Emit(fmt.Sprintf("c05 inner2 %s %s %s", x.tokens(2), p2s(r.Origin), p2s(r.Direction)),
			p2s(st.rays[0].Origin)+" "+p2s(st.rays[0].Direction))
		// outer collision for an axis-aligned unit normal (so renormalisation, if any, is exact)
		arr := [2]float64{}
		arr[c.Rng.Intn(2)] = g.sign()
		h := model2d.RayCollision{Scale: math.Abs(g.dy()), Normal: model2d.NewCoordArray(arr)}
		st = &stub2{hits: []model2d.RayCollision{h}}
		tc = model2d.TransformCollider(t, st)
		var got []string
		tc.RayCollisions(&r, func(rc model2d.RayCollision) { got = append(got, hit2s(rc)) })
		c.Emit(fmt.Sprintf("c05 outer2 %s %s", x.tokens(2), hit2s(h)), strings.Join(got, "|"))
		// nil callback, k inner hits
		k := c.Rng.Intn(3)
		st = &stub2{}
		for j := 0; j < k; j++ {
			st.hits = append(st.hits, h)
		}
		tc = model2d.TransformCollider(t, st)
		c.Emit(fmt.Sprintf("c05 nilcb2 %s %d", x.tokens(2), k), guardPanic(func() string {
			return fmt.Sprint(tc.RayCollisions(&r, nil))
		}))
		// sphere query as seen by the inner collider
		ctr, rad := g.p2(), math.Abs(g.dy())
		st = &stub2{sphReply: c.Rng.Intn(2) == 0}
		tc = model2d.TransformCollider(t, st)
		got1 := tc.CircleCollision(ctr, rad)
		if seen, ok := sphSeen2(c, st, []*xf{x}, ctr, rad, got1); ok {
			c.Emit(fmt.Sprintf("c05 sphin2 %s %s %s %s", x.tokens(2), p2s(ctr), rs(rad), bstr(st.sphReply)), seen)
		}
		lo, hi := tc.Min(), tc.Max()
		c.Emit(fmt.Sprintf("c05 cbounds2 %s %s %s", x.tokens(2), p2s(st.Min()), p2s(st.Max())), p2s(lo)+" "+p2s(hi))
	}

	// --- transformedCollider on REAL colliders: the conjugacy law itself.
	// inner ray (o',d') is drawn first, the outer ray is its image; the inner collider's own
	// answers on (o',d') are part of the case, the driver answers with what the property demands.
	// the textbook cases first: unit ball translated by (5,0,…), scaled by 2, both, hit along the x axis
	unit := &model2d.Circle{Radius: 1}
	axis := model2d.Ray{Origin: model2d.X(-3), Direction: model2d.X(1)}
	fixed := []*xf{{kind: 'T', v: [3]float64{5, 0, 0}}, {kind: 'S', s: 2},
		{kind: 'J', subs: []*xf{{kind: 'S', s: 2}, {kind: 'T', v: [3]float64{5, 0, 0}}}}}
	for _, x := range fixed {
		g.emitColl2(x, unit, "unit-ball", axis)
	}
	for i := 0; i < 2*n; i++ {
		x := g.distTransform()
		col, cname := g.collider2()
		g.emitColl2(x, col, cname, g.ray2(col))
	}
}

// circleOutside2: see sphereOutside3.
func (g *gen) circleOutside2(col model2d.Collider) (model2d.Coord, float64) {
	lo, hi := col.Min(), col.Max()
	q := g.inBox2(lo, hi).Array()
	d := math.Ldexp(1, g.c.Rng.Intn(6)-3)
	ax := g.c.Rng.Intn(2)
	if g.c.Rng.Intn(2) == 0 {
		q[ax] = hi.Array()[ax] + d
	} else {
		q[ax] = lo.Array()[ax] - d
	}
	if g.c.Rng.Intn(4) == 0 { // off the second side too (corner region)
		q[1-ax] = hi.Array()[1-ax] + d/2
	}
	rad := d * []float64{0.5, 1, 1.125, 1.25, 1.5, 2, 3, 4}[g.c.Rng.Intn(8)]
	return model2d.NewCoordArray(q), rad
}

// statCircle2: see statSphere3.
func (g *gen) statCircle2(kind string, col model2d.Collider, q model2d.Coord, rad, orad float64) {
	boxDist := q.Dist(q.Max(col.Min()).Min(col.Max()))
	if boxDist == 0 || rad == 0 {
		return
	}
	cls := "same-scale"
	if orad > rad {
		cls = "enlarging"
	} else if orad < rad {
		cls = "shrinking"
	}
	reach := "missing-box"
	if boxDist <= rad {
		reach = "reaching-box"
		if boxDist*orad/rad > rad {
			reach = "reaching-box.mixed-units-would-miss"
		}
	}
	g.c.Stat(kind+".outside."+cls+"."+reach, 1)
}

// emitColl2: one transformed-collider case on a real collider (see run2).
func (g *gen) emitColl2(x *xf, col model2d.Collider, cname string, ir model2d.Ray) {
	c := g.c
	t := x.build2().(model2d.DistTransform)
	or := model2d.Ray{Origin: t.Apply(ir.Origin), Direction: linear2(t, ir.Origin, ir.Direction)}
	var inner []model2d.RayCollision
	cnt := col.RayCollisions(&ir, func(rc model2d.RayCollision) { inner = append(inner, rc) })
	nice := true
	for _, h := range inner {
		if !niceNorm(h.Normal.NormSquared()) || !fewBits(h.Normal.X, h.Normal.Y) {
			nice = false
		}
	}
	if !nice {
		c.Stat("coll2.skipped-inexact-normal", 1)
		return
	}
	c.Stat(fmt.Sprintf("coll2.%s.hits%d", cname, cnt), 1)
	x.stat(c, "cxf2")
	tc := model2d.TransformCollider(t, col)
	innerStr := make([]string, len(inner))
	for j, h := range inner {
		innerStr[j] = hit2s(h)
	}
	head := fmt.Sprintf("%s %s %s %s %s %d %d %s", x.tokens(2), p2s(or.Origin), p2s(or.Direction),
		p2s(ir.Origin), p2s(ir.Direction), cnt, len(inner), strings.Join(innerStr, " "))
	head = strings.TrimSpace(head)
	c.Emit("c05 coll2 cb "+head, guardPanic(func() string {
		var got []string
		k := tc.RayCollisions(&or, func(rc model2d.RayCollision) { got = append(got, hit2s(rc)) })
		return strings.TrimSpace(fmt.Sprintf("%d %s", k, strings.Join(got, "|")))
	}))
	c.Emit("c05 coll2 nil "+head, guardPanic(func() string {
		return fmt.Sprint(tc.RayCollisions(&or, nil))
	}))
	frc, fok := col.FirstRayCollision(&ir)
	fhead := fmt.Sprintf("%s %s %s %s %s %s", x.tokens(2), p2s(or.Origin), p2s(or.Direction),
		p2s(ir.Origin), p2s(ir.Direction), bstr(fok))
	if fok {
		fhead += " " + hit2s(frc)
	}
	c.Emit("c05 first2 "+fhead, guardPanic(func() string {
		rc, ok := tc.FirstRayCollision(&or)
		if !ok {
			return "miss"
		}
		return "hit " + hit2s(rc)
	}))
	// sphere query: centre q, radius r in the original space; the outer radius is the
	// distance between the images of q and of a point r away from it.
	q := g.inBox2(col.Min().AddScalar(-1), col.Max().AddScalar(1))
	rad := math.Abs(g.dy())
	if g.c.Rng.Intn(2) == 0 {
		q, rad = g.circleOutside2(col)
	}
	orad := t.Apply(q.Add(model2d.X(rad))).Dist(t.Apply(q))
	g.statCircle2("sphc2", col, q, rad, orad)
	want := col.CircleCollision(q, rad)
	c.Stat("sphc2.inner."+bstr(want), 1)
	c.Emit(fmt.Sprintf("c05 sphc2 %s %s %s %s %s %s", x.tokens(2), p2s(t.Apply(q)), rs(orad), p2s(q), rs(rad), bstr(want)),
		bstr(tc.CircleCollision(t.Apply(q), orad)))
}
