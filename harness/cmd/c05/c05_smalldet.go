package main

import (
	"fmt"
	"math"

	"github.com/unixpickle/model3d/model2d"
	"github.com/unixpickle/model3d/model3d"
	"verif/harness/hlib"
)

// Matrices of small overall scale: well-conditioned (an integer matrix of determinant ±1/±2^j, or a
// rotation with a mild shear, times a small uniform factor) but with |det| far below 1e-12 — unit
// conversions such as micrometres to metres.  The property makes no exception for them: the inverse
// is the inverse, the transformed solid is the image.
//
// exact mode: the factor is 2^-k (k = 14..30, so |det| <= 2^-42 < 1e-12 in 3-D; k = 20..30 in 2-D), every
// float64 operation of Det / Inverse / Apply stays exact and the usual property kinds apply
// (mat3/mat2 inv, invmul, mulcolinv; roundtrip, invdesc, solid, solidr, encl; nested solids).
// bits mode: arbitrary doubles (rotation x shear x 1e-5..1e-9), bit-for-bit against the Float model.

func (g *gen) smallMatrix() ([]float64, int) {
	m := g.intMatrix()
	k := 14 + g.c.Rng.Intn(17)
	if g.dim == 2 {
		k = 20 + g.c.Rng.Intn(11)
	}
	f := math.Ldexp(1, -k)
	for i := range m {
		m[i] *= f
	}
	return m, k
}

func runSmallDet(c *hlib.Ctx) {
	n := c.N/3 + 4
	// ---- exact mode, 3-D
	g := &gen{c: c, dim: 3}
	for i := 0; i < n; i++ {
		ms, k := g.smallMatrix()
		var m model3d.Matrix3
		copy(m[:], ms)
		if !(math.Abs(m.Det()) < 1e-12) || m.Det() == 0 {
			c.Stat("smalldet3.not-small", 1)
			continue
		}
		c.Stat(fmt.Sprintf("smalldet3.exact.scale2^-%d", k/4*4), 1)
		p := g.p3()
		c.Emit("c05 mat3 det "+rsl(m[:]...), rs(m.Det()))
		c.Emit("c05 mat3 inv "+rsl(m[:]...), rsl(m.Inverse()[:]...))
		c.Emit("c05 mat3 mulcolinv "+rsl(m[:]...)+" "+p3s(p), p3s(m.MulColumnInv(p, m.Det())))
		c.Emit("c05 mat3 invmul "+rsl(m[:]...), rsl(m.Inverse().Mul(&m)[:]...)+" "+rsl(m.Mul(m.Inverse())[:]...))
		x := &xf{kind: 'M', m: ms}
		if c.Rng.Intn(3) == 0 {
			// inside a composition: translate, the small matrix, a power-of-two scale
			// (integer offsets and a factor ±2^±1, so that the round trip through the huge inverse stays exact)
			tr := &xf{kind: 'T', v: [3]float64{float64(c.Rng.Intn(9) - 4), float64(c.Rng.Intn(9) - 4), float64(c.Rng.Intn(9) - 4)}}
			x = &xf{kind: 'J', subs: []*xf{tr, x, {kind: 'S', s: g.sign() * []float64{0.5, 2}[c.Rng.Intn(2)]}}}
		}
		t := x.build3()
		inv := t.Inverse()
		c.Emit(fmt.Sprintf("c05 apply3 %s %s", x.tokens(3), p3s(p)), p3s(t.Apply(p)))
		c.Emit(fmt.Sprintf("c05 invdesc3 %s", x.tokens(3)), describe3(inv))
		c.Emit(fmt.Sprintf("c05 roundtrip3 %s %s", x.tokens(3), p3s(p)),
			p3s(inv.Apply(t.Apply(p)))+" "+p3s(t.Apply(inv.Apply(p))))
		lo, hi := g.box3()
		nlo, nhi := t.ApplyBounds(lo, hi)
		q := g.inBox3(lo, hi)
		img := t.Apply(q)
		c.Emit(fmt.Sprintf("c05 bounds3 %s %s %s", x.tokens(3), p3s(lo), p3s(hi)), p3s(nlo)+" "+p3s(nhi))
		c.Emit(fmt.Sprintf("c05 encl3 %s %s %s %s", x.tokens(3), p3s(lo), p3s(hi), p3s(q)),
			bstr(img.Min(nlo) == nlo && img.Max(nhi) == nhi))
		// TransformSolid: a point of the solid, a point next to it
		rect := model3d.NewRect(lo, hi.AddScalar(0.5))
		q = g.inBox3(rect.Min().AddScalar(-0.5), rect.Max().AddScalar(0.5))
		inside := rect.Contains(q)
		c.Stat("smalldet3.solid.inside."+bstr(inside), 1)
		c.Emit(fmt.Sprintf("c05 solid3 %s %s %s %s %s", x.tokens(3), p3s(rect.Min()), p3s(rect.Max()), p3s(q), bstr(inside)),
			guardPanic(func() string {
				ts := model3d.TransformSolid(t, rect)
				return bstr(ts.Contains(t.Apply(q))) + " " + p3s(ts.Min()) + " " + p3s(ts.Max())
			}))
		pq := t.Apply(g.inBox3(rect.Min().AddScalar(-0.5), rect.Max().AddScalar(0.5)))
		c.Emit(fmt.Sprintf("c05 solidr3 %s %s %s %s", x.tokens(3), p3s(rect.Min()), p3s(rect.Max()), p3s(pq)), guardPanic(func() string {
			return bstr(model3d.TransformSolid(t, rect).Contains(pq))
		}))
		// nested: the small matrix wrapped first, then moved
		xs := []*xf{{kind: 'M', m: ms}, {kind: 'T', v: [3]float64{g.dy(), g.dy(), g.dy()}}}
		if c.Rng.Intn(2) == 0 {
			xs[0], xs[1] = xs[1], xs[0]
		}
		c.Emit(fmt.Sprintf("c05 nest.solid3 %s %s %s %s %s", nestTokens(xs, 3), p3s(rect.Min()), p3s(rect.Max()), p3s(q), bstr(inside)),
			guardPanic(func() string {
				ts := wrapSolid3(xs, rect)
				return bstr(ts.Contains(applyAll3(xs, q))) + " " + p3s(ts.Min()) + " " + p3s(ts.Max())
			}))
	}
	// ---- exact mode, 2-D
	g = &gen{c: c, dim: 2}
	for i := 0; i < n; i++ {
		ms, k := g.smallMatrix()
		var m model2d.Matrix2
		copy(m[:], ms)
		if !(math.Abs(m.Det()) < 1e-12) || m.Det() == 0 {
			c.Stat("smalldet2.not-small", 1)
			continue
		}
		c.Stat(fmt.Sprintf("smalldet2.exact.scale2^-%d", k/4*4), 1)
		p := g.p2()
		c.Emit("c05 mat2 det "+rsl(m[:]...), rs(m.Det()))
		c.Emit("c05 mat2 inv "+rsl(m[:]...), rsl(m.Inverse()[:]...))
		c.Emit("c05 mat2 mulcolinv "+rsl(m[:]...)+" "+p2s(p), p2s(m.MulColumnInv(p, m.Det())))
		c.Emit("c05 mat2 invmul "+rsl(m[:]...), rsl(m.Inverse().Mul(&m)[:]...)+" "+rsl(m.Mul(m.Inverse())[:]...))
		x := &xf{kind: 'M', m: ms}
		t := x.build2()
		inv := t.Inverse()
		c.Emit(fmt.Sprintf("c05 invdesc2 %s", x.tokens(2)), describe2(inv))
		c.Emit(fmt.Sprintf("c05 roundtrip2 %s %s", x.tokens(2), p2s(p)),
			p2s(inv.Apply(t.Apply(p)))+" "+p2s(t.Apply(inv.Apply(p))))
		lo, hi := g.box2()
		rect := model2d.NewRect(lo, hi.AddScalar(0.5))
		q := g.inBox2(rect.Min().AddScalar(-0.5), rect.Max().AddScalar(0.5))
		inside := rect.Contains(q)
		c.Emit(fmt.Sprintf("c05 solid2 %s %s %s %s %s", x.tokens(2), p2s(rect.Min()), p2s(rect.Max()), p2s(q), bstr(inside)),
			guardPanic(func() string {
				ts := model2d.TransformSolid(t, rect)
				return bstr(ts.Contains(t.Apply(q))) + " " + p2s(ts.Min()) + " " + p2s(ts.Max())
			}))
	}
	// ---- bits mode, 3-D: rotation x mild shear x small factor
	g = &gen{c: c, dim: 3}
	for i := 0; i < n; i++ {
		rot := model3d.NewMatrix3Rotation(g.unitAxis(), g.angle())
		shear := &model3d.Matrix3{1, 0.25 * c.Rng.Float64(), 0, 0, 1, -0.25 * c.Rng.Float64(), 0.25 * c.Rng.Float64(), 0, 1}
		m := rot.Mul(shear)
		f := math.Pow(10, -5-4*c.Rng.Float64())
		m.Scale(f)
		if !(math.Abs(m.Det()) < 1e-12) {
			c.Stat("smalldet3.bits.not-small", 1)
			continue
		}
		c.Stat("smalldet3.bits", 1)
		x := &xf{kind: 'M', m: append([]float64{}, m[:]...)}
		t := x.build3()
		c.Emit("c05 bits.finvdesc3 "+x.tokensHex(3), describeHex3(t.Inverse()))
		// a point of ordinary size in the small space, pulled back: Inverse().Apply
		p := g.fp3().Scale(f)
		c.Emit(fmt.Sprintf("c05 bits.fapply3 %s %s", xfInvHex3(t), h3(p)), h3(t.Inverse().Apply(p)))
		a, b := g.fp3(), g.fp3()
		lo, hi := a.Min(b), a.Max(b)
		q := t.Apply(lo.Mid(hi))
		if c.Rng.Intn(2) == 0 {
			q = t.Apply(g.fp3())
		}
		res := guardPanic(func() string {
			ts := model3d.TransformSolid(t, model3d.NewRect(lo, hi))
			return fmt.Sprintf("%s %s %s", bstr(ts.Contains(q)), h3(ts.Min())+" "+h3(ts.Max()), h3(t.Inverse().Apply(q)))
		})
		if res != "panic" {
			c.Emit(fmt.Sprintf("c05 bits.fsolidr3 %s %s %s %s", x.tokensHex(3), h3(lo), h3(hi), h3(q)), res)
		}
	}
	// ---- bits mode, 2-D
	g = &gen{c: c, dim: 2}
	for i := 0; i < n; i++ {
		rot := model2d.NewMatrix2Rotation(g.angle())
		shear := &model2d.Matrix2{1, 0.25 * c.Rng.Float64(), 0, 1}
		m := rot.Mul(shear)
		f := math.Pow(10, -6.5-3*c.Rng.Float64())
		m.Scale(f)
		if !(math.Abs(m.Det()) < 1e-12) {
			continue
		}
		c.Stat("smalldet2.bits", 1)
		x := &xf{kind: 'M', m: append([]float64{}, m[:]...)}
		t := x.build2()
		c.Emit("c05 bits.finvdesc2 "+x.tokensHex(2), describeHex2(t.Inverse()))
		a, b := g.fp2(), g.fp2()
		lo, hi := a.Min(b), a.Max(b)
		q := t.Apply(lo.Mid(hi))
		res := guardPanic(func() string {
			ts := model2d.TransformSolid(t, model2d.NewRect(lo, hi))
			return bstr(ts.Contains(q)) + " " + h2(ts.Min()) + " " + h2(ts.Max())
		})
		if res != "panic" {
			c.Emit(fmt.Sprintf("c05 bits.fsolidr2 %s %s %s %s", x.tokensHex(2), h2(lo), h2(hi), h2(q)), res)
		}
	}
}

// xfInvHex3 renders t.Inverse() as a transform token (bits mode), so that its Apply can be run on the model.
func xfInvHex3(t model3d.Transform) string { return describeHex3(t.Inverse()) }
