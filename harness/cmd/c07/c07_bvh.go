package main

// Hand-built BVHs whose branches have two OR MORE children.
//
// model3d.BVH / model2d.BVH is a public type ("a leaf, or a branch with two or more children");
// NewBVHAreaDensity only produces binary branches, but BVHToCollider must convert whatever it is given
// (a BVH flattened for shallower traversal, built by hand, merged from several ...).  Every place of this
// harness that builds a mesh collider also draws such BVHs:
//
//	partition   the primitives in the given order, every node split into 2..6 contiguous groups at
//	            random cut points (recursively; a group of one is a leaf)
//	flat        one branch holding every primitive as a leaf child
//	chunks      two levels: groups of 2..5 consecutive primitives below the root
//	flattened   NewBVHAreaDensity, then every inner branch is spliced into its parent with probability 1/2
//	unbalanced  one leaf after the other next to a branch holding the rest, 3 children per level
//
// For the exact kinds (rect2x mseg2x msegx mtritrix) the op line carries the shape (mode W: preorder
// tokens, L = leaf, B k = branch with k children) and the primitives in leaf order, and the Lean driver
// runs the faithful n-ary hierarchy of M3d/Model/CollideBVH.lean next to the specification "what ALL
// stored primitives answer" (Props/C07 bvh_rect_touches_iff, bvh_segment_touches_iff(_2d),
// bvh_triangle_collisions, bvh_ray_collisions, bvh_boolean_query).

import (
	"fmt"
	"strings"

	"github.com/unixpickle/model3d/model2d"
	"github.com/unixpickle/model3d/model3d"
	"verif/harness/hlib"
)

type wnode struct {
	leaf int // index of the primitive, or -1
	kids []*wnode
}

func (w *wnode) tokens(out *[]string) {
	if w.leaf >= 0 {
		*out = append(*out, "L")
		return
	}
	*out = append(*out, "B", fmt.Sprint(len(w.kids)))
	for _, k := range w.kids {
		k.tokens(out)
	}
}

func (w *wnode) order(out *[]int) {
	if w.leaf >= 0 {
		*out = append(*out, w.leaf)
		return
	}
	for _, k := range w.kids {
		k.order(out)
	}
}

func (w *wnode) maxWidth() int {
	m := len(w.kids)
	for _, k := range w.kids {
		if x := k.maxWidth(); x > m {
			m = x
		}
	}
	return m
}

// beyondTwo counts the primitives that are not reachable through the first two children of every node.
func (w *wnode) beyondTwo() int {
	var all, reach func(*wnode) int
	all = func(n *wnode) int {
		if n.leaf >= 0 {
			return 1
		}
		s := 0
		for _, k := range n.kids {
			s += all(k)
		}
		return s
	}
	reach = func(n *wnode) int {
		if n.leaf >= 0 {
			return 1
		}
		s := 0
		for i, k := range n.kids {
			if i < 2 {
				s += reach(k)
			}
		}
		return s
	}
	return all(w) - reach(w)
}

// shape = "m tok..." as the driver's pShape reads it
func (w *wnode) shape() string {
	var toks []string
	w.tokens(&toks)
	return fmt.Sprintf("%d %s", len(toks), strings.Join(toks, " "))
}

func partitionTree(c *hlib.Ctx, idx []int, maxK int) *wnode {
	if len(idx) == 1 {
		return &wnode{leaf: idx[0]}
	}
	k := 2 + c.Rng.Intn(maxK-1)
	if k > len(idx) {
		k = len(idx)
	}
	// k-1 distinct cut points in 1..len-1
	cuts := c.Rng.Perm(len(idx) - 1)[:k-1]
	isCut := make([]bool, len(idx)+1)
	for _, x := range cuts {
		isCut[x+1] = true
	}
	res := &wnode{leaf: -1}
	start := 0
	for i := 1; i <= len(idx); i++ {
		if i == len(idx) || isCut[i] {
			res.kids = append(res.kids, partitionTree(c, idx[start:i], maxK))
			start = i
		}
	}
	return res
}

// flattenTree splices inner branches into their parents with probability 1/2.
func flattenTree(c *hlib.Ctx, w *wnode) *wnode {
	if w.leaf >= 0 {
		return w
	}
	res := &wnode{leaf: -1}
	for _, k := range w.kids {
		k = flattenTree(c, k)
		if k.leaf < 0 && c.Rng.Intn(2) == 0 {
			res.kids = append(res.kids, k.kids...)
		} else {
			res.kids = append(res.kids, k)
		}
	}
	return res
}

// wideTree draws a hierarchy over the primitives 0..n-1 (n >= 1); binary is the caller's area-density
// tree (or nil), used by "flattened".
func wideTree(c *hlib.Ctx, n int, binary *wnode) (*wnode, string) {
	idx := make([]int, n)
	for i := range idx {
		idx[i] = i
	}
	if n == 1 {
		return &wnode{leaf: 0}, "single-leaf"
	}
	switch c.Rng.Intn(6) {
	case 0:
		return partitionTree(c, idx, 6), "partition"
	case 1:
		res := &wnode{leaf: -1}
		for _, i := range idx {
			res.kids = append(res.kids, &wnode{leaf: i})
		}
		return res, "flat"
	case 2:
		w := 2 + c.Rng.Intn(4)
		res := &wnode{leaf: -1}
		for i := 0; i < n; i += w {
			g := &wnode{leaf: -1}
			for j := i; j < i+w && j < n; j++ {
				g.kids = append(g.kids, &wnode{leaf: j})
			}
			if len(g.kids) == 1 {
				g = g.kids[0]
			}
			res.kids = append(res.kids, g)
		}
		if len(res.kids) == 1 {
			return res.kids[0], "chunks"
		}
		return res, "chunks"
	case 3, 4:
		if binary != nil {
			return flattenTree(c, binary), "flattened"
		}
		return partitionTree(c, idx, 4), "partition"
	default:
		// leaf, leaf, rest / leaf, rest, leaf / rest, leaf, leaf
		var build func(ix []int) *wnode
		build = func(ix []int) *wnode {
			if len(ix) == 1 {
				return &wnode{leaf: ix[0]}
			}
			if len(ix) == 2 {
				return &wnode{leaf: -1, kids: []*wnode{{leaf: ix[0]}, {leaf: ix[1]}}}
			}
			a, b := &wnode{leaf: ix[0]}, &wnode{leaf: ix[1]}
			rest := build(ix[2:])
			switch c.Rng.Intn(3) {
			case 0:
				return &wnode{leaf: -1, kids: []*wnode{a, b, rest}}
			case 1:
				return &wnode{leaf: -1, kids: []*wnode{a, rest, b}}
			default:
				return &wnode{leaf: -1, kids: []*wnode{rest, a, b}}
			}
		}
		return build(idx), "unbalanced"
	}
}

func statWide(c *hlib.Ctx, tag string, w *wnode, how string) {
	c.Stat(tag+".wide-bvh."+how, 1)
	mw := w.maxWidth()
	if mw > 6 {
		mw = 7
	}
	c.Stat(fmt.Sprintf("%s.wide-bvh.max-width.%d", tag, mw), 1)
	if w.beyondTwo() > 0 {
		c.Stat(tag+".wide-bvh.primitives-beyond-the-first-two-children", 1)
	}
}

// ---- 3-D

func toBVH3(w *wnode, tris []*model3d.Triangle) *model3d.BVH[*model3d.Triangle] {
	if w.leaf >= 0 {
		return &model3d.BVH[*model3d.Triangle]{Leaf: tris[w.leaf]}
	}
	res := &model3d.BVH[*model3d.Triangle]{}
	for _, k := range w.kids {
		res.Branch = append(res.Branch, toBVH3(k, tris))
	}
	return res
}

func fromBVH3(b *model3d.BVH[*model3d.Triangle], idx map[*model3d.Triangle]int) *wnode {
	if b.Leaf != nil {
		return &wnode{leaf: idx[b.Leaf]}
	}
	res := &wnode{leaf: -1}
	for _, k := range b.Branch {
		res.kids = append(res.kids, fromBVH3(k, idx))
	}
	return res
}

// wideBVH3 builds BVHToCollider over a hand-built BVH of tris (len >= 1).  Returns the collider, the
// triangles in leaf order, the shape tokens and the name of the construction.
func wideBVH3(c *hlib.Ctx, tag string, tris []*model3d.Triangle) (model3d.MultiCollider, []*model3d.Triangle, string, string) {
	var binary *wnode
	if len(tris) > 2 && c.Rng.Intn(2) == 0 {
		idx := map[*model3d.Triangle]int{}
		for i, t := range tris {
			idx[t] = i
		}
		if len(idx) == len(tris) {
			binary = fromBVH3(model3d.NewBVHAreaDensity(append([]*model3d.Triangle{}, tris...)), idx)
		}
	}
	w, how := wideTree(c, len(tris), binary)
	statWide(c, tag, w, how)
	var ord []int
	w.order(&ord)
	ordered := make([]*model3d.Triangle, len(ord))
	for i, j := range ord {
		ordered[i] = tris[j]
	}
	return model3d.BVHToCollider(toBVH3(w, tris)), ordered, w.shape(), "wideBVH/" + how
}

// ---- 2-D

func toBVH2(w *wnode, segs []*model2d.Segment) *model2d.BVH[*model2d.Segment] {
	if w.leaf >= 0 {
		return &model2d.BVH[*model2d.Segment]{Leaf: segs[w.leaf]}
	}
	res := &model2d.BVH[*model2d.Segment]{}
	for _, k := range w.kids {
		res.Branch = append(res.Branch, toBVH2(k, segs))
	}
	return res
}

func fromBVH2(b *model2d.BVH[*model2d.Segment], idx map[*model2d.Segment]int) *wnode {
	if b.Leaf != nil {
		return &wnode{leaf: idx[b.Leaf]}
	}
	res := &wnode{leaf: -1}
	for _, k := range b.Branch {
		res.kids = append(res.kids, fromBVH2(k, idx))
	}
	return res
}

func wideBVH2(c *hlib.Ctx, tag string, segs []*model2d.Segment) (model2d.MultiCollider, []*model2d.Segment, string, string) {
	var binary *wnode
	if len(segs) > 2 && c.Rng.Intn(2) == 0 {
		idx := map[*model2d.Segment]int{}
		for i, s := range segs {
			idx[s] = i
		}
		if len(idx) == len(segs) {
			binary = fromBVH2(model2d.NewBVHAreaDensity(append([]*model2d.Segment{}, segs...)), idx)
		}
	}
	w, how := wideTree(c, len(segs), binary)
	statWide(c, tag, w, how)
	var ord []int
	w.order(&ord)
	ordered := make([]*model2d.Segment, len(ord))
	for i, j := range ord {
		ordered[i] = segs[j]
	}
	return model2d.BVHToCollider(toBVH2(w, segs)), ordered, w.shape(), "wideBVH/" + how
}
