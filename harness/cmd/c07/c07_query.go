package main

// Box and triangle queries: "... segment, box and triangle queries answer 'touching' exactly when the
// surface and the query shape actually intersect".
//
// Exact kinds (the Lean driver runs the models of M3d/Model/CollideQuery.lean at Rat):
//
//	rect2x   G|A n (s0 s1)... lo hi     2-D mesh collider . RectCollision(NewRect(lo, hi))
//	tritrix  a b c a' b' c'             Triangle{a,b,c}.TriangleCollisions(&Triangle{a',b',c'}) non-empty?
//	mtritrix G|A n (a b c)... q0 q1 q2  3-D mesh collider . TriangleCollisions(q): number of segments
//	msegx    G|A n (a b c)... s0 s1     3-D mesh collider . SegmentCollision
//	mseg2x   G|A n (s0 s1)... q0 q1     2-D mesh collider . SegmentCollision
//	profballx n (s0 s1)... minZ maxZ c r  ProfileCollider(mesh2d, minZ, maxZ) . SphereCollision(c, r)
//
// G: the collider is GroupedSegmentsToCollider / GroupedTrianglesToCollider over the primitives in the
// order of the op line (for MeshToCollider: the order GroupSegments / GroupTriangles produced), so the
// driver also runs the faithful model of the hierarchy (split at len/2, bounds of NewJoinedCollider, the
// bounds test of joinedMultiCollider) and refuses MODEL-NE-SPEC if it differs from what the property
// demands (some primitive meets the query shape: Props/C07 mesh_rect_touches_iff,
// mesh_triangle_collisions); A: any other hierarchy (MeshToCollider itself, BVHToCollider): by those
// theorems the answer does not depend on the hierarchy; W m tok...: BVHToCollider over a hand-built BVH whose
// branches have two or more children (c07_bvh.go) - the op line carries the shape (preorder, L = leaf, B k =
// branch with k children) and the primitives in leaf order, and the driver runs the faithful n-ary hierarchy of
// M3d/Model/CollideBVH.lean next to the specification (Props/C07 bvh_rect_touches_iff, bvh_segment_touches_iff,
// bvh_segment_touches_iff_2d, bvh_triangle_collisions).
//
// rect2x data: segments whose vector has components 0 or +-2^k, dyadic positions, boxes with power-of-two
// sides - every float operation of Segment.RectCollision is exact on them.  The meshes deliberately
// contain straight axis-aligned runs (subdivided rectangles, cell outlines, polylines with repeated
// steps): an inner node holding only collinear axis-aligned segments has a bounding box without area.
//
// tritrix / mtritrix data: dyadic triangles.  TriangleCollisions divides by arbitrary dyadics, so its
// floats are not exact; the harness computes the exact common segment of the two triangles with big.Rat
// (plane clipping, independent of the library's parametrisation) and emits only the cases where rounding
// cannot decide: the triangles share at most one point / their planes are exactly parallel (answer 0), or
// the common segment is longer than 1e-5 (answer 1) and the planes are not within the documented
// near-co-planarity tolerance.  Pairs sharing exactly one vertex (bit for bit) that cut through each other
// are generated on purpose, as are pairs sharing an edge, identical triangles, co-planar pairs.

import (
	"fmt"
	"math"
	"math/big"
	"sort"
	"strings"

	"github.com/unixpickle/model3d/model2d"
	"github.com/unixpickle/model3d/model3d"
	"verif/harness/hlib"
)

// ---------------------------------------------------------------- 2-D meshes with straight runs

func pvec2(c *hlib.Ctx) v2 {
	for {
		d := model2d.XY(0, 0)
		if c.Rng.Intn(3) != 0 {
			d.X = spow2(c, -2, 1)
		}
		if c.Rng.Intn(3) != 0 {
			d.Y = spow2(c, -2, 1)
		}
		if d.X != 0 || d.Y != 0 {
			return d
		}
	}
}

// outline of a rectangle whose sides are split into nx resp. ny equal power-of-two pieces
func famSubdivRect(c *hlib.Ctx) []*model2d.Segment {
	lo := dy2(c)
	a, b := pow2(c, -2, 0), pow2(c, -2, 0)
	nx, ny := 1+c.Rng.Intn(8), 1+c.Rng.Intn(8)
	var segs []*model2d.Segment
	p := func(i, j int) v2 { return model2d.XY(lo.X+float64(i)*a, lo.Y+float64(j)*b) }
	for i := 0; i < nx; i++ {
		segs = append(segs, &model2d.Segment{p(i, 0), p(i+1, 0)})
	}
	for j := 0; j < ny; j++ {
		segs = append(segs, &model2d.Segment{p(nx, j), p(nx, j+1)})
	}
	for i := nx; i > 0; i-- {
		segs = append(segs, &model2d.Segment{p(i, ny), p(i-1, ny)})
	}
	for j := ny; j > 0; j-- {
		segs = append(segs, &model2d.Segment{p(0, j), p(0, j-1)})
	}
	return segs
}

// outline of a random set of grid cells (unit edges between a filled and an empty cell)
func famCells(c *hlib.Ctx) []*model2d.Segment {
	w, h := 2+c.Rng.Intn(4), 2+c.Rng.Intn(4)
	s := pow2(c, -2, 0)
	org := dy2(c)
	fill := make([][]bool, h+2)
	for y := range fill {
		fill[y] = make([]bool, w+2)
	}
	for y := 1; y <= h; y++ {
		for x := 1; x <= w; x++ {
			fill[y][x] = c.Rng.Intn(10) < 7
		}
	}
	p := func(x, y int) v2 { return model2d.XY(org.X+float64(x)*s, org.Y+float64(y)*s) }
	var segs []*model2d.Segment
	for y := 1; y <= h; y++ {
		for x := 1; x <= w; x++ {
			if !fill[y][x] {
				continue
			}
			if !fill[y][x-1] {
				segs = append(segs, &model2d.Segment{p(x, y), p(x, y+1)})
			}
			if !fill[y][x+1] {
				segs = append(segs, &model2d.Segment{p(x+1, y+1), p(x+1, y)})
			}
			if !fill[y+1][x] {
				segs = append(segs, &model2d.Segment{p(x, y+1), p(x+1, y+1)})
			}
			if !fill[y-1][x] {
				segs = append(segs, &model2d.Segment{p(x+1, y), p(x, y)})
			}
		}
	}
	return segs
}

// polyline whose steps have components 0 or +-2^k, each step repeated 1..4 times (straight runs)
func famPolyline(c *hlib.Ctx) []*model2d.Segment {
	p := dy2(c)
	var segs []*model2d.Segment
	for len(segs) < 3+c.Rng.Intn(10) {
		d := pvec2(c)
		if c.Rng.Intn(2) == 0 {
			// axis-aligned step
			if c.Rng.Intn(2) == 0 {
				d.X = 0
			} else {
				d.Y = 0
			}
			if d.X == 0 && d.Y == 0 {
				d.X = pow2(c, -2, 0)
			}
		}
		for k := 1 + c.Rng.Intn(4); k > 0; k-- {
			q := p.Add(d)
			segs = append(segs, &model2d.Segment{p, q})
			p = q
		}
	}
	return segs
}

func famSoup2(c *hlib.Ctx) []*model2d.Segment {
	var segs []*model2d.Segment
	for k := c.Rng.Intn(8); k > 0; k-- {
		a := dy2(c)
		segs = append(segs, &model2d.Segment{a, a.Add(pvec2(c))})
	}
	return segs
}

func seg2Key(s *model2d.Segment) string { return v2Tok(rs, s[0]) + " " + v2Tok(rs, s[1]) }

func sortSegs2(segs []*model2d.Segment) {
	sort.SliceStable(segs, func(i, j int) bool {
		a, b := segs[i], segs[j]
		for k := 0; k < 2; k++ {
			if a[k].X != b[k].X {
				return a[k].X < b[k].X
			}
			if a[k].Y != b[k].Y {
				return a[k].Y < b[k].Y
			}
		}
		return false
	})
}

// exact: does the closed box contain a point of the segment (Liang-Barsky over big.Rat)
func qSegBox2(s *model2d.Segment, lo, hi v2) bool {
	tlo, thi := new(big.Rat), big.NewRat(1, 1)
	clip := func(p0, d, l, h float64) bool {
		// l <= p0 + t*d <= h
		P, D := ratOf(p0), ratOf(d)
		if D.Sign() == 0 {
			return qle(ratOf(l), P) && qle(P, ratOf(h))
		}
		t1 := new(big.Rat).Quo(new(big.Rat).Sub(ratOf(l), P), D)
		t2 := new(big.Rat).Quo(new(big.Rat).Sub(ratOf(h), P), D)
		if qlt(t2, t1) {
			t1, t2 = t2, t1
		}
		if qlt(tlo, t1) {
			tlo = t1
		}
		if qlt(t2, thi) {
			thi = t2
		}
		return true
	}
	if !clip(s[0].X, s[1].X-s[0].X, lo.X, hi.X) || !clip(s[0].Y, s[1].Y-s[0].Y, lo.Y, hi.Y) {
		return false
	}
	return qle(tlo, thi)
}

// some corner of the box lies exactly on the line of the segment
func cornerOnLine2(s *model2d.Segment, lo, hi v2) bool {
	d := s[1].Sub(s[0])
	for _, p := range []v2{lo, hi, model2d.XY(lo.X, hi.Y), model2d.XY(hi.X, lo.Y)} {
		w := p.Sub(s[0])
		l := new(big.Rat).Mul(ratOf(d.X), ratOf(w.Y))
		r := new(big.Rat).Mul(ratOf(d.Y), ratOf(w.X))
		if l.Cmp(r) == 0 {
			return true
		}
	}
	return false
}

func genBox2(c *hlib.Ctx, segs []*model2d.Segment) (lo, hi v2, class string) {
	w, h := pow2(c, -3, 1), pow2(c, -3, 1)
	quarter := func() float64 { return float64(1+c.Rng.Intn(3)) / 4 }
	if len(segs) == 0 {
		lo = dy2(c)
		return lo, lo.Add(model2d.XY(w, h)), "random"
	}
	s := segs[c.Rng.Intn(len(segs))]
	p := s[0].Add(s[1].Sub(s[0]).Scale(float64(c.Rng.Intn(9)) / 8))
	switch c.Rng.Intn(8) {
	case 0, 1, 2:
		// the box straddles a point of a segment
		lo = p.Sub(model2d.XY(w*quarter(), h*quarter()))
		class = "across"
	case 3:
		// the point lies on the boundary of the box (degenerate contact)
		fx, fy := float64(c.Rng.Intn(5))/4, float64(c.Rng.Intn(5))/4
		if c.Rng.Intn(2) == 0 {
			fx = float64(c.Rng.Intn(2))
		} else {
			fy = float64(c.Rng.Intn(2))
		}
		lo = p.Sub(model2d.XY(w*fx, h*fy))
		class = "boundary"
	case 4:
		// next to the point
		lo = p.Add(model2d.XY(spow2(c, -4, -2), spow2(c, -4, -2)))
		if c.Rng.Intn(2) == 0 {
			lo = p.Sub(model2d.XY(w, h)).Sub(model2d.XY(pow2(c, -4, -2), pow2(c, -4, -2)))
		}
		class = "next-to"
	case 5:
		// a big box around a stretch of the mesh
		w, h = pow2(c, 0, 2), pow2(c, 0, 2)
		lo = p.Sub(model2d.XY(w*quarter(), h*quarter()))
		class = "big"
	default:
		lo = dy2(c)
		class = "random"
	}
	return lo, lo.Add(model2d.XY(w, h)), class
}

// the box strictly straddles the line of an axis-aligned segment and overlaps its interior
func acrossAxisSegment(s *model2d.Segment, lo, hi v2) bool {
	mn, mx := s.Min(), s.Max()
	if mn.Y == mx.Y {
		return lo.Y < mn.Y && mn.Y < hi.Y && math.Max(lo.X, mn.X) < math.Min(hi.X, mx.X)
	}
	if mn.X == mx.X {
		return lo.X < mn.X && mn.X < hi.X && math.Max(lo.Y, mn.Y) < math.Min(hi.Y, mx.Y)
	}
	return false
}

func runRect2(c *hlib.Ctx, n int) {
	for i := 0; i < n; i++ {
		var segs []*model2d.Segment
		fam := ""
		switch c.Rng.Intn(5) {
		case 0, 1:
			segs, fam = famSubdivRect(c), "subdivided-rect"
		case 2:
			segs, fam = famCells(c), "cells"
		case 3:
			segs, fam = famPolyline(c), "polyline"
		default:
			segs, fam = famSoup2(c), "soup"
		}
		// the hierarchy
		var col model2d.MultiCollider
		mode, how := "A", ""
		switch c.Rng.Intn(7) {
		case 5, 6:
			// a hand-built BVH with branches of 2..6 children (mode W: the op line carries the shape)
			if len(segs) > 0 {
				if c.Rng.Intn(2) == 0 {
					c.Rng.Shuffle(len(segs), func(a, b int) { segs[a], segs[b] = segs[b], segs[a] })
				}
				var shape string
				col, segs, shape, how = wideBVH2(c, "rect2x", segs)
				mode = "W " + shape
			} else {
				col, how = model2d.GroupedSegmentsToCollider(nil), "empty"
			}
		case 0:
			// the order of construction (consecutive pieces of a run are neighbours in the tree)
			col, mode, how = model2d.GroupedSegmentsToCollider(segs), "G", "grouped-given-order"
		case 1:
			// what MeshToCollider does, on a canonical order so that the op line determines the tree
			segs = model2d.NewMeshSegments(segs).SegmentsSlice()
			sortSegs2(segs)
			model2d.GroupSegments(segs)
			col, mode, how = model2d.GroupedSegmentsToCollider(segs), "G", "grouped-GroupSegments"
		case 2:
			col, how = model2d.MeshToCollider(model2d.NewMeshSegments(segs)), "MeshToCollider"
			segs = model2d.NewMeshSegments(segs).SegmentsSlice()
			sortSegs2(segs)
		case 3:
			if len(segs) > 0 {
				col, how = model2d.BVHToCollider(model2d.NewBVHAreaDensity(append([]*model2d.Segment{}, segs...))), "BVHToCollider"
			} else {
				col, how = model2d.GroupedSegmentsToCollider(nil), "empty"
			}
		default:
			shuffled := append([]*model2d.Segment{}, segs...)
			c.Rng.Shuffle(len(shuffled), func(a, b int) { shuffled[a], shuffled[b] = shuffled[b], shuffled[a] })
			segs = shuffled
			col, mode, how = model2d.GroupedSegmentsToCollider(segs), "G", "grouped-shuffled"
		}
		keys := make([]string, len(segs))
		for j, s := range segs {
			keys[j] = seg2Key(s)
		}
		for q := 0; q < 4; q++ {
			lo, hi, class := genBox2(c, segs)
			want, across := false, false
			for _, s := range segs {
				if qSegBox2(s, lo, hi) {
					want = true
				}
				if acrossAxisSegment(s, lo, hi) {
					across = true
				}
			}
			got := col.RectCollision(model2d.NewRect(lo, hi))
			c.Stat("rect2x."+fam, 1)
			c.Stat("rect2x."+how, 1)
			c.Stat("rect2x.box."+class, 1)
			c.Stat("rect2x.answer."+b01(want), 1)
			if across {
				c.Stat("rect2x.across-axis-aligned-segment", 1)
			}
			if got != want {
				c.PropFail("c07:box-touches/mesh2d", fmt.Sprintf("%s.RectCollision=%v but exact=%v box=%v %v segments=%s",
					how, got, want, lo, hi, strings.Join(keys, ";")))
			}
			op := fmt.Sprintf("c07 rect2x %s %d %s %s %s", mode, len(segs), strings.Join(keys, " "), v2Tok(rs, lo), v2Tok(rs, hi))
			c.Emit(strings.Join(strings.Fields(op), " "), b01(got))
		}
	}
	// arbitrary dyadic segments (not the exact family): PropFail only, cases that rounding cannot decide
	for i := 0; i < n; i++ {
		var segs []*model2d.Segment
		for k := 1 + c.Rng.Intn(8); k > 0; k-- {
			s := &model2d.Segment{dy2(c), dy2(c)}
			if s[0] != s[1] {
				segs = append(segs, s)
			}
		}
		if c.Rng.Intn(3) == 0 {
			segs = append(segs, famSubdivRect(c)...)
		}
		var col model2d.MultiCollider
		how := ""
		switch c.Rng.Intn(4) {
		case 0:
			col, how = model2d.MeshToCollider(model2d.NewMeshSegments(segs)), "MeshToCollider"
		case 1:
			col, how = model2d.GroupedSegmentsToCollider(append([]*model2d.Segment{}, segs...)), "ungrouped"
		case 2:
			if len(segs) == 0 {
				continue
			}
			col, _, _, how = wideBVH2(c, "mesh2d-rect", segs)
		default:
			if len(segs) == 0 {
				continue
			}
			col, how = model2d.BVHToCollider(model2d.NewBVHAreaDensity(append([]*model2d.Segment{}, segs...))), "BVHToCollider"
		}
		for q := 0; q < 4; q++ {
			lo, hi, _ := genBox2(c, segs)
			m := math.Min(hi.X-lo.X, hi.Y-lo.Y) / 64
			inner, outer, corner := false, false, false
			for _, s := range segs {
				if qSegBox2(s, lo.AddScalar(m), hi.AddScalar(-m)) {
					inner = true
				}
				if qSegBox2(s, lo.AddScalar(-m), hi.AddScalar(m)) {
					outer = true
					if cornerOnLine2(s, lo, hi) {
						corner = true
					}
				}
			}
			got := col.RectCollision(model2d.NewRect(lo, hi))
			switch {
			case inner && !corner:
				c.Stat("mesh2d-rect.1", 1)
				if !got {
					c.PropFail("c07:box-touches/mesh2d", fmt.Sprintf("%s.RectCollision=false but a segment passes through the box %v %v segments=%s", how, lo, hi, segsDesc2(segs)))
				}
			case !outer:
				c.Stat("mesh2d-rect.0", 1)
				if got {
					c.PropFail("c07:box-touches/mesh2d", fmt.Sprintf("%s.RectCollision=true but every segment is clear of the box %v %v segments=%s", how, lo, hi, segsDesc2(segs)))
				}
			default:
				c.Stat("mesh2d-rect.boundary-skipped", 1)
			}
		}
	}
}

func segsDesc2(segs []*model2d.Segment) string {
	var parts []string
	for _, s := range segs {
		parts = append(parts, fmt.Sprintf("%v-%v", s[0], s[1]))
	}
	return strings.Join(parts, ";")
}

// ---------------------------------------------------------------- exact triangle / triangle intersection

type triTriExact struct {
	parallel bool     // planes parallel (co-planar included) or a triangle without area
	edgeIn   bool     // two vertices of one triangle lie in the plane of the other (an edge in the plane)
	len2     *big.Rat // squared length of the common segment (0: at most one common point)
	p, q     q3       // its end points when len2 > 0
}

func qTriTri(t, t1 *model3d.Triangle) triTriExact {
	a, b, cc := qv(t[0]), qv(t[1]), qv(t[2])
	e1, e2 := qsub(b, a), qsub(cc, a)
	n := qcross(e1, e2)
	a1, b1, c1 := qv(t1[0]), qv(t1[1]), qv(t1[2])
	n1 := qcross(qsub(b1, a1), qsub(c1, a1))
	x := qcross(n, n1)
	if qdot(x, x).Sign() == 0 {
		return triTriExact{parallel: true, len2: new(big.Rat)}
	}
	res := triTriExact{len2: new(big.Rat)}
	// T1 cut by the plane of T
	vs := []q3{a1, b1, c1}
	var ds [3]*big.Rat
	for i, v := range vs {
		ds[i] = qdot(n, qsub(v, a))
	}
	zeros := 0
	for _, v := range []q3{a, b, cc} {
		if qdot(n1, qsub(v, a1)).Sign() == 0 {
			zeros++
		}
	}
	if zeros >= 2 {
		res.edgeIn = true
	}
	var pts []q3
	zeros1 := 0
	for i := 0; i < 3; i++ {
		if ds[i].Sign() == 0 {
			pts = append(pts, vs[i])
			zeros1++
		}
		j := (i + 1) % 3
		if ds[i].Sign()*ds[j].Sign() < 0 {
			s := new(big.Rat).Quo(ds[i], new(big.Rat).Sub(ds[i], ds[j]))
			pts = append(pts, qadd(vs[i], qscale(qsub(vs[j], vs[i]), s)))
		}
	}
	if zeros1 >= 2 {
		res.edgeIn = true
	}
	if len(pts) < 2 {
		return res
	}
	P, Q := pts[0], pts[1]
	// clip P + s(Q-P), 0 <= s <= 1, against the barycentric constraints of T
	nn := qdot(n, n)
	bary := func(X q3) (u, v *big.Rat) {
		w := qsub(X, a)
		u = new(big.Rat).Quo(qdot(qcross(w, e2), n), nn)
		v = new(big.Rat).Quo(qdot(qcross(e1, w), n), nn)
		return
	}
	u0, v0 := bary(P)
	u1, v1 := bary(Q)
	w0 := new(big.Rat).Sub(qOne, new(big.Rat).Add(u0, v0))
	w1 := new(big.Rat).Sub(qOne, new(big.Rat).Add(u1, v1))
	slo, shi := new(big.Rat), big.NewRat(1, 1)
	for _, g := range [][2]*big.Rat{{u0, u1}, {v0, v1}, {w0, w1}} {
		g0, g1 := g[0], g[1]
		if g0.Cmp(g1) == 0 {
			if g0.Sign() < 0 {
				return res
			}
			continue
		}
		root := new(big.Rat).Quo(g0, new(big.Rat).Sub(g0, g1))
		if qlt(g0, g1) {
			if qlt(slo, root) {
				slo = root
			}
		} else if qlt(root, shi) {
			shi = root
		}
	}
	if !qlt(slo, shi) {
		return res
	}
	d := qsub(Q, P)
	res.p, res.q = qadd(P, qscale(d, slo)), qadd(P, qscale(d, shi))
	pq := qsub(res.q, res.p)
	res.len2 = qdot(pq, pq)
	return res
}

func qFloat(r *big.Rat) float64 { f, _ := r.Float64(); return f }

func q3Float(p q3) v3 { return model3d.XYZ(qFloat(p[0]), qFloat(p[1]), qFloat(p[2])) }

func inCommonBits(t, t1 *model3d.Triangle) int {
	n := 0
	for _, p := range t {
		if p == t1[0] || p == t1[1] || p == t1[2] {
			n++
		}
	}
	return n
}

// triTriWant: what the property demands of t.TriangleCollisions(t1) where rounding cannot decide.
// class "skip": near-degenerate (a common segment shorter than 1e-5, planes within the documented
// near-co-planarity tolerance but not parallel).
func triTriWant(t, t1 *model3d.Triangle) (want bool, class string, ex triTriExact) {
	ex = qTriTri(t, t1)
	if ic := inCommonBits(t, t1); ic >= 2 {
		// neighbours across an edge (or the same triangle): by design nothing is reported; when the planes
		// differ the triangles meet in the common edge only (Props/C07 triangle_shared_edge_only)
		return false, fmt.Sprintf("common-%d", ic), ex
	}
	if ex.parallel {
		return false, "parallel", ex
	}
	dd := math.Abs(t.Normal().Dot(t1.Normal()))
	if dd > 1-3e-8 {
		return false, "skip", ex
	}
	if ex.edgeIn {
		// an edge of one triangle lies in the plane of the other: the common points (if any) are boundary
		// contacts along that edge, rounding decides; outside general position
		return false, "skip", ex
	}
	l2 := qFloat(ex.len2)
	if ex.len2.Sign() == 0 {
		return false, "apart-or-point", ex
	}
	if l2 < 1e-10 {
		return false, "skip", ex
	}
	return true, "segment", ex
}

func genTriPair(c *hlib.Ctx) (t, t1 *model3d.Triangle, how string) {
	t = dyTri(c)
	rot := func(x *model3d.Triangle) *model3d.Triangle {
		k := c.Rng.Intn(3)
		r := &model3d.Triangle{x[k], x[(k+1)%3], x[(k+2)%3]}
		if c.Rng.Intn(2) == 0 {
			r[1], r[2] = r[2], r[1]
		}
		return r
	}
	inT := func() v3 {
		u, v := float64(1+c.Rng.Intn(5))/8, float64(1+c.Rng.Intn(2))/8
		return t[0].Add(t[1].Sub(t[0]).Scale(u)).Add(t[2].Sub(t[0]).Scale(v))
	}
	for {
		switch c.Rng.Intn(10) {
		case 0:
			t1, how = dyTri(c), "random"
		case 1:
			// through a point of t: two vertices on either side of it
			p, d := inT(), dy3(c)
			t1, how = &model3d.Triangle{p.Add(d), p.Sub(d), dy3(c)}, "through"
		case 2, 3, 4:
			// exactly one common vertex; the opposite edge passes through a point of t's plane region
			shared := t[c.Rng.Intn(3)]
			p, d := inT(), dy3(c)
			t1, how = rot(&model3d.Triangle{shared, p.Add(d), p.Sub(d)}), "shared-vertex-cut"
			if c.Rng.Intn(3) == 0 {
				t1, how = rot(&model3d.Triangle{shared, dy3(c), dy3(c)}), "shared-vertex-random"
			}
		case 5:
			// a common edge
			k := c.Rng.Intn(3)
			t1, how = rot(&model3d.Triangle{t[k], t[(k+1)%3], dy3(c)}), "shared-edge"
		case 6:
			t1, how = rot(t), "same"
		case 7:
			// co-planar or parallel
			off := model3d.XYZ(0, 0, 0)
			if c.Rng.Intn(2) == 0 {
				off = t[1].Sub(t[0]).Cross(t[2].Sub(t[0])).Scale(float64(1+c.Rng.Intn(3)) / 8)
			}
			f := func() v3 {
				return t[0].Add(t[1].Sub(t[0]).Scale(float64(c.Rng.Intn(9)-2) / 4)).Add(t[2].Sub(t[0]).Scale(float64(c.Rng.Intn(9)-2) / 4)).Add(off)
			}
			t1, how = &model3d.Triangle{f(), f(), f()}, "coplanar-or-parallel"
		case 8:
			// a vertex of t1 on t (touching from one side), or an edge of t1 lying in t's plane
			p := inT()
			t1, how = &model3d.Triangle{p, dy3(c), dy3(c)}, "vertex-on-face"
		default:
			t, t1, how = ptri(c), ptri(c), "axis-aligned"
			if c.Rng.Intn(2) == 0 {
				t1[c.Rng.Intn(3)] = t[c.Rng.Intn(3)]
			}
		}
		if t1.Area() > 0 && t.Area() > 0 && finite(t1[0].X, t1[1].X, t1[2].X) {
			return
		}
	}
}

func triTriOut(segs []model3d.Segment) string {
	if len(segs) == 0 {
		return "0"
	}
	return fmt.Sprint(len(segs))
}

func checkTriTriSegments(c *hlib.Ctx, site string, got []model3d.Segment, exs []triTriExact, desc string) {
	// validation of the reported end points (floats): each reported segment is, up to 1e-7, the exact
	// common segment of one of the pairs
	for _, g := range got {
		ok := false
		for _, ex := range exs {
			if ex.len2.Sign() == 0 {
				continue
			}
			p, q := q3Float(ex.p), q3Float(ex.q)
			if (g[0].Dist(p) < 1e-7 && g[1].Dist(q) < 1e-7) || (g[0].Dist(q) < 1e-7 && g[1].Dist(p) < 1e-7) {
				ok = true
			}
		}
		if !ok {
			c.PropFail(site+"/segment-not-the-intersection", fmt.Sprintf("reported %v %v %s", g[0], g[1], desc))
		}
	}
}

func runTriTri(c *hlib.Ctx, n int) {
	for i := 0; i < 3*n; i++ {
		t, t1, how := genTriPair(c)
		want, class, ex := triTriWant(t, t1)
		c.Stat("tritrix.gen."+how, 1)
		c.Stat("tritrix.class."+class, 1)
		if class == "skip" {
			continue
		}
		if inCommonBits(t, t1) == 1 {
			c.Stat("tritrix.one-common-vertex."+b01(want), 1)
		}
		var got []model3d.Segment
		res := hlib.Guard(func() string { got = t.TriangleCollisions(t1); return "ok" })
		desc := fmt.Sprintf("t=%v t1=%v (%s, %s)", *t, *t1, how, class)
		if res != "ok" {
			c.PropFail("c07:triangle-touches/pair", "TriangleCollisions "+res+" "+desc)
			c.Emit(fmt.Sprintf("c07 tritrix %s %s", triTokens(rs, t), triTokens(rs, t1)), res)
			continue
		}
		if (len(got) > 0) != want || len(got) > 1 {
			c.PropFail("c07:triangle-touches/pair", fmt.Sprintf("TriangleCollisions returned %d segments, the triangles meet in a segment: %v (exact squared length %v) %s",
				len(got), want, qFloat(ex.len2), desc))
		}
		checkTriTriSegments(c, "c07:triangle-touches/pair", got, []triTriExact{ex}, desc)
		c.Emit(fmt.Sprintf("c07 tritrix %s %s", triTokens(rs, t), triTokens(rs, t1)), triTriOut(got))
	}
}

// ---------------------------------------------------------------- mesh colliders asked for a triangle

func sortTris3(tris []*model3d.Triangle) {
	sort.SliceStable(tris, func(i, j int) bool { return triTokens(hx, tris[i]) < triTokens(hx, tris[j]) })
}

// a box whose faces are split into a grid of right triangles (flat runs of co-planar triangles)
func gridBox(c *hlib.Ctx) []*model3d.Triangle {
	lo := dy3(c)
	hi := lo.Add(model3d.XYZ(pow2(c, -1, 1), pow2(c, -1, 1), pow2(c, -1, 1)))
	m := model3d.NewMeshRect(lo, hi)
	if c.Rng.Intn(2) == 0 {
		// midpoint subdivision keeps the coordinates dyadic
		sub := model3d.NewMesh()
		m.Iterate(func(t *model3d.Triangle) {
			m01, m12, m20 := t[0].Mid(t[1]), t[1].Mid(t[2]), t[2].Mid(t[0])
			sub.Add(&model3d.Triangle{t[0], m01, m20})
			sub.Add(&model3d.Triangle{m01, t[1], m12})
			sub.Add(&model3d.Triangle{m20, m12, t[2]})
			sub.Add(&model3d.Triangle{m01, m12, m20})
		})
		m = sub
	}
	return m.TriangleSlice()
}

func runMeshTriTri(c *hlib.Ctx, n int) {
	for i := 0; i < n; i++ {
		var tris []*model3d.Triangle
		fam := ""
		switch c.Rng.Intn(3) {
		case 0:
			tris, fam = gridBox(c), "box"
		case 1:
			// tetrahedron
			p := [4]v3{dy3(c), dy3(c), dy3(c), dy3(c)}
			for _, f := range [][3]int{{0, 2, 1}, {0, 1, 3}, {0, 3, 2}, {1, 2, 3}} {
				t := &model3d.Triangle{p[f[0]], p[f[1]], p[f[2]]}
				if t.Area() > 0 {
					tris = append(tris, t)
				}
			}
			fam = "tetrahedron"
		default:
			for k := c.Rng.Intn(8); k > 0; k-- {
				tris = append(tris, dyTri(c))
			}
			fam = "soup"
		}
		sortTris3(tris)
		var col model3d.MultiCollider
		mode, how := "A", ""
		switch c.Rng.Intn(6) {
		case 4, 5:
			if len(tris) > 0 {
				if c.Rng.Intn(2) == 0 {
					model3d.GroupTriangles(tris)
				}
				var shape string
				col, tris, shape, how = wideBVH3(c, "mtritrix", tris)
				mode = "W " + shape
			} else {
				col, how = model3d.GroupedTrianglesToCollider(nil), "empty"
			}
		case 0:
			col, mode, how = model3d.GroupedTrianglesToCollider(tris), "G", "grouped-given-order"
		case 1:
			model3d.GroupTriangles(tris)
			col, mode, how = model3d.GroupedTrianglesToCollider(tris), "G", "grouped-GroupTriangles"
		case 2:
			col, how = model3d.MeshToCollider(model3d.NewMeshTriangles(tris)), "MeshToCollider"
		default:
			if len(tris) > 0 {
				col, how = model3d.BVHToCollider(model3d.NewBVHAreaDensity(append([]*model3d.Triangle{}, tris...))), "BVHToCollider"
			} else {
				col, how = model3d.GroupedTrianglesToCollider(nil), "empty"
			}
		}
		keys := make([]string, len(tris))
		for j, t := range tris {
			keys[j] = triTokens(rs, t)
		}
		for qi := 0; qi < 3; qi++ {
			var q *model3d.Triangle
			qhow := "random"
			for {
				q = dyTri(c)
				if len(tris) > 0 && c.Rng.Intn(3) != 0 {
					// a corner of the query is a vertex of the mesh; the query cuts through the mesh near it
					m := tris[c.Rng.Intn(len(tris))]
					p, d := dy3(c), dy3(c)
					q = &model3d.Triangle{m[c.Rng.Intn(3)], p.Add(d), p.Sub(d)}
					qhow = "corner-at-mesh-vertex"
					if c.Rng.Intn(2) == 0 {
						k := c.Rng.Intn(3)
						q[0], q[k] = q[k], q[0]
					}
				}
				if q.Area() > 0 {
					break
				}
			}
			wantN, skip, oneCommon := 0, false, 0
			var exs []triTriExact
			for _, m := range tris {
				w, class, ex := triTriWant(m, q)
				exs = append(exs, ex)
				if class == "skip" {
					skip = true
				}
				if w {
					wantN++
					if inCommonBits(m, q) == 1 {
						oneCommon++
					}
				}
			}
			c.Stat("mtritrix."+fam, 1)
			if skip {
				c.Stat("mtritrix.skipped-near-degenerate", 1)
				continue
			}
			c.Stat("mtritrix."+how, 1)
			c.Stat("mtritrix.query."+qhow, 1)
			c.Stat(fmt.Sprintf("mtritrix.segments.%d", minInt(wantN, 4)), 1)
			if oneCommon > 0 {
				c.Stat("mtritrix.segment-on-a-triangle-sharing-the-query-corner", 1)
			}
			var got []model3d.Segment
			res := hlib.Guard(func() string { got = col.TriangleCollisions(q); return "ok" })
			desc := fmt.Sprintf("%s query=%v tris=%s", how, *q, strings.Join(keys, ";"))
			op := fmt.Sprintf("c07 mtritrix %s %d %s %s", mode, len(tris), strings.Join(keys, " "), triTokens(rs, q))
			if res != "ok" {
				c.PropFail("c07:triangle-touches/mesh", "TriangleCollisions "+res+" "+desc)
				c.Emit(strings.Join(strings.Fields(op), " "), res)
				continue
			}
			if len(got) != wantN {
				c.PropFail("c07:triangle-touches/mesh", fmt.Sprintf("TriangleCollisions returned %d segments, %d triangles of the mesh meet the query in a segment %s", len(got), wantN, desc))
			}
			checkTriTriSegments(c, "c07:triangle-touches/mesh", got, exs, desc)
			c.Emit(strings.Join(strings.Fields(op), " "), fmt.Sprint(len(got)))
		}
	}
}

// ---------------------------------------------------------------- 3-D mesh RectCollision on flat runs

// Box queries against meshes with co-planar axis-aligned faces (inner nodes whose bounding box has no
// volume); the random soups of runSoupQueries have none.
func runFlatRect3(c *hlib.Ctx, n int) {
	for i := 0; i < n/2; i++ {
		tris := gridBox(c)
		sortTris3(tris)
		var col model3d.MultiCollider
		how := ""
		switch c.Rng.Intn(4) {
		case 0:
			col, how = model3d.MeshToCollider(model3d.NewMeshTriangles(tris)), "MeshToCollider"
		case 1:
			col, how = model3d.GroupedTrianglesToCollider(tris), "ungrouped"
		case 2:
			col, _, _, how = wideBVH3(c, "mesh-rect", tris)
		default:
			col, how = model3d.BVHToCollider(model3d.NewBVHAreaDensity(append([]*model3d.Triangle{}, tris...))), "BVHToCollider"
		}
		for q := 0; q < 3; q++ {
			t := tris[c.Rng.Intn(len(tris))]
			p := t[0].Add(t[1].Sub(t[0]).Scale(float64(1+c.Rng.Intn(3)) / 8)).Add(t[2].Sub(t[0]).Scale(float64(1+c.Rng.Intn(3)) / 8))
			sz := model3d.XYZ(pow2(c, -3, 0), pow2(c, -3, 0), pow2(c, -3, 0))
			lo := p.Sub(sz.Mul(model3d.XYZ(float64(1+c.Rng.Intn(3))/4, float64(1+c.Rng.Intn(3))/4, float64(1+c.Rng.Intn(3))/4)))
			if c.Rng.Intn(4) == 0 {
				lo = p.Add(sz.Scale(0.25))
			}
			hi := lo.Add(sz)
			clear, disjoint := false, true
			for _, t := range tris {
				poly := qClipTriBox(t, qv(lo), qv(hi))
				if len(poly) > 0 {
					disjoint = false
				}
				if qPolyHasArea(poly) {
					clear = true
				}
			}
			got := col.RectCollision(model3d.NewRect(lo, hi))
			desc := fmt.Sprintf("%s box=%v %v grid box mesh of %d triangles, first %v", how, lo, hi, len(tris), *tris[0])
			if disjoint {
				c.Stat("flat-rect3.0", 1)
				if got {
					c.PropFail("c07:ball-touches/mesh-rect", "RectCollision=true but the box is disjoint from every triangle "+desc)
				}
			} else if clear {
				c.Stat("flat-rect3.1", 1)
				if !got {
					c.PropFail("c07:ball-touches/mesh-rect", "RectCollision=false but a triangle meets the box in a region of positive area "+desc)
				}
			} else {
				c.Stat("flat-rect3.touching-only-skipped", 1)
			}
		}
	}
}

// ---------------------------------------------------------------- segment queries of the mesh colliders

// exactSoup3: triangles of the exact family (axis-aligned right triangles with power-of-two legs, the right
// angle first): closed box meshes or random soups.
func exactSoup3(c *hlib.Ctx) ([]*model3d.Triangle, string) {
	var tris []*model3d.Triangle
	name := "random"
	if c.Rng.Intn(2) == 0 {
		lo := dy3(c)
		hi := lo.Add(model3d.XYZ(pow2(c, -1, 2), pow2(c, -1, 2), pow2(c, -1, 2)))
		tris = model3d.NewMeshRect(lo, hi).TriangleSlice()
		name = "boxmesh"
	} else {
		for j := c.Rng.Intn(7); j > 0; j-- {
			tris = append(tris, ptri(c))
		}
	}
	for _, t := range tris {
		for rot := 0; rot < 3; rot++ {
			if axisPow2(t[1].Sub(t[0])) && axisPow2(t[2].Sub(t[0])) {
				break
			}
			*t = model3d.Triangle{t[1], t[2], t[0]}
		}
	}
	sortTris3(tris)
	return tris, name
}

func runMeshSegment(c *hlib.Ctx, n int) {
	// --- 3-D: mesh collider . SegmentCollision
	for i := 0; i < n; i++ {
		tris, fam := exactSoup3(c)
		var col model3d.MultiCollider
		mode, how := "A", ""
		switch c.Rng.Intn(6) {
		case 4, 5:
			if len(tris) > 0 {
				if c.Rng.Intn(2) == 0 {
					model3d.GroupTriangles(tris)
				}
				var shape string
				col, tris, shape, how = wideBVH3(c, "msegx", tris)
				mode = "W " + shape
			} else {
				col, how = model3d.GroupedTrianglesToCollider(nil), "empty"
			}
		case 0:
			col, mode, how = model3d.GroupedTrianglesToCollider(tris), "G", "grouped-given-order"
		case 1:
			model3d.GroupTriangles(tris)
			col, mode, how = model3d.GroupedTrianglesToCollider(tris), "G", "grouped-GroupTriangles"
		case 2:
			col, how = model3d.MeshToCollider(model3d.NewMeshTriangles(tris)), "MeshToCollider"
		default:
			if len(tris) > 0 {
				col, how = model3d.BVHToCollider(model3d.NewBVHAreaDensity(append([]*model3d.Triangle{}, tris...))), "BVHToCollider"
			} else {
				col, how = model3d.GroupedTrianglesToCollider(nil), "empty"
			}
		}
		keys := make([]string, len(tris))
		for j, t := range tris {
			keys[j] = triTokens(rs, t)
		}
		for q := 0; q < 3; q++ {
			d := pdir3(c)
			s0 := dy3(c)
			if len(tris) > 0 && c.Rng.Intn(4) != 0 {
				t := tris[c.Rng.Intn(len(tris))]
				u, v := float64(c.Rng.Intn(5))/4, float64(c.Rng.Intn(5))/8
				tgt := t[0].Add(t[1].Sub(t[0]).Scale(u)).Add(t[2].Sub(t[0]).Scale(v))
				s0 = originToward(c, tgt, d) // the target is at parameter -1/2 .. 3 of the segment
			}
			s1 := s0.Add(d)
			got := col.SegmentCollision(model3d.NewSegment(s0, s1))
			a, b := s0, s1
			if model3d.NewSegment(s0, s1)[0] != s0 {
				a, b = s1, s0 // NewSegment orders the end points; the op line carries what the collider saw
			}
			c.Stat("msegx."+fam, 1)
			c.Stat("msegx."+how, 1)
			c.Stat("msegx.answer."+b01(got), 1)
			op := fmt.Sprintf("c07 msegx %s %d %s %s %s", mode, len(tris), strings.Join(keys, " "), v3Tok(rs, a), v3Tok(rs, b))
			c.Emit(strings.Join(strings.Fields(op), " "), b01(got))
		}
	}
	// --- 2-D: mesh collider . SegmentCollision
	for i := 0; i < n; i++ {
		var segs []*model2d.Segment
		fam := ""
		axisOnly := false
		switch c.Rng.Intn(4) {
		case 0, 1:
			segs, fam, axisOnly = famSubdivRect(c), "subdivided-rect", true
		case 2:
			segs, fam, axisOnly = famCells(c), "cells", true
		default:
			segs, fam = famPolyline(c), "polyline"
		}
		if len(segs) == 0 {
			continue
		}
		var col model2d.MultiCollider
		mode, how := "A", ""
		switch c.Rng.Intn(6) {
		case 4, 5:
			if c.Rng.Intn(2) == 0 {
				c.Rng.Shuffle(len(segs), func(a, b int) { segs[a], segs[b] = segs[b], segs[a] })
			}
			var shape string
			col, segs, shape, how = wideBVH2(c, "mseg2x", segs)
			mode = "W " + shape
		case 0:
			col, mode, how = model2d.GroupedSegmentsToCollider(segs), "G", "grouped-given-order"
		case 1:
			segs = model2d.NewMeshSegments(segs).SegmentsSlice()
			sortSegs2(segs)
			model2d.GroupSegments(segs)
			col, mode, how = model2d.GroupedSegmentsToCollider(segs), "G", "grouped-GroupSegments"
		case 2:
			col, how = model2d.MeshToCollider(model2d.NewMeshSegments(segs)), "MeshToCollider"
			segs = model2d.NewMeshSegments(segs).SegmentsSlice()
			sortSegs2(segs)
		default:
			col, how = model2d.BVHToCollider(model2d.NewBVHAreaDensity(append([]*model2d.Segment{}, segs...))), "BVHToCollider"
		}
		keys := make([]string, len(segs))
		for j, s := range segs {
			keys[j] = seg2Key(s)
		}
		for q := 0; q < 3; q++ {
			// the determinant of Segment.rayCollision must be a power of two (exact inverse): one of the two
			// segments is axis-aligned
			d := pvec2(c)
			if !axisOnly || c.Rng.Intn(2) == 0 {
				if c.Rng.Intn(2) == 0 {
					d.X = 0
				} else {
					d.Y = 0
				}
				if d.X == 0 && d.Y == 0 {
					d.Y = spow2(c, -2, 1)
				}
			}
			s := segs[c.Rng.Intn(len(segs))]
			p := s[0].Add(s[1].Sub(s[0]).Scale(float64(c.Rng.Intn(7)-1) / 4))
			q0 := p.Sub(d.Scale(float64(c.Rng.Intn(8)-1) / 4))
			if c.Rng.Intn(5) == 0 {
				q0 = dy2(c)
			}
			q1 := q0.Add(d)
			got := col.SegmentCollision(&model2d.Segment{q0, q1})
			c.Stat("mseg2x."+fam, 1)
			c.Stat("mseg2x."+how, 1)
			c.Stat("mseg2x.answer."+b01(got), 1)
			op := fmt.Sprintf("c07 mseg2x %s %d %s %s %s", mode, len(segs), strings.Join(keys, " "), v2Tok(rs, q0), v2Tok(rs, q1))
			c.Emit(strings.Join(strings.Fields(op), " "), b01(got))
		}
	}
}

// ---------------------------------------------------------------- profileCollider.SphereCollision

// ProfileCollider over axis-aligned outlines (one or two rectangles, outlines of cell sets); the ball centre
// lies off the dyadic grid of the outline (so that the fixed direction of Solid2D's even-odd test meets no
// vertex), radii next to the true distance of the centre from the surface of the extrusion and arbitrary;
// tangent balls are skipped (the method compares square roots).
func runProfBall(c *hlib.Ctx, n int) {
	for i := 0; i < n; i++ {
		var segs []*model2d.Segment
		fam := ""
		switch c.Rng.Intn(3) {
		case 0:
			lo := dy2(c)
			hi := lo.Add(model2d.XY(pow2(c, -1, 2), pow2(c, -1, 2)))
			m := model2d.NewMeshRect(lo, hi)
			if c.Rng.Intn(2) == 0 {
				lo2 := model2d.XY(hi.X+pow2(c, -1, 1), lo.Y)
				m.AddMesh(model2d.NewMeshRect(lo2, lo2.Add(model2d.XY(pow2(c, -1, 1), pow2(c, -1, 1)))))
			}
			segs, fam = m.SegmentsSlice(), "rects"
		case 1:
			segs, fam = famSubdivRect(c), "subdivided-rect"
		default:
			segs, fam = famCells(c), "cells"
		}
		if len(segs) == 0 {
			continue
		}
		sortSegs2(segs)
		m2 := model2d.NewMeshSegments(segs)
		col2 := model2d.MeshToCollider(m2)
		minZ := dy(c)
		maxZ := minZ + pow2(c, -1, 2)
		col := model3d.ProfileCollider(col2, minZ, maxZ)
		sph, ok := col.(interface {
			SphereCollision(c model3d.Coord3D, r float64) bool
		})
		if !ok {
			c.PropFail("c07:ball-touches/profile", "ProfileCollider has no SphereCollision")
			return
		}
		solid := model2d.NewColliderSolid(col2)
		keys := make([]string, len(segs))
		for j, s := range segs {
			keys[j] = seg2Key(s)
		}
		for q := 0; q < 3; q++ {
			mn, mx := col2.Min(), col2.Max()
			ctr := model3d.XYZ(
				mn.X+(mx.X-mn.X)*float64(c.Rng.Intn(13)-2)/8+1.0/32,
				mn.Y+(mx.Y-mn.Y)*float64(c.Rng.Intn(13)-2)/8+1.0/64,
				minZ+(maxZ-minZ)*float64(c.Rng.Intn(13)-4)/4)
			// the true distance of the centre from the surface of the extrusion
			fd := 0.0
			if ctr.Z < minZ {
				fd = minZ - ctr.Z
			} else if ctr.Z > maxZ {
				fd = ctr.Z - maxZ
			}
			d := math.Inf(1)
			for _, s := range segs {
				ds := s.Dist(ctr.XY())
				d = math.Min(d, math.Sqrt(ds*ds+fd*fd))
			}
			inside := solid.Contains(ctr.XY())
			if inside {
				d = math.Min(d, math.Min(math.Abs(ctr.Z-minZ), math.Abs(ctr.Z-maxZ)))
			}
			r := float64(1+c.Rng.Intn(24)) / 8
			class := "arbitrary"
			if c.Rng.Intn(2) == 0 {
				r = math.Floor(d*64)/64 + float64(c.Rng.Intn(3)-1)/64
				class = "next-to-distance"
				if r <= 0 {
					r = 1.0 / 64
				}
			}
			if !separated(r, d) {
				c.Stat("profballx.skipped-tangent", 1)
				continue
			}
			got := sph.SphereCollision(ctr, r)
			want := d < r
			c.Stat("profballx."+fam, 1)
			c.Stat("profballx.radius."+class, 1)
			c.Stat("profballx.answer."+b01(got), 1)
			if inside {
				c.Stat("profballx.centre-over-the-solid", 1)
			}
			if fd > 0 {
				c.Stat("profballx.centre-beyond-a-face", 1)
			}
			if got != want {
				c.PropFail("c07:ball-touches/profile", fmt.Sprintf("SphereCollision=%v but the surface of the extrusion is at distance %v from %v, r=%v (z in [%v,%v], outline %s)",
					got, d, ctr, r, minZ, maxZ, strings.Join(keys, ";")))
			}
			c.Emit(fmt.Sprintf("c07 profballx %d %s %s %s %s %s", len(segs), strings.Join(keys, " "), rs(minZ), rs(maxZ), v3Tok(rs, ctr), rs(r)), b01(got))
		}
	}
}

func runQueries(c *hlib.Ctx, n int) {
	runProfBall(c, n)
	runMeshSegment(c, n)
	runRect2(c, n)
	runTriTri(c, n)
	runMeshTriTri(c, n)
	runFlatRect3(c, n)
}
