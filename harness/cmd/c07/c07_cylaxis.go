package main

import (
	"fmt"
	"math"

	"github.com/unixpickle/model3d/model3d"
	"verif/harness/hlib"
)

// Rays that run exactly along the axis of a Cylinder / Capsule.
//
// Cylinder.RayCollisions solves a quadratic a t^2 + b t + c for the lateral surface with a = |v(d.v) - d|^2.  For a
// direction parallel to the axis, v(d.v) - d is the zero vector: a = b = 0 and the discriminant is 0 wherever the ray
// is, so the quadratic says nothing and the two cap discs decide everything (M3d.C07.cylinder_axis_rays).  In floating
// point the vector is *exactly* zero when the cylinder is axis-aligned and (P2-P1).Normalize() is an exact unit vector,
// i.e. for upright / lying cylinders looked at straight along the axis.
//
//   - cylx (Rat, exact): axis along +-X/Y/Z, length a power of two, dyadic base point / radius / origin, direction
//     +-2^m times the axis; the model answer is the specification cylAxisSpec (driver refuses MODEL-NE-SPEC if the
//     transcription of Cylinder.RayCollisions at Rat differs), plus Cylinder.Contains(origin).
//   - cylb / capb (Float, bit for bit, arbitrary doubles): axis-aligned and oblique cylinders / capsules, direction
//     v.Scale(k) for the library's own v = (P2-P1).Normalize() (exactly parallel or parallel up to the last bit), and
//     controls tilted by 1e-3 .. 1e-15; PropFail c07:parity-vs-contains/{cylinder,capsule} for origins off the surface.

// axisOrigin: an origin described in the frame of the axis: axial coordinate z (in units of the length: below the base,
// between the caps, above the top) and a radial offset (on the axis, inside the radius, outside).
func axisFrame(ax int) (e1, e2 v3) {
	var a, b [3]float64
	a[(ax+1)%3] = 1
	b[(ax+2)%3] = 1
	return model3d.NewCoord3DArray(a), model3d.NewCoord3DArray(b)
}

func runCylAxis(c *hlib.Ctx, n int) {
	// ---------------- cylx: exact
	for i := 0; i < n; i++ {
		ax := c.Rng.Intn(3)
		var e [3]float64
		e[ax] = float64(1 - 2*c.Rng.Intn(2))
		axis := model3d.NewCoord3DArray(e)
		e1, e2 := axisFrame(ax)
		L := pow2(c, -2, 2)
		p1 := dy3(c)
		p2 := p1.Add(axis.Scale(L))
		m := 1 + c.Rng.Intn(24)
		rad := float64(m) / 8
		k := spow2(c, -3, 4)
		// axial coordinate of the origin in quarters of the length: -1 .. 2 (0 and 1: on the cap planes)
		z := L * float64(c.Rng.Intn(13)-4) / 4
		var u, w float64
		class := ""
		switch c.Rng.Intn(6) {
		case 0:
			class = "on-axis"
		case 1, 2:
			// strictly inside the radius
			class = "inside-radius"
			for {
				u, w = float64(c.Rng.Intn(49)-24)/8, float64(c.Rng.Intn(49)-24)/8
				if u*u+w*w < rad*rad {
					break
				}
			}
		case 3:
			// exactly at the radius (3-4-5 offsets when they fit, else along one frame vector): the ray runs in the
			// lateral surface and meets the rims of the caps
			class = "at-radius"
			u = rad
			if c.Rng.Intn(2) == 0 {
				u, w = 0, -rad
				if m%5 == 0 {
					u, w = float64(3*m/5)/8, float64(4*m/5)/8
				}
			}
		case 4:
			// just outside / just inside the radius
			class = "next-to-radius"
			u = rad + float64(1-2*c.Rng.Intn(2))/64
		default:
			class = "outside-radius"
			u, w = rad+float64(1+c.Rng.Intn(16))/8, float64(c.Rng.Intn(17)-8)/8
			if c.Rng.Intn(2) == 0 {
				u, w = w, -u
			}
		}
		o := p1.Add(axis.Scale(z)).Add(e1.Scale(u)).Add(e2.Scale(w))
		d := axis.Scale(k)
		cyl := &model3d.Cylinder{P1: p1, P2: p2, Radius: rad}
		r := &model3d.Ray{Origin: o, Direction: d}
		ob := observe3(cyl, r)
		inside := cyl.Contains(o)
		c.Stat("cylx."+class, 1)
		c.Stat(fmt.Sprintf("cylx.hits.%d", minInt(ob.n1, 3)), 1)
		if inside {
			c.Stat("cylx.origin-inside", 1)
		}
		c.Emit(fmt.Sprintf("c07 cylx %s %s %s %s %s", v3Tok(rs, p1), v3Tok(rs, p2), rs(rad), v3Tok(rs, o), v3Tok(rs, d)),
			runStr(rs, ob, 3)+" I "+b01(inside))
	}

	// ---------------- cylb / capb along the axis: arbitrary doubles, bit for bit
	for i := 0; i < n; i++ {
		p1 := rnd3(c)
		var axis v3
		axisClass := "oblique"
		if c.Rng.Intn(3) != 0 {
			var e [3]float64
			e[c.Rng.Intn(3)] = float64(1 - 2*c.Rng.Intn(2))
			axis = model3d.NewCoord3DArray(e)
			axisClass = "aligned"
		} else {
			axis = randUnit3(c)
		}
		var L float64
		switch c.Rng.Intn(3) {
		case 0:
			L = pow2(c, -2, 2)
		case 1:
			L = float64(1+c.Rng.Intn(24)) / 8
		default:
			L = randPos(c, 0.2, 3)
		}
		p2 := p1.Add(axis.Scale(L))
		rad := randPos(c, 0.2, 2)
		// the library's own axis vector; for an aligned axis whose length does not normalise to exactly 1 the exact
		// coordinate axis is used half of the time
		v := p2.Sub(p1).Normalize()
		if axisClass == "aligned" && c.Rng.Intn(2) == 0 {
			v = axis
		}
		k := nonUnitScale(c)
		if c.Rng.Intn(2) == 0 {
			k = -k
		}
		d := v.Scale(k)
		tilt := "exact"
		switch c.Rng.Intn(8) {
		case 0, 1:
			// control: slightly tilted
			mag := []float64{1e-3, 1e-6, 1e-9, 1e-12, 1e-15}[c.Rng.Intn(5)]
			d = d.Add(randUnit3(c).Scale(mag * math.Abs(k)))
			tilt = "tilted"
		case 2:
			// orthogonal to the axis (exactly, for an aligned axis): the caps are parallel to the ray and never hit, the
			// axial coordinate is constant (M3d.C07.parity_inside_cylinder, second case)
			d = randUnit3(c).ProjectOut(axis)
			if axisClass == "aligned" {
				// ProjectOut leaves exactly 0 along a coordinate axis; make sure of it
				a := d.Array()
				for j, e := range axis.Array() {
					if e != 0 {
						a[j] = 0
					}
				}
				d = model3d.NewCoord3DArray(a)
			}
			if d.Norm() < 1e-3 {
				d = v.Scale(k)
			} else {
				d = d.Scale(k)
				tilt = "orthogonal"
			}
		}
		// origin in the frame of the axis
		z := L * (-1 + 3*c.Rng.Float64())
		isCylinder := c.Rng.Intn(3) != 0
		switch c.Rng.Intn(6) {
		case 0:
			z = 0
		case 1:
			z = L
		}
		if !isCylinder && tilt == "orthogonal" && (z == 0 || z == L) {
			// a ray inside the plane that separates an end hemisphere of a capsule from its lateral part meets the
			// seam circle of the two pieces: the sphere candidate and the side candidate tie (or both fall to rounding
			// on their filters along >= 0 / frac < L) - not in general position
			z = L * (0.05 + 0.9*c.Rng.Float64())
		}
		perp := randUnit3(c).ProjectOut(axis)
		if perp.Norm() < 1e-3 {
			perp = v3{}
		} else {
			perp = perp.Normalize()
		}
		var rho float64
		switch c.Rng.Intn(5) {
		case 0:
			rho = 0
		case 1, 2:
			rho = rad * c.Rng.Float64() * 0.98
		case 3:
			rho = rad * (1 + 0.02 + c.Rng.Float64())
		default:
			rho = rad * (1 + (c.Rng.Float64()-0.5)*1e-3)
		}
		o := p1.Add(axis.Scale(z)).Add(perp.Scale(rho))
		r := &model3d.Ray{Origin: o, Direction: d}
		// distance of the origin from the surface in the frame: general position for the parity statement
		offSurface := math.Abs(rho-rad) > 1e-3*rad && math.Abs(z) > 1e-3*L && math.Abs(z-L) > 1e-3*L
		if isCylinder {
			cyl := &model3d.Cylinder{P1: p1, P2: p2, Radius: rad}
			ob := observe3(cyl, r)
			c.Stat("cylb.axis."+axisClass+"."+tilt, 1)
			c.Stat(fmt.Sprintf("cylb.axis.hits.%d", minInt(ob.n1, 4)), 1)
			if vv := cyl.P2.Sub(cyl.P1).Normalize(); vv.Scale(d.Dot(vv)).Sub(d) == (v3{}) {
				c.Stat("cylb.axis.degenerate-quadratic", 1)
			}
			c.Emit(fmt.Sprintf("c07 cylb %s %s %s %s %s", v3Tok(hx, p1), v3Tok(hx, p2), hx(rad), v3Tok(hx, r.Origin), v3Tok(hx, r.Direction)), runStr(hx, ob, 3))
			if ob.failure == "" && offSurface && generalPosition(ob.ts, d.Norm(), rad+L) {
				inside := cyl.Contains(o)
				if inside {
					c.Stat("cylb.axis.origin-inside", 1)
				}
				if (ob.n0%2 == 1) != inside {
					c.PropFail("c07:parity-vs-contains/cylinder",
						fmt.Sprintf("count=%d hits=%v inside=%v %s", ob.n0, ob.ts, inside, descRay3(fmt.Sprintf("Cylinder%+v", *cyl), r, "along-axis/"+axisClass+"/"+tilt)))
				}
			}
		} else {
			capsule := &model3d.Capsule{P1: p1, P2: p2, Radius: rad}
			ob := observe3(capsule, r)
			if tiedScales(ob.ts) {
				continue
			}
			c.Stat("capb.axis."+axisClass+"."+tilt, 1)
			c.Stat(fmt.Sprintf("capb.axis.hits.%d", minInt(ob.n1, 4)), 1)
			c.Emit(fmt.Sprintf("c07 capb %s %s %s %s %s", v3Tok(hx, p1), v3Tok(hx, p2), hx(rad), v3Tok(hx, r.Origin), v3Tok(hx, r.Direction)),
				runStr(hx, ob, 3)+" I "+b01(capsule.Contains(r.Origin)))
			// the capsule's surface is at distance rad from the segment
			dist := o.Dist(segClosest(p1, p2, o))
			if ob.failure == "" && math.Abs(dist-rad) > 1e-3*rad && generalPosition(ob.ts, d.Norm(), rad+L) {
				inside := capsule.Contains(o)
				if (ob.n0%2 == 1) != inside {
					c.PropFail("c07:parity-vs-contains/capsule",
						fmt.Sprintf("count=%d hits=%v inside=%v %s", ob.n0, ob.ts, inside, descRay3(fmt.Sprintf("Capsule%+v", *capsule), r, "along-axis/"+axisClass+"/"+tilt)))
				}
			}
		}
	}
}
