package main

// Ball / circle queries against TRANSFORMED colliders (model3d.TransformCollider,
// model2d.TransformCollider).
//
// Exact kinds (dyadic data, every Go float operation exact):
//
//	tballx  <xf3> n (a b c)... ctr r     TransformCollider(t, triangles).SphereCollision(ctr, r)
//	tsphx   <xf3> center R ctr r         TransformCollider(t, &Sphere{center,R}).SphereCollision(ctr, r)
//	tcircx  <xf2> n (s0 s1)... ctr r     2-D: TransformCollider(t, segments).CircleCollision(ctr, r)
//	tcirc2x <xf2> center R ctr r         2-D: TransformCollider(t, &Circle{center,R}).CircleCollision(ctr, r)
//
// <xf> in C05's token syntax: T x y [z] | S s | O m0.. (orthogonal matrix, row-major) | J n t...
// The Lean driver answers with what the property demands - does the IMAGE surface (image triangles /
// segments, image sphere) meet the ball - and refuses MODEL-NE-SPEC when the faithful model of
// transformedCollider.SphereCollision (centre through t.Inverse(), radius through
// t.Inverse().ApplyDistance) disagrees with it (Props/C07: transformed_ball_touches_iff_*).
// Transforms: dyadic translations, scales +-2^k (k in -2..2, so non-unit and negative factors),
// signed permutation matrices (all 48 / 8 orthogonal matrices with entries 0, +-1) wrapped as
// orthoMatrix3Transform via the C05 hook, and JoinedTransforms of them (also nested).
// Radii lie on both sides of the true distance d of the ball centre from the image surface: next to d,
// next to d/f and d/f^2 (f the distance factor of t: a radius converted with the wrong direction of
// ApplyDistance is off by f^2), and arbitrary.
//
// PropFail c07:ball-touches/transformed*: arbitrary doubles (random rotations, scales in +-[0.3,3],
// joins), radii at least 5% away from the true distance (computed on the image triangles / image
// sphere), so rounding cannot flip the answer.

import (
	"fmt"
	"math"
	"math/big"
	"strings"

	"github.com/unixpickle/model3d/model2d"
	"github.com/unixpickle/model3d/model3d"
	"verif/harness/hlib"
)

// ---------------------------------------------------------------- exact dyadic transforms

type xf3 struct {
	t   model3d.DistTransform
	tok string
}

type xf2 struct {
	t   model2d.DistTransform
	tok string
}

func signedPerm3(c *hlib.Ctx) *model3d.Matrix3 {
	perm := c.Rng.Perm(3)
	var m model3d.Matrix3
	for row := 0; row < 3; row++ {
		m[row*3+perm[row]] = float64(1 - 2*c.Rng.Intn(2))
	}
	return &m
}

func signedPerm2(c *hlib.Ctx) *model2d.Matrix2 {
	var m model2d.Matrix2
	s0, s1 := float64(1-2*c.Rng.Intn(2)), float64(1-2*c.Rng.Intn(2))
	if c.Rng.Intn(2) == 0 {
		m[0], m[3] = s0, s1
	} else {
		m[1], m[2] = s0, s1
	}
	return &m
}

func dyScale(c *hlib.Ctx) float64 {
	for {
		k := c.Rng.Intn(5) - 2
		if k == 0 && c.Rng.Intn(3) != 0 {
			continue // mostly non-unit
		}
		return spow2(c, k, k)
	}
}

func rsList(xs ...float64) string {
	parts := make([]string, len(xs))
	for i, x := range xs {
		parts[i] = rs(x)
	}
	return strings.Join(parts, " ")
}

func dyXf3(c *hlib.Ctx, depth int) xf3 {
	k := c.Rng.Intn(5)
	if depth == 0 && k >= 3 {
		k = c.Rng.Intn(3)
	}
	switch k {
	case 0:
		v := model3d.XYZ(c.Dyadic(2, 2), c.Dyadic(2, 2), c.Dyadic(2, 2))
		return xf3{&model3d.Translate{Offset: v}, "T " + v3Tok(rs, v)}
	case 1:
		s := dyScale(c)
		return xf3{&model3d.Scale{Scale: s}, "S " + rs(s)}
	case 2:
		m := signedPerm3(c)
		return xf3{model3d.VerifOrthoTransform(m), "O " + rsList(m[:]...)}
	default:
		n := c.Rng.Intn(4)
		if k == 4 && n < 2 {
			n = 2
		}
		j := model3d.JoinedTransform{}
		toks := []string{fmt.Sprintf("J %d", n)}
		for i := 0; i < n; i++ {
			sub := dyXf3(c, depth-1)
			j = append(j, sub.t)
			toks = append(toks, sub.tok)
		}
		return xf3{j, strings.Join(toks, " ")}
	}
}

func dyXf2(c *hlib.Ctx, depth int) xf2 {
	k := c.Rng.Intn(5)
	if depth == 0 && k >= 3 {
		k = c.Rng.Intn(3)
	}
	switch k {
	case 0:
		v := model2d.XY(c.Dyadic(2, 2), c.Dyadic(2, 2))
		return xf2{&model2d.Translate{Offset: v}, "T " + v2Tok(rs, v)}
	case 1:
		s := dyScale(c)
		return xf2{&model2d.Scale{Scale: s}, "S " + rs(s)}
	case 2:
		m := signedPerm2(c)
		return xf2{model2d.VerifOrthoTransform(m), "O " + rsList(m[:]...)}
	default:
		n := c.Rng.Intn(4)
		if k == 4 && n < 2 {
			n = 2
		}
		j := model2d.JoinedTransform{}
		toks := []string{fmt.Sprintf("J %d", n)}
		for i := 0; i < n; i++ {
			sub := dyXf2(c, depth-1)
			j = append(j, sub.t)
			toks = append(toks, sub.tok)
		}
		return xf2{j, strings.Join(toks, " ")}
	}
}

// factor3 / factor2: the distance factor ApplyDistance(1) of the real transform (code under test: guarded)
func factor3(c *hlib.Ctx, t model3d.DistTransform, name string) (f float64, ok bool) {
	res := hlib.Guard(func() string { f = t.ApplyDistance(1); return "ok" })
	if res != "ok" || !finite(f) || f <= 0 {
		c.PropFail("c07:ball-touches/transformed/apply-distance", fmt.Sprintf("ApplyDistance(1)=%v (%s) for %s", f, res, name))
		return 0, false
	}
	return f, true
}

func factor2(c *hlib.Ctx, t model2d.DistTransform, name string) (f float64, ok bool) {
	res := hlib.Guard(func() string { f = t.ApplyDistance(1); return "ok" })
	if res != "ok" || !finite(f) || f <= 0 {
		c.PropFail("c07:ball-touches/transformed/apply-distance", fmt.Sprintf("ApplyDistance(1)=%v (%s) for %s", f, res, name))
		return 0, false
	}
	return f, true
}

// grid rounds x to a multiple of 2^-7 (at least 2^-7): a dyadic radius with few bits.
func grid(x float64) float64 {
	r := math.Round(x*128) / 128
	if r < 1.0/128 {
		r = 1.0 / 128
	}
	return r
}

// pickRadius: a dyadic radius relative to the true distance d of the centre from the image surface
// and the distance factor f; class names the choice.
func pickRadius(c *hlib.Ctx, d, f float64) (float64, string) {
	jit := []float64{0.75, 0.875, 1.125, 1.25}[c.Rng.Intn(4)]
	switch c.Rng.Intn(6) {
	case 0:
		return float64(1+c.Rng.Intn(32)) / 8, "any"
	case 1, 2:
		return grid(d * jit), "near-d"
	case 3:
		return grid(d / f * jit), "near-d/f"
	case 4:
		return grid(d * f * jit), "near-d*f"
	default:
		if c.Rng.Intn(2) == 0 {
			return grid(d / (f * f) * jit), "near-d/f^2"
		}
		return grid(d * f * f * jit), "near-d*f^2"
	}
}

// separated: r is not within rounding of the true distance d (boundary cases are decided by
// rounding in the implementation unless every operation is exact).
func separated(r, d float64) bool { return math.Abs(r-d) > 1e-9*(1+d) }

func sideStat(c *hlib.Ctx, kind, class string, f, r, d float64) {
	c.Stat(kind+".radius."+class, 1)
	if f != 1 {
		c.Stat(kind+".nonunit-factor", 1)
		// would a radius converted with the forward instead of the inverse factor change the answer?
		if (d < r) != (d < r*f*f) {
			c.Stat(kind+".between-r-and-r*f^2", 1)
		}
	}
}

func runXfBall(c *hlib.Ctx, n int) {
	// ---- 3-D triangles behind a transformed collider
	for i := 0; i < 2*n; i++ {
		x := dyXf3(c, 2)
		k := 1
		if c.Rng.Intn(3) == 0 {
			k = 1 + c.Rng.Intn(5)
		}
		var tris []*model3d.Triangle
		for j := 0; j < k; j++ {
			tris = append(tris, dyTri(c))
		}
		var inner model3d.Collider
		innerName := ""
		switch {
		case k == 1 && c.Rng.Intn(2) == 0:
			inner, innerName = tris[0], "Triangle"
		case c.Rng.Intn(3) == 0:
			// a hand-built BVH with branches of 2..6 children (bvh_boolean_query: still every triangle)
			inner, _, _, innerName = wideBVH3(c, "tballx", tris)
		case c.Rng.Intn(2) == 0:
			inner, innerName = model3d.MeshToCollider(model3d.NewMeshTriangles(tris)), "MeshToCollider"
		default:
			inner, innerName = model3d.GroupedTrianglesToCollider(append([]*model3d.Triangle{}, tris...)), "ungrouped"
		}
		col := model3d.TransformCollider(x.t, inner)
		f, fok := factor3(c, x.t, x.tok)
		if !fok {
			continue
		}
		// centre: dyadic, in the frame of the image
		ctr := x.t.Apply(dy3(c))
		if c.Rng.Intn(3) == 0 {
			ctr = dy3(c)
		}
		d := math.Inf(1)
		for _, t := range tris {
			img := &model3d.Triangle{x.t.Apply(t[0]), x.t.Apply(t[1]), x.t.Apply(t[2])}
			d = math.Min(d, img.Dist(ctr))
		}
		r, class := pickRadius(c, d, f)
		if !separated(r, d) {
			c.Stat("tballx.skipped-boundary", 1)
			continue
		}
		res := hlib.Guard(func() string { return b01(col.SphereCollision(ctr, r)) })
		sideStat(c, "tballx", class, f, r, d)
		c.Stat("tballx.inner."+innerName, 1)
		c.Stat("tballx."+res, 1)
		var sb strings.Builder
		fmt.Fprintf(&sb, "c07 tballx %s %d", x.tok, len(tris))
		for _, t := range tris {
			sb.WriteString(" " + triTokens(rs, t))
		}
		fmt.Fprintf(&sb, " %s %s", v3Tok(rs, ctr), rs(r))
		c.Emit(sb.String(), res)
	}
	// ---- 3-D sphere behind a transformed collider (closed ball: |SDF| <= r)
	for i := 0; i < n; i++ {
		x := dyXf3(c, 2)
		center := dy3(c)
		R := float64(1+c.Rng.Intn(16)) / 8
		col := model3d.TransformCollider(x.t, &model3d.Sphere{Center: center, Radius: R})
		f, fok := factor3(c, x.t, x.tok)
		if !fok {
			continue
		}
		imgC := x.t.Apply(center)
		// the offset centre -> ball centre: axis-aligned or a scaled Pythagorean triple (exact
		// square root, so that tangent balls are exact), or arbitrary dyadic
		var off v3
		exact := true
		switch c.Rng.Intn(4) {
		case 0:
			var a [3]float64
			a[c.Rng.Intn(3)] = float64(c.Rng.Intn(33)-16) / 8
			off = model3d.NewCoord3DArray(a)
		case 1:
			trip := [][3]float64{{3, 4, 0}, {1, 2, 2}, {2, 3, 6}, {0, 0, 0}, {4, 4, 7}}[c.Rng.Intn(5)]
			p := c.Rng.Perm(3)
			u := pow2(c, -3, -1)
			off = model3d.XYZ(trip[p[0]]*u*float64(1-2*c.Rng.Intn(2)), trip[p[1]]*u*float64(1-2*c.Rng.Intn(2)), trip[p[2]]*u)
		default:
			off = dy3(c)
			exact = false
		}
		ctr := imgC.Add(off)
		D := off.Norm()
		d := math.Abs(f*R - D) // distance of the ball centre from the image sphere
		r, class := pickRadius(c, d, f)
		if exact && c.Rng.Intn(4) == 0 && d > 0 && d == math.Round(d*1024)/1024 {
			r, class = d, "tangent" // closed ball: touching
		}
		if !exact && !separated(r, d) {
			c.Stat("tsphx.skipped-boundary", 1)
			continue
		}
		res := hlib.Guard(func() string { return b01(col.SphereCollision(ctr, r)) })
		sideStat(c, "tsphx", class, f, r, d)
		c.Stat("tsphx."+res, 1)
		c.Emit(fmt.Sprintf("c07 tsphx %s %s %s %s %s", x.tok, v3Tok(rs, center), rs(R), v3Tok(rs, ctr), rs(r)), res)
	}
	// ---- 2-D segments
	for i := 0; i < n; i++ {
		x := dyXf2(c, 2)
		k := 1
		if c.Rng.Intn(3) == 0 {
			k = 1 + c.Rng.Intn(5)
		}
		var segs []*model2d.Segment
		for len(segs) < k {
			s := &model2d.Segment{dy2(c), dy2(c)}
			if s[0] != s[1] {
				segs = append(segs, s)
			}
		}
		var inner model2d.Collider
		if k == 1 && c.Rng.Intn(2) == 0 {
			inner = segs[0]
		} else if len(segs) > 0 && c.Rng.Intn(3) == 0 {
			inner, _, _, _ = wideBVH2(c, "tcircx", segs)
		} else if c.Rng.Intn(2) == 0 {
			inner = model2d.MeshToCollider(model2d.NewMeshSegments(segs))
		} else {
			inner = model2d.GroupedSegmentsToCollider(append([]*model2d.Segment{}, segs...))
		}
		col := model2d.TransformCollider(x.t, inner)
		f, fok := factor2(c, x.t, x.tok)
		if !fok {
			continue
		}
		ctr := x.t.Apply(dy2(c))
		if c.Rng.Intn(3) == 0 {
			ctr = dy2(c)
		}
		d := math.Inf(1)
		for _, s := range segs {
			img := model2d.Segment{x.t.Apply(s[0]), x.t.Apply(s[1])}
			d = math.Min(d, img.Dist(ctr))
		}
		r, class := pickRadius(c, d, f)
		if !separated(r, d) {
			c.Stat("tcircx.skipped-boundary", 1)
			continue
		}
		res := hlib.Guard(func() string { return b01(col.CircleCollision(ctr, r)) })
		sideStat(c, "tcircx", class, f, r, d)
		c.Stat("tcircx."+res, 1)
		var sb strings.Builder
		fmt.Fprintf(&sb, "c07 tcircx %s %d", x.tok, len(segs))
		for _, s := range segs {
			sb.WriteString(" " + v2Tok(rs, s[0]) + " " + v2Tok(rs, s[1]))
		}
		fmt.Fprintf(&sb, " %s %s", v2Tok(rs, ctr), rs(r))
		c.Emit(sb.String(), res)
	}
	// ---- 2-D circle
	for i := 0; i < n/2; i++ {
		x := dyXf2(c, 2)
		center := dy2(c)
		R := float64(1+c.Rng.Intn(16)) / 8
		col := model2d.TransformCollider(x.t, &model2d.Circle{Center: center, Radius: R})
		f, fok := factor2(c, x.t, x.tok)
		if !fok {
			continue
		}
		imgC := x.t.Apply(center)
		var off v2
		exact := true
		switch c.Rng.Intn(4) {
		case 0:
			if c.Rng.Intn(2) == 0 {
				off = model2d.X(float64(c.Rng.Intn(33)-16) / 8)
			} else {
				off = model2d.Y(float64(c.Rng.Intn(33)-16) / 8)
			}
		case 1:
			trip := [][2]float64{{3, 4}, {4, 3}, {5, 12}, {0, 0}, {8, 15}}[c.Rng.Intn(5)]
			u := pow2(c, -4, -2)
			off = model2d.XY(trip[0]*u*float64(1-2*c.Rng.Intn(2)), trip[1]*u*float64(1-2*c.Rng.Intn(2)))
		default:
			off = dy2(c)
			exact = false
		}
		ctr := imgC.Add(off)
		D := off.Norm()
		d := math.Abs(f*R - D)
		r, class := pickRadius(c, d, f)
		if exact && c.Rng.Intn(4) == 0 && d > 0 && d == math.Round(d*1024)/1024 {
			r, class = d, "tangent"
		}
		if !exact && !separated(r, d) {
			c.Stat("tcirc2x.skipped-boundary", 1)
			continue
		}
		res := hlib.Guard(func() string { return b01(col.CircleCollision(ctr, r)) })
		sideStat(c, "tcirc2x", class, f, r, d)
		c.Stat("tcirc2x."+res, 1)
		c.Emit(fmt.Sprintf("c07 tcirc2x %s %s %s %s %s", x.tok, v2Tok(rs, center), rs(R), v2Tok(rs, ctr), rs(r)), res)
	}
	runXfBallFloat(c, n)
	runContainExact(c, n)
}

// runContainExact: model3d.ColliderContains (even-odd containment along the library's fixed direction, plus the
// ball query for a margin) on dyadic meshes.  Origins lie on the 1/16-offset grid (never on a plane of an
// axis-aligned face of the 1/8 grid), so the fixed direction - whose components are not in a small rational ratio -
// meets no edge or vertex, and no float comparison in Möller-Trumbore is near its threshold.
func runContainExact(c *hlib.Ctx, n int) {
	for i := 0; i < n; i++ {
		var tris []*model3d.Triangle
		kindName := ""
		switch c.Rng.Intn(3) {
		case 0:
			lo := dy3(c)
			hi := lo.Add(model3d.XYZ(pow2(c, -1, 2), pow2(c, -1, 2), pow2(c, -1, 2)))
			tris = model3d.NewMeshRect(lo, hi).TriangleSlice()
			kindName = "boxmesh"
		case 1:
			// two boxes: nested or side by side or overlapping (union of closed meshes)
			lo := dy3(c)
			hi := lo.Add(model3d.XYZ(pow2(c, 0, 2), pow2(c, 0, 2), pow2(c, 0, 2)))
			tris = model3d.NewMeshRect(lo, hi).TriangleSlice()
			lo2 := lo.Add(model3d.XYZ(float64(c.Rng.Intn(5)-1)/4, float64(c.Rng.Intn(5)-1)/4, float64(c.Rng.Intn(5)-1)/4))
			hi2 := lo2.Add(model3d.XYZ(pow2(c, -1, 1), pow2(c, -1, 1), pow2(c, -1, 1)))
			tris = append(tris, model3d.NewMeshRect(lo2, hi2).TriangleSlice()...)
			kindName = "twoboxes"
		default:
			k := 1 + c.Rng.Intn(6)
			for j := 0; j < k; j++ {
				tris = append(tris, ptri(c))
			}
			kindName = "soup"
		}
		tris = uniqueTris(tris) // coincident faces would be a mesh that is not in general position for any ray
		var col model3d.Collider
		switch c.Rng.Intn(5) {
		case 0:
			col = model3d.MeshToCollider(model3d.NewMeshTriangles(tris))
		case 1:
			col = model3d.GroupedTrianglesToCollider(append([]*model3d.Triangle{}, tris...))
		case 2, 3:
			col, _, _, _ = wideBVH3(c, "containx", tris)
		default:
			col = model3d.BVHToCollider(model3d.NewBVHAreaDensity(append([]*model3d.Triangle{}, tris...)))
		}
		min, max := col.Min(), col.Max()
		o := model3d.XYZ(offGrid(c, min.X, max.X), offGrid(c, min.Y, max.Y), offGrid(c, min.Z, max.Z))
		margin := 0.0
		if c.Rng.Intn(3) == 0 {
			margin = float64(c.Rng.Intn(17)-8) / 16
			d := math.Inf(1)
			for _, t := range tris {
				d = math.Min(d, t.Dist(o))
			}
			if !separated(math.Abs(margin), d) {
				margin = 0
			}
		}
		res := hlib.Guard(func() string {
			got := model3d.ColliderContains(col, o, margin)
			r := &model3d.Ray{Origin: o, Direction: model3d.XYZ(0.5224892708603626, 0.10494477243214506, 0.43558938446126527)}
			return fmt.Sprintf("%s %d", b01(got), col.RayCollisions(r, nil)%2)
		})
		c.Stat("containx."+kindName, 1)
		c.Stat("containx.result."+strings.ReplaceAll(res, " ", "_"), 1)
		var sb strings.Builder
		fmt.Fprintf(&sb, "c07 containx %d", len(tris))
		for _, t := range tris {
			sb.WriteString(" " + triTokens(rs, t))
		}
		fmt.Fprintf(&sb, " %s %s", v3Tok(rs, o), rs(margin))
		c.Emit(sb.String(), res)
	}
}

// offGrid: an odd multiple of 1/16 in [lo-1/2, hi+1/2]
func offGrid(c *hlib.Ctx, lo, hi float64) float64 {
	a := math.Floor((lo-0.5)*8) / 8
	span := int(math.Ceil((hi+0.5-a)*8)) + 1
	return a + float64(c.Rng.Intn(span))/8 + 1.0/16
}

// uniqueTris: the set of triangles (mesh constructors deduplicate identical triangles)
func uniqueTris(tris []*model3d.Triangle) []*model3d.Triangle {
	seen := map[model3d.Triangle]bool{}
	var out []*model3d.Triangle
	for _, t := range tris {
		if !seen[*t] {
			seen[*t] = true
			out = append(out, t)
		}
	}
	return out
}

// ---------------------------------------------------------------- arbitrary transforms (PropFail)

func randDistTransform2(c *hlib.Ctx, depth int) (model2d.DistTransform, string) {
	switch k := c.Rng.Intn(5); {
	case k == 0:
		v := randCenter2(c)
		return &model2d.Translate{Offset: v}, fmt.Sprintf("Translate%v", v)
	case k == 1:
		s := randPos(c, 0.3, 3)
		if c.Rng.Intn(3) == 0 {
			s = -s
		}
		return &model2d.Scale{Scale: s}, fmt.Sprintf("Scale(%v)", s)
	case k == 2 || depth == 0:
		th := c.Rng.Float64() * 6.28
		return model2d.Rotation(th), fmt.Sprintf("Rotation(%v)", th)
	default:
		a, an := randDistTransform2(c, depth-1)
		b, bn := randDistTransform2(c, depth-1)
		return model2d.JoinedTransform{a, b}, "Join{" + an + "," + bn + "}"
	}
}

// floatRadii: radii well away (>= 5 %) from the true distance d, on both sides, including the radii for
// which a conversion with the wrong direction of ApplyDistance changes the answer.
func floatRadii(c *hlib.Ctx, d, f float64) []float64 {
	cands := []float64{d * 0.5, d * 0.8, d * 1.25, d * 2, d / f * 0.9, d / f * 1.1, d * f * 0.9, d * f * 1.1, c.Rng.Float64() * 4}
	var out []float64
	for _, r := range cands {
		if r > 1e-6 && math.Abs(r-d) > 0.05*d && finite(r) {
			out = append(out, r)
		}
	}
	return out
}

func runXfBallFloat(c *hlib.Ctx, n int) {
	for i := 0; i < n; i++ {
		x := randDistTransform(c, 2)
		f, fok := factor3(c, x.t, x.name)
		if !fok {
			continue
		}
		if c.Rng.Intn(3) != 0 {
			// triangle soup
			k := 1 + c.Rng.Intn(4)
			var tris []*model3d.Triangle
			for len(tris) < k {
				t := &model3d.Triangle{rnd3(c), rnd3(c), rnd3(c)}
				if t.Area() > 1e-3 {
					tris = append(tris, t)
				}
			}
			var inner model3d.Collider = tris[0]
			if k > 1 {
				inner = model3d.MeshToCollider(model3d.NewMeshTriangles(tris))
			}
			col := model3d.TransformCollider(x.t, inner)
			var imgs []*model3d.Triangle
			for _, t := range tris {
				imgs = append(imgs, &model3d.Triangle{x.t.Apply(t[0]), x.t.Apply(t[1]), x.t.Apply(t[2])})
			}
			ctr := x.t.Apply(rnd3(c))
			// exact squared distance of the (rounded) image triangles: the 5 % margin dwarfs the rounding
			// of the image vertices
			d := math.Inf(1)
			for _, t := range imgs {
				d = math.Min(d, t.Dist(ctr))
			}
			for _, r := range floatRadii(c, d, f) {
				qq := new(big.Rat).Mul(ratOf(r), ratOf(r))
				want := false
				for _, t := range imgs {
					if qTriBall(t, qv(ctr), qq) {
						want = true
					}
				}
				got := want
				res := hlib.Guard(func() string { got = col.SphereCollision(ctr, r); return "ok" })
				c.Stat("xfball.float.tri."+b01(want), 1)
				if f != 1 && (d < r) != (d < r*f*f) {
					c.Stat("xfball.float.between-r-and-r*f^2", 1)
				}
				if res != "ok" || got != want {
					c.PropFail("c07:ball-touches/transformed-triangles",
						fmt.Sprintf("SphereCollision=%v (%s) but the image triangles are at distance %v from the centre %v, radius %v; transform=%s factor=%v triangles=%v",
							got, res, d, ctr, r, x.name, f, trisString(tris)))
				}
			}
		} else {
			center := randCenter3(c)
			R := randPos(c, 0.2, 2)
			col := model3d.TransformCollider(x.t, &model3d.Sphere{Center: center, Radius: R})
			imgC := x.t.Apply(center)
			ctr := imgC.Add(randUnit3(c).Scale(c.Rng.Float64() * 3 * f * R))
			d := math.Abs(f*R - ctr.Dist(imgC))
			if d < 1e-6 {
				continue
			}
			for _, r := range floatRadii(c, d, f) {
				want := d <= r
				got := want
				res := hlib.Guard(func() string { got = col.SphereCollision(ctr, r); return "ok" })
				c.Stat("xfball.float.sphere."+b01(want), 1)
				if res != "ok" || got != want {
					c.PropFail("c07:ball-touches/transformed-sphere",
						fmt.Sprintf("SphereCollision=%v (%s) but the image sphere (centre %v radius %v) is at distance %v from the centre %v, radius %v; transform=%s factor=%v",
							got, res, imgC, f*R, d, ctr, r, x.name, f))
				}
			}
		}
	}
	for i := 0; i < n/2; i++ {
		t, name := randDistTransform2(c, 2)
		f, fok := factor2(c, t, name)
		if !fok {
			continue
		}
		if c.Rng.Intn(3) != 0 {
			k := 1 + c.Rng.Intn(4)
			var segs []*model2d.Segment
			for len(segs) < k {
				s := &model2d.Segment{rnd2(c), rnd2(c)}
				if s.Length() > 1e-3 {
					segs = append(segs, s)
				}
			}
			var inner model2d.Collider = segs[0]
			if k > 1 {
				inner = model2d.MeshToCollider(model2d.NewMeshSegments(segs))
			}
			col := model2d.TransformCollider(t, inner)
			ctr := t.Apply(rnd2(c))
			d := math.Inf(1)
			for _, s := range segs {
				img := model2d.Segment{t.Apply(s[0]), t.Apply(s[1])}
				d = math.Min(d, img.Dist(ctr))
			}
			for _, r := range floatRadii(c, d, f) {
				want := d < r
				got := want
				res := hlib.Guard(func() string { got = col.CircleCollision(ctr, r); return "ok" })
				c.Stat("xfball.float.seg2."+b01(want), 1)
				if res != "ok" || got != want {
					c.PropFail("c07:ball-touches/transformed-segments2d",
						fmt.Sprintf("CircleCollision=%v (%s) but the image segments are at distance %v from the centre %v, radius %v; transform=%s factor=%v segments=%v",
							got, res, d, ctr, r, name, f, segsString(segs)))
				}
			}
		} else {
			center := randCenter2(c)
			R := randPos(c, 0.2, 2)
			col := model2d.TransformCollider(t, &model2d.Circle{Center: center, Radius: R})
			imgC := t.Apply(center)
			ctr := imgC.Add(randUnit2(c).Scale(c.Rng.Float64() * 3 * f * R))
			d := math.Abs(f*R - ctr.Dist(imgC))
			if d < 1e-6 {
				continue
			}
			for _, r := range floatRadii(c, d, f) {
				want := d <= r
				got := want
				res := hlib.Guard(func() string { got = col.CircleCollision(ctr, r); return "ok" })
				c.Stat("xfball.float.circle2."+b01(want), 1)
				if res != "ok" || got != want {
					c.PropFail("c07:ball-touches/transformed-circle2d",
						fmt.Sprintf("CircleCollision=%v (%s) but the image circle (centre %v radius %v) is at distance %v from the centre %v, radius %v; transform=%s factor=%v",
							got, res, imgC, f*R, d, ctr, r, name, f))
				}
			}
		}
	}
}

func trisString(tris []*model3d.Triangle) string {
	s := ""
	for _, t := range tris {
		s += fmt.Sprintf("%v;", *t)
	}
	return s
}

func segsString(segs []*model2d.Segment) string {
	s := ""
	for _, t := range segs {
		s += fmt.Sprintf("%v;", *t)
	}
	return s
}
