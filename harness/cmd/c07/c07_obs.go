package main

import (
	"fmt"
	"math"

	"github.com/unixpickle/model3d/model2d"
	"github.com/unixpickle/model3d/model3d"
	"verif/harness/hlib"
)

// runObs3: the contract on every 3-D collider kind.
func runObs3(c *hlib.Ctx, n int) {
	for i := 0; i < n; {
		sh := mkShape3(c)
		rays := 4
		if sh.approx {
			rays = 2
		}
		for j := 0; j < rays && i < n; j++ {
			r, class := genRaySh3(c, sh)
			o := observe3(sh.col, r)
			checkContract(c, "3", sh.kind, descRay3(sh.name, r, class), o)
			c.Stat("ray."+class, 1)
			i++
		}
	}
}

// runObs2: the contract on every 2-D collider kind.
func runObs2(c *hlib.Ctx, n int) {
	for i := 0; i < n; {
		sh := mkShape2(c)
		for j := 0; j < 4 && i < n; j++ {
			r, class := genRay2(c, sh.col)
			o := observe2(sh.col, r)
			checkContract(c, "2", sh.kind, descRay2(sh.name, r, class), o)
			i++
		}
	}
}

// runSurface: every reported hit lies on the surface and carries the unit outward normal
// (residuals against the harness's own implicit description of each shape; tolerance-based, so
// for the root-finder shapes this only validates).
func runSurface(c *hlib.Ctx, n int) {
	for i := 0; i < n; {
		sh := mkShape3(c)
		if sh.resid == nil || sh.approx {
			continue
		}
		for j := 0; j < 4 && i < n; j++ {
			i++
			r, class := genRaySh3(c, sh)
			o := observe3(sh.col, r)
			if o.failure != "" {
				continue
			}
			tag := ""
			if sh.validate {
				tag = "validation:"
			}
			for k, t := range o.ts {
				if !finite(t) {
					continue
				}
				p := r.Origin.Add(r.Direction.Scale(t))
				// the residual tolerance accounts for the conditioning of a grazing hit: an error of a
				// few ulps in t moves the point by |d|*dt
				reach := r.Origin.Dist(p) + sh.scale + p.Norm()
				tol := 1e-7 * reach
				if sh.validate {
					tol = 1e-5 * reach
				}
				res := math.Abs(sh.resid(p))
				c.Stat("surface.hits."+sh.kind, 1)
				if !(res <= tol) {
					c.PropFail(surfaceSite(sh, r, tag),
						fmt.Sprintf("t=%v point=%v residual=%v tol=%v %s", t, p, res, tol, descRay3(sh.name, r, class)))
					continue
				}
				if sh.normalOK != nil {
					nv := model3d.NewCoord3DArray(o.ns[k])
					if ok, msg := sh.normalOK(p, nv); !ok {
						// the normal is an algebraic function of the reported point (also for cone/torus): not a validation-only check
						c.PropFail("c07:normal-not-outward/"+sh.kind,
							fmt.Sprintf("t=%v point=%v %s %s", t, p, msg, descRay3(sh.name, r, class)))
					}
				}
			}
		}
	}
	for i := 0; i < n/3; {
		sh := mkShape2(c)
		if sh.resid == nil {
			continue
		}
		for j := 0; j < 4 && i < n/3; j++ {
			i++
			r, class := genRay2(c, sh.col)
			o := observe2(sh.col, r)
			if o.failure != "" {
				continue
			}
			for k, t := range o.ts {
				if !finite(t) {
					continue
				}
				p := r.Origin.Add(r.Direction.Scale(t))
				reach := r.Origin.Dist(p) + sh.scale + p.Norm()
				res := math.Abs(sh.resid(p))
				c.Stat("surface.hits."+sh.kind, 1)
				if !(res <= 1e-7*reach) {
					c.PropFail("c07:hit-not-on-surface/"+sh.kind,
						fmt.Sprintf("t=%v point=%v residual=%v %s", t, p, res, descRay2(sh.name, r, class)))
					continue
				}
				if sh.normalOK != nil {
					if ok, msg := sh.normalOK(p, model2d.XY(o.ns[k][0], o.ns[k][1])); !ok {
						c.PropFail("c07:normal-not-outward/"+sh.kind,
							fmt.Sprintf("t=%v point=%v %s %s", t, p, msg, descRay2(sh.name, r, class)))
					}
				}
			}
		}
	}
}

// runParity: for closed shapes, rays in general position (random origin away from the surface,
// random direction; cases where two reported hits nearly coincide or a hit is nearly at the
// origin are near-tangent/non-general and skipped): count odd <=> origin inside.
func runParity(c *hlib.Ctx, n int) {
	for i := 0; i < n; {
		var sh *shape3
		switch c.Rng.Intn(8) {
		case 0, 1, 2:
			sh = mkPrimitive(c)
		case 3, 4:
			sh = mkMesh(c)
		case 5:
			sh = mkProfile(c)
		default:
			sh = mkTransformed(c)
		}
		if sh.contains == nil || sh.resid == nil {
			continue
		}
		for j := 0; j < 4 && i < n; j++ {
			i++
			min, max := sh.col.Min(), sh.col.Max()
			origin := randIn3(c, min, max, 0.3)
			if math.Abs(sh.resid(origin)) < 1e-3*sh.scale {
				c.Stat("parity.skipped-near-surface", 1)
				continue
			}
			dir := randUnit3(c).Scale(nonUnitScale(c))
			if sh.axis != (v3{}) && finite(sh.axis.X, sh.axis.Y, sh.axis.Z) && c.Rng.Intn(3) == 0 {
				// exactly along the axis of a capsule / cylinder / cone (or of its image under a transform)
				dir = alongAxis(c, sh)
				c.Stat("parity.along-axis."+sh.kind, 1)
			}
			if sh.proj2 != nil && c.Rng.Intn(3) == 0 {
				// nearly vertical through a profile collider: an xy component of 1e-14 .. 1e-18 (what is left of a
				// horizontal component after a rotation by a right angle); the projected 2-D ray has a tiny direction
				e := math.Ldexp(1, -45-c.Rng.Intn(15))
				dir = model3d.XYZ(c.Rng.NormFloat64()*e, c.Rng.NormFloat64()*e, float64(1-2*c.Rng.Intn(2))).Scale(nonUnitScale(c))
				c.Stat("parity.profile-nearly-vertical", 1)
			}
			r := &model3d.Ray{Origin: origin, Direction: dir}
			o := observe3(sh.col, r)
			if o.failure != "" {
				continue
			}
			if !generalPosition(o.ts, dir.Norm(), sh.scale) {
				c.Stat("parity.skipped-non-general", 1)
				continue
			}
			inside := sh.contains(origin)
			c.Stat("parity."+sh.kind, 1)
			if inside {
				c.Stat("parity.inside", 1)
			}
			tag := ""
			if sh.validate {
				tag = "validation:"
			}
			if (o.n0%2 == 1) != inside {
				c.PropFail("c07:"+tag+"parity-vs-contains/"+sh.kind,
					fmt.Sprintf("count=%d hits=%v inside=%v %s", o.n0, o.ts, inside, descRay3(sh.name, r, "parity")))
			}
			// ColliderContains itself (fixed direction) on the same origin
			got := inside
			if res := hlib.Guard(func() string { got = model3d.ColliderContains(sh.col, origin, 0); return "ok" }); res != "ok" {
				c.PropFail("c07:contract/"+sh.kind+"/panic-or-timeout", "ColliderContains: "+res+" "+descRay3(sh.name, r, "contains"))
			} else if got != inside {
				r2 := &model3d.Ray{Origin: origin, Direction: model3d.XYZ(0.5224892708603626, 0.10494477243214506, 0.43558938446126527)}
				o2 := observe3(sh.col, r2)
				if generalPosition(o2.ts, r2.Direction.Norm(), sh.scale) {
					c.PropFail("c07:"+tag+"collider-contains/"+sh.kind,
						fmt.Sprintf("ColliderContains=%v inside=%v hits=%v %s", got, inside, o2.ts, descRay3(sh.name, r2, "contains")))
				}
			}
		}
	}
	for i := 0; i < n/3; {
		sh := mkShape2(c)
		if sh.contains == nil || sh.resid == nil {
			continue
		}
		for j := 0; j < 4 && i < n/3; j++ {
			i++
			origin := randIn2(c, sh.col.Min(), sh.col.Max(), 0.3)
			if math.Abs(sh.resid(origin)) < 1e-3*sh.scale {
				continue
			}
			dir := randUnit2(c).Scale(nonUnitScale(c))
			r := &model2d.Ray{Origin: origin, Direction: dir}
			o := observe2(sh.col, r)
			if o.failure != "" || !generalPosition(o.ts, dir.Norm(), sh.scale) {
				continue
			}
			inside := sh.contains(origin)
			c.Stat("parity."+sh.kind, 1)
			if (o.n0%2 == 1) != inside {
				c.PropFail("c07:parity-vs-contains/"+sh.kind,
					fmt.Sprintf("count=%d hits=%v inside=%v %s", o.n0, o.ts, inside, descRay2(sh.name, r, "parity")))
			}
		}
	}
}

// generalPosition: no two hits (nearly) coincide — a ray through an edge/vertex of a soup or
// tangent to a smooth surface — and no hit (nearly) at the origin.
func generalPosition(ts []float64, dnorm, scale float64) bool {
	s := sortedCopy(ts)
	for k, t := range s {
		if !finite(t) {
			return false
		}
		if t*dnorm < 1e-6*scale {
			return false
		}
		if k > 0 && (t-s[k-1])*dnorm < 1e-6*scale {
			return false
		}
	}
	return true
}

// runOnSurface: origins exactly on the surface (the hit point of another ray, as computed in floating
// point), directions into / out of / along the shape: every reported hit must still lie on the surface.
// (This is where Capsule.RayCollisions reported "phantom" hits with the inner half of an end sphere.)
func runOnSurface(c *hlib.Ctx, n int) {
	for i := 0; i < n; i++ {
		var sh *shape3
		switch c.Rng.Intn(4) {
		case 0, 1:
			sh = mkCapsule(c)
		case 2:
			sh = mkCylinder(c)
		default:
			sh = mkSphere(c)
		}
		min, max := sh.col.Min(), sh.col.Max()
		o2 := randIn3(c, min, max, 1.0)
		r2 := &model3d.Ray{Origin: o2, Direction: randIn3(c, min, max, 0).Sub(o2)}
		rc, ok := sh.col.FirstRayCollision(r2)
		if !ok || !finite(rc.Scale) {
			continue
		}
		origin := o2.Add(r2.Direction.Scale(rc.Scale))
		dir := randIn3(c, min, max, 0).Sub(origin)
		switch c.Rng.Intn(3) {
		case 0:
			dir = randUnit3(c)
		case 1:
			var arr [3]float64
			arr[c.Rng.Intn(3)] = float64(1 - 2*c.Rng.Intn(2))
			dir = model3d.NewCoord3DArray(arr)
		}
		if dir.Norm() < 1e-9 {
			continue
		}
		dir = dir.Normalize().Scale(nonUnitScale(c))
		r := &model3d.Ray{Origin: origin, Direction: dir}
		o := observe3(sh.col, r)
		checkContract(c, "3", sh.kind, descRay3(sh.name, r, "on-surface/second"), o)
		if o.failure != "" {
			continue
		}
		for _, t := range o.ts {
			if !finite(t) {
				continue
			}
			p := r.Origin.Add(r.Direction.Scale(t))
			reach := r.Origin.Dist(p) + sh.scale + p.Norm()
			res := math.Abs(sh.resid(p))
			c.Stat("onsurface.hits."+sh.kind, 1)
			if !(res <= 1e-7*reach) {
				c.PropFail(surfaceSite(sh, r, ""),
					fmt.Sprintf("t=%v point=%v residual=%v %s", t, p, res, descRay3(sh.name, r, "on-surface/second")))
			}
		}
	}
	for i := 0; i < n/2; i++ {
		sh := mkCapsule2(c)
		min, max := sh.col.Min(), sh.col.Max()
		o2 := randIn2(c, min, max, 1.0)
		r2 := &model2d.Ray{Origin: o2, Direction: randIn2(c, min, max, 0).Sub(o2)}
		rc, ok := sh.col.FirstRayCollision(r2)
		if !ok || !finite(rc.Scale) {
			continue
		}
		origin := o2.Add(r2.Direction.Scale(rc.Scale))
		dir := randIn2(c, min, max, 0).Sub(origin)
		if c.Rng.Intn(3) == 0 {
			dir = model2d.X(float64(1 - 2*c.Rng.Intn(2)))
		}
		if dir.Norm() < 1e-9 {
			continue
		}
		dir = dir.Normalize().Scale(nonUnitScale(c))
		r := &model2d.Ray{Origin: origin, Direction: dir}
		o := observe2(sh.col, r)
		checkContract(c, "2", sh.kind, descRay2(sh.name, r, "on-surface/second"), o)
		if o.failure != "" {
			continue
		}
		for _, t := range o.ts {
			if !finite(t) {
				continue
			}
			p := r.Origin.Add(r.Direction.Scale(t))
			reach := r.Origin.Dist(p) + sh.scale + p.Norm()
			res := math.Abs(sh.resid(p))
			c.Stat("onsurface.hits."+sh.kind, 1)
			if !(res <= 1e-7*reach) {
				c.PropFail("c07:hit-not-on-surface/"+sh.kind,
					fmt.Sprintf("t=%v point=%v residual=%v %s", t, p, res, descRay2(sh.name, r, "on-surface/second")))
			}
		}
	}
}
