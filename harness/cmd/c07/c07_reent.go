package main

// Re-entrant callbacks (reent3 / reent2, and the active-callback variants profrx / joinrx of the exact kinds) and
// rays with a scaled direction (scale3 / scale2, and the extreme-scale classes of seg2b / seg2x / profx / parity).
//
//   - reent: the enumeration RayCollisions(r, f) is a function of (collider, ray) only: a callback that makes
//     secondary queries against the SAME collider before it returns (the primary ray again, FirstRayCollision, the count
//     without a callback, a ball query, a ray from a light towards the origin and - last - the shadow ray from the hit
//     point; one more level of nesting inside the nested enumerations) must be handed exactly the collisions a passive callback is handed, the count must be the
//     same, and every nested query must be answered as the same query is answered outside of any enumeration
//     (M3d.C07.callbacks_cannot_influence, reent_obs).  Single goroutine, deterministic.
//   - scale: RayCollisions(c, (o, k*d)) reports the collisions of RayCollisions(c, (o, d)) with every parameter divided
//     by k, and the same normals (M3d.C07.ray_scale_invariant_*); tested at k = 2^j, |j| = 10..30, where every float
//     operation of the (homogeneous) collider code scales exactly, so the comparison is bit for bit.

import (
	"fmt"
	"math"
	"strings"
	"time"

	"github.com/unixpickle/model3d/model2d"
	"github.com/unixpickle/model3d/model3d"
	"verif/harness/hlib"
)

// ---------------------------------------------------------------- tokens

func hitTok(t float64, n [3]float64, dim int) string {
	parts := []string{hx(t)}
	for i := 0; i < dim; i++ {
		parts = append(parts, hx(n[i]))
	}
	return strings.Join(parts, ":")
}

const maxNested = 160 // nested queries per case; afterwards the callbacks turn passive

// ---------------------------------------------------------------- 3-D

type query3 struct {
	kind   int // 0 RayCollisions(ray, recorder)  1 FirstRayCollision(ray)  2 RayCollisions(ray, nil)  3 SphereCollision
	ray    model3d.Ray
	center v3
	radius float64
}

// exec3 answers one query; inner (may be nil) is run inside the callbacks of a kind-0 query.
func exec3(col model3d.Collider, q query3, ndim int, inner func(model3d.RayCollision)) []string {
	switch q.kind {
	case 0:
		var toks []string
		r := q.ray
		n := col.RayCollisions(&r, func(rc model3d.RayCollision) {
			toks = append(toks, hitTok(rc.Scale, rc.Normal.Array(), ndim))
			if inner != nil {
				inner(rc)
			}
		})
		return append([]string{fmt.Sprintf("#%d", n)}, toks...)
	case 1:
		r := q.ray
		rc, ok := col.FirstRayCollision(&r)
		if !ok {
			return []string{"F0"}
		}
		return []string{"F1:" + hitTok(rc.Scale, rc.Normal.Array(), ndim)}
	case 2:
		r := q.ray
		return []string{fmt.Sprintf("#%d", col.RayCollisions(&r, nil))}
	default:
		return []string{"b" + b01(col.SphereCollision(q.center, q.radius))}
	}
}

type reentLog3 struct {
	col  model3d.Collider
	ndim int // components of the normal that are compared (0 for SolidCollider, whose normals are sampled with math/rand)
	qs  []query3
	res [][]string
}

// do makes a nested query and logs its answer; kind-0 queries at depth 1 nest one more level.
func (l *reentLog3) do(q query3, depth int) {
	if len(l.qs) >= maxNested {
		return
	}
	idx := len(l.qs)
	l.qs = append(l.qs, q)
	l.res = append(l.res, nil)
	var inner func(model3d.RayCollision)
	if q.kind == 0 && depth < 2 {
		inner = func(model3d.RayCollision) {
			l.do(query3{kind: 1, ray: q.ray}, depth+1)
			l.do(query3{kind: 2, ray: q.ray}, depth+1)
		}
	}
	l.res[idx] = exec3(l.col, q, l.ndim, inner)
}

type reentObs struct {
	nA       int
	active   []string
	ats      []float64
	ans      [][3]float64
	nested   []string // answers inside the callbacks, flattened
	outside  []string // the same queries repeated at top level with passive callbacks
	nQueries int
	failure  string
}

// activeObserve3: RayCollisions(r, f) with a callback f that queries the same collider before it returns.
func activeObserve3(col model3d.Collider, r *model3d.Ray, lights []v3, ballR float64, ndim int) reentObs {
	var o reentObs
	lg := &reentLog3{col: col, ndim: ndim}
	res := withTimeout(40*time.Second, func() string {
		i := 0
		o.nA = col.RayCollisions(r, func(rc model3d.RayCollision) {
			o.active = append(o.active, hitTok(rc.Scale, rc.Normal.Array(), ndim))
			o.ats = append(o.ats, rc.Scale)
			o.ans = append(o.ans, rc.Normal.Array())
			// first the primary ray itself once more (enumerated, first collision, count), then - LAST, so that whatever
			// the collider may share between queries is left in the state of a DIFFERENT ray when the outer enumeration
			// resumes - a ball query, a ray back towards the origin side and the shadow ray from the hit point
			lg.do(query3{kind: 0, ray: *r}, 2)
			lg.do(query3{kind: 1, ray: *r}, 2)
			lg.do(query3{kind: 2, ray: *r}, 2)
			p := r.Origin.Add(r.Direction.Scale(rc.Scale))
			if finite(p.X, p.Y, p.Z) {
				lg.do(query3{kind: 3, center: p, radius: ballR}, 1)
				l := lights[i%len(lights)]
				l2 := lights[(i+1)%len(lights)]
				if d := l2.Sub(r.Origin); d.Norm() > 0 {
					lg.do(query3{kind: 0, ray: model3d.Ray{Origin: l2, Direction: r.Origin.Sub(l2)}}, 2)
				}
				if d := l.Sub(p); d.Norm() > 0 {
					lg.do(query3{kind: 0, ray: model3d.Ray{Origin: p, Direction: d}}, 1) // shadow ray
				}
			}
			i++
		})
		return "ok"
	})
	if res != "ok" {
		o.failure = "active:" + res
		return o
	}
	o.nQueries = len(lg.qs)
	res = withTimeout(40*time.Second, func() string {
		for k, q := range lg.qs {
			o.nested = append(o.nested, lg.res[k]...)
			o.nested = append(o.nested, "|")
			o.outside = append(o.outside, exec3(col, q, ndim, nil)...)
			o.outside = append(o.outside, "|")
		}
		return "ok"
	})
	if res != "ok" {
		o.failure = "outside:" + res
	}
	return o
}

func eqToks(a, b []string) bool {
	if len(a) != len(b) {
		return false
	}
	for i := range a {
		if a[i] != b[i] {
			return false
		}
	}
	return true
}

// checkReent: Go-side clauses (PropFail) and the op line for the Lean-side verdict (M3d.Col.reentVerdict).
func checkReent(c *hlib.Ctx, dim string, kind string, desc string, passive obs, act reentObs, d int) {
	site := "c07:reentrant/" + kind
	corr := "corr:c07 reent/" + kind
	if passive.failure != "" || act.failure != "" {
		c.PropFail(site+"/panic-or-timeout", passive.failure+" "+act.failure+" "+desc)
		c.EmitSite(fmt.Sprintf("c07 reent%s %s fail", dim, kind), "ok", corr)
		return
	}
	var ptoks []string
	for i, t := range passive.ts {
		ptoks = append(ptoks, hitTok(t, passive.ns[i], d))
	}
	if act.nA != len(act.active) {
		c.PropFail(site+"/count-vs-callbacks", fmt.Sprintf("count=%d callbacks=%d (active callback) %s", act.nA, len(act.active), desc))
	}
	if act.nA != passive.n1 || act.nA != passive.n0 {
		c.PropFail(site+"/count-differs-with-active-callback",
			fmt.Sprintf("count(active callback)=%d count(passive callback)=%d count(nil)=%d %s", act.nA, passive.n1, passive.n0, desc))
	}
	if !eqToks(ptoks, act.active) {
		c.PropFail(site+"/enumeration-differs-with-active-callback",
			fmt.Sprintf("passive callback saw t=%v, a callback that queries the same collider saw t=%v %s", passive.ts, act.ats, desc))
	}
	if !eqToks(act.nested, act.outside) {
		c.PropFail(site+"/nested-query-differs",
			fmt.Sprintf("a query made inside the callback was answered differently outside: inside=%v outside=%v %s",
				firstDiff(act.nested, act.outside), firstDiff(act.outside, act.nested), desc))
	}
	c.Stat("reent."+kind, 1)
	c.Stat(fmt.Sprintf("reent.hits.%d", minInt(passive.n1, 5)), 1)
	c.Stat("reent.nested-queries", act.nQueries)
	parts := []string{"c07", "reent" + dim, kind, "P", fmt.Sprint(passive.n1), fmt.Sprint(len(ptoks))}
	parts = append(parts, ptoks...)
	parts = append(parts, "A", fmt.Sprint(act.nA), fmt.Sprint(len(act.active)))
	parts = append(parts, act.active...)
	parts = append(parts, "I", fmt.Sprint(len(act.nested)))
	parts = append(parts, act.nested...)
	parts = append(parts, "O", fmt.Sprint(len(act.outside)))
	parts = append(parts, act.outside...)
	c.EmitSite(strings.Join(parts, " "), "ok", corr)
}

// firstDiff: a short window of a around the first position where a and b differ
func firstDiff(a, b []string) []string {
	i := 0
	for i < len(a) && i < len(b) && a[i] == b[i] {
		i++
	}
	lo, hi := i-2, i+4
	if lo < 0 {
		lo = 0
	}
	if hi > len(a) {
		hi = len(a)
	}
	return a[lo:hi]
}

func lights3(c *hlib.Ctx, col model3d.Collider) []v3 {
	min, max := col.Min(), col.Max()
	if min == max {
		max = min.AddScalar(1)
	}
	return []v3{randIn3(c, min, max, 1.5), randIn3(c, min, max, 0), randIn3(c, min, max, 3)}
}

// runReent3: every 3-D collider kind.
func runReent3(c *hlib.Ctx, n int) {
	for i := 0; i < n; {
		var sh *shape3
		switch c.Rng.Intn(4) {
		case 0:
			sh = mkProfile(c)
		default:
			sh = mkShape3(c)
		}
		rays := 3
		if sh.approx {
			rays = 1
		}
		lights := lights3(c, sh.col)
		for j := 0; j < rays && i < n; j++ {
			i++
			r, class := genRaySh3(c, sh)
			passive := observe3(sh.col, r)
			ndim := 3
			if sh.approx {
				ndim = 0 // SolidCollider samples its normals with math/rand: only the parameters are a function of the ray
			}
			act := activeObserve3(sh.col, r, lights, sh.scale*(0.01+0.3*c.Rng.Float64()), ndim)
			checkReent(c, "3", sh.kind, descRay3(sh.name, r, class), passive, act, ndim)
		}
	}
}

// ---------------------------------------------------------------- 2-D

type query2 struct {
	kind   int
	ray    model2d.Ray
	center v2
	radius float64
}

func n2arr(n v2) [3]float64 { return [3]float64{n.X, n.Y, 0} }

func exec2(col model2d.Collider, q query2, inner func(model2d.RayCollision)) []string {
	switch q.kind {
	case 0:
		var toks []string
		r := q.ray
		n := col.RayCollisions(&r, func(rc model2d.RayCollision) {
			toks = append(toks, hitTok(rc.Scale, n2arr(rc.Normal), 2))
			if inner != nil {
				inner(rc)
			}
		})
		return append([]string{fmt.Sprintf("#%d", n)}, toks...)
	case 1:
		r := q.ray
		rc, ok := col.FirstRayCollision(&r)
		if !ok {
			return []string{"F0"}
		}
		return []string{"F1:" + hitTok(rc.Scale, n2arr(rc.Normal), 2)}
	case 2:
		r := q.ray
		return []string{fmt.Sprintf("#%d", col.RayCollisions(&r, nil))}
	default:
		return []string{"b" + b01(col.CircleCollision(q.center, q.radius))}
	}
}

type reentLog2 struct {
	col model2d.Collider
	qs  []query2
	res [][]string
}

func (l *reentLog2) do(q query2, depth int) {
	if len(l.qs) >= maxNested {
		return
	}
	idx := len(l.qs)
	l.qs = append(l.qs, q)
	l.res = append(l.res, nil)
	var inner func(model2d.RayCollision)
	if q.kind == 0 && depth < 2 {
		inner = func(model2d.RayCollision) {
			l.do(query2{kind: 1, ray: q.ray}, depth+1)
			l.do(query2{kind: 2, ray: q.ray}, depth+1)
		}
	}
	l.res[idx] = exec2(l.col, q, inner)
}

func activeObserve2(col model2d.Collider, r *model2d.Ray, lights []v2, ballR float64) reentObs {
	var o reentObs
	lg := &reentLog2{col: col}
	res := withTimeout(40*time.Second, func() string {
		i := 0
		o.nA = col.RayCollisions(r, func(rc model2d.RayCollision) {
			o.active = append(o.active, hitTok(rc.Scale, n2arr(rc.Normal), 2))
			o.ats = append(o.ats, rc.Scale)
			o.ans = append(o.ans, n2arr(rc.Normal))
			lg.do(query2{kind: 0, ray: *r}, 2)
			lg.do(query2{kind: 1, ray: *r}, 2)
			lg.do(query2{kind: 2, ray: *r}, 2)
			p := r.Origin.Add(r.Direction.Scale(rc.Scale))
			if finite(p.X, p.Y) {
				lg.do(query2{kind: 3, center: p, radius: ballR}, 1)
				l := lights[i%len(lights)]
				l2 := lights[(i+1)%len(lights)]
				if d := l2.Sub(r.Origin); d.Norm() > 0 {
					lg.do(query2{kind: 0, ray: model2d.Ray{Origin: l2, Direction: r.Origin.Sub(l2)}}, 2)
				}
				if d := l.Sub(p); d.Norm() > 0 {
					lg.do(query2{kind: 0, ray: model2d.Ray{Origin: p, Direction: d}}, 1) // shadow ray
				}
			}
			i++
		})
		return "ok"
	})
	if res != "ok" {
		o.failure = "active:" + res
		return o
	}
	o.nQueries = len(lg.qs)
	res = withTimeout(40*time.Second, func() string {
		for k, q := range lg.qs {
			o.nested = append(o.nested, lg.res[k]...)
			o.nested = append(o.nested, "|")
			o.outside = append(o.outside, exec2(col, q, nil)...)
			o.outside = append(o.outside, "|")
		}
		return "ok"
	})
	if res != "ok" {
		o.failure = "outside:" + res
	}
	return o
}

func runReent2(c *hlib.Ctx, n int) {
	for i := 0; i < n; {
		sh := mkShape2(c)
		min, max := sh.col.Min(), sh.col.Max()
		if min == max {
			max = min.AddScalar(1)
		}
		lights := []v2{randIn2(c, min, max, 1.5), randIn2(c, min, max, 0), randIn2(c, min, max, 3)}
		for j := 0; j < 3 && i < n; j++ {
			i++
			r, class := genRay2(c, sh.col)
			passive := observe2(sh.col, r)
			act := activeObserve2(sh.col, r, lights, sh.scale*(0.01+0.3*c.Rng.Float64()))
			checkReent(c, "2", sh.kind, descRay2(sh.name, r, class), passive, act, 2)
		}
	}
}

// obsFromActive3: the observation of the exact kinds (profrx, joinrx) made with an ACTIVE callback: the callbacks
// are those handed to a callback that queries the same collider; the count without a callback and the first
// collision are taken afterwards.
func obsFromActive3(c *hlib.Ctx, col model3d.Collider, r *model3d.Ray) obs {
	act := activeObserve3(col, r, lights3(c, col), 0.25, 3)
	var o obs
	if act.failure != "" {
		o.failure = act.failure
		return o
	}
	o.n1, o.ts, o.ns = act.nA, act.ats, act.ans
	res := withTimeout(20*time.Second, func() string {
		o.n0 = col.RayCollisions(r, nil)
		rc, ok := col.FirstRayCollision(r)
		o.ok, o.first, o.firstN = ok, rc.Scale, rc.Normal.Array()
		return "ok"
	})
	if res != "ok" {
		o.failure = "after-active:" + res
	}
	return o
}

// ---------------------------------------------------------------- scaled directions

// extremeK: 2^j with |j| in 10..30 (direction norms 1e-9 .. 1e-3 and 1e3 .. 1e9 for directions of ordinary length)
func extremeK(c *hlib.Ctx) float64 {
	j := 10 + c.Rng.Intn(21)
	if c.Rng.Intn(2) == 0 {
		j = -j
	}
	return math.Ldexp(1, j)
}

// extremeScale: an arbitrary (not power-of-two) factor in 1e-9 .. 1e-3 or 1e3 .. 1e9
func extremeScale(c *hlib.Ctx) float64 {
	e := 3 + 6*c.Rng.Float64()
	if c.Rng.Intn(2) == 0 {
		e = -e
	}
	return math.Pow(10, e)
}

// exactScaleKind: the collider's arithmetic is homogeneous in the direction and made of + - * / sqrt only, so a
// power-of-two factor goes through exactly.  Not so: the quartic root finder of the Torus (complex cube roots,
// Newton polishing) and SolidCollider (ray marching with a step proportional to Epsilon / |d|).
// Nor the wrappers over a translation: transformedCollider.innerRay computes the direction as
// inv.Apply(d) - inv.Apply(0) = (d - offset) + offset, which rounds differently for d and k*d.
func exactScaleKind(sh *shape3) bool {
	return !sh.approx && !strings.Contains(sh.name, "Torus") && !strings.Contains(sh.name, "Translate")
}

func runScale3(c *hlib.Ctx, n int) {
	for i := 0; i < n; {
		var sh *shape3
		switch c.Rng.Intn(5) {
		case 0:
			sh = mkProfile(c)
		default:
			sh = mkShape3(c)
		}
		if !exactScaleKind(sh) {
			continue
		}
		for j := 0; j < 3 && i < n; j++ {
			i++
			r, class := genRaySh3(c, sh)
			if sh.proj2 != nil && c.Rng.Intn(3) == 0 {
				// nearly vertical through a profile collider: a tiny xy component
				r.Direction = model3d.XYZ(r.Direction.X*math.Ldexp(1, -40-c.Rng.Intn(20)), r.Direction.Y*math.Ldexp(1, -40-c.Rng.Intn(20)),
					float64(1-2*c.Rng.Intn(2))*(0.5+c.Rng.Float64()))
				class += "/nearly-vertical"
			}
			k := extremeK(c)
			r2 := &model3d.Ray{Origin: r.Origin, Direction: r.Direction.Scale(k)}
			base := observe3(sh.col, r)
			sc := observe3(sh.col, r2)
			if base.failure != "" || sc.failure != "" {
				c.PropFail("c07:contract/"+sh.kind+"/panic-or-timeout", base.failure+" "+sc.failure+" "+descRay3(sh.name, r2, class))
				continue
			}
			if !finite(base.ts...) || !finite(sc.ts...) {
				continue // reported by the contract kinds
			}
			c.Stat("scale."+sh.kind, 1)
			c.Stat(fmt.Sprintf("scale.hits.%d", minInt(base.n1, 5)), 1)
			if k < 1 {
				c.Stat("scale.tiny-direction", 1)
			} else {
				c.Stat("scale.huge-direction", 1)
			}
			want := normWS(scaledRunStr(base, k, 3))
			got := normWS(runStr(hx, sc, 3))
			if want != got {
				c.PropFail("c07:direction-scale/"+sh.kind, fmt.Sprintf("k=%g: RayCollisions(o, d) reported t=%v first=%v/%v, RayCollisions(o, k*d) reported t=%v first=%v/%v (must be t/k) %s",
					k, base.ts, base.ok, base.first, sc.ts, sc.ok, sc.first, descRay3(sh.name, r, class)))
			}
			c.EmitSite(fmt.Sprintf("c07 scale3 %s %s %s", sh.kind, hx(k), runStr(hx, base, 3)), got, "corr:c07 scale/"+sh.kind)
		}
	}
}

func normWS(s string) string { return strings.Join(strings.Fields(s), " ") }

// scaledRunStr: runStr of the observation with every parameter divided by k (exact for a power of two)
func scaledRunStr(o obs, k float64, dim int) string {
	s := o
	s.ts = nil
	for _, t := range o.ts {
		s.ts = append(s.ts, t/k)
	}
	s.first = o.first / k
	if !o.ok {
		s.first = o.first
	}
	return runStr(hx, s, dim)
}

func runScale2(c *hlib.Ctx, n int) {
	for i := 0; i < n; {
		sh := mkShape2(c)
		if strings.Contains(sh.name, "Translate") {
			continue // see exactScaleKind
		}
		for j := 0; j < 3 && i < n; j++ {
			i++
			r, class := genRay2(c, sh.col)
			k := extremeK(c)
			r2 := &model2d.Ray{Origin: r.Origin, Direction: r.Direction.Scale(k)}
			base := observe2(sh.col, r)
			sc := observe2(sh.col, r2)
			if base.failure != "" || sc.failure != "" {
				c.PropFail("c07:contract/"+sh.kind+"/panic-or-timeout", base.failure+" "+sc.failure+" "+descRay2(sh.name, r2, class))
				continue
			}
			if !finite(base.ts...) || !finite(sc.ts...) {
				continue
			}
			c.Stat("scale."+sh.kind, 1)
			want := normWS(scaledRunStr(base, k, 2))
			got := normWS(runStr(hx, sc, 2))
			if want != got {
				c.PropFail("c07:direction-scale/"+sh.kind, fmt.Sprintf("k=%g: RayCollisions(o, d) reported t=%v first=%v/%v, RayCollisions(o, k*d) reported t=%v first=%v/%v (must be t/k) %s",
					k, base.ts, base.ok, base.first, sc.ts, sc.ok, sc.first, descRay2(sh.name, r, class)))
			}
			c.EmitSite(fmt.Sprintf("c07 scale2 %s %s %s", sh.kind, hx(k), runStr(hx, base, 2)), got, "corr:c07 scale/"+sh.kind)
		}
	}
}

// ---------------------------------------------------------------- extreme scales on the 2-D segment (bits and exact)

// runSeg2Extreme: 2-D Segment.RayCollisions with tiny / huge direction vectors and tiny / huge segments,
// bit for bit against the Float model (seg2b) and exactly against the Rat model (seg2x, power-of-two factors).
func runSeg2Extreme(c *hlib.Ctx, n int) {
	for i := 0; i < n; i++ {
		// bits: arbitrary doubles
		s := &model2d.Segment{rnd2(c), rnd2(c)}
		if s.Length() < 1e-3 {
			continue
		}
		o := randIn2(c, s.Min(), s.Max().AddScalar(0.1), 1.0)
		d := s[0].Add(s[1].Sub(s[0]).Scale(c.Rng.Float64()*1.4 - 0.2)).Sub(o)
		if d.Norm() < 1e-9 {
			d = model2d.XY(1, -3)
		}
		class := ""
		switch c.Rng.Intn(3) {
		case 0:
			d = d.Scale(extremeScale(c))
			class = "extreme-direction"
		case 1:
			g := extremeScale(c)
			s = &model2d.Segment{s[0].Scale(g), s[1].Scale(g)}
			o = o.Scale(g)
			class = "extreme-geometry"
		default:
			g := extremeScale(c)
			s = &model2d.Segment{s[0].Scale(g), s[1].Scale(g)}
			o = o.Scale(g)
			d = d.Scale(g * extremeScale(c))
			class = "extreme-both"
		}
		if !finite(d.X, d.Y, o.X, o.Y) || d.Norm() == 0 {
			continue
		}
		r := &model2d.Ray{Origin: o, Direction: d}
		ob := observe2(s, r)
		c.Stat("seg2b."+class, 1)
		c.Stat(fmt.Sprintf("seg2b.extreme.hits.%d", ob.n1), 1)
		c.Emit(fmt.Sprintf("c07 seg2b %s %s %s %s", v2Tok(hx, s[0]), v2Tok(hx, s[1]), v2Tok(hx, o), v2Tok(hx, d)), runStr(hx, ob, 2))
	}
	for i := 0; i < n; i++ {
		// exact: the seg2x family with power-of-two factors on the direction and on the geometry
		a := dy2(c)
		var b v2
		if c.Rng.Intn(2) == 0 {
			b = a.Add(model2d.X(spow2(c, -1, 2)))
		} else {
			b = a.Add(model2d.Y(spow2(c, -1, 2)))
		}
		d := pdir2(c)
		tgt := a.Add(b.Sub(a).Scale(float64(c.Rng.Intn(7)-1) / 4))
		o := tgt.Sub(d.Scale(float64(c.Rng.Intn(9)-2) / 2))
		g := 1.0
		if c.Rng.Intn(2) == 0 {
			g = extremeK(c)
		}
		a, b, o = a.Scale(g), b.Scale(g), o.Scale(g)
		d = d.Scale(g * extremeK(c))
		s := &model2d.Segment{a, b}
		r := &model2d.Ray{Origin: o, Direction: d}
		ob := observe2(s, r)
		c.Stat(fmt.Sprintf("seg2x.extreme.hits.%d", ob.n1), 1)
		c.Emit(fmt.Sprintf("c07 seg2x %s %s %s %s", v2Tok(rs, a), v2Tok(rs, b), v2Tok(rs, o), v2Tok(rs, d)), runStr(rs, ob, 2))
	}
}

func runReentScale(c *hlib.Ctx, n int) {
	runReent3(c, 2*n)
	runReent2(c, n)
	runScale3(c, 2*n)
	runScale2(c, n)
	runSeg2Extreme(c, n)
}
