package main

import (
	"fmt"
	"math"
	"math/big"
	"sort"
	"strings"

	"github.com/unixpickle/model3d/model2d"
	"github.com/unixpickle/model3d/model3d"
	"verif/harness/hlib"
)

// ---------------------------------------------------------------- formatting of runs

type fmtF func(float64) string

func hitStr(f fmtF, t float64, n [3]float64, dim int) string {
	parts := []string{f(t)}
	for i := 0; i < dim; i++ {
		parts = append(parts, f(n[i]))
	}
	return strings.Join(parts, " ")
}

// runStr: "n0 n1 T hit ... F (0 | 1 hit)" in callback order.
func runStr(f fmtF, o obs, dim int) string {
	if o.failure != "" {
		return "failure:" + o.failure
	}
	var hits []string
	for i, t := range o.ts {
		hits = append(hits, "T "+hitStr(f, t, o.ns[i], dim))
	}
	first := "F 0"
	if o.ok {
		first = "F 1 " + hitStr(f, o.first, o.firstN, dim)
	}
	return fmt.Sprintf("%d %d %s %s", o.n0, o.n1, strings.Join(hits, " "), first)
}

// runStrSorted: callbacks in canonical order (t, normal), first collision by parameter only.
func runStrSorted(f fmtF, o obs, dim int) string {
	if o.failure != "" {
		return "failure:" + o.failure
	}
	idx := make([]int, len(o.ts))
	for i := range idx {
		idx[i] = i
	}
	sort.SliceStable(idx, func(a, b int) bool {
		i, j := idx[a], idx[b]
		if o.ts[i] != o.ts[j] {
			return o.ts[i] < o.ts[j]
		}
		for k := 0; k < 3; k++ {
			if o.ns[i][k] != o.ns[j][k] {
				return o.ns[i][k] < o.ns[j][k]
			}
		}
		return false
	})
	var hits []string
	for _, i := range idx {
		hits = append(hits, "T "+hitStr(f, o.ts[i], o.ns[i], dim))
	}
	first := "F 0"
	if o.ok {
		first = "F 1 " + f(o.first)
	}
	return fmt.Sprintf("%d %d %s %s", o.n0, o.n1, strings.Join(hits, " "), first)
}

// ---------------------------------------------------------------- exact-mode generators

func pow2(c *hlib.Ctx, lo, hi int) float64 {
	return math.Ldexp(1, lo+c.Rng.Intn(hi-lo+1))
}

func spow2(c *hlib.Ctx, lo, hi int) float64 {
	v := pow2(c, lo, hi)
	if c.Rng.Intn(2) == 0 {
		return -v
	}
	return v
}

func dy(c *hlib.Ctx) float64 { return c.Dyadic(4, 3) }

func dy3(c *hlib.Ctx) v3 { return model3d.XYZ(dy(c), dy(c), dy(c)) }
func dy2(c *hlib.Ctx) v2 { return model2d.XY(dy(c), dy(c)) }

// pdir3: direction with components 0 or ±2^k, not all zero — deliberately not unit, not axis-aligned.
func pdir3(c *hlib.Ctx) v3 {
	for {
		var a [3]float64
		for i := range a {
			if c.Rng.Intn(4) != 0 {
				a[i] = spow2(c, -2, 3)
			}
		}
		if a != [3]float64{} {
			return model3d.NewCoord3DArray(a)
		}
	}
}

func pdir2(c *hlib.Ctx) v2 {
	for {
		d := model2d.XY(0, 0)
		if c.Rng.Intn(4) != 0 {
			d.X = spow2(c, -2, 3)
		}
		if c.Rng.Intn(4) != 0 {
			d.Y = spow2(c, -2, 3)
		}
		if d.X != 0 || d.Y != 0 {
			return d
		}
	}
}

// axis-aligned right triangle with power-of-two legs
func ptri(c *hlib.Ctx) *model3d.Triangle {
	a := dy3(c)
	i := c.Rng.Intn(3)
	j := (i + 1 + c.Rng.Intn(2)) % 3
	var e1, e2 [3]float64
	e1[i] = spow2(c, -1, 2)
	e2[j] = spow2(c, -1, 2)
	return &model3d.Triangle{a, a.Add(model3d.NewCoord3DArray(e1)), a.Add(model3d.NewCoord3DArray(e2))}
}

func triTokens(f fmtF, t *model3d.Triangle) string {
	var parts []string
	for _, p := range t {
		parts = append(parts, f(p.X), f(p.Y), f(p.Z))
	}
	return strings.Join(parts, " ")
}

func v3Tok(f fmtF, p v3) string { return f(p.X) + " " + f(p.Y) + " " + f(p.Z) }
func v2Tok(f fmtF, p v2) string { return f(p.X) + " " + f(p.Y) }

func triBary(f fmtF, t *model3d.Triangle, r *model3d.Ray) string {
	ok, b1, b2, s := model3d.VerifTriangleRayCollision(t, r)
	if !ok {
		return "B 0"
	}
	return fmt.Sprintf("B 1 %s %s %s", f(b1), f(b2), f(s))
}

// aimAt: an origin from which direction d (scaled by a dyadic) reaches the dyadic point p
func originToward(c *hlib.Ctx, p, d v3) v3 {
	k := float64(c.Rng.Intn(8)-1) / 2 // -1/2 .. 3 in halves: also starts beyond / on the target
	return p.Sub(d.Scale(k))
}

func runExact(c *hlib.Ctx, n int) {
	// --- Rect
	for i := 0; i < n; i++ {
		lo := dy3(c)
		hi := lo.Add(model3d.XYZ(pow2(c, -2, 2)*float64(1+c.Rng.Intn(3)), pow2(c, -2, 2)*float64(1+c.Rng.Intn(3)), pow2(c, -2, 2)*float64(1+c.Rng.Intn(3))))
		rect := model3d.NewRect(lo, hi)
		d := pdir3(c)
		var o v3
		switch c.Rng.Intn(4) {
		case 0:
			o = dy3(c)
		case 1: // inside
			o = lo.Mid(hi)
		case 2: // on a face / corner
			o = lo
			if c.Rng.Intn(2) == 0 {
				o = model3d.XYZ(lo.X, lo.Mid(hi).Y, hi.Z)
			}
		default:
			tgt := model3d.XYZ(lo.X+(hi.X-lo.X)*float64(c.Rng.Intn(5))/4, lo.Y+(hi.Y-lo.Y)*float64(c.Rng.Intn(5))/4, lo.Z+(hi.Z-lo.Z)*float64(c.Rng.Intn(5))/4)
			o = originToward(c, tgt, d)
		}
		r := &model3d.Ray{Origin: o, Direction: d}
		ob := observe3(rect, r)
		c.Stat(fmt.Sprintf("rectx.hits.%d", ob.n1), 1)
		c.Emit(fmt.Sprintf("c07 rectx %s %s %s %s", v3Tok(rs, lo), v3Tok(rs, hi), v3Tok(rs, o), v3Tok(rs, d)), runStr(rs, ob, 3))
	}
	// --- Triangle
	for i := 0; i < n; i++ {
		t := ptri(c)
		d := pdir3(c)
		var o v3
		if c.Rng.Intn(3) == 0 {
			o = dy3(c)
		} else {
			// aim at a dyadic point of the triangle's plane, inside, on an edge/vertex or outside
			u, v := float64(c.Rng.Intn(5)-1)/4, float64(c.Rng.Intn(5)-1)/4
			if c.Rng.Intn(2) == 0 {
				u, v = float64(1+c.Rng.Intn(3))/8, float64(1+c.Rng.Intn(3))/8 // strictly inside
			}
			if c.Rng.Intn(5) == 0 {
				// a hair (2^-28 .. 2^-36 in barycentric units, far above rounding: everything stays exact)
				// outside or inside one of the three edges
				h := math.Ldexp(1, -28-c.Rng.Intn(9)) * float64(1-2*c.Rng.Intn(2))
				u, v = float64(1+c.Rng.Intn(3))/8, float64(1+c.Rng.Intn(3))/8
				switch c.Rng.Intn(3) {
				case 0:
					u = h
				case 1:
					v = h
				default:
					v = 1 - u + h
				}
				c.Stat("trix.next-to-an-edge", 1)
			}
			tgt := t[0].Add(t[1].Sub(t[0]).Scale(u)).Add(t[2].Sub(t[0]).Scale(v))
			o = originToward(c, tgt, d)
		}
		r := &model3d.Ray{Origin: o, Direction: d}
		ob := observe3(t, r)
		c.Stat(fmt.Sprintf("trix.hits.%d", ob.n1), 1)
		c.Emit(fmt.Sprintf("c07 trix %s %s %s", triTokens(rs, t), v3Tok(rs, o), v3Tok(rs, d)), runStr(rs, ob, 3)+" "+triBary(rs, t, r))
	}
	// --- 2-D Segment
	for i := 0; i < n; i++ {
		a := dy2(c)
		var b v2
		if c.Rng.Intn(2) == 0 {
			b = a.Add(model2d.X(spow2(c, -1, 2)))
		} else {
			b = a.Add(model2d.Y(spow2(c, -1, 2)))
		}
		s := &model2d.Segment{a, b}
		d := pdir2(c)
		var o v2
		if c.Rng.Intn(3) == 0 {
			o = dy2(c)
		} else {
			tgt := a.Add(b.Sub(a).Scale(float64(c.Rng.Intn(7)-1) / 4))
			o = tgt.Sub(d.Scale(float64(c.Rng.Intn(9)-2) / 2))
		}
		r := &model2d.Ray{Origin: o, Direction: d}
		ob := observe2(s, r)
		c.Stat(fmt.Sprintf("seg2x.hits.%d", ob.n1), 1)
		c.Emit(fmt.Sprintf("c07 seg2x %s %s %s %s", v2Tok(rs, a), v2Tok(rs, b), v2Tok(rs, o), v2Tok(rs, d)), runStr(rs, ob, 2))
	}
	// --- triangle soups through the real mesh colliders
	for i := 0; i < n; i++ {
		var tris []*model3d.Triangle
		kindName := ""
		if c.Rng.Intn(2) == 0 {
			// a closed box mesh with power-of-two sides
			lo := dy3(c)
			hi := lo.Add(model3d.XYZ(pow2(c, -1, 2), pow2(c, -1, 2), pow2(c, -1, 2)))
			tris = model3d.NewMeshRect(lo, hi).TriangleSlice()
			kindName = "boxmesh"
		} else {
			k := c.Rng.Intn(7)
			for j := 0; j < k; j++ {
				tris = append(tris, ptri(c))
			}
			kindName = "random"
		}
		// only soups of the exact family (axis-aligned right triangles with power-of-two legs)
		okFam := true
		for _, t := range tris {
			e1, e2 := t[1].Sub(t[0]), t[2].Sub(t[0])
			if !axisPow2(e1) || !axisPow2(e2) {
				okFam = false
			}
		}
		if !okFam {
			// NewMeshRect triangulates faces with a diagonal: legs are t[0]->t[1], t[0]->t[2] only for
			// some vertex orders; rotate the triangle so that the right angle comes first.
			for _, t := range tris {
				for rot := 0; rot < 3; rot++ {
					e1, e2 := t[1].Sub(t[0]), t[2].Sub(t[0])
					if axisPow2(e1) && axisPow2(e2) {
						break
					}
					*t = model3d.Triangle{t[1], t[2], t[0]}
				}
			}
		}
		var col model3d.Collider
		switch c.Rng.Intn(5) {
		case 0:
			col = model3d.MeshToCollider(model3d.NewMeshTriangles(tris))
		case 1:
			col = model3d.GroupedTrianglesToCollider(append([]*model3d.Triangle{}, tris...))
		case 2, 3:
			// a hand-built BVH with branches of 2..6 children (bvh_ray_collisions: still every triangle)
			if len(tris) > 0 {
				col, _, _, _ = wideBVH3(c, "joinx", tris)
			} else {
				col = model3d.GroupedTrianglesToCollider(nil)
			}
		default:
			if len(tris) > 0 {
				col = model3d.BVHToCollider(model3d.NewBVHAreaDensity(append([]*model3d.Triangle{}, tris...)))
			} else {
				col = model3d.GroupedTrianglesToCollider(nil)
			}
		}
		d := pdir3(c)
		o := dy3(c)
		if len(tris) > 0 && c.Rng.Intn(3) != 0 {
			t := tris[c.Rng.Intn(len(tris))]
			u, v := float64(1+c.Rng.Intn(2))/4, float64(1+c.Rng.Intn(2))/8
			if c.Rng.Intn(4) == 0 {
				// a hair inside the hypotenuse (in a box mesh: next to the diagonal two triangles share, so
				// exactly one of them is hit)
				v = 1 - u - math.Ldexp(1, -28-c.Rng.Intn(9))
				c.Stat("joinx.next-to-the-hypotenuse", 1)
			}
			tgt := t[0].Add(t[1].Sub(t[0]).Scale(u)).Add(t[2].Sub(t[0]).Scale(v))
			o = originToward(c, tgt, d)
		}
		r := &model3d.Ray{Origin: o, Direction: d}
		ob := observe3(col, r)
		opKind := "joinx"
		if c.Rng.Intn(3) == 0 {
			// the same enumeration observed by a callback that queries the collider again before it returns
			ob = obsFromActive3(c, col, r)
			opKind = "joinrx"
		}
		c.Stat(opKind+"."+kindName, 1)
		c.Stat(fmt.Sprintf("joinx.hits.%d", minInt(ob.n1, 5)), 1)
		var sb strings.Builder
		fmt.Fprintf(&sb, "c07 %s %d", opKind, len(tris))
		// Mesh iteration order is a map order: the op line lists the triangles canonically sorted
		keys := make([]string, len(tris))
		for j, t := range tris {
			keys[j] = triTokens(rs, t)
		}
		sort.Strings(keys)
		for _, k := range keys {
			sb.WriteString(" " + k)
		}
		fmt.Fprintf(&sb, " %s %s", v3Tok(rs, o), v3Tok(rs, d))
		c.Emit(sb.String(), runStrSorted(rs, ob, 3))
	}
	// --- profile collider over axis-aligned 2-D outlines
	for i := 0; i < n; i++ {
		lo := dy2(c)
		hi := lo.Add(model2d.XY(pow2(c, -1, 2), pow2(c, -1, 2)))
		m2 := model2d.NewMeshRect(lo, hi)
		if c.Rng.Intn(3) == 0 {
			lo2 := model2d.XY(hi.X+pow2(c, -1, 1), lo.Y)
			m2.AddMesh(model2d.NewMeshRect(lo2, lo2.Add(model2d.XY(pow2(c, -1, 1), pow2(c, -1, 1)))))
		}
		segs := m2.SegmentsSlice()
		minZ := dy(c)
		maxZ := minZ + pow2(c, -1, 2)
		col := model3d.ProfileCollider(model2d.MeshToCollider(m2), minZ, maxZ)
		d := pdir3(c)
		var o v3
		mid := lo.Mid(hi)
		nearlyVertical := false
		switch c.Rng.Intn(5) {
		case 4:
			// nearly vertical: an xy component of 2^-40 .. 2^-60 (what rotating a vector by a right angle leaves),
			// over the inside, the boundary and the outside of the outline; from above, below and between the faces
			var dx, dy float64
			for dx == 0 && dy == 0 {
				if c.Rng.Intn(3) != 0 {
					dx = spow2(c, -60, -40)
				}
				if c.Rng.Intn(3) != 0 {
					dy = spow2(c, -60, -40)
				}
			}
			d = model3d.XYZ(dx, dy, spow2(c, -2, 3))
			o = model3d.XYZ(lo.X+(hi.X-lo.X)*float64(c.Rng.Intn(7)-1)/4+1.0/16, lo.Y+(hi.Y-lo.Y)*float64(c.Rng.Intn(7)-1)/4+1.0/32,
				minZ+(maxZ-minZ)*float64(c.Rng.Intn(9)-2)/4)
			nearlyVertical = true
			c.Stat("profx.nearly-vertical", 1)
		case 0:
			o = dy3(c)
		case 1:
			o = model3d.XYZ(mid.X, mid.Y, (minZ+maxZ)/2) // inside
		case 2:
			// vertical ray above/below the outline (inside or outside the 2-D shape); offset from the
			// dyadic grid so that the fixed containment direction meets no vertex
			d = model3d.Z(spow2(c, -2, 3))
			o = model3d.XYZ(mid.X+float64(c.Rng.Intn(5)-2)*(hi.X-lo.X)/3, mid.Y, minZ-float64(c.Rng.Intn(5)-1))
		default:
			tgt := model3d.XYZ(lo.X+(hi.X-lo.X)*float64(c.Rng.Intn(5))/4, lo.Y+(hi.Y-lo.Y)*float64(c.Rng.Intn(5))/4, minZ+(maxZ-minZ)*float64(c.Rng.Intn(5))/4)
			o = originToward(c, tgt, d)
		}
		r := &model3d.Ray{Origin: o, Direction: d}
		if !nearlyVertical && c.Rng.Intn(4) == 0 {
			// extreme direction length (power of two: still exact; the xy part stays above 2^-60, where the exact
			// mode's square root is still accurate)
			r.Direction = d.Scale(extremeK(c))
			d = r.Direction
			c.Stat("profx.extreme-direction", 1)
		}
		ob := observe3(col, r)
		opKind := "profx"
		if c.Rng.Intn(2) == 0 {
			// the same enumeration observed by a callback that queries the collider again before it returns
			ob = obsFromActive3(c, col, r)
			opKind = "profrx"
		}
		class := "general"
		if d.X == 0 && d.Y == 0 {
			class = "vertical"
		} else if d.Z == 0 {
			class = "flat"
		}
		c.Stat("profx."+class, 1)
		c.Stat(fmt.Sprintf("profx.hits.%d", minInt(ob.n1, 5)), 1)
		keys := make([]string, len(segs))
		for j, s := range segs {
			keys[j] = v2Tok(rs, s[0]) + " " + v2Tok(rs, s[1])
		}
		sort.Strings(keys)
		c.Stat(opKind, 1)
		c.Emit(fmt.Sprintf("c07 %s %d %s %s %s %s %s", opKind, len(segs), strings.Join(keys, " "), rs(minZ), rs(maxZ), v3Tok(rs, o), v3Tok(rs, d)),
			runStrSorted(rs, ob, 3))
	}
}

func axisPow2(e v3) bool {
	nz := 0
	for _, x := range e.Array() {
		if x != 0 {
			nz++
			fr, _ := math.Frexp(math.Abs(x))
			if fr != 0.5 {
				return false
			}
		}
	}
	return nz == 1
}

// ---------------------------------------------------------------- bits-mode generators

func rnd(c *hlib.Ctx) float64 { return c.Rng.NormFloat64() * 2 }

func rnd3(c *hlib.Ctx) v3 { return model3d.XYZ(rnd(c), rnd(c), rnd(c)) }
func rnd2(c *hlib.Ctx) v2 { return model2d.XY(rnd(c), rnd(c)) }

// bdir3: random non-unit direction, sometimes with zero components
func bdir3(c *hlib.Ctx) v3 {
	for {
		d := rnd3(c).Scale(nonUnitScale(c))
		switch c.Rng.Intn(6) {
		case 0:
			d.X = 0
		case 1:
			d.Y, d.Z = 0, 0
		}
		if d.Norm() > 1e-6 {
			return d
		}
	}
}

func bray3(c *hlib.Ctx, min, max v3) *model3d.Ray {
	o := randIn3(c, min, max, 1.0)
	if c.Rng.Intn(3) == 0 {
		o = randIn3(c, min, max, 0)
	}
	d := bdir3(c)
	if c.Rng.Intn(2) == 0 {
		d = randIn3(c, min, max, 0).Sub(o).Scale(nonUnitScale(c))
		if d.Norm() < 1e-9 {
			d = bdir3(c)
		}
	}
	return &model3d.Ray{Origin: o, Direction: d}
}

func runBits(c *hlib.Ctx, n int) {
	// --- Sphere (3-D) and Circle (2-D, same template: run through the model on z = 0)
	for i := 0; i < n; i++ {
		if c.Rng.Intn(3) != 0 {
			s := &model3d.Sphere{Center: rnd3(c), Radius: randPos(c, 0.2, 3)}
			r := bray3(c, s.Min(), s.Max())
			ob := observe3(s, r)
			c.Stat(fmt.Sprintf("sphereb.hits.%d", ob.n1), 1)
			c.Emit(fmt.Sprintf("c07 sphereb %s %s %s %s", v3Tok(hx, s.Center), hx(s.Radius), v3Tok(hx, r.Origin), v3Tok(hx, r.Direction)), runStr(hx, ob, 3))
		} else {
			s := &model2d.Circle{Center: rnd2(c), Radius: randPos(c, 0.2, 3)}
			o := randIn2(c, s.Min(), s.Max(), 1.0)
			d := randIn2(c, s.Min(), s.Max(), 0).Sub(o).Scale(nonUnitScale(c))
			if d.Norm() < 1e-9 {
				d = model2d.XY(1, 2)
			}
			r := &model2d.Ray{Origin: o, Direction: d}
			ob := observe2(s, r)
			c.Stat(fmt.Sprintf("circle2b.hits.%d", ob.n1), 1)
			z := hx(0)
			c.Emit(fmt.Sprintf("c07 sphereb %s %s %s %s %s %s %s", v2Tok(hx, s.Center), z, hx(s.Radius), v2Tok(hx, o), z, v2Tok(hx, d), z), runStr(hx, ob, 3))
		}
	}
	// --- Rect on arbitrary doubles
	for i := 0; i < n/2; i++ {
		lo := rnd3(c)
		hi := lo.Add(model3d.XYZ(randPos(c, 0.1, 3), randPos(c, 0.1, 3), randPos(c, 0.1, 3)))
		rect := model3d.NewRect(lo, hi)
		r := bray3(c, lo, hi)
		ob := observe3(rect, r)
		c.Stat(fmt.Sprintf("rectb.hits.%d", ob.n1), 1)
		c.Emit(fmt.Sprintf("c07 rectb %s %s %s %s", v3Tok(hx, lo), v3Tok(hx, hi), v3Tok(hx, r.Origin), v3Tok(hx, r.Direction)), runStr(hx, ob, 3))
	}
	// --- Triangle on arbitrary doubles
	for i := 0; i < n; i++ {
		t := &model3d.Triangle{rnd3(c), rnd3(c), rnd3(c)}
		if t.Area() < 1e-3 {
			continue
		}
		r := bray3(c, t.Min(), t.Max())
		switch c.Rng.Intn(8) {
		case 0:
			// (nearly) parallel to the plane
			r.Direction = t[1].Sub(t[0]).Scale(rnd(c)).Add(t[2].Sub(t[0]).Scale(rnd(c)))
			if r.Direction.Norm() < 1e-9 {
				r.Direction = t[1].Sub(t[0])
			}
		case 1:
			// through a vertex / along an edge direction
			r.Direction = t[c.Rng.Intn(3)].Sub(r.Origin)
		}
		ob := observe3(t, r)
		c.Stat(fmt.Sprintf("trib.hits.%d", ob.n1), 1)
		c.Emit(fmt.Sprintf("c07 trib %s %s %s", triTokens(hx, t), v3Tok(hx, r.Origin), v3Tok(hx, r.Direction)), runStr(hx, ob, 3)+" "+triBary(hx, t, r))
	}
	// --- 2-D Segment on arbitrary doubles
	for i := 0; i < n; i++ {
		s := &model2d.Segment{rnd2(c), rnd2(c)}
		if s.Length() < 1e-3 {
			continue
		}
		o := randIn2(c, s.Min(), s.Max().AddScalar(0.1), 1.0)
		d := s[0].Add(s[1].Sub(s[0]).Scale(c.Rng.Float64()*1.4 - 0.2)).Sub(o).Scale(nonUnitScale(c))
		if c.Rng.Intn(8) == 0 {
			d = s[1].Sub(s[0]).Scale(rnd(c)) // parallel
		}
		if d.Norm() < 1e-9 {
			d = model2d.XY(1, -3)
		}
		r := &model2d.Ray{Origin: o, Direction: d}
		ob := observe2(s, r)
		c.Stat(fmt.Sprintf("seg2b.hits.%d", ob.n1), 1)
		c.Emit(fmt.Sprintf("c07 seg2b %s %s %s %s", v2Tok(hx, s[0]), v2Tok(hx, s[1]), v2Tok(hx, o), v2Tok(hx, d)), runStr(hx, ob, 2))
	}
	// --- castPlane / castCircle
	for i := 0; i < n; i++ {
		nrm := rnd3(c)
		if c.Rng.Intn(2) == 0 {
			nrm = randUnit3(c)
		}
		if nrm.Norm() < 1e-6 {
			continue
		}
		ctr := rnd3(c)
		r := bray3(c, ctr.AddScalar(-1), ctr.AddScalar(1))
		if c.Rng.Intn(8) == 0 {
			a, _ := nrm.OrthoBasis()
			r.Direction = a.Scale(rnd(c)) // parallel to the plane
			if r.Direction.Norm() < 1e-9 {
				r.Direction = a
			}
		}
		if c.Rng.Intn(2) == 0 {
			bias := rnd(c)
			rc, ok := model3d.VerifCastPlane(nrm, bias, r)
			out := "0"
			if ok {
				out = "1 " + hx(rc.Scale)
			}
			c.Stat("planeb."+out[:1], 1)
			c.Emit(fmt.Sprintf("c07 planeb %s %s %s %s", v3Tok(hx, nrm), hx(bias), v3Tok(hx, r.Origin), v3Tok(hx, r.Direction)), out)
		} else {
			rad := randPos(c, 0.2, 3)
			rc, ok := model3d.VerifCastCircle(nrm, ctr, rad, r)
			out := "0"
			if ok {
				out = "1 " + hitStr(hx, rc.Scale, rc.Normal.Array(), 3)
			}
			c.Stat("circleb."+out[:1], 1)
			c.Emit(fmt.Sprintf("c07 circleb %s %s %s %s %s", v3Tok(hx, nrm), v3Tok(hx, ctr), hx(rad), v3Tok(hx, r.Origin), v3Tok(hx, r.Direction)), out)
		}
	}
	runBitsCone(c, n)
	// --- Cylinder and Capsule
	for i := 0; i < n; i++ {
		p1 := rnd3(c)
		p2 := p1.Add(randAxis3(c).Scale(randPos(c, 0.2, 3)))
		rad := randPos(c, 0.2, 2)
		if c.Rng.Intn(2) == 0 {
			cyl := &model3d.Cylinder{P1: p1, P2: p2, Radius: rad}
			r := bray3(c, cyl.Min(), cyl.Max())
			ob := observe3(cyl, r)
			c.Stat(fmt.Sprintf("cylb.hits.%d", minInt(ob.n1, 4)), 1)
			c.Emit(fmt.Sprintf("c07 cylb %s %s %s %s %s", v3Tok(hx, p1), v3Tok(hx, p2), hx(rad), v3Tok(hx, r.Origin), v3Tok(hx, r.Direction)), runStr(hx, ob, 3))
		} else {
			capsule := &model3d.Capsule{P1: p1, P2: p2, Radius: rad}
			r := bray3(c, capsule.Min(), capsule.Max())
			ob := observe3(capsule, r)
			if tiedScales(ob.ts) {
				continue
			}
			c.Stat(fmt.Sprintf("capb.hits.%d", minInt(ob.n1, 4)), 1)
			c.Emit(fmt.Sprintf("c07 capb %s %s %s %s %s", v3Tok(hx, p1), v3Tok(hx, p2), hx(rad), v3Tok(hx, r.Origin), v3Tok(hx, r.Direction)),
				runStr(hx, ob, 3)+" I "+b01(capsule.Contains(r.Origin)))
		}
	}
}

// runBitsCone: Cone.RayCollisions / FirstRayCollision bit for bit (side polynomial via the quadratic branch of
// numerical.Polynomial.IterRealRoots, safeNormal, base disc).
func runBitsCone(c *hlib.Ctx, n int) {
	for i := 0; i < n; i++ {
		tip := rnd3(c)
		base := tip.Add(randAxis3(c).Scale(randPos(c, 0.2, 3)))
		if c.Rng.Intn(4) == 0 {
			// axis-aligned cone (exercises the branches of OrthoBasis)
			var a [3]float64
			a[c.Rng.Intn(3)] = randPos(c, 0.2, 3) * float64(1-2*c.Rng.Intn(2))
			base = tip.Add(model3d.NewCoord3DArray(a))
		}
		cone := &model3d.Cone{Tip: tip, Base: base, Radius: randPos(c, 0.2, 2)}
		r := bray3(c, cone.Min(), cone.Max())
		switch c.Rng.Intn(8) {
		case 0:
			// through the apex / along the axis
			r.Direction = tip.Sub(r.Origin)
			if r.Direction.Norm() < 1e-9 {
				r.Direction = base.Sub(tip)
			}
		case 1:
			r.Origin = tip.Mid(base)
			r.Direction = base.Sub(tip).Scale(rnd(c))
			if r.Direction.Norm() < 1e-9 {
				r.Direction = base.Sub(tip)
			}
		}
		ob := observe3(cone, r)
		if tiedScales(ob.ts) && ob.ok {
			// FirstRayCollision keeps the first of equal minima: covered, nothing to skip
		}
		c.Stat(fmt.Sprintf("coneb.hits.%d", minInt(ob.n1, 4)), 1)
		c.Emit(fmt.Sprintf("c07 coneb %s %s %s %s %s", v3Tok(hx, tip), v3Tok(hx, base), hx(cone.Radius), v3Tok(hx, r.Origin), v3Tok(hx, r.Direction)), runStr(hx, ob, 3))
	}
}

func tiedScales(ts []float64) bool {
	s := sortedCopy(ts)
	for i := 1; i < len(s); i++ {
		if s[i] == s[i-1] {
			return true
		}
	}
	return false
}

// ---------------------------------------------------------------- ball / segment / rect / triangle queries

func ratOf(x float64) *big.Rat { return new(big.Rat).SetFloat64(x) }

func runBall(c *hlib.Ctx, n int) {
	// Triangle.SphereCollision on dyadic data against the exact squared distance (Lean spec)
	for i := 0; i < 2*n; i++ {
		var t *model3d.Triangle
		if c.Rng.Intn(2) == 0 {
			t = ptri(c)
		} else {
			t = &model3d.Triangle{dy3(c), dy3(c), dy3(c)}
			if t.Area() == 0 {
				continue
			}
		}
		ctr := dy3(c)
		r := float64(1+c.Rng.Intn(24)) / 8
		if c.Rng.Intn(3) == 0 {
			// a radius next to the true distance (just below / just above), still dyadic
			dist := t.Dist(ctr)
			r = math.Floor(dist*64)/64 + float64(c.Rng.Intn(3)-1)/64
			if r <= 0 {
				r = 1.0 / 64
			}
		}
		if !separated(r, t.Dist(ctr)) {
			// tangent within rounding: the library evaluates the foot of the perpendicular with an inexact
			// division, so rounding decides; not a statement of the property (open vs closed ball)
			c.Stat("ballx.skipped-tangent", 1)
			continue
		}
		got := t.SphereCollision(ctr, r)
		c.Stat("ballx."+b01(got), 1)
		c.Emit(fmt.Sprintf("c07 ballx %s %s %s", triTokens(rs, t), v3Tok(rs, ctr), rs(r)), b01(got))
	}
	// 2-D Segment.CircleCollision
	for i := 0; i < n; i++ {
		s := &model2d.Segment{dy2(c), dy2(c)}
		if s[0] == s[1] {
			continue
		}
		ctr := dy2(c)
		r := float64(1+c.Rng.Intn(24)) / 8
		if c.Rng.Intn(3) == 0 {
			dist := s.Dist(ctr)
			r = math.Floor(dist*64)/64 + float64(c.Rng.Intn(3)-1)/64
			if r <= 0 {
				r = 1.0 / 64
			}
		}
		if !separated(r, s.Dist(ctr)) {
			c.Stat("circx.skipped-tangent", 1)
			continue
		}
		got := s.CircleCollision(ctr, r)
		c.Stat("circx."+b01(got), 1)
		c.Emit(fmt.Sprintf("c07 circx %s %s %s %s", v2Tok(rs, s[0]), v2Tok(rs, s[1]), v2Tok(rs, ctr), rs(r)), b01(got))
	}
	// Triangle.SegmentCollision (exact family)
	for i := 0; i < n; i++ {
		t := ptri(c)
		d := pdir3(c)
		u, v := float64(c.Rng.Intn(5)-1)/4, float64(c.Rng.Intn(5)-1)/4
		if c.Rng.Intn(2) == 0 {
			u, v = float64(1+c.Rng.Intn(3))/8, float64(1+c.Rng.Intn(3))/8
		}
		tgt := t[0].Add(t[1].Sub(t[0]).Scale(u)).Add(t[2].Sub(t[0]).Scale(v))
		s0 := originToward(c, tgt, d)
		s1 := s0.Add(d)
		got := t.SegmentCollision(model3d.Segment{s0, s1})
		c.Stat("segx."+b01(got), 1)
		c.Emit(fmt.Sprintf("c07 segx %s %s %s", triTokens(rs, t), v3Tok(rs, s0), v3Tok(rs, s1)), b01(got))
	}
	runSoupQueries(c, n)
}
