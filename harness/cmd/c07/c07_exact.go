package main

import "verif/harness/hlib"

func runExact(c *hlib.Ctx, n int) {}
func runBits(c *hlib.Ctx, n int)  {}
func runBall(c *hlib.Ctx, n int)  {}
