package main

import (
	"fmt"
	"math"

	"github.com/unixpickle/model3d/model2d"
	"github.com/unixpickle/model3d/model3d"
	"verif/harness/hlib"
)

// shape3 is one collider under test together with what the harness knows about it
// independently of the collider code: an implicit residual (0 exactly on the surface, in
// length units), the outward unit normal of the surface at a surface point, containment.
type shape3 struct {
	kind     string
	name     string
	col      model3d.Collider
	scale    float64                      // characteristic length, for tolerances
	resid    func(p v3) float64           // nil: not checked
	normalOK func(p, n v3) (bool, string) // nil: not checked
	contains func(p v3) bool              // nil: not a closed shape / unknown
	validate bool                         // hit parameters come from the polynomial root finder: residuals only validate
	approx   bool                         // documented approximate collider (SolidCollider): contract only
	proj2    model2d.Collider             // profile colliders: the 2-D outline collider
	axis     v3                           // capsule, cylinder and their images under a transform: direction of the axis; zero otherwise (a ray along the axis of a cone passes through the apex: not in general position)
}

// degenerateProjection: the projection of the ray to the xy-plane is not in general position with respect to the
// 2-D outline - parallel rays a hair to either side see a different number of outline crossings, i.e. the projected
// ray grazes a vertex of the outline or is tangent to it.  (profileCollider decides its face hits by the parity of
// the outline crossings along the projected ray.)
func degenerateProjection(col2 model2d.Collider, r *model3d.Ray, scale float64) bool {
	d := r.Direction.XY()
	if d.Norm() == 0 {
		return false
	}
	n := model2d.XY(-d.Y, d.X).Normalize()
	count := func(off float64) int {
		return col2.RayCollisions(&model2d.Ray{Origin: r.Origin.XY().Add(n.Scale(off)), Direction: d}, nil)
	}
	c0 := count(0)
	for _, off := range []float64{1e-7 * scale, -1e-7 * scale, 1e-5 * scale, -1e-5 * scale} {
		if count(off) != c0 {
			return true
		}
	}
	return false
}

// surfaceSite: the site of an off-surface hit; a profile collider hit by a ray whose projection grazes the outline is
// reported under its own site (known finding).
func surfaceSite(sh *shape3, r *model3d.Ray, tag string) string {
	site := "c07:" + tag + "hit-not-on-surface/" + sh.kind
	if sh.proj2 != nil && degenerateProjection(sh.proj2, r, sh.scale) {
		site += "/degenerate-2d-projection"
	}
	return site
}

func near(a, b, tol float64) bool { return math.Abs(a-b) <= tol }

func dirOK(n, want v3) (bool, string) {
	d := n.Dot(want)
	if d > 1-1e-6 {
		return true, ""
	}
	return false, fmt.Sprintf("normal=%v expected=%v dot=%v", n, want, d)
}

func randPos(c *hlib.Ctx, lo, hi float64) float64 { return lo + (hi-lo)*c.Rng.Float64() }

func randCenter3(c *hlib.Ctx) v3 {
	return model3d.XYZ(c.Rng.NormFloat64()*2, c.Rng.NormFloat64()*2, c.Rng.NormFloat64()*2)
}

func randAxis3(c *hlib.Ctx) v3 {
	if c.Rng.Intn(3) == 0 {
		var arr [3]float64
		arr[c.Rng.Intn(3)] = float64(1 - 2*c.Rng.Intn(2))
		return model3d.NewCoord3DArray(arr)
	}
	return randUnit3(c)
}

func mkSphere(c *hlib.Ctx) *shape3 {
	s := &model3d.Sphere{Center: randCenter3(c), Radius: randPos(c, 0.2, 3)}
	return &shape3{kind: "sphere", name: fmt.Sprintf("Sphere%+v", *s), col: s, scale: s.Radius,
		resid: func(p v3) float64 { return p.Dist(s.Center) - s.Radius },
		normalOK: func(p, n v3) (bool, string) {
			return dirOK(n, p.Sub(s.Center).Normalize())
		},
		contains: s.Contains}
}

func rectResid(min, max, p v3) float64 {
	// distance of p to the boundary of the box
	out := 0.0
	inMin := math.Inf(1)
	pa, lo, hi := p.Array(), min.Array(), max.Array()
	for i := 0; i < 3; i++ {
		if pa[i] < lo[i] {
			out += (lo[i] - pa[i]) * (lo[i] - pa[i])
		} else if pa[i] > hi[i] {
			out += (pa[i] - hi[i]) * (pa[i] - hi[i])
		}
		inMin = math.Min(inMin, math.Min(math.Abs(pa[i]-lo[i]), math.Abs(pa[i]-hi[i])))
	}
	if out > 0 {
		return math.Sqrt(out)
	}
	return inMin
}

func rectNormalOK(min, max, p, n v3, tol float64) (bool, string) {
	pa, lo, hi, na := p.Array(), min.Array(), max.Array(), n.Array()
	for i := 0; i < 3; i++ {
		var e [3]float64
		e[i] = -1
		if near(pa[i], lo[i], tol) && nearArr(na, e) {
			return true, ""
		}
		e[i] = 1
		if near(pa[i], hi[i], tol) && nearArr(na, e) {
			return true, ""
		}
	}
	return false, fmt.Sprintf("normal=%v is not the outward axis of a face through %v", n, p)
}

// nearArr: equal up to the rounding of a rotation applied to an axis vector (exactly equal for
// the untransformed Rect, whose normals are exact axis vectors).
func nearArr(a, b [3]float64) bool {
	for i := range a {
		if math.Abs(a[i]-b[i]) > 1e-9 {
			return false
		}
	}
	return true
}

func mkRect(c *hlib.Ctx) *shape3 {
	a := randCenter3(c)
	sz := model3d.XYZ(randPos(c, 0.1, 3), randPos(c, 0.1, 3), randPos(c, 0.1, 3))
	r := model3d.NewRect(a, a.Add(sz))
	sc := sz.Norm()
	return &shape3{kind: "rect", name: fmt.Sprintf("Rect%+v", *r), col: r, scale: sc,
		resid:    func(p v3) float64 { return rectResid(r.MinVal, r.MaxVal, p) },
		normalOK: func(p, n v3) (bool, string) { return rectNormalOK(r.MinVal, r.MaxVal, p, n, 1e-7*(1+sc)) },
		contains: r.Contains}
}

// segment helpers (independent of the library's Segment.Closest)
func segClosest(a, b, p v3) v3 {
	v := b.Sub(a)
	t := p.Sub(a).Dot(v) / v.Dot(v)
	t = math.Max(0, math.Min(1, t))
	return a.Add(v.Scale(t))
}

// axisOf: the direction of the axis of a solid of revolution exactly as the library derives it from the two end
// points, (b - a).Normalize() - a ray with this direction (times any factor) runs along the axis as exactly as floating
// point permits: for an axis-aligned solid the components orthogonal to the axis are exactly zero.
func axisOf(a, b v3) v3 { return b.Sub(a).Normalize() }

// alongAxis: a direction exactly parallel to the axis of sh (either sense, non-unit length).
func alongAxis(c *hlib.Ctx, sh *shape3) v3 {
	k := nonUnitScale(c)
	if c.Rng.Intn(2) == 0 {
		k = -k
	}
	return sh.axis.Scale(k)
}

func mkCapsule(c *hlib.Ctx) *shape3 {
	p1 := randCenter3(c)
	p2 := p1.Add(randAxis3(c).Scale(randPos(c, 0.2, 3)))
	s := &model3d.Capsule{P1: p1, P2: p2, Radius: randPos(c, 0.2, 2)}
	return &shape3{kind: "capsule", name: fmt.Sprintf("Capsule%+v", *s), col: s, scale: s.Radius + p1.Dist(p2), axis: axisOf(p1, p2),
		resid: func(p v3) float64 { return p.Dist(segClosest(p1, p2, p)) - s.Radius },
		normalOK: func(p, n v3) (bool, string) {
			return dirOK(n, p.Sub(segClosest(p1, p2, p)).Normalize())
		},
		contains: s.Contains}
}

// axial coordinates of p relative to base b and unit axis u: height z and radial vector
func axial(b, u, p v3) (z float64, radial v3) {
	d := p.Sub(b)
	z = d.Dot(u)
	return z, d.Sub(u.Scale(z))
}

func mkCylinder(c *hlib.Ctx) *shape3 {
	p1 := randCenter3(c)
	h := randPos(c, 0.2, 3)
	u := randAxis3(c)
	p2 := p1.Add(u.Scale(h))
	s := &model3d.Cylinder{P1: p1, P2: p2, Radius: randPos(c, 0.2, 2)}
	R := s.Radius
	sc := R + h
	tol := 1e-6 * sc
	return &shape3{kind: "cylinder", name: fmt.Sprintf("Cylinder%+v", *s), col: s, scale: sc, axis: axisOf(p1, p2),
		resid: func(p v3) float64 {
			z, rad := axial(p1, u, p)
			rho := rad.Norm()
			side := math.Max(math.Abs(rho-R), math.Max(0, math.Max(-z, z-h)))
			cap1 := math.Max(math.Abs(z), math.Max(0, rho-R))
			cap2 := math.Max(math.Abs(z-h), math.Max(0, rho-R))
			return math.Min(side, math.Min(cap1, cap2))
		},
		normalOK: func(p, n v3) (bool, string) {
			z, rad := axial(p1, u, p)
			rho := rad.Norm()
			var msgs string
			if near(rho, R, tol) {
				if ok, m := dirOK(n, rad.Normalize()); ok {
					return true, ""
				} else {
					msgs += m
				}
			}
			if near(z, 0, tol) {
				if ok, m := dirOK(n, u.Scale(-1)); ok {
					return true, ""
				} else {
					msgs += m
				}
			}
			if near(z, h, tol) {
				if ok, m := dirOK(n, u); ok {
					return true, ""
				} else {
					msgs += m
				}
			}
			return false, "cylinder: " + msgs
		},
		contains: s.Contains}
}

func mkCone(c *hlib.Ctx) *shape3 {
	base := randCenter3(c)
	h := randPos(c, 0.2, 3)
	u := randAxis3(c)
	tip := base.Add(u.Scale(h))
	s := &model3d.Cone{Tip: tip, Base: base, Radius: randPos(c, 0.2, 2)}
	R := s.Radius
	sc := R + h
	tol := 1e-6 * sc
	return &shape3{kind: "cone", name: fmt.Sprintf("Cone%+v", *s), col: s, scale: sc, validate: true,
		resid: func(p v3) float64 {
			z, rad := axial(base, u, p)
			rho := rad.Norm()
			// slanted side: distance in the (rho,z) half-plane to the segment (R,0)-(0,h)
			ax, ay, bx, by := R, 0.0, 0.0, h
			vx, vy := bx-ax, by-ay
			t := ((rho-ax)*vx + (z-ay)*vy) / (vx*vx + vy*vy)
			t = math.Max(0, math.Min(1, t))
			side := math.Hypot(rho-(ax+t*vx), z-(ay+t*vy))
			capd := math.Max(math.Abs(z), math.Max(0, rho-R))
			return math.Min(side, capd)
		},
		normalOK: func(p, n v3) (bool, string) {
			z, rad := axial(base, u, p)
			rho := rad.Norm()
			var msgs string
			if near(rho, R*(1-z/h), tol) && rho > 1e-4*sc {
				// outward normal of the slanted side: perpendicular to (-R, h) in the (rho, z) half-plane
				want := rad.Normalize().Scale(h).Add(u.Scale(R)).Normalize()
				if ok, m := dirOK(n, want); ok {
					return true, ""
				} else {
					msgs += m
				}
			}
			if near(z, 0, tol) {
				if ok, m := dirOK(n, u.Scale(-1)); ok {
					return true, ""
				} else {
					msgs += m
				}
			}
			if rho <= 1e-4*sc {
				return true, "" // apex / axis: normal undefined
			}
			return false, "cone: " + msgs
		},
		contains: s.Contains}
}

func mkTorus(c *hlib.Ctx) *shape3 {
	ctr := randCenter3(c)
	u := randAxis3(c)
	R := randPos(c, 0.5, 3)
	r := R * randPos(c, 0.1, 0.8)
	s := &model3d.Torus{Center: ctr, Axis: u.Scale(nonUnitScale(c)), OuterRadius: R, InnerRadius: r}
	ring := func(p v3) (v3, bool) {
		_, rad := axial(ctr, u, p)
		if rad.Norm() < 1e-9 {
			return v3{}, false
		}
		return ctr.Add(rad.Normalize().Scale(R)), true
	}
	return &shape3{kind: "torus", name: fmt.Sprintf("Torus%+v", *s), col: s, scale: R + r, validate: true,
		resid: func(p v3) float64 {
			q, ok := ring(p)
			if !ok {
				return math.Hypot(R, p.Sub(ctr).Dot(u)) - r
			}
			return p.Dist(q) - r
		},
		normalOK: func(p, n v3) (bool, string) {
			q, ok := ring(p)
			if !ok {
				return true, ""
			}
			return dirOK(n, p.Sub(q).Normalize())
		},
		contains: s.Contains}
}

func triResid(t *model3d.Triangle, p v3) float64 {
	// independent point-triangle distance: plane projection + edges
	a, b, cc := t[0], t[1], t[2]
	e1, e2 := b.Sub(a), cc.Sub(a)
	nrm := e1.Cross(e2)
	d := p.Sub(a)
	// barycentric of the projection
	n2 := nrm.Dot(nrm)
	u := d.Cross(e2).Dot(nrm) / n2
	v := e1.Cross(d).Dot(nrm) / n2
	if u >= 0 && v >= 0 && u+v <= 1 {
		return math.Abs(d.Dot(nrm)) / math.Sqrt(n2)
	}
	return math.Min(p.Dist(segClosest(a, b, p)), math.Min(p.Dist(segClosest(b, cc, p)), p.Dist(segClosest(cc, a, p))))
}

func mkTriangle(c *hlib.Ctx) *shape3 {
	for {
		t := &model3d.Triangle{randCenter3(c), randCenter3(c), randCenter3(c)}
		if c.Rng.Intn(4) == 0 {
			// axis-aligned right triangle
			a := randCenter3(c)
			var e1, e2 [3]float64
			i := c.Rng.Intn(3)
			e1[i] = randPos(c, 0.2, 2)
			e2[(i+1)%3] = randPos(c, 0.2, 2)
			t = &model3d.Triangle{a, a.Add(model3d.NewCoord3DArray(e1)), a.Add(model3d.NewCoord3DArray(e2))}
		}
		if t.Area() < 0.05 {
			continue
		}
		sc := t[0].Dist(t[1]) + t[0].Dist(t[2])
		return &shape3{kind: "triangle", name: fmt.Sprintf("Triangle%v", *t), col: t, scale: sc,
			resid: func(p v3) float64 { return triResid(t, p) },
			normalOK: func(p, n v3) (bool, string) {
				want := t[1].Sub(t[0]).Cross(t[2].Sub(t[0])).Normalize()
				return dirOK(n, want)
			}}
	}
}

// ---- meshes

type meshInfo struct {
	tris []*model3d.Triangle
}

func meshResid(tris []*model3d.Triangle, p v3) (float64, *model3d.Triangle) {
	best := math.Inf(1)
	var bt *model3d.Triangle
	for _, t := range tris {
		if d := triResid(t, p); d < best {
			best, bt = d, t
		}
	}
	return best, bt
}

// windingNumber: sum of signed solid angles of the triangles seen from p, / 4 pi (van Oosterom-Strackee).
func windingNumber(tris []*model3d.Triangle, p v3) float64 {
	sum := 0.0
	for _, t := range tris {
		a, b, cc := t[0].Sub(p), t[1].Sub(p), t[2].Sub(p)
		la, lb, lc := a.Norm(), b.Norm(), cc.Norm()
		num := a.Dot(b.Cross(cc))
		den := la*lb*lc + a.Dot(b)*lc + b.Dot(cc)*la + cc.Dot(a)*lb
		sum += 2 * math.Atan2(num, den)
	}
	return sum / (4 * math.Pi)
}

func mkMesh(c *hlib.Ctx) *shape3 {
	var m *model3d.Mesh
	var mname string
	ctr := randCenter3(c)
	switch c.Rng.Intn(7) {
	case 0:
		sz := model3d.XYZ(randPos(c, 0.3, 2), randPos(c, 0.3, 2), randPos(c, 0.3, 2))
		m = model3d.NewMeshRect(ctr, ctr.Add(sz))
		mname = "MeshRect"
	case 1:
		m = model3d.NewMeshIcosphere(ctr, randPos(c, 0.3, 2), 1+c.Rng.Intn(3))
		mname = "Icosphere"
	case 2:
		m = model3d.NewMeshCylinder(ctr, ctr.Add(randAxis3(c).Scale(randPos(c, 0.3, 2))), randPos(c, 0.3, 1.5), 5+c.Rng.Intn(12))
		mname = "MeshCylinder"
	case 3:
		R := randPos(c, 0.6, 2)
		m = model3d.NewMeshTorus(ctr, randAxis3(c), R*randPos(c, 0.15, 0.6), R, 4+c.Rng.Intn(6), 5+c.Rng.Intn(8))
		mname = "MeshTorus"
	case 4:
		m = model3d.NewMeshCone(ctr.Add(randAxis3(c).Scale(randPos(c, 0.3, 2))), ctr, randPos(c, 0.3, 1.5), 5+c.Rng.Intn(10))
		mname = "MeshCone"
	case 5:
		m = model3d.NewMeshIcosahedron().Scale(randPos(c, 0.3, 2)).Translate(ctr)
		mname = "Icosahedron"
	default:
		k1, k2 := float64(1+c.Rng.Intn(3)), float64(1+c.Rng.Intn(3))
		amp := randPos(c, 0.1, 0.4)
		m = model3d.NewMeshPolar(func(g model3d.GeoCoord) float64 {
			return 1 + amp*math.Sin(k1*g.Lon)*math.Cos(k2*g.Lat)
		}, 8+c.Rng.Intn(10)).Translate(ctr)
		mname = "MeshPolar"
	}
	if c.Rng.Intn(3) == 0 {
		m = m.Rotate(randUnit3(c), c.Rng.Float64()*6.28)
		mname += "+rot"
	}
	tris := m.TriangleSlice()
	var col model3d.Collider
	switch c.Rng.Intn(5) {
	case 4:
		var how string
		col, _, _, how = wideBVH3(c, "shape3", append([]*model3d.Triangle{}, tris...))
		mname += "/" + how
	case 0:
		col = model3d.MeshToCollider(m)
		mname += "/MeshToCollider"
	case 1:
		col = model3d.BVHToCollider(model3d.NewBVHAreaDensity(append([]*model3d.Triangle{}, tris...)))
		mname += "/BVHToCollider"
	case 2:
		col = model3d.GroupedTrianglesToCollider(append([]*model3d.Triangle{}, tris...)) // ungrouped on purpose
		mname += "/ungrouped"
	default:
		col = model3d.MeshToInterpNormalCollider(m)
		mname += "/InterpNormal"
	}
	interp := c.Rng.Intn(4) == 3
	_ = interp
	sc := m.Max().Dist(m.Min())
	isInterp := len(mname) > 12 && mname[len(mname)-12:] == "InterpNormal"
	sh := &shape3{kind: "mesh", name: fmt.Sprintf("%s[%d tris]", mname, len(tris)), col: col, scale: sc,
		resid: func(p v3) float64 { d, _ := meshResid(tris, p); return d },
		contains: func(p v3) bool {
			w := windingNumber(tris, p)
			return math.Abs(w) > 0.5
		}}
	if !isInterp {
		sh.normalOK = func(p, n v3) (bool, string) {
			tol := 1e-7 * (1 + sc)
			var msg string
			for _, t := range tris {
				if triResid(t, p) <= tol {
					want := t[1].Sub(t[0]).Cross(t[2].Sub(t[0])).Normalize()
					if ok, m := dirOK(n, want); ok {
						return true, ""
					} else {
						msg = m
					}
				}
			}
			return false, "mesh: " + msg
		}
	}
	return sh
}

// ---- wrappers

func mkPrimitive(c *hlib.Ctx) *shape3 {
	switch c.Rng.Intn(7) {
	case 0:
		return mkSphere(c)
	case 1:
		return mkRect(c)
	case 2:
		return mkCapsule(c)
	case 3:
		return mkCylinder(c)
	case 4:
		return mkCone(c)
	case 5:
		return mkTorus(c)
	default:
		return mkTriangle(c)
	}
}

func mkJoined(c *hlib.Ctx) *shape3 {
	k := 1 + c.Rng.Intn(4)
	var parts []*shape3
	var cols []model3d.Collider
	name := "Joined{"
	sc := 0.0
	validate := false
	for i := 0; i < k; i++ {
		var p *shape3
		if c.Rng.Intn(5) == 0 {
			p = mkMesh(c)
		} else {
			p = mkPrimitive(c)
		}
		parts = append(parts, p)
		cols = append(cols, p.col)
		name += p.name + ";"
		sc = math.Max(sc, p.scale)
		validate = validate || p.validate
	}
	var col model3d.Collider = model3d.NewJoinedCollider(cols)
	if c.Rng.Intn(3) == 0 && k > 1 {
		// nested joins (flattening path)
		inner := model3d.NewJoinedCollider(cols[:k/2+1])
		col = model3d.NewJoinedCollider(append([]model3d.Collider{inner}, cols[k/2+1:]...))
		name += "nested"
	}
	return &shape3{kind: "joined", name: name + "}", col: col, scale: sc, validate: validate,
		resid: func(p v3) float64 {
			best := math.Inf(1)
			for _, s := range parts {
				best = math.Min(best, math.Abs(s.resid(p)))
			}
			return best
		},
		normalOK: func(p, n v3) (bool, string) {
			var msg string
			for _, s := range parts {
				if s.normalOK != nil && math.Abs(s.resid(p)) <= 1e-6*(1+s.scale) {
					if ok, m := s.normalOK(p, n); ok {
						return true, ""
					} else {
						msg += m
					}
				} else if s.normalOK == nil && math.Abs(s.resid(p)) <= 1e-6*(1+s.scale) {
					return true, ""
				}
			}
			return false, "joined: " + msg
		}}
}

type xform3 struct {
	t    model3d.DistTransform
	name string
}

func randDistTransform(c *hlib.Ctx, depth int) xform3 {
	switch k := c.Rng.Intn(5); {
	case k == 0:
		v := randCenter3(c)
		return xform3{&model3d.Translate{Offset: v}, fmt.Sprintf("Translate%v", v)}
	case k == 1:
		s := randPos(c, 0.3, 3)
		if c.Rng.Intn(3) == 0 {
			s = -s
		}
		return xform3{&model3d.Scale{Scale: s}, fmt.Sprintf("Scale(%v)", s)}
	case k == 2:
		ax, th := randUnit3(c), c.Rng.Float64()*6.28
		return xform3{model3d.Rotation(ax, th), fmt.Sprintf("Rotation(%v,%v)", ax, th)}
	case depth > 0:
		a, b := randDistTransform(c, depth-1), randDistTransform(c, depth-1)
		return xform3{model3d.JoinedTransform{a.t, b.t}, "Join{" + a.name + "," + b.name + "}"}
	default:
		v := randCenter3(c)
		return xform3{&model3d.Translate{Offset: v}, fmt.Sprintf("Translate%v", v)}
	}
}

func mkTransformed(c *hlib.Ctx) *shape3 {
	var inner *shape3
	if c.Rng.Intn(6) == 0 {
		inner = mkMesh(c)
	} else {
		inner = mkPrimitive(c)
	}
	x := randDistTransform(c, 1)
	inv := x.t.Inverse().(model3d.DistTransform)
	col := model3d.TransformCollider(x.t, inner.col)
	f := x.t.ApplyDistance(1)
	lin := func(t model3d.Transform, v v3) v3 { return t.Apply(v).Sub(t.Apply(v3{})) }
	sh := &shape3{kind: "transformed", name: "Transform{" + x.name + "," + inner.name + "}", col: col,
		scale: inner.scale * f, validate: inner.validate, axis: lin(x.t, inner.axis),
		resid: func(p v3) float64 { return inner.resid(inv.Apply(p)) * f }}
	if inner.normalOK != nil {
		sh.normalOK = func(p, n v3) (bool, string) {
			// the outward normal of the image at p is the image normal under the inverse-transpose of
			// the linear part; for similarities that is the inverse linear map applied to n, renormalised
			// (up to the positive factor f^2), so pull n back and ask the inner shape.
			nin := lin(inv, n)
			nin = nin.Normalize()
			return inner.normalOK(inv.Apply(p), nin)
		}
	}
	if inner.contains != nil {
		sh.contains = func(p v3) bool { return inner.contains(inv.Apply(p)) }
	}
	return sh
}

// ---- 2D zoo (also used by the profile collider)

type shape2 struct {
	kind     string
	name     string
	col      model2d.Collider
	scale    float64
	resid    func(p v2) float64
	normalOK func(p, n v2) (bool, string)
	contains func(p v2) bool
}

func dirOK2(n, want v2) (bool, string) {
	d := n.Dot(want)
	if d > 1-1e-6 {
		return true, ""
	}
	return false, fmt.Sprintf("normal=%v expected=%v dot=%v", n, want, d)
}

func randCenter2(c *hlib.Ctx) v2 { return model2d.XY(c.Rng.NormFloat64()*2, c.Rng.NormFloat64()*2) }

func seg2Closest(a, b, p v2) v2 {
	v := b.Sub(a)
	t := p.Sub(a).Dot(v) / v.Dot(v)
	t = math.Max(0, math.Min(1, t))
	return a.Add(v.Scale(t))
}

func mkCircle(c *hlib.Ctx) *shape2 {
	s := &model2d.Circle{Center: randCenter2(c), Radius: randPos(c, 0.2, 3)}
	return &shape2{kind: "circle", name: fmt.Sprintf("Circle%+v", *s), col: s, scale: s.Radius,
		resid:    func(p v2) float64 { return p.Dist(s.Center) - s.Radius },
		normalOK: func(p, n v2) (bool, string) { return dirOK2(n, p.Sub(s.Center).Normalize()) },
		contains: s.Contains}
}

func mkRect2(c *hlib.Ctx) *shape2 {
	a := randCenter2(c)
	sz := model2d.XY(randPos(c, 0.1, 3), randPos(c, 0.1, 3))
	r := model2d.NewRect(a, a.Add(sz))
	sc := sz.Norm()
	lo3, hi3 := model3d.XYZ(r.MinVal.X, r.MinVal.Y, -1e9), model3d.XYZ(r.MaxVal.X, r.MaxVal.Y, 1e9)
	return &shape2{kind: "rect2", name: fmt.Sprintf("Rect2%+v", *r), col: r, scale: sc,
		resid: func(p v2) float64 { return rectResid(lo3, hi3, model3d.XYZ(p.X, p.Y, 0)) },
		normalOK: func(p, n v2) (bool, string) {
			return rectNormalOK(lo3, hi3, model3d.XYZ(p.X, p.Y, 0), model3d.XYZ(n.X, n.Y, 0), 1e-7*(1+sc))
		},
		contains: r.Contains}
}

func mkCapsule2(c *hlib.Ctx) *shape2 {
	p1 := randCenter2(c)
	p2 := p1.Add(randUnit2(c).Scale(randPos(c, 0.2, 3)))
	s := &model2d.Capsule{P1: p1, P2: p2, Radius: randPos(c, 0.2, 2)}
	return &shape2{kind: "capsule2", name: fmt.Sprintf("Capsule2%+v", *s), col: s, scale: s.Radius + p1.Dist(p2),
		resid:    func(p v2) float64 { return p.Dist(seg2Closest(p1, p2, p)) - s.Radius },
		normalOK: func(p, n v2) (bool, string) { return dirOK2(n, p.Sub(seg2Closest(p1, p2, p)).Normalize()) },
		contains: s.Contains}
}

func mkSegment2(c *hlib.Ctx) *shape2 {
	for {
		s := &model2d.Segment{randCenter2(c), randCenter2(c)}
		if c.Rng.Intn(4) == 0 {
			a := randCenter2(c)
			if c.Rng.Intn(2) == 0 {
				s = &model2d.Segment{a, a.Add(model2d.X(randPos(c, 0.2, 2)))}
			} else {
				s = &model2d.Segment{a, a.Add(model2d.Y(-randPos(c, 0.2, 2)))}
			}
		}
		if s.Length() < 0.1 {
			continue
		}
		return &shape2{kind: "segment2", name: fmt.Sprintf("Segment2%v", *s), col: s, scale: s.Length(),
			resid: func(p v2) float64 { return p.Dist(seg2Closest(s[0], s[1], p)) },
			normalOK: func(p, n v2) (bool, string) {
				d := s[1].Sub(s[0])
				return dirOK2(n, model2d.XY(-d.Y, d.X).Normalize())
			}}
	}
}

func polyWinding(segs []*model2d.Segment, p v2) float64 {
	sum := 0.0
	for _, s := range segs {
		a, b := s[0].Sub(p), s[1].Sub(p)
		sum += math.Atan2(a.X*b.Y-a.Y*b.X, a.Dot(b))
	}
	return sum / (2 * math.Pi)
}

func mkTriangle2(c *hlib.Ctx) *shape2 {
	for {
		a, b, d := randCenter2(c), randCenter2(c), randCenter2(c)
		t := model2d.NewTriangle(a, b, d)
		if t.Area() < 0.05 {
			continue
		}
		segs := []*model2d.Segment{{a, b}, {b, d}, {d, a}}
		return &shape2{kind: "triangle2", name: fmt.Sprintf("Triangle2%v", t.Coords()), col: t, scale: a.Dist(b) + a.Dist(d),
			resid: func(p v2) float64 {
				best := math.Inf(1)
				for _, s := range segs {
					best = math.Min(best, p.Dist(seg2Closest(s[0], s[1], p)))
				}
				return best
			},
			contains: func(p v2) bool { return math.Abs(polyWinding(segs, p)) > 0.5 }}
	}
}

func mkMesh2(c *hlib.Ctx) *shape2 {
	var m *model2d.Mesh
	name := ""
	ctr := randCenter2(c)
	switch c.Rng.Intn(3) {
	case 0:
		sz := model2d.XY(randPos(c, 0.3, 2), randPos(c, 0.3, 2))
		m = model2d.NewMeshRect(ctr, ctr.Add(sz))
		name = "Mesh2Rect"
	case 1:
		k := float64(2 + c.Rng.Intn(4))
		amp := randPos(c, 0.1, 0.5)
		m = model2d.NewMeshPolar(func(th float64) float64 { return 1 + amp*math.Sin(k*th) }, 6+c.Rng.Intn(30)).Translate(ctr)
		name = "Mesh2Polar"
	default:
		// two disjoint loops (outer + hole would need orientation; keep them disjoint)
		m = model2d.NewMeshPolar(func(th float64) float64 { return 1 }, 5+c.Rng.Intn(8)).Translate(ctr)
		m.AddMesh(model2d.NewMeshRect(ctr.Add(model2d.XY(2, 0)), ctr.Add(model2d.XY(3, 1.5))))
		name = "Mesh2TwoLoops"
	}
	segs := m.SegmentsSlice()
	var col model2d.Collider
	switch c.Rng.Intn(4) {
	case 3:
		var how string
		col, _, _, how = wideBVH2(c, "shape2", append([]*model2d.Segment{}, segs...))
		name += "/" + how
	case 0:
		col = model2d.MeshToCollider(m)
		name += "/MeshToCollider"
	case 1:
		col = model2d.BVHToCollider(model2d.NewBVHAreaDensity(append([]*model2d.Segment{}, segs...)))
		name += "/BVHToCollider"
	default:
		col = model2d.GroupedSegmentsToCollider(append([]*model2d.Segment{}, segs...))
		name += "/ungrouped"
	}
	sc := m.Max().Dist(m.Min())
	return &shape2{kind: "mesh2", name: fmt.Sprintf("%s[%d segs]", name, len(segs)), col: col, scale: sc,
		resid: func(p v2) float64 {
			best := math.Inf(1)
			for _, s := range segs {
				best = math.Min(best, p.Dist(seg2Closest(s[0], s[1], p)))
			}
			return best
		},
		normalOK: func(p, n v2) (bool, string) {
			var msg string
			for _, s := range segs {
				if p.Dist(seg2Closest(s[0], s[1], p)) <= 1e-7*(1+sc) {
					d := s[1].Sub(s[0])
					if ok, m := dirOK2(n, model2d.XY(-d.Y, d.X).Normalize()); ok {
						return true, ""
					} else {
						msg = m
					}
				}
			}
			return false, "mesh2: " + msg
		},
		contains: func(p v2) bool { return math.Abs(polyWinding(segs, p)) > 0.5 }}
}

func mkPrimitive2(c *hlib.Ctx) *shape2 {
	switch c.Rng.Intn(6) {
	case 0:
		return mkCircle(c)
	case 1:
		return mkRect2(c)
	case 2:
		return mkCapsule2(c)
	case 3:
		return mkSegment2(c)
	case 4:
		return mkTriangle2(c)
	default:
		return mkMesh2(c)
	}
}

func mkJoined2(c *hlib.Ctx) *shape2 {
	k := c.Rng.Intn(4)
	var parts []*shape2
	var cols []model2d.Collider
	name := "Joined2{"
	sc := 1.0
	for i := 0; i < k; i++ {
		p := mkPrimitive2(c)
		parts = append(parts, p)
		cols = append(cols, p.col)
		name += p.name + ";"
		sc = math.Max(sc, p.scale)
	}
	col := model2d.NewJoinedCollider(cols)
	return &shape2{kind: "joined2", name: name + "}", col: col, scale: sc,
		resid: func(p v2) float64 {
			best := math.Inf(1)
			for _, s := range parts {
				best = math.Min(best, math.Abs(s.resid(p)))
			}
			return best
		}}
}

func mkTransformed2(c *hlib.Ctx) *shape2 {
	inner := mkPrimitive2(c)
	var t model2d.DistTransform
	name := ""
	switch c.Rng.Intn(3) {
	case 0:
		v := randCenter2(c)
		t, name = &model2d.Translate{Offset: v}, fmt.Sprintf("Translate%v", v)
	case 1:
		s := randPos(c, 0.3, 3)
		if c.Rng.Intn(3) == 0 {
			s = -s
		}
		t, name = &model2d.Scale{Scale: s}, fmt.Sprintf("Scale(%v)", s)
	default:
		th := c.Rng.Float64() * 6.28
		t, name = model2d.Rotation(th), fmt.Sprintf("Rotation(%v)", th)
	}
	inv := t.Inverse().(model2d.DistTransform)
	f := t.ApplyDistance(1)
	col := model2d.TransformCollider(t, inner.col)
	sh := &shape2{kind: "transformed2", name: "Transform2{" + name + "," + inner.name + "}", col: col, scale: inner.scale * f,
		resid: func(p v2) float64 { return inner.resid(inv.Apply(p)) * f }}
	if inner.normalOK != nil {
		sh.normalOK = func(p, n v2) (bool, string) {
			nin := inv.Apply(n).Sub(inv.Apply(v2{})).Normalize()
			return inner.normalOK(inv.Apply(p), nin)
		}
	}
	if inner.contains != nil {
		sh.contains = func(p v2) bool { return inner.contains(inv.Apply(p)) }
	}
	return sh
}

func mkShape2(c *hlib.Ctx) *shape2 {
	switch c.Rng.Intn(10) {
	case 0:
		return mkJoined2(c)
	case 1, 2:
		return mkTransformed2(c)
	default:
		return mkPrimitive2(c)
	}
}

// ---- profile and solid colliders

func mkProfile(c *hlib.Ctx) *shape3 {
	var in *shape2
	switch c.Rng.Intn(4) {
	case 0:
		in = mkCircle(c)
	case 1:
		in = mkRect2(c)
	case 2:
		in = mkCapsule2(c)
	default:
		in = mkMesh2(c)
	}
	z0 := c.Rng.NormFloat64()
	z1 := z0 + randPos(c, 0.2, 3)
	col := model3d.ProfileCollider(in.col, z0, z1)
	sc := in.scale + (z1 - z0)
	tol := 1e-6 * (1 + sc)
	return &shape3{kind: "profile", name: fmt.Sprintf("Profile{%s,%v,%v}", in.name, z0, z1), col: col, scale: sc, proj2: in.col,
		resid: func(p v3) float64 {
			xy := p.XY()
			d2 := math.Abs(in.resid(xy))
			side := math.Max(d2, math.Max(0, math.Max(z0-p.Z, p.Z-z1)))
			faceOut := 0.0
			if !in.contains(xy) {
				faceOut = d2
			}
			f0 := math.Max(math.Abs(p.Z-z0), faceOut)
			f1 := math.Max(math.Abs(p.Z-z1), faceOut)
			return math.Min(side, math.Min(f0, f1))
		},
		normalOK: func(p, n v3) (bool, string) {
			var msg string
			if near(p.Z, z0, tol) && n == model3d.Z(-1) {
				return true, ""
			}
			if near(p.Z, z1, tol) && n == model3d.Z(1) {
				return true, ""
			}
			if n.Z == 0 && math.Abs(in.resid(p.XY())) <= tol && in.normalOK != nil {
				ok, m := in.normalOK(p.XY(), n.XY())
				if ok {
					return true, ""
				}
				msg = m
			}
			return false, fmt.Sprintf("profile: normal=%v at %v %s", n, p, msg)
		},
		contains: func(p v3) bool { return p.Z >= z0 && p.Z <= z1 && in.contains(p.XY()) }}
}

func mkSolidCollider(c *hlib.Ctx) *shape3 {
	var inner *shape3
	switch c.Rng.Intn(3) {
	case 0:
		inner = mkSphere(c)
	case 1:
		inner = mkRect(c)
	default:
		inner = mkCylinder(c)
	}
	solid := inner.col.(model3d.Solid)
	eps := inner.scale * randPos(c, 0.02, 0.1)
	sc := &model3d.SolidCollider{Solid: solid, Epsilon: eps}
	switch c.Rng.Intn(3) {
	case 0:
		sc.BisectCount = 8
	case 1:
		sc.NormalSamples = 16
		sc.NormalBisectEpsilon = eps / 10
	}
	return &shape3{kind: "solidcollider", name: fmt.Sprintf("SolidCollider{%s,eps=%v}", inner.name, eps), col: sc,
		scale: inner.scale, approx: true, resid: inner.resid}
}

func mkNull(c *hlib.Ctx) *shape3 {
	col := model3d.GroupedTrianglesToCollider(nil)
	return &shape3{kind: "null", name: "nullCollider", col: col, scale: 1}
}

func mkShape3(c *hlib.Ctx) *shape3 {
	switch k := c.Rng.Intn(20); {
	case k < 8:
		return mkPrimitive(c)
	case k < 11:
		return mkMesh(c)
	case k < 13:
		return mkJoined(c)
	case k < 15:
		return mkProfile(c)
	case k < 18:
		return mkTransformed(c)
	case k < 19:
		return mkSolidCollider(c)
	default:
		return mkNull(c)
	}
}
