// Command c07 is the correspondence harness for property C07 (colliders report consistent
// ray and ball collisions).  It drives the REAL collider code of model3d / model2d:
//
//   - obs3 / obs2: for every collider kind the raw observation of one ray (count with callback,
//     number and parameters of callbacks, count without callback, FirstRayCollision) is written
//     into the op line and the Lean driver evaluates the *contract predicate of Props/C07*
//     (M3d.Col.contractB) on it at Rat; the same clauses are evaluated in Go as c.PropFail sites.
//   - exact kinds (rectx trix seg2x joinx profx ballx circx ...): dyadic inputs on which every Go
//     float operation is exact; the Lean model of the method runs at Rat; outputs must be equal.
//   - bits kinds (sphereb planeb cylb capb trib seg2b rectb): arbitrary doubles; the same generic
//     Lean model runs at Float in the same operation order; outputs must be bit-identical.
//   - box / segment / triangle / ball queries of segments, triangles, mesh colliders and profile colliders
//     (rect2x mseg2x msegx tritrix mtritrix profballx: c07_query.go).
//   - residual ("hit lies on the surface", "unit outward normal") and parity-vs-Contains checks
//     are PropFail predicates; for torus/cone (polynomial root finder) they only validate.
package main

import (
	"fmt"
	"math"
	"sort"
	"strings"
	"time"

	"github.com/unixpickle/model3d/model2d"
	"github.com/unixpickle/model3d/model3d"
	"verif/harness/hlib"
)

type v3 = model3d.Coord3D
type v2 = model2d.Coord

func hx(x float64) string { return hlib.Hex(x) }
func rs(x float64) string { return hlib.RatStr(x) }

func hx3(c v3) string { return hx(c.X) + " " + hx(c.Y) + " " + hx(c.Z) }
func hx2(c v2) string { return hx(c.X) + " " + hx(c.Y) }
func rs3(c v3) string { return rs(c.X) + " " + rs(c.Y) + " " + rs(c.Z) }
func rs2(c v2) string { return rs(c.X) + " " + rs(c.Y) }

func b01(b bool) string {
	if b {
		return "1"
	}
	return "0"
}

func finite(xs ...float64) bool {
	for _, x := range xs {
		if math.IsNaN(x) || math.IsInf(x, 0) {
			return false
		}
	}
	return true
}

// withTimeout runs f; "timeout" if it does not return in time (the goroutine is abandoned).
func withTimeout(d time.Duration, f func() string) string {
	ch := make(chan string, 1)
	go func() { ch <- hlib.Guard(f) }()
	select {
	case s := <-ch:
		return s
	case <-time.After(d):
		return "timeout"
	}
}

// ---------------------------------------------------------------- observations

// obs is what one ray shows about a collider.
type obs struct {
	n1      int       // RayCollisions(r, f)
	ts      []float64 // scales passed to f, in call order
	ns      [][3]float64
	n0      int // RayCollisions(r, nil)
	ok      bool
	first   float64
	firstN  [3]float64
	failure string // panic / timeout
}

func observe3(col model3d.Collider, r *model3d.Ray) obs {
	var o obs
	res := withTimeout(20*time.Second, func() string {
		o.n1 = col.RayCollisions(r, func(rc model3d.RayCollision) {
			o.ts = append(o.ts, rc.Scale)
			o.ns = append(o.ns, rc.Normal.Array())
		})
		return "ok"
	})
	if res != "ok" {
		o.failure = "cb:" + res
		return o
	}
	res = withTimeout(20*time.Second, func() string {
		o.n0 = col.RayCollisions(r, nil)
		return "ok"
	})
	if res != "ok" {
		o.failure = "nil:" + res
		return o
	}
	res = withTimeout(20*time.Second, func() string {
		rc, ok := col.FirstRayCollision(r)
		o.ok, o.first, o.firstN = ok, rc.Scale, rc.Normal.Array()
		return "ok"
	})
	if res != "ok" {
		o.failure = "first:" + res
	}
	return o
}

func observe2(col model2d.Collider, r *model2d.Ray) obs {
	var o obs
	res := withTimeout(20*time.Second, func() string {
		o.n1 = col.RayCollisions(r, func(rc model2d.RayCollision) {
			o.ts = append(o.ts, rc.Scale)
			o.ns = append(o.ns, [3]float64{rc.Normal.X, rc.Normal.Y, 0})
		})
		return "ok"
	})
	if res != "ok" {
		o.failure = "cb:" + res
		return o
	}
	res = withTimeout(20*time.Second, func() string {
		o.n0 = col.RayCollisions(r, nil)
		return "ok"
	})
	if res != "ok" {
		o.failure = "nil:" + res
		return o
	}
	res = withTimeout(20*time.Second, func() string {
		rc, ok := col.FirstRayCollision(r)
		o.ok, o.first, o.firstN = ok, rc.Scale, [3]float64{rc.Normal.X, rc.Normal.Y, 0}
		return "ok"
	})
	if res != "ok" {
		o.failure = "first:" + res
	}
	return o
}

// checkContract evaluates the clauses of the property on an observation (Go side) and emits the
// observation for the Lean-side evaluation of the same predicate.
// approxFirst: the collider documents FirstRayCollision as an independent approximation (none does today).
func checkContract(c *hlib.Ctx, dim string, kind string, desc string, o obs) {
	site := "c07:contract/" + kind
	if o.failure != "" {
		c.PropFail(site+"/panic-or-timeout", o.failure+" "+desc)
		c.EmitSite(fmt.Sprintf("c07 obs%s %s fail", dim, kind), "ok", "corr:c07 obs/"+kind)
		return
	}
	if o.n1 != len(o.ts) {
		c.PropFail(site+"/count-vs-callbacks", fmt.Sprintf("count=%d callbacks=%d %s", o.n1, len(o.ts), desc))
	}
	if o.n0 != o.n1 {
		c.PropFail(site+"/count-nil-callback", fmt.Sprintf("count(nil)=%d count(f)=%d %s", o.n0, o.n1, desc))
	}
	mn := math.Inf(1)
	for _, t := range o.ts {
		if !(t >= 0) || math.IsInf(t, 0) {
			c.PropFail(site+"/negative-or-nonfinite-parameter", fmt.Sprintf("t=%v %s", t, desc))
		}
		if t < mn {
			mn = t
		}
	}
	if o.ok != (o.n1 != 0) {
		c.PropFail(site+"/first-exists-iff-count", fmt.Sprintf("first ok=%v count=%d %s", o.ok, o.n1, desc))
	}
	if o.ok && len(o.ts) > 0 && o.first != mn {
		c.PropFail(site+"/first-is-min", fmt.Sprintf("first=%v min=%v all=%v %s", o.first, mn, o.ts, desc))
	}
	for _, n := range o.ns {
		if l := n[0]*n[0] + n[1]*n[1] + n[2]*n[2]; !(math.Abs(l-1) < 1e-9) {
			c.PropFail(site+"/normal-not-unit", fmt.Sprintf("normal=%v |n|^2=%v %s", n, l, desc))
		}
	}
	if o.ok {
		n := o.firstN
		if l := n[0]*n[0] + n[1]*n[1] + n[2]*n[2]; !(math.Abs(l-1) < 1e-9) {
			c.PropFail(site+"/first-normal-not-unit", fmt.Sprintf("normal=%v |n|^2=%v %s", n, l, desc))
		}
	}
	c.Stat("obs."+kind, 1)
	c.Stat(fmt.Sprintf("obs.hits.%d", minInt(o.n1, 5)), 1)
	// the same observation for the Lean definition of the contract
	parts := []string{"c07", "obs" + dim, kind, fmt.Sprint(o.n0), fmt.Sprint(o.n1), b01(o.ok), hx(o.first)}
	for _, t := range o.ts {
		parts = append(parts, hx(t))
	}
	c.EmitSite(strings.Join(parts, " "), "ok", "corr:c07 obs/"+kind)
}

func minInt(a, b int) int {
	if a < b {
		return a
	}
	return b
}

// ---------------------------------------------------------------- random geometry

func randUnit3(c *hlib.Ctx) v3 {
	for {
		v := model3d.XYZ(c.Rng.NormFloat64(), c.Rng.NormFloat64(), c.Rng.NormFloat64())
		if n := v.Norm(); n > 1e-3 {
			return v.Scale(1 / n)
		}
	}
}

func randUnit2(c *hlib.Ctx) v2 {
	for {
		v := model2d.XY(c.Rng.NormFloat64(), c.Rng.NormFloat64())
		if n := v.Norm(); n > 1e-3 {
			return v.Scale(1 / n)
		}
	}
}

func randIn3(c *hlib.Ctx, min, max v3, expand float64) v3 {
	sz := max.Sub(min)
	f := func() float64 { return -expand + c.Rng.Float64()*(1+2*expand) }
	return model3d.XYZ(min.X+sz.X*f(), min.Y+sz.Y*f(), min.Z+sz.Z*f())
}

func randIn2(c *hlib.Ctx, min, max v2, expand float64) v2 {
	sz := max.Sub(min)
	f := func() float64 { return -expand + c.Rng.Float64()*(1+2*expand) }
	return model2d.XY(min.X+sz.X*f(), min.Y+sz.Y*f())
}

// nonUnitScale: directions are deliberately not unit length.
func nonUnitScale(c *hlib.Ctx) float64 {
	switch c.Rng.Intn(4) {
	case 0:
		return 1
	case 1:
		return math.Exp(c.Rng.NormFloat64() * 2)
	case 2:
		return float64(int(1) << uint(c.Rng.Intn(6)))
	default:
		return 0.1 + 5*c.Rng.Float64()
	}
}

// genRay3 draws a ray for a collider with the given bounds.  class names what was drawn.
func genRay3(c *hlib.Ctx, col model3d.Collider) (*model3d.Ray, string) {
	min, max := col.Min(), col.Max()
	if min == max {
		max = min.AddScalar(1)
	}
	target := randIn3(c, min, max, 0)
	var origin v3
	class := ""
	switch c.Rng.Intn(10) {
	case 0, 1, 2:
		origin = randIn3(c, min, max, 0) // often inside
		class = "in-bounds"
	case 3, 4, 5:
		origin = randIn3(c, min, max, 1.0)
		class = "around"
	case 6:
		// on the surface: the hit point of another ray
		o2 := randIn3(c, min, max, 1.0)
		r2 := &model3d.Ray{Origin: o2, Direction: target.Sub(o2)}
		if rc, ok := col.FirstRayCollision(r2); ok && finite(rc.Scale) {
			origin = o2.Add(r2.Direction.Scale(rc.Scale))
			class = "on-surface"
		} else {
			origin = o2
			class = "around"
		}
	case 7:
		origin = min.Mid(max) // centre (degenerate spots of torus/cone axes)
		class = "centre"
	default:
		origin = randIn3(c, min, max, 3.0)
		class = "far"
	}
	var dir v3
	switch c.Rng.Intn(6) {
	case 0:
		var arr [3]float64
		arr[c.Rng.Intn(3)] = float64(1 - 2*c.Rng.Intn(2))
		dir = model3d.NewCoord3DArray(arr)
		class += "/axis"
	case 1:
		dir = randUnit3(c)
		class += "/random"
	case 2:
		// axis-aligned in two coordinates
		var arr [3]float64
		arr[c.Rng.Intn(3)] = c.Rng.NormFloat64()
		arr[c.Rng.Intn(3)] = c.Rng.NormFloat64()
		dir = model3d.NewCoord3DArray(arr)
		if dir.Norm() == 0 {
			dir = model3d.X(1)
		}
		class += "/planar"
	default:
		dir = target.Sub(origin)
		if dir.Norm() < 1e-9 {
			dir = randUnit3(c)
		} else {
			dir = dir.Normalize()
		}
		class += "/aimed"
	}
	dir = dir.Scale(nonUnitScale(c))
	return &model3d.Ray{Origin: origin, Direction: dir}, class
}

// genRaySh3: genRay3 for a shape; for solids of revolution one ray in five runs exactly along the axis (the lateral
// quadratic of Cylinder / Capsule degenerates there, a = b = 0, and the caps decide everything).
func genRaySh3(c *hlib.Ctx, sh *shape3) (*model3d.Ray, string) {
	r, class := genRay3(c, sh.col)
	if sh.axis != (v3{}) && finite(sh.axis.X, sh.axis.Y, sh.axis.Z) && c.Rng.Intn(5) == 0 {
		r.Direction = alongAxis(c, sh)
		if i := strings.Index(class, "/"); i >= 0 {
			class = class[:i]
		}
		class += "/along-axis"
	}
	return r, class
}

func genRay2(c *hlib.Ctx, col model2d.Collider) (*model2d.Ray, string) {
	min, max := col.Min(), col.Max()
	if min == max {
		max = min.AddScalar(1)
	}
	target := randIn2(c, min, max, 0)
	var origin v2
	class := ""
	switch c.Rng.Intn(10) {
	case 0, 1, 2:
		origin = randIn2(c, min, max, 0)
		class = "in-bounds"
	case 3, 4, 5:
		origin = randIn2(c, min, max, 1.0)
		class = "around"
	case 6:
		o2 := randIn2(c, min, max, 1.0)
		r2 := &model2d.Ray{Origin: o2, Direction: target.Sub(o2)}
		if rc, ok := col.FirstRayCollision(r2); ok && finite(rc.Scale) {
			origin = o2.Add(r2.Direction.Scale(rc.Scale))
			class = "on-surface"
		} else {
			origin = o2
			class = "around"
		}
	case 7:
		origin = min.Mid(max)
		class = "centre"
	default:
		origin = randIn2(c, min, max, 3.0)
		class = "far"
	}
	var dir v2
	switch c.Rng.Intn(4) {
	case 0:
		if c.Rng.Intn(2) == 0 {
			dir = model2d.X(float64(1 - 2*c.Rng.Intn(2)))
		} else {
			dir = model2d.Y(float64(1 - 2*c.Rng.Intn(2)))
		}
		class += "/axis"
	case 1:
		dir = randUnit2(c)
		class += "/random"
	default:
		dir = target.Sub(origin)
		if dir.Norm() < 1e-9 {
			dir = randUnit2(c)
		} else {
			dir = dir.Normalize()
		}
		class += "/aimed"
	}
	dir = dir.Scale(nonUnitScale(c))
	return &model2d.Ray{Origin: origin, Direction: dir}, class
}

func descRay3(name string, r *model3d.Ray, class string) string {
	return fmt.Sprintf("collider=%s class=%s origin=%v dir=%v", name, class, r.Origin, r.Direction)
}

func descRay2(name string, r *model2d.Ray, class string) string {
	return fmt.Sprintf("collider=%s class=%s origin=%v dir=%v", name, class, r.Origin, r.Direction)
}

func sortedCopy(xs []float64) []float64 {
	ys := append([]float64{}, xs...)
	sort.Float64s(ys)
	return ys
}

func main() { hlib.Main("C07", run) }

func run(c *hlib.Ctx) {
	n := c.N
	runObs3(c, 6*n)
	runObs2(c, 3*n)
	runSurface(c, 3*n)
	runOnSurface(c, 2*n)
	runParity(c, 3*n)
	runExact(c, n)
	runBits(c, n)
	runCylAxis(c, n)
	runBall(c, n)
	runXfBall(c, n)
	runQueries(c, n)
	runReentScale(c, n)
}
