package main

import (
	"fmt"
	"math"
	"math/big"

	"github.com/unixpickle/model3d/model3d"
	"verif/harness/hlib"
)

// Exact (big.Rat) brute force for the ball / segment / box queries on dyadic triangle soups:
// the mesh colliders (MeshToCollider / BVHToCollider / ungrouped) must answer exactly
// "some triangle of the soup meets the query shape".

type q3 [3]*big.Rat

func qv(p v3) q3 { return q3{ratOf(p.X), ratOf(p.Y), ratOf(p.Z)} }

func qsub(a, b q3) q3 {
	return q3{new(big.Rat).Sub(a[0], b[0]), new(big.Rat).Sub(a[1], b[1]), new(big.Rat).Sub(a[2], b[2])}
}

func qadd(a, b q3) q3 {
	return q3{new(big.Rat).Add(a[0], b[0]), new(big.Rat).Add(a[1], b[1]), new(big.Rat).Add(a[2], b[2])}
}

func qscale(a q3, s *big.Rat) q3 {
	return q3{new(big.Rat).Mul(a[0], s), new(big.Rat).Mul(a[1], s), new(big.Rat).Mul(a[2], s)}
}

func qdot(a, b q3) *big.Rat {
	r := new(big.Rat).Mul(a[0], b[0])
	r.Add(r, new(big.Rat).Mul(a[1], b[1]))
	r.Add(r, new(big.Rat).Mul(a[2], b[2]))
	return r
}

func qcross(a, b q3) q3 {
	m := func(x, y *big.Rat) *big.Rat { return new(big.Rat).Mul(x, y) }
	return q3{
		new(big.Rat).Sub(m(a[1], b[2]), m(a[2], b[1])),
		new(big.Rat).Sub(m(a[2], b[0]), m(a[0], b[2])),
		new(big.Rat).Sub(m(a[0], b[1]), m(a[1], b[0])),
	}
}

var qZero = new(big.Rat)
var qOne = big.NewRat(1, 1)

func qlt(a, b *big.Rat) bool { return a.Cmp(b) < 0 }
func qle(a, b *big.Rat) bool { return a.Cmp(b) <= 0 }

// segment p1p2 has a point at squared distance < qq from ctr (closest point, exact)
func qSegBall(p1, p2, ctr q3, qq *big.Rat) bool {
	v := qsub(p2, p1)
	w := qsub(ctr, p1)
	vv, wv, ww := qdot(v, v), qdot(w, v), qdot(w, w)
	d2 := qsub(ctr, p2)
	if qlt(ww, qq) || qlt(qdot(d2, d2), qq) {
		return true
	}
	if vv.Sign() == 0 {
		return false
	}
	if qle(qZero, wv) && qle(wv, vv) {
		lhs := new(big.Rat).Sub(new(big.Rat).Mul(ww, vv), new(big.Rat).Mul(wv, wv))
		return qlt(lhs, new(big.Rat).Mul(qq, vv))
	}
	return false
}

// triangle has a point at squared distance < qq from ctr (exact)
func qTriBall(t *model3d.Triangle, ctr q3, qq *big.Rat) bool {
	a, b, c := qv(t[0]), qv(t[1]), qv(t[2])
	if qSegBall(a, b, ctr, qq) || qSegBall(b, c, ctr, qq) || qSegBall(c, a, ctr, qq) {
		return true
	}
	e1, e2 := qsub(b, a), qsub(c, a)
	n := qcross(e1, e2)
	nn := qdot(n, n)
	if nn.Sign() == 0 {
		return false
	}
	w := qsub(ctr, a)
	u := qdot(qcross(w, e2), n)
	v := qdot(qcross(e1, w), n)
	if u.Sign() < 0 || v.Sign() < 0 || !qle(new(big.Rat).Add(u, v), nn) {
		return false
	}
	wn := qdot(w, n)
	return qlt(new(big.Rat).Mul(wn, wn), new(big.Rat).Mul(qq, nn))
}

// exact Möller–Trumbore for the segment s0s1 against the triangle: strict = the segment crosses the open
// triangle at an interior point of the segment (general position), closed = they meet at all (boundary
// contacts included); parallel = coplanar/parallel configuration (the library reports nothing).
func qTriSegment(t *model3d.Triangle, s0, s1 q3) (strict, closed, parallel bool) {
	a, b, c := qv(t[0]), qv(t[1]), qv(t[2])
	d := qsub(s1, s0)
	v1, v2 := qsub(b, a), qsub(c, a)
	cross1 := qcross(d, v2)
	det := qdot(cross1, v1)
	if det.Sign() == 0 {
		return false, false, true
	}
	inv := new(big.Rat).Inv(det)
	o := qsub(s0, a)
	u := new(big.Rat).Mul(inv, qdot(o, cross1))
	cross2 := qcross(o, v1)
	v := new(big.Rat).Mul(inv, qdot(d, cross2))
	tt := new(big.Rat).Mul(inv, qdot(v2, cross2))
	uv := new(big.Rat).Add(u, v)
	closed = u.Sign() >= 0 && v.Sign() >= 0 && qle(uv, qOne) && tt.Sign() >= 0 && qle(tt, qOne)
	strict = u.Sign() > 0 && v.Sign() > 0 && qlt(uv, qOne) && tt.Sign() > 0 && qlt(tt, qOne)
	return strict, closed, false
}

// Sutherland–Hodgman clipping of the triangle against the closed box; returns the clipped polygon.
func qClipTriBox(t *model3d.Triangle, lo, hi q3) []q3 {
	poly := []q3{qv(t[0]), qv(t[1]), qv(t[2])}
	for axis := 0; axis < 3; axis++ {
		for side := 0; side < 2; side++ {
			bound := lo[axis]
			inside := func(p q3) bool { return qle(bound, p[axis]) }
			if side == 1 {
				bound = hi[axis]
				inside = func(p q3) bool { return qle(p[axis], bound) }
			}
			var out []q3
			for i := range poly {
				cur, nxt := poly[i], poly[(i+1)%len(poly)]
				ci, ni := inside(cur), inside(nxt)
				if ci {
					out = append(out, cur)
				}
				if ci != ni {
					// intersection with the plane
					den := new(big.Rat).Sub(nxt[axis], cur[axis])
					s := new(big.Rat).Quo(new(big.Rat).Sub(bound, cur[axis]), den)
					out = append(out, qadd(cur, qscale(qsub(nxt, cur), s)))
				}
			}
			poly = out
			if len(poly) == 0 {
				return nil
			}
		}
	}
	return poly
}

func qPolyHasArea(poly []q3) bool {
	if len(poly) < 3 {
		return false
	}
	sum := q3{new(big.Rat), new(big.Rat), new(big.Rat)}
	for i := 1; i+1 < len(poly); i++ {
		sum = qadd(sum, qcross(qsub(poly[i], poly[0]), qsub(poly[i+1], poly[0])))
	}
	return qdot(sum, sum).Sign() != 0
}

func dyTri(c *hlib.Ctx) *model3d.Triangle {
	for {
		t := &model3d.Triangle{dy3(c), dy3(c), dy3(c)}
		if c.Rng.Intn(3) == 0 {
			t = ptri(c)
		}
		if t.Area() > 0 {
			return t
		}
	}
}

func runSoupQueries(c *hlib.Ctx, n int) {
	for i := 0; i < n; i++ {
		k := 1 + c.Rng.Intn(8)
		var tris []*model3d.Triangle
		for j := 0; j < k; j++ {
			tris = append(tris, dyTri(c))
		}
		var col model3d.MultiCollider
		name := ""
		switch c.Rng.Intn(4) {
		case 3:
			col, _, _, name = wideBVH3(c, "soup", append([]*model3d.Triangle{}, tris...))
		case 0:
			col = model3d.MeshToCollider(model3d.NewMeshTriangles(tris))
			name = "MeshToCollider"
		case 1:
			col = model3d.BVHToCollider(model3d.NewBVHAreaDensity(append([]*model3d.Triangle{}, tris...)))
			name = "BVHToCollider"
		default:
			col = model3d.GroupedTrianglesToCollider(append([]*model3d.Triangle{}, tris...))
			name = "ungrouped"
		}
		desc := func() string {
			s := name + " tris="
			for _, t := range tris {
				s += fmt.Sprintf("%v;", *t)
			}
			return s
		}
		// SphereCollision
		for j := 0; j < 3; j++ {
			ctr := dy3(c)
			r := float64(1+c.Rng.Intn(32)) / 8
			qq := new(big.Rat).Mul(ratOf(r), ratOf(r))
			want := false
			for _, t := range tris {
				if qTriBall(t, qv(ctr), qq) {
					want = true
				}
			}
			dmin := math.Inf(1)
			for _, t := range tris {
				dmin = math.Min(dmin, t.Dist(ctr))
			}
			if !separated(r, dmin) {
				c.Stat("soup.sphere.tangent-skipped", 1) // rounding decides at exact tangency
				continue
			}
			got := col.SphereCollision(ctr, r)
			c.Stat("soup.sphere."+b01(want), 1)
			if got != want {
				c.PropFail("c07:ball-touches/mesh-sphere", fmt.Sprintf("SphereCollision=%v exact=%v centre=%v r=%v %s", got, want, ctr, r, desc()))
			}
		}
		// SegmentCollision
		for j := 0; j < 3; j++ {
			s0, s1 := dy3(c), dy3(c)
			if s0 == s1 {
				continue
			}
			want, ambiguous := false, false
			for _, t := range tris {
				strict, closed, par := qTriSegment(t, qv(s0), qv(s1))
				if par || (closed && !strict) {
					// coplanar / parallel, or a contact exactly on an edge, a vertex or a segment end
					// point: outside general position, rounding decides
					ambiguous = true
				}
				if strict {
					want = true
				}
			}
			if ambiguous && !want {
				c.Stat("soup.segment.boundary-skipped", 1)
				continue
			}
			got := col.SegmentCollision(model3d.NewSegment(s0, s1))
			c.Stat("soup.segment."+b01(want), 1)
			if got != want {
				c.PropFail("c07:ball-touches/mesh-segment", fmt.Sprintf("SegmentCollision=%v exact=%v segment=%v %v %s", got, want, s0, s1, desc()))
			}
		}
		// RectCollision
		for j := 0; j < 3; j++ {
			lo := dy3(c)
			hi := lo.Add(model3d.XYZ(float64(1+c.Rng.Intn(16))/4, float64(1+c.Rng.Intn(16))/4, float64(1+c.Rng.Intn(16))/4))
			clear, disjoint := false, true
			for _, t := range tris {
				poly := qClipTriBox(t, qv(lo), qv(hi))
				if len(poly) > 0 {
					disjoint = false
				}
				if qPolyHasArea(poly) {
					clear = true
				}
			}
			got := col.RectCollision(model3d.NewRect(lo, hi))
			if disjoint {
				c.Stat("soup.rect.0", 1)
				if got {
					c.PropFail("c07:ball-touches/mesh-rect", fmt.Sprintf("RectCollision=true but the box %v %v is disjoint from every triangle %s", lo, hi, desc()))
				}
			} else if clear {
				c.Stat("soup.rect.1", 1)
				if !got {
					c.PropFail("c07:ball-touches/mesh-rect", fmt.Sprintf("RectCollision=false but a triangle meets the box %v %v in a region of positive area %s", lo, hi, desc()))
				}
			} else {
				c.Stat("soup.rect.touching-only-skipped", 1)
			}
		}
	}
}
