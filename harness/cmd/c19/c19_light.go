package main

import (
	"fmt"
	"math"
	"math/rand"
	"strings"

	"verif/harness/hlib"

	"github.com/unixpickle/model3d/model3d"
	"github.com/unixpickle/model3d/render3d"
)

// ---------------------------------------------------------------------------
// SphereAreaLight

// rawNorm is the raw value for which gen.Uint32() (the first draw of NormFloat64) is j.
func rawNorm(j int32) int64 { return int64(uint32(j)) << 31 }

func caseSphereLight(c *hlib.Ctx) {
	center := point(c, 4)
	r := radius(c)
	em := color(c)
	light := render3d.NewSphereAreaLight(&model3d.Sphere{Center: center, Radius: r}, em)
	vals := make([]int64, 0, 96)
	if c.Rng.Intn(3) == 0 {
		// a first triple of tiny (or zero) Gaussians: must be rejected by the norm test
		for i := 0; i < 3; i++ {
			vals = append(vals, rawNorm(int32(128*c.Rng.Intn(3))))
		}
		c.Stat("sphere.first-triple-rejected", 1)
	}
	for len(vals) < 96 {
		vals = append(vals, c.Rng.Int63())
	}
	// the Gaussians the light will see: replay the same script through math/rand
	const T = 4
	rep, _ := gen(vals...)
	gs := make([]string, 0, T)
	for i := 0; i < T; i++ {
		gs = append(gs, hv(model3d.XYZ(rep.NormFloat64(), rep.NormFloat64(), rep.NormFloat64())))
	}
	g, scr := gen(vals...)
	p, n, e := light.SampleLight(g)
	if scr.over != 0 {
		c.PropFail("harness:c19/sphere-draw-count", "SphereAreaLight.SampleLight ran past the script")
	}
	c.Emit(fmt.Sprintf("c19 sphere %s %s %s %s %s %s %d %s", hx(0.01), hx(100.0), consts(), hv(center), hx(r), hv(em), T, strings.Join(gs, " ")),
		fmt.Sprintf("%s %s %s %s", ov(p), ov(n), ov(e), hx(light.TotalEmission())))
	// redundant direct evaluation of the property predicate (tolerance; the deciding argument is the model)
	if !near(p.Dist(center)/r, 1, 1e-9) || !near(n.Norm(), 1, 1e-9) || !near(p.Sub(center).Dot(n)/r, 1, 1e-9) {
		c.PropFail("prop:c19/sphere-sample-off-surface", fmt.Sprintf("center=%v r=%v point=%v normal=%v", center, r, p, n))
	}
}

// ---------------------------------------------------------------------------
// CylinderAreaLight

func caseCylinderLight(c *hlib.Ctx) {
	p1 := point(c, 4)
	var p2 V
	switch c.Rng.Intn(5) {
	case 0:
		p2 = p1.Add(model3d.XYZ(0, 0, 1+float64(c.Rng.Intn(3))))
	case 1:
		p2 = p1.Add(model3d.XYZ(float64(c.Rng.Intn(3))+1, 0, 0))
	default:
		p2 = p1.Add(unit(c).Scale(0.1 + c.Rng.Float64()*5))
	}
	r := radius(c)
	em := color(c)
	light := render3d.NewCylinderAreaLight(&model3d.Cylinder{P1: p1, P2: p2, Radius: r}, em)
	side, shaft := render3d.VerifCylinderAreas(light)
	totalA := shaft + 2*side
	u1, u2, u3 := uniform(c), uniform(c), uniform(c)
	// steer the part selection so that caps and shaft are all exercised whatever the aspect ratio
	switch c.Rng.Intn(4) {
	case 0:
		u2 = math.Floor(c.Rng.Float64()*side/totalA*(1<<53)) / (1 << 53)
	case 1:
		u2 = math.Floor((side+c.Rng.Float64()*side)/totalA*(1<<53)) / (1 << 53)
	case 2:
		u2 = math.Floor((2*side+c.Rng.Float64()*shaft)/totalA*(1<<53)) / (1 << 53)
	}
	if u2 >= 1 {
		u2 = 0.5
	}
	g, scr := gen(rawU(u1), rawU(u2), rawU(u3))
	p, n, e := light.SampleLight(g)
	if scr.over != 0 || scr.pos != 3 {
		c.PropFail("harness:c19/cyl-draw-count", fmt.Sprintf("CylinderAreaLight.SampleLight consumed %d(+%d) draws, modelled 3", scr.pos, scr.over))
	}
	cs, sn := lonUTimes2Pi(u1)
	c.Emit(fmt.Sprintf("c19 cyl %s %s %s %s %s %s %s %s %s", consts(), hv(p1), hv(p2), hx(r), hv(em), hx(cs), hx(sn), hx(u2), hx(u3)),
		fmt.Sprintf("%s %s %s %s", ov(p), ov(n), ov(e), hx(light.TotalEmission())))

	// redundant direct evaluation of the property predicate (tolerance; the deciding argument is the model)
	axis := p2.Sub(p1).Normalize()
	h := p2.Dist(p1)
	t := p.Sub(p1).Dot(axis)
	radial := p.Sub(p1).Sub(axis.Scale(t))
	part := u2 * totalA
	desc := fmt.Sprintf("P1=%v P2=%v radius=%v draws=(%v,%v,%v) point=%v normal=%v", p1, p2, r, u1, u2, u3, p, n)
	tol := 1e-9 * (1 + h/r + 1/r)
	if part < 2*side {
		c.Stat("cyl.cap", 1)
		onPlane := math.Abs(t)/r < tol*10 || math.Abs(t-h)/r < tol*10
		if !onPlane || radial.Norm()/r > 1+tol {
			c.PropFail("prop:c19/cylinder-cap-sample-off-surface", desc)
		}
		outward := (math.Abs(t)/r < tol*10 && near(n.Dot(axis), -1, 1e-9)) || (math.Abs(t-h)/r < tol*10 && near(n.Dot(axis), 1, 1e-9))
		if !outward {
			c.PropFail("prop:c19/cylinder-cap-normal-not-outward", desc)
		}
	} else {
		c.Stat("cyl.shaft", 1)
		if r != 1 {
			c.Stat("cyl.shaft-radius!=1", 1)
		}
		if !near(radial.Norm()/r, 1, 1e-7) || t < -tol*h || t > h*(1+tol) {
			c.PropFail("prop:c19/cylinder-shaft-sample-off-surface", desc+fmt.Sprintf(" distance-from-axis=%v", radial.Norm()))
		}
		if !near(n.Norm(), 1, 1e-9) || !near(n.Dot(radial)/r, 1, 1e-7) {
			c.PropFail("prop:c19/cylinder-shaft-normal-not-outward", desc)
		}
	}
}

// ---------------------------------------------------------------------------
// MeshAreaLight

func randomTriangles(c *hlib.Ctx) []*model3d.Triangle {
	switch c.Rng.Intn(5) {
	case 0:
		// a closed box: outward normals by the right-hand rule
		a, b := point(c, 2), V{}
		b = a.Add(model3d.XYZ(0.2+c.Rng.Float64()*3, 0.2+c.Rng.Float64()*3, 0.2+c.Rng.Float64()*3))
		return model3d.NewMeshRect(a, b).TriangleSlice()
	case 1:
		// very different areas
		var ts []*model3d.Triangle
		for i := 0; i < 2+c.Rng.Intn(4); i++ {
			o := point(c, 3)
			s := math.Exp(c.Rng.NormFloat64() * 3)
			ts = append(ts, &model3d.Triangle{o, o.Add(unit(c).Scale(s)), o.Add(unit(c).Scale(s))})
		}
		return ts
	}
	var ts []*model3d.Triangle
	for i := 0; i < 1+c.Rng.Intn(6); i++ {
		ts = append(ts, &model3d.Triangle{point(c, 3), point(c, 3), point(c, 3)})
	}
	if c.Rng.Intn(3) == 0 {
		// zero-area triangles among proper ones: they must never be sampled (by a positive draw)
		for i := 0; i < 1+c.Rng.Intn(3); i++ {
			a, b := point(c, 3), point(c, 3)
			switch c.Rng.Intn(3) {
			case 0:
				ts = append(ts, &model3d.Triangle{a, a, b})
			case 1:
				ts = append(ts, &model3d.Triangle{a, b, a.Mid(b)})
			default:
				ts = append(ts, &model3d.Triangle{a, a, a})
			}
		}
		c.Stat("mesh.with-zero-area-triangles", 1)
	}
	return ts
}

func caseMeshLight(c *hlib.Ctx) {
	mesh := model3d.NewMeshTriangles(randomTriangles(c))
	em := color(c)
	light := render3d.NewMeshAreaLight(mesh, em)
	tris := render3d.VerifMeshAreaLightTriangles(light)
	cum, tot := render3d.VerifMeshAreaLightCumuAreas(light)
	u1, u2, u3 := uniform(c), uniform(c), uniform(c)
	if c.Rng.Intn(3) == 0 && tot > 0 {
		// land exactly on / next to a boundary of the cumulative table
		b := cum[c.Rng.Intn(len(cum))] / tot
		k := math.Floor(b*(1<<53)) + float64(c.Rng.Intn(3)-1)
		u1 = math.Min(math.Max(k, 0), (1<<53)-1) / (1 << 53)
		c.Stat("mesh.u-at-table-boundary", 1)
	}
	g, scr := gen(rawU(u1), rawU(u2), rawU(u3))
	p, n, e := light.SampleLight(g)
	if scr.over != 0 || scr.pos != 3 {
		c.PropFail("harness:c19/mesh-draw-count", "MeshAreaLight.SampleLight draw count differs from the modelled 3")
	}
	var sb strings.Builder
	for _, t := range tris {
		sb.WriteString(" " + hv(t[0]) + " " + hv(t[1]) + " " + hv(t[2]))
	}
	c.Emit(fmt.Sprintf("c19 mesh %d%s %s %s %s %s", len(tris), sb.String(), hv(em), hx(u1), hx(u2), hx(u3)),
		fmt.Sprintf("%s %s %s %s", ov(p), ov(n), ov(e), hx(light.TotalEmission())))
	c.Stat(fmt.Sprintf("mesh.triangles=%d", len(tris)), 1)

	// redundant direct evaluation: the point is in some triangle of the light whose normal is the reported one
	ok := false
	for _, t := range tris {
		if t.Normal() != n {
			continue
		}
		diam := t.Max().Sub(t.Min()).Norm()
		if t.Area() <= 1e-9*diam*diam {
			ok = true // numerically degenerate sliver: the distance computation itself is ill-conditioned
		}
		if t.Dist(p) <= 1e-9*(1+diam+p.Norm()) {
			ok = true
		}
	}
	if !finite(n) && u1 != 0 && tot > 0 {
		// a degenerate (zero-area) triangle was selected by a positive draw
		c.PropFail("prop:c19/mesh-sampled-zero-area-triangle", fmt.Sprintf("triangles=%d draws=(%v,%v,%v) point=%v normal=%v", len(tris), u1, u2, u3, p, n))
	}
	if !ok && finite(n) {
		c.PropFail("prop:c19/mesh-sample-off-surface", fmt.Sprintf("triangles=%d draws=(%v,%v,%v) point=%v normal=%v", len(tris), u1, u2, u3, p, n))
	}
}

// ---------------------------------------------------------------------------
// joinedAreaLight: selection by cumulative total emission

type stubLight struct {
	render3d.Object
	id    float64
	total float64
}

func (s *stubLight) SampleLight(gen *rand.Rand) (V, V, render3d.Color) {
	return model3d.XYZ(s.id, 0, 0), model3d.Z(1), V{}
}
func (s *stubLight) TotalEmission() float64 { return s.total }

func stubLights(ws []float64) []render3d.AreaLight {
	obj := &render3d.ColliderObject{Collider: &model3d.Sphere{Radius: 1}, Material: &render3d.LambertMaterial{}}
	ls := make([]render3d.AreaLight, len(ws))
	for i, w := range ws {
		ls[i] = &stubLight{Object: obj, id: float64(i), total: w}
	}
	return ls
}

func weights(c *hlib.Ctx) []float64 {
	k := 1 + c.Rng.Intn(7)
	ws := make([]float64, k)
	for i := range ws {
		switch c.Rng.Intn(6) {
		case 0:
			ws[i] = 0
		case 1:
			ws[i] = float64(1 + c.Rng.Intn(4))
		default:
			ws[i] = math.Exp(c.Rng.NormFloat64() * 2)
		}
	}
	if c.Rng.Intn(8) != 0 {
		ws[c.Rng.Intn(k)] += 0.5 // total > 0 in most cases
	}
	return ws
}

func hxs(xs []float64) string {
	ss := make([]string, len(xs))
	for i, x := range xs {
		ss[i] = hx(x)
	}
	return strings.Join(ss, " ")
}

func caseJoinLights(c *hlib.Ctx) {
	ws := weights(c)
	j := render3d.JoinAreaLights(stubLights(ws)...)
	cum, tot := render3d.VerifJoinedCumuTotals(j)
	u := uniform(c)
	if c.Rng.Intn(3) == 0 && tot > 0 {
		b := cum[c.Rng.Intn(len(cum))] / tot
		k := math.Floor(b*(1<<53)) + float64(c.Rng.Intn(3)-1)
		u = math.Min(math.Max(k, 0), (1<<53)-1) / (1 << 53)
		c.Stat("join.u-at-table-boundary", 1)
	}
	g, _ := gen(rawU(u))
	p, _, _ := j.SampleLight(g)
	c.Emit(fmt.Sprintf("c19 join %d %s %s", len(ws), hxs(ws), hx(u)), fmt.Sprintf("%d %s", int(p.X), hx(j.TotalEmission())))

	// a joined light over REAL lights: weights are the lights' own TotalEmission values
	if c.Rng.Intn(4) == 0 {
		s1 := render3d.NewSphereAreaLight(&model3d.Sphere{Center: point(c, 3), Radius: radius(c)}, model3d.XYZ(1, 0, 0))
		p1 := point(c, 3)
		c1 := render3d.NewCylinderAreaLight(&model3d.Cylinder{P1: p1, P2: p1.Add(unit(c).Scale(1 + c.Rng.Float64())), Radius: radius(c)}, model3d.XYZ(0, 1, 0))
		m1 := render3d.NewMeshAreaLight(model3d.NewMeshTriangles(randomTriangles(c)), model3d.XYZ(0, 0, 1))
		real := render3d.JoinAreaLights(s1, c1, m1)
		tw := []float64{s1.TotalEmission(), c1.TotalEmission(), m1.TotalEmission()}
		vals := []int64{rawU(u)}
		for i := 0; i < 64; i++ {
			vals = append(vals, c.Rng.Int63()>>10<<10)
		}
		g2, _ := gen(vals...)
		_, _, e := real.SampleLight(g2)
		idx := -1
		for i, x := range e.Array() {
			if x == 1 {
				idx = i
			}
		}
		c.Emit(fmt.Sprintf("c19 join %d %s %s", 3, hxs(tw), hx(u)), fmt.Sprintf("%d %s", idx, hx(real.TotalEmission())))
		c.Stat("join.real-lights", 1)
	}
}

// caseSelGrid enumerates a grid of draws and counts how often each part is selected.
func caseSelGrid(c *hlib.Ctx) {
	ws := weights(c)
	if c.Rng.Intn(2) == 0 {
		// small integer weights: frequencies are exactly proportional on a fine enough grid
		for i := range ws {
			ws[i] = float64(c.Rng.Intn(5))
		}
		ws[c.Rng.Intn(len(ws))] += 1
	}
	j := render3d.JoinAreaLights(stubLights(ws)...)
	N := 1 << (4 + c.Rng.Intn(5))
	counts := make([]int, len(ws))
	for i := 0; i < N; i++ {
		g, _ := gen(rawU(float64(i) / float64(N)))
		p, _, _ := j.SampleLight(g)
		counts[int(p.X)]++
	}
	ss := make([]string, len(counts))
	for i, x := range counts {
		ss[i] = fmt.Sprint(x)
	}
	c.Emit(fmt.Sprintf("c19 selgrid %d %s %d", len(ws), hxs(ws), N), strings.Join(ss, ","))
}
