package main

import (
	"fmt"
	"math"
	"sort"
	"strings"

	"verif/harness/hlib"

	"github.com/unixpickle/model3d/model3d"
	"github.com/unixpickle/model3d/render3d"
)

// ---------------------------------------------------------------------------
// Nested JoinAreaLights: a joined light passed to JoinAreaLights again (a lamp
// assembled from parts by a helper, then joined with the other lights of a
// scene).  The leaves are stub lights that report a chosen TotalEmission and
// return their identity as the sampled point.

// ltree is a tree of lights: a leaf (kids == nil) or a join of its kids.
type ltree struct {
	w     float64 // leaf: its TotalEmission
	id    int     // leaf: identity (position in the intended tree, left to right)
	kids  []*ltree
	light render3d.AreaLight // the real object
}

func (t *ltree) leaf() bool { return t.kids == nil }

func (t *ltree) depth() int {
	if t.leaf() {
		return 0
	}
	d := 0
	for _, k := range t.kids {
		if kd := k.depth(); kd > d {
			d = kd
		}
	}
	return d + 1
}

func (t *ltree) leaves(out []*ltree) []*ltree {
	if t.leaf() {
		return append(out, t)
	}
	for _, k := range t.kids {
		out = k.leaves(out)
	}
	return out
}

// number assigns the leaf identities (left to right) and returns the leaves.
func (t *ltree) number() []*ltree {
	ls := t.leaves(nil)
	for i, l := range ls {
		l.id = i
	}
	return ls
}

// shape renders the tree for the replay line, e.g. ((3,5),8).
func (t *ltree) shape(unit float64) string {
	if t.leaf() {
		return fmt.Sprint(t.w / unit)
	}
	ss := make([]string, len(t.kids))
	for i, k := range t.kids {
		ss[i] = k.shape(unit)
	}
	return "(" + strings.Join(ss, ",") + ")"
}

var stubObj = &render3d.ColliderObject{Collider: &model3d.Sphere{Radius: 1}, Material: &render3d.LambertMaterial{}}

// build creates the real lights: nested calls of render3d.JoinAreaLights over stub leaves.
func (t *ltree) build() render3d.AreaLight {
	if t.leaf() {
		t.light = &stubLight{Object: stubObj, id: float64(t.id), total: t.w}
		return t.light
	}
	ls := make([]render3d.AreaLight, len(t.kids))
	for i, k := range t.kids {
		ls[i] = k.build()
	}
	t.light = render3d.JoinAreaLights(ls...)
	return t.light
}

// actualTree reads back the structure the joined light REALLY has (through the hook
// VerifJoinedMembers): the unchanged code keeps a nested join as one member; an implementation
// may as well flatten it.  Leaf weights are the leaves' own TotalEmission().
func actualTree(l render3d.AreaLight) (*ltree, bool) {
	if s, ok := l.(*stubLight); ok {
		return &ltree{w: s.TotalEmission(), id: int(s.id), light: l}, true
	}
	members := render3d.VerifJoinedMembers(l)
	if len(members) == 0 {
		return nil, false
	}
	t := &ltree{light: l, kids: make([]*ltree, len(members))}
	for i, m := range members {
		k, ok := actualTree(m)
		if !ok {
			return nil, false
		}
		t.kids[i] = k
	}
	return t, true
}

// encode renders a tree as protocol tokens: "L <hex weight>" or "J <k> <k subtrees>".
func (t *ltree) encode(sb *strings.Builder) {
	if t.leaf() {
		sb.WriteString(" L " + hx(t.w))
		return
	}
	fmt.Fprintf(sb, " J %d", len(t.kids))
	for _, k := range t.kids {
		k.encode(sb)
	}
}

// encodeInt is encode with the leaf weights as integers (in units).
func (t *ltree) encodeInt(sb *strings.Builder, unit float64) {
	if t.leaf() {
		fmt.Fprintf(sb, " L %d", int(t.w/unit))
		return
	}
	fmt.Fprintf(sb, " J %d", len(t.kids))
	for _, k := range t.kids {
		k.encodeInt(sb, unit)
	}
}

func leafWeight(c *hlib.Ctx) float64 {
	switch c.Rng.Intn(6) {
	case 0:
		return 0
	case 1:
		return float64(1 + c.Rng.Intn(4))
	}
	return math.Exp(c.Rng.NormFloat64() * 2)
}

// randomNest generates a join with general weights; levels = how many more levels of joins may
// follow.  Nested joins with at least two members are frequent.
func randomNest(c *hlib.Ctx, levels int) *ltree {
	k := 1 + c.Rng.Intn(4)
	t := &ltree{kids: make([]*ltree, k)}
	for i := range t.kids {
		if levels > 0 && c.Rng.Intn(2) == 0 {
			t.kids[i] = randomNest(c, levels-1)
		} else {
			t.kids[i] = &ltree{w: leafWeight(c)}
		}
	}
	return t
}

func (t *ltree) hasNestedJoin(min int) bool {
	for _, k := range t.kids {
		if !k.leaf() && (len(k.kids) >= min || k.hasNestedJoin(min)) {
			return true
		}
	}
	return false
}

func (t *ltree) total() float64 {
	if t.leaf() {
		return t.w
	}
	s := 0.0
	for _, k := range t.kids {
		s += k.total()
	}
	return s
}

// goSelect is the member a joinedAreaLight picks for the scaled draw x (harness steering only).
func goSelect(cum []float64, x float64) int {
	i := sort.SearchFloat64s(cum, x)
	if i == len(cum) {
		i--
	}
	return i
}

// steerDraws walks the actual tree and produces one draw per level: inside the interval of a
// randomly chosen member, or on / next to a boundary of the node's cumulative table.
func steerDraws(c *hlib.Ctx, t *ltree) []float64 {
	var us []float64
	for !t.leaf() {
		cum, tot := render3d.VerifJoinedCumuTotals(t.light)
		u := uniform(c)
		if len(cum) == len(t.kids) && tot > 0 && !math.IsInf(tot, 0) {
			i := c.Rng.Intn(len(cum))
			lo := 0.0
			if i > 0 {
				lo = cum[i-1]
			}
			switch c.Rng.Intn(4) {
			case 0:
				k := math.Floor(cum[i]/tot*(1<<53)) + float64(c.Rng.Intn(3)-1)
				u = math.Min(math.Max(k, 0), (1<<53)-1) / (1 << 53)
				c.Stat("jnest.u-at-table-boundary", 1)
			case 1, 2:
				k := math.Floor((lo + c.Rng.Float64()*(cum[i]-lo)) / tot * (1 << 53))
				u = math.Min(math.Max(k, 0), (1<<53)-1) / (1 << 53)
			}
		}
		us = append(us, u)
		i := 0
		if len(cum) == len(t.kids) {
			i = goSelect(cum, u*tot)
		}
		t = t.kids[i]
	}
	return us
}

// caseNestedJoin: the sample map and TotalEmission of a nested join against the model of the
// structure the object really has (hierarchical selection over its own tree of members, one draw
// per level, weights = the leaves' TotalEmission).
func caseNestedJoin(c *hlib.Ctx) {
	t := randomNest(c, 1+c.Rng.Intn(3))
	if c.Rng.Intn(3) != 0 && !t.hasNestedJoin(2) {
		// make sure a nested join with several members is present in most cases
		sub := &ltree{kids: []*ltree{{w: leafWeight(c) + 0.25}, {w: leafWeight(c)}}}
		if c.Rng.Intn(2) == 0 {
			sub.kids = append(sub.kids, &ltree{w: leafWeight(c)})
		}
		at := c.Rng.Intn(len(t.kids) + 1)
		t.kids = append(t.kids[:at], append([]*ltree{sub}, t.kids[at:]...)...)
	}
	orig := t.number()
	if c.Rng.Intn(8) != 0 {
		orig[c.Rng.Intn(len(orig))].w += 0.5 // a positive total in most cases
	}
	root := t.build()
	act, ok := actualTree(root)
	if !ok {
		c.Stat("jnest.unknown-structure-skipped", 1)
		return
	}
	if t.hasNestedJoin(2) {
		c.Stat("jnest.nested-join-with>=2-members", 1)
	}
	if act.depth() < t.depth() {
		c.Stat("jnest.implementation-flattens", 1)
	}
	actLeaves := act.leaves(nil)
	pos := map[int]int{}
	for i, l := range actLeaves {
		pos[l.id] = i
	}
	us := steerDraws(c, act)
	us = append(us, uniform(c), uniform(c))
	raws := make([]int64, len(us))
	for i, u := range us {
		raws[i] = rawU(u)
	}
	var over int
	out := hlib.Guard(func() string {
		g, scr := gen(raws...)
		p, _, _ := root.SampleLight(g)
		over = scr.over
		at, found := pos[int(p.X)]
		if !found {
			at = -1
		}
		return fmt.Sprintf("%d %s", at, hx(root.TotalEmission()))
	})
	if over != 0 {
		c.Stat("jnest.more-draws-than-levels-skipped", 1)
		return
	}
	var sb strings.Builder
	act.encode(&sb)
	c.Emit(fmt.Sprintf("c19 jnest built=%s%s %d %s", t.shape(1), sb.String(), len(us), hxs(us)), out)
	c.Stat(fmt.Sprintf("jnest.depth=%d", t.depth()), 1)

	// redundant, structure-independent: TotalEmission against the sum over the primitive lights
	want := 0.0
	for _, l := range orig {
		want += l.w
	}
	if got := root.TotalEmission(); !near(got, want, 1e-12) && !math.IsInf(want, 0) {
		c.PropFail("prop:c19/nested-join-total-emission", fmt.Sprintf("lights=%s TotalEmission=%v sum-over-lights=%v", t.shape(1), got, want))
	}
}

// ---------------------------------------------------------------------------
// Law-level check, independent of how the implementation structures the join: integer weights
// (times a power of two) with every join's total a power of two, and ALL N^d midpoints
// ((2k+1)/(2N)) of the unit cube of draws.  Every cumulative boundary of every level lies on the
// lattice k/N, every product u*total is exact, no midpoint is on a boundary: each light must be
// reached by exactly N^d * w / T of the draws, and TotalEmission is exactly the sum.

func splitInt(c *hlib.Ctx, w, parts int) []int {
	out := make([]int, parts)
	for i := 0; i < parts-1; i++ {
		out[i] = c.Rng.Intn(w + 1)
		if c.Rng.Intn(5) == 0 {
			out[i] = 0
		}
		w -= out[i]
	}
	out[parts-1] = w
	return out
}

func isPow2(x int) bool { return x > 0 && x&(x-1) == 0 }

// dyadicNest: a join of total w (a power of two, in units) with `levels` more levels allowed.
func dyadicNest(c *hlib.Ctx, w, levels int, unit float64) *ltree {
	t := &ltree{}
	rest := w
	if levels > 0 && w >= 2 {
		p := w / 2
		if w >= 8 && c.Rng.Intn(2) == 0 {
			p = w / 4
		}
		t.kids = append(t.kids, dyadicNest(c, p, levels-1, unit))
		rest -= p
	}
	for _, m := range splitInt(c, rest, 1+c.Rng.Intn(3)) {
		if levels > 0 && isPow2(m) && m >= 2 && c.Rng.Intn(2) == 0 {
			t.kids = append(t.kids, dyadicNest(c, m, levels-1, unit))
		} else {
			t.kids = append(t.kids, &ltree{w: float64(m) * unit})
		}
	}
	c.Rng.Shuffle(len(t.kids), func(i, j int) { t.kids[i], t.kids[j] = t.kids[j], t.kids[i] })
	return t
}

func caseNestedGrid(c *hlib.Ctx) {
	levels := []int{0, 1, 1, 2, 2}[c.Rng.Intn(5)] // 0: a flat join
	a := []int{6 + c.Rng.Intn(4), 5 + c.Rng.Intn(2), 4 + c.Rng.Intn(2)}[levels]
	N := 1 << a
	b := levels + 1 + c.Rng.Intn(a-levels)
	unit := math.Ldexp(1, c.Rng.Intn(9)-4)
	t := dyadicNest(c, 1<<b, levels, unit)
	orig := t.number()
	root := t.build()
	d := t.depth()
	if c.Rng.Intn(3) == 0 && math.Pow(float64(N), float64(d+1)) <= 1<<16 {
		d++ // a spare draw nobody should need
	}
	mid := make([]int64, N)
	for k := range mid {
		mid[k] = rawU(float64(2*k+1) / float64(2*N))
	}
	counts := make([]int, len(orig))
	idx := make([]int, d)
	raws := make([]int64, d)
	over := false
	res := hlib.Guard(func() string {
		for {
			for i, k := range idx {
				raws[i] = mid[k]
			}
			g, scr := gen(raws...)
			p, _, _ := root.SampleLight(g)
			if scr.over != 0 {
				over = true
				return ""
			}
			id := int(p.X)
			if id < 0 || id >= len(counts) || float64(id) != p.X {
				return "unknown-light"
			}
			counts[id]++
			i := 0
			for ; i < d; i++ {
				idx[i]++
				if idx[i] < N {
					break
				}
				idx[i] = 0
			}
			if i == d {
				return ""
			}
		}
	})
	if over {
		c.Stat("jnestgrid.more-draws-than-levels-skipped", 1)
		return
	}
	if res == "" {
		ss := make([]string, len(counts))
		for i, x := range counts {
			ss[i] = fmt.Sprint(x)
		}
		res = strings.Join(ss, ",") + " " + hx(root.TotalEmission())
	}
	var sb strings.Builder
	t.encodeInt(&sb, unit)
	c.Emit(fmt.Sprintf("c19 jnestgrid %s %s %d %d%s", t.shape(unit), hx(unit), N, d, sb.String()), res)
	c.Stat(fmt.Sprintf("jnestgrid.depth=%d", t.depth()), 1)
	if t.hasNestedJoin(2) {
		c.Stat("jnestgrid.nested-join-with>=2-members", 1)
	}
}

// ---------------------------------------------------------------------------
// Nested joins over REAL lights (redundant, tolerance): TotalEmission against the sum of the
// primitive lights' own TotalEmission, and the sampled emission is one of theirs.

func caseNestedReal(c *hlib.Ctx) {
	mk := func() render3d.AreaLight {
		em := color(c).Add(model3d.Ones(0.01))
		switch c.Rng.Intn(3) {
		case 0:
			return render3d.NewSphereAreaLight(&model3d.Sphere{Center: point(c, 3), Radius: radius(c)}, em)
		case 1:
			p1 := point(c, 3)
			return render3d.NewCylinderAreaLight(&model3d.Cylinder{P1: p1, P2: p1.Add(unit(c).Scale(1 + c.Rng.Float64())), Radius: radius(c)}, em)
		}
		return render3d.NewMeshAreaLight(model3d.NewMeshTriangles(randomTriangles(c)), em)
	}
	var prims []render3d.AreaLight
	var build func(levels int) render3d.AreaLight
	build = func(levels int) render3d.AreaLight {
		k := 2 + c.Rng.Intn(2)
		ls := make([]render3d.AreaLight, k)
		for i := range ls {
			if levels > 0 && (i == 0 || c.Rng.Intn(3) == 0) {
				ls[i] = build(levels - 1)
			} else {
				ls[i] = mk()
				prims = append(prims, ls[i])
			}
		}
		c.Rng.Shuffle(k, func(i, j int) { ls[i], ls[j] = ls[j], ls[i] })
		return render3d.JoinAreaLights(ls...)
	}
	root := build(1 + c.Rng.Intn(2))
	want := 0.0
	for _, p := range prims {
		want += p.TotalEmission()
	}
	got := root.TotalEmission()
	if !near(got/want, 1, 1e-9) && want > 0 && !math.IsInf(want, 0) {
		c.PropFail("prop:c19/nested-join-total-emission", fmt.Sprintf("%d real lights (sphere/cylinder/mesh) in nested joins: TotalEmission=%v, sum of the lights' emission x area=%v", len(prims), got, want))
	}
	c.Stat("jnest.real-lights", 1)
}
