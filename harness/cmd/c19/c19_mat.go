package main

import (
	"fmt"
	"math"
	"math/rand"
	"strings"

	"verif/harness/hlib"

	"github.com/unixpickle/model3d/model3d"
	"github.com/unixpickle/model3d/render3d"
)

// ---------------------------------------------------------------------------
// Schlick reflectance

func caseSchlick(c *hlib.Ctx) {
	n := unit(c)
	var s V
	switch c.Rng.Intn(6) {
	case 0:
		s = n // normal incidence
		c.Stat("schlick.normal-incidence", 1)
	case 1:
		s = n.Scale(-1)
		c.Stat("schlick.normal-incidence", 1)
	case 2:
		x, _ := n.OrthoBasis() // grazing
		s = x
		c.Stat("schlick.grazing", 1)
	default:
		s = unit(c)
	}
	i := ior(c)
	mat := &render3d.RefractMaterial{IndexOfRefraction: i}
	got := hlib.Guard(func() string { return hx(render3d.VerifReflectAmount(mat, n, s)) })
	c.Emit(fmt.Sprintf("c19 schlick %s %s %s", hx(i), hv(n), hv(s)), got)
	c.Emit(fmt.Sprintf("c19 schlickg %s %s %s", hx(i), hv(n), hv(s)), got)
	if i < 1 {
		c.Stat("schlick.ior<1", 1)
	} else if i > 1 {
		c.Stat("schlick.ior>1", 1)
	}
}

// ---------------------------------------------------------------------------
// RefractMaterial

func caseRefract(c *hlib.Ctx) {
	n, s := unit(c), unit(c)
	i := ior(c)
	mat := &render3d.RefractMaterial{IndexOfRefraction: i}
	out := render3d.VerifRefract(mat, n, s)
	c.Emit(fmt.Sprintf("c19 refr %s %s %s", hx(i), hv(n), hv(s)), ov(out))
	// which branch: total internal reflection gives the mirror direction
	if out.Dot(n)*s.Dot(n) < 0 {
		c.Stat("refr.total-internal-reflection", 1)
	} else {
		c.Stat("refr.transmitted", 1)
	}
}

func caseRefractMat(c *hlib.Ctx) {
	n, src0 := unit(c), unit(c)
	i := ior(c)
	hasSpec := c.Rng.Intn(3) != 0
	zeroR := c.Rng.Intn(12) == 0
	if zeroR {
		// reflectance exactly 0: equal indices at normal incidence
		i, src0, hasSpec = 1, n, true
		c.Stat("refract.reflectance-zero", 1)
	}
	rc, sc := color(c), V{}
	if hasSpec {
		sc = color(c)
	}
	mat := &render3d.RefractMaterial{IndexOfRefraction: i, RefractColor: rc, SpecularColor: sc}
	head := fmt.Sprintf("%s %s", hx(i), b01(hasSpec))
	u := uniform(c)
	if zeroR && c.Rng.Intn(2) == 0 {
		u = 0
	} else if c.Rng.Intn(3) == 0 {
		// put u right at / next to the reflectance so both sides of the comparison are hit
		r := render3d.VerifReflectAmount(mat, n.Scale(-1), src0)
		k := math.Floor(r * (1 << 53))
		u = math.Min(math.Max(k+float64(c.Rng.Intn(3)-1), 0), (1<<53)-1) / (1 << 53)
	}
	g, sc1 := gen(rawU(u))
	dest := mat.SampleDest(g, n, src0)
	c.Emit(fmt.Sprintf("c19 rsampd %s %s %s %s", head, hv(n), hv(src0), hx(u)), ov(dest))
	want := 0
	if hasSpec {
		want = 1
	}
	if sc1.pos != want || sc1.over != 0 {
		c.PropFail("harness:c19/rsampd-draw-count", fmt.Sprintf("RefractMaterial.SampleDest consumed %d(+%d) draws, modelled %d", sc1.pos, sc1.over, want))
	}
	u2 := uniform(c)
	g2, _ := gen(rawU(u2))
	dest0 := unit(c)
	src := mat.SampleSource(g2, n, dest0)
	c.Emit(fmt.Sprintf("c19 rsamp %s %s %s %s", head, hv(n), hv(dest0), hx(u2)), ov(src))

	pairs := [][2]V{{src0, dest}, {src, dest0}, {unit(c), unit(c)}}
	for pi, p := range pairs {
		if !finite(p[0]) || !finite(p[1]) {
			continue
		}
		sd := mat.SourceDensity(n, p[0], p[1])
		dd := mat.DestDensity(n, p[0], p[1])
		c.Emit(fmt.Sprintf("c19 rdens %s %s %s %s %s", consts(), head, hv(n), hv(p[0]), hv(p[1])), hx(sd))
		c.Emit(fmt.Sprintf("c19 rddens %s %s %s %s %s", consts(), head, hv(n), hv(p[0]), hv(p[1])), hx(dd))
		b := mat.BSDF(n, p[0], p[1])
		c.Emit(fmt.Sprintf("c19 rbsdf %s %s %s %s %s %s %s", consts(), head, hv(rc), hv(sc), hv(n), hv(p[0]), hv(p[1])), ov(b))
		if pi == 0 && dd != 0 {
			c.Stat("refract.destdensity-nonzero-at-own-sample", 1)
		}
		if pi == 0 && dd == 0 {
			// the sampler produced a direction its own density calls impossible
			c.PropFail("prop:c19/refract-zero-density-at-own-sample",
				fmt.Sprintf("ior=%v hasSpec=%v normal=%v source=%v u=%v dest=%v DestDensity=0", i, hasSpec, n, src0, u, dest))
		}
		if pi == 1 && sd == 0 {
			c.PropFail("prop:c19/refract-zero-density-at-own-sample",
				fmt.Sprintf("ior=%v hasSpec=%v normal=%v dest=%v u=%v source=%v SourceDensity=0", i, hasSpec, n, dest0, u2, src))
		}
		if b.Sum() != 0 {
			c.Stat("refract.bsdf-nonzero", 1)
		}
	}
}

// ---------------------------------------------------------------------------
// Lambert

func caseLambert(c *hlib.Ctx) {
	n := unit(c)
	u, u2 := uniform(c), uniform(c)
	mat := &render3d.LambertMaterial{DiffuseColor: color(c)}
	g, _ := gen(rawU(u), rawU(u2))
	s := mat.SampleSource(g, n, unit(c))
	cs, sn := lonUTimes2Pi(u2)
	c.Emit(fmt.Sprintf("c19 lsamp %s %s %s %s", hv(n), hx(u), hx(cs), hx(sn)), ov(s))
	for _, src := range []V{s, unit(c), n.Scale(-1), n} {
		c.Emit(fmt.Sprintf("c19 ldens %s %s", hv(n), hv(src)), hx(mat.SourceDensity(n, src, V{})))
		d := unit(c)
		c.Emit(fmt.Sprintf("c19 lbsdf %s %s %s %s", hv(mat.DiffuseColor), hv(n), hv(src), hv(d)), ov(mat.BSDF(n, src, d)))
	}
	// validate (tolerance; never decides): density at the sample is 4*cos = 4*sqrt(u)
	if d := mat.SourceDensity(n, s, V{}); !near(d, 4*math.Sqrt(u), 1e-9) {
		c.PropFail("validate:c19/lambert-density-at-sample", fmt.Sprintf("normal=%v u=%v density=%v want 4*sqrt(u)=%v", n, u, d, 4*math.Sqrt(u)))
	}
	// generic SampleDest / DestDensity wrappers (non-Asym material)
	g2, _ := gen(rawU(u), rawU(u2))
	sd := render3d.SampleDest(mat, g2, n, unit(c))
	c.Emit(fmt.Sprintf("c19 lsampd %s %s %s %s", hv(n), hx(u), hx(cs), hx(sn)), ov(sd))
	srcX := unit(c)
	c.Emit(fmt.Sprintf("c19 lddens %s %s", hv(n), hv(sd)), hx(render3d.DestDensity(mat, n, srcX, sd)))
}

// ---------------------------------------------------------------------------
// Phong lobe and PhongMaterial

func alphaVal(c *hlib.Ctx) float64 {
	switch c.Rng.Intn(10) {
	case 0:
		return 0
	case 1:
		return 0.5
	case 2:
		return 1
	case 3:
		return 2
	case 4:
		return 10
	case 5:
		return 1e4
	case 6:
		return float64(c.Rng.Intn(200))
	}
	return math.Exp(c.Rng.Float64()*12 - 3)
}

func casePhong(c *hlib.Ctx) {
	alpha := alphaVal(c)
	dir := unit(c)
	u, v := uniform(c), uniform(c)
	g, _ := gen(rawU(u), rawU(v))
	s := render3d.VerifSampleAroundDirection(g, alpha, dir)
	cosLat := math.Pow(v, 1/(alpha+1))
	cs, sn := lon2PiTimesU(u)
	c.Emit(fmt.Sprintf("c19 adsamp %s %s %s %s", hv(dir), hx(cosLat), hx(cs), hx(sn)), ov(s))

	p2of := func(dot float64) float64 {
		p1 := math.Pow(dot, alpha+1)
		return math.Pow(p1, 1/(alpha+1)-1)
	}
	for _, smp := range []V{s, unit(c), dir, dir.Scale(-1)} {
		if !finite(smp) {
			continue
		}
		d := render3d.VerifDensityAroundDirection(alpha, dir, smp)
		c.Emit(fmt.Sprintf("c19 addens %s %s %s %s", hx(alpha), hv(dir), hv(smp), hx(p2of(dir.Dot(smp)))), hx(d))
	}
	// validate (tolerance): density at the sample equals the closed form 2(a+1)cos^a, cos = v^(1/(a+1))
	if finite(s) && cosLat > 1e-3 {
		d := render3d.VerifDensityAroundDirection(alpha, dir, s)
		want := 2 * (alpha + 1) * math.Pow(cosLat, alpha)
		if !near(math.Log1p(d), math.Log1p(want), 1e-6) {
			c.PropFail("validate:c19/phong-lobe-density-at-sample", fmt.Sprintf("alpha=%v dir=%v v=%v density=%v closed form=%v", alpha, dir, v, d, want))
		}
	}

	// PhongMaterial
	hasDiffuse := c.Rng.Intn(2) == 0
	noFlux := c.Rng.Intn(3) == 0
	mat := &render3d.PhongMaterial{Alpha: alpha, SpecularColor: color(c), NoFluxCorrection: noFlux}
	if hasDiffuse {
		mat.DiffuseColor = color(c)
	}
	n, dest := unit(c), unit(c)
	bit := c.Rng.Intn(2)
	a, b := uniform(c), uniform(c)
	var g2 *rand.Rand
	var scr *script
	if hasDiffuse {
		g2, scr = gen(rawBit(bit), rawU(a), rawU(b))
	} else {
		g2, scr = gen(rawU(a), rawU(b))
	}
	src := mat.SampleSource(g2, n, dest)
	var cl, c2, s2 float64
	if !hasDiffuse || bit == 0 {
		cl = math.Pow(b, 1/(alpha+1))
		c2, s2 = lon2PiTimesU(a)
		c.Stat("phong.sample-specular", 1)
	} else {
		c2, s2 = lonUTimes2Pi(b)
		c.Stat("phong.sample-diffuse", 1)
	}
	c.Emit(fmt.Sprintf("c19 psamp %s %d %s %s %s %s %s %s", b01(hasDiffuse), bit, hv(n), hv(dest), hx(cl), hx(a), hx(c2), hx(s2)), ov(src))
	if scr.over != 0 {
		c.PropFail("harness:c19/psamp-draw-count", "PhongMaterial.SampleSource consumed more draws than modelled")
	}
	for _, sv := range []V{src, unit(c)} {
		if !finite(sv) {
			continue
		}
		refl := n.Reflect(dest).Scale(-1)
		c.Emit(fmt.Sprintf("c19 pdens %s %s %s %s %s %s", b01(hasDiffuse), hx(alpha), hv(n), hv(sv), hv(dest), hx(p2of(refl.Dot(sv)))),
			hx(mat.SourceDensity(n, sv, dest)))
		refDot := n.Reflect(sv).Scale(-1).Dot(dest)
		c.Emit(fmt.Sprintf("c19 pbsdf %s %s %s %s %s %s %s %s %s %s", consts(), hx(alpha), b01(noFlux), b01(hasDiffuse),
			hv(mat.SpecularColor), hv(mat.DiffuseColor), hv(n), hv(sv), hv(dest), hx(math.Pow(refDot, alpha))),
			ov(mat.BSDF(n, sv, dest)))
	}
	// maximumCosine
	m1, m2 := c.Rng.Float64()*2-1, c.Rng.Float64()*2-1
	if c.Rng.Intn(4) == 0 {
		m1, m2 = m1*1e-8, m2*1e-9
	}
	c.Emit(fmt.Sprintf("c19 maxcos %s %s %s", consts(), hx(m1), hx(m2)), hx(render3d.VerifMaximumCosine(m1, m2)))
}

// ---------------------------------------------------------------------------
// Henyey-Greenstein

func gVal(c *hlib.Ctx) float64 {
	switch c.Rng.Intn(10) {
	case 0:
		return 0
	case 1:
		return 1e-6 * (c.Rng.Float64()*2 - 1)
	case 2:
		return 0.5
	case 3:
		return -0.9
	case 4:
		return 1
	case 5:
		return -1
	case 6:
		return c.Rng.Float64()*4 - 2
	}
	return c.Rng.Float64()*2 - 1
}

func caseHG(c *hlib.Ctx) {
	g0 := gVal(c)
	mat := &render3d.HGMaterial{G: g0, ScatterColor: color(c), IgnoreNormals: true}
	dest := unit(c)
	u, u2 := uniform(c), uniform(c)
	gn, _ := gen(rawU(u), rawU(u2))
	s := mat.SampleSource(gn, unit(c), dest)
	alpha := u2 * math.Pi * 2
	if u == 0 || u == float64((1<<53)-1)/(1<<53) || u == 1.0/(1<<53) {
		c.Stat("hg.u-extreme", 1)
	}
	if !finite(s) || !near(s.Norm(), 1, 1e-6) {
		// the sampler's output is not a direction (valid parameters: numericalG clamps any G, u in [0,1))
		c.PropFail("prop:c19/hg-sample-not-a-direction", fmt.Sprintf("G=%v dest=%v u=%v u2=%v sample=%v", g0, dest, u, u2, s))
	}
	c.Emit(fmt.Sprintf("c19 hgsamp %s %s %s %s %s %s", consts(), hx(g0), hv(dest), hx(u), hx(math.Cos(alpha)), hx(math.Sin(alpha))), ov(s))
	c.Emit(fmt.Sprintf("c19 hgnum %s %s", consts(), hx(g0)), hx(render3d.VerifHGNumericalG(mat)))
	g := render3d.VerifHGNumericalG(mat)
	for _, sv := range []V{s, unit(c), dest, dest.Scale(-1)} {
		if !finite(sv) {
			continue
		}
		cos := sv.Dot(dest)
		g2 := g * g
		divisor := 1 + g2 - 2*g*cos
		p := math.Pow(divisor, 3.0/2.0)
		c.Emit(fmt.Sprintf("c19 hgdens %s %s %s %s %s", consts(), hx(g0), hv(sv), hv(dest), hx(p)),
			hx(divisor)+" "+hx(mat.SourceDensity(V{}, sv, dest)))
	}
	// BSDF (with and without the normal-cosine cancellation)
	for _, ign := range []bool{true, false} {
		m2 := &render3d.HGMaterial{G: g0, ScatterColor: mat.ScatterColor, IgnoreNormals: ign}
		nn, sv := unit(c), unit(c)
		if c.Rng.Intn(5) == 0 {
			sv, _ = nn.OrthoBasis() // source.normal == 0: the 1e-5 floor
		}
		cos := sv.Dot(dest)
		p := math.Pow(1+g*g-2*g*cos, 3.0/2.0)
		c.Emit(fmt.Sprintf("c19 hgbsdf %s %s %s %s %s %s %s %s", consts(), hx(g0), hv(m2.ScatterColor), b01(ign), hv(nn), hv(sv), hv(dest), hx(p)),
			ov(m2.BSDF(nn, sv, dest)))
	}
	// validate (tolerance): the closed-form CDF of the density, evaluated at the sampled cosine, returns u
	if finite(s) && math.Abs(g) < 0.99 && math.Abs(g) > 1e-3 {
		cos := s.Dot(dest)
		cdf := (1 - g*g) / (2 * g) * (1/math.Sqrt(1+g*g-2*g*cos) - 1/(1+g))
		if !near(cdf, u, 1e-6) {
			c.PropFail("validate:c19/hg-cdf-at-sample", fmt.Sprintf("g=%v dest=%v u=%v cos=%v cdf=%v", g0, dest, u, cos, cdf))
		}
	}
}

// ---------------------------------------------------------------------------
// JoinedMaterial (mixtures), with marker lobes

// Marker directions the harness passes to the joined material: a lobe answers with its
// own density / marker sample only when it is called with the arguments the property
// requires (SourceDensity(n, s, d) for source sampling; for destination sampling either the
// lobe's own DestDensity(n, s, d) / SampleDest(n, s) when it is an AsymMaterial, or the generic
// wrapper SourceDensity(n, -d, -s) / -SampleSource(n, -s)).
var (
	jN = model3d.XYZ(0, 0, 1)
	jS = model3d.XYZ(0.6, 0, -0.8)
	jD = model3d.XYZ(0, 0.8, 0.6)
)

type stubMat struct {
	id    float64
	dens  float64 // source density
	ddens float64 // destination density
	bsdf  V
}

func (s *stubMat) BSDF(normal, source, dest V) render3d.Color {
	if normal == jN && source == jS && dest == jD {
		return s.bsdf
	}
	return model3d.Ones(9999)
}
func (s *stubMat) SampleSource(gen *rand.Rand, normal, dest V) V {
	if normal == jN && (dest == jD || dest == jS.Scale(-1)) {
		return model3d.XYZ(s.id, 0, 0)
	}
	return model3d.XYZ(9999, 0, 0)
}
func (s *stubMat) SourceDensity(normal, source, dest V) float64 {
	if normal == jN && source == jS && dest == jD {
		return s.dens
	}
	if normal == jN && source == jD.Scale(-1) && dest == jS.Scale(-1) {
		return s.ddens
	}
	return 9999
}
func (s *stubMat) Emission() render3d.Color { return V{} }
func (s *stubMat) Ambient() render3d.Color  { return V{} }

// stubAsym is a lobe with its own destination sampler and density.
type stubAsym struct{ stubMat }

func (s *stubAsym) SampleDest(gen *rand.Rand, normal, source V) V {
	if normal == jN && source == jS {
		return model3d.XYZ(-s.id, 0, 0)
	}
	return model3d.XYZ(9999, 0, 0)
}
func (s *stubAsym) DestDensity(normal, source, dest V) float64 {
	if normal == jN && source == jS && dest == jD {
		return s.ddens
	}
	return 9999
}
func (s *stubAsym) SourceDensity(normal, source, dest V) float64 {
	if normal == jN && source == jS && dest == jD {
		return s.dens
	}
	return 9999 // an AsymMaterial must not be asked through the generic wrapper
}

func caseJoinedMat(c *hlib.Ctx) {
	k := 1 + c.Rng.Intn(5)
	exact := c.Rng.Intn(2) == 0
	probs := make([]float64, k)
	dens := make([]float64, k)
	ddens := make([]float64, k)
	mats := make([]render3d.Material, k)
	var bsdfs []string
	var u float64
	if exact {
		// dyadic: sixteenths summing to one (zeros allowed)
		left := 16
		for i := 0; i < k; i++ {
			p := c.Rng.Intn(left + 1)
			if i == k-1 {
				p = left
			}
			probs[i] = float64(p) / 16
			left -= p
			dens[i] = float64(c.Rng.Intn(65)) / 8
			ddens[i] = float64(c.Rng.Intn(65)) / 8
		}
		u = float64(c.Rng.Intn(64)) / 64
	} else {
		sum := 0.0
		for i := range probs {
			probs[i] = c.Rng.Float64()
			if c.Rng.Intn(6) == 0 {
				probs[i] = 0
			}
			sum += probs[i]
			dens[i] = c.Rng.Float64() * 8
			ddens[i] = c.Rng.Float64() * 8
		}
		if sum == 0 {
			probs[0], sum = 1, 1
		}
		for i := range probs {
			probs[i] /= sum
		}
		u = uniform(c)
	}
	for i := range mats {
		sm := stubMat{id: float64(i + 1), dens: dens[i], ddens: ddens[i], bsdf: color(c)}
		bsdfs = append(bsdfs, hv(sm.bsdf))
		if c.Rng.Intn(3) == 0 {
			mats[i] = &stubAsym{sm}
			c.Stat("joinedmat.asym-lobe", 1)
		} else {
			mats[i] = &sm
		}
	}
	jm := &render3d.JoinedMaterial{Materials: mats, Probs: probs}
	c.Emit(fmt.Sprintf("c19 jbsdf %d %s", k, strings.Join(bsdfs, " ")), ov(jm.BSDF(jN, jS, jD)))
	g1, _ := gen(rawU(u))
	idx := int(jm.SampleSource(g1, jN, jD).X) - 1
	g2, _ := gen(rawU(u))
	idx2 := int(-jm.SampleDest(g2, jN, jS).X) - 1
	sd := jm.SourceDensity(jN, jS, jD)
	dd := jm.DestDensity(jN, jS, jD)
	if exact {
		f := func(xs []float64) string {
			ss := make([]string, len(xs))
			for i, x := range xs {
				ss[i] = hlib.RatStr(x)
			}
			return strings.Join(ss, " ")
		}
		c.Emit(fmt.Sprintf("c19 jselQ %d %s %s", k, f(probs), hlib.RatStr(u)), fmt.Sprintf("%d %d", idx, idx2))
		c.Emit(fmt.Sprintf("c19 jdensQ %d %s %s %s", k, f(probs), f(dens), f(ddens)), hlib.RatStr(sd)+" "+hlib.RatStr(dd))
		c.Stat("joinedmat.exact", 1)
	} else {
		c.Emit(fmt.Sprintf("c19 jsel %d %s %s", k, hxs(probs), hx(u)), fmt.Sprintf("%d %d", idx, idx2))
		c.Emit(fmt.Sprintf("c19 jdens %d %s %s %s", k, hxs(probs), hxs(dens), hxs(ddens)), hx(sd)+" "+hx(dd))
	}
	c.Stat(fmt.Sprintf("joinedmat.lobes=%d", k), 1)
}

// ---------------------------------------------------------------------------
// Focus points

func caseFocus(c *hlib.Ctx) {
	center := point(c, 3)
	r := radius(c)
	focus := c.Rng.Intn(5) != 0
	fp := &render3d.SphereFocusPoint{Center: center, Radius: r}
	if !focus || c.Rng.Intn(4) == 0 {
		fp.MaterialFilter = func(render3d.Material) bool { return focus }
	}
	var p V
	if c.Rng.Intn(5) == 0 {
		p = center.Add(unit(c).Scale(r * c.Rng.Float64())) // inside
		c.Stat("focus.inside", 1)
	} else {
		far := 1 + c.Rng.Float64()*4
		if c.Rng.Intn(3) == 0 {
			// a small / distant focus sphere ("a star"): angular radius down to 1e-7 rad
			far = math.Exp(c.Rng.Float64() * math.Log(1e7))
			c.Stat("focus.far", 1)
		}
		p = center.Add(unit(c).Scale(r * far))
		c.Stat("focus.outside", 1)
	}
	if p == center {
		return
	}
	if !focus {
		c.Stat("focus.filtered-out", 1)
	}
	minCos, dir := render3d.VerifFocusInfo(fp, p)
	if 1-minCos < render3d.VerifCosineEpsilon && minCos < 1 {
		c.Stat("focus.cone-narrower-than-cosineEpsilon", 1)
	}
	c.Emit(fmt.Sprintf("c19 finfo %s %s %s", hv(center), hx(r), hv(p)), hx(minCos)+" "+ov(dir))

	u, u2 := uniform(c), uniform(c)
	g, _ := gen(rawU(u), rawU(u2))
	s := render3d.VerifSampleAroundUniform(g, minCos, dir)
	arg := 1 - u*(1-minCos)
	lat := math.Acos(arg)
	cs, sn := lonUTimes2Pi(u2)
	c.Emit(fmt.Sprintf("c19 ausamp %s %s %s %s %s %s %s", hx(minCos), hx(u), hv(dir), hx(math.Cos(lat)), hx(math.Sin(lat)), hx(cs), hx(sn)),
		hx(arg)+" "+ov(s))
	if finite(s) && !near(dir.Dot(s), arg, 1e-9) {
		c.PropFail("validate:c19/cap-sample-cosine", fmt.Sprintf("minCos=%v u=%v dir=%v cos(sample)=%v want %v", minCos, u, dir, dir.Dot(s), arg))
	}
	mat := &render3d.LambertMaterial{}
	n := unit(c)
	// the public sampler: inside the sphere / filtered out it must be the material's own sampler
	g3, _ := gen(rawU(u), rawU(u2))
	fs := fp.SampleFocus(g3, mat, p, n, V{})
	c.Emit(fmt.Sprintf("c19 fsamp %s %s %s %s %s %s %s %s %s %s", hv(center), hx(r), hv(p), b01(focus), hv(n), hx(u),
		hx(math.Cos(lat)), hx(math.Sin(lat)), hx(cs), hx(sn)), ov(fs))
	for _, sv := range []V{s, fs, unit(c), dir} {
		if !finite(sv) {
			continue
		}
		c.Emit(fmt.Sprintf("c19 audens %s %s %s", hx(minCos), hv(dir), hv(sv)), hx(render3d.VerifDensityAroundUniform(minCos, dir, sv)))
		c.Emit(fmt.Sprintf("c19 fdens %s %s %s %s %s %s", hv(center), hx(r), hv(p), b01(focus), hv(n), hv(sv)), hx(fp.FocusDensity(mat, p, n, sv, V{})))
	}
	if finite(fs) && fp.FocusDensity(mat, p, n, fs, V{}) == 0 && u != 0 && u < 1-1e-9 && (1-u)*(1-minCos) > 1e-12 { // (u -> 1 is the rim of the cap: rounding decides the side)
		c.PropFail("prop:c19/focus-zero-density-at-own-sample", fmt.Sprintf("center=%v radius=%v point=%v focus=%v normal=%v draws=(%v,%v) sample=%v", center, r, p, focus, n, u, u2, fs))
	}

	// PhongFocusPoint
	alpha := alphaVal(c)
	target := point(c, 3)
	pp := point(c, 3)
	if c.Rng.Intn(8) == 0 {
		pp = target
		c.Stat("phongfocus.point==target", 1)
	}
	pfocus := c.Rng.Intn(5) != 0
	pf := &render3d.PhongFocusPoint{Target: target, Alpha: alpha}
	if !pfocus || c.Rng.Intn(4) == 0 {
		pf.MaterialFilter = func(render3d.Material) bool { return pfocus }
	}
	a, b := uniform(c), uniform(c)
	g4, _ := gen(rawU(a), rawU(b))
	ps := pf.SampleFocus(g4, mat, pp, n, V{})
	cL, sL := lonUTimes2Pi(b)
	cD, sD := lon2PiTimesU(a)
	cosLat := math.Pow(b, 1/(alpha+1))
	c.Emit(fmt.Sprintf("c19 pfsamp %s %s %s %s %s %s %s %s %s %s", hv(target), hv(pp), b01(pfocus), hv(n), hx(a), hx(cL), hx(sL), hx(cosLat), hx(cD), hx(sD)), ov(ps))
	pdir := pp.Sub(target).Normalize()
	for _, sv := range []V{ps, unit(c)} {
		if !finite(sv) {
			continue
		}
		p1 := math.Pow(pdir.Dot(sv), alpha+1)
		p2 := math.Pow(p1, 1/(alpha+1)-1)
		c.Emit(fmt.Sprintf("c19 pfdens %s %s %s %s %s %s %s", hv(target), hv(pp), b01(pfocus), hx(alpha), hv(n), hv(sv), hx(p2)),
			hx(pf.FocusDensity(mat, pp, n, sv, V{})))
	}
}
