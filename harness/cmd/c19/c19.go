// Command c19 is the correspondence harness for property C19 ("materials and
// lights sample what their densities say").  It drives the REAL render3d
// samplers with the randomness scripted: every sampler takes a *rand.Rand, and
// the harness hands it a rand.Source that replays harness-chosen raw values, so
// that gen.Float64(), gen.Intn(2) and gen.NormFloat64() return known values.
// Each case is one line; the Lean driver (drv_c19) evaluates the executable
// model of M3d/Model/RenderSampling.lean on the same line (Float run: bit for
// bit; Rat run: exact).
//
// libm results (cos/sin/pow/acos) are computed here with the expression the
// Go code uses and passed to the model as arguments ("oracle" tokens); they are
// never recomputed in Lean.  Tolerance comparisons exist only as redundant
// "validate:" checks of closed forms and never decide the property.
package main

import (
	"fmt"
	"math"
	"math/rand"
	"strings"

	"verif/harness/hlib"

	"github.com/unixpickle/model3d/model3d"
	"github.com/unixpickle/model3d/render3d"
)

func main() { hlib.Main("C19", run) }

type V = model3d.Coord3D

// ---------------------------------------------------------------------------
// scripted randomness

// script is a rand.Source replaying chosen raw 63-bit values.
type script struct {
	vals []int64
	pos  int
	over int // draws past the end of the script (a sampler consumed more than modelled)
}

func (s *script) Int63() int64 {
	if s.pos < len(s.vals) {
		v := s.vals[s.pos]
		s.pos++
		return v
	}
	s.over++
	return 0
}
func (s *script) Seed(int64) {}

// rawU is the raw value for which gen.Float64() returns u (u = k/2^53).
func rawU(u float64) int64 {
	v := int64(u * (1 << 63))
	if got := rand.New(&script{vals: []int64{v}}).Float64(); got != u {
		panic(fmt.Sprintf("harness: math/rand.Float64 no longer maps raw %d to %v (got %v)", v, u, got))
	}
	return v
}

// rawBit is the raw value for which gen.Intn(2) returns b.
func rawBit(b int) int64 {
	v := int64(b) << 32
	if got := rand.New(&script{vals: []int64{v}}).Intn(2); got != b {
		panic("harness: math/rand.Intn(2) mapping changed")
	}
	return v
}

func gen(vals ...int64) (*rand.Rand, *script) {
	s := &script{vals: vals}
	return rand.New(s), s
}

// uniform draws k/2^53, with edge cases.
func uniform(c *hlib.Ctx) float64 {
	switch c.Rng.Intn(24) {
	case 0:
		return 0
	case 1:
		return float64((1<<53)-1) / (1 << 53)
	case 2:
		return 0.5
	case 3:
		return 1.0 / (1 << 53)
	case 4:
		return float64(c.Rng.Intn(16)) / 16
	}
	return float64(c.Rng.Int63n(1<<53)) / (1 << 53)
}

// ---------------------------------------------------------------------------
// formatting

func hx(x float64) string {
	if math.IsNaN(x) {
		return "nan"
	}
	return hlib.Hex(x)
}
func hv(v V) string       { return hx(v.X) + " " + hx(v.Y) + " " + hx(v.Z) }
func ov(v V) string       { return hx(v.X) + "," + hx(v.Y) + "," + hx(v.Z) }
func b01(b bool) string {
	if b {
		return "1"
	}
	return "0"
}

func consts() string {
	return strings.Join([]string{hx(render3d.VerifCosineEpsilon), hx(render3d.VerifOneMinusCosineEpsilon),
		hx(render3d.VerifTwoOverCosineEpsilon), hx(math.Pi), hx(hgEps), hx(hgMax)}, " ")
}

// The HGMaterial constants cannot be exported (they are literals inside the method
// bodies); they are probed from the real numericalG on every run instead.
var hgEps, hgMax float64

func probeHG() {
	hgEps = render3d.VerifHGNumericalG(&render3d.HGMaterial{G: 0})
	hgMax = render3d.VerifHGNumericalG(&render3d.HGMaterial{G: 1})
}

// ---------------------------------------------------------------------------
// generators

func unit(c *hlib.Ctx) V {
	switch c.Rng.Intn(12) {
	case 0:
		ax := []V{{X: 1}, {Y: 1}, {Z: 1}, {X: -1}, {Y: -1}, {Z: -1}}
		return ax[c.Rng.Intn(6)]
	case 1:
		// ties between the absolute values (OrthoBasis branch boundaries)
		s := 1 / math.Sqrt(2)
		t := []V{{X: s, Y: s}, {X: s, Z: -s}, {Y: s, Z: s}, {X: -s, Y: s}, {Y: -s, Z: s}}
		return t[c.Rng.Intn(len(t))]
	case 2:
		s := 1 / math.Sqrt(3)
		return V{X: s, Y: s, Z: s}
	}
	for {
		v := model3d.XYZ(c.Rng.NormFloat64(), c.Rng.NormFloat64(), c.Rng.NormFloat64())
		if n := v.Norm(); n > 0.05 {
			return v.Normalize()
		}
	}
}

func point(c *hlib.Ctx, span float64) V {
	if c.Rng.Intn(6) == 0 {
		return model3d.XYZ(float64(c.Rng.Intn(7)-3), float64(c.Rng.Intn(7)-3), float64(c.Rng.Intn(7)-3))
	}
	return model3d.XYZ((c.Rng.Float64()*2-1)*span, (c.Rng.Float64()*2-1)*span, (c.Rng.Float64()*2-1)*span)
}

func radius(c *hlib.Ctx) float64 {
	switch c.Rng.Intn(8) {
	case 0:
		return 1
	case 1:
		return 0.5
	case 2:
		return 2
	case 3:
		return math.Exp(c.Rng.NormFloat64() * 3)
	}
	return 0.05 + c.Rng.Float64()*5
}

func color(c *hlib.Ctx) V {
	if c.Rng.Intn(5) == 0 {
		return model3d.Ones(1)
	}
	return model3d.XYZ(c.Rng.Float64()*3, c.Rng.Float64()*3, c.Rng.Float64()*3)
}

func ior(c *hlib.Ctx) float64 {
	switch c.Rng.Intn(10) {
	case 0:
		return 1
	case 1:
		return 1.5
	case 2:
		return 1.0 / 1.5
	case 3:
		return 1.3
	case 4:
		return 0.05 + c.Rng.Float64()*0.95
	case 5:
		return math.Exp(c.Rng.NormFloat64() * 2)
	}
	return 1 + c.Rng.Float64()*2
}

// lon returns (cos, sin) of u*2*pi computed as LambertMaterial/HGMaterial/lights do.
func lonUTimes2Pi(u float64) (float64, float64) {
	lon := u * 2 * math.Pi
	return math.Cos(lon), math.Sin(lon)
}

// lon2PiTimesU returns (cos, sin) of 2*pi*u computed as sampleAroundDirection does.
func lon2PiTimesU(u float64) (float64, float64) {
	lon := 2 * math.Pi * u
	return math.Cos(lon), math.Sin(lon)
}

func near(a, b, rel float64) bool {
	d := math.Abs(a - b)
	return d <= rel*math.Max(1, math.Max(math.Abs(a), math.Abs(b)))
}

func finite(v V) bool {
	return !math.IsNaN(v.Sum()) && !math.IsInf(v.Sum(), 0)
}

// ---------------------------------------------------------------------------

func run(c *hlib.Ctx) {
	probeHG()
	n := c.N
	each := func(k int, f func()) {
		for i := 0; i < k; i++ {
			f()
		}
	}
	each(n, func() { caseSchlick(c) })
	each(n/2, func() { caseRefract(c) })
	each(n, func() { caseRefractMat(c) })
	each(n/2, func() { caseLambert(c) })
	each(n/2, func() { casePhong(c) })
	each(n/2, func() { caseHG(c) })
	each(n/2, func() { caseJoinedMat(c) })
	each(n/3, func() { caseFocus(c) })
	each(n/2, func() { caseSphereLight(c) })
	each(n, func() { caseCylinderLight(c) })
	each(n/2, func() { caseMeshLight(c) })
	each(n/2, func() { caseJoinLights(c) })
	each(1+n/100, func() { caseSelGrid(c) })
	each(n/2, func() { caseNestedJoin(c) })
	each(6+n/20, func() { caseNestedGrid(c) })
	each(n/10, func() { caseNestedReal(c) })
}
