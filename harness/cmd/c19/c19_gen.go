package main

import (
	"fmt"
	"go/ast"
	"go/parser"
	"go/token"
	"path/filepath"
	"strings"

	"verif/harness/hlib"
)

// Generator "ReflectAmount": translate the body of RefractMaterial.reflectAmount in
// <repo>/render3d/material.go into a Lean definition (lean/M3d/Gen/ReflectAmount.lean).
// The translator is deliberately tiny: short variable declarations and one return, over
// + - * /, parentheses, the literals 0 1 2 4, locals, r.IndexOfRefraction,
// math.Pow(e, 5), math.Abs(e) and normal.Dot(source).  Anything else is an error, i.e. a
// broken tie that the check reports.

func init() { hlib.Generators["ReflectAmount"] = genReflectAmount }

type xlate struct {
	recv   string
	params map[string]string
	locals map[string]bool
}

func (x *xlate) expr(e ast.Expr) (string, error) {
	switch e := e.(type) {
	case *ast.ParenExpr:
		return x.expr(e.X)
	case *ast.BasicLit:
		if e.Kind == token.INT && (e.Value == "0" || e.Value == "1" || e.Value == "2" || e.Value == "4") {
			return e.Value, nil
		}
		return "", fmt.Errorf("unsupported literal %s", e.Value)
	case *ast.Ident:
		if x.locals[e.Name] {
			return e.Name, nil
		}
		if p, ok := x.params[e.Name]; ok {
			return p, nil
		}
		return "", fmt.Errorf("unknown identifier %s", e.Name)
	case *ast.SelectorExpr:
		if id, ok := e.X.(*ast.Ident); ok && id.Name == x.recv && e.Sel.Name == "IndexOfRefraction" {
			return "ior", nil
		}
		return "", fmt.Errorf("unsupported selector")
	case *ast.BinaryExpr:
		op := map[token.Token]string{token.ADD: "+", token.SUB: "-", token.MUL: "*", token.QUO: "/"}[e.Op]
		if op == "" {
			return "", fmt.Errorf("unsupported operator %s", e.Op)
		}
		a, err := x.expr(e.X)
		if err != nil {
			return "", err
		}
		b, err := x.expr(e.Y)
		if err != nil {
			return "", err
		}
		return "(" + a + " " + op + " " + b + ")", nil
	case *ast.CallExpr:
		sel, ok := e.Fun.(*ast.SelectorExpr)
		if !ok {
			return "", fmt.Errorf("unsupported call")
		}
		recv, _ := sel.X.(*ast.Ident)
		if recv == nil {
			return "", fmt.Errorf("unsupported call receiver")
		}
		switch {
		case recv.Name == "math" && sel.Sel.Name == "Pow" && len(e.Args) == 2:
			if lit, ok := e.Args[1].(*ast.BasicLit); !ok || lit.Value != "5" {
				return "", fmt.Errorf("math.Pow with an exponent other than the literal 5")
			}
			a, err := x.expr(e.Args[0])
			if err != nil {
				return "", err
			}
			return "(pow5 " + a + ")", nil
		case recv.Name == "math" && sel.Sel.Name == "Abs" && len(e.Args) == 1:
			a, err := x.expr(e.Args[0])
			if err != nil {
				return "", err
			}
			return "(absS " + a + ")", nil
		case sel.Sel.Name == "Dot" && len(e.Args) == 1:
			a, err := x.expr(sel.X)
			if err != nil {
				return "", err
			}
			b, err := x.expr(e.Args[0])
			if err != nil {
				return "", err
			}
			return "(V3.dot " + a + " " + b + ")", nil
		}
		return "", fmt.Errorf("unsupported call %s.%s", recv.Name, sel.Sel.Name)
	}
	return "", fmt.Errorf("unsupported expression %T", e)
}

func genReflectAmount(repoRoot string) (string, error) {
	fset := token.NewFileSet()
	f, err := parser.ParseFile(fset, filepath.Join(repoRoot, "render3d", "material.go"), nil, 0)
	if err != nil {
		return "", err
	}
	for _, d := range f.Decls {
		fd, ok := d.(*ast.FuncDecl)
		if !ok || fd.Name.Name != "reflectAmount" || fd.Recv == nil || len(fd.Recv.List) != 1 {
			continue
		}
		x := &xlate{params: map[string]string{}, locals: map[string]bool{}}
		if len(fd.Recv.List[0].Names) == 1 {
			x.recv = fd.Recv.List[0].Names[0].Name
		}
		var names []string
		for _, p := range fd.Type.Params.List {
			for _, n := range p.Names {
				names = append(names, n.Name)
			}
		}
		if len(names) != 2 {
			return "", fmt.Errorf("reflectAmount: expected (normal, source) parameters, got %v", names)
		}
		x.params[names[0]], x.params[names[1]] = "normal", "source"
		var sb strings.Builder
		sb.WriteString("import M3d.Model.RenderSampling\n")
		sb.WriteString("/-! GENERATED from /repo/render3d/material.go (RefractMaterial.reflectAmount) by `harness/cmd/c19 -gen ReflectAmount`.\nDo not edit: it is regenerated from the current source on every check. -/\n")
		sb.WriteString("namespace M3d.Gen.ReflectAmount\nopen M3d.RS\n\n")
		sb.WriteString("def reflectAmount {α : Type} [Add α] [Sub α] [Mul α] [Div α] [Neg α] [LT α] [DecidableLT α]\n")
		sb.WriteString("    [OfNat α 0] [OfNat α 1] [OfNat α 2] [OfNat α 4] (ior : α) (normal source : V3 α) : α :=\n")
		returned := false
		for _, st := range fd.Body.List {
			switch st := st.(type) {
			case *ast.AssignStmt:
				if st.Tok != token.DEFINE || len(st.Lhs) != 1 || len(st.Rhs) != 1 {
					return "", fmt.Errorf("reflectAmount: unsupported assignment")
				}
				id, ok := st.Lhs[0].(*ast.Ident)
				if !ok {
					return "", fmt.Errorf("reflectAmount: unsupported assignment target")
				}
				e, err := x.expr(st.Rhs[0])
				if err != nil {
					return "", fmt.Errorf("reflectAmount: %v", err)
				}
				x.locals[id.Name] = true
				fmt.Fprintf(&sb, "  let %s : α := %s\n", id.Name, e)
			case *ast.ReturnStmt:
				if len(st.Results) != 1 {
					return "", fmt.Errorf("reflectAmount: unsupported return")
				}
				e, err := x.expr(st.Results[0])
				if err != nil {
					return "", fmt.Errorf("reflectAmount: %v", err)
				}
				fmt.Fprintf(&sb, "  %s\n", e)
				returned = true
			default:
				return "", fmt.Errorf("reflectAmount: unsupported statement %T", st)
			}
		}
		if !returned {
			return "", fmt.Errorf("reflectAmount: no return statement")
		}
		sb.WriteString("\nend M3d.Gen.ReflectAmount\n")
		return sb.String(), nil
	}
	return "", fmt.Errorf("RefractMaterial.reflectAmount not found in render3d/material.go")
}
