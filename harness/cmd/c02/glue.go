package main

import (
	"fmt"
	"math"
	"sort"
	"strings"

	"github.com/unixpickle/model3d/model2d"
	"github.com/unixpickle/model3d/model3d"
	"verif/harness/hlib"
)

// ---- the wrappers round the meshers: MarchingCubesConj / MarchingSquaresConj (mesh in a
// transformed space, map the mesh back) and MarchingSquaresC2F / MarchingCubesC2F (coarse mesh as
// the region filter of the fine one).  Everything is exact: dyadic solids, dyadic transforms whose
// inverses are dyadic (translations, scales by powers of two of either sign, signed permutation
// matrices, shears, diagonal matrices), so the real vertices must EQUAL the model's rationals.

// xf is one member of the transform list handed to the Conj functions.
type xf struct {
	kind string // T S V M
	p    []float64
}

func (x xf) String() string {
	s := make([]string, len(x.p))
	for i, v := range x.p {
		s[i] = hlib.RatStr(v)
	}
	return x.kind + " " + strings.Join(s, " ")
}

func (x xf) real3() model3d.Transform {
	switch x.kind {
	case "T":
		return &model3d.Translate{Offset: model3d.XYZ(x.p[0], x.p[1], x.p[2])}
	case "S":
		return &model3d.Scale{Scale: x.p[0]}
	case "V":
		return &model3d.VecScale{Scale: model3d.XYZ(x.p[0], x.p[1], x.p[2])}
	}
	var m model3d.Matrix3
	copy(m[:], x.p)
	return &model3d.Matrix3Transform{Matrix: &m}
}

func (x xf) real2() model2d.Transform {
	switch x.kind {
	case "T":
		return &model2d.Translate{Offset: model2d.XY(x.p[0], x.p[1])}
	case "S":
		return &model2d.Scale{Scale: x.p[0]}
	case "V":
		return &model2d.VecScale{Scale: model2d.XY(x.p[0], x.p[1])}
	}
	var m model2d.Matrix2
	copy(m[:], x.p)
	return &model2d.Matrix2Transform{Matrix: &m}
}

// randXf draws one transform in dimension dim (2 or 3) with an exactly representable inverse.
func randXf(c *hlib.Ctx, dim int) xf {
	scales := []float64{2, 0.5, -1, -2, 1, -0.5}
	switch c.Rng.Intn(6) {
	case 0, 1:
		p := make([]float64, dim)
		for i := range p {
			p[i] = dy(c, -2, 2, 2)
		}
		return xf{"T", p}
	case 2:
		return xf{"S", []float64{scales[c.Rng.Intn(len(scales))]}}
	case 3:
		p := make([]float64, dim)
		for i := range p {
			p[i] = scales[c.Rng.Intn(len(scales))]
		}
		return xf{"V", p}
	}
	// matrix (row-major): signed permutation (rotations by 90 degrees, reflections), optionally
	// with a power-of-two factor per row, or a shear
	m := make([]float64, dim*dim)
	if c.Rng.Intn(3) == 0 {
		for i := 0; i < dim; i++ {
			m[i*dim+i] = 1
		}
		i := c.Rng.Intn(dim)
		j := (i + 1 + c.Rng.Intn(dim-1)) % dim
		m[i*dim+j] = []float64{1, -1, 0.5, -0.5, 2}[c.Rng.Intn(5)]
		return xf{"M", m}
	}
	perm := c.Rng.Perm(dim)
	for i := 0; i < dim; i++ {
		f := 1.0
		if c.Rng.Intn(2) == 0 {
			f = -1
		}
		if c.Rng.Intn(4) == 0 {
			f *= []float64{2, 0.5}[c.Rng.Intn(2)]
		}
		m[i*dim+perm[i]] = f
	}
	return xf{"M", m}
}

func randXfs(c *hlib.Ctx, dim int) []xf {
	n := []int{0, 1, 1, 2, 2, 2, 2, 3, 3, 3}[c.Rng.Intn(10)]
	res := make([]xf, n)
	for i := range res {
		res[i] = randXf(c, dim)
	}
	return res
}

func xfsStr(xs []xf) string {
	s := fmt.Sprint(len(xs))
	for _, x := range xs {
		s += " " + x.String()
	}
	return s
}

// conjDelta picks the smallest spacing that keeps the lattice of the transformed solid small.
func conjDelta(c *hlib.Ctx, extent float64, limit float64) float64 {
	ds := []float64{0.25, 0.5, 1, 2, 4, 8}
	i := 0
	for i+1 < len(ds) && extent/ds[i] > limit {
		i++
	}
	if i+1 < len(ds) && c.Rng.Intn(3) == 0 {
		i++
	}
	return ds[i]
}

func runConj(c *hlib.Ctx) {
	batch(c, "mcj", c.N/4, func() { mcjCase(c) })
	batch(c, "msj", c.N/4, func() { msjCase(c) })
}

// mcj: MarchingCubesConj(s, delta, iters, xforms...).  Demanded (conj_vertex_round_trip,
// conj_back_is_reversed_inverses, conj_label_is_solid + the search theorems): the returned vertices are
// the images under joined^-1 of the refined vertices of the lattice of TransformSolid(joined, s).
func mcjCase(c *hlib.Ctx) {
	span := float64(1 + c.Rng.Intn(2))
	body := randCSG(c, span, 2, true, false)
	if c.Rng.Intn(2) == 0 {
		// a body that no spacing of the generator misses
		body = &csg{kind: []string{"or", "sub"}[c.Rng.Intn(2)], a: &csg{kind: "ball", p: []float64{span / 2, span / 2, span / 2, span / 2}}, b: body}
	}
	t := &csg{kind: "and", a: &csg{kind: "box", p: []float64{0, 0, 0, span, span, span}}, b: body}
	s := &solid3{t, model3d.XYZ(0, 0, 0), model3d.XYZ(span, span, span)}
	xs := randXfs(c, 3)
	var real []model3d.Transform
	for _, x := range xs {
		real = append(real, x.real3())
	}
	joined := model3d.JoinedTransform(real)
	bmin, bmax := joined.ApplyBounds(s.min, s.max)
	delta := conjDelta(c, bmax.Sub(bmin).MaxCoord(), 12)
	iters := c.Rng.Intn(9)
	c.Stat(fmt.Sprintf("c02.mcj.transforms_%d", len(xs)), 1)
	{
		o := joined.Apply(model3d.XYZ(0, 0, 0))
		e1, e2, e3 := joined.Apply(model3d.X(1)).Sub(o), joined.Apply(model3d.Y(1)).Sub(o), joined.Apply(model3d.Z(1)).Sub(o)
		if e1.Dot(e2.Cross(e3)) < 0 {
			c.Stat("c02.mcj.transform_list_reverses_orientation", 1)
		}
	}
	op := fmt.Sprintf("c02 mcj %d %s %s %s %s %s", iters, hlib.RatStr(delta), strings.ReplaceAll(rat3(s.min), ",", " "),
		strings.ReplaceAll(rat3(s.max), ",", " "), xfsStr(xs), t)
	announce(op)
	c.Emit(op, withTimeout(func() string {
		m := model3d.MarchingCubesConj(s, delta, iters, real...)
		ts := model3d.TransformSolid(joined, s)
		lx, ly, lz := model3d.VerifSpacer(ts, delta)
		axes := [][]float64{lx, ly, lz}
		var out []string
		var pts [][]float64
		near := "1"
		for _, v := range m.VertexSlice() {
			out = append(out, rat3(v))
			// the property is evaluated in the space of the lattice: joined(v) is the lattice-space vertex
			f := joined.Apply(v)
			p := []float64{f.X, f.Y, f.Z}
			pts = append(pts, p)
			if r := nearCheck(p, axes, delta, iters, func(q []float64) bool {
				return ts.Contains(model3d.XYZ(q[0], q[1], q[2]))
			}); r != "" && near == "1" {
				near = r
			}
		}
		sort.Strings(out)
		bs := labels3(ts, lx, ly, lz)
		side := sideCheck(pts, axes, func(i []int) bool { return bs[i[0]+len(lx)*(i[1]+len(ly)*i[2])] })
		var tris [][3][3]float64
		m.Iterate(func(t *model3d.Triangle) {
			var tt [3][3]float64
			for i, p := range t {
				tt[i] = [3]float64{p.X, p.Y, p.Z}
			}
			tris = append(tris, tt)
		})
		return fmt.Sprintf("n=%d side=%s near=%s orient=%s %s", len(out), side, near, conjOrient3(tris), strings.Join(out, ";"))
	}))
}

func rat2(p model2d.Coord) string { return hlib.RatStr(p.X) + "," + hlib.RatStr(p.Y) }

func msjCase(c *hlib.Ctx) {
	span := float64(1 + c.Rng.Intn(3))
	body := randCSG(c, span, 2, true, true)
	if c.Rng.Intn(2) == 0 {
		body = &csg{kind: []string{"or", "sub"}[c.Rng.Intn(2)], a: &csg{kind: "ball", p: []float64{span / 2, span / 2, 0, span / 2}}, b: body}
	}
	t := &csg{kind: "and", a: &csg{kind: "box", p: []float64{0, 0, -1, span, span, 1}}, b: body}
	s := &solid2{t, model2d.XY(0, 0), model2d.XY(span, span)}
	xs := randXfs(c, 2)
	var real []model2d.Transform
	for _, x := range xs {
		real = append(real, x.real2())
	}
	joined := model2d.JoinedTransform(real)
	bmin, bmax := joined.ApplyBounds(s.min, s.max)
	ext := bmax.Sub(bmin)
	delta := conjDelta(c, math.Max(ext.X, ext.Y), 24)
	iters := c.Rng.Intn(9)
	c.Stat(fmt.Sprintf("c02.msj.transforms_%d", len(xs)), 1)
	{
		o := joined.Apply(model2d.XY(0, 0))
		e1, e2 := joined.Apply(model2d.X(1)).Sub(o), joined.Apply(model2d.Y(1)).Sub(o)
		if e1.X*e2.Y-e1.Y*e2.X < 0 {
			c.Stat("c02.msj.transform_list_reverses_orientation", 1)
		}
	}
	op := fmt.Sprintf("c02 msj %d %s %s %s %s %s", iters, hlib.RatStr(delta), strings.ReplaceAll(rat2(s.min), ",", " "),
		strings.ReplaceAll(rat2(s.max), ",", " "), xfsStr(xs), t)
	announce(op)
	c.Emit(op, withTimeout(func() string {
		m := model2d.MarchingSquaresConj(s, delta, iters, real...)
		ts := model2d.TransformSolid(joined, s)
		lx, ly := model2d.VerifSpacer(ts, delta)
		axes := [][]float64{lx, ly}
		var out []string
		var pts [][]float64
		near := "1"
		for _, v := range m.VertexSlice() {
			out = append(out, rat2(v))
			f := joined.Apply(v)
			p := []float64{f.X, f.Y}
			pts = append(pts, p)
			if r := nearCheck(p, axes, delta, iters, func(q []float64) bool {
				return ts.Contains(model2d.XY(q[0], q[1]))
			}); r != "" && near == "1" {
				near = r
			}
		}
		sort.Strings(out)
		bs := labels2(ts, lx, ly)
		side := sideCheck(pts, axes, func(i []int) bool { return bs[i[0]+len(lx)*i[1]] })
		var segs [][2][2]float64
		m.Iterate(func(sg *model2d.Segment) {
			segs = append(segs, [2][2]float64{{sg[0].X, sg[0].Y}, {sg[1].X, sg[1].Y}})
		})
		inv := joined.Inverse()
		orient := conjOrient2(c, segs,
			func(p [2]float64) [2]float64 { q := joined.Apply(model2d.XY(p[0], p[1])); return [2]float64{q.X, q.Y} },
			func(p [2]float64) [2]float64 { q := inv.Apply(model2d.XY(p[0], p[1])); return [2]float64{q.X, q.Y} },
			axes, func(i []int) bool { return bs[i[0]+len(lx)*i[1]] })
		return fmt.Sprintf("n=%d side=%s near=%s orient=%s %s", len(out), side, near, orient, strings.Join(out, ";"))
	}))
}

// ---- coarse to fine.  MarchingSquaresC2F(s, bigDelta, smallDelta, extraSpace, iters) is
// MarchingSquaresSearchFilter at the fine spacing with the filter "the block's bounds, expanded by
// extraSpace + 2*sqrt(3)*bigDelta, meet the coarse mesh".  Documented caveat: details "totally missed by
// the coarse mesh" may be lost unless extraSpace is increased.  The demanded answer (c2f_ms_filter_sound +
// ms_filter_* + the search theorems) is the plain fine mesh WHENEVER every fine lattice edge with
// differently labelled ends starts within extraSpace + bigDelta (max-norm) of a vertex of the coarse mesh -
// a feature lying in a coarse cell that the coarse mesh crosses is within one bigDelta of a coarse vertex
// (c2f_mixed_coarse_cell_has_vertex).  The harness measures that distance on the REAL coarse mesh and, when a
// feature is further away (an island in the middle of nowhere), passes the extraSpace that covers it; the driver
// re-evaluates the hypothesis on the model's coarse mesh.

// bigBody: a union of large primitives (radius / half-width around one coarse spacing) with optional
// small features, inside [0, span].
func bigBody(c *hlib.Ctx, span [3]float64, big, small float64, flat bool) *csg {
	dims := 3
	if flat {
		dims = 2
	}
	q := func(lo, hi float64) float64 { // a multiple of small/2 in [lo, hi]
		g := small / 2
		a, b := int(math.Ceil(lo/g)), int(math.Floor(hi/g))
		if b < a {
			b = a
		}
		return float64(a+c.Rng.Intn(b-a+1)) * g
	}
	minSpan := span[0]
	for i := 1; i < dims; i++ {
		minSpan = math.Min(minSpan, span[i])
	}
	one := func() *csg {
		if c.Rng.Intn(2) == 0 {
			r := q(0.6*big, math.Min(1.5*big, minSpan/2))
			p := []float64{0, 0, 0, r}
			for i := 0; i < dims; i++ {
				p[i] = q(r, span[i]-r)
			}
			return &csg{kind: "ball", p: p}
		}
		var p [6]float64
		for i := 0; i < 3; i++ {
			w := q(0.75*big, math.Min(2.5*big, span[i]))
			p[i] = q(0, span[i]-w)
			p[i+3] = p[i] + w
		}
		if flat {
			p[2], p[5] = -1, 1
		}
		return &csg{kind: "box", p: p[:]}
	}
	t := one()
	for n := c.Rng.Intn(3); n > 0; n-- {
		kind := []string{"or", "or", "sub"}[c.Rng.Intn(3)]
		t = &csg{kind: kind, a: t, b: one()}
	}
	if c.Rng.Intn(3) == 0 {
		t = &csg{kind: "or", a: t, b: islands(c, span, small, flat)}
	}
	return t
}

// linfToNearest: max-norm distance from p to the nearest vertex (inf if there is none).
func linfToNearest(p []float64, verts [][]float64) float64 {
	best := math.Inf(1)
	for _, w := range verts {
		d := 0.0
		for k := range p {
			d = math.Max(d, math.Abs(w[k]-p[k]))
		}
		best = math.Min(best, d)
	}
	return best
}

// farIslands: a body of about one coarse cell near the low corner and one or two small islands (a few
// fine cells) near the opposite corner, several coarse cells away: details the coarse mesh misses
// completely unless the caller's extraSpace reaches them (the documented use of that argument).
func farIslands(c *hlib.Ctx, span [3]float64, big, small float64, flat bool) *csg {
	dims := 3
	if flat {
		dims = 2
	}
	g := small / 2
	q := func(lo, hi float64) float64 {
		a, b := int(math.Ceil(lo/g)), int(math.Floor(hi/g))
		if b < a {
			b = a
		}
		return float64(a+c.Rng.Intn(b-a+1)) * g
	}
	r := q(0.6*big, 1.2*big)
	p := []float64{0, 0, 0, r}
	for i := 0; i < dims; i++ {
		p[i] = q(r, r+0.6*big)
	}
	t := &csg{kind: "ball", p: p}
	for n := 1 + c.Rng.Intn(2); n > 0; n-- {
		ri := small * []float64{1, 1.5, 2, 2.5}[c.Rng.Intn(4)]
		pi := []float64{0, 0, 0, ri}
		for i := 0; i < dims; i++ {
			pi[i] = q(span[i]-1.5*big, span[i]-0.5*big)
		}
		var isl *csg
		if c.Rng.Intn(2) == 0 {
			isl = &csg{kind: "ball", p: pi}
		} else {
			b := []float64{pi[0] - ri, pi[1] - ri, pi[2] - ri, pi[0] + ri, pi[1] + ri, pi[2] + ri}
			if flat {
				b[2], b[5] = -1, 1
			}
			isl = &csg{kind: "box", p: b}
		}
		t = &csg{kind: "or", a: t, b: isl}
	}
	return t
}

func runC2F(c *hlib.Ctx) {
	batch(c, "c2f2", c.N/8, func() { c2f2Case(c) })
	batch(c, "c2f3", c.N/16, func() { c2f3Case(c) })
}

func c2f2Case(c *hlib.Ctx) {
	small := []float64{0.125, 0.0625}[c.Rng.Intn(2)]
	ratio := []float64{8, 12, 16, 24, 32, 48, 64, 32, 64, 3, 1.5}[c.Rng.Intn(11)]
	big := small * ratio
	cellsMax := 4.0
	if ratio >= 48 {
		cellsMax = 2.5
	}
	if ratio < 8 {
		cellsMax = 12
	}
	far := c.Rng.Intn(6) == 0
	if far {
		ratio = []float64{4, 8}[c.Rng.Intn(2)]
		big = small * ratio
	}
	var span [3]float64
	for i := 0; i < 2; i++ {
		span[i] = big * (2 + math.Floor(c.Rng.Float64()*(cellsMax-2)*4)/4)
		if far {
			span[i] = big * (9 + math.Floor(c.Rng.Float64()*2*4)/4)
		}
	}
	span[2] = 1
	body := bigBody(c, span, big, small, true)
	if far {
		body = farIslands(c, span, big, small, true)
		c.Stat("c02.c2f2.far_islands", 1)
	}
	t := &csg{kind: "and", a: &csg{kind: "box", p: []float64{0, 0, -1, span[0], span[1], 1}}, b: body}
	sh := [2]float64{0, 0}
	if c.Rng.Intn(2) == 0 {
		sh = [2]float64{dy(c, -2, 2, 3), dy(c, -2, 2, 3)}
		t = shift(t, sh[0], sh[1])
	}
	s := &solid2{t, model2d.XY(sh[0], sh[1]), model2d.XY(sh[0]+span[0], sh[1]+span[1])}
	iters := []int{0, 3, 8, 5}[c.Rng.Intn(4)]
	procs := 1 + c.Rng.Intn(4)
	xs, ys := model2d.VerifSpacer(s, small)
	bs := labels2(s, xs, ys)
	// distance of every sign-changing fine edge (its first end) to the nearest vertex of the real coarse mesh
	var coarse [][]float64
	if r := withTimeout(func() string {
		for _, v := range model2d.MarchingSquaresSearch(s, big, iters).VertexSlice() {
			coarse = append(coarse, []float64{v.X, v.Y})
		}
		return ""
	}); r != "" {
		c.Emit(fmt.Sprintf("c02 c2f2 coarse-mesh-failed %s", t), r)
		return
	}
	worst, edges := 0.0, 0
	nx := len(xs)
	for j := range ys {
		for i := range xs {
			a := bs[i+nx*j]
			if (i+1 < nx && bs[i+1+nx*j] != a) || (j+1 < len(ys) && bs[i+nx*(j+1)] != a) {
				edges++
				worst = math.Max(worst, linfToNearest([]float64{xs[i], ys[j]}, coarse))
			}
		}
	}
	if edges == 0 {
		c.Stat("c02.c2f2.skipped_empty_solid", 1)
		return
	}
	if math.IsInf(worst, 1) {
		// the coarse mesh is empty: no extraSpace helps ("totally missed"); nothing is demanded
		c.Stat("c02.c2f2.skipped_coarse_mesh_empty", 1)
		return
	}
	extra := 0.0
	if worst > big {
		extra = math.Ceil((worst-big)/small) * small
		c.Stat("c02.c2f2.feature_beyond_one_coarse_cell_extra_space_passed", 1)
	} else if c.Rng.Intn(4) == 0 {
		extra = small
	}
	c.Stat(fmt.Sprintf("c02.c2f2.ratio_%v", ratio), 1)
	if worst > 3.5*small+8*small {
		c.Stat("c02.c2f2.feature_further_than_12_fine_cells_from_coarse_vertices", 1)
	}
	op := fmt.Sprintf("c02 c2f2 %d %s %s %s %s %s %s %s %d %d %s %s | ratio %v procs %d", iters,
		hlib.RatStr(s.min.X), hlib.RatStr(s.min.Y), hlib.RatStr(s.max.X), hlib.RatStr(s.max.Y),
		hlib.RatStr(small), hlib.RatStr(big), hlib.RatStr(extra), len(xs), len(ys), bitStr(bs), t, ratio, procs)
	announce(op)
	c.Emit(op, withTimeout(func() string {
		var m *model2d.Mesh
		withProcs(procs, func() { m = model2d.MarchingSquaresC2F(s, big, small, extra, iters) })
		var out []string
		var pts [][]float64
		near := "1"
		for _, v := range m.VertexSlice() {
			out = append(out, rat2(v))
			p := []float64{v.X, v.Y}
			pts = append(pts, p)
			if r := nearCheck(p, [][]float64{xs, ys}, small, iters, func(q []float64) bool {
				return s.Contains(model2d.XY(q[0], q[1]))
			}); r != "" && near == "1" {
				near = r
			}
		}
		sort.Strings(out)
		side := sideCheck(pts, [][]float64{xs, ys}, func(i []int) bool { return bs[i[0]+nx*i[1]] })
		return fmt.Sprintf("n=%d side=%s near=%s %s", len(out), side, near, strings.Join(out, ";"))
	}))
}

func c2f3Case(c *hlib.Ctx) {
	small := []float64{0.25, 0.125}[c.Rng.Intn(2)]
	ratio := []float64{4, 6, 8, 12, 16, 8, 2}[c.Rng.Intn(7)]
	big := small * ratio
	cellsMax := 3.0
	if ratio >= 12 {
		cellsMax = 2.25
	}
	far := c.Rng.Intn(6) == 0
	if far {
		ratio = []float64{2, 4}[c.Rng.Intn(2)]
		big = small * ratio
	}
	var span [3]float64
	for i := 0; i < 3; i++ {
		span[i] = big * (1.5 + math.Floor(c.Rng.Float64()*(cellsMax-1.5)*4)/4)
		if far {
			span[i] = big * (9 + math.Floor(c.Rng.Float64()*2*4)/4)
		}
	}
	body := bigBody(c, span, big, small, false)
	if far {
		body = farIslands(c, span, big, small, false)
		c.Stat("c02.c2f3.far_islands", 1)
	}
	t := &csg{kind: "and", a: &csg{kind: "box", p: []float64{0, 0, 0, span[0], span[1], span[2]}}, b: body}
	s := &solid3{t, model3d.XYZ(0, 0, 0), model3d.XYZ(span[0], span[1], span[2])}
	iters := []int{0, 3, 6}[c.Rng.Intn(3)]
	procs := 1 + c.Rng.Intn(4)
	xs, ys, zs := model3d.VerifSpacer(s, small)
	bs := labels3(s, xs, ys, zs)
	var coarse [][]float64
	if r := withTimeout(func() string {
		for _, v := range model3d.MarchingCubesSearch(s, big, iters).VertexSlice() {
			coarse = append(coarse, []float64{v.X, v.Y, v.Z})
		}
		return ""
	}); r != "" {
		c.Emit(fmt.Sprintf("c02 c2f3 coarse-mesh-failed %s", t), r)
		return
	}
	worst, edges := 0.0, 0
	nx, ny := len(xs), len(ys)
	for k := range zs {
		for j := range ys {
			for i := range xs {
				a := bs[i+nx*(j+ny*k)]
				if (i+1 < nx && bs[i+1+nx*(j+ny*k)] != a) || (j+1 < ny && bs[i+nx*(j+1+ny*k)] != a) ||
					(k+1 < len(zs) && bs[i+nx*(j+ny*(k+1))] != a) {
					edges++
					worst = math.Max(worst, linfToNearest([]float64{xs[i], ys[j], zs[k]}, coarse))
				}
			}
		}
	}
	if edges == 0 {
		c.Stat("c02.c2f3.skipped_empty_solid", 1)
		return
	}
	if math.IsInf(worst, 1) {
		c.Stat("c02.c2f3.skipped_coarse_mesh_empty", 1)
		return
	}
	extra := 0.0
	if worst > big {
		extra = math.Ceil((worst-big)/small) * small
		c.Stat("c02.c2f3.feature_beyond_one_coarse_cell_extra_space_passed", 1)
	} else if c.Rng.Intn(4) == 0 {
		extra = small
	}
	c.Stat(fmt.Sprintf("c02.c2f3.ratio_%v", ratio), 1)
	op := fmt.Sprintf("c02 c2f3 %d %s %s %s %s %s %d %d %d %s %s | ratio %v procs %d", iters,
		strings.ReplaceAll(rat3(s.min), ",", " "), strings.ReplaceAll(rat3(s.max), ",", " "),
		hlib.RatStr(small), hlib.RatStr(big), hlib.RatStr(extra), len(xs), len(ys), len(zs), bitStr(bs), t, ratio, procs)
	announce(op)
	c.Emit(op, withTimeout(func() string {
		var m *model3d.Mesh
		withProcs(procs, func() { m = model3d.MarchingCubesC2F(s, big, small, extra, iters) })
		var out []string
		var pts [][]float64
		near := "1"
		for _, v := range m.VertexSlice() {
			out = append(out, rat3(v))
			p := []float64{v.X, v.Y, v.Z}
			pts = append(pts, p)
			if r := nearCheck(p, [][]float64{xs, ys, zs}, small, iters, func(q []float64) bool {
				return s.Contains(model3d.XYZ(q[0], q[1], q[2]))
			}); r != "" && near == "1" {
				near = r
			}
		}
		sort.Strings(out)
		side := sideCheck(pts, [][]float64{xs, ys, zs}, func(i []int) bool { return bs[i[0]+nx*(i[1]+ny*i[2])] })
		return fmt.Sprintf("n=%d side=%s near=%s %s", len(out), side, near, strings.Join(out, ";"))
	}))
}
