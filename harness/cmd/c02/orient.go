package main

import (
	"fmt"
	"math/big"
	"sort"

	"verif/harness/hlib"
)

// ---- orientation of the meshes the Conj members return (field `orient=` of the mcj / msj kinds).
//
// The property: "each lattice sample point lies on the same side of the output surface as the solid
// says (inside iff contained)".  The lattice of MarchingSquaresConj / MarchingCubesConj lives in the
// transformed space; the sample point c of that lattice stands for the point inv(c) of the original
// space (the label of c is s.Contains(inv(c)): conj_label_is_solid), and the output surface is the
// returned mesh, whose normals say which side is outside.
//
// 2-D (conjOrient2): for every returned segment and each of its two ends v: joined(v) lies on a lattice edge
// with one contained end c and one excluded end e; demanded: Normal()·(inv(e) − s[0]) is not negative and
// Normal()·(inv(c) − s[0]) is not positive (both are in fact strictly signed:
// conj2_lattice_points_keep_their_side + ms_normal_picks_contained_end; only a strictly wrong sign is
// reported), and the signed area (positive = contained side on the right of every segment) is positive
// (conj2_returned_area_positive).  Everything is evaluated in big.Rat on the exact values of the doubles.
//
// 3-D (conjOrient3): the plane of ONE triangle at a vertex does not separate the ends of the vertex's lattice
// edge in general (after refinement a marching-cubes triangle may lean over that edge), so only the global
// statement is demanded: the signed volume of the returned closed mesh is positive
// (conj_returned_volume_positive).

func ratOf(x float64) *big.Rat { return new(big.Rat).SetFloat64(x) }

func rsub(a, b *big.Rat) *big.Rat { return new(big.Rat).Sub(a, b) }
func rmul(a, b *big.Rat) *big.Rat { return new(big.Rat).Mul(a, b) }

// det2r = a.x*b.y − a.y*b.x
func det2r(a, b [2]*big.Rat) *big.Rat { return rsub(rmul(a[0], b[1]), rmul(a[1], b[0])) }

func det3r(a, b, c [3]*big.Rat) *big.Rat {
	t1 := rmul(a[0], rsub(rmul(b[1], c[2]), rmul(b[2], c[1])))
	t2 := rmul(a[1], rsub(rmul(b[0], c[2]), rmul(b[2], c[0])))
	t3 := rmul(a[2], rsub(rmul(b[0], c[1]), rmul(b[1], c[0])))
	return new(big.Rat).Add(rsub(t1, t2), t3)
}

// latticeEdge finds the lattice edge that carries the lattice-space point p: the axis along which p is
// strictly between two neighbouring lattice values, the index of the lower one, the indices on the
// other axes.  ok = false if p is not on exactly one lattice edge.
func latticeEdge(p []float64, axes [][]float64) (axis int, idx []int, ok bool) {
	axis = -1
	idx = make([]int, len(axes))
	for k := range axes {
		i := sort.SearchFloat64s(axes[k], p[k])
		if i < len(axes[k]) && axes[k][i] == p[k] {
			idx[k] = i
			continue
		}
		if axis >= 0 || i == 0 || i >= len(axes[k]) {
			return -1, nil, false
		}
		axis = k
		idx[k] = i - 1
	}
	return axis, idx, axis >= 0
}

// conjOrient2: segs = the returned segments (original space, in the order s[0], s[1]); fwd = joined.Apply,
// inv = joined.Inverse().Apply; axes / lab = the lattice of TransformSolid(joined, s) and its labels.
func conjOrient2(c *hlib.Ctx, segs [][2][2]float64, fwd, inv func([2]float64) [2]float64, axes [][]float64,
	lab func(idx []int) bool) string {
	if len(segs) == 0 {
		return "1"
	}
	zero := new(big.Rat)
	area2 := new(big.Rat)
	for _, s := range segs {
		a := [2]*big.Rat{ratOf(s[0][0]), ratOf(s[0][1])}
		b := [2]*big.Rat{ratOf(s[1][0]), ratOf(s[1][1])}
		// msSignedArea sums a.Y*b.X − a.X*b.Y
		area2.Sub(area2, det2r(a, b))
		d := [2]*big.Rat{rsub(b[0], a[0]), rsub(b[1], a[1])}
		for e := 0; e < 2; e++ {
			f := fwd(s[e])
			axis, idx, ok := latticeEdge(f[:], axes)
			if !ok {
				return fmt.Sprintf("vertex-%s,%s-not-on-one-lattice-edge", hlib.RatStr(s[e][0]), hlib.RatStr(s[e][1]))
			}
			for end := 0; end < 2; end++ {
				j := append([]int(nil), idx...)
				j[axis] += end
				q := inv([2]float64{axes[0][j[0]], axes[1][j[1]]})
				if back := fwd(q); back[0] != axes[0][j[0]] || back[1] != axes[1][j[1]] {
					// the harness's transforms have exact inverses; not reached on the unchanged tree
					return "lattice-point-has-no-exact-preimage"
				}
				w := [2]*big.Rat{rsub(ratOf(q[0]), a[0]), rsub(ratOf(q[1]), a[1])}
				side := det2r(d, w).Cmp(zero) // sign of Normal()·(q − s[0])
				contained := lab(j)
				if side == 0 {
					c.Stat("c02.msj.orient.sample_point_on_the_line_of_a_segment", 1)
				}
				if (contained && side > 0) || (!contained && side < 0) {
					which := "excluded-sample-point-behind"
					if contained {
						which = "contained-sample-point-in-front-of"
					}
					return fmt.Sprintf("%s-segment-%s,%s>%s,%s:lattice-point-%d.%d=%s,%s", which,
						hlib.RatStr(s[0][0]), hlib.RatStr(s[0][1]), hlib.RatStr(s[1][0]), hlib.RatStr(s[1][1]),
						j[0], j[1], hlib.RatStr(q[0]), hlib.RatStr(q[1]))
				}
				c.Stat("c02.msj.orient.sample_points_judged", 1)
			}
		}
	}
	if area2.Cmp(zero) <= 0 {
		return "signed-area-not-positive:" + new(big.Rat).Quo(area2, big.NewRat(2, 1)).RatString()
	}
	return "1"
}

// conjOrient3: the signed volume (Σ t0·(t1×t2) / 6, positive = normals outward) of the returned closed mesh.
func conjOrient3(tris [][3][3]float64) string {
	if len(tris) == 0 {
		return "1"
	}
	vol6 := new(big.Rat)
	for _, t := range tris {
		var p [3][3]*big.Rat
		for i := 0; i < 3; i++ {
			for k := 0; k < 3; k++ {
				p[i][k] = ratOf(t[i][k])
			}
		}
		vol6.Add(vol6, det3r(p[0], p[1], p[2]))
	}
	if vol6.Sign() <= 0 {
		return "signed-volume-not-positive:" + new(big.Rat).Quo(vol6, big.NewRat(6, 1)).RatString()
	}
	return "1"
}
