package main

import (
	"fmt"
	"math"
	"math/big"
	"math/rand"
	"sort"
	"strings"

	"github.com/unixpickle/model3d/model3d"
	"verif/harness/hlib"
)

func joinInts(a []int) string {
	s := make([]string, len(a))
	for i, v := range a {
		s[i] = fmt.Sprint(v)
	}
	return strings.Join(s, ",")
}

// ---- the dcCubeLayout index functions, exhaustively on small grids and on random larger ones
func runDcIdx(c *hlib.Ctx) {
	one := func(nx, ny, rows int) {
		op := fmt.Sprintf("c02 dcidx %d %d %d", nx, ny, rows)
		c.Emit(op, hlib.Guard(func() string {
			xc, yc, zc := (nx-1)*ny, (ny-1)*nx, nx*ny
			nEdges := (xc+yc)*rows + zc*(rows-1)
			nCubes := (nx - 1) * (ny - 1) * (rows - 1)
			var b strings.Builder
			for e := 0; e < nEdges; e++ {
				ec := model3d.VerifDcEdgeCubes(nx, ny, rows, e)
				ek := model3d.VerifDcEdgeCorners(nx, ny, rows, e)
				fmt.Fprintf(&b, "%d:%s:%s;", e, joinInts(ec[:]), joinInts(ek[:]))
			}
			b.WriteString(" ")
			for q := 0; q < nCubes; q++ {
				ce := model3d.VerifDcCubeEdges(nx, ny, rows, q)
				cc := model3d.VerifDcCubeCorners(nx, ny, rows, q)
				fmt.Fprintf(&b, "%d:%s:%s;", q, joinInts(ce[:]), joinInts(cc[:]))
			}
			return b.String()
		}))
	}
	for nx := 2; nx <= 4; nx++ {
		for ny := 2; ny <= 4; ny++ {
			for rows := 2; rows <= 4; rows++ {
				one(nx, ny, rows)
			}
		}
	}
	for i := 0; i < c.N/10+3; i++ {
		one(2+c.Rng.Intn(7), 2+c.Rng.Intn(7), 2+c.Rng.Intn(6))
	}
	for i := 0; i < c.N/4+5; i++ {
		nx, ny, nz := 3+c.Rng.Intn(8), 3+c.Rng.Intn(8), 3+c.Rng.Intn(12)
		buf := []int{0, 1, 50, 100, 200, 400, 1000}[c.Rng.Intn(7)]
		op := fmt.Sprintf("c02 dcsz %d %d %d %d", nx, ny, nz, buf)
		c.Emit(op, hlib.Guard(func() string {
			a, b, e, r := model3d.VerifDcSizes(nx, ny, nz, buf)
			return fmt.Sprintf("%d %d %d %d", a, b, e, r)
		}))
	}
}

type cell [3]int

func (a cell) less(b cell) bool {
	for i := 0; i < 3; i++ {
		if a[i] != b[i] {
			return a[i] < b[i]
		}
	}
	return false
}

func (a cell) String() string { return fmt.Sprintf("%d.%d.%d", a[0], a[1], a[2]) }

// cellOf returns the cell strictly containing v, or ok=false if v lies on a
// cell boundary or outside the lattice.
func cellOf(axes [3][]float64, v model3d.Coord3D) (cell, bool) {
	var res cell
	for k, x := range v.Array() {
		i := sort.SearchFloat64s(axes[k], x) // first index with axes[k][i] >= x
		if i == 0 || i == len(axes[k]) || axes[k][i] == x {
			return res, false
		}
		res[k] = i - 1
	}
	return res, true
}

// edgeOfCells: the lattice edge surrounded by three distinct cells of a 2x2x1 block.
func edgeOfCells(cs [3]cell) (axis int, lower cell, ok bool) {
	axis = -1
	for k := 0; k < 3; k++ {
		if cs[0][k] == cs[1][k] && cs[1][k] == cs[2][k] {
			if axis >= 0 {
				return 0, lower, false
			}
			axis = k
		}
	}
	if axis < 0 {
		return 0, lower, false
	}
	lower[axis] = cs[0][axis]
	for k := 0; k < 3; k++ {
		if k == axis {
			continue
		}
		lo, hi := cs[0][k], cs[0][k]
		for _, q := range cs {
			if q[k] < lo {
				lo = q[k]
			}
			if q[k] > hi {
				hi = q[k]
			}
		}
		if hi != lo+1 {
			return 0, lower, false
		}
		lower[k] = hi
	}
	return axis, lower, true
}

func rat(x float64) *big.Rat { return new(big.Rat).SetFloat64(x) }

// orient2 = (b-a) x (p-a) in the plane of the two axes (u, v).
func orient2(au, av, bu, bv, pu, pv *big.Rat) *big.Rat {
	x := new(big.Rat).Mul(new(big.Rat).Sub(bu, au), new(big.Rat).Sub(pv, av))
	y := new(big.Rat).Mul(new(big.Rat).Sub(bv, av), new(big.Rat).Sub(pu, au))
	return x.Sub(x, y)
}

type crossing struct {
	half  int // 2 per interior hit, 1 per boundary hit
	plus  bool
	minus bool
	flags map[string]bool
}

// crossings counts, exactly, how the triangles cross every lattice edge
// (open segment between two neighbouring lattice points).
func crossings(axes [3][]float64, tris []*model3d.Triangle) map[string]*crossing {
	res := map[string]*crossing{}
	for _, t := range tris {
		var lo, hi [3]float64
		for k := 0; k < 3; k++ {
			lo[k], hi[k] = t[0].Array()[k], t[0].Array()[k]
			for _, p := range t[1:] {
				v := p.Array()[k]
				if v < lo[k] {
					lo[k] = v
				}
				if v > hi[k] {
					hi[k] = v
				}
			}
		}
		var r [3][3]*big.Rat
		for i, p := range t {
			for k, v := range p.Array() {
				r[i][k] = rat(v)
			}
		}
		for axis := 0; axis < 3; axis++ {
			u, v := (axis+1)%3, (axis+2)%3
			// lattice lines (iu, iv) inside the projected bounding box
			iu0 := sort.SearchFloat64s(axes[u], lo[u])
			iv0 := sort.SearchFloat64s(axes[v], lo[v])
			for iu := iu0; iu < len(axes[u]) && axes[u][iu] <= hi[u]; iu++ {
				for iv := iv0; iv < len(axes[v]) && axes[v][iv] <= hi[v]; iv++ {
					pu, pv := rat(axes[u][iu]), rat(axes[v][iv])
					o1 := orient2(r[0][u], r[0][v], r[1][u], r[1][v], pu, pv)
					o2 := orient2(r[1][u], r[1][v], r[2][u], r[2][v], pu, pv)
					o3 := orient2(r[2][u], r[2][v], r[0][u], r[0][v], pu, pv)
					s1, s2, s3 := o1.Sign(), o2.Sign(), o3.Sign()
					pos := s1 > 0 || s2 > 0 || s3 > 0
					neg := s1 < 0 || s2 < 0 || s3 < 0
					if pos && neg {
						continue
					}
					sum := new(big.Rat).Add(o1, o2)
					sum.Add(sum, o3)
					var idx cell
					idx[u], idx[v] = iu, iv
					if sum.Sign() == 0 {
						// triangle seen edge-on from this axis
						if s1 == 0 && s2 == 0 && s3 == 0 {
							for ia := 0; ia+1 < len(axes[axis]); ia++ {
								if axes[axis][ia+1] >= lo[axis] && axes[axis][ia] <= hi[axis] {
									idx[axis] = ia
									key := fmt.Sprintf("%d.%s", axis, idx)
									if res[key] == nil {
										res[key] = &crossing{flags: map[string]bool{}}
									}
									res[key].flags["edge-on"] = true
								}
							}
						}
						continue
					}
					// height of the hit: barycentric weights o2, o3, o1 for vertices 0, 1, 2
					h := new(big.Rat).Mul(o2, r[0][axis])
					h.Add(h, new(big.Rat).Mul(o3, r[1][axis]))
					h.Add(h, new(big.Rat).Mul(o1, r[2][axis]))
					h.Quo(h, sum)
					hf, _ := h.Float64()
					ia := sort.SearchFloat64s(axes[axis], hf)
					for _, cand := range []int{ia - 2, ia - 1, ia, ia + 1} {
						if cand < 0 || cand >= len(axes[axis]) {
							continue
						}
						cmp := h.Cmp(rat(axes[axis][cand]))
						add := func(i int, flag string, half int) {
							if i < 0 || i+1 >= len(axes[axis]) {
								return
							}
							idx[axis] = i
							key := fmt.Sprintf("%d.%s", axis, idx)
							if res[key] == nil {
								res[key] = &crossing{flags: map[string]bool{}}
							}
							if flag != "" {
								res[key].flags[flag] = true
								return
							}
							res[key].half += half
							if sum.Sign() > 0 {
								res[key].plus = true
							} else {
								res[key].minus = true
							}
						}
						if cmp == 0 {
							add(cand-1, "through-lattice-point", 0)
							add(cand, "through-lattice-point", 0)
						} else if cmp > 0 && cand+1 < len(axes[axis]) && h.Cmp(rat(axes[axis][cand+1])) < 0 {
							half := 2
							if s1 == 0 || s2 == 0 || s3 == 0 {
								half = 1
							}
							add(cand, "", half)
						}
					}
				}
			}
		}
	}
	return res
}

func crossStr(m map[string]*crossing) string {
	var out []string
	for k, v := range m {
		if v.half == 0 && len(v.flags) == 0 {
			continue
		}
		cnt := fmt.Sprint(v.half / 2)
		if v.half%2 != 0 {
			cnt = fmt.Sprintf("h%d", v.half)
		}
		sign := "?"
		if v.plus && !v.minus {
			sign = "+"
		} else if v.minus && !v.plus {
			sign = "-"
		}
		s := k + ":" + cnt + ":" + sign
		var fl []string
		for f := range v.flags {
			fl = append(fl, f)
		}
		sort.Strings(fl)
		for _, f := range fl {
			s += ":" + f
		}
		out = append(out, s)
	}
	sort.Strings(out)
	if len(out) == 0 {
		return "-"
	}
	return strings.Join(out, ";")
}

// quadsStr reconstructs, from the two triangles round every lattice edge, the
// quad as a cycle of cells (rotated so that the smallest cell comes first).
func quadsStr(axes [3][]float64, tris []*model3d.Triangle) (string, string) {
	type tri [3]cell
	byEdge := map[string][]tri{}
	for _, t := range tris {
		var cs tri
		for i, p := range t {
			q, ok := cellOf(axes, p)
			if !ok {
				return "vertex-on-cell-boundary", "0"
			}
			cs[i] = q
		}
		axis, lower, ok := edgeOfCells(cs)
		if !ok {
			return "irregular-triangle:" + cs[0].String() + "," + cs[1].String() + "," + cs[2].String(), "1"
		}
		key := fmt.Sprintf("%d.%s", axis, lower)
		byEdge[key] = append(byEdge[key], cs)
	}
	var out []string
	for key, ts := range byEdge {
		if len(ts) != 2 {
			out = append(out, fmt.Sprintf("%s:%d-triangles", key, len(ts)))
			continue
		}
		var cyc []cell
		for i := 0; i < 3 && cyc == nil; i++ {
			a, b, cc := ts[0][i], ts[0][(i+1)%3], ts[0][(i+2)%3]
			for j := 0; j < 3; j++ {
				// second triangle must be (a, cc, d) up to rotation
				if ts[1][j] == a && ts[1][(j+1)%3] == cc {
					cyc = []cell{a, b, cc, ts[1][(j+2)%3]}
					break
				}
			}
		}
		if cyc == nil {
			out = append(out, key+":not-a-quad")
			continue
		}
		m := 0
		for i := range cyc {
			if cyc[i].less(cyc[m]) {
				m = i
			}
		}
		s := make([]string, 4)
		for i := range s {
			s[i] = cyc[(m+i)%4].String()
		}
		out = append(out, key+":"+strings.Join(s, ">"))
	}
	sort.Strings(out)
	if len(out) == 0 {
		return "-", "1"
	}
	return strings.Join(out, ";"), "1"
}

// capN bounds the size of the more expensive batches in the thorough tier (8 seeds x 2500).
func capN(n, max int) int {
	if n > max {
		return max
	}
	return n
}

func runDc(c *hlib.Ctx) {
	batch(c, "dc", c.N, func() { dcCase(c, false) })
	// small lattices, a round body with zero-thickness features at lattice positions, Repair on:
	// many singular edges whose ends are clipped to the cube margin
	batch(c, "dcz", 3*c.N, func() { dcCase(c, true) })
	// round bodies in general position on a decimal lattice, Repair on
	batch(c, "dcb", capN(c.N/8, 100), func() { dcBlobCase(c) })
	batch(c, "dcn", capN(c.N/8, 100), func() { dcBlobNeighbourCase(c) })
}

// dcBlobCase: round bodies in GENERAL position on a decimal lattice (delta 0.1 ...): unions of three balls and
// two boxes, parts nearly touching, gaps and walls of about one cell - two sheets of surface through one cell give
// singular edges AND singular vertices, with QEF vertices clipped to arbitrary (not lattice-aligned) places of
// their cells.  Clip + Repair + NoJitter through the struct.  The driver needs only the labels.
func dcBlobCase(c *hlib.Ctx) {
	t, mn, mx, delta := blobSolid(c.Rng)
	c.Stat("c02.dc.blobs_general_position", 1)
	dcEval(c, t, mn, mx, delta, true, true, []int{0, 1, 3}[c.Rng.Intn(3)], 0, 0, true)
}

// blobCorpus: seeds of blobSolid on which the code before /repo's repair of the two Repair passes folded the
// surface over a lattice edge (edge crossed three times; 5 of 24 000 random blob solids).  dcBlobNeighbourCase
// re-runs them and solids next to them (every parameter moved by up to p, p log-uniform in 1e-7 .. 5e-4, the
// bounds and so the lattice unchanged).
var blobCorpus = []int64{2078, 4356, 6821, 7173, 18332}

func dcBlobNeighbourCase(c *hlib.Ctx) {
	seed := blobCorpus[c.Rng.Intn(len(blobCorpus))]
	t, mn, mx, delta := blobSolid(rand.New(rand.NewSource(seed)))
	p := 5e-4 * math.Pow(10, -3.7*c.Rng.Float64())
	if c.Rng.Intn(6) == 0 {
		p = 0
	}
	var move func(t *csg) *csg
	move = func(t *csg) *csg {
		r := *t
		if t.kind == "or" {
			r.a, r.b = move(t.a), move(t.b)
			return &r
		}
		r.p = append([]float64(nil), t.p...)
		for i := range r.p {
			r.p[i] += p * (2*c.Rng.Float64() - 1)
		}
		return &r
	}
	c.Stat("c02.dc.blobs_next_to_a_recorded_fold", 1)
	dcEval(c, move(t), mn, mx, delta, true, true, []int{0, 1, 3}[c.Rng.Intn(3)], 0, 0, true)
}

func blobSolid(r *rand.Rand) (t *csg, mn, mx model3d.Coord3D, delta float64) {
	lo := [3]float64{math.Inf(1), math.Inf(1), math.Inf(1)}
	hi := [3]float64{math.Inf(-1), math.Inf(-1), math.Inf(-1)}
	grow := func(k int, a, b float64) {
		lo[k], hi[k] = math.Min(lo[k], a), math.Max(hi[k], b)
	}
	add := func(p *csg) {
		if t == nil {
			t = p
		} else {
			t = &csg{kind: "or", a: t, b: p}
		}
	}
	family := r.Intn(3)
	var prev []float64
	for i := 0; i < 3; i++ {
		rad := 0.1 + 0.25*r.Float64()
		ctr := [3]float64{r.Float64(), r.Float64(), r.Float64()}
		if family != 0 && prev != nil {
			// next to the previous ball: a gap (or overlap) of -0.5 .. 1.5 cells along a random direction
			d := [3]float64{r.NormFloat64(), r.NormFloat64(), r.NormFloat64()}
			n := math.Sqrt(d[0]*d[0] + d[1]*d[1] + d[2]*d[2])
			gap := (-0.05 + 0.2*r.Float64())
			for k := 0; k < 3; k++ {
				ctr[k] = prev[k] + d[k]/n*(prev[3]+rad+gap)
			}
		}
		prev = []float64{ctr[0], ctr[1], ctr[2], rad}
		add(&csg{kind: "ball", p: prev})
		for k := 0; k < 3; k++ {
			grow(k, ctr[k]-rad, ctr[k]+rad)
		}
	}
	for i := 0; i < 2; i++ {
		var p [6]float64
		for k := 0; k < 3; k++ {
			p[k] = r.Float64()
			if family == 2 { // a box face about a cell away from a ball
				p[k] = prev[k] + (r.Float64()-0.5)*0.6
			}
			p[k+3] = p[k] + 0.1 + 0.4*r.Float64()
			grow(k, p[k], p[k+3])
		}
		add(&csg{kind: "box", p: p[:]})
	}
	delta = []float64{0.1, 0.1, 0.1, 0.07, 0.13}[r.Intn(5)]
	pad := 1e-3
	mn = model3d.XYZ(lo[0]-pad, lo[1]-pad, lo[2]-pad)
	mx = model3d.XYZ(hi[0]+pad, hi[1]+pad, hi[2]+pad)
	return
}

func dcCase(c *hlib.Ctx, focus bool) {
	{
		var t *csg
		var mn, mx model3d.Coord3D
		var delta float64
		if !focus && c.Rng.Intn(2) != 0 {
			nn := [3]int{1 + c.Rng.Intn(4), 1 + c.Rng.Intn(4), 1 + c.Rng.Intn(6)}
			delta = []float64{1, 0.5, 2}[c.Rng.Intn(3)]
			o := [3]float64{dy(c, -3, 3, 2), dy(c, -3, 3, 2), dy(c, -3, 3, 2)}
			t = &csg{kind: "vox", p: []float64{o[0], o[1], o[2], delta}, n: nn, bits: randBits(c, nn)}
			mn = model3d.XYZ(o[0], o[1], o[2])
			mx = model3d.XYZ(o[0]+delta*float64(nn[0]-1), o[1]+delta*float64(nn[1]-1), o[2]+delta*float64(nn[2]-1))
			if nn[0] == 1 && nn[1] == 1 && nn[2] == 1 {
				mx = mx.AddScalar(delta) // bounds must be non-degenerate
			}
			c.Stat("c02.dc.lattice_solid", 1)
		} else {
			span := float64(1 + c.Rng.Intn(2))
			if focus {
				span = 1
			}
			body := randCSG(c, span, 2, true, false)
			if (!focus && c.Rng.Intn(2) == 0) || (focus && c.Rng.Intn(4) == 0) {
				// sharp features that are not aligned with the grid (wedges, pyramid tips, oblique creases):
				// where the unclipped QEF minimiser leaves its cell
				ob := oblique(c, span, false)
				switch c.Rng.Intn(3) {
				case 0:
					body = ob
				case 1:
					body = &csg{kind: "or", a: body, b: ob}
				default:
					body = &csg{kind: "sub", a: &csg{kind: "ball", p: []float64{span / 2, span / 2, span / 2, span / 2}}, b: ob}
				}
				c.Stat("c02.dc.oblique_features", 1)
			}
			t = &csg{kind: "and", a: &csg{kind: "box", p: []float64{0, 0, 0, span, span, span}}, b: body}
			mn, mx = model3d.XYZ(0, 0, 0), model3d.XYZ(span, span, span)
			delta = []float64{0.5, 0.25, 0.375}[c.Rng.Intn(3)]
			c.Stat("c02.dc.csg", 1)
		}
		noJitter := c.Rng.Intn(2) == 0
		repair := c.Rng.Intn(4) == 0
		gos := []int{0, 1, 3}[c.Rng.Intn(3)]
		buf := []int{0, 1, 60, 150}[c.Rng.Intn(4)]
		margin := []float64{0, 0, 0.1, 0.25, 0.5}[c.Rng.Intn(5)]
		if t.kind == "and" && (focus || c.Rng.Intn(3) == 0) {
			// zero-thickness features (plates, segments, points) through lattice points next to a body:
			// the QEF vertices are clipped into the corners of their cells and the mesh has singular
			// edges and vertices - the situation Repair exists for
			span := mx.X
			body := t.b
			if focus || c.Rng.Intn(2) == 0 {
				delta = []float64{0.5, 0.5, 0.25}[c.Rng.Intn(3)]
				if c.Rng.Intn(3) != 0 {
					body = &csg{kind: "ball", p: []float64{span / 2, span / 2, span / 2, span / 2}}
				}
			}
			for n := 1 + c.Rng.Intn(3); n > 0; n-- {
				var p [6]float64
				thin := c.Rng.Intn(3)
				for i := 0; i < 3; i++ {
					p[i] = dy(c, 0, span, 1)
					p[i+3] = p[i]
					if i != thin && c.Rng.Intn(3) == 0 {
						p[i+3] = p[i] + dy(c, 0, span-p[i], 1)
					}
				}
				body = &csg{kind: "or", a: body, b: &csg{kind: "box", p: p[:]}}
			}
			t = &csg{kind: "and", a: t.a, b: body}
			repair = c.Rng.Intn(4) != 0
			if c.Rng.Intn(3) != 0 {
				noJitter, margin = true, 0
			}
			if focus {
				repair = true
			}
			c.Stat("c02.dc.zero_thickness_feature", 1)
		}
		dcEval(c, t, mn, mx, delta, noJitter, repair, gos, buf, margin, false)
	}
}

// dcEval runs the real dual contouring on the solid with the given options (plus a random TriangleMode,
// Mesh / MeshInterior and entry point: the struct or, unless structOnly, one of the two wrappers) and emits the case.
func dcEval(c *hlib.Ctx, t *csg, mn, mx model3d.Coord3D, delta float64, noJitter, repair bool, gos, buf int, margin float64, structOnly bool) {
	{
		s := &solid3{t, mn, mx}
		mode := model3d.DualContouringTriangleMode(c.Rng.Intn(3))
		wantInterior := c.Rng.Intn(2) == 0
		// entry point: the DualContouring struct built by hand, or one of the two convenience wrappers
		// DualContour(s, delta, repair, clip) / DualContourInterior(s, delta, repair, clip) with clip = true
		// (they leave every other option at its zero value: jitter on, default margin, default buffer)
		entry := "struct"
		if c.Rng.Intn(5) < 2 && !structOnly {
			entry = []string{"DualContour", "DualContourInterior"}[c.Rng.Intn(2)]
			noJitter, gos, buf, margin, mode = false, 0, 0, 0, 0
			wantInterior = entry == "DualContourInterior"
		}
		c.Stat("c02.dc.entry_"+entry, 1)
		xs, ys, zs, bufRows := model3d.VerifDcLayout(mn, mx, delta, noJitter, buf)
		if bufRows < len(zs) {
			c.Stat("c02.dc.buffer_shifts", 1)
		}
		axes := [3][]float64{xs, ys, zs}
		bs := labels3(s, xs, ys, zs)
		kind := "dc"
		if repair {
			kind = "dcr"
		}
		c.Stat("c02."+kind, 1)
		wi := 0
		if wantInterior {
			wi = 1
		}
		// tokens after the option string are replay information (the driver reads only the lattice and labels)
		op := fmt.Sprintf("c02 %s %d %d %d %s %d entry=%s,nojitter=%v,gos=%d,buf=%d,margin=%v,mode=%d,delta=%v | min %s max %s solid %s", kind,
			len(xs), len(ys), len(zs), bitStr(bs), wi, entry, noJitter, gos, buf, margin, mode, delta, rat3(mn), rat3(mx), t)
		mkOp := func() string {
			return fmt.Sprintf("c02 %s %d %d %d %s %d entry=%s,nojitter=%v,gos=%d,buf=%d,margin=%v,mode=%d,delta=%v | min %s max %s solid %s", kind,
				len(xs), len(ys), len(zs), bitStr(bs), wi, entry, noJitter, gos, buf, margin, mode, delta, rat3(mn), rat3(mx), t)
		}
		announce(op)
		res := withTimeout(func() string {
			d := &model3d.DualContouring{S: model3d.SolidSurfaceEstimator{Solid: s}, Delta: delta, NoJitter: noJitter,
				MaxGos: gos, BufferSize: buf, Repair: repair, Clip: true, CubeMargin: margin, TriangleMode: mode}
			var m *model3d.Mesh
			var pts []model3d.Coord3D
			switch {
			case entry == "DualContour":
				m = model3d.DualContour(s, delta, repair, true)
			case entry == "DualContourInterior":
				m, pts = model3d.DualContourInterior(s, delta, repair, true)
			case wantInterior:
				m, pts = d.MeshInterior()
			default:
				m = d.Mesh()
			}
			tris := m.TriangleSlice()
			if entry != "struct" {
				// The wrappers choose the lattice themselves.  The property does not prescribe the jitter, so if
				// the mesh does not fit the default (jittered) lattice but fits the lattice without jitter
				// perfectly, it is judged against that one (a wrapper that switched the jitter off still
				// bounds the solid it sampled).
				fits := func(ax [3][]float64) bool {
					if !repair {
						q, ic := quadsStr(ax, tris)
						if ic != "1" || strings.Contains(q, "irregular") || strings.Contains(q, "-triangles") || strings.Contains(q, "not-a-quad") {
							return false
						}
					}
					// every lattice edge whose ends are labelled differently is crossed exactly once, from the
					// contained to the excluded end, and no other edge is touched
					lab := labels3(s, ax[0], ax[1], ax[2])
					nx, ny, nz := len(ax[0]), len(ax[1]), len(ax[2])
					cr := crossings(ax, tris)
					want := 0
					for z := 0; z < nz; z++ {
						for y := 0; y < ny; y++ {
							for x := 0; x < nx; x++ {
								a := lab[x+nx*(y+ny*z)]
								for k, q := range [3][3]int{{x + 1, y, z}, {x, y + 1, z}, {x, y, z + 1}} {
									if q[0] >= nx || q[1] >= ny || q[2] >= nz || lab[q[0]+nx*(q[1]+ny*q[2])] == a {
										continue
									}
									want++
									v := cr[fmt.Sprintf("%d.%s", k, cell{x, y, z})]
									if v == nil || v.half != 2 || len(v.flags) != 0 || v.plus == v.minus || v.plus != a {
										return false
									}
								}
							}
						}
					}
					n := 0
					for _, v := range cr {
						if v.half != 0 || len(v.flags) != 0 {
							n++
						}
					}
					return n == want && (!wantInterior || len(pts) == want)
				}
				if !fits(axes) {
					ax, ay, az, _ := model3d.VerifDcLayout(mn, mx, delta, true, buf)
					if fits([3][]float64{ax, ay, az}) {
						noJitter = true
						xs, ys, zs = ax, ay, az
						axes = [3][]float64{xs, ys, zs}
						bs = labels3(s, xs, ys, zs)
						op = mkOp()
						c.Stat("c02.dc.wrapper_judged_on_the_unjittered_lattice", 1)
					}
				}
			}
			nActive := 0
			// number of lattice edges whose ends differ (for the interior-point count)
			nx, ny, nz := len(xs), len(ys), len(zs)
			at := func(x, y, z int) bool { return bs[x+nx*(y+ny*z)] }
			for z := 0; z < nz; z++ {
				for y := 0; y < ny; y++ {
					for x := 0; x < nx; x++ {
						if x+1 < nx && at(x, y, z) != at(x+1, y, z) {
							nActive++
						}
						if y+1 < ny && at(x, y, z) != at(x, y+1, z) {
							nActive++
						}
						if z+1 < nz && at(x, y, z) != at(x, y, z+1) {
							nActive++
						}
					}
				}
			}
			interior := "-"
			if wantInterior {
				in := 1
				for _, p := range pts {
					if !s.Contains(p) {
						in = 0
						c.PropFail("prop:c02 dc/interior-point-not-contained", op)
						break
					}
				}
				interior = fmt.Sprintf("%d/%d", len(pts)-nActive, in) // 0/1 expected
			}
			if repair {
				return fmt.Sprintf("cross=%s interior=%s", crossStr(crossings(axes, tris)), interior)
			}
			q, incell := quadsStr(axes, tris)
			// the clip margin itself, with the same float operations as populateCubes
			mg := margin
			if mg == 0 {
				mg = model3d.DefaultDualContouringCubeMargin
			}
			mg *= delta
			if incell == "1" && margin < 0.5 {
				for _, v := range m.VertexSlice() {
					cl, _ := cellOf(axes, v)
					for k, x := range v.Array() {
						if x < axes[k][cl[k]]+mg || x > axes[k][cl[k]+1]+(-mg) {
							incell = "margin-violated"
						}
					}
				}
			}
			return fmt.Sprintf("quads=%s incell=%s cross=%s interior=%s", q, incell, crossStr(crossings(axes, tris)), interior)
		})
		c.Emit(op, res)
	}
}

var _ = hlib.Hex
