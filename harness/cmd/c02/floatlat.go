package main

import (
	"fmt"
	"math"
	"strings"

	"github.com/unixpickle/model3d/model2d"
	"github.com/unixpickle/model3d/model3d"
	"verif/harness/hlib"
)

// Kinds `mcl` / `msl`: search refinement on the library's OWN floating-point lattice.
//
// The other search kinds use dyadic spacings and solids, so every lattice coordinate is exact and
// "lattice value i" can be computed in any way (origin + i*delta, value[i-1] + delta, vertex - delta/2 ...)
// with the same result.  On a decimal spacing (0.1, 0.05, 0.3 ...) the lattice is the array the spacer
// ACCUMULATED (x += delta); a coordinate re-computed in another way may differ from the stored one by an
// ulp, and when a face of the solid passes exactly through (or within an ulp of) that lattice point the
// re-computed point is classified differently from the lattice point the marching pass sampled.  Code that
// decides which end of an edge is the contained one from such a re-computed point brackets no transition
// and converges to the wrong end of the edge: the vertex ends up a whole cell from the only transition.
//
// Here the solids are unions/differences of axis-aligned boxes and half-spaces (Contains = float
// comparisons, exact at every double) whose faces are taken from the real lattice arrays (bit for bit),
// from their two floating-point neighbours, from the same lattice point computed another way, or are in
// general position.  The op line carries the real lattice (exported spacer arrays), the solid and the real
// vertices (and interior points); the Lean driver evaluates - exactly, on the rational values of the
// doubles - what the property demands of them: every vertex lies on a lattice edge, the edges that carry a
// vertex are exactly the edges whose ends are classified differently, one vertex each, every vertex is within
// delta/2^iters of a point of its edge at which the classification changes, every interior point is
// contained.  The demanded answer is "n=<number of sign-changing edges> bad=-".

// latticeDelta draws a spacing; milli != 0 means delta = milli/1000 exactly as a decimal.
func latticeDelta(c *hlib.Ctx) (delta float64, milli int) {
	switch c.Rng.Intn(10) {
	case 0, 1, 2:
		milli = 100
	case 3:
		milli = 50
	case 4:
		milli = 200
	case 5:
		milli = []int{300, 700, 150, 25, 40, 60, 125}[c.Rng.Intn(7)]
	case 6:
		milli = 10 * (1 + c.Rng.Intn(40))
	case 7:
		return 1 / float64(3+c.Rng.Intn(9)), 0
	default:
		return 0.03 + 0.5*c.Rng.Float64(), 0
	}
	return float64(milli) / 1000, milli
}

// latticeBounds draws Min/Max of one axis: k cells long, with the far side computed in one of the ways a
// caller would (decimal arithmetic, min + k*delta, accumulation, general position).
func latticeBounds(c *hlib.Ctx, delta float64, milli, k int) (lo, hi float64) {
	mm := -2000 + c.Rng.Intn(4001)
	switch c.Rng.Intn(3) {
	case 0:
		mm = mm / 100 * 100
	case 1:
		mm = mm / 10 * 10
	}
	lo = float64(mm) / 1000
	decimal := true
	switch c.Rng.Intn(5) {
	case 0:
		lo = 4*c.Rng.Float64() - 2
		decimal = false
	case 1:
		lo = float64(c.Rng.Intn(21)-10) * delta
		decimal = false
	}
	switch v := c.Rng.Intn(5); {
	case v == 0 && decimal && milli != 0:
		hi = float64(mm+k*milli) / 1000
	case v == 1:
		hi = lo
		for i := 0; i < k; i++ {
			hi += delta
		}
	case v == 2:
		hi = lo + (float64(k)-c.Rng.Float64())*delta
	default:
		hi = lo + float64(k)*delta
	}
	if !(hi > lo) {
		hi = lo + delta
	}
	return lo, hi
}

// faceCoord draws the position of a face on an axis with lattice values vals.
func faceCoord(c *hlib.Ctx, vals []float64, delta float64) float64 {
	i := 1 + c.Rng.Intn(len(vals)-2)
	v := vals[i]
	switch c.Rng.Intn(7) {
	case 0:
		v = math.Nextafter(v, math.Inf(1))
	case 1:
		v = math.Nextafter(v, math.Inf(-1))
	case 2: // the same lattice point, computed from the origin
		v = vals[0] + float64(i)*delta
	case 3: // ... or from its neighbour with the first step of the lattice
		v = vals[i-1] + (vals[1] - vals[0])
	case 4:
		v = vals[i] + c.Rng.Float64()*delta
	}
	return v
}

// latticeSolid builds the CSG tree on the lattice axes (2 or 3 of them; a 2-D solid has z in [-1, 1]).
func latticeSolid(c *hlib.Ctx, axes [][]float64, mn, mx []float64, delta float64) *csg {
	dim := len(axes)
	full := func(p []float64) {
		if dim == 2 {
			p[2], p[5] = -1, 1
		}
	}
	bounds := make([]float64, 6)
	for k := 0; k < dim; k++ {
		bounds[k], bounds[k+3] = mn[k], mx[k]
	}
	full(bounds)
	feature := func() *csg {
		if c.Rng.Intn(5) == 0 {
			ax := c.Rng.Intn(dim)
			sign := float64(1 - 2*c.Rng.Intn(2))
			return &csg{kind: "half", p: []float64{float64(ax), sign, faceCoord(c, axes[ax], delta)}}
		}
		p := make([]float64, 6)
		for k := 0; k < dim; k++ {
			if c.Rng.Intn(4) == 0 { // a slab: unbounded on this axis
				p[k], p[k+3] = mn[k]-1, mx[k]+1
				continue
			}
			a, b := faceCoord(c, axes[k], delta), faceCoord(c, axes[k], delta)
			if a > b {
				a, b = b, a
			}
			p[k], p[k+3] = a, b // a == b: a plate through lattice points
		}
		full(p)
		return &csg{kind: "box", p: p}
	}
	var x *csg
	if c.Rng.Intn(3) == 0 {
		x = feature()
	} else {
		x = &csg{kind: "box", p: bounds}
	}
	for n := c.Rng.Intn(4); n > 0; n-- {
		f := feature()
		if c.Rng.Intn(2) == 0 {
			x = &csg{kind: "sub", a: x, b: f}
		} else {
			x = &csg{kind: "or", a: x, b: f}
		}
	}
	return &csg{kind: "and", a: &csg{kind: "box", p: bounds}, b: x}
}

func hexList(vs []float64) string {
	out := make([]string, len(vs))
	for i, v := range vs {
		out[i] = hlib.Hex(v)
	}
	return strings.Join(out, " ")
}

// recomputedEndStraddles counts the sign-changing lattice edges along axis vals (points given by
// at(i)) for which an end of the edge, re-computed the way a "the lattice is evenly spaced" shortcut would
// (value[i] + first step; midpoint -/+ delta/2 measured from min), is classified differently from the stored
// lattice value: the inputs on which such a shortcut brackets no transition.
func recomputedEndStraddles(vals []float64, mn, delta float64, cls func(v float64) bool) int {
	n := 0
	for i := 0; i+1 < len(vals); i++ {
		a, b := cls(vals[i]), cls(vals[i+1])
		if a == b {
			continue
		}
		far := vals[i] + (vals[1] - vals[0])
		mid := (vals[i] + vals[i+1]) / 2
		m := math.Abs(math.Mod(mid-mn, delta))
		lo2 := mid - m
		hi2 := lo2 + delta
		if cls(far) != b || cls(lo2) != a || cls(hi2) != b {
			n++
		}
	}
	return n
}

func runMcLattice(c *hlib.Ctx) {
	batch(c, "mcl", capN(c.N/2, 300), func() {
		delta, milli := latticeDelta(c)
		var mn, mx [3]float64
		for k := 0; k < 3; k++ {
			mn[k], mx[k] = latticeBounds(c, delta, milli, 2+c.Rng.Intn(5))
		}
		bnd := &solid3{&csg{kind: "box", p: []float64{mn[0], mn[1], mn[2], mx[0], mx[1], mx[2]}},
			model3d.XYZ(mn[0], mn[1], mn[2]), model3d.XYZ(mx[0], mx[1], mx[2])}
		xs, ys, zs := model3d.VerifSpacer(bnd, delta)
		axes := [][]float64{xs, ys, zs}
		t := latticeSolid(c, axes, mn[:], mx[:], delta)
		s := &solid3{t, bnd.min, bnd.max}
		iters := 1 + c.Rng.Intn(12)
		if c.Rng.Intn(3) == 0 {
			iters = 8
		}
		variant := c.Rng.Intn(3) // 0 Search, 1 Interior, 2 SearchFilter (filter: always true)
		interior := 0
		if variant == 1 {
			interior = 1
		}
		// how many edges of this case would be mis-bracketed by a re-computed end
		str := 0
		for k := 0; k < 3; k++ {
			u, v := (k+1)%3, (k+2)%3
			for _, a := range axes[u] {
				for _, b := range axes[v] {
					var p [3]float64
					p[u], p[v] = a, b
					str += recomputedEndStraddles(axes[k], mn[k], delta, func(x float64) bool {
						q := p
						q[k] = x
						return t.contains(q[0], q[1], q[2])
					})
				}
			}
		}
		if str > 0 {
			c.Stat("c02.mcl.cases_with_an_edge_whose_recomputed_end_is_classified_differently", 1)
			c.Stat("c02.mcl.edges_whose_recomputed_end_is_classified_differently", str)
		}
		if milli == 0 {
			c.Stat("c02.mcl.non_decimal_spacing", 1)
		}
		head := fmt.Sprintf("c02 mcl %d %d %s %s %d %d %d %s %s %s %s", iters, interior, hlib.Hex(delta), hexList(mn[:]),
			len(xs), len(ys), len(zs), hexList(xs), hexList(ys), hexList(zs), t)
		announce(head)
		var verts []string
		res := withTimeout(func() string {
			var m *model3d.Mesh
			var in *model3d.CoordMap[model3d.Coord3D]
			switch variant {
			case 0:
				m = model3d.MarchingCubesSearch(s, delta, iters)
			case 1:
				m, in = model3d.MarchingCubesInterior(s, delta, iters)
			default:
				m = model3d.MarchingCubesSearchFilter(s, func(*model3d.Rect) bool { return true }, delta, iters)
			}
			vs := m.VertexSlice()
			for _, v := range vs {
				str := hex3(v)
				if in != nil {
					ip, ok := in.Load(v)
					if !ok {
						return "no-interior-point-for-vertex"
					}
					str += " " + hex3(ip)
				}
				verts = append(verts, str)
			}
			if in != nil && in.Len() != len(vs) {
				return "interior-map-size-mismatch"
			}
			return fmt.Sprintf("n=%d bad=-", len(vs))
		})
		c.Stat("c02.mcl", 1)
		c.Stat("c02.mcl.vertices", len(verts))
		c.Emit(fmt.Sprintf("%s V %d %s", head, len(verts), strings.Join(verts, " ")), res)
	})
}

func runMsLattice(c *hlib.Ctx) {
	batch(c, "msl", capN(c.N, 600), func() {
		delta, milli := latticeDelta(c)
		var mn, mx [2]float64
		for k := 0; k < 2; k++ {
			mn[k], mx[k] = latticeBounds(c, delta, milli, 2+c.Rng.Intn(10))
		}
		bnd := &solid2{&csg{kind: "box", p: []float64{mn[0], mn[1], -1, mx[0], mx[1], 1}},
			model2d.XY(mn[0], mn[1]), model2d.XY(mx[0], mx[1])}
		xs, ys := model2d.VerifSpacer(bnd, delta)
		axes := [][]float64{xs, ys}
		t := latticeSolid(c, axes, mn[:], mx[:], delta)
		s := &solid2{t, bnd.min, bnd.max}
		iters := 1 + c.Rng.Intn(12)
		if c.Rng.Intn(3) == 0 {
			iters = 8
		}
		variant := c.Rng.Intn(2)
		str := 0
		for k := 0; k < 2; k++ {
			for _, a := range axes[1-k] {
				var p [2]float64
				p[1-k] = a
				str += recomputedEndStraddles(axes[k], mn[k], delta, func(x float64) bool {
					q := p
					q[k] = x
					return t.contains(q[0], q[1], 0)
				})
			}
		}
		if str > 0 {
			c.Stat("c02.msl.cases_with_an_edge_whose_recomputed_end_is_classified_differently", 1)
			c.Stat("c02.msl.edges_whose_recomputed_end_is_classified_differently", str)
		}
		if milli == 0 {
			c.Stat("c02.msl.non_decimal_spacing", 1)
		}
		head := fmt.Sprintf("c02 msl %d 0 %s %s %d %d %s %s %s", iters, hlib.Hex(delta), hexList(mn[:]),
			len(xs), len(ys), hexList(xs), hexList(ys), t)
		announce(head)
		var verts []string
		res := withTimeout(func() string {
			var m *model2d.Mesh
			if variant == 0 {
				m = model2d.MarchingSquaresSearch(s, delta, iters)
			} else {
				m = model2d.MarchingSquaresSearchFilter(s, func(*model2d.Rect) bool { return true }, delta, iters)
			}
			vs := m.VertexSlice()
			for _, v := range vs {
				verts = append(verts, hlib.Hex(v.X)+" "+hlib.Hex(v.Y))
			}
			return fmt.Sprintf("n=%d bad=-", len(vs))
		})
		c.Stat("c02.msl", 1)
		c.Stat("c02.msl.vertices", len(verts))
		c.Emit(fmt.Sprintf("%s V %d %s", head, len(verts), strings.Join(verts, " ")), res)
	})
}
