package main

import (
	"fmt"
	"math"
	"strings"

	"github.com/unixpickle/model3d/model2d"
	"github.com/unixpickle/model3d/model3d"
	"verif/harness/hlib"
)

// csg is a small solid language with EXACT semantics on dyadic inputs: every
// Contains is a comparison of sums/products that are exact in float64 for the
// parameter ranges the generators use.  The Lean driver evaluates the same
// language on Rat (M3d.Drv.C02.contains).  The solids are INPUTS to the code
// under test (MarchingCubes*, MarchingSquares*, DualContouring,
// SolidSurfaceEstimator); they are not themselves what is verified here.
type csg struct {
	kind string // box ball half plane vox or and sub
	p    []float64
	a, b *csg
	// vox
	n    [3]int
	bits []bool
}

func (s *csg) contains(x, y, z float64) bool {
	switch s.kind {
	case "box":
		return x >= s.p[0] && y >= s.p[1] && z >= s.p[2] && x <= s.p[3] && y <= s.p[4] && z <= s.p[5]
	case "ball":
		dx, dy, dz := x-s.p[0], y-s.p[1], z-s.p[2]
		return dx*dx+dy*dy+dz*dz <= s.p[3]*s.p[3]
	case "half": // p = axis, sign, threshold: sign>0: c<=t ; sign<0: c>=t
		c := [3]float64{x, y, z}[int(s.p[0])]
		if s.p[1] > 0 {
			return c <= s.p[2]
		}
		return c >= s.p[2]
	case "plane": // p = a, b, c, d (small integers / dyadic): a*x + b*y + c*z <= d, an oblique half-space
		return s.p[0]*x+s.p[1]*y+s.p[2]*z <= s.p[3]
	case "vox": // p = origin(3), delta ; nearest lattice point decides
		idx := [3]int{}
		for i, c := range [3]float64{x, y, z} {
			idx[i] = int(math.Floor((c-s.p[i])/s.p[3] + 0.5))
			if idx[i] < 0 || idx[i] >= s.n[i] {
				return false
			}
		}
		return s.bits[idx[0]+s.n[0]*(idx[1]+s.n[1]*idx[2])]
	case "or":
		return s.a.contains(x, y, z) || s.b.contains(x, y, z)
	case "and":
		return s.a.contains(x, y, z) && s.b.contains(x, y, z)
	case "sub":
		return s.a.contains(x, y, z) && !s.b.contains(x, y, z)
	}
	panic("bad csg")
}

func (s *csg) String() string {
	rs := func() string {
		out := make([]string, len(s.p))
		for i, v := range s.p {
			out[i] = hlib.RatStr(v)
		}
		return strings.Join(out, " ")
	}
	switch s.kind {
	case "box", "ball", "half", "plane":
		return s.kind + " " + rs()
	case "vox":
		return fmt.Sprintf("vox %s %d %d %d %s", rs(), s.n[0], s.n[1], s.n[2], bitStr(s.bits))
	default:
		return s.kind + " " + s.a.String() + " " + s.b.String()
	}
}

// solid3 / solid2 adapt a csg with explicit bounds to the library interfaces.
type solid3 struct {
	c        *csg
	min, max model3d.Coord3D
}

func (s *solid3) Min() model3d.Coord3D            { return s.min }
func (s *solid3) Max() model3d.Coord3D            { return s.max }
func (s *solid3) Contains(c model3d.Coord3D) bool { return s.c.contains(c.X, c.Y, c.Z) }

type solid2 struct {
	c        *csg
	min, max model2d.Coord
}

func (s *solid2) Min() model2d.Coord            { return s.min }
func (s *solid2) Max() model2d.Coord            { return s.max }
func (s *solid2) Contains(c model2d.Coord) bool { return s.c.contains(c.X, c.Y, 0) }

func bitStr(bs []bool) string {
	var b strings.Builder
	for _, x := range bs {
		if x {
			b.WriteByte('1')
		} else {
			b.WriteByte('0')
		}
	}
	if b.Len() == 0 {
		return "-"
	}
	return b.String()
}

// randBits draws a labelling with varying density, incl. noisy checkerboards
// (ambiguous configurations, thin features).
func randBits(c *hlib.Ctx, dims [3]int) []bool {
	n := dims[0] * dims[1] * dims[2]
	bs := make([]bool, n)
	mode := c.Rng.Intn(6)
	for i := range bs {
		x, y, z := i%dims[0], (i/dims[0])%dims[1], i/dims[0]/dims[1]
		switch mode {
		case 0:
			bs[i] = (x+y+z)%2 == 0
			if c.Rng.Intn(10) == 0 {
				bs[i] = !bs[i]
			}
		case 1:
			bs[i] = c.Rng.Intn(5) == 0
		case 2:
			bs[i] = c.Rng.Intn(5) != 0
		default:
			bs[i] = c.Rng.Intn(2) == 0
		}
	}
	return bs
}

// dy draws a dyadic k/2^bits in [lo, hi].
func dy(c *hlib.Ctx, lo, hi float64, bits uint) float64 {
	d := float64(int(1) << bits)
	a, b := int(math.Ceil(lo*d)), int(math.Floor(hi*d))
	if b < a { // no k/2^bits inside [lo, hi]: the nearest one above lo
		b = a
	}
	return float64(a+c.Rng.Intn(b-a+1)) / d
}

// randCSG draws a dyadic CSG tree inside [0, span]^3 (2-D: z-extent always
// covers 0).  Faces often fall exactly on lattice points or cell midpoints and
// boxes may be thinner than the spacing.
func randCSG(c *hlib.Ctx, span float64, depth int, allowBall bool, flat bool) *csg {
	if depth > 0 && c.Rng.Intn(3) != 0 {
		kinds := []string{"or", "and", "sub", "or"}
		return &csg{kind: kinds[c.Rng.Intn(len(kinds))], a: randCSG(c, span, depth-1, allowBall, flat),
			b: randCSG(c, span, depth-1, allowBall, flat)}
	}
	bits := uint(c.Rng.Intn(4))
	switch k := c.Rng.Intn(6); {
	case k == 5:
		return oblique(c, span, flat)
	case k == 0 && allowBall:
		r := dy(c, 0.25, span/2, 2)
		ctr := [3]float64{dy(c, r, span-r, 2), dy(c, r, span-r, 2), dy(c, r, span-r, 2)}
		if flat {
			ctr[2] = 0
		}
		return &csg{kind: "ball", p: []float64{ctr[0], ctr[1], ctr[2], r}}
	case k == 1:
		// slab: two half-spaces on one axis, possibly very thin
		ax := c.Rng.Intn(3)
		if flat {
			ax = c.Rng.Intn(2)
		}
		lo := dy(c, 0, span-0.125, bits)
		hi := lo + dy(c, 0, span-lo, bits)
		return &csg{kind: "and", a: &csg{kind: "half", p: []float64{float64(ax), -1, lo}},
			b: &csg{kind: "half", p: []float64{float64(ax), 1, hi}}}
	default:
		var p [6]float64
		for i := 0; i < 3; i++ {
			p[i] = dy(c, 0, span-0.125, bits)
			p[i+3] = p[i] + dy(c, 0, span-p[i], bits)
		}
		if flat {
			p[2], p[5] = -1, 1
		}
		return &csg{kind: "box", p: p[:]}
	}
}

// obliquePlane draws a half-space a*x+b*y+c*z <= d whose boundary passes through the dyadic point q
// and whose normal has small integer components, at least two of them non-zero (not grid aligned).
func obliquePlane(c *hlib.Ctx, q [3]float64, flat bool) *csg {
	for {
		a := [3]float64{float64(c.Rng.Intn(7) - 3), float64(c.Rng.Intn(7) - 3), float64(c.Rng.Intn(7) - 3)}
		if flat {
			a[2] = 0
		}
		nz := 0
		for _, v := range a {
			if v != 0 {
				nz++
			}
		}
		if nz < 2 {
			continue
		}
		return &csg{kind: "plane", p: []float64{a[0], a[1], a[2], a[0]*q[0] + a[1]*q[1] + a[2]*q[2]}}
	}
}

// oblique: a convex body cut out by 3..5 oblique half-spaces through points near the middle of
// [0, span]^3 (wedges, pyramids, tips and creases that are not aligned with the grid).
func oblique(c *hlib.Ctx, span float64, flat bool) *csg {
	var t *csg
	for n := 3 + c.Rng.Intn(3); n > 0; n-- {
		q := [3]float64{dy(c, 0.25*span, 0.75*span, 3), dy(c, 0.25*span, 0.75*span, 3), dy(c, 0.25*span, 0.75*span, 3)}
		if flat {
			q[2] = 0
		}
		pl := obliquePlane(c, q, flat)
		if t == nil {
			t = pl
		} else {
			t = &csg{kind: "and", a: t, b: pl}
		}
	}
	return t
}
