package main

import (
	"fmt"
	"math"
	"runtime"
	"sort"
	"strings"
	"sync"

	"github.com/unixpickle/model3d/model2d"
	"github.com/unixpickle/model3d/model3d"
	"verif/harness/hlib"
)

// ---- region filters for MarchingSquaresFilter / MarchingCubesFilter (+SearchFilter).
//
// The documented contract of the filter f: "does not scan rectangular areas for
// which f returns false ... the filter can be conservative and possibly report
// collisions that do not occur.  However, it should never fail to report
// collisions, since this could cause segments to be missed."  A filter that
// answers false ONLY for rectangles on which Contains is constant (no surface in
// the rectangle) obeys that contract under every reading; with such a filter the
// result must be the mesh of the unfiltered function (theorems
// ms_filter_same_mesh / mc_filter_same_mesh via ms_rect_filter_point_sound and
// ms_filter_rect_covers_block_points).  The filters below answer false as often
// as that contract allows, so that a rectangle that does not cover its block is
// noticed.

// tri is the value of a solid over a box: 0 = false everywhere, 1 = true
// everywhere, 2 = unknown/mixed.
type tri int

const (
	allOut tri = 0
	allIn  tri = 1
	mixed  tri = 2
)

// over evaluates the csg over all float64 points of the closed box [lo, hi].
// Leaves are exact with respect to the float64 arithmetic of contains (every
// operation there is monotone in each coordinate); or/and/sub are Kleene
// connectives, i.e. conservative: allOut / allIn are only reported when contains
// is constant on the box.
func (s *csg) over(lo, hi [3]float64) tri {
	switch s.kind {
	case "box":
		in := true
		for i := 0; i < 3; i++ {
			if hi[i] < s.p[i] || lo[i] > s.p[i+3] {
				return allOut
			}
			if !(lo[i] >= s.p[i] && hi[i] <= s.p[i+3]) {
				in = false
			}
		}
		if in {
			return allIn
		}
		return mixed
	case "ball":
		var mn, mx [3]float64
		for i := 0; i < 3; i++ {
			a, b := lo[i]-s.p[i], hi[i]-s.p[i]
			mx[i] = math.Max(math.Abs(a), math.Abs(b))
			if a <= 0 && b >= 0 {
				mn[i] = 0
			} else {
				mn[i] = math.Min(math.Abs(a), math.Abs(b))
			}
		}
		r2 := s.p[3] * s.p[3]
		if mx[0]*mx[0]+mx[1]*mx[1]+mx[2]*mx[2] <= r2 {
			return allIn
		}
		if !(mn[0]*mn[0]+mn[1]*mn[1]+mn[2]*mn[2] <= r2) {
			return allOut
		}
		return mixed
	case "half":
		ax := int(s.p[0])
		if s.p[1] > 0 { // c <= t
			if hi[ax] <= s.p[2] {
				return allIn
			}
			if lo[ax] > s.p[2] {
				return allOut
			}
			return mixed
		}
		if lo[ax] >= s.p[2] {
			return allIn
		}
		if hi[ax] < s.p[2] {
			return allOut
		}
		return mixed
	case "plane":
		// the float expression of contains is monotone in each coordinate (increasing where the
		// coefficient is positive, decreasing where it is negative): its extremes over the box are
		// its values at two corners
		var mn, mx [3]float64
		for i := 0; i < 3; i++ {
			if s.p[i] >= 0 {
				mn[i], mx[i] = lo[i], hi[i]
			} else {
				mn[i], mx[i] = hi[i], lo[i]
			}
		}
		if s.p[0]*mx[0]+s.p[1]*mx[1]+s.p[2]*mx[2] <= s.p[3] {
			return allIn
		}
		if !(s.p[0]*mn[0]+s.p[1]*mn[1]+s.p[2]*mn[2] <= s.p[3]) {
			return allOut
		}
		return mixed
	case "vox":
		var a, b [3]int
		outside := false
		for i := 0; i < 3; i++ {
			a[i] = int(math.Floor((lo[i]-s.p[i])/s.p[3] + 0.5))
			b[i] = int(math.Floor((hi[i]-s.p[i])/s.p[3] + 0.5))
			if a[i] < 0 {
				a[i] = 0
				outside = true
			}
			if b[i] >= s.n[i] {
				b[i] = s.n[i] - 1
				outside = true
			}
			if a[i] > b[i] {
				return allOut
			}
		}
		anyT, anyF := false, outside
		for z := a[2]; z <= b[2]; z++ {
			for y := a[1]; y <= b[1]; y++ {
				for x := a[0]; x <= b[0]; x++ {
					if s.bits[x+s.n[0]*(y+s.n[1]*z)] {
						anyT = true
					} else {
						anyF = true
					}
					if anyT && anyF {
						return mixed
					}
				}
			}
		}
		if anyT {
			return allIn
		}
		return allOut
	case "or":
		x, y := s.a.over(lo, hi), s.b.over(lo, hi)
		if x == allIn || y == allIn {
			return allIn
		}
		if x == allOut && y == allOut {
			return allOut
		}
		return mixed
	case "and":
		x, y := s.a.over(lo, hi), s.b.over(lo, hi)
		if x == allOut || y == allOut {
			return allOut
		}
		if x == allIn && y == allIn {
			return allIn
		}
		return mixed
	case "sub":
		x, y := s.a.over(lo, hi), s.b.over(lo, hi)
		if x == allOut || y == allIn {
			return allOut
		}
		if x == allIn && y == allOut {
			return allIn
		}
		return mixed
	}
	panic("bad csg")
}

// regionFilter is a filter handed to the library together with what it saw.
// mode 0: always true; mode 1: "the surface may meet the rectangle" (over ==
// mixed); mode 2: "two lattice points of the rectangle are labelled
// differently" (the least permissive filter for which the filtered mesh is
// still determined, tightFilter2/3 of the model; it reports every rectangle that
// meets the marching mesh).
type regionFilter struct {
	mode int
	t    *csg
	axes [][]float64 // lattice values per axis (2 or 3)
	lab  []bool      // labels, x fastest

	mu        sync.Mutex
	calls     int
	rejected  int
	lastStrip int    // rectangles kept only because of their top index layer (per axis)
	unsound   string // a rejected rectangle containing differently labelled lattice points
}

// idxRange returns the indices of the lattice values inside [lo, hi].
func idxRange(vals []float64, lo, hi float64) (int, int) {
	a := sort.SearchFloat64s(vals, lo)
	b := sort.Search(len(vals), func(i int) bool { return vals[i] > hi }) - 1
	return a, b
}

// latticeMixed: are two lattice points with indices in the given ranges labelled differently?
func (f *regionFilter) latticeMixed(a, b [3]int) bool {
	first, have := false, false
	nx, ny := len(f.axes[0]), len(f.axes[1])
	for z := a[2]; z <= b[2]; z++ {
		for y := a[1]; y <= b[1]; y++ {
			for x := a[0]; x <= b[0]; x++ {
				v := f.lab[x+nx*(y+ny*z)]
				if !have {
					first, have = v, true
				} else if v != first {
					return true
				}
			}
		}
	}
	return false
}

func (f *regionFilter) eval(lo, hi [3]float64) bool {
	if f.mode == 0 {
		return true
	}
	var a, b [3]int
	for k := range f.axes {
		a[k], b[k] = idxRange(f.axes[k], lo[k], hi[k])
	}
	lm := f.latticeMixed(a, b)
	var res bool
	if f.mode == 1 {
		res = f.t.over(lo, hi) == mixed
	} else {
		res = lm
	}
	f.mu.Lock()
	defer f.mu.Unlock()
	f.calls++
	if !res {
		f.rejected++
		if lm && f.unsound == "" {
			f.unsound = fmt.Sprintf("%v..%v", lo, hi)
		}
		return false
	}
	// would the answer have been "no" without the last index layer on every axis?
	// (the situation in which a rectangle that stops one lattice step early loses cells)
	b2 := b
	shrunk := false
	for k := range f.axes {
		if b[k] > a[k] {
			b2[k] = b[k] - 1
			shrunk = true
		}
	}
	if shrunk && lm && !f.latticeMixed(a, b2) {
		f.lastStrip++
	}
	return true
}

func (f *regionFilter) f2(r *model2d.Rect) bool {
	return f.eval([3]float64{r.MinVal.X, r.MinVal.Y, 0}, [3]float64{r.MaxVal.X, r.MaxVal.Y, 0})
}

func (f *regionFilter) f3(r *model3d.Rect) bool {
	return f.eval([3]float64{r.MinVal.X, r.MinVal.Y, r.MinVal.Z}, [3]float64{r.MaxVal.X, r.MaxVal.Y, r.MaxVal.Z})
}

func (f *regionFilter) stats(c *hlib.Ctx, kind string) {
	f.mu.Lock()
	defer f.mu.Unlock()
	if f.mode == 0 {
		return
	}
	c.Stat(fmt.Sprintf("c02.%s.filter%d.calls", kind, f.mode), f.calls)
	c.Stat(fmt.Sprintf("c02.%s.filter%d.rejected_rects", kind, f.mode), f.rejected)
	c.Stat(fmt.Sprintf("c02.%s.filter%d.kept_only_for_last_index_layer", kind, f.mode), f.lastStrip)
	if f.lastStrip > 0 {
		c.Stat(fmt.Sprintf("c02.%s.cases_with_feature_only_in_last_layer_of_a_block", kind), 1)
	}
}

func newFilter2(mode int, t *csg, xs, ys []float64, lab []bool) *regionFilter {
	return &regionFilter{mode: mode, t: t, axes: [][]float64{xs, ys, {0}}[:3], lab: lab}
}

func newFilter3(mode int, t *csg, xs, ys, zs []float64, lab []bool) *regionFilter {
	return &regionFilter{mode: mode, t: t, axes: [][]float64{xs, ys, zs}, lab: lab}
}

// withProcs runs f with GOMAXPROCS = p (the number of worker goroutines of the Filter variants).
func withProcs(p int, f func()) {
	old := runtime.GOMAXPROCS(p)
	defer runtime.GOMAXPROCS(old)
	f()
}

// ---- solids with small features at arbitrary positions relative to the block
// subdivision: islands (boxes/balls/single voxels of about a cell), tips of thin
// bars, optionally next to a large body.
func islands(c *hlib.Ctx, span [3]float64, delta float64, flat bool) *csg {
	dims := 3
	if flat {
		dims = 2
	}
	one := func() *csg {
		switch c.Rng.Intn(4) {
		case 0: // small ball
			r := delta * []float64{0.25, 0.5, 0.75, 1, 1.5}[c.Rng.Intn(5)]
			p := []float64{0, 0, 0, r}
			for i := 0; i < dims; i++ {
				p[i] = dy(c, r, span[i]-r, 3)
			}
			return &csg{kind: "ball", p: p}
		case 1: // thin bar: long on one axis, about a cell wide on the others
			var p [6]float64
			long := c.Rng.Intn(dims)
			for i := 0; i < 3; i++ {
				w := delta * []float64{0.25, 0.5, 1, 1.25}[c.Rng.Intn(4)]
				if i == long {
					w = delta * float64(2+c.Rng.Intn(12))
				}
				if w > span[i] {
					w = span[i]
				}
				p[i] = dy(c, 0, span[i]-w, 3)
				p[i+3] = p[i] + w
			}
			if flat {
				p[2], p[5] = -1, 1
			}
			return &csg{kind: "box", p: p[:]}
		default: // small box, 1/4 .. 2 cells
			var p [6]float64
			for i := 0; i < 3; i++ {
				w := delta * []float64{0.25, 0.5, 1, 1.5, 2}[c.Rng.Intn(5)]
				if w > span[i] {
					w = span[i]
				}
				p[i] = dy(c, 0, span[i]-w, 3)
				p[i+3] = p[i] + w
			}
			if flat {
				p[2], p[5] = -1, 1
			}
			return &csg{kind: "box", p: p[:]}
		}
	}
	n := 1 + c.Rng.Intn(5)
	t := one()
	for i := 1; i < n; i++ {
		t = &csg{kind: "or", a: t, b: one()}
	}
	switch c.Rng.Intn(5) {
	case 0: // next to a large body
		m := math.Min(span[0], span[1])
		if !flat {
			m = math.Min(m, span[2])
		}
		r := math.Floor(m/3*4) / 4
		if r >= 0.25 {
			p := []float64{0, 0, 0, r}
			for i := 0; i < dims; i++ {
				p[i] = dy(c, r, span[i]-r, 2)
			}
			t = &csg{kind: "or", a: t, b: &csg{kind: "ball", p: p}}
		}
	case 1: // a body with the islands carved out (holes are features too)
		p := []float64{delta, delta, delta, span[0] - delta, span[1] - delta, span[2] - delta}
		if flat {
			p[2], p[5] = -1, 1
		}
		if p[3] > p[0] && p[4] > p[1] && p[5] > p[2] {
			t = &csg{kind: "sub", a: &csg{kind: "box", p: p}, b: t}
		}
	}
	return t
}

// sparseBits: a few true voxels (each a one-lattice-point island), sometimes short runs.
func sparseBits(c *hlib.Ctx, n [3]int) []bool {
	bs := make([]bool, n[0]*n[1]*n[2])
	k := 1 + c.Rng.Intn(6)
	for i := 0; i < k; i++ {
		x, y, z := c.Rng.Intn(n[0]), c.Rng.Intn(n[1]), c.Rng.Intn(n[2])
		run := 1
		if c.Rng.Intn(3) == 0 {
			run = 1 + c.Rng.Intn(4)
		}
		ax := c.Rng.Intn(3)
		for j := 0; j < run; j++ {
			p := [3]int{x, y, z}
			p[ax] += j
			if p[0] < n[0] && p[1] < n[1] && p[2] < n[2] {
				bs[p[0]+n[0]*(p[1]+n[1]*p[2])] = true
			}
		}
	}
	return bs
}

// ---- msf: MarchingSquaresFilter / SearchFilter(0) with a real filter on lattices large enough
// for several levels of block subdivision: the vertex set must be the sign-changing lattice edges
// (ms_filter_vertex_iff_sign_change), parity along lattice lines (ms_filter_side_correct).
func runMsFilter(c *hlib.Ctx) {
	batch(c, "msf", c.N/2, func() {
		delta := []float64{1, 0.5, 0.25}[c.Rng.Intn(3)]
		cells := [2]int{10 + c.Rng.Intn(44), 10 + c.Rng.Intn(44)}
		if c.Rng.Intn(4) == 0 {
			cells[1] = cells[0]
		}
		var t *csg
		var s *solid2
		if c.Rng.Intn(3) == 0 {
			n := [3]int{cells[0], cells[1], 1}
			o := [2]float64{dy(c, -3, 3, 2), dy(c, -3, 3, 2)}
			t = &csg{kind: "vox", p: []float64{o[0], o[1], 0, delta}, n: n, bits: sparseBits(c, n)}
			s = &solid2{t, model2d.XY(o[0], o[1]), model2d.XY(o[0]+delta*float64(n[0]-1), o[1]+delta*float64(n[1]-1))}
			c.Stat("c02.msf.sparse_voxels", 1)
		} else {
			span := [3]float64{delta * float64(cells[0]), delta * float64(cells[1]), 1}
			t = &csg{kind: "and", a: &csg{kind: "box", p: []float64{0, 0, -1, span[0], span[1], 1}},
				b: islands(c, span, delta, true)}
			sh := [2]float64{0, 0}
			if c.Rng.Intn(2) == 0 {
				sh = [2]float64{dy(c, -2, 2, 2), dy(c, -2, 2, 2)}
				t = shift(t, sh[0], sh[1])
			}
			s = &solid2{t, model2d.XY(sh[0], sh[1]), model2d.XY(sh[0]+span[0], sh[1]+span[1])}
			c.Stat("c02.msf.islands", 1)
		}
		xs, ys := model2d.VerifSpacer(s, delta)
		bs := labels2(s, xs, ys)
		mode := 1 + c.Rng.Intn(2)
		if c.Rng.Intn(3) != 0 {
			mode = 1
		}
		search := c.Rng.Intn(3) == 0
		procs := 1 + c.Rng.Intn(4)
		flt := newFilter2(mode, t, xs, ys, bs)
		// tokens after the labelling are replay information (the driver reads only NX NY bits)
		op := fmt.Sprintf("c02 msf %d %d %s | filter-mode %d search %v procs %d delta %s min %s,%s solid %s", len(xs), len(ys), bitStr(bs),
			mode, search, procs, hlib.RatStr(delta), hlib.RatStr(s.min.X), hlib.RatStr(s.min.Y), t)
		announce(op)
		c.Emit(op, withTimeout(func() string {
			var m *model2d.Mesh
			withProcs(procs, func() {
				if search {
					m = model2d.MarchingSquaresSearchFilter(s, flt.f2, delta, 0)
				} else {
					m = model2d.MarchingSquaresFilter(s, flt.f2, delta)
				}
			})
			if flt.unsound != "" {
				return "harness-error:filter-rejected-a-rect-with-differently-labelled-lattice-points:" + flt.unsound
			}
			var out []string
			var pts [][]float64
			for _, v := range m.VertexSlice() {
				a, b := doubledIndex(xs, v.X), doubledIndex(ys, v.Y)
				if a < 0 || b < 0 {
					return "vertex-not-on-lattice-or-midpoint"
				}
				out = append(out, fmt.Sprintf("%d.%d", a, b))
				pts = append(pts, []float64{v.X, v.Y})
			}
			sort.Strings(out)
			side := sideCheck(pts, [][]float64{xs, ys}, func(i []int) bool { return bs[i[0]+len(xs)*i[1]] })
			return fmt.Sprintf("n=%d side=%s %s", len(out), side, strings.Join(out, ";"))
		}))
		flt.stats(c, "msf")
	})
}

// ---- mcf: the 3-D twin (MarchingCubesFilter / SearchFilter(0)).
func runMcFilter(c *hlib.Ctx) {
	batch(c, "mcf", c.N/4, func() {
		delta := []float64{1, 0.5, 0.25}[c.Rng.Intn(3)]
		cells := [3]int{6 + c.Rng.Intn(16), 6 + c.Rng.Intn(16), 6 + c.Rng.Intn(16)}
		var t *csg
		var s *solid3
		if c.Rng.Intn(3) == 0 {
			n := cells
			o := [3]float64{dy(c, -3, 3, 2), dy(c, -3, 3, 2), dy(c, -3, 3, 2)}
			t = &csg{kind: "vox", p: []float64{o[0], o[1], o[2], delta}, n: n, bits: sparseBits(c, n)}
			s = &solid3{t, model3d.XYZ(o[0], o[1], o[2]),
				model3d.XYZ(o[0]+delta*float64(n[0]-1), o[1]+delta*float64(n[1]-1), o[2]+delta*float64(n[2]-1))}
			c.Stat("c02.mcf.sparse_voxels", 1)
		} else {
			span := [3]float64{delta * float64(cells[0]), delta * float64(cells[1]), delta * float64(cells[2])}
			t = &csg{kind: "and", a: &csg{kind: "box", p: []float64{0, 0, 0, span[0], span[1], span[2]}},
				b: islands(c, span, delta, false)}
			s = &solid3{t, model3d.XYZ(0, 0, 0), model3d.XYZ(span[0], span[1], span[2])}
			c.Stat("c02.mcf.islands", 1)
		}
		xs, ys, zs := model3d.VerifSpacer(s, delta)
		bs := labels3(s, xs, ys, zs)
		mode := 1 + c.Rng.Intn(2)
		if c.Rng.Intn(3) != 0 {
			mode = 1
		}
		search := c.Rng.Intn(3) == 0
		procs := 1 + c.Rng.Intn(4)
		flt := newFilter3(mode, t, xs, ys, zs, bs)
		op := fmt.Sprintf("c02 mcf %d %d %d %s | filter-mode %d search %v procs %d delta %s min %s solid %s", len(xs), len(ys), len(zs), bitStr(bs),
			mode, search, procs, hlib.RatStr(delta), rat3(s.min), t)
		announce(op)
		c.Emit(op, withTimeout(func() string {
			var m *model3d.Mesh
			withProcs(procs, func() {
				if search {
					m = model3d.MarchingCubesSearchFilter(s, flt.f3, delta, 0)
				} else {
					m = model3d.MarchingCubesFilter(s, flt.f3, delta)
				}
			})
			if flt.unsound != "" {
				return "harness-error:filter-rejected-a-box-with-differently-labelled-lattice-points:" + flt.unsound
			}
			var out []string
			var pts [][]float64
			for _, v := range m.VertexSlice() {
				a, b, d := doubledIndex(xs, v.X), doubledIndex(ys, v.Y), doubledIndex(zs, v.Z)
				if a < 0 || b < 0 || d < 0 {
					return "vertex-not-on-lattice-or-midpoint:" + rat3(v)
				}
				out = append(out, fmt.Sprintf("%d.%d.%d", a, b, d))
				pts = append(pts, []float64{v.X, v.Y, v.Z})
			}
			sort.Strings(out)
			side := sideCheck(pts, [][]float64{xs, ys, zs}, func(i []int) bool {
				return bs[i[0]+len(xs)*(i[1]+len(ys)*i[2])]
			})
			return fmt.Sprintf("n=%d side=%s %s", len(out), side, strings.Join(out, ";"))
		}))
		flt.stats(c, "mcf")
	})
}

func tree3(s model3d.Solid) *csg { return s.(*solid3).c }
func tree2(s model2d.Solid) *csg { return s.(*solid2).c }
