package main

import (
	"bytes"
	"context"
	"fmt"
	"math"
	"math/rand"
	"os"
	"os/exec"
	"sort"
	"strconv"
	"strings"
	"time"

	"github.com/unixpickle/model3d/model2d"
	"github.com/unixpickle/model3d/model3d"
	"verif/harness/hlib"
)

func main() { hlib.Main("C02", run) }

// withTimeout runs f (already panic-guarded) with a watchdog.
func withTimeout(f func() string) string {
	ch := make(chan string, 1)
	go func() { ch <- hlib.Guard(f) }()
	select {
	case r := <-ch:
		return r
	case <-time.After(60 * time.Second):
		return "timeout"
	}
}

// labels evaluates the solid on every lattice point (x fastest).
func labels3(s model3d.Solid, xs, ys, zs []float64) []bool {
	bs := make([]bool, 0, len(xs)*len(ys)*len(zs))
	for _, z := range zs {
		for _, y := range ys {
			for _, x := range xs {
				bs = append(bs, s.Contains(model3d.XYZ(x, y, z)))
			}
		}
	}
	return bs
}

func labels2(s model2d.Solid, xs, ys []float64) []bool {
	bs := make([]bool, 0, len(xs)*len(ys))
	for _, y := range ys {
		for _, x := range xs {
			bs = append(bs, s.Contains(model2d.XY(x, y)))
		}
	}
	return bs
}

// doubledIndex maps a coordinate to 2i (lattice value i) or 2i+1 (exact
// midpoint of values i, i+1); -1 otherwise.
func doubledIndex(vals []float64, v float64) int {
	for i, x := range vals {
		if x == v {
			return 2 * i
		}
		if i+1 < len(vals) && (x+vals[i+1])*0.5 == v {
			return 2*i + 1
		}
	}
	return -1
}

// sideCheck evaluates mc_side_correct on a real mesh: along every lattice line
// of every axis the number of mesh vertices before a lattice point has the
// parity of that point's label; no vertex sits on a lattice point or outside
// the lattice.  pts are the mesh vertices, axes the lattice value arrays.
func sideCheck(pts [][]float64, axes [][]float64, lab func(idx []int) bool) string {
	dim := len(axes)
	onLattice := func(vals []float64, v float64) int {
		i := sort.SearchFloat64s(vals, v)
		if i < len(vals) && vals[i] == v {
			return i
		}
		return -1
	}
	key := func(axis int, idx []int) string {
		var b strings.Builder
		fmt.Fprintf(&b, "%d", axis)
		for k, i := range idx {
			if k == axis {
				i = -1
			}
			fmt.Fprintf(&b, ",%d", i)
		}
		return b.String()
	}
	lines := map[string][]float64{}
	for _, p := range pts {
		off := -1
		idx := make([]int, dim)
		for k := 0; k < dim; k++ {
			i := onLattice(axes[k], p[k])
			if i < 0 {
				if off >= 0 {
					return "vertex-off-two-axes"
				}
				off = k
			}
			idx[k] = i
		}
		if off < 0 {
			return "vertex-on-lattice-point"
		}
		if p[off] < axes[off][0] || p[off] > axes[off][len(axes[off])-1] {
			return "vertex-outside-lattice"
		}
		lines[key(off, idx)] = append(lines[key(off, idx)], p[off])
	}
	idx := make([]int, dim)
	for axis := 0; axis < dim; axis++ {
		var rec func(k int) string
		rec = func(k int) string {
			if k == dim {
				vs := append([]float64(nil), lines[key(axis, idx)]...)
				sort.Float64s(vs)
				j := 0
				for i, x := range axes[axis] {
					for j < len(vs) && vs[j] < x {
						j++
					}
					idx[axis] = i
					if (j%2 == 1) != lab(idx) {
						return fmt.Sprintf("parity-mismatch-axis%d", axis)
					}
				}
				return ""
			}
			if k == axis {
				return rec(k + 1)
			}
			for i := range axes[k] {
				idx[k] = i
				if r := rec(k + 1); r != "" {
					return r
				}
			}
			return ""
		}
		if r := rec(0); r != "" {
			return r
		}
	}
	return "1"
}

func rat3(p model3d.Coord3D) string {
	return hlib.RatStr(p.X) + "," + hlib.RatStr(p.Y) + "," + hlib.RatStr(p.Z)
}

// ---- crash isolation.  The library panics inside its own worker goroutines
// ("solid is true outside of bounds", "vertex not on edge", index out of range
// after a bad edit); such a panic cannot be recovered and would take the whole
// harness down without naming the case.  The randomised kinds that run such
// code are therefore executed in child processes (this binary re-executed with
// C02_CHILD=<kind>:<seed>,<seed>,...), 25 cases per child; if a child dies its
// cases are re-run one per child and the crashing one is reported as
// `<op> -> crash:<panic message>` (the child announces each op on stderr before
// it calls the real code).  Every case draws from its own PRNG seeded by a
// value taken from the main PRNG, so parent and child generate the same case.
var childKind string
var childSeeds []int64

func announce(op string) {
	if childKind != "" {
		fmt.Fprintln(os.Stderr, "C02OP\t"+op)
	}
}

func batch(c *hlib.Ctx, kind string, n int, body func()) {
	if childKind != "" {
		if childKind != kind {
			return
		}
		saved := c.Rng
		for _, s := range childSeeds {
			c.Rng = rand.New(rand.NewSource(s))
			body()
		}
		c.Rng = saved
		return
	}
	seeds := make([]int64, n)
	for i := range seeds {
		seeds[i] = c.Rng.Int63()
	}
	const size = 25
	for lo := 0; lo < n; lo += size {
		hi := lo + size
		if hi > n {
			hi = n
		}
		if !runChild(c, kind, seeds[lo:hi], false) {
			for _, s := range seeds[lo:hi] {
				runChild(c, kind, []int64{s}, true)
			}
		}
	}
}

func runChild(c *hlib.Ctx, kind string, seeds []int64, final bool) bool {
	strs := make([]string, len(seeds))
	for i, s := range seeds {
		strs[i] = strconv.FormatInt(s, 10)
	}
	ctx, cancel := context.WithTimeout(context.Background(), 600*time.Second)
	defer cancel()
	cmd := exec.CommandContext(ctx, os.Args[0], "-seed", "0", "-n", strconv.Itoa(c.N))
	cmd.Env = append(os.Environ(), "C02_CHILD="+kind+":"+strings.Join(strs, ","))
	var stdout, stderr bytes.Buffer
	cmd.Stdout, cmd.Stderr = &stdout, &stderr
	err := cmd.Run()
	if err == nil {
		for _, line := range strings.Split(stdout.String(), "\n") {
			switch {
			case line == "":
			case strings.HasPrefix(line, "#stat "):
				f := strings.SplitN(line, " ", 3)
				if v, e := strconv.Atoi(f[2]); e == nil {
					c.Stat(f[1], v)
				}
			case strings.HasPrefix(line, "#propfail "):
				f := strings.SplitN(line, " ", 3)
				c.PropFail(f[1], f[2])
			case strings.HasPrefix(line, "#"):
			default:
				f := strings.Split(line, "\t")
				if len(f) >= 3 {
					c.EmitSite(f[0], f[1], f[2])
				} else if len(f) == 2 {
					c.Emit(f[0], f[1])
				}
			}
		}
		return true
	}
	if !final {
		return false
	}
	op, msg := "", "exit:"+err.Error()
	for _, line := range strings.Split(stderr.String(), "\n") {
		if strings.HasPrefix(line, "C02OP\t") {
			op = strings.TrimPrefix(line, "C02OP\t")
		} else if msg[:5] == "exit:" && (strings.HasPrefix(line, "panic:") || strings.HasPrefix(line, "fatal error:")) {
			msg = line
		}
	}
	if ctx.Err() != nil {
		msg = "timeout"
	}
	if op == "" {
		op = fmt.Sprintf("c02 %s child-died-before-announcing-an-op seed=%s", kind, strs[0])
	}
	msg = strings.NewReplacer(" ", "_", "\t", "_").Replace(msg)
	c.Stat("c02.crashed_children", 1)
	c.Emit(op, "crash:"+msg)
	return true
}

func run(c *hlib.Ctx) {
	if spec := os.Getenv("C02_CHILD"); spec != "" {
		f := strings.SplitN(spec, ":", 2)
		childKind = f[0]
		for _, s := range strings.Split(f[1], ",") {
			v, _ := strconv.ParseInt(s, 10, 64)
			childSeeds = append(childSeeds, v)
		}
	}
	runMcVerts(c)
	runMsVerts(c)
	runMsFilter(c)
	runMcFilter(c)
	runMcSearch(c)
	runMsSearch(c)
	if childKind == "" {
		runBisect(c)
		runDcIdx(c)
	}
	runDc(c)
	runConj(c)
	runC2F(c)
	// new batches go last so that the case streams of the older kinds stay what they were
	runMcLattice(c)
	runMsLattice(c)
}

// ---- marching cubes: vertex set = sign-changing lattice edges (mc_vertex_iff_sign_change),
// parity along lattice lines (mc_side_correct)
func runMcVerts(c *hlib.Ctx) {
	emit := func(s model3d.Solid, delta float64, variant int) {
		xs, ys, zs := model3d.VerifSpacer(s, delta)
		bs := labels3(s, xs, ys, zs)
		op := fmt.Sprintf("c02 mcv %d %d %d %s", len(xs), len(ys), len(zs), bitStr(bs))
		announce(op)
		c.Emit(op, withTimeout(func() string {
			var m *model3d.Mesh
			switch variant {
			case 0:
				m = model3d.MarchingCubes(s, delta)
			case 1:
				flt := newFilter3(c.Rng.Intn(3), tree3(s), xs, ys, zs, bs)
				m = model3d.MarchingCubesFilter(s, flt.f3, delta)
				if flt.unsound != "" {
					return "harness-error:filter-unsound:" + flt.unsound
				}
			default:
				m = model3d.MarchingCubesSearch(s, delta, 0)
			}
			var out []string
			var pts [][]float64
			for _, v := range m.VertexSlice() {
				a, b, d := doubledIndex(xs, v.X), doubledIndex(ys, v.Y), doubledIndex(zs, v.Z)
				if a < 0 || b < 0 || d < 0 {
					return "vertex-not-on-lattice-or-midpoint:" + rat3(v)
				}
				out = append(out, fmt.Sprintf("%d.%d.%d", a, b, d))
				pts = append(pts, []float64{v.X, v.Y, v.Z})
			}
			sort.Strings(out)
			side := sideCheck(pts, [][]float64{xs, ys, zs}, func(i []int) bool {
				return bs[i[0]+len(xs)*(i[1]+len(ys)*i[2])]
			})
			return fmt.Sprintf("n=%d side=%s %s", len(out), side, strings.Join(out, ";"))
		}))
	}
	// exhaustive: all 256 single-cell configurations
	for cfg := 0; cfg < 256 && childKind == ""; cfg++ {
		bs := make([]bool, 8)
		for i := range bs {
			bs[i] = cfg&(1<<uint(i)) != 0
		}
		v := &csg{kind: "vox", p: []float64{0, 0, 0, 1}, n: [3]int{2, 2, 2}, bits: bs}
		emit(&solid3{v, model3d.XYZ(0, 0, 0), model3d.XYZ(1, 1, 1)}, 1, 0)
	}
	if childKind == "" {
		c.Stat("c02.mcv.exhaustive_cells", 256)
	}
	batch(c, "mcv", c.N, func() {
		if c.Rng.Intn(3) != 0 {
			n := [3]int{1 + c.Rng.Intn(5), 1 + c.Rng.Intn(5), 1 + c.Rng.Intn(5)}
			d := []float64{1, 0.5, 0.25, 2}[c.Rng.Intn(4)]
			o := [3]float64{dy(c, -3, 3, 2), dy(c, -3, 3, 2), dy(c, -3, 3, 2)}
			v := &csg{kind: "vox", p: []float64{o[0], o[1], o[2], d}, n: n, bits: randBits(c, n)}
			s := &solid3{v, model3d.XYZ(o[0], o[1], o[2]),
				model3d.XYZ(o[0]+d*float64(n[0]-1), o[1]+d*float64(n[1]-1), o[2]+d*float64(n[2]-1))}
			emit(s, d, c.Rng.Intn(3))
			c.Stat("c02.mcv.lattice_solid", 1)
		} else {
			span := float64(1 + c.Rng.Intn(3))
			t := &csg{kind: "and", a: &csg{kind: "box", p: []float64{0, 0, 0, span, span, span}},
				b: randCSG(c, span, 2, true, false)}
			d := []float64{1, 0.5, 0.25}[c.Rng.Intn(3)]
			emit(&solid3{t, model3d.XYZ(0, 0, 0), model3d.XYZ(span, span, span)}, d, c.Rng.Intn(3))
			c.Stat("c02.mcv.csg", 1)
		}
	})
}

func runMsVerts(c *hlib.Ctx) {
	emit := func(s model2d.Solid, delta float64, variant int) {
		xs, ys := model2d.VerifSpacer(s, delta)
		bs := labels2(s, xs, ys)
		op := fmt.Sprintf("c02 msv %d %d %s", len(xs), len(ys), bitStr(bs))
		announce(op)
		c.Emit(op, withTimeout(func() string {
			var m *model2d.Mesh
			switch variant {
			case 0:
				m = model2d.MarchingSquares(s, delta)
			case 1:
				flt := newFilter2(c.Rng.Intn(3), tree2(s), xs, ys, bs)
				m = model2d.MarchingSquaresFilter(s, flt.f2, delta)
				if flt.unsound != "" {
					return "harness-error:filter-unsound:" + flt.unsound
				}
			default:
				m = model2d.MarchingSquaresSearch(s, delta, 0)
			}
			var out []string
			var pts [][]float64
			for _, v := range m.VertexSlice() {
				a, b := doubledIndex(xs, v.X), doubledIndex(ys, v.Y)
				if a < 0 || b < 0 {
					return "vertex-not-on-lattice-or-midpoint"
				}
				out = append(out, fmt.Sprintf("%d.%d", a, b))
				pts = append(pts, []float64{v.X, v.Y})
			}
			sort.Strings(out)
			side := sideCheck(pts, [][]float64{xs, ys}, func(i []int) bool { return bs[i[0]+len(xs)*i[1]] })
			return fmt.Sprintf("n=%d side=%s %s", len(out), side, strings.Join(out, ";"))
		}))
	}
	for cfg := 0; cfg < 16 && childKind == ""; cfg++ {
		bs := make([]bool, 4)
		for i := range bs {
			bs[i] = cfg&(1<<uint(i)) != 0
		}
		v := &csg{kind: "vox", p: []float64{0, 0, 0, 1}, n: [3]int{2, 2, 1}, bits: bs}
		emit(&solid2{v, model2d.XY(0, 0), model2d.XY(1, 1)}, 1, 0)
	}
	batch(c, "msv", c.N, func() {
		if c.Rng.Intn(3) != 0 {
			n := [3]int{1 + c.Rng.Intn(7), 1 + c.Rng.Intn(7), 1}
			d := []float64{1, 0.5, 0.25, 2}[c.Rng.Intn(4)]
			o := [2]float64{dy(c, -3, 3, 2), dy(c, -3, 3, 2)}
			v := &csg{kind: "vox", p: []float64{o[0], o[1], 0, d}, n: n, bits: randBits(c, n)}
			s := &solid2{v, model2d.XY(o[0], o[1]), model2d.XY(o[0]+d*float64(n[0]-1), o[1]+d*float64(n[1]-1))}
			emit(s, d, c.Rng.Intn(3))
			c.Stat("c02.msv.lattice_solid", 1)
		} else {
			span := float64(1 + c.Rng.Intn(3))
			t := &csg{kind: "and", a: &csg{kind: "box", p: []float64{0, 0, -1, span, span, 1}},
				b: randCSG(c, span, 2, true, true)}
			d := []float64{1, 0.5, 0.25, 0.125}[c.Rng.Intn(4)]
			emit(&solid2{t, model2d.XY(0, 0), model2d.XY(span, span)}, d, c.Rng.Intn(3))
			c.Stat("c02.msv.csg", 1)
		}
	})
}

// nearCheck evaluates the refinement claim directly on the implementation's
// output: the refined vertex lies on a lattice edge strictly between its ends,
// and the two samples at distance delta/2^(iters+1) on either side of it along
// the edge are classified differently (so a real transition lies within that
// distance), the contained one being on the side of the contained lattice end.
func nearCheck(p []float64, axes [][]float64, delta float64, iters int, contains func(q []float64) bool) string {
	off := -1
	for k := range axes {
		i := sort.SearchFloat64s(axes[k], p[k])
		if i < len(axes[k]) && axes[k][i] == p[k] {
			continue
		}
		if off >= 0 {
			return "off-two-axes"
		}
		off = k
	}
	if off < 0 {
		return "on-lattice-point"
	}
	i := sort.SearchFloat64s(axes[off], p[off])
	if i == 0 || i == len(axes[off]) {
		return "outside-lattice"
	}
	lo, hi := axes[off][i-1], axes[off][i]
	h := delta / math.Pow(2, float64(iters+1))
	q1 := append([]float64(nil), p...)
	q2 := append([]float64(nil), p...)
	q1[off] = p[off] - h
	q2[off] = p[off] + h
	if q1[off] < lo || q2[off] > hi {
		return "sample-leaves-edge"
	}
	e1 := append([]float64(nil), p...)
	e2 := append([]float64(nil), p...)
	e1[off], e2[off] = lo, hi
	c1, c2 := contains(q1), contains(q2)
	if c1 == c2 {
		return "no-transition-within-delta/2^iters"
	}
	if contains(e1) == contains(e2) {
		return "edge-ends-same-label"
	}
	if contains(e1) != c1 {
		return "contained-side-swapped"
	}
	return ""
}

func runMcSearch(c *hlib.Ctx) {
	batch(c, "mcs", c.N, func() {
		var t *csg
		var span float64
		deltas := []float64{1, 0.5, 0.25}
		maxIters := 12
		switch c.Rng.Intn(4) {
		case 0: // voxel solid: transitions exactly at cell midpoints, thin features
			n := [3]int{1 + c.Rng.Intn(3), 1 + c.Rng.Intn(3), 1 + c.Rng.Intn(3)}
			t = &csg{kind: "vox", p: []float64{0, 0, 0, 1}, n: n, bits: randBits(c, n)}
			span = float64(max3(n) - 1)
			if span == 0 {
				span = 1
			}
			t = &csg{kind: "and", a: &csg{kind: "box", p: []float64{-0.25, -0.25, -0.25, span + 0.25, span + 0.25, span + 0.25}}, b: t}
			c.Stat("c02.mcs.vox", 1)
		case 1: // half-spaces/boxes only: exact up to 40 iterations
			span = float64(1 + c.Rng.Intn(2))
			t = &csg{kind: "and", a: &csg{kind: "box", p: []float64{0, 0, 0, span, span, span}}, b: randCSG(c, span, 2, false, false)}
			maxIters = 40
			c.Stat("c02.mcs.boxes_deep", 1)
		default:
			span = float64(1 + c.Rng.Intn(2))
			t = &csg{kind: "and", a: &csg{kind: "box", p: []float64{0, 0, 0, span, span, span}}, b: randCSG(c, span, 2, true, false)}
			c.Stat("c02.mcs.csg", 1)
		}
		delta := deltas[c.Rng.Intn(len(deltas))]
		iters := c.Rng.Intn(maxIters + 1)
		s := &solid3{t, model3d.XYZ(0, 0, 0), model3d.XYZ(span, span, span)}
		if t.b.kind == "vox" {
			s = &solid3{t, model3d.XYZ(-0.25, -0.25, -0.25), model3d.XYZ(span+0.25, span+0.25, span+0.25)}
		}
		xs, ys, zs := model3d.VerifSpacer(s, delta)
		interior := c.Rng.Intn(2)
		op := fmt.Sprintf("c02 mcs %d %d %s %s %s %s %d %d %d %s", iters, interior,
			hlib.RatStr(xs[0]), hlib.RatStr(ys[0]), hlib.RatStr(zs[0]), hlib.RatStr(delta), len(xs), len(ys), len(zs), t)
		announce(op)
		c.Emit(op, withTimeout(func() string {
			var m *model3d.Mesh
			var in *model3d.CoordMap[model3d.Coord3D]
			if interior == 1 {
				m, in = model3d.MarchingCubesInterior(s, delta, iters)
			} else if c.Rng.Intn(2) == 0 {
				m = model3d.MarchingCubesSearch(s, delta, iters)
			} else {
				flt := newFilter3(c.Rng.Intn(3), t, xs, ys, zs, labels3(s, xs, ys, zs))
				m = model3d.MarchingCubesSearchFilter(s, flt.f3, delta, iters)
				if flt.unsound != "" {
					return "harness-error:filter-unsound:" + flt.unsound
				}
			}
			var out []string
			var pts [][]float64
			near, inOK := "1", "1"
			for _, v := range m.VertexSlice() {
				str := rat3(v)
				if in != nil {
					ip, ok := in.Load(v)
					if !ok {
						return "no-interior-point-for-vertex"
					}
					if !s.Contains(ip) {
						inOK = "0"
						c.PropFail("prop:c02 mcs/interior-point-not-contained", op)
					}
					str += "|" + rat3(ip)
				}
				out = append(out, str)
				p := []float64{v.X, v.Y, v.Z}
				pts = append(pts, p)
				if r := nearCheck(p, [][]float64{xs, ys, zs}, delta, iters, func(q []float64) bool {
					return s.Contains(model3d.XYZ(q[0], q[1], q[2]))
				}); r != "" && near == "1" {
					near = r
				}
			}
			if in != nil && in.Len() != len(out) {
				return "interior-map-size-mismatch"
			}
			sort.Strings(out)
			bs := labels3(s, xs, ys, zs)
			side := sideCheck(pts, [][]float64{xs, ys, zs}, func(i []int) bool {
				return bs[i[0]+len(xs)*(i[1]+len(ys)*i[2])]
			})
			return fmt.Sprintf("n=%d side=%s near=%s in=%s %s", len(out), side, near, inOK, strings.Join(out, ";"))
		}))
	})
}

func max3(n [3]int) int {
	m := n[0]
	if n[1] > m {
		m = n[1]
	}
	if n[2] > m {
		m = n[2]
	}
	return m
}

func runMsSearch(c *hlib.Ctx) {
	batch(c, "mss", c.N, func() {
		var t *csg
		var span float64
		maxIters := 12
		switch c.Rng.Intn(4) {
		case 0:
			n := [3]int{1 + c.Rng.Intn(5), 1 + c.Rng.Intn(5), 1}
			t = &csg{kind: "vox", p: []float64{0, 0, 0, 1}, n: n, bits: randBits(c, n)}
			span = float64(max3(n) - 1)
			if span == 0 {
				span = 1
			}
			t = &csg{kind: "and", a: &csg{kind: "box", p: []float64{-0.25, -0.25, -1, span + 0.25, span + 0.25, 1}}, b: t}
			c.Stat("c02.mss.vox", 1)
		case 1:
			span = float64(1 + c.Rng.Intn(3))
			t = &csg{kind: "and", a: &csg{kind: "box", p: []float64{0, 0, -1, span, span, 1}}, b: randCSG(c, span, 2, false, true)}
			maxIters = 40
			c.Stat("c02.mss.boxes_deep", 1)
		default:
			span = float64(1 + c.Rng.Intn(3))
			t = &csg{kind: "and", a: &csg{kind: "box", p: []float64{0, 0, -1, span, span, 1}}, b: randCSG(c, span, 2, true, true)}
			c.Stat("c02.mss.csg", 1)
		}
		delta := []float64{1, 0.5, 0.25}[c.Rng.Intn(3)]
		iters := c.Rng.Intn(maxIters + 1)
		// a non-zero solid minimum exercises msSearch's use of Min() (not the lattice origin)
		sh := [2]float64{dy(c, -2, 2, 2), dy(c, -2, 2, 2)}
		if c.Rng.Intn(2) == 0 {
			sh = [2]float64{0, 0}
		}
		isVox := t.b.kind == "vox"
		t = shift(t, sh[0], sh[1])
		s := &solid2{t, model2d.XY(sh[0], sh[1]), model2d.XY(sh[0]+span, sh[1]+span)}
		if isVox {
			s = &solid2{t, model2d.XY(sh[0]-0.25, sh[1]-0.25), model2d.XY(sh[0]+span+0.25, sh[1]+span+0.25)}
		}
		xs, ys := model2d.VerifSpacer(s, delta)
		op := fmt.Sprintf("c02 mss %d %s %s %s %d %d %s", iters,
			hlib.RatStr(xs[0]), hlib.RatStr(ys[0]), hlib.RatStr(delta), len(xs), len(ys), t)
		announce(op)
		c.Emit(op, withTimeout(func() string {
			var m *model2d.Mesh
			if c.Rng.Intn(2) == 0 {
				m = model2d.MarchingSquaresSearch(s, delta, iters)
			} else {
				flt := newFilter2(c.Rng.Intn(3), t, xs, ys, labels2(s, xs, ys))
				m = model2d.MarchingSquaresSearchFilter(s, flt.f2, delta, iters)
				if flt.unsound != "" {
					return "harness-error:filter-unsound:" + flt.unsound
				}
			}
			var out []string
			var pts [][]float64
			near := "1"
			for _, v := range m.VertexSlice() {
				out = append(out, hlib.RatStr(v.X)+","+hlib.RatStr(v.Y))
				p := []float64{v.X, v.Y}
				pts = append(pts, p)
				if r := nearCheck(p, [][]float64{xs, ys}, delta, iters, func(q []float64) bool {
					return s.Contains(model2d.XY(q[0], q[1]))
				}); r != "" && near == "1" {
					near = r
				}
			}
			sort.Strings(out)
			bs := labels2(s, xs, ys)
			side := sideCheck(pts, [][]float64{xs, ys}, func(i []int) bool { return bs[i[0]+len(xs)*i[1]] })
			return fmt.Sprintf("n=%d side=%s near=%s %s", len(out), side, near, strings.Join(out, ";"))
		}))
	})
}

// shift translates a csg tree in x/y (dyadic, exact).
func shift(t *csg, dx, dy float64) *csg {
	r := *t
	switch t.kind {
	case "box":
		r.p = []float64{t.p[0] + dx, t.p[1] + dy, t.p[2], t.p[3] + dx, t.p[4] + dy, t.p[5]}
	case "ball":
		r.p = []float64{t.p[0] + dx, t.p[1] + dy, t.p[2], t.p[3]}
	case "half":
		d := []float64{dx, dy, 0}[int(t.p[0])]
		r.p = []float64{t.p[0], t.p[1], t.p[2] + d}
	case "vox":
		r.p = []float64{t.p[0] + dx, t.p[1] + dy, t.p[2], t.p[3]}
	case "plane":
		r.p = []float64{t.p[0], t.p[1], t.p[2], t.p[3] + t.p[0]*dx + t.p[1]*dy}
	default:
		r.a, r.b = shift(t.a, dx, dy), shift(t.b, dx, dy)
	}
	return &r
}

// ---- SolidSurfaceEstimator.Bisect / BisectInterior / BisectInterp on arbitrary doubles,
// bit-for-bit against the Float run of the model; containment of the interior point is
// evaluated on the implementation's own output.
type halfSolid struct {
	axis int
	up   bool
	t    float64
}

func (h halfSolid) Min() model3d.Coord3D { return model3d.XYZ(-1e9, -1e9, -1e9) }
func (h halfSolid) Max() model3d.Coord3D { return model3d.XYZ(1e9, 1e9, 1e9) }
func (h halfSolid) Contains(c model3d.Coord3D) bool {
	v := c.Array()[h.axis]
	if h.up {
		return v >= h.t
	}
	return v <= h.t
}

type halfSolid2 struct {
	axis int
	up   bool
	t    float64
}

func (h halfSolid2) Min() model2d.Coord { return model2d.XY(-1e9, -1e9) }
func (h halfSolid2) Max() model2d.Coord { return model2d.XY(1e9, 1e9) }
func (h halfSolid2) Contains(c model2d.Coord) bool {
	v := c.Array()[h.axis]
	if h.up {
		return v >= h.t
	}
	return v <= h.t
}

func hex3(p model3d.Coord3D) string { return hlib.Hex(p.X) + " " + hlib.Hex(p.Y) + " " + hlib.Hex(p.Z) }

func runBisect(c *hlib.Ctx) {
	for i := 0; i < 4*c.N; i++ {
		axis := c.Rng.Intn(3)
		var p1, p2 model3d.Coord3D
		var thr float64
		switch c.Rng.Intn(4) {
		case 0: // lattice edge: ends differ on one axis only
			p1 = model3d.XYZ(c.Rng.NormFloat64(), c.Rng.NormFloat64(), c.Rng.NormFloat64())
			a := p1.Array()
			a[axis] += (c.Rng.Float64() + 0.01) * float64(1-2*c.Rng.Intn(2))
			p2 = model3d.NewCoord3DArray(a)
		case 1: // dyadic
			p1 = model3d.XYZ(c.Dyadic(4, 4), c.Dyadic(4, 4), c.Dyadic(4, 4))
			p2 = model3d.XYZ(c.Dyadic(4, 4), c.Dyadic(4, 4), c.Dyadic(4, 4))
		default:
			p1 = model3d.XYZ(c.Rng.NormFloat64(), c.Rng.NormFloat64(), c.Rng.NormFloat64())
			p2 = model3d.XYZ(c.Rng.NormFloat64(), c.Rng.NormFloat64(), c.Rng.NormFloat64())
		}
		a1, a2 := p1.Array()[axis], p2.Array()[axis]
		if a1 == a2 {
			continue
		}
		// the threshold separates the two ends; often it IS one of the ends (a solid face
		// through a sample point) or very close to one
		switch c.Rng.Intn(4) {
		case 0:
			thr = a1
		case 1:
			thr = a2
		case 2:
			thr = a1 + (a2-a1)*math.Pow(2, -float64(c.Rng.Intn(40)))
		default:
			thr = a1 + (a2-a1)*c.Rng.Float64()
		}
		lo, hi := math.Min(a1, a2), math.Max(a1, a2)
		if thr < lo || thr > hi {
			thr = lo
		}
		up := c.Rng.Intn(2) == 0
		s := halfSolid{axis, up, thr}
		if s.Contains(p1) == s.Contains(p2) {
			up = !up
			s.up = up
			if s.Contains(p1) == s.Contains(p2) {
				continue
			}
		}
		count := 1 + c.Rng.Intn(40)
		if c.Rng.Intn(3) == 0 {
			count = 32
		}
		if axis < 2 && c.Rng.Intn(4) == 0 {
			// the 2-D twin (model2d/surface_estimator.go, generated from the same template): same points
			// without the third coordinate
			q1, q2 := model2d.XY(p1.X, p1.Y), model2d.XY(p2.X, p2.Y)
			s2 := halfSolid2{axis, up, thr}
			est2 := &model2d.SolidSurfaceEstimator{Solid: s2, BisectCount: count}
			which := []string{"bisect", "interior"}[c.Rng.Intn(2)]
			upi := 0
			if up {
				upi = 1
			}
			op := fmt.Sprintf("c02 bis2 %s %d %d %d %s %s %s %s %s", which, count, axis, upi, hlib.Hex(thr),
				hlib.Hex(q1.X), hlib.Hex(q1.Y), hlib.Hex(q2.X), hlib.Hex(q2.Y))
			c.Stat("c02.bis2."+which, 1)
			c.EmitSite(op, hlib.Guard(func() string {
				if which == "bisect" {
					r := est2.Bisect(q1, q2)
					return hlib.Hex(r.X) + " " + hlib.Hex(r.Y)
				}
				r := est2.BisectInterior(q1, q2)
				in := "0"
				if s2.Contains(r) {
					in = "1"
				}
				return hlib.Hex(r.X) + " " + hlib.Hex(r.Y) + " in=" + in
			}), "corr:c02 bis2/"+which)
			continue
		}
		est := &model3d.SolidSurfaceEstimator{Solid: s, BisectCount: count}
		which := []string{"bisect", "interior"}[c.Rng.Intn(2)]
		upi := 0
		if up {
			upi = 1
		}
		op := fmt.Sprintf("c02 bis %s %d %d %d %s %s %s", which, count, axis, upi, hlib.Hex(thr), hex3(p1), hex3(p2))
		c.Stat("c02.bis."+which, 1)
		c.EmitSite(op, hlib.Guard(func() string {
			if which == "bisect" {
				return hex3(est.Bisect(p1, p2))
			}
			p := est.BisectInterior(p1, p2)
			in := "0"
			if s.Contains(p) {
				in = "1"
			}
			return hex3(p) + " in=" + in
		}), "corr:c02 bis/"+which)
	}
}
