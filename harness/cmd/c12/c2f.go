package main

// Coarse-to-fine marching (MarchingSquaresC2F / MarchingCubesC2F) on solids with TAPERED features:
// spikes, wedges, slots (2-D), cones, blades (3-D) of random orientation whose base is wider than
// bigDelta (the coarse pass sees the feature) and whose tip narrows below bigDelta and runs on into
// coarse cells without any inside coarse sample.  Spacing ratios bigDelta/smallDelta = 8..32.
//
// When must C2F equal the direct fine mesh?  C12 quantifies over "all coarse spacings that still see
// every feature".  The reading used here, evaluated on the two lattice labellings both by this
// harness and (deciding) by the Lean driver (M3d.C2F.seenAll2/3 with reach R = m):
//
//	every fine cell with a sign change is, in the max-norm, within ONE coarse spacing of a coarse
//	cell with a sign change (the coarse cell it lies in, or one sharing a face/edge/corner with it,
//	is crossed by the coarse mesh).
//
// M3d.C12.c2f_ms_sound / c2f_mc_sound prove that under this hypothesis a margin >= 2*bigDelta makes the
// filter reject only blocks without sign change, hence the face multiset is the plain one; and
// M3d.C2FMarginTie proves 2*bigDelta <= margin for the margin expression regenerated from the source.
// Candidates for which the hypothesis fails are not emitted (stat c12.c2f*.rejected_unseen).

import (
	"fmt"
	"math"
	"sort"

	"github.com/unixpickle/model3d/model2d"
	"github.com/unixpickle/model3d/model3d"
	"verif/harness/hlib"
)

// ---- 2-D shapes

type part2 interface {
	in(x, y float64) bool
	corners() [][2]float64
	desc() string
}

// spike2: a trapezoid/triangle; half width w0 at the base centre (bx,by), w1 at distance L along (ux,uy).
type spike2 struct{ bx, by, ux, uy, L, w0, w1 float64 }

func (s spike2) in(x, y float64) bool {
	dx, dy := x-s.bx, y-s.by
	t := dx*s.ux + dy*s.uy
	if t < 0 || t > s.L {
		return false
	}
	q := math.Abs(dy*s.ux - dx*s.uy)
	return q <= s.w0+(s.w1-s.w0)*t/s.L
}

func (s spike2) corners() [][2]float64 {
	px, py := -s.uy, s.ux
	tx, ty := s.bx+s.ux*s.L, s.by+s.uy*s.L
	return [][2]float64{{s.bx + px*s.w0, s.by + py*s.w0}, {s.bx - px*s.w0, s.by - py*s.w0},
		{tx + px*s.w1, ty + py*s.w1}, {tx - px*s.w1, ty - py*s.w1}}
}

func (s spike2) desc() string {
	return fmt.Sprintf("spike(%v,%v,%v,%v,%v,%v,%v)", s.bx, s.by, s.ux, s.uy, s.L, s.w0, s.w1)
}

type discPart struct{ cx, cy, r float64 }

func (d discPart) in(x, y float64) bool {
	return (x-d.cx)*(x-d.cx)+(y-d.cy)*(y-d.cy) <= d.r*d.r
}
func (d discPart) corners() [][2]float64 {
	return [][2]float64{{d.cx - d.r, d.cy - d.r}, {d.cx + d.r, d.cy + d.r}}
}
func (d discPart) desc() string { return fmt.Sprintf("disc(%v,%v,%v)", d.cx, d.cy, d.r) }

type boxPart struct{ x0, y0, x1, y1 float64 }

func (b boxPart) in(x, y float64) bool { return x >= b.x0 && x <= b.x1 && y >= b.y0 && y <= b.y1 }
func (b boxPart) corners() [][2]float64 {
	return [][2]float64{{b.x0, b.y0}, {b.x1, b.y1}}
}
func (b boxPart) desc() string { return fmt.Sprintf("box(%v,%v,%v,%v)", b.x0, b.y0, b.x1, b.y1) }

// taper2: (union of add) minus (union of sub), clipped to dyadic bounds.
type taper2 struct {
	min, max model2d.Coord
	add, sub []part2
}

func (t *taper2) Min() model2d.Coord { return t.min }
func (t *taper2) Max() model2d.Coord { return t.max }
func (t *taper2) Contains(c model2d.Coord) bool {
	if c.X < t.min.X || c.Y < t.min.Y || c.X > t.max.X || c.Y > t.max.Y {
		return false
	}
	for _, p := range t.sub {
		if p.in(c.X, c.Y) {
			return false
		}
	}
	for _, p := range t.add {
		if p.in(c.X, c.Y) {
			return true
		}
	}
	return false
}

func (t *taper2) desc() string {
	s := fmt.Sprintf("min=%v,%v max=%v,%v", t.min.X, t.min.Y, t.max.X, t.max.Y)
	for _, p := range t.add {
		s += "+" + p.desc()
	}
	for _, p := range t.sub {
		s += "-" + p.desc()
	}
	return s
}

// dyadicBounds: the bounding box of the added parts, moved outward to multiples of delta plus a random
// number (1..m) of fine steps, so that the phase between the shape and the COARSE lattice is random.
func dyadicBounds(c *hlib.Ctx, lo, hi []float64, delta float64, m int) {
	for i := range lo {
		lo[i] = math.Floor(lo[i]/delta)*delta - float64(1+c.Rng.Intn(m))*delta
		hi[i] = math.Ceil(hi[i]/delta)*delta + float64(1+c.Rng.Intn(m))*delta
	}
}

func randDir2(c *hlib.Ctx) (float64, float64) {
	switch c.Rng.Intn(10) {
	case 0:
		return 1, 0
	case 1:
		return 0, 1
	case 2:
		return -1, 0
	case 3:
		return 0, -1
	}
	a := c.Rng.Float64() * 2 * math.Pi
	return math.Cos(a), math.Sin(a)
}

func randSpike2(c *hlib.Ctx, big float64, bx, by, ux, uy float64, blunt bool) spike2 {
	w0 := big * (0.55 + 1.1*c.Rng.Float64())
	w1 := 0.0
	if blunt {
		w1 = big * (0.03 + 0.3*c.Rng.Float64())
	}
	slope := 0.06 + 0.26*c.Rng.Float64()
	L := (w0 - w1) / slope
	if L > 11*big {
		L = 11 * big
	}
	return spike2{bx, by, ux, uy, L, w0, w1}
}

// candidate2 draws one tapered solid.
func candidate2(c *hlib.Ctx, delta float64, m int) (*taper2, string) {
	big := float64(m) * delta
	t := &taper2{}
	family := ""
	switch c.Rng.Intn(6) {
	case 0, 1:
		family = "spike"
		ux, uy := randDir2(c)
		t.add = []part2{randSpike2(c, big, 0, 0, ux, uy, false)}
	case 2:
		family = "wedge"
		ux, uy := randDir2(c)
		t.add = []part2{randSpike2(c, big, 0, 0, ux, uy, true)}
	case 3, 4:
		family = "spikes_on_disc"
		r := big * (1.5 + 1.5*c.Rng.Float64())
		t.add = []part2{discPart{0, 0, r}}
		for k := 1 + c.Rng.Intn(3); k > 0; k-- {
			ux, uy := randDir2(c)
			sp := randSpike2(c, big, 0, 0, ux, uy, c.Rng.Intn(3) == 0)
			if sp.w0 > 0.8*r {
				sp.w0 = 0.8 * r
			}
			t.add = append(t.add, sp)
		}
	default:
		family = "slot_in_box"
		a, b := big*(4+6*c.Rng.Float64()), big*(4+6*c.Rng.Float64())
		t.add = []part2{boxPart{0, 0, a, b}}
		// a tapering slot cut in from the bottom edge, pointing inward
		ux, uy := randDir2(c)
		if uy < 0.3 {
			ux, uy = 0, 1
		}
		sp := randSpike2(c, big, a*(0.3+0.4*c.Rng.Float64()), -delta/2, ux, uy, c.Rng.Intn(3) == 0)
		if sp.L > 0.8*b {
			sp.L = 0.8 * b
		}
		t.sub = []part2{sp}
	}
	lo := []float64{math.Inf(1), math.Inf(1)}
	hi := []float64{math.Inf(-1), math.Inf(-1)}
	for _, p := range t.add {
		for _, q := range p.corners() {
			for i := 0; i < 2; i++ {
				lo[i] = math.Min(lo[i], q[i])
				hi[i] = math.Max(hi[i], q[i])
			}
		}
	}
	dyadicBounds(c, lo, hi, delta, m)
	t.min, t.max = model2d.XY(lo[0], lo[1]), model2d.XY(hi[0], hi[1])
	return t, family
}

func (l *lattice2) mixedCells() [][2]int {
	var res [][2]int
	for j := 0; j < l.cy; j++ {
		for i := 0; i < l.cx; i++ {
			a := l.at(i, j)
			if l.at(i+1, j) != a || l.at(i, j+1) != a || l.at(i+1, j+1) != a {
				res = append(res, [2]int{i, j})
			}
		}
	}
	return res
}

// nearAxis mirrors M3d.C2F.nearAxis (reach R fine steps, ratio m).
func nearAxis(m, R, i, J int) bool { return i <= m*J+1+R && m*J <= i+m+R }

// seen2 mirrors M3d.C2F.seenAll2 with R = m.
func seen2(m int, fine, coarse [][2]int) bool {
	for _, f := range fine {
		ok := false
		for _, q := range coarse {
			if nearAxis(m, m, f[0], q[0]) && nearAxis(m, m, f[1], q[1]) {
				ok = true
				break
			}
		}
		if !ok {
			return false
		}
	}
	return true
}

func gap(lo, hi, v float64) float64 { return math.Max(0, math.Max(lo-v, v-hi)) }

// depth2: the largest max-norm distance from a fine sign-change cell to the nearest vertex of the
// real coarse mesh, in units of bigDelta (the margin a vertex-based filter needs; statistics and
// candidate selection only).
func depth2(l *lattice2, fine [][2]int, coarse *model2d.Mesh, big float64) float64 {
	vs := coarse.VertexSlice()
	if len(vs) == 0 {
		return math.Inf(1)
	}
	worst := 0.0
	for _, f := range fine {
		x0, y0 := l.xs[f[0]], l.ys[f[1]]
		best := math.Inf(1)
		for _, v := range vs {
			d := math.Max(gap(x0, x0+l.delta, v.X), gap(y0, y0+l.delta, v.Y))
			if d < best {
				best = d
			}
		}
		if best > worst {
			worst = best
		}
	}
	return worst / big
}

func snapDoubled(v, origin, delta float64, bad *bool) (uint64, int) {
	t := (v - origin) / delta
	k := math.Floor(t)
	if !(k >= 0 && k < 1e9) {
		*bad = true
		return 0, 0
	}
	if t == k {
		return 2 * uint64(k), 0
	}
	return 2*uint64(k) + 1, 1
}

// meshHashSnap: every vertex (also after msSearch moved it along its lattice edge) is mapped to the
// midpoint of its lattice edge, in doubled lattice coordinates.
func (l *lattice2) meshHashSnap(m *model2d.Mesh) string {
	var ms mset
	bad := false
	m.Iterate(func(s *model2d.Segment) {
		var v [4]uint64
		for k, p := range s {
			x, ox := snapDoubled(p.X, l.xs[0], l.delta, &bad)
			y, oy := snapDoubled(p.Y, l.ys[0], l.delta, &bad)
			if ox+oy != 1 {
				bad = true
			}
			v[2*k], v[2*k+1] = x, y
		}
		ms.add(v[:]...)
	})
	if bad {
		return "offlattice " + ms.String()
	}
	return ms.String()
}

func segList(m *model2d.Mesh) [][4]float64 {
	var res [][4]float64
	m.Iterate(func(s *model2d.Segment) {
		res = append(res, [4]float64{s[0].X, s[0].Y, s[1].X, s[1].Y})
	})
	sort.Slice(res, func(i, j int) bool {
		for k := 0; k < 4; k++ {
			if res[i][k] != res[j][k] {
				return res[i][k] < res[j][k]
			}
		}
		return false
	})
	return res
}

func depthBucket(d float64) string {
	switch {
	case d < 1:
		return "lt_1.00"
	case d < 1.42:
		return "1.00_1.42"
	case d < 1.74:
		return "1.42_1.74"
	case d <= 2.0:
		return "1.74_2.00"
	}
	return "gt_2.00"
}

type cand2 struct {
	s      *taper2
	family string
	l, lc  *lattice2
	depth  float64
}

func runC2F2(c *hlib.Ctx) {
	nSolids := c.N/12 + 2
	delta := 1.0 / 64
	for i := 0; i < nSolids; i++ {
		m := []int{8, 16, 16, 16, 32, 32}[c.Rng.Intn(6)]
		big := float64(m) * delta
		var pick, deep *cand2
		for try := 0; try < 40 && deep == nil; try++ {
			s, family := candidate2(c, delta, m)
			l := newLattice2(axisPoints(s.min.X, s.max.X, delta), axisPoints(s.min.Y, s.max.Y, delta), delta, s)
			lc := newLattice2(axisPoints(s.min.X, s.max.X, big), axisPoints(s.min.Y, s.max.Y, big), big, s)
			c.Stat("c12.c2f2.candidates", 1)
			fine := l.mixedCells()
			if len(fine) == 0 || !seen2(m, fine, lc.mixedCells()) {
				c.Stat("c12.c2f2.rejected_unseen", 1)
				continue
			}
			d := depth2(l, fine, model2d.MarchingSquaresSearch(s, big, 8), big)
			cd := &cand2{s, family, l, lc, d}
			if pick == nil {
				pick = cd
			}
			if d >= 1.45 {
				deep = cd
			}
		}
		if deep != nil && c.Rng.Intn(5) != 0 {
			pick = deep
		}
		if pick == nil {
			c.Stat("c12.c2f2.no_candidate", 1)
			continue
		}
		emitC2F2(c, pick, m, delta)
	}
}

func emitC2F2(c *hlib.Ctx, cd *cand2, m int, delta float64) {
	s, l, lc := cd.s, cd.l, cd.lc
	big := float64(m) * delta
	c.Stat("c12.c2f2.solids", 1)
	c.Stat("c12.c2f2.family."+cd.family, 1)
	c.Stat(fmt.Sprintf("c12.c2f2.ratio_%d", m), 1)
	c.Stat("c12.c2f2.depth_iters8."+depthBucket(cd.depth), 1)
	opBase := fmt.Sprintf("c12 msc2f %d %d %s %d %d %d %s family=%s delta=%v solid=%s", len(l.xs), len(l.ys), bitStr(l.bits),
		m, len(lc.xs), len(lc.ys), bitStr(lc.bits), cd.family, delta, s.desc())
	// hypothesis hverts of M3d.C12.c2f_ms_sound on the REAL coarse mesh (after msSearch): every coarse
	// sign-change cell carries a coarse-mesh vertex in its closed box
	for _, it := range []int{0, 8} {
		it := it
		op := fmt.Sprintf("c12 same msc2f-hverts family=%s delta=%v solid=%s big=%d iters=%d", cd.family, delta, s.desc(), m, it)
		emitCase(c, op, "corr:c12 msc2f/hverts", func() string {
			vs := model2d.MarchingSquaresSearch(s, big, it).VertexSlice()
			for _, q := range lc.mixedCells() {
				x0, y0 := lc.xs[q[0]], lc.ys[q[1]]
				found := false
				for _, v := range vs {
					if v.X >= x0 && v.X <= x0+big && v.Y >= y0 && v.Y <= y0+big {
						found = true
						break
					}
				}
				if !found {
					return fmt.Sprintf("differs:coarse-cell(%d,%d)-without-vertex", q[0], q[1])
				}
			}
			return "same"
		})
	}
	type set struct {
		iters int
		extra float64
	}
	sets := []set{{0, 0}, {8, 0}, {[]int{3, 5, 12}[c.Rng.Intn(3)], []float64{0, 0, delta}[c.Rng.Intn(3)]}}
	for _, st := range sets {
		st := st
		p := allProcs[c.Rng.Intn(len(allProcs))]
		tag := fmt.Sprintf("fn=MarchingSquaresC2F procs=%d big=%d iters=%d extra=%v", p, m, st.iters, st.extra/delta)
		var got *model2d.Mesh
		emitCase(c, opBase+" "+tag, "corr:c12 msc2f/MarchingSquaresC2F", func() string {
			withProcs(p, func() { got = model2d.MarchingSquaresC2F(s, big, delta, st.extra, st.iters) })
			return l.meshHashSnap(got)
		})
		c.Stat("c12.c2f2.cases", 1)
		// segment-for-segment (exact coordinates) against the direct fine mesh
		op := fmt.Sprintf("c12 same msc2f-direct family=%s delta=%v solid=%s %s", cd.family, delta, s.desc(), tag)
		emitCase(c, op, "corr:c12 msc2f/direct", func() string {
			if got == nil {
				return "no-mesh"
			}
			want := segList(model2d.MarchingSquaresSearch(s, delta, st.iters))
			have := segList(got)
			if len(want) != len(have) {
				return fmt.Sprintf("differs:segments=%d direct=%d", len(have), len(want))
			}
			for i := range want {
				if want[i] != have[i] {
					return fmt.Sprintf("differs:segment#%d=%v direct=%v", i, have[i], want[i])
				}
			}
			return "same"
		})
	}
}

// ---- 3-D shapes

type part3 interface {
	in(p model3d.Coord3D) bool
	corners() []model3d.Coord3D
	desc() string
}

// cone3: circular cross-section, radius r0 at the base centre b, r1 at distance L along the unit axis u.
type cone3 struct {
	b, u      model3d.Coord3D
	L, r0, r1 float64
}

func (k cone3) in(p model3d.Coord3D) bool {
	d := p.Sub(k.b)
	t := d.Dot(k.u)
	if t < 0 || t > k.L {
		return false
	}
	q2 := d.Dot(d) - t*t
	r := k.r0 + (k.r1-k.r0)*t/k.L
	return q2 <= r*r
}

func (k cone3) corners() []model3d.Coord3D {
	tip := k.b.Add(k.u.Scale(k.L))
	return []model3d.Coord3D{k.b.AddScalar(-k.r0), k.b.AddScalar(k.r0), tip.AddScalar(-k.r1), tip.AddScalar(k.r1)}
}

func (k cone3) desc() string {
	return fmt.Sprintf("cone(%v,%v,%v,%v,%v,%v,%v,%v,%v)", k.b.X, k.b.Y, k.b.Z, k.u.X, k.u.Y, k.u.Z, k.L, k.r0, k.r1)
}

// blade3: rectangular cross-section spanned by e1,e2 (orthonormal with u); half widths (w0,h0) at the
// base, (w1,h1) at the tip.
type blade3 struct {
	b, u, e1, e2      model3d.Coord3D
	L, w0, w1, h0, h1 float64
}

func (k blade3) in(p model3d.Coord3D) bool {
	d := p.Sub(k.b)
	t := d.Dot(k.u)
	if t < 0 || t > k.L {
		return false
	}
	f := t / k.L
	return math.Abs(d.Dot(k.e1)) <= k.w0+(k.w1-k.w0)*f && math.Abs(d.Dot(k.e2)) <= k.h0+(k.h1-k.h0)*f
}

func (k blade3) corners() []model3d.Coord3D {
	var res []model3d.Coord3D
	for _, end := range []struct {
		c    model3d.Coord3D
		w, h float64
	}{{k.b, k.w0, k.h0}, {k.b.Add(k.u.Scale(k.L)), k.w1, k.h1}} {
		for _, s1 := range []float64{-1, 1} {
			for _, s2 := range []float64{-1, 1} {
				res = append(res, end.c.Add(k.e1.Scale(s1*end.w)).Add(k.e2.Scale(s2*end.h)))
			}
		}
	}
	return res
}

func (k blade3) desc() string {
	return fmt.Sprintf("blade(%v,%v,%v,u=%v,%v,%v,e1=%v,%v,%v,%v,%v,%v,%v,%v)", k.b.X, k.b.Y, k.b.Z, k.u.X, k.u.Y, k.u.Z,
		k.e1.X, k.e1.Y, k.e1.Z, k.L, k.w0, k.w1, k.h0, k.h1)
}

type ballPart struct {
	c model3d.Coord3D
	r float64
}

func (b ballPart) in(p model3d.Coord3D) bool { d := p.Sub(b.c); return d.Dot(d) <= b.r*b.r }
func (b ballPart) corners() []model3d.Coord3D {
	return []model3d.Coord3D{b.c.AddScalar(-b.r), b.c.AddScalar(b.r)}
}
func (b ballPart) desc() string { return fmt.Sprintf("ball(%v,%v,%v,%v)", b.c.X, b.c.Y, b.c.Z, b.r) }

type taper3 struct {
	min, max model3d.Coord3D
	add      []part3
}

func (t *taper3) Min() model3d.Coord3D { return t.min }
func (t *taper3) Max() model3d.Coord3D { return t.max }
func (t *taper3) Contains(c model3d.Coord3D) bool {
	if c.X < t.min.X || c.Y < t.min.Y || c.Z < t.min.Z || c.X > t.max.X || c.Y > t.max.Y || c.Z > t.max.Z {
		return false
	}
	for _, p := range t.add {
		if p.in(c) {
			return true
		}
	}
	return false
}

func (t *taper3) desc() string {
	s := fmt.Sprintf("min=%v,%v,%v max=%v,%v,%v", t.min.X, t.min.Y, t.min.Z, t.max.X, t.max.Y, t.max.Z)
	for _, p := range t.add {
		s += "+" + p.desc()
	}
	return s
}

func randDir3(c *hlib.Ctx) model3d.Coord3D {
	if c.Rng.Intn(4) == 0 {
		v := [3]float64{}
		v[c.Rng.Intn(3)] = []float64{-1, 1}[c.Rng.Intn(2)]
		return model3d.XYZ(v[0], v[1], v[2])
	}
	for {
		v := model3d.XYZ(c.Rng.NormFloat64(), c.Rng.NormFloat64(), c.Rng.NormFloat64())
		if n := v.Norm(); n > 0.1 {
			return v.Scale(1 / n)
		}
	}
}

func randTaper3(c *hlib.Ctx, big, maxL float64, b model3d.Coord3D) part3 {
	u := randDir3(c)
	w0 := big * (0.6 + 0.9*c.Rng.Float64())
	w1 := 0.0
	if c.Rng.Intn(3) == 0 {
		w1 = big * (0.03 + 0.25*c.Rng.Float64())
	}
	slope := 0.1 + 0.3*c.Rng.Float64()
	L := math.Min((w0-w1)/slope, maxL)
	if c.Rng.Intn(2) == 0 {
		return cone3{b, u, L, w0, w1}
	}
	e1, e2 := u.OrthoBasis()
	h0 := big * (0.6 + 0.9*c.Rng.Float64())
	h1 := h0
	if c.Rng.Intn(2) == 0 {
		h1 = w1 // pyramid
	}
	return blade3{b, u, e1, e2, L, w0, w1, h0, h1}
}

func candidate3(c *hlib.Ctx, delta float64, m int) (*taper3, string) {
	big := float64(m) * delta
	maxL := 6 * big
	if m >= 16 {
		maxL = 4.5 * big
	}
	t := &taper3{}
	family := "taper"
	if c.Rng.Intn(3) == 0 {
		family = "tapers_on_ball"
		r := big * (1.3 + 0.8*c.Rng.Float64())
		t.add = []part3{ballPart{model3d.Coord3D{}, r}}
		for k := 1 + c.Rng.Intn(2); k > 0; k-- {
			t.add = append(t.add, randTaper3(c, big, maxL, model3d.Coord3D{}))
		}
	} else {
		t.add = []part3{randTaper3(c, big, maxL, model3d.Coord3D{})}
	}
	lo := []float64{math.Inf(1), math.Inf(1), math.Inf(1)}
	hi := []float64{math.Inf(-1), math.Inf(-1), math.Inf(-1)}
	for _, p := range t.add {
		for _, q := range p.corners() {
			a := q.Array()
			for i := 0; i < 3; i++ {
				lo[i] = math.Min(lo[i], a[i])
				hi[i] = math.Max(hi[i], a[i])
			}
		}
	}
	dyadicBounds(c, lo, hi, delta, m)
	t.min, t.max = model3d.XYZ(lo[0], lo[1], lo[2]), model3d.XYZ(hi[0], hi[1], hi[2])
	return t, family
}

func (l *lattice3) mixedCells() [][3]int {
	var res [][3]int
	for k := 0; k < l.cz; k++ {
		for j := 0; j < l.cy; j++ {
			for i := 0; i < l.cx; i++ {
				a := l.at(i, j, k)
				mixed := false
				for q := 1; q < 8 && !mixed; q++ {
					mixed = l.at(i+q&1, j+(q>>1)&1, k+(q>>2)&1) != a
				}
				if mixed {
					res = append(res, [3]int{i, j, k})
				}
			}
		}
	}
	return res
}

func seen3(m int, fine, coarse [][3]int) bool {
	for _, f := range fine {
		ok := false
		for _, q := range coarse {
			if nearAxis(m, m, f[0], q[0]) && nearAxis(m, m, f[1], q[1]) && nearAxis(m, m, f[2], q[2]) {
				ok = true
				break
			}
		}
		if !ok {
			return false
		}
	}
	return true
}

func depth3(l *lattice3, fine [][3]int, coarse *model3d.Mesh, big float64) float64 {
	vs := coarse.VertexSlice()
	if len(vs) == 0 {
		return math.Inf(1)
	}
	worst := 0.0
	for _, f := range fine {
		x0, y0, z0 := l.xs[f[0]], l.ys[f[1]], l.zs[f[2]]
		best := math.Inf(1)
		for _, v := range vs {
			d := math.Max(gap(x0, x0+l.delta, v.X), math.Max(gap(y0, y0+l.delta, v.Y), gap(z0, z0+l.delta, v.Z)))
			if d < best {
				best = d
			}
		}
		if best > worst {
			worst = best
		}
	}
	return worst / big
}

func (l *lattice3) meshHashSnap(m *model3d.Mesh) string {
	var ms mset
	bad := false
	m.Iterate(func(t *model3d.Triangle) {
		var v [9]uint64
		for i, p := range t {
			x, ox := snapDoubled(p.X, l.xs[0], l.delta, &bad)
			y, oy := snapDoubled(p.Y, l.ys[0], l.delta, &bad)
			z, oz := snapDoubled(p.Z, l.zs[0], l.delta, &bad)
			if ox+oy+oz != 1 {
				bad = true
			}
			v[3*i], v[3*i+1], v[3*i+2] = x, y, z
		}
		ms.add(v[:]...)
	})
	if bad {
		return "offlattice " + ms.String()
	}
	return ms.String()
}

func triList(m *model3d.Mesh) [][9]float64 {
	var res [][9]float64
	m.Iterate(func(t *model3d.Triangle) {
		res = append(res, [9]float64{t[0].X, t[0].Y, t[0].Z, t[1].X, t[1].Y, t[1].Z, t[2].X, t[2].Y, t[2].Z})
	})
	sort.Slice(res, func(i, j int) bool {
		for k := 0; k < 9; k++ {
			if res[i][k] != res[j][k] {
				return res[i][k] < res[j][k]
			}
		}
		return false
	})
	return res
}

type cand3 struct {
	s      *taper3
	family string
	l, lc  *lattice3
	depth  float64
}

func runC2F3(c *hlib.Ctx) {
	nSolids := c.N/50 + 2
	delta := 1.0 / 32
	for i := 0; i < nSolids; i++ {
		m := []int{8, 8, 8, 16}[c.Rng.Intn(4)]
		big := float64(m) * delta
		var pick, deep *cand3
		for try := 0; try < 25 && deep == nil; try++ {
			s, family := candidate3(c, delta, m)
			// the coarse lattice is cheap: test it first against a subsampled view of the fine surface
			l := newLattice3(axisPoints(s.min.X, s.max.X, delta), axisPoints(s.min.Y, s.max.Y, delta), axisPoints(s.min.Z, s.max.Z, delta), delta, s)
			lc := newLattice3(axisPoints(s.min.X, s.max.X, big), axisPoints(s.min.Y, s.max.Y, big), axisPoints(s.min.Z, s.max.Z, big), big, s)
			c.Stat("c12.c2f3.candidates", 1)
			fine := l.mixedCells()
			if len(fine) == 0 || !seen3(m, fine, lc.mixedCells()) {
				c.Stat("c12.c2f3.rejected_unseen", 1)
				continue
			}
			d := depth3(l, fine, model3d.MarchingCubesSearch(s, big, 8), big)
			cd := &cand3{s, family, l, lc, d}
			if pick == nil {
				pick = cd
			}
			if d >= 1.45 {
				deep = cd
			}
		}
		if deep != nil && c.Rng.Intn(5) != 0 {
			pick = deep
		}
		if pick == nil {
			c.Stat("c12.c2f3.no_candidate", 1)
			continue
		}
		emitC2F3(c, pick, m, delta)
	}
}

func emitC2F3(c *hlib.Ctx, cd *cand3, m int, delta float64) {
	s, l, lc := cd.s, cd.l, cd.lc
	big := float64(m) * delta
	c.Stat("c12.c2f3.solids", 1)
	c.Stat("c12.c2f3.family."+cd.family, 1)
	c.Stat(fmt.Sprintf("c12.c2f3.ratio_%d", m), 1)
	c.Stat("c12.c2f3.depth_iters8."+depthBucket(cd.depth), 1)
	opBase := fmt.Sprintf("c12 mcc2f %d %d %d %s %d %d %d %d %s family=%s delta=%v solid=%s", len(l.xs), len(l.ys), len(l.zs), bitStr(l.bits),
		m, len(lc.xs), len(lc.ys), len(lc.zs), bitStr(lc.bits), cd.family, delta, s.desc())
	for _, it := range []int{0, 8} {
		it := it
		op := fmt.Sprintf("c12 same mcc2f-hverts family=%s delta=%v solid=%s big=%d iters=%d", cd.family, delta, s.desc(), m, it)
		emitCase(c, op, "corr:c12 mcc2f/hverts", func() string {
			vs := model3d.MarchingCubesSearch(s, big, it).VertexSlice()
			for _, q := range lc.mixedCells() {
				x0, y0, z0 := lc.xs[q[0]], lc.ys[q[1]], lc.zs[q[2]]
				found := false
				for _, v := range vs {
					if v.X >= x0 && v.X <= x0+big && v.Y >= y0 && v.Y <= y0+big && v.Z >= z0 && v.Z <= z0+big {
						found = true
						break
					}
				}
				if !found {
					return fmt.Sprintf("differs:coarse-cell(%d,%d,%d)-without-vertex", q[0], q[1], q[2])
				}
			}
			return "same"
		})
	}
	type set struct {
		iters int
		extra float64
	}
	sets := []set{{8, 0}, {[]int{0, 4, 12}[c.Rng.Intn(3)], []float64{0, 0, delta}[c.Rng.Intn(3)]}}
	for _, st := range sets {
		st := st
		p := allProcs[c.Rng.Intn(len(allProcs))]
		tag := fmt.Sprintf("fn=MarchingCubesC2F procs=%d big=%d iters=%d extra=%v", p, m, st.iters, st.extra/delta)
		var got *model3d.Mesh
		emitCase(c, opBase+" "+tag, "corr:c12 mcc2f/MarchingCubesC2F", func() string {
			withProcs(p, func() { got = model3d.MarchingCubesC2F(s, big, delta, st.extra, st.iters) })
			return l.meshHashSnap(got)
		})
		c.Stat("c12.c2f3.cases", 1)
		op := fmt.Sprintf("c12 same mcc2f-direct family=%s delta=%v solid=%s %s", cd.family, delta, s.desc(), tag)
		emitCase(c, op, "corr:c12 mcc2f/direct", func() string {
			if got == nil {
				return "no-mesh"
			}
			want := triList(model3d.MarchingCubesSearch(s, delta, st.iters))
			have := triList(got)
			if len(want) != len(have) {
				return fmt.Sprintf("differs:triangles=%d direct=%d", len(have), len(want))
			}
			for i := range want {
				if want[i] != have[i] {
					return fmt.Sprintf("differs:triangle#%d=%v direct=%v", i, have[i], want[i])
				}
			}
			return "same"
		})
	}
}

func runC2F(c *hlib.Ctx) {
	runC2F2(c)
	runC2F3(c)
}
