// Command c12 is the correspondence harness of property C12: "meshing results do
// not depend on parallelism, buffering or filtering".  It drives the REAL
// MarchingCubes*/MarchingSquares*/DualContouring/Rasterizer code on one solid under many
// settings (GOMAXPROCS, MaxGos, BufferSize, conservative filters, coarse-to-fine,
// repeated runs).  The Lean driver answers every case from the lattice labelling alone
// with the plain sequential model, so any dependence on the setting is a disagreement.
package main

import (
	"bytes"
	"context"
	"fmt"
	"os"
	"os/exec"
	"path/filepath"
	"runtime"
	"strconv"
	"strings"
	"time"

	"github.com/unixpickle/model3d/model2d"
	"github.com/unixpickle/model3d/model3d"
	"verif/harness/hlib"
)

func main() { hlib.Main("C12", run) }

// ---- hash shared with lean/M3d/Drv/C12.lean

func mix(vals ...uint64) uint64 {
	h := uint64(14695981039346656037)
	for _, v := range vals {
		h = (h ^ v) * 1099511628211
	}
	h ^= h >> 32
	h *= 0x9E3779B97F4A7C15
	h ^= h >> 29
	return h
}

type mset struct {
	n    int
	s, x uint64
}

func (m *mset) add(vals ...uint64) {
	h := mix(vals...)
	m.n++
	m.s += h
	m.x ^= h
}

func (m *mset) String() string { return fmt.Sprintf("n=%d s=%016x x=%016x", m.n, m.s, m.x) }

// guarded runs f with panic capture and a watchdog.
func guarded(f func() string) string {
	ch := make(chan string, 1)
	go func() { ch <- hlib.Guard(f) }()
	select {
	case r := <-ch:
		return r
	case <-time.After(180 * time.Second):
		return "timeout"
	}
}

func withProcs(p int, f func()) {
	if p <= 0 {
		f()
		return
	}
	old := runtime.GOMAXPROCS(p)
	defer runtime.GOMAXPROCS(old)
	f()
}

func bitStr(bs []bool) string {
	var b strings.Builder
	b.Grow(len(bs))
	for _, x := range bs {
		if x {
			b.WriteByte('1')
		} else {
			b.WriteByte('0')
		}
	}
	return b.String()
}

var groups = []struct {
	name string
	f    func(*hlib.Ctx)
}{{"steps", runSteps}, {"mc", runMC}, {"ms", runMS}, {"c2f", runC2F}, {"dc", runDC}, {"rast", runRast}}

// run: a panic inside one of the library's own goroutines (worker pools, ConcurrentMap) cannot be
// recovered and kills the process, so every group of cases runs in a child process of this same
// binary; the child records the case it is executing in a progress file, and a crash is reported
// as the implementation output "crash:<message>" of exactly that case.
func run(c *hlib.Ctx) {
	if g := os.Getenv("C12_GROUP"); g != "" {
		for _, gr := range groups {
			if gr.name == g {
				gr.f(c)
			}
		}
		return
	}
	for _, gr := range groups {
		runChild(c, gr.name)
	}
}

func runChild(c *hlib.Ctx, group string) {
	dir, err := os.MkdirTemp("", "c12-"+group)
	if err != nil {
		panic(err)
	}
	defer os.RemoveAll(dir)
	out, prog := filepath.Join(dir, "out.txt"), filepath.Join(dir, "progress.txt")
	ctx, cancel := context.WithTimeout(context.Background(), 40*time.Minute)
	defer cancel()
	cmd := exec.CommandContext(ctx, os.Args[0], "-seed", strconv.FormatInt(c.Seed, 10), "-n", strconv.Itoa(c.N), "-out", out)
	cmd.Env = append(os.Environ(), "C12_GROUP="+group, "C12_PROGRESS="+prog)
	var stderr bytes.Buffer
	cmd.Stderr = &stderr
	cmd.Stdout = &stderr
	runErr := cmd.Run()
	data, _ := os.ReadFile(out)
	text := string(data)
	if i := strings.LastIndexByte(text, '\n'); i >= 0 {
		text = text[:i]
	} else {
		text = ""
	}
	for _, line := range strings.Split(text, "\n") {
		switch {
		case line == "":
		case strings.HasPrefix(line, "#stat "):
			f := strings.Fields(line)
			if len(f) == 3 {
				if v, err := strconv.Atoi(f[2]); err == nil {
					c.Stat(f[1], v)
				}
			}
		case strings.HasPrefix(line, "#propfail "):
			f := strings.SplitN(line, " ", 3)
			if len(f) == 3 {
				c.PropFail(f[1], f[2])
			}
		case strings.HasPrefix(line, "#"):
		default:
			p := strings.Split(line, "\t")
			if len(p) == 2 {
				c.Emit(p[0], p[1])
			} else if len(p) == 3 {
				c.EmitSite(p[0], p[1], p[2])
			}
		}
	}
	if runErr != nil {
		msg := "exit:" + runErr.Error()
		for _, l := range strings.Split(stderr.String(), "\n") {
			if strings.HasPrefix(l, "panic:") || strings.HasPrefix(l, "fatal error:") {
				msg = l
				break
			}
		}
		msg = strings.NewReplacer(" ", "_", "\t", "_").Replace(msg)
		op := "c12 same group=" + group + " crashed-before-first-case"
		if b, err := os.ReadFile(prog); err == nil && len(b) > 0 {
			op = string(b)
		}
		c.EmitSite(op, "crash:"+msg, "corr:c12 crash/"+group)
		c.Stat("c12.crashed_groups", 1)
	}
}

var progressFile = os.Getenv("C12_PROGRESS")

// mark records the case about to be executed (see run).
func mark(op string) {
	if progressFile != "" {
		os.WriteFile(progressFile, []byte(op), 0o644)
	}
}

// emitCase records the case as "in progress", runs it under panic capture + watchdog and emits it.
func emitCase(c *hlib.Ctx, op, site string, f func() string) {
	if progressFile != "" {
		os.WriteFile(progressFile, []byte(op), 0o644)
	}
	res := guarded(f)
	if site == "" {
		c.Emit(op, res)
	} else {
		c.EmitSite(op, res, site)
	}
}

// ---- internal steps through hooks: Split, Pieces, Scan, dcCubeLayout windows

func oracle3(seed, mod int) func(min, max [3]int) bool {
	return func(min, max [3]int) bool {
		return mod == 0 || (3*min[0]+5*max[0]+7*min[1]+11*max[1]+13*min[2]+17*max[2]+seed)%mod != 0
	}
}

func oracle2(seed, mod int) func(min, max [2]int) bool {
	return func(min, max [2]int) bool {
		return mod == 0 || (3*min[0]+5*max[0]+7*min[1]+11*max[1]+seed)%mod != 0
	}
}

func randBlock3(c *hlib.Ctx, lim int) (min, max [3]int) {
	tie := c.Rng.Intn(3) == 0
	l0 := c.Rng.Intn(lim + 1)
	for i := 0; i < 3; i++ {
		min[i] = c.Rng.Intn(12)
		l := c.Rng.Intn(lim + 1)
		switch c.Rng.Intn(6) {
		case 0:
			l = c.Rng.Intn(4)
		case 1:
			if tie {
				l = l0
			}
		}
		max[i] = min[i] + l
	}
	return
}

func runSteps(c *hlib.Ctx) {
	n := c.N
	for i := 0; i < 4*n; i++ {
		min, max := randBlock3(c, 28)
		op := fmt.Sprintf("c12 split %d %d %d %d %d %d", min[0], max[0], min[1], max[1], min[2], max[2])
		emitCase(c, op, "", func() string {
			a0, a1, b0, b1, vol := model3d.VerifMcSplit(min, max)
			if a1 != b1 && a0 == min && b1 == max {
				c.Stat("c12.split.proper", 1)
			}
			return fmt.Sprintf("vol=%d %d %d %d %d %d %d | %d %d %d %d %d %d", vol,
				a0[0], a1[0], a0[1], a1[1], a0[2], a1[2], b0[0], b1[0], b0[1], b1[1], b0[2], b1[2])
		})
		min2, max2 := [2]int{min[0], min[1]}, [2]int{max[0], max[1]}
		op = fmt.Sprintf("c12 split2 %d %d %d %d", min2[0], max2[0], min2[1], max2[1])
		emitCase(c, op, "", func() string {
			a0, a1, b0, b1, area := model2d.VerifMsSplit(min2, max2)
			return fmt.Sprintf("area=%d %d %d %d %d | %d %d %d %d", area,
				a0[0], a1[0], a0[1], a1[1], b0[0], b1[0], b0[1], b1[1])
		})
	}
	mods := []int{0, 0, 2, 3, 5, 7, 11}
	for i := 0; i < 2*n; i++ {
		min, max := randBlock3(c, 30)
		vol := (max[0] - min[0]) * (max[1] - min[1]) * (max[2] - min[2])
		mv := []int{1, 2, 3, 64, 64, vol/4096 + 1, 5 + c.Rng.Intn(200)}[c.Rng.Intn(7)]
		seed, mod := c.Rng.Intn(1000), mods[c.Rng.Intn(len(mods))]
		op := fmt.Sprintf("c12 pieces %d %d %d %d %d %d %d %d %d", mv, seed, mod,
			min[0], max[0], min[1], max[1], min[2], max[2])
		emitCase(c, op, "", func() string {
			g := oracle3(seed, mod)
			rej, leaves := 0, 0
			var vals []uint64
			model3d.VerifMcPieces(min, max, mv, func(a, b [3]int) bool {
				r := g(a, b)
				if !r {
					rej++
				}
				return r
			}, func(a, b [3]int) {
				leaves++
				vals = append(vals, uint64(a[0]), uint64(b[0]), uint64(a[1]), uint64(b[1]), uint64(a[2]), uint64(b[2]))
			})
			c.Stat("c12.pieces.leaves", leaves)
			c.Stat("c12.pieces.rejected", rej)
			return fmt.Sprintf("n=%d r=%d h=%016x", leaves, rej, mix(vals...))
		})
		min2, max2 := [2]int{min[0], min[1]}, [2]int{max[0] * 3, max[1] * 2}
		op = fmt.Sprintf("c12 pieces2 %d %d %d %d %d %d %d", mv, seed, mod, min2[0], max2[0], min2[1], max2[1])
		emitCase(c, op, "", func() string {
			g := oracle2(seed, mod)
			rej, leaves := 0, 0
			var vals []uint64
			model2d.VerifMsPieces(min2, max2, mv, func(a, b [2]int) bool {
				r := g(a, b)
				if !r {
					rej++
				}
				return r
			}, func(a, b [2]int) {
				leaves++
				vals = append(vals, uint64(a[0]), uint64(b[0]), uint64(a[1]), uint64(b[1]))
			})
			return fmt.Sprintf("n=%d r=%d h=%016x", leaves, rej, mix(vals...))
		})
	}
	// Scan: ring of caches
	for _, procs := range []int{1, 2, 3, 8, 16} {
		for _, nz := range scanSizes(c) {
			procs, nz := procs, nz
			emitCase(c, fmt.Sprintf("c12 scan %d %d", procs, nz), "", func() string {
				var tr [][3]int
				withProcs(procs, func() { tr = model3d.VerifScanTrace(nz) })
				var b strings.Builder
				fmt.Fprintf(&b, "n=%d", len(tr))
				for _, t := range tr {
					// an empty cache is the boundary layer 0 or nz-1 (indistinguishable by construction)
					show := func(got, want int) int {
						if got == 0 && (want == 0 || want == nz-1) {
							return want
						}
						return got
					}
					fmt.Fprintf(&b, " %d:%d:%d", t[0], show(t[1], t[0]-1), show(t[2], t[0]))
				}
				return b.String()
			})
			c.Stat("c12.scan", 1)
		}
	}
	// dcCubeLayout windows
	for i := 0; i < 3*n; i++ {
		nx, ny := 3+c.Rng.Intn(4), 3+c.Rng.Intn(4)
		nz := 3 + c.Rng.Intn(12)
		if c.Rng.Intn(3) == 0 {
			nz = 3 + c.Rng.Intn(58)
		}
		var buf int
		switch c.Rng.Intn(6) {
		case 0:
			buf = 0
		case 1:
			buf = 1
		case 2:
			buf = 1 << 40
		case 3:
			buf = nx*ny*(1+c.Rng.Intn(nz+1)) + 1
		default:
			buf = nx * ny * (1 + c.Rng.Intn(nz+1))
		}
		emitCase(c, fmt.Sprintf("c12 dcwin %d %d %d %d", nx, ny, nz, buf), "", func() string {
			br, wins, problem := model3d.VerifDcWindows(nx, ny, nz, buf)
			var b strings.Builder
			fmt.Fprintf(&b, "B=%d", br)
			for _, w := range wins {
				fmt.Fprintf(&b, " %d:%d:%d", w[0], w[1], w[2])
			}
			if problem != "" {
				fmt.Fprintf(&b, " problem=%s", problem)
			}
			if len(wins) > 1 {
				c.Stat("c12.dcwin.multi_window", 1)
			}
			if br == 4 {
				c.Stat("c12.dcwin.bufrows4", 1)
			}
			return b.String()
		})
	}
}

func scanSizes(c *hlib.Ctx) []int {
	res := []int{2, 3, 4, 5, 9, 16, 17, 18, 33}
	for i := 0; i < 4; i++ {
		res = append(res, 2+c.Rng.Intn(45))
	}
	return res
}
