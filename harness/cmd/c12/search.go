package main

import (
	"fmt"
	"math"

	"github.com/unixpickle/model3d/model2d"
	"github.com/unixpickle/model3d/model3d"
	"verif/harness/hlib"
)

// Search refinement (mcSearch / msSearch move every vertex along its lattice edge, in a worker
// pool over the vertex list) on top of the plain and the filtered meshes: the exact float face
// multiset of MarchingCubesSearch under GOMAXPROCS=1 is the reference; repeated runs, other
// GOMAXPROCS, MarchingCubesSearchFilter with conservative filters, the mesh of MarchingCubesInterior
// and MarchingCubesConj (against itself across GOMAXPROCS: its lattice is that of the transformed
// solid) must reproduce it.  Justified by M3d.C12.search_commutes_with_filter (a vertex-wise map of
// two equal face multisets gives equal face multisets) on top of mesh_indep_of_workers_and_filter.

func exactHash2(m *model2d.Mesh) string {
	var ms mset
	m.Iterate(func(s *model2d.Segment) {
		ms.add(math.Float64bits(s[0].X), math.Float64bits(s[0].Y), math.Float64bits(s[1].X), math.Float64bits(s[1].Y))
	})
	return ms.String()
}

func emitSame(c *hlib.Ctx, op, site, ref string, run func() string) {
	emitCase(c, op, site, func() string {
		got := run()
		if got != ref {
			return fmt.Sprintf("diff:ref=%s/this=%s", ref, got)
		}
		return "same"
	})
}

func emitMCSearch(c *hlib.Ctx, s model3d.Solid, l *lattice3, delta float64, desc string) {
	iters := []int{1, 2, 4, 7}[c.Rng.Intn(4)]
	base := fmt.Sprintf("c12 same mcsearch %s iters=%d ", desc, iters)
	var ref string
	withProcs(1, func() {
		ref = guarded(func() string { return exactHash(model3d.MarchingCubesSearch(s, delta, iters)) })
	})
	rp := func() int { return allProcs[c.Rng.Intn(len(allProcs))] }
	type alt struct {
		tag string
		run func() *model3d.Mesh
	}
	var rej int64
	p1, p2, p3, p4 := rp(), rp(), rp(), rp()
	seed := uint64(c.Rng.Int63())
	alts := []alt{
		{"fn=MarchingCubesSearch procs=8", func() (m *model3d.Mesh) {
			withProcs(8, func() { m = model3d.MarchingCubesSearch(s, delta, iters) })
			return
		}},
		{fmt.Sprintf("fn=MarchingCubesSearch procs=%d rep=2", p1), func() (m *model3d.Mesh) {
			withProcs(p1, func() { m = model3d.MarchingCubesSearch(s, delta, iters) })
			return
		}},
		{fmt.Sprintf("fn=MarchingCubesSearchFilter procs=%d filter=exact", p2), func() (m *model3d.Mesh) {
			withProcs(p2, func() { m = model3d.MarchingCubesSearchFilter(s, l.filter("exact", 0, 0, &rej), delta, iters) })
			return
		}},
		{fmt.Sprintf("fn=MarchingCubesSearchFilter procs=%d filter=randcons", p3), func() (m *model3d.Mesh) {
			withProcs(p3, func() { m = model3d.MarchingCubesSearchFilter(s, l.filter("randcons", 0, seed, &rej), delta, iters) })
			return
		}},
		{fmt.Sprintf("fn=MarchingCubesInterior procs=%d", p4), func() (m *model3d.Mesh) {
			withProcs(p4, func() { m, _ = model3d.MarchingCubesInterior(s, delta, iters) })
			return
		}},
	}
	for _, a := range alts {
		a := a
		emitSame(c, base+a.tag, "corr:c12 same/mcsearch", ref, func() string { return exactHash(a.run()) })
		c.Stat("c12.mc.search_cases", 1)
	}
	// conjugated by a rigid motion + scaling: reference = itself under GOMAXPROCS=1
	xf := []model3d.Transform{&model3d.Translate{Offset: model3d.XYZ(0.25, -0.5, 0.125)}, &model3d.VecScale{Scale: model3d.XYZ(1, 2, 0.5)}}
	var refC string
	withProcs(1, func() {
		refC = guarded(func() string { return exactHash(model3d.MarchingCubesConj(s, delta, iters, xf...)) })
	})
	p5 := []int{2, 3, 8, 16}[c.Rng.Intn(4)]
	emitSame(c, base+fmt.Sprintf("fn=MarchingCubesConj procs=%d", p5), "corr:c12 same/mcsearch", refC, func() string {
		var m *model3d.Mesh
		withProcs(p5, func() { m = model3d.MarchingCubesConj(s, delta, iters, xf...) })
		return exactHash(m)
	})
	c.Stat("c12.mc.search_cases", 1)
}

func emitMSSearch(c *hlib.Ctx, s model2d.Solid, l *lattice2, delta float64, desc string) {
	iters := []int{1, 2, 4, 7}[c.Rng.Intn(4)]
	base := fmt.Sprintf("c12 same mssearch %s iters=%d ", desc, iters)
	var ref string
	withProcs(1, func() {
		ref = guarded(func() string { return exactHash2(model2d.MarchingSquaresSearch(s, delta, iters)) })
	})
	rp := func() int { return allProcs[c.Rng.Intn(len(allProcs))] }
	type alt struct {
		tag string
		run func() *model2d.Mesh
	}
	var rej int64
	p1, p2, p3 := rp(), rp(), rp()
	seed := uint64(c.Rng.Int63())
	alts := []alt{
		{"fn=MarchingSquaresSearch procs=8", func() (m *model2d.Mesh) {
			withProcs(8, func() { m = model2d.MarchingSquaresSearch(s, delta, iters) })
			return
		}},
		{fmt.Sprintf("fn=MarchingSquaresSearch procs=%d rep=2", p1), func() (m *model2d.Mesh) {
			withProcs(p1, func() { m = model2d.MarchingSquaresSearch(s, delta, iters) })
			return
		}},
		{fmt.Sprintf("fn=MarchingSquaresSearchFilter procs=%d filter=exact", p2), func() (m *model2d.Mesh) {
			withProcs(p2, func() { m = model2d.MarchingSquaresSearchFilter(s, l.filter("exact", 0, 0, &rej), delta, iters) })
			return
		}},
		{fmt.Sprintf("fn=MarchingSquaresSearchFilter procs=%d filter=randcons", p3), func() (m *model2d.Mesh) {
			withProcs(p3, func() { m = model2d.MarchingSquaresSearchFilter(s, l.filter("randcons", 0, seed, &rej), delta, iters) })
			return
		}},
	}
	for _, a := range alts {
		a := a
		emitSame(c, base+a.tag, "corr:c12 same/mssearch", ref, func() string { return exactHash2(a.run()) })
		c.Stat("c12.ms.search_cases", 1)
	}
	xf := []model2d.Transform{&model2d.Translate{Offset: model2d.XY(0.25, -0.5)}, &model2d.VecScale{Scale: model2d.XY(2, 0.5)}}
	var refC string
	withProcs(1, func() {
		refC = guarded(func() string { return exactHash2(model2d.MarchingSquaresConj(s, delta, iters, xf...)) })
	})
	p5 := []int{2, 3, 8, 16}[c.Rng.Intn(4)]
	emitSame(c, base+fmt.Sprintf("fn=MarchingSquaresConj procs=%d", p5), "corr:c12 same/mssearch", refC, func() string {
		var m *model2d.Mesh
		withProcs(p5, func() { m = model2d.MarchingSquaresConj(s, delta, iters, xf...) })
		return exactHash2(m)
	})
	c.Stat("c12.ms.search_cases", 1)
}
