package main

import (
	"fmt"
	"math"
	"sort"
	"sync/atomic"

	"github.com/unixpickle/model3d/model3d"
	"verif/harness/hlib"
)

// ---- solids with dyadic geometry, defined everywhere

// voxel3: voxel (i,j,k) occupies [i*v,(i+1)*v) x ... ; outside the grid is empty.
// With closed set, the upper faces of the grid belong to the last voxel layer (the lattice layer at
// Max is then inside the solid: the last inner layer of the scanners carries surface).
type voxel3 struct {
	n      [3]int
	v      float64
	bits   []bool
	closed bool
}

func (s *voxel3) Min() model3d.Coord3D { return model3d.Coord3D{} }
func (s *voxel3) Max() model3d.Coord3D {
	return model3d.XYZ(float64(s.n[0])*s.v, float64(s.n[1])*s.v, float64(s.n[2])*s.v)
}
func (s *voxel3) Contains(c model3d.Coord3D) bool {
	i, j, k := int(math.Floor(c.X/s.v)), int(math.Floor(c.Y/s.v)), int(math.Floor(c.Z/s.v))
	if s.closed {
		m := s.Max()
		if c.X == m.X {
			i--
		}
		if c.Y == m.Y {
			j--
		}
		if c.Z == m.Z {
			k--
		}
	}
	if i < 0 || j < 0 || k < 0 || i >= s.n[0] || j >= s.n[1] || k >= s.n[2] {
		return false
	}
	return s.bits[i+s.n[0]*(j+s.n[1]*k)]
}

type ball3 struct {
	c model3d.Coord3D
	r float64
}

func (b *ball3) Min() model3d.Coord3D { return b.c.AddScalar(-b.r) }
func (b *ball3) Max() model3d.Coord3D { return b.c.AddScalar(b.r) }
func (b *ball3) Contains(c model3d.Coord3D) bool {
	d := c.Sub(b.c)
	return d.X*d.X+d.Y*d.Y+d.Z*d.Z <= b.r*b.r
}

type union3 struct{ a, b model3d.Solid }

func (u *union3) Min() model3d.Coord3D            { return u.a.Min().Min(u.b.Min()) }
func (u *union3) Max() model3d.Coord3D            { return u.a.Max().Max(u.b.Max()) }
func (u *union3) Contains(c model3d.Coord3D) bool { return u.a.Contains(c) || u.b.Contains(c) }

type diff3 struct{ a, b model3d.Solid }

func (u *diff3) Min() model3d.Coord3D            { return u.a.Min() }
func (u *diff3) Max() model3d.Coord3D            { return u.a.Max() }
func (u *diff3) Contains(c model3d.Coord3D) bool { return u.a.Contains(c) && !u.b.Contains(c) }

// randBits: labelling families (ambiguous checkerboards, sparse, dense, uniform, blobs, ...).
func randBits(c *hlib.Ctx, dims []int, pfx string) []bool {
	n := 1
	for _, d := range dims {
		n *= d
	}
	bs := make([]bool, n)
	coord := func(idx int) []int {
		res := make([]int, len(dims))
		for i, d := range dims {
			res[i] = idx % d
			idx /= d
		}
		return res
	}
	switch c.Rng.Intn(9) {
	case 0:
		for i := range bs {
			s := 0
			for _, x := range coord(i) {
				s += x
			}
			bs[i] = (s%2 == 0) != (c.Rng.Intn(10) == 0)
		}
		c.Stat(pfx+".gen.checkerboard", 1)
	case 1:
		for i := range bs {
			bs[i] = c.Rng.Intn(6) == 0
		}
		c.Stat(pfx+".gen.sparse", 1)
	case 2:
		for i := range bs {
			bs[i] = c.Rng.Intn(6) != 0
		}
		c.Stat(pfx+".gen.dense", 1)
	case 3:
		bs[c.Rng.Intn(n)] = true
		c.Stat(pfx+".gen.single", 1)
	case 4:
		if c.Rng.Intn(2) == 0 {
			for i := range bs {
				bs[i] = true
			}
			c.Stat(pfx+".gen.full", 1)
		} else {
			c.Stat(pfx+".gen.empty", 1)
		}
	case 5, 6:
		blobBits(c, dims, bs, 1+c.Rng.Intn(4))
		c.Stat(pfx+".gen.blob", 1)
	default:
		for i := range bs {
			bs[i] = c.Rng.Intn(2) == 0
		}
		c.Stat(pfx+".gen.uniform", 1)
	}
	return bs
}

// blobBits: union of a few random boxes (large uniform regions: filters reject a lot).
func blobBits(c *hlib.Ctx, dims []int, bs []bool, k int) {
	for ; k > 0; k-- {
		lo, hi := make([]int, len(dims)), make([]int, len(dims))
		for i, d := range dims {
			lo[i] = c.Rng.Intn(d)
			hi[i] = lo[i] + 1 + c.Rng.Intn(1+(d-lo[i])/2)
			if hi[i] > d {
				hi[i] = d
			}
		}
		for idx := range bs {
			in, r := true, idx
			for i, d := range dims {
				x := r % d
				r /= d
				if x < lo[i] || x >= hi[i] {
					in = false
					break
				}
			}
			if in {
				bs[idx] = true
			}
		}
	}
}

// ---- the sampling lattice of newSquareSpacer and what the harness knows about it

func axisPoints(min, max, delta float64) []float64 {
	var xs []float64
	for x := min - delta; x <= max+delta; x += delta {
		xs = append(xs, x)
	}
	return xs
}

type lattice3 struct {
	xs, ys, zs []float64
	delta      float64
	bits       []bool
	ps         []int32 // prefix sums of "cell has mixed corners"
	cx, cy, cz int
	nMixed     int
}

func (l *lattice3) at(x, y, z int) bool { return l.bits[x+len(l.xs)*(y+len(l.ys)*z)] }

func (l *lattice3) psAt(i, j, k int) int32 { return l.ps[i+(l.cx+1)*(j+(l.cy+1)*k)] }

func newLattice3(xs, ys, zs []float64, delta float64, s model3d.Solid) *lattice3 {
	l := &lattice3{xs: xs, ys: ys, zs: zs, delta: delta}
	l.bits = make([]bool, len(xs)*len(ys)*len(zs))
	idx := 0
	for _, z := range zs {
		for _, y := range ys {
			for _, x := range xs {
				l.bits[idx] = s.Contains(model3d.XYZ(x, y, z))
				idx++
			}
		}
	}
	l.cx, l.cy, l.cz = len(xs)-1, len(ys)-1, len(zs)-1
	l.ps = make([]int32, (l.cx+1)*(l.cy+1)*(l.cz+1))
	for k := 0; k < l.cz; k++ {
		for j := 0; j < l.cy; j++ {
			for i := 0; i < l.cx; i++ {
				cnt := 0
				for c := 0; c < 8; c++ {
					if l.at(i+c&1, j+(c>>1)&1, k+(c>>2)&1) {
						cnt++
					}
				}
				m := int32(0)
				if cnt != 0 && cnt != 8 {
					m = 1
					l.nMixed++
				}
				l.ps[(i+1)+(l.cx+1)*((j+1)+(l.cy+1)*(k+1))] = m +
					l.psAt(i, j+1, k+1) + l.psAt(i+1, j, k+1) + l.psAt(i+1, j+1, k) -
					l.psAt(i, j, k+1) - l.psAt(i, j+1, k) - l.psAt(i+1, j, k) + l.psAt(i, j, k)
			}
		}
	}
	return l
}

func clampI(x, lo, hi int) int {
	if x < lo {
		return lo
	}
	if x > hi {
		return hi
	}
	return x
}

// mixedIn: does some cell with index in [i0,i1) x [j0,j1) x [k0,k1) have mixed corners?
func (l *lattice3) mixedIn(i0, i1, j0, j1, k0, k1 int) bool {
	i0, i1 = clampI(i0, 0, l.cx), clampI(i1, 0, l.cx)
	j0, j1 = clampI(j0, 0, l.cy), clampI(j1, 0, l.cy)
	k0, k1 = clampI(k0, 0, l.cz), clampI(k1, 0, l.cz)
	if i0 >= i1 || j0 >= j1 || k0 >= k1 {
		return false
	}
	s := l.psAt(i1, j1, k1) - l.psAt(i0, j1, k1) - l.psAt(i1, j0, k1) - l.psAt(i1, j1, k0) +
		l.psAt(i0, j0, k1) + l.psAt(i0, j1, k0) + l.psAt(i1, j0, k0) - l.psAt(i0, j0, k0)
	return s > 0
}

// idxRange recovers the lattice index range of a block from its (epsilon-grown) bounds.
func idxRange(xs []float64, lo, hi float64) (int, int) {
	i0 := sort.SearchFloat64s(xs, lo)                                      // first xs[i] >= lo
	i1 := sort.Search(len(xs), func(i int) bool { return xs[i] > hi }) - 1 // last xs[i] <= hi
	return i0, i1
}

// filter builds a CONSERVATIVE region filter: it may say false only for blocks without any
// mixed cell.  kind: true | exact | padded | randcons.
func (l *lattice3) filter(kind string, pad int, seed uint64, rejected *int64) func(*model3d.Rect) bool {
	return func(r *model3d.Rect) bool {
		if kind == "true" {
			return true
		}
		i0, i1 := idxRange(l.xs, r.MinVal.X, r.MaxVal.X)
		j0, j1 := idxRange(l.ys, r.MinVal.Y, r.MaxVal.Y)
		k0, k1 := idxRange(l.zs, r.MinVal.Z, r.MaxVal.Z)
		res := l.mixedIn(i0-pad, i1+pad, j0-pad, j1+pad, k0-pad, k1+pad)
		if !res && kind == "randcons" {
			res = mix(uint64(i0), uint64(i1), uint64(j0), uint64(j1), uint64(k0), uint64(k1), seed)%3 == 0
		}
		if !res {
			atomic.AddInt64(rejected, 1)
		}
		return res
	}
}

func doubled(v, origin, delta float64, bad *bool) uint64 {
	d := (v - origin) / (delta / 2)
	if d != math.Floor(d) || d < 0 || d > 1e9 {
		*bad = true
		return 0
	}
	return uint64(d)
}

func (l *lattice3) meshHash(m *model3d.Mesh) string {
	var ms mset
	bad := false
	m.Iterate(func(t *model3d.Triangle) {
		var v [9]uint64
		for i, p := range t {
			v[3*i] = doubled(p.X, l.xs[0], l.delta, &bad)
			v[3*i+1] = doubled(p.Y, l.ys[0], l.delta, &bad)
			v[3*i+2] = doubled(p.Z, l.zs[0], l.delta, &bad)
		}
		ms.add(v[:]...)
	})
	if bad {
		return "offlattice " + ms.String()
	}
	return ms.String()
}

type setting3 struct {
	tag string
	run func() *model3d.Mesh
}

var allProcs = []int{1, 2, 3, 8, 16}

// mcSettings: the settings one solid is meshed under.
func mcSettings(c *hlib.Ctx, s model3d.Solid, l *lattice3, delta float64, big bool, c2f []float64) []setting3 {
	var res []setting3
	plain := func(p int) setting3 {
		return setting3{fmt.Sprintf("fn=MarchingCubes procs=%d", p), func() (m *model3d.Mesh) {
			withProcs(p, func() { m = model3d.MarchingCubes(s, delta) })
			return
		}}
	}
	filt := func(p int, kind string, pad int, rep int) setting3 {
		seed := uint64(c.Rng.Int63())
		return setting3{fmt.Sprintf("fn=MarchingCubesFilter procs=%d filter=%s pad=%d rep=%d", p, kind, pad, rep),
			func() (m *model3d.Mesh) {
				var rej int64
				f := l.filter(kind, pad, seed, &rej)
				withProcs(p, func() { m = model3d.MarchingCubesFilter(s, f, delta) })
				c.Stat("c12.mc.filter."+kind+".rejected_blocks", int(rej))
				if rej > 0 {
					c.Stat("c12.mc.filter."+kind+".cases_with_rejections", 1)
				}
				return
			}}
	}
	rp := func() int { return allProcs[c.Rng.Intn(len(allProcs))] }
	if big {
		return []setting3{plain(8), filt(8, "true", 0, 1), filt(3, "exact", 0, 1), filt(16, "exact", 0, 1), filt(2, "randcons", 0, 1)}
	}
	for _, p := range allProcs {
		res = append(res, plain(p))
	}
	res = append(res, plain(rp()))
	for _, p := range allProcs {
		res = append(res, filt(p, "exact", 0, 1))
	}
	res = append(res, filt(rp(), "true", 0, 1), filt(rp(), "exact", 0, 2), filt(rp(), "exact", 0, 3),
		filt(rp(), "padded", 1, 1), filt(rp(), "padded", 2, 1), filt(rp(), "randcons", 0, 1), filt(rp(), "randcons", 1, 1))
	for _, bd := range c2f {
		bd := bd
		extra := []float64{0, delta}[c.Rng.Intn(2)]
		p := rp()
		res = append(res, setting3{fmt.Sprintf("fn=MarchingCubesC2F procs=%d big=%v extra=%v", p, bd/delta, extra/delta),
			func() (m *model3d.Mesh) {
				withProcs(p, func() { m = model3d.MarchingCubesC2F(s, bd, delta, extra, 0) })
				return
			}})
		c.Stat("c12.mc.c2f", 1)
	}
	return res
}

func emitMC(c *hlib.Ctx, s model3d.Solid, delta float64, big bool, c2f []float64, family string) {
	xs := axisPoints(s.Min().X, s.Max().X, delta)
	ys := axisPoints(s.Min().Y, s.Max().Y, delta)
	zs := axisPoints(s.Min().Z, s.Max().Z, delta)
	l := newLattice3(xs, ys, zs, delta, s)
	vol := l.cx * l.cy * l.cz
	c.Stat("c12.mc.solids", 1)
	c.Stat("c12.mc.family."+family, 1)
	if vol >= 128 {
		c.Stat("c12.mc.solids_root_splits", 1)
	}
	if vol/4096 > 64 {
		c.Stat("c12.mc.solids_divideVolume_gt_64", 1)
	}
	if l.nMixed == 0 {
		c.Stat("c12.mc.solids_without_surface", 1)
	}
	opBase := fmt.Sprintf("c12 mc %d %d %d %s family=%s delta=%v", len(xs), len(ys), len(zs), bitStr(l.bits), family, delta)
	for _, st := range mcSettings(c, s, l, delta, big, c2f) {
		st := st
		emitCase(c, opBase+" "+st.tag, "corr:c12 mc/"+fnOf(st.tag), func() string { return l.meshHash(st.run()) })
		c.Stat("c12.mc.cases", 1)
	}
	if !big {
		emitMCSearch(c, s, l, delta, fmt.Sprintf("n=%d,%d,%d bits=%s family=%s delta=%v", len(xs), len(ys), len(zs), bitStr(l.bits), family, delta))
	}
}

func fnOf(tag string) string {
	var fn string
	fmt.Sscanf(tag, "fn=%s", &fn)
	return fn
}

func dy(c *hlib.Ctx, span int, bits uint) float64 { return c.Dyadic(span, bits) }

func randVoxel3(c *hlib.Ctx, n [3]int, v float64) *voxel3 {
	closed := c.Rng.Intn(3) == 0
	if closed {
		c.Stat("c12.gen.closed_top_voxel_solids", 1)
	}
	return &voxel3{n: n, v: v, bits: randBits(c, n[:], "c12.mc"), closed: closed}
}

func runMC(c *hlib.Ctx) {
	nSolids := c.N/6 + 2
	for i := 0; i < nSolids; i++ {
		if i%8 == 3 {
			// coarse-to-fine with a large spacing ratio: the coarse surface is up to bigDelta/2 (several
			// leaf blocks) away from the fine one, so the 2*sqrt(3)*bigDelta margin is really needed
			delta := []float64{0.25, 0.125}[c.Rng.Intn(2)]
			m := []int{6, 8}[c.Rng.Intn(2)]
			n := [3]int{1 + c.Rng.Intn(3), 1 + c.Rng.Intn(3), 1 + c.Rng.Intn(3)}
			emitMC(c, randVoxel3(c, n, float64(m)*delta), delta, false,
				[]float64{float64(m) * delta, float64(m/2) * delta, float64(m) * delta}, "voxel_fat_c2f_high_ratio")
			continue
		}
		switch c.Rng.Intn(10) {
		case 0, 1, 2: // small voxel solids, voxel = lattice step
			n := [3]int{1 + c.Rng.Intn(7), 1 + c.Rng.Intn(7), 1 + c.Rng.Intn(7)}
			emitMC(c, randVoxel3(c, n, 1), 1, false, nil, "voxel_small")
		case 3, 4: // enough cells for Pieces to split several times
			n := [3]int{6 + c.Rng.Intn(10), 6 + c.Rng.Intn(10), 6 + c.Rng.Intn(10)}
			emitMC(c, randVoxel3(c, n, 1), 1, false, nil, "voxel_medium")
		case 5: // elongated / flat
			n := [3]int{1 + c.Rng.Intn(3), 1 + c.Rng.Intn(3), 1 + c.Rng.Intn(3)}
			n[c.Rng.Intn(3)] = 30 + c.Rng.Intn(60)
			if c.Rng.Intn(2) == 0 {
				n[c.Rng.Intn(3)] = 10 + c.Rng.Intn(20)
			}
			emitMC(c, randVoxel3(c, n, 1), 1, false, nil, "voxel_elongated")
		case 6, 7: // fat voxels: every feature is seen by a coarser grid => coarse-to-fine applies
			m := 2 + c.Rng.Intn(3)
			n := [3]int{1 + c.Rng.Intn(5), 1 + c.Rng.Intn(5), 1 + c.Rng.Intn(5)}
			delta := []float64{1, 0.5, 0.25}[c.Rng.Intn(3)]
			var bigs []float64
			for k := 2; k <= m; k++ {
				bigs = append(bigs, float64(k)*delta)
			}
			bigs = append(bigs, delta)
			emitMC(c, randVoxel3(c, n, float64(m)*delta), delta, false, bigs, "voxel_fat")
		case 8: // dyadic ball
			delta := []float64{0.25, 0.125}[c.Rng.Intn(2)]
			b := &ball3{model3d.XYZ(dy(c, 2, 3), dy(c, 2, 3), dy(c, 2, 3)), float64(4+c.Rng.Intn(8)) / 8}
			var bigs []float64
			for k := 2; float64(k)*delta*2 <= b.r; k++ {
				bigs = append(bigs, float64(k)*delta)
			}
			emitMC(c, b, delta, false, bigs, "ball")
		default: // ball combined with a voxel solid
			delta := 0.25
			b := &ball3{model3d.XYZ(dy(c, 2, 2), dy(c, 2, 2), dy(c, 2, 2)), float64(2+c.Rng.Intn(6)) / 4}
			vx := randVoxel3(c, [3]int{1 + c.Rng.Intn(4), 1 + c.Rng.Intn(4), 1 + c.Rng.Intn(4)}, 0.5)
			if c.Rng.Intn(2) == 0 {
				emitMC(c, &union3{b, vx}, delta, false, nil, "ball_union_voxel")
			} else {
				emitMC(c, &diff3{b, vx}, delta, false, nil, "ball_minus_voxel")
			}
		}
	}
	// big lattices: divideVolume = Volume/4096 > 64, thousands of queue blocks
	nBig := 1
	if c.N >= 300 {
		nBig = 2
	}
	for i := 0; i < nBig; i++ {
		n := [3]int{66 + c.Rng.Intn(6), 66 + c.Rng.Intn(6), 66 + c.Rng.Intn(6)}
		v := &voxel3{n: n, v: 1, bits: make([]bool, n[0]*n[1]*n[2])}
		blobBits(c, n[:], v.bits, 2+c.Rng.Intn(3))
		emitMC(c, v, 1, true, nil, "voxel_big_blob")
	}
}
