package main

import (
	"fmt"
	"image"
	"math"
	"strconv"
	"strings"
	"sync/atomic"

	"github.com/unixpickle/model3d/model2d"
	"verif/harness/hlib"
)

// rastGrid replicates the pixel / sub-sample / tile geometry of Rasterizer.RasterizeSolid(Filter)
// with the same float expressions in the same order.
type rastGrid struct {
	w, h, ss, fs int
	pw, ph       float64
	min          model2d.Coord
	counts       []int                  // inside sub-samples per pixel
	tileUniform  map[model2d.Coord]bool // keyed by the tile rect's MinVal
	tileIdx      map[model2d.Coord][2]int
}

func newRastGrid(s model2d.Solid, scale float64, ss int) *rastGrid {
	min, max := s.Min(), s.Max()
	g := &rastGrid{ss: ss, min: min}
	g.w = int(math.Ceil((max.X - min.X) * scale))
	g.h = int(math.Ceil((max.Y - min.Y) * scale))
	g.pw = (max.X - min.X) / float64(g.w)
	g.ph = (max.Y - min.Y) / float64(g.h)
	g.counts = make([]int, g.w*g.h)
	for y := 0; y < g.h; y++ {
		for x := 0; x < g.w; x++ {
			pxMin := model2d.XY(float64(x)*g.pw+min.X, float64(y)*g.ph+min.Y)
			pxMax := model2d.XY(float64(x+1)*g.pw+min.X, float64(y+1)*g.ph+min.Y)
			division := pxMax.Sub(pxMin).Scale(1 / float64(ss+1))
			for sx := 0; sx < ss; sx++ {
				for sy := 0; sy < ss; sy++ {
					c := pxMin
					c.X += division.X * float64(sx)
					c.Y += division.Y * float64(sy)
					if s.Contains(c) {
						g.counts[x+g.w*y]++
					}
				}
			}
		}
	}
	g.fs = 16 / ss
	if g.fs < 1 {
		g.fs = 1
	}
	g.tileUniform = map[model2d.Coord]bool{}
	g.tileIdx = map[model2d.Coord][2]int{}
	for y := 0; y < g.h; y += g.fs {
		for x := 0; x < g.w; x += g.fs {
			nx, ny := x+g.fs, y+g.fs
			if nx > g.w {
				nx = g.w
			}
			if ny > g.h {
				ny = g.h
			}
			mn := model2d.XY(float64(x)*g.pw+min.X, float64(y)*g.ph+min.Y)
			mx := model2d.XY(float64(nx)*g.pw+min.X, float64(ny)*g.ph+min.Y)
			mid := s.Contains(mn.Mid(mx))
			uniform := true
			for sy := y; sy < ny; sy++ {
				for sx := x; sx < nx; sx++ {
					cnt := g.counts[sx+g.w*sy]
					if (mid && cnt != ss*ss) || (!mid && cnt != 0) {
						uniform = false
					}
				}
			}
			g.tileUniform[mn] = uniform
			g.tileIdx[mn] = [2]int{x / g.fs, y / g.fs}
		}
	}
	return g
}

func (g *rastGrid) filter(kind string, pad int, seed uint64, rejected, unknown *int64) func(*model2d.Rect) bool {
	byIdx := map[[2]int]bool{}
	for k, v := range g.tileIdx {
		byIdx[v] = g.tileUniform[k]
	}
	return func(r *model2d.Rect) bool {
		if kind == "true" {
			return true
		}
		idx, ok := g.tileIdx[r.MinVal]
		if !ok {
			atomic.AddInt64(unknown, 1)
			return true
		}
		res := false
		for dy := -pad; dy <= pad; dy++ {
			for dx := -pad; dx <= pad; dx++ {
				if u, ok := byIdx[[2]int{idx[0] + dx, idx[1] + dy}]; ok && !u {
					res = true
				}
			}
		}
		if !res && kind == "randcons" {
			res = mix(uint64(idx[0]), uint64(idx[1]), seed)%3 == 0
		}
		if !res {
			atomic.AddInt64(rejected, 1)
		}
		return res
	}
}

func imgHash(img *image.Gray, w, h int) string {
	b := img.Bounds()
	if b.Dx() != w || b.Dy() != h {
		return fmt.Sprintf("size:%dx%d", b.Dx(), b.Dy())
	}
	var ms mset
	for y := 0; y < h; y++ {
		for x := 0; x < w; x++ {
			ms.add(uint64(x), uint64(y), uint64(img.GrayAt(x, y).Y))
		}
	}
	return ms.String()
}

// boundedSolid: the solid seen through explicit Rasterizer.Bounds (same Contains, other Min/Max).
type boundedSolid struct {
	model2d.Solid
	b *model2d.Rect
}

func (b *boundedSolid) Min() model2d.Coord { return b.b.MinVal }
func (b *boundedSolid) Max() model2d.Coord { return b.b.MaxVal }

func emitRast(c *hlib.Ctx, s model2d.Solid, scale float64, ss int, family string) {
	var bounds *model2d.Rect
	gridSolid := s
	if c.Rng.Intn(4) == 0 {
		// explicit Bounds (dyadic: crop on one side, pad on the other): the image geometry comes from
		// Rasterizer.Bounds, containment from the solid
		d := s.Max().Sub(s.Min())
		q := func(x float64) float64 { return math.Round(x*8) / 8 }
		bounds = &model2d.Rect{
			MinVal: model2d.XY(s.Min().X+q(d.X*0.3*c.Rng.Float64()), s.Min().Y-q(d.Y*0.3*c.Rng.Float64())),
			MaxVal: model2d.XY(s.Max().X+q(d.X*0.3*c.Rng.Float64()), s.Max().Y-q(d.Y*0.3*c.Rng.Float64())),
		}
		if bounds.MaxVal.X <= bounds.MinVal.X || bounds.MaxVal.Y <= bounds.MinVal.Y {
			bounds = nil
		} else {
			gridSolid = &boundedSolid{s, bounds}
			family += "+bounds"
			c.Stat("c12.rast.solids_with_explicit_bounds", 1)
		}
	}
	g := newRastGrid(gridSolid, scale, ss)
	if g.w <= 0 || g.h <= 0 || g.w*g.h > 20000 {
		return
	}
	strs := make([]string, len(g.counts))
	for i, k := range g.counts {
		strs[i] = strconv.Itoa(k)
	}
	nUniform := 0
	for _, u := range g.tileUniform {
		if u {
			nUniform++
		}
	}
	c.Stat("c12.rast.solids", 1)
	c.Stat("c12.rast.tiles", len(g.tileUniform))
	c.Stat("c12.rast.tiles_uniform", nUniform)
	c.Stat(fmt.Sprintf("c12.rast.filterSize_%d", g.fs), 1)
	opBase := fmt.Sprintf("c12 rast %d %d %d %s family=%s scale=%v ss=%d", g.w, g.h, ss*ss, strings.Join(strs, ","), family, scale, ss)
	r := &model2d.Rasterizer{Scale: scale, Subsamples: ss}
	if bounds != nil {
		r.Bounds = bounds
	}
	type variant struct {
		tag string
		run func() *image.Gray
	}
	vs := []variant{{"fn=RasterizeSolid procs=0", func() *image.Gray { return r.RasterizeSolid(s) }}}
	for _, p := range []int{1, 8} {
		p := p
		vs = append(vs, variant{fmt.Sprintf("fn=RasterizeSolid procs=%d", p), func() (img *image.Gray) {
			withProcs(p, func() { img = r.RasterizeSolid(s) })
			return
		}})
	}
	for _, f := range []struct {
		kind string
		pad  int
	}{{"true", 0}, {"exact", 0}, {"exact", 0}, {"padded", 1}, {"randcons", 0}} {
		f := f
		p := []int{0, 1, 3, 8, 16}[c.Rng.Intn(5)]
		seed := uint64(c.Rng.Int63())
		vs = append(vs, variant{fmt.Sprintf("fn=RasterizeSolidFilter procs=%d filter=%s pad=%d", p, f.kind, f.pad), func() (img *image.Gray) {
			var rej, unk int64
			flt := g.filter(f.kind, f.pad, seed, &rej, &unk)
			withProcs(p, func() { img = r.RasterizeSolidFilter(s, flt) })
			c.Stat("c12.rast.filter."+f.kind+".rejected_tiles", int(rej))
			c.Stat("c12.rast.filter.unrecognised_tile_rects", int(unk))
			return
		}})
	}
	for _, v := range vs {
		v := v
		emitCase(c, opBase+" "+v.tag, "corr:c12 rast/"+fnOf(v.tag), func() string { return imgHash(v.run(), g.w, g.h) })
		c.Stat("c12.rast.cases", 1)
	}
}

func sameImg(a, b *image.Gray) string {
	if a.Bounds() != b.Bounds() {
		return fmt.Sprintf("diff:bounds:%v/%v", a.Bounds(), b.Bounds())
	}
	for y := a.Bounds().Min.Y; y < a.Bounds().Max.Y; y++ {
		for x := a.Bounds().Min.X; x < a.Bounds().Max.X; x++ {
			if a.GrayAt(x, y) != b.GrayAt(x, y) {
				return fmt.Sprintf("diff:pixel(%d,%d):%d/%d", x, y, a.GrayAt(x, y).Y, b.GrayAt(x, y).Y)
			}
		}
	}
	return "same"
}

// rastDrawing is a random line drawing (collider) of overall radius ~rad model units.
func rastDrawing(c *hlib.Ctx, rad float64) (model2d.Collider, string, string) {
	m := model2d.NewMesh()
	var pts []model2d.Coord
	off := model2d.XY(0.0137*rad, -0.0211*rad)
	family := []string{"star", "star", "polyline", "strokes", "star+strokes"}[c.Rng.Intn(5)]
	if family == "star" || family == "star+strokes" {
		n := 3 + c.Rng.Intn(9)
		ring := make([]model2d.Coord, n)
		for j := range ring {
			th := 2 * math.Pi * (float64(j) + 0.3*c.Rng.Float64()) / float64(n)
			r := rad * (0.2 + 0.8*c.Rng.Float64())
			ring[j] = model2d.XY(r*math.Cos(th), r*math.Sin(th)).Add(off)
		}
		for j := range ring {
			m.Add(&model2d.Segment{ring[(j+1)%n], ring[j]})
		}
		pts = append(pts, ring...)
	}
	if family == "polyline" {
		// open random walk: end points, where the thick line ends in a round cap
		n := 3 + c.Rng.Intn(8)
		p := model2d.XY(rad*(2*c.Rng.Float64()-1), rad*(2*c.Rng.Float64()-1)).Add(off)
		pts = append(pts, p)
		for j := 0; j < n; j++ {
			q := model2d.XY(rad*(2*c.Rng.Float64()-1), rad*(2*c.Rng.Float64()-1)).Add(off)
			m.Add(&model2d.Segment{p, q})
			pts = append(pts, q)
			p = q
		}
	}
	if family == "strokes" || family == "star+strokes" {
		// separate short strokes (some axis-parallel, some nearly a point): most tiles are far from the collider
		n := 1 + c.Rng.Intn(6)
		for j := 0; j < n; j++ {
			p := model2d.XY(rad*(2*c.Rng.Float64()-1), rad*(2*c.Rng.Float64()-1)).Add(off)
			l := rad * []float64{0.001, 0.05, 0.2, 0.6}[c.Rng.Intn(4)]
			var d model2d.Coord
			switch c.Rng.Intn(4) {
			case 0:
				d = model2d.XY(l, 0)
			case 1:
				d = model2d.XY(0, l)
			default:
				th := 2 * math.Pi * c.Rng.Float64()
				d = model2d.XY(l*math.Cos(th), l*math.Sin(th))
			}
			m.Add(&model2d.Segment{p, p.Add(d)})
			pts = append(pts, p, p.Add(d))
		}
	}
	return model2d.MeshToCollider(m), family, strings.ReplaceAll(fmt.Sprint(pts), " ", ",")
}

// emitRastCollider: the library's own filters (RasterizeColliderSolid / RasterizeCollider) against
// the unfiltered rendering of the same solid.  The scale is log-uniform over 1/16 .. 32 pixels per
// model unit (half of the cases below one pixel per unit: a large drawing rendered small), the
// drawing is sized so that the image is 24 .. 140 pixels across, the line is 0.4 .. 7 pixels wide
// (or the default), the rasteriser optionally has explicit Bounds cropping or padding the drawing.
func emitRastCollider(c *hlib.Ctx) {
	var scale float64
	switch c.Rng.Intn(8) {
	case 0:
		scale = 0 // default: 1
	case 1:
		scale = []float64{1, 0.5, 0.25, 2, 0.125}[c.Rng.Intn(5)]
	case 2, 3, 4:
		scale = math.Exp2(-4 * c.Rng.Float64()) // 1/16 .. 1
	default:
		scale = math.Exp2(-1 + 6*c.Rng.Float64()) // 1/2 .. 32
	}
	effScale := scale
	if effScale == 0 {
		effScale = 1
	}
	ss := []int{1, 2, 3, 4, 8, 16}[c.Rng.Intn(6)]
	maxPx := 140.0
	if ss >= 8 {
		maxPx = 60
	}
	px := 24 + (maxPx-24)*c.Rng.Float64()
	rad := px / (2 * effScale)
	coll, family, ptsStr := rastDrawing(c, rad)
	lw := 0.4 + 3*c.Rng.Float64()
	switch c.Rng.Intn(6) {
	case 0:
		lw = 0 // default: 1
	case 1:
		lw = 3 + 4*c.Rng.Float64()
	}
	effLw := lw
	if effLw == 0 {
		effLw = model2d.RasterizerDefaultLineWidth
	}
	r := &model2d.Rasterizer{Scale: scale, Subsamples: ss, LineWidth: lw}
	bounds := "none"
	if c.Rng.Intn(5) == 0 {
		// explicit Bounds: crop one side, pad the other
		mn, mx := coll.Min(), coll.Max()
		d := mx.Sub(mn)
		r.Bounds = &model2d.Rect{
			MinVal: mn.Add(d.Scale(0.3 * c.Rng.Float64())),
			MaxVal: mx.Add(d.Scale(0.2 * c.Rng.Float64())),
		}
		bounds = strings.ReplaceAll(fmt.Sprint(*r.Bounds.(*model2d.Rect)), " ", ",")
	}
	if scale != 0 && scale < 1 {
		c.Stat("c12.rast.collider.scale_below_1", 1)
		if effLw > 1.5 {
			c.Stat("c12.rast.collider.scale_below_1_wide_line", 1)
		}
	} else if effScale == 1 {
		c.Stat("c12.rast.collider.scale_1", 1)
	} else {
		c.Stat("c12.rast.collider.scale_above_1", 1)
	}
	c.Stat("c12.rast.collider.family_"+family, 1)
	tag := fmt.Sprintf("family=%s scale=%v ss=%d lw=%v bounds=%s pts=%s", family, scale, ss, lw, bounds, ptsStr)
	if family == "star" {
		// the even-odd solid is only meaningful for a closed curve
		emitCase(c, "c12 same rastcollidersolid "+tag, "corr:c12 same/RasterizeColliderSolid", func() string {
			return sameImg(r.RasterizeColliderSolid(coll), r.RasterizeSolid(model2d.NewColliderSolid(coll)))
		})
		c.Stat("c12.rast.collider_cases", 1)
	}
	emitCase(c, "c12 same rastcollider "+tag, "corr:c12 same/RasterizeCollider", func() string {
		// the solid RasterizeCollider documents: everything within half a line width (LineWidth is in
		// pixels, so LineWidth/Scale model units) of the collider
		hollow := model2d.NewColliderSolidHollow(coll, 0.5*effLw/effScale)
		return sameImg(r.RasterizeCollider(coll), r.RasterizeSolid(hollow))
	})
	c.Stat("c12.rast.collider_cases", 1)
}

func runRast(c *hlib.Ctx) {
	nSolids := c.N/6 + 2
	sss := []int{1, 2, 3, 4, 8, 16, 17}
	for i := 0; i < nSolids; i++ {
		ss := sss[c.Rng.Intn(len(sss))]
		switch c.Rng.Intn(4) {
		case 0, 1:
			v := []float64{1, 2, 4}[c.Rng.Intn(3)]
			s := randVoxel2(c, [2]int{1 + c.Rng.Intn(6), 1 + c.Rng.Intn(6)}, v)
			scale := []float64{1, 2, 3, 2.5, 7, 0.75, 5.3}[c.Rng.Intn(7)]
			emitRast(c, s, scale, ss, "voxel")
		case 2:
			b := &disc2{model2d.XY(dy(c, 2, 3), dy(c, 2, 3)), float64(2+c.Rng.Intn(20)) / 8}
			emitRast(c, b, 3+20*c.Rng.Float64(), ss, "disc")
		default:
			b := &disc2{model2d.XY(dy(c, 2, 3), dy(c, 2, 3)), float64(4+c.Rng.Intn(12)) / 8}
			s := &union2{b, randVoxel2(c, [2]int{1 + c.Rng.Intn(3), 1 + c.Rng.Intn(3)}, 1)}
			emitRast(c, s, 4+12*c.Rng.Float64(), ss, "disc_union_voxel")
		}
		if i%2 == 0 {
			emitRastCollider(c)
		}
	}
	// degenerate sizes
	emitRast(c, &voxel2{n: [2]int{1, 1}, v: 1, bits: []bool{true}}, 1, 1, "one_pixel")
	emitRast(c, &voxel2{n: [2]int{1, 1}, v: 1, bits: []bool{true}}, 17, 1, "one_tile_plus_one")
}
