package main

import (
	"fmt"
	"math"
	"sync/atomic"

	"github.com/unixpickle/model3d/model2d"
	"verif/harness/hlib"
)

type voxel2 struct {
	n      [2]int
	v      float64
	bits   []bool
	closed bool
}

func (s *voxel2) Min() model2d.Coord { return model2d.Coord{} }
func (s *voxel2) Max() model2d.Coord {
	return model2d.XY(float64(s.n[0])*s.v, float64(s.n[1])*s.v)
}
func (s *voxel2) Contains(c model2d.Coord) bool {
	i, j := int(math.Floor(c.X/s.v)), int(math.Floor(c.Y/s.v))
	if s.closed {
		m := s.Max()
		if c.X == m.X {
			i--
		}
		if c.Y == m.Y {
			j--
		}
	}
	if i < 0 || j < 0 || i >= s.n[0] || j >= s.n[1] {
		return false
	}
	return s.bits[i+s.n[0]*j]
}

type disc2 struct {
	c model2d.Coord
	r float64
}

func (b *disc2) Min() model2d.Coord { return b.c.AddScalar(-b.r) }
func (b *disc2) Max() model2d.Coord { return b.c.AddScalar(b.r) }
func (b *disc2) Contains(c model2d.Coord) bool {
	d := c.Sub(b.c)
	return d.X*d.X+d.Y*d.Y <= b.r*b.r
}

type union2 struct{ a, b model2d.Solid }

func (u *union2) Min() model2d.Coord            { return u.a.Min().Min(u.b.Min()) }
func (u *union2) Max() model2d.Coord            { return u.a.Max().Max(u.b.Max()) }
func (u *union2) Contains(c model2d.Coord) bool { return u.a.Contains(c) || u.b.Contains(c) }

type lattice2 struct {
	xs, ys []float64
	delta  float64
	bits   []bool
	ps     []int32
	cx, cy int
	nMixed int
}

func (l *lattice2) at(x, y int) bool    { return l.bits[x+len(l.xs)*y] }
func (l *lattice2) psAt(i, j int) int32 { return l.ps[i+(l.cx+1)*j] }

func newLattice2(xs, ys []float64, delta float64, s model2d.Solid) *lattice2 {
	l := &lattice2{xs: xs, ys: ys, delta: delta}
	l.bits = make([]bool, len(xs)*len(ys))
	idx := 0
	for _, y := range ys {
		for _, x := range xs {
			l.bits[idx] = s.Contains(model2d.XY(x, y))
			idx++
		}
	}
	l.cx, l.cy = len(xs)-1, len(ys)-1
	l.ps = make([]int32, (l.cx+1)*(l.cy+1))
	for j := 0; j < l.cy; j++ {
		for i := 0; i < l.cx; i++ {
			cnt := 0
			for c := 0; c < 4; c++ {
				if l.at(i+c&1, j+(c>>1)&1) {
					cnt++
				}
			}
			m := int32(0)
			if cnt != 0 && cnt != 4 {
				m = 1
				l.nMixed++
			}
			l.ps[(i+1)+(l.cx+1)*(j+1)] = m + l.psAt(i, j+1) + l.psAt(i+1, j) - l.psAt(i, j)
		}
	}
	return l
}

func (l *lattice2) mixedIn(i0, i1, j0, j1 int) bool {
	i0, i1 = clampI(i0, 0, l.cx), clampI(i1, 0, l.cx)
	j0, j1 = clampI(j0, 0, l.cy), clampI(j1, 0, l.cy)
	if i0 >= i1 || j0 >= j1 {
		return false
	}
	return l.psAt(i1, j1)-l.psAt(i0, j1)-l.psAt(i1, j0)+l.psAt(i0, j0) > 0
}

func (l *lattice2) filter(kind string, pad int, seed uint64, rejected *int64) func(*model2d.Rect) bool {
	return func(r *model2d.Rect) bool {
		if kind == "true" {
			return true
		}
		i0, i1 := idxRange(l.xs, r.MinVal.X, r.MaxVal.X)
		j0, j1 := idxRange(l.ys, r.MinVal.Y, r.MaxVal.Y)
		res := l.mixedIn(i0-pad, i1+pad, j0-pad, j1+pad)
		if !res && kind == "randcons" {
			res = mix(uint64(i0), uint64(i1), uint64(j0), uint64(j1), seed)%3 == 0
		}
		if !res {
			atomic.AddInt64(rejected, 1)
		}
		return res
	}
}

func (l *lattice2) meshHash(m *model2d.Mesh) string {
	var ms mset
	bad := false
	m.Iterate(func(s *model2d.Segment) {
		ms.add(doubled(s[0].X, l.xs[0], l.delta, &bad), doubled(s[0].Y, l.ys[0], l.delta, &bad),
			doubled(s[1].X, l.xs[0], l.delta, &bad), doubled(s[1].Y, l.ys[0], l.delta, &bad))
	})
	if bad {
		return "offlattice " + ms.String()
	}
	return ms.String()
}

type setting2 struct {
	tag string
	run func() *model2d.Mesh
}

func msSettings(c *hlib.Ctx, s model2d.Solid, l *lattice2, delta float64, big bool, c2f []float64) []setting2 {
	plain := func(p int) setting2 {
		return setting2{fmt.Sprintf("fn=MarchingSquares procs=%d", p), func() (m *model2d.Mesh) {
			withProcs(p, func() { m = model2d.MarchingSquares(s, delta) })
			return
		}}
	}
	filt := func(p int, kind string, pad int, rep int) setting2 {
		seed := uint64(c.Rng.Int63())
		return setting2{fmt.Sprintf("fn=MarchingSquaresFilter procs=%d filter=%s pad=%d rep=%d", p, kind, pad, rep),
			func() (m *model2d.Mesh) {
				var rej int64
				f := l.filter(kind, pad, seed, &rej)
				withProcs(p, func() { m = model2d.MarchingSquaresFilter(s, f, delta) })
				c.Stat("c12.ms.filter."+kind+".rejected_blocks", int(rej))
				if rej > 0 {
					c.Stat("c12.ms.filter."+kind+".cases_with_rejections", 1)
				}
				return
			}}
	}
	rp := func() int { return allProcs[c.Rng.Intn(len(allProcs))] }
	if big {
		return []setting2{plain(8), filt(8, "true", 0, 1), filt(3, "exact", 0, 1), filt(16, "exact", 0, 1), filt(2, "randcons", 0, 1)}
	}
	res := []setting2{plain(1), plain(rp())}
	for _, p := range allProcs {
		res = append(res, filt(p, "exact", 0, 1))
	}
	res = append(res, filt(rp(), "true", 0, 1), filt(rp(), "exact", 0, 2), filt(rp(), "padded", 1, 1),
		filt(rp(), "padded", 2, 1), filt(rp(), "randcons", 0, 1), filt(rp(), "randcons", 1, 1))
	for _, bd := range c2f {
		bd := bd
		extra := []float64{0, delta}[c.Rng.Intn(2)]
		p := rp()
		res = append(res, setting2{fmt.Sprintf("fn=MarchingSquaresC2F procs=%d big=%v extra=%v", p, bd/delta, extra/delta),
			func() (m *model2d.Mesh) {
				withProcs(p, func() { m = model2d.MarchingSquaresC2F(s, bd, delta, extra, 0) })
				return
			}})
		c.Stat("c12.ms.c2f", 1)
	}
	return res
}

func emitMS(c *hlib.Ctx, s model2d.Solid, delta float64, big bool, c2f []float64, family string) {
	xs := axisPoints(s.Min().X, s.Max().X, delta)
	ys := axisPoints(s.Min().Y, s.Max().Y, delta)
	l := newLattice2(xs, ys, delta, s)
	area := l.cx * l.cy
	c.Stat("c12.ms.solids", 1)
	c.Stat("c12.ms.family."+family, 1)
	if area >= 128 {
		c.Stat("c12.ms.solids_root_splits", 1)
	}
	if area/4096 > 64 {
		c.Stat("c12.ms.solids_divideVolume_gt_64", 1)
	}
	opBase := fmt.Sprintf("c12 ms %d %d %s family=%s delta=%v", len(xs), len(ys), bitStr(l.bits), family, delta)
	for _, st := range msSettings(c, s, l, delta, big, c2f) {
		st := st
		emitCase(c, opBase+" "+st.tag, "corr:c12 ms/"+fnOf(st.tag), func() string { return l.meshHash(st.run()) })
		c.Stat("c12.ms.cases", 1)
	}
	if !big {
		emitMSSearch(c, s, l, delta, fmt.Sprintf("n=%d,%d bits=%s family=%s delta=%v", len(xs), len(ys), bitStr(l.bits), family, delta))
	}
}

func randVoxel2(c *hlib.Ctx, n [2]int, v float64) *voxel2 {
	return &voxel2{n: n, v: v, bits: randBits(c, n[:], "c12.ms"), closed: c.Rng.Intn(3) == 0}
}

func runMS(c *hlib.Ctx) {
	nSolids := c.N/6 + 2
	for i := 0; i < nSolids; i++ {
		if i%8 == 3 {
			// large spacing ratio for coarse-to-fine (see runMC)
			delta := 1.0 / 16
			m := []int{24, 32}[c.Rng.Intn(2)]
			n := [2]int{1 + c.Rng.Intn(3), 1 + c.Rng.Intn(3)}
			emitMS(c, randVoxel2(c, n, float64(m)*delta), delta, false,
				[]float64{float64(m) * delta, float64(m/2) * delta, float64(m) * delta}, "voxel_fat_c2f_high_ratio")
			continue
		}
		switch c.Rng.Intn(8) {
		case 0, 1:
			emitMS(c, randVoxel2(c, [2]int{1 + c.Rng.Intn(8), 1 + c.Rng.Intn(8)}, 1), 1, false, nil, "voxel_small")
		case 2, 3:
			emitMS(c, randVoxel2(c, [2]int{10 + c.Rng.Intn(40), 10 + c.Rng.Intn(40)}, 1), 1, false, nil, "voxel_medium")
		case 4:
			n := [2]int{1 + c.Rng.Intn(3), 1 + c.Rng.Intn(3)}
			n[c.Rng.Intn(2)] = 100 + c.Rng.Intn(200)
			emitMS(c, randVoxel2(c, n, 1), 1, false, nil, "voxel_elongated")
		case 5, 6:
			m := 2 + c.Rng.Intn(3)
			delta := []float64{1, 0.5, 0.25}[c.Rng.Intn(3)]
			var bigs []float64
			for k := 2; k <= m; k++ {
				bigs = append(bigs, float64(k)*delta)
			}
			bigs = append(bigs, delta)
			emitMS(c, randVoxel2(c, [2]int{1 + c.Rng.Intn(8), 1 + c.Rng.Intn(8)}, float64(m)*delta), delta, false, bigs, "voxel_fat")
		default:
			delta := []float64{0.25, 0.125}[c.Rng.Intn(2)]
			b := &disc2{model2d.XY(dy(c, 2, 3), dy(c, 2, 3)), float64(4+c.Rng.Intn(12)) / 8}
			var bigs []float64
			for k := 2; float64(k)*delta*2 <= b.r; k++ {
				bigs = append(bigs, float64(k)*delta)
			}
			if c.Rng.Intn(2) == 0 {
				emitMS(c, b, delta, false, bigs, "disc")
			} else {
				emitMS(c, &union2{b, randVoxel2(c, [2]int{1 + c.Rng.Intn(4), 1 + c.Rng.Intn(4)}, 0.5)}, delta, false, nil, "disc_union_voxel")
			}
		}
	}
	// one big lattice: divideVolume = Area/4096 > 64
	n := [2]int{560 + c.Rng.Intn(60), 560 + c.Rng.Intn(60)}
	v := &voxel2{n: n, v: 1, bits: make([]bool, n[0]*n[1])}
	blobBits(c, n[:], v.bits, 3+c.Rng.Intn(3))
	emitMS(c, v, 1, true, nil, "voxel_big_blob")
}
