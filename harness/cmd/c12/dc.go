package main

import (
	"fmt"
	"math"
	"sort"
	"strings"

	"github.com/unixpickle/model3d/model3d"
	"verif/harness/hlib"
)

// dcAxis replicates newDcCubeLayout (NoJitter): count = round((max-min+2*delta)/delta)+1 points
// min-delta + i*delta.
func dcAxis(min, max, delta float64) []float64 {
	lo := min - delta
	hi := max + delta
	n := int(math.Round((hi-lo)*(1/delta))) + 1
	xs := make([]float64, n)
	for i := range xs {
		xs[i] = lo + float64(i)*delta
	}
	return xs
}

type dcSetting struct {
	maxGos, buf, procs int
	mode               model3d.DualContouringTriangleMode
	clip               bool
	repair, jitter     bool
}

func (s dcSetting) String() string {
	res := fmt.Sprintf("MaxGos=%d BufferSize=%d procs=%d mode=%d clip=%v", s.maxGos, s.buf, s.procs, s.mode, s.clip)
	if s.repair || s.jitter {
		res += fmt.Sprintf(" repair=%v jitter=%v", s.repair, s.jitter)
	}
	return res
}

func runDCOnce(s model3d.Solid, delta float64, st dcSetting) *model3d.Mesh {
	d := &model3d.DualContouring{
		S:            model3d.SolidSurfaceEstimator{Solid: s},
		Delta:        delta,
		NoJitter:     !st.jitter,
		MaxGos:       st.maxGos,
		BufferSize:   st.buf,
		Clip:         st.clip,
		Repair:       st.repair,
		TriangleMode: st.mode,
	}
	var m *model3d.Mesh
	withProcs(st.procs, func() { m = d.Mesh() })
	return m
}

// cubeOf maps a vertex produced with Clip=true to the cube it was clipped into.
func cubeOf(xs []float64, v float64) (int, bool) {
	if math.IsNaN(v) {
		return 0, false
	}
	i := sort.SearchFloat64s(xs, v) - 1 // xs[i] < v <= xs[i+1]
	if i < 0 || i+1 >= len(xs) || !(xs[i] < v && v < xs[i+1]) {
		return 0, false
	}
	return i, true
}

// dcEdgeHash: every face belongs to one lattice edge (its three vertices are the vertices of
// three of the four cubes round that edge); result = faces + multiset of (axis,x,y,z,multiplicity).
func dcEdgeHash(xs, ys, zs []float64, m *model3d.Mesh) (res string, hasNaN bool) {
	type edge [4]int
	counts := map[edge]int{}
	problem := ""
	nFaces := 0
	m.Iterate(func(t *model3d.Triangle) {
		nFaces++
		var cube [3][3]int
		for i, p := range t {
			if math.IsNaN(p.X) || math.IsNaN(p.Y) || math.IsNaN(p.Z) {
				hasNaN = true
				return
			}
			var ok [3]bool
			cube[i][0], ok[0] = cubeOf(xs, p.X)
			cube[i][1], ok[1] = cubeOf(ys, p.Y)
			cube[i][2], ok[2] = cubeOf(zs, p.Z)
			if !ok[0] || !ok[1] || !ok[2] {
				problem = fmt.Sprintf("unmapped:vertex_not_inside_a_cube:%v", p)
				return
			}
		}
		axis, nAgree := -1, 0
		var e edge
		for a := 0; a < 3; a++ {
			lo, hi := cube[0][a], cube[0][a]
			for i := 1; i < 3; i++ {
				if cube[i][a] < lo {
					lo = cube[i][a]
				}
				if cube[i][a] > hi {
					hi = cube[i][a]
				}
			}
			if lo == hi {
				axis = a
				nAgree++
			} else if hi != lo+1 {
				problem = fmt.Sprintf("unmapped:cubes_not_adjacent:%v", cube)
			}
			e[1+a] = hi
		}
		if nAgree != 1 {
			problem = fmt.Sprintf("unmapped:cubes_do_not_share_one_edge:%v", cube)
			return
		}
		e[0] = axis
		counts[e]++
	})
	if hasNaN {
		return "", true
	}
	if problem != "" {
		return problem, false
	}
	var ms mset
	for e, k := range counts {
		ms.add(uint64(e[0]), uint64(e[1]), uint64(e[2]), uint64(e[3]), uint64(k))
	}
	return fmt.Sprintf("faces=%d %s", nFaces, ms.String()), false
}

// exactHash: the multiset of faces with exact float coordinates.
func exactHash(m *model3d.Mesh) string {
	var ms mset
	m.Iterate(func(t *model3d.Triangle) {
		var v [9]uint64
		for i, p := range t {
			v[3*i], v[3*i+1], v[3*i+2] = math.Float64bits(p.X), math.Float64bits(p.Y), math.Float64bits(p.Z)
		}
		ms.add(v[:]...)
	})
	return ms.String()
}

func emitDC(c *hlib.Ctx, s model3d.Solid, delta float64, family string) {
	xs := dcAxis(s.Min().X, s.Max().X, delta)
	ys := dcAxis(s.Min().Y, s.Max().Y, delta)
	zs := dcAxis(s.Min().Z, s.Max().Z, delta)
	if len(zs) < 3 {
		return
	}
	l := newLattice3(xs, ys, zs, delta, s)
	nx, ny, nz := len(xs), len(ys), len(zs)
	row := nx * ny
	c.Stat("c12.dc.solids", 1)
	c.Stat("c12.dc.family."+family, 1)
	bufs := []int{0, 1, 4 * row, 5 * row, 6 * row, 7 * row, (nz - 1) * row, nz * row, 1 << 40, row*(4+c.Rng.Intn(nz)) + c.Rng.Intn(row)}
	settings := []dcSetting{
		{1, 1, 0, 0, true, false, false}, {8, 1, 0, 0, true, false, false}, {0, 1, 1, 0, true, false, false}, {0, 1, 16, 0, true, false, false}, {2, 1 << 40, 0, 0, true, false, false}, {0, 0, 0, 0, true, false, false},
	}
	for i := 0; i < 8; i++ {
		settings = append(settings, dcSetting{[]int{0, 1, 2, 8}[c.Rng.Intn(4)], bufs[c.Rng.Intn(len(bufs))],
			[]int{0, 0, 1, 3, 16}[c.Rng.Intn(5)], 0, true, false, false})
	}
	opBase := fmt.Sprintf("c12 dc %d %d %d %s family=%s delta=%v", nx, ny, nz, bitStr(l.bits), family, delta)
	ref := dcSetting{1, 1 << 40, 0, 0, true, false, false}
	var refHash string
	mark(opBase + " " + ref.String())
	refRes := guarded(func() string {
		m := runDCOnce(s, delta, ref)
		refHash = exactHash(m)
		r, nan := dcEdgeHash(xs, ys, zs, m)
		if nan {
			return "nan"
		}
		return r
	})
	if refRes == "nan" {
		c.Stat("c12.dc.nan_solids_skipped", 1)
		return
	}
	c.EmitSite(opBase+" "+ref.String(), refRes, "corr:c12 dc/reference")
	for _, st := range settings {
		st := st
		var h string
		mark(opBase + " " + st.String())
		res := guarded(func() string {
			m := runDCOnce(s, delta, st)
			h = exactHash(m)
			r, nan := dcEdgeHash(xs, ys, zs, m)
			if nan {
				return "nan-only-in-this-setting"
			}
			return r
		})
		bufRows := st.buf
		if bufRows == 0 {
			bufRows = 1000000
		}
		bufRows /= row
		if bufRows < 4 {
			bufRows = 4
		}
		if bufRows < nz {
			c.Stat("c12.dc.cases_multi_window", 1)
			if bufRows == 4 {
				c.Stat("c12.dc.cases_bufrows4_multi_window", 1)
			}
		}
		c.Stat("c12.dc.cases", 1)
		c.EmitSite(opBase+" "+st.String(), res, "corr:c12 dc/topology")
		same := "same"
		if h != refHash {
			same = fmt.Sprintf("diff:ref=%s/this=%s", refHash, h)
		}
		c.EmitSite(fmt.Sprintf("c12 same dc nx=%d ny=%d nz=%d bits=%s family=%s delta=%v %s", nx, ny, nz, bitStr(l.bits), family, delta, st.String()),
			same, "corr:c12 same/dc-exact-coordinates")
	}
	// exact-coordinate independence also for the other triangle modes and without clipping
	for _, v := range []dcSetting{{1, 1 << 40, 0, model3d.DualContouringTriangleModeSharpest, true, false, false},
		{1, 1 << 40, 0, model3d.DualContouringTriangleModeFlattest, true, false, false}, {1, 1 << 40, 0, 0, false, false, false}} {
		var h0 string
		mark(fmt.Sprintf("c12 same dcmode nx=%d ny=%d nz=%d bits=%s family=%s delta=%v %s", nx, ny, nz, bitStr(l.bits), family, delta, v.String()))
		r0 := guarded(func() string { h0 = exactHash(runDCOnce(s, delta, v)); return "ok" })
		for _, alt := range []dcSetting{{8, 1, 0, v.mode, v.clip, false, false}, {0, bufs[2+c.Rng.Intn(6)], 3, v.mode, v.clip, false, false}} {
			alt := alt
			var h1 string
			mark(fmt.Sprintf("c12 same dcmode nx=%d ny=%d nz=%d bits=%s family=%s delta=%v %s", nx, ny, nz, bitStr(l.bits), family, delta, alt.String()))
			r1 := guarded(func() string { h1 = exactHash(runDCOnce(s, delta, alt)); return "ok" })
			same := "same"
			if r0 != "ok" || r1 != "ok" || h0 != h1 {
				same = fmt.Sprintf("diff:%s:%s/%s:%s", r0, h0, r1, h1)
			}
			c.EmitSite(fmt.Sprintf("c12 same dcmode nx=%d ny=%d nz=%d bits=%s family=%s delta=%v %s", nx, ny, nz, bitStr(l.bits), family, delta, alt.String()),
				same, "corr:c12 same/dc-exact-coordinates")
			c.Stat("c12.dc.cases_modes", 1)
		}
	}
	emitDCRepair(c, s, delta, family, nx, ny, nz, bitStr(l.bits), bufs)
}

// emitDCRepair: Repair=true (singular edges and vertices are pulled apart after the windows have been
// meshed) and the default jitter: the exact float face multiset must be that of the reference
// setting for every MaxGos / BufferSize / GOMAXPROCS and for a plain repetition of the reference
// setting itself.  A panic of the library ("repair point already exists", …) is an outcome like
// any other: it must be the same one.
func emitDCRepair(c *hlib.Ctx, s model3d.Solid, delta float64, family string, nx, ny, nz int, bits string, bufs []int) {
	outcome := func(st dcSetting) string {
		return guarded(func() string { return exactHash(runDCOnce(s, delta, st)) })
	}
	variants := []dcSetting{{1, 1 << 40, 0, 0, true, true, false}, {1, 1 << 40, 0, 0, true, true, true},
		{1, 1 << 40, 0, 0, false, true, false}, {1, 1 << 40, 0, 0, true, false, true}}
	// two of the four (clip, repair, jitter) combinations per solid
	i0 := c.Rng.Intn(len(variants))
	for _, v := range []dcSetting{variants[i0], variants[(i0+1+c.Rng.Intn(len(variants)-1))%len(variants)]} {
		base := fmt.Sprintf("c12 same dcrepair nx=%d ny=%d nz=%d bits=%s family=%s delta=%v ", nx, ny, nz, bits, family, delta)
		mark(base + v.String())
		ref := outcome(v)
		if v.repair {
			plain := v
			plain.repair = false
			if outcome(plain) != ref {
				c.Stat("c12.dc.repair_cases_with_singularities", 1)
			}
		}
		alts := []dcSetting{v, {8, 1, 0, v.mode, v.clip, v.repair, v.jitter},
			{[]int{0, 1, 2, 8}[c.Rng.Intn(4)], bufs[c.Rng.Intn(len(bufs))], []int{0, 1, 3, 16}[c.Rng.Intn(4)], v.mode, v.clip, v.repair, v.jitter}}
		for k, alt := range alts {
			op := base + alt.String()
			if k == 0 {
				op += " rep=2"
			}
			mark(op)
			got := outcome(alt)
			same := "same"
			if got != ref {
				same = fmt.Sprintf("diff:ref=%s/this=%s", ref, got)
			}
			if strings.HasPrefix(ref, "panic") {
				c.Stat("c12.dc.repair_reference_panics", 1)
			}
			site := "corr:c12 same/dc-repair"
			if !v.repair {
				site = "corr:c12 same/dc-jitter"
			}
			c.EmitSite(op, same, site)
			c.Stat("c12.dc.cases_repair_or_jitter", 1)
		}
	}
}

// emitDCRepairRegression: the solid on which fix 08bc264 (second part of 09ce28e) was found: clipping
// folds two triangles round a singular edge into the same half plane (equal angles), and their
// pairing used to follow the mesh map's order in about one run of three.  Reference + 9 repetitions.
func emitDCRepairRegression(c *hlib.Ctx) {
	n := [3]int{2, 2, 8}
	v := &voxel3{n: n, v: 2, bits: make([]bool, 32)}
	for i, ch := range "01110111111100101110111010011000" {
		v.bits[i] = ch == '1'
	}
	st := dcSetting{1, 1 << 40, 0, 0, true, true, false}
	ref := guarded(func() string { return exactHash(runDCOnce(v, 1, st)) })
	for rep := 2; rep <= 10; rep++ {
		alt := st
		if rep%2 == 1 {
			alt.maxGos, alt.buf = 8, 1
		}
		op := fmt.Sprintf("c12 same dcrepair n=2,2,8 voxel=2 bits=%s family=regression_equal_angles delta=1 %s rep=%d", bitStr(v.bits), alt.String(), rep)
		mark(op)
		got := guarded(func() string { return exactHash(runDCOnce(v, 1, alt)) })
		same := "same"
		if got != ref {
			same = fmt.Sprintf("diff:ref=%s/this=%s", ref, got)
		}
		c.EmitSite(op, same, "corr:c12 same/dc-repair")
		c.Stat("c12.dc.cases_repair_or_jitter", 1)
	}
}

func runDC(c *hlib.Ctx) {
	emitDCRepairRegression(c)
	nSolids := c.N/10 + 2
	for i := 0; i < nSolids; i++ {
		if i%4 == 1 {
			// half-filled random voxels: many cubes touching along an edge or at a corner only, i.e.
			// many singular edges / vertices that share triangles (what Repair=true works on)
			n := [3]int{2 + c.Rng.Intn(2), 2 + c.Rng.Intn(2), 2 + c.Rng.Intn(5)}
			bs := make([]bool, n[0]*n[1]*n[2])
			for j := range bs {
				bs[j] = c.Rng.Intn(2) == 0
			}
			emitDC(c, &voxel3{n: n, v: 2, bits: bs}, 1, "voxel_half_filled")
			continue
		}
		switch c.Rng.Intn(5) {
		case 0, 1: // fat voxels, tall: many windows
			m := 2 + c.Rng.Intn(2)
			n := [3]int{1 + c.Rng.Intn(2), 1 + c.Rng.Intn(2), 1 + c.Rng.Intn(9)}
			emitDC(c, randVoxel3(c, n, float64(m)), 1, "voxel_fat_tall")
		case 2: // shallow: NZ = 3..7
			n := [3]int{1 + c.Rng.Intn(3), 1 + c.Rng.Intn(3), 1}
			delta := []float64{1, 0.5, 0.25}[c.Rng.Intn(3)]
			emitDC(c, &voxel3{n: n, v: 1, bits: randBits(c, n[:], "c12.dc")}, delta, "voxel_shallow")
		case 3:
			delta := []float64{0.25, 0.125}[c.Rng.Intn(2)]
			b := &ball3{model3d.XYZ(dy(c, 2, 3), dy(c, 2, 3), dy(c, 2, 3)), float64(3+c.Rng.Intn(6)) / 8}
			emitDC(c, b, delta, "ball")
		default:
			b := &ball3{model3d.XYZ(dy(c, 1, 2), dy(c, 1, 2), dy(c, 1, 2)), float64(2+c.Rng.Intn(4)) / 4}
			vx := randVoxel3(c, [3]int{1 + c.Rng.Intn(2), 1 + c.Rng.Intn(2), 1 + c.Rng.Intn(6)}, 0.5)
			emitDC(c, &union3{b, vx}, 0.25, "ball_union_voxel")
		}
	}
}
