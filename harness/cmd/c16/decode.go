package main

import (
	"bytes"
	"encoding/binary"
	"errors"
	"fmt"
	"io"
	"runtime"
	"strings"

	"verif/harness/codec"

	ff "github.com/unixpickle/model3d/fileformats"
	"github.com/unixpickle/model3d/model2d"
	"github.com/unixpickle/model3d/model3d"
)

// decode runs one REAL decoder on data and renders outcome class + data canonically (the same
// rendering as lean/M3d/Drv/C16.lean).  It does not recover: the caller does.
func decode(kind string, data []byte) string {
	switch kind {
	case "stl":
		tris, err := model3d.ReadSTL(bytes.NewReader(data))
		if err != nil {
			return "error"
		}
		var sb strings.Builder
		fmt.Fprintf(&sb, "ok %d", len(tris))
		for _, t := range tris {
			for _, p := range t {
				fmt.Fprintf(&sb, " %s %s %s", codec.H64(p.X), codec.H64(p.Y), codec.H64(p.Z))
			}
		}
		return sb.String()
	case "stlr":
		rd, err := ff.NewSTLReader(bytes.NewReader(data))
		if err != nil {
			return "error"
		}
		var sb strings.Builder
		n := 0
		for {
			nrm, vs, err := rd.ReadTriangle()
			if err == io.EOF {
				// "io.EOF is returned when the file ended and there are no more triangles to be read": asking
				// again must give io.EOF again (not data, not a panic)
				for k := 0; k < 2; k++ {
					if _, _, err := rd.ReadTriangle(); !errors.Is(err, io.EOF) {
						return "eof-not-sticky"
					}
				}
				break
			} else if err != nil {
				// a caller that asks again after an error: whatever is returned, it must return
				rd.ReadTriangle()
				rd.ReadTriangle()
				return "error"
			}
			n++
			fmt.Fprintf(&sb, " %s %s %s", codec.H32(nrm[0]), codec.H32(nrm[1]), codec.H32(nrm[2]))
			for _, v := range vs {
				fmt.Fprintf(&sb, " %s %s %s", codec.H32(v[0]), codec.H32(v[1]), codec.H32(v[2]))
			}
		}
		return fmt.Sprintf("ok %d%s", n, sb.String())
	case "off":
		rd, err := ff.NewOFFReader(bytes.NewReader(data))
		if err != nil {
			return "error"
		}
		var sb strings.Builder
		n := rd.NumFaces()
		for j := 0; j < n; j++ {
			poly, err := rd.ReadFace()
			if err != nil {
				rd.ReadFace() // asking again after an error must return
				rd.ReadFace()
				return "error"
			}
			fmt.Fprintf(&sb, " %d", len(poly))
			for _, p := range poly {
				fmt.Fprintf(&sb, " %s %s %s", codec.H64(p[0]), codec.H64(p[1]), codec.H64(p[2]))
			}
		}
		// "If no more faces exist to be read, io.EOF is returned": also when asked twice
		for k := 0; k < 2; k++ {
			if _, err := rd.ReadFace(); err != io.EOF {
				return "eof-not-sticky"
			}
		}
		if n < 0 {
			n = 0
		}
		return fmt.Sprintf("ok %d%s", n, sb.String())
	case "offm":
		// polygons with more than three corners go through the triangulator (C14): for those files only
		// "no panic, no hang, bounded allocation" is checked, whatever ReadOFF returns
		poly, short, decoded := false, false, false
		if rd, err := ff.NewOFFReader(bytes.NewReader(data)); err == nil {
			decoded = true
			for j := 0; j < rd.NumFaces(); j++ {
				f, err := rd.ReadFace()
				if err != nil {
					decoded = false
					break
				}
				if len(f) > 3 {
					poly = true
				}
				if len(f) < 3 {
					short = true
				}
			}
		}
		tris, err := model3d.ReadOFF(bytes.NewReader(data))
		if decoded && poly && !short {
			return "polygons"
		}
		if err != nil {
			return "error"
		}
		var sb strings.Builder
		fmt.Fprintf(&sb, "ok %d", len(tris))
		for _, t := range tris {
			sb.WriteString(" 3")
			for _, p := range t {
				fmt.Fprintf(&sb, " %s %s %s", codec.H64(p.X), codec.H64(p.Y), codec.H64(p.Z))
			}
		}
		return sb.String()
	case "plyh":
		h, err := ff.NewPLYHeaderDecode(string(data))
		if err != nil {
			return "error"
		}
		return codec.ShowHeader(h)
	case "plyg":
		rd, err := ff.NewPLYReader(bytes.NewReader(data))
		if err != nil {
			return "openerr"
		}
		h := rd.Header()
		if unboundedEmptyRows(&h) {
			// rows of an element without properties occupy no bytes in a binary file: every Read returns at
			// once, and only the declared count bounds a caller that loops to io.EOF (this loop is ours)
			return "unbounded-empty-rows"
		}
		var rows []string
		end := "eof"
		for {
			vals, el, err := rd.Read()
			if err != nil {
				if !errors.Is(err, io.EOF) {
					end = "err"
					rd.Read() // asking again after an error must return
					rd.Read()
				} else if len(rows) == totalRows(&h) {
					// "If all element rows have been read, io.EOF is returned": also when asked twice
					for k := 0; k < 2; k++ {
						if _, _, err := rd.Read(); !errors.Is(err, io.EOF) {
							return "eof-not-sticky"
						}
					}
				}
				break
			}
			idx := -1
			for k, e := range h.Elements {
				if e == el {
					idx = k
				}
			}
			rows = append(rows, fmt.Sprintf("@%d %s", idx, codec.ShowRow(vals)))
		}
		var sb strings.Builder
		fmt.Fprintf(&sb, "%s | %d", codec.ShowHeader(&h), len(rows))
		for _, s := range rows {
			sb.WriteString(" " + s)
		}
		sb.WriteString(" " + end)
		return sb.String()
	case "plyc":
		back, colors, err := model3d.ReadColorPLY(bytes.NewReader(data))
		if err != nil {
			return "error"
		}
		var sb strings.Builder
		fmt.Fprintf(&sb, "ok %d", len(back))
		for _, t := range back {
			for _, p := range t {
				col := "-"
				if v, ok := colors.Load(p); ok {
					col = fmt.Sprintf("%d,%d,%d", v[0], v[1], v[2])
				}
				fmt.Fprintf(&sb, " %s %s %s %s", codec.H64(p.X), codec.H64(p.Y), codec.H64(p.Z), col)
			}
		}
		return sb.String()
	case "csv":
		back, err := model2d.DecodeCSV(data)
		if err != nil {
			return "error"
		}
		var sb strings.Builder
		fmt.Fprintf(&sb, "ok %d", len(back))
		for _, s := range back {
			fmt.Fprintf(&sb, " %s %s %s %s", codec.H64(s[0].X), codec.H64(s[0].Y), codec.H64(s[1].X), codec.H64(s[1].Y))
		}
		return sb.String()
	case "plycap":
		if len(data) != 8 {
			return "bad-args"
		}
		// TotalAlloc is process-wide: an allocation of the runtime's own (a GC cycle starting) that lands
		// between two samples would be attributed to the list loop.  The loop is deterministic, such noise
		// is not: the answer is the first trace that is observed twice.
		n, k := binary.BigEndian.Uint32(data[:4]), int(binary.BigEndian.Uint32(data[4:]))
		seen := map[string]bool{}
		last := ""
		for i := 0; i < 6; i++ {
			last = capTrace(n, k)
			if seen[last] {
				return last
			}
			seen[last] = true
		}
		return "unstable:" + last
	}
	return "unknown-kind"
}

var errNoMoreValues = errors.New("no more values")

// capTrace runs the REAL decodeInstance (hook VerifDecodeInstance) on an element with one property
// `list uint uchar`, with a value source that hands out the length n, then k entries, then fails, and
// that allocates nothing itself.  TotalAlloc is sampled at every call, so the difference between two
// consecutive calls is exactly what the list loop allocated in between: the slice made before the first
// entry, and the re-allocations of append.  Rendering: `ok <stored>:<slots>,… total <slots>` (16 bytes
// per slot), the same as lean/M3d/Drv/C16.lean.
func capTrace(n uint32, k int) string {
	el := &ff.PLYElement{Name: "s", Count: 1, Properties: []*ff.PLYProperty{
		{Name: "l", LenType: ff.PLYPropertyTypeUint, ElemType: ff.PLYPropertyTypeUchar}}}
	var lenVal ff.PLYValue = ff.PLYValueUint32{Value: n}
	var entry ff.PLYValue = ff.PLYValueUint8{Value: 7}
	rec := make([]uint64, 0, k+4)
	var m runtime.MemStats
	calls := 0
	_, err := ff.VerifDecodeInstance(el, func(t ff.PLYPropertyType) (ff.PLYValue, error) {
		runtime.ReadMemStats(&m)
		if len(rec) < cap(rec) {
			rec = append(rec, m.TotalAlloc)
		}
		calls++
		if calls == 1 {
			return lenVal, nil
		}
		if calls-1 > k {
			return nil, errNoMoreValues
		}
		return entry, nil
	})
	runtime.ReadMemStats(&m)
	rec = append(rec, m.TotalAlloc)
	if err != errNoMoreValues || calls != k+2 {
		return fmt.Sprintf("unexpected-end calls=%d err=%v", calls, err != nil)
	}
	var parts []string
	var total uint64
	for j := 0; j+1 < len(rec); j++ {
		d := rec[j+1] - rec[j]
		if d == 0 {
			continue
		}
		stored := 0
		if j > 0 {
			stored = j - 1 // the j-th call returned entry j, which is appended to j-1 stored entries
		}
		if d%16 != 0 {
			return fmt.Sprintf("unexpected-allocation stored=%d bytes=%d", stored, d)
		}
		parts = append(parts, fmt.Sprintf("%d:%d", stored, d/16))
		total += d / 16
	}
	return fmt.Sprintf("ok %s total %d", strings.Join(parts, ","), total)
}

// totalRows: the number of rows the header declares (elements with a count <= 0 have none).
func totalRows(h *ff.PLYHeader) int {
	n := 0
	for _, e := range h.Elements {
		if e.Count > 0 {
			n += int(e.Count)
		}
	}
	return n
}

// unboundedEmptyRows: a binary header declaring more than 4096 rows for an element without properties.
func unboundedEmptyRows(h *ff.PLYHeader) bool {
	if h.Format == ff.PLYFormatASCII {
		return false
	}
	for _, e := range h.Elements {
		if len(e.Properties) == 0 && e.Count > 4096 {
			return true
		}
	}
	return false
}
