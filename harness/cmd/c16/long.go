package main

// Long-list files and the capacity ledger of the list loop (seeded change C16-3): the bounded
// pre-allocation of PLYElement.decodeInstance holds 4096 entries, so what the decoder does when a
// list REALLY contains more than that — and the declared length is corrupt, or the file is cut after
// the 4096th entry — is only reached by files of this size.

import (
	"bytes"
	"encoding/binary"
	"fmt"
	"math"
	"sort"
	"strconv"
	"strings"

	"verif/harness/codec"

	ff "github.com/unixpickle/model3d/fileformats"
)

type longFile struct {
	sample
	ascii    bool
	order    binary.ByteOrder
	lenType  ff.PLYPropertyType
	n        int
	lenFrom  int   // the length field: data[lenFrom:lenTo]
	lenTo    int
	entryEnd []int // entryEnd[i] = offset just after the i-th entry (entryEnd[0] = start of the entries)
}

func typeSize(t ff.PLYPropertyType) int { return t.Size() }

// buildLongFile writes, with the real PLYWriter, a file with the standard vertex and face elements
// and between them an element "strip" whose single row holds a list of n entries.
func buildLongFile(f ff.PLYFormat, lenType, elemType ff.PLYPropertyType, n int) longFile {
	h := &ff.PLYHeader{Format: f, Elements: []*ff.PLYElement{
		ff.NewPLYElementColoredVertex(3),
		{Name: "strip", Count: 1, Properties: []*ff.PLYProperty{
			{Name: "a", ElemType: ff.PLYPropertyTypeShort},
			{Name: "l", LenType: lenType, ElemType: elemType},
			{Name: "b", ElemType: ff.PLYPropertyTypeUchar}}},
		ff.NewPLYElementFace(1),
	}}
	var buf bytes.Buffer
	w, err := ff.NewPLYWriter(&buf, h)
	if err != nil {
		panic(err)
	}
	must := func(err error) {
		if err != nil {
			panic(err)
		}
	}
	for i := 0; i < 3; i++ {
		must(w.Write([]ff.PLYValue{ff.PLYValueFloat32{Value: float32(i)}, ff.PLYValueFloat32{Value: 0.5}, ff.PLYValueFloat32{Value: -1},
			ff.PLYValueUint8{Value: 255}, ff.PLYValueUint8{Value: uint8(i)}, ff.PLYValueUint8{Value: 0}}))
	}
	vals := make([]ff.PLYValue, n)
	for i := range vals {
		if elemType == ff.PLYPropertyTypeUchar {
			vals[i] = ff.PLYValueUint8{Value: uint8(i%5 + 1)}
		} else {
			vals[i] = ff.PLYValueUint16{Value: uint16(i%5 + 1)}
		}
	}
	must(w.Write([]ff.PLYValue{ff.PLYValueInt16{Value: -2},
		ff.PLYValueList{Length: codec.LengthScalar(codec.TypeCode(lenType), n), Values: vals},
		ff.PLYValueUint8{Value: 9}}))
	must(w.Write([]ff.PLYValue{ff.PLYValueList{Length: ff.PLYValueUint8{Value: 3}, Values: []ff.PLYValue{
		ff.PLYValueInt32{Value: 0}, ff.PLYValueInt32{Value: 1}, ff.PLYValueInt32{Value: 2}}}}))
	data := append([]byte{}, buf.Bytes()...)
	lf := longFile{sample: sample{fmt.Sprintf("ply-long-%s-%s-%d", codec.ShowFormat(f), lenType, n), "ply", data},
		ascii: f == ff.PLYFormatASCII, lenType: lenType, n: n}
	body := bytes.Index(data, []byte("end_header\n")) + len("end_header\n")
	if lf.ascii {
		// three vertex lines, then the strip line: a, length, entries…, b
		pos := body
		for i := 0; i < 3; i++ {
			pos += bytes.IndexByte(data[pos:], '\n') + 1
		}
		next := func(p int) (int, int) { // the token starting at p (p is at a token start)
			q := p
			for q < len(data) && data[q] != ' ' && data[q] != '\n' {
				q++
			}
			return p, q
		}
		_, q := next(pos) // a
		lf.lenFrom, lf.lenTo = next(q + 1)
		lf.entryEnd = append(lf.entryEnd, lf.lenTo)
		p := lf.lenTo
		for i := 0; i < n; i++ {
			_, p = next(p + 1)
			lf.entryEnd = append(lf.entryEnd, p)
		}
	} else {
		lf.order = binary.ByteOrder(binary.LittleEndian)
		if f == ff.PLYFormatBinaryBig {
			lf.order = binary.BigEndian
		}
		lf.lenFrom = body + 3*15 + 2
		lf.lenTo = lf.lenFrom + typeSize(lenType)
		for i := 0; i <= n; i++ {
			lf.entryEnd = append(lf.entryEnd, lf.lenTo+i*typeSize(elemType))
		}
	}
	return lf
}

// withLength returns the file with its declared list length replaced by v.
func (lf *longFile) withLength(v int64) []byte {
	if lf.ascii {
		return splice(lf.data, lf.lenFrom, lf.lenTo, []byte(strconv.FormatInt(v, 10)))
	}
	b := make([]byte, lf.lenTo-lf.lenFrom)
	switch len(b) {
	case 2:
		lf.order.PutUint16(b, uint16(v))
	case 4:
		lf.order.PutUint32(b, uint32(v))
	}
	return splice(lf.data, lf.lenFrom, lf.lenTo, b)
}

// cutAfter maps a cut "after i entries (+extra bytes)" of the original to an offset in a file whose
// length field was replaced (the replacement may have another width in ASCII files).
func (lf *longFile) cutAfter(mutated []byte, entries, extra int) []byte {
	off := lf.entryEnd[entries] + extra + (len(mutated) - len(lf.data))
	if off > len(mutated) {
		off = len(mutated)
	}
	return mutated[:off]
}

type longCase struct {
	data   []byte
	origin string
}

func (s *state) longLists(thorough bool) {
	r := s.c.Rng
	n := 5000
	formats := []ff.PLYFormat{ff.PLYFormatBinaryLittle, ff.PLYFormatBinaryBig, ff.PLYFormatASCII}
	lenTypes := []ff.PLYPropertyType{ff.PLYPropertyTypeUshort, ff.PLYPropertyTypeInt, ff.PLYPropertyTypeUint}
	for _, f := range formats {
		for li, lt := range lenTypes {
			var et ff.PLYPropertyType = ff.PLYPropertyTypeUchar
			if li == 1 {
				et = ff.PLYPropertyTypeUshort
			}
			nn := n + li*37 + r.Intn(20)
			lf := buildLongFile(f, lt, et, nn)
			s.c.Stat("c16.corpus.long_files", 1)
			s.c.Stat("c16.corpus.long_bytes", len(lf.data))
			var cases []longCase
			cases = append(cases, longCase{lf.data, "valid"})
			// (a) the declared length corrupted
			var huge, other []int64
			switch lt {
			case ff.PLYPropertyTypeUshort:
				huge = []int64{65535}
				other = []int64{int64(nn + 1), int64(nn - 1), 4096, 4097, 0}
			case ff.PLYPropertyTypeInt:
				huge = []int64{6000000, math.MaxInt32}
				other = []int64{int64(nn + 1), int64(nn - 1), 4097, -1, 8704, 8705}
			default:
				huge = []int64{6000000, math.MaxUint32}
				other = []int64{int64(nn + 1), int64(nn - 1), 4097, 1 << 31, 8704, 8705}
			}
			if thorough {
				huge = append(huge, 100000, 1000003)
			}
			for _, v := range append(append([]int64{}, huge...), other...) {
				cases = append(cases, longCase{lf.withLength(v), "long-corruption"})
			}
			// (b) truncation after the 4096th entry (and just before it)
			cuts := []int{4095, 4096, 4097, 4098, 4500, nn - 1, nn}
			if thorough {
				for i := 4090; i <= 4104; i++ {
					cuts = append(cuts, i)
				}
				for i := 0; i < 12; i++ {
					cuts = append(cuts, 4096+r.Intn(nn-4096))
				}
			} else {
				cuts = append(cuts, 4096+r.Intn(nn-4096))
			}
			sort.Ints(cuts)
			for _, i := range cuts {
				cases = append(cases, longCase{lf.cutAfter(lf.data, i, 0), "long-truncation"})
			}
			cases = append(cases, longCase{lf.cutAfter(lf.data, 4096, 1), "long-truncation"},
				longCase{lf.cutAfter(lf.data, 4097, -1), "long-truncation"})
			// (a)+(b): a huge declared length in front of 4096.. genuine entries
			for _, v := range huge {
				m := lf.withLength(v)
				for _, i := range []int{4095, 4096, 4097, 4500, nn} {
					cases = append(cases, longCase{lf.cutAfter(m, i, 0), "long-corrupt-truncated"})
				}
				if thorough {
					for i := 0; i < 6; i++ {
						cases = append(cases, longCase{lf.cutAfter(m, 4096+r.Intn(nn-4096), 0), "long-corrupt-truncated"})
					}
				}
			}
			for _, cs := range cases {
				s.tryAll(lf.sample, cs.data, cs.origin)
			}
		}
	}
}

// ---------------------------------------------------------------------------
// the capacity ledger of the list loop, request by request

// tryCap: a list property declared with n entries of which k can be read.  The worker reports every
// allocation the REAL decodeInstance made between two consecutive values (runtime.MemStats.TotalAlloc
// sampled at each call of the value source handed to it through the hook VerifDecodeInstance).  The
// requests go to the model in the op line; the model answers `ok total <slots>` iff they meet the
// specification requestsOK (Props/C16.lean: ply_requests_spec_linear, ply_list_model_meets_spec).
func (s *state) tryCap(n uint32, k int) {
	key := fmt.Sprintf("plycap\x00%d %d", n, k)
	if s.seen[key] {
		return
	}
	s.seen[key] = true
	var arg [8]byte
	binary.BigEndian.PutUint32(arg[:4], n)
	binary.BigEndian.PutUint32(arg[4:], uint32(k))
	res, _ := s.r.call("plycap", arg[:])
	if strings.HasPrefix(res, "unstable:") {
		// six runs, no two alike: allocations of the runtime's own kept landing between the samples
		s.c.Stat("c16.skipped.plycap_unstable_measurement", 1)
		return
	}
	// worker: `ok <stored>:<slots>,… total <slots>`
	var reqs []string
	impl := res
	var alloc uint64 // bytes requested by the list loop in ONE run (the worker repeats the run to filter noise)
	if f := strings.Fields(res); len(f) >= 3 && f[0] == "ok" && f[len(f)-2] == "total" {
		if len(f) == 4 {
			reqs = strings.Split(f[1], ",")
		}
		slots, _ := strconv.ParseUint(f[len(f)-1], 10, 64)
		alloc = 16 * slots
		impl = "ok total " + f[len(f)-1]
	}
	op := fmt.Sprintf("c16 plycap %d %d %d", n, k, len(reqs))
	if len(reqs) > 0 {
		op += " " + strings.Join(reqs, " ")
	}
	s.c.Stat("c16.cases.plycap", 1)
	if len(reqs) > 1 {
		s.c.Stat("c16.plycap.grew", 1)
	}
	class := res
	if i := strings.IndexAny(class, " :"); i >= 0 {
		class = class[:i]
	}
	s.c.Stat("c16.outcome.plycap."+class, 1)
	input := 4 + k // a 4-byte length and k one-byte entries
	switch class {
	case "panic", "timeout", "crash":
		s.c.PropFail("c16:plycap/"+class, fmt.Sprintf("%s decoding a list property declared with %d entries of which %d are present (%d input bytes)", res, n, k, input))
	default:
		if alloc > allocBound(input) {
			s.c.PropFail("c16:plycap/over-allocation", fmt.Sprintf("the list loop requested %d bytes (%s) for a list declared with %d entries of which %d are present (%d input bytes, bound %d)",
				alloc, res, n, k, input, allocBound(input)))
			impl = "over-allocation:" + impl
		}
	}
	s.c.Emit(op, impl)
}

func (s *state) capLedger(thorough bool) {
	r := s.c.Rng
	for n := uint32(0); n <= 8; n++ {
		for k := 0; k < int(n); k++ {
			s.tryCap(n, k)
		}
	}
	ns := []uint32{4096, 4097, 5000, 8704, 8705, 65535, 6000000, math.MaxInt32, math.MaxUint32}
	ks := []int{0, 4095, 4096, 4097, 5000, 5632, 5633, 7681}
	if thorough {
		ns = append(ns, 100000, 1<<31, 1000003)
		ks = append(ks, 1, 4098, 5631, 7680, 10241, 20000)
	}
	for _, n := range ns {
		for _, k := range ks {
			if uint64(k) < uint64(n) {
				s.tryCap(n, k)
			}
		}
		extra := 2
		if thorough {
			extra = 10
		}
		for i := 0; i < extra; i++ {
			k := 4000 + r.Intn(4000)
			if uint64(k) < uint64(n) {
				s.tryCap(n, k)
			}
		}
	}
}

// ---------------------------------------------------------------------------
// long headers: NewPLYHeaderRead accumulates the header byte by byte, so what it does per byte is
// multiplied by the length of the header (comment lines are part of the format; scanners write many).

func (s *state) longHeaders(thorough bool) {
	lines := 60
	if thorough {
		lines = 150
	}
	for _, f := range []ff.PLYFormat{ff.PLYFormatBinaryLittle, ff.PLYFormatASCII} {
		h := &ff.PLYHeader{Format: f, Elements: []*ff.PLYElement{ff.NewPLYElementColoredVertex(3), ff.NewPLYElementFace(1)}}
		var buf bytes.Buffer
		w, _ := ff.NewPLYWriter(&buf, h)
		for i := 0; i < 3; i++ {
			w.Write([]ff.PLYValue{ff.PLYValueFloat32{Value: float32(i)}, ff.PLYValueFloat32{Value: 2}, ff.PLYValueFloat32{Value: 0},
				ff.PLYValueUint8{Value: 1}, ff.PLYValueUint8{Value: 2}, ff.PLYValueUint8{Value: 3}})
		}
		w.Write([]ff.PLYValue{ff.PLYValueList{Length: ff.PLYValueUint8{Value: 3}, Values: []ff.PLYValue{
			ff.PLYValueInt32{Value: 0}, ff.PLYValueInt32{Value: 1}, ff.PLYValueInt32{Value: 2}}}})
		plain := buf.Bytes()
		// comment lines after the format line
		at := bytes.Index(plain, []byte("1.0\n")) + len("1.0\n")
		var cm bytes.Buffer
		for i := 0; i < lines; i++ {
			fmt.Fprintf(&cm, "comment %03d written by a scanner that keeps its whole configuration in the header ....\n", i)
		}
		data := splice(plain, at, at, cm.Bytes())
		sm := sample{"ply-long-header-" + codec.ShowFormat(f), "ply", data}
		s.c.Stat("c16.corpus.long_header_files", 1)
		s.c.Stat("c16.corpus.long_header_bytes", len(data))
		eh := bytes.Index(data, []byte("end_header\n"))
		s.tryAll(sm, data, "valid")
		for _, n := range []int{at + 1000, at + 3000, eh, eh + len("end_header"), eh + len("end_header\n"), eh + len("end_header\n") + 7, len(data) - 1} {
			s.tryAll(sm, data[:n], "long-truncation")
		}
		// the end of the header lost: the whole file is searched for it
		s.tryAll(sm, splice(data, eh, eh+len("end_header\n"), nil), "long-corruption")
		s.tryAll(sm, splice(data, eh+len("end_header"), eh+len("end_header\n"), []byte("\r\n")), "long-corruption")
		s.tryAll(sm, splice(data, at, at+len("comment"), []byte("obj_info")), "long-corruption")
		s.tryAll(sm, splice(data, at+len(cm.Bytes())-1, at+len(cm.Bytes()), nil), "long-corruption")
	}
}
