package main

import (
	"bytes"
	"math/rand"
)

// White space that is not a line terminator, as strings.TrimSpace / strings.Fields see it (Unicode
// white space: the ASCII ones, NEL, NBSP, EM SPACE, IDEOGRAPHIC SPACE).  "\r" in front of the
// terminator makes a CRLF row.
var blankRuns = []string{" ", "\t", "   ", "  \r", " \t ", "\xc2\xa0", " \v\f ", "\xc2\x85", "\xe2\x80\x83 ", "\xe3\x80\x80"}

func blankOf(r *rand.Rand) string { return blankRuns[r.Intn(len(blankRuns))] }

// blankCorruptions: the rows of a text format with white space where a reader does not expect it.
// For every line of the text region data[:nt]:
//   - a white-space-only row inserted in front of it (and one appended after the last line),
//   - its content replaced by white space (a row that is there but holds no token),
//   - the file cut at its start followed by an unterminated run of white space (a file truncated
//     right after the indentation of a row),
//   - the line indented, and with trailing white space (still the same row: must decode as before);
//
// and the whole text with every line indented / every line followed by trailing white space.
func blankCorruptions(data []byte, nt int) [][]byte {
	var out [][]byte
	type span struct{ from, to int } // content of a line, without its terminator
	var lines []span
	ls := 0
	for i := 0; i < nt; i++ {
		if data[i] == '\n' {
			lines = append(lines, span{ls, i})
			ls = i + 1
		}
	}
	if ls < nt {
		lines = append(lines, span{ls, nt})
	}
	for _, ln := range lines {
		for _, b := range []string{" ", "\t", "  \r", "\xc2\xa0", " \v\f "} {
			out = append(out, splice(data, ln.from, ln.from, []byte(b+"\n")))
		}
		for _, b := range []string{" ", "\t\t", "\xe3\x80\x80", "\xc2\x85\r"} {
			out = append(out, splice(data, ln.from, ln.to, []byte(b)))
		}
		for _, b := range []string{" ", "   ", "\t", "\xc2\xa0 ", " \r"} {
			out = append(out, append(append([]byte{}, data[:ln.from]...), b...))
		}
		for _, b := range []string{" ", "\t", "\xe2\x80\x83 "} {
			out = append(out, splice(data, ln.from, ln.from, []byte(b)), splice(data, ln.to, ln.to, []byte(b)))
		}
	}
	if nt == len(data) {
		// a white-space-only row after the last line, terminated and not
		for _, b := range []string{" \n", "\t\n", "  ", "\t", "\xc2\xa0\n", " \r\n"} {
			tail := []byte(b)
			if nt > 0 && data[nt-1] != '\n' {
				tail = append([]byte("\n"), tail...)
			}
			out = append(out, append(append([]byte{}, data...), tail...))
		}
	}
	for _, b := range []string{"  ", "\t"} {
		var ind, trail []byte
		for _, ln := range bytes.SplitAfter(data[:nt], []byte("\n")) {
			if len(ln) == 0 {
				continue
			}
			ind = append(append(ind, b...), ln...)
			if ln[len(ln)-1] == '\n' {
				trail = append(append(append(trail, ln[:len(ln)-1]...), b...), '\n')
			} else {
				trail = append(append(trail, ln...), b...)
			}
		}
		out = append(out, append(ind, data[nt:]...), append(trail, data[nt:]...))
	}
	return out
}

// rowLines: tiny ASCII PLY files whose body rows are random compositions of white-space runs, number
// tokens and the word "comment" (rows that hold no token at all, indented rows, rows with trailing
// white space, comment rows with and without text, the last row unterminated), in front of elements with
// no property, scalar properties, a list property and the standard vertex/face pair.  Fed to the generic
// reader and to ReadColorPLY.
func (s *state) rowLines(n int) {
	r := s.c.Rng
	headers := []string{
		"element v 2\nproperty uchar a\n",
		"element v 2\nproperty uchar a\nproperty int b\n",
		"element v 3\n",
		"element v 2\nproperty list uchar int l\n",
		"element vertex 2\nproperty float x\nproperty float y\nproperty float z\nproperty uchar red\nproperty uchar green\nproperty uchar blue\n" +
			"element face 1\nproperty list uchar int vertex_index\n",
		"element v 1\nproperty uchar a\nelement w 0\nproperty int q\nelement u 2\nproperty short c\n",
	}
	piece := func() string {
		switch r.Intn(9) {
		case 0, 1, 2:
			return blankOf(r)
		case 3:
			return "comment"
		case 4:
			return "comment" + blankOf(r) + "x"
		default:
			return []string{"0", "1", "2", "3", "7", "255", "-1", "0.5"}[r.Intn(8)]
		}
	}
	for i := 0; i < n; i++ {
		var sb []byte
		sb = append(sb, "ply\nformat ascii 1.0\n"...)
		sb = append(sb, headers[r.Intn(len(headers))]...)
		sb = append(sb, "end_header\n"...)
		rows := 1 + r.Intn(4)
		blankRows := 0
		for k := 0; k < rows; k++ {
			np := []int{0, 1, 1, 2, 3, 4, 7}[r.Intn(7)]
			if r.Intn(4) == 0 {
				// a row of white space only
				np = 1 + r.Intn(2)
				for q := 0; q < np; q++ {
					sb = append(sb, blankOf(r)...)
				}
				blankRows++
			} else {
				for q := 0; q < np; q++ {
					p := piece()
					if q > 0 && r.Intn(6) != 0 {
						sb = append(sb, ' ')
					}
					sb = append(sb, p...)
				}
			}
			if k+1 < rows || r.Intn(3) != 0 {
				if r.Intn(8) == 0 {
					sb = append(sb, '\r')
				}
				sb = append(sb, '\n')
			}
		}
		if blankRows > 0 {
			s.c.Stat("c16.rowlines.with_blank_row", 1)
		}
		s.try("plyg", sb, "rowline")
		s.try("plyc", sb, "rowline")
	}
}
