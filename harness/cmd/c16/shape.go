package main

// Header validation before trusting types (seeded change C16-10): model3d.ReadColorPLY type-asserts
// every value of a vertex / face row without a check once PLYElement.IsStandardVertex / IsStandardFace
// accepted the header.  Whether those two predicates admit exactly the shapes the row loop asserts is
// only exercised by files whose header is *near the accept boundary* of the predicates AND whose body
// is consistent with that header (so that the rows decode and reach the assertions).  Single-token
// corruptions never produce such files: turning `property uchar red` into `property list uchar uchar red`
// takes two more tokens in the header and a length value in front of every red value of the body.
//
//   - shapeCorruptions: for every property of every element of a valid PLY file, the declaration is
//     switched between scalar and list (every length type family, lists of 0 / 1 / 2 entries; a list
//     becomes a scalar of its entry type) and the body is re-encoded consistently through the real
//     PLYWriter; plus the declaration switched with the body left alone.
//   - nearStandard: random mesh files (all three formats) in which each conjunct of IsStandardVertex
//     (number of properties, names, element types, scalar-ness) and of IsStandardFace (number of
//     properties, name, length type, element type, list-ness) is perturbed independently, rows drawn
//     to match whatever the header declares.

import (
	"bytes"
	"errors"
	"io"
	"math/rand"
	"strconv"

	"verif/harness/codec"

	ff "github.com/unixpickle/model3d/fileformats"
)

type plyFile struct {
	header *ff.PLYHeader
	rows   [][][]ff.PLYValue // rows[e] = rows of element e
}

// readPLYFile decodes a VALID file with the real reader.
func readPLYFile(data []byte) (*plyFile, bool) {
	rd, err := ff.NewPLYReader(bytes.NewReader(data))
	if err != nil {
		return nil, false
	}
	h := rd.Header()
	pf := &plyFile{header: &h, rows: make([][][]ff.PLYValue, len(h.Elements))}
	for {
		vals, el, err := rd.Read()
		if errors.Is(err, io.EOF) {
			break
		} else if err != nil {
			return nil, false
		}
		for k, e := range h.Elements {
			if e == el {
				pf.rows[k] = append(pf.rows[k], vals)
			}
		}
	}
	return pf, true
}

// encode writes header and rows through the real PLYWriter (which does not look at value types).
func (p *plyFile) encode() ([]byte, bool) {
	var buf bytes.Buffer
	w, err := ff.NewPLYWriter(&buf, p.header)
	if err != nil {
		return nil, false
	}
	for e := range p.header.Elements {
		for _, row := range p.rows[e] {
			if err := w.Write(row); err != nil {
				return nil, false
			}
		}
	}
	return append([]byte{}, buf.Bytes()...), true
}

// withProperty returns a copy of the file in which property pi of element ei is replaced by np and
// every value of that column by conv(value).
func (p *plyFile) withProperty(ei, pi int, np *ff.PLYProperty, conv func(ff.PLYValue) ff.PLYValue) *plyFile {
	h := &ff.PLYHeader{Format: p.header.Format}
	out := &plyFile{header: h, rows: make([][][]ff.PLYValue, len(p.rows))}
	for k, e := range p.header.Elements {
		ne := &ff.PLYElement{Name: e.Name, Count: e.Count}
		for q, pr := range e.Properties {
			if k == ei && q == pi {
				ne.Properties = append(ne.Properties, np)
			} else {
				cp := *pr
				ne.Properties = append(ne.Properties, &cp)
			}
		}
		h.Elements = append(h.Elements, ne)
		for _, row := range p.rows[k] {
			nr := append([]ff.PLYValue{}, row...)
			if k == ei && pi < len(nr) && conv != nil {
				nr[pi] = conv(nr[pi])
			}
			out.rows[k] = append(out.rows[k], nr)
		}
	}
	return out
}

func zeroOf(t ff.PLYPropertyType) ff.PLYValue {
	v, err := t.Parse("0")
	if err != nil {
		return ff.PLYValueUint8{}
	}
	return v
}

// the length types a scalar is turned into a list with: one of each integer family and both spellings
// of the one ReadColorPLY expects for faces
var shapeLenTypes = []ff.PLYPropertyType{ff.PLYPropertyTypeUchar, ff.PLYPropertyTypeUint8, ff.PLYPropertyTypeChar,
	ff.PLYPropertyTypeUshort, ff.PLYPropertyTypeInt, ff.PLYPropertyTypeUint32}

// shapeCorruptions: scalar <-> list for every property of every element of a valid PLY file.
func shapeCorruptions(data []byte) [][]byte {
	pf, ok := readPLYFile(data)
	if !ok {
		return nil
	}
	var out [][]byte
	add := func(q *plyFile) {
		if b, ok := q.encode(); ok {
			out = append(out, b)
		}
	}
	for ei, e := range pf.header.Elements {
		for pi, pr := range e.Properties {
			if pr.LenType == ff.PLYPropertyTypeNone {
				for _, lt := range shapeLenTypes {
					np := &ff.PLYProperty{Name: pr.Name, LenType: lt, ElemType: pr.ElemType}
					for n := 0; n <= 2; n++ {
						n := n
						add(pf.withProperty(ei, pi, np, func(v ff.PLYValue) ff.PLYValue {
							vals := make([]ff.PLYValue, n)
							for j := range vals {
								vals[j] = v
							}
							return ff.PLYValueList{Length: codec.LengthScalar(codec.TypeCode(lt), n), Values: vals}
						}))
					}
				}
				// the declaration alone: the body still holds scalars
				add(pf.withProperty(ei, pi, &ff.PLYProperty{Name: pr.Name, LenType: ff.PLYPropertyTypeUchar, ElemType: pr.ElemType}, nil))
			} else {
				np := &ff.PLYProperty{Name: pr.Name, ElemType: pr.ElemType}
				add(pf.withProperty(ei, pi, np, func(v ff.PLYValue) ff.PLYValue {
					if l, ok := v.(ff.PLYValueList); ok && len(l.Values) > 0 {
						return l.Values[0]
					}
					return zeroOf(pr.ElemType)
				}))
				// a scalar of the length type (the row then holds the length only)
				np2 := &ff.PLYProperty{Name: pr.Name, ElemType: pr.LenType}
				add(pf.withProperty(ei, pi, np2, func(v ff.PLYValue) ff.PLYValue {
					if l, ok := v.(ff.PLYValueList); ok {
						return l.Length
					}
					return zeroOf(pr.LenType)
				}))
				add(pf.withProperty(ei, pi, np, nil))
			}
		}
	}
	return out
}

// ---------------------------------------------------------------------------
// random mesh files near the accept boundary of IsStandardVertex / IsStandardFace

var stdVertexNames = []string{"x", "y", "z", "red", "green", "blue"}

func stdVertexType(name string, r *rand.Rand) ff.PLYPropertyType {
	switch name {
	case "x", "y", "z":
		return []ff.PLYPropertyType{ff.PLYPropertyTypeFloat, ff.PLYPropertyTypeFloat32}[r.Intn(2)]
	}
	return []ff.PLYPropertyType{ff.PLYPropertyTypeUchar, ff.PLYPropertyTypeUint8}[r.Intn(2)]
}

var otherTypes = []ff.PLYPropertyType{ff.PLYPropertyTypeChar, ff.PLYPropertyTypeUchar, ff.PLYPropertyTypeShort, ff.PLYPropertyTypeUshort,
	ff.PLYPropertyTypeInt, ff.PLYPropertyTypeUint, ff.PLYPropertyTypeFloat, ff.PLYPropertyTypeDouble, ff.PLYPropertyTypeInt8,
	ff.PLYPropertyTypeUint32, ff.PLYPropertyTypeFloat64, ff.PLYPropertyTypeInt16}

var intLenTypes = []ff.PLYPropertyType{ff.PLYPropertyTypeUchar, ff.PLYPropertyTypeUint8, ff.PLYPropertyTypeChar, ff.PLYPropertyTypeInt8,
	ff.PLYPropertyTypeUshort, ff.PLYPropertyTypeShort, ff.PLYPropertyTypeInt, ff.PLYPropertyTypeUint}

// nearValue draws a value of type t; floats are small dyadic numbers (exact in both precisions and in text).
func nearValue(r *rand.Rand, t ff.PLYPropertyType, hi int) ff.PLYValue {
	var s string
	switch t {
	case ff.PLYPropertyTypeFloat, ff.PLYPropertyTypeFloat32, ff.PLYPropertyTypeDouble, ff.PLYPropertyTypeFloat64:
		s = []string{"0", "1", "-2.5", "0.5", "3", "-0", "0.25", "7"}[r.Intn(8)]
	case ff.PLYPropertyTypeChar, ff.PLYPropertyTypeInt8, ff.PLYPropertyTypeShort, ff.PLYPropertyTypeInt16, ff.PLYPropertyTypeInt, ff.PLYPropertyTypeInt32:
		s = strconv.Itoa(r.Intn(hi + 1))
		if r.Intn(9) == 0 {
			s = "-1"
		}
	default:
		s = strconv.Itoa(r.Intn(hi + 1))
	}
	v, err := t.Parse(s)
	if err != nil {
		return zeroOf(t)
	}
	return v
}

// nearRow draws a row of the shape the element declares; integers are in [0, hi] (mostly valid vertex
// indices when hi = number of vertices - 1 … one past), lists have listLen entries (or 0..3 when < 0).
func nearRow(r *rand.Rand, e *ff.PLYElement, hi, listLen int) []ff.PLYValue {
	row := make([]ff.PLYValue, len(e.Properties))
	for i, p := range e.Properties {
		if p.LenType == ff.PLYPropertyTypeNone {
			row[i] = nearValue(r, p.ElemType, hi)
			continue
		}
		n := listLen
		if n < 0 {
			n = r.Intn(4)
		}
		vals := make([]ff.PLYValue, n)
		for j := range vals {
			vals[j] = nearValue(r, p.ElemType, hi)
		}
		lc := codec.TypeCode(p.LenType)
		if lc < 0 || lc >= 12 {
			// a floating-point length type: the header decoder rejects it, the row is never read
			row[i] = ff.PLYValueList{Length: zeroOf(p.LenType), Values: nil}
			continue
		}
		row[i] = ff.PLYValueList{Length: codec.LengthScalar(lc, n), Values: vals}
	}
	return row
}

// nearStandardFile draws one file; `what` names the perturbations made ("" = a standard mesh file).
func nearStandardFile(r *rand.Rand) (data []byte, what string) {
	note := func(s string) { what += "+" + s }
	// with probability 1/4 exactly one perturbation is made, of a kind drawn uniformly; otherwise each
	// conjunct is perturbed independently with a small probability
	single := -1
	if r.Intn(4) == 0 {
		single = r.Intn(10)
	}
	hit := func(k, oneIn int) bool {
		if single >= 0 {
			return single == k
		}
		return r.Intn(oneIn) == 0
	}

	nv, nf := 1+r.Intn(4), r.Intn(4)
	vertex := &ff.PLYElement{Name: "vertex", Count: int64(nv)}
	names := append([]string{}, stdVertexNames...)
	if r.Intn(4) == 0 {
		r.Shuffle(len(names), func(i, j int) { names[i], names[j] = names[j], names[i] })
	}
	if hit(0, 12) { // number of properties
		if r.Intn(2) == 0 {
			names = names[:5]
			note("v5props")
		} else {
			names = append(names, []string{"alpha", "x", "blue", "nx"}[r.Intn(4)])
			note("v7props")
		}
	}
	if hit(1, 12) { // a name: a duplicate of another standard one, or a foreign one
		i := r.Intn(len(names))
		names[i] = []string{"x", "red", "blue", "z", "w", "alpha", "vertex_index", "Red"}[r.Intn(8)]
		note("vname")
	}
	for _, n := range names {
		vertex.Properties = append(vertex.Properties, &ff.PLYProperty{Name: n, ElemType: stdVertexType(n, r)})
	}
	if hit(2, 12) { // an element type
		vertex.Properties[r.Intn(len(vertex.Properties))].ElemType = otherTypes[r.Intn(len(otherTypes))]
		note("vtype")
	}
	if hit(3, 6) { // a property declared as a list (element type untouched)
		p := vertex.Properties[r.Intn(len(vertex.Properties))]
		p.LenType = intLenTypes[r.Intn(len(intLenTypes))]
		note("vlist")
		if r.Intn(4) == 0 {
			q := vertex.Properties[r.Intn(len(vertex.Properties))]
			q.LenType = intLenTypes[r.Intn(len(intLenTypes))]
		}
	}

	face := &ff.PLYElement{Name: "face", Count: int64(nf)}
	fp := &ff.PLYProperty{Name: "vertex_index", LenType: []ff.PLYPropertyType{ff.PLYPropertyTypeUchar, ff.PLYPropertyTypeUint8}[r.Intn(2)],
		ElemType: []ff.PLYPropertyType{ff.PLYPropertyTypeInt, ff.PLYPropertyTypeInt32}[r.Intn(2)]}
	face.Properties = []*ff.PLYProperty{fp}
	if hit(4, 12) {
		fp.Name = []string{"vertex_indices", "vertex_index ", "x", "Vertex_index"}[r.Intn(4)]
		if fp.Name == "vertex_index " {
			fp.Name = "vertex_indexes"
		}
		note("fname")
	}
	if hit(5, 10) {
		fp.LenType = []ff.PLYPropertyType{ff.PLYPropertyTypeChar, ff.PLYPropertyTypeInt8, ff.PLYPropertyTypeUshort, ff.PLYPropertyTypeInt,
			ff.PLYPropertyTypeUint, ff.PLYPropertyTypeShort, ff.PLYPropertyTypeFloat}[r.Intn(7)]
		note("flen")
	}
	if hit(6, 10) {
		fp.ElemType = []ff.PLYPropertyType{ff.PLYPropertyTypeUint, ff.PLYPropertyTypeUint32, ff.PLYPropertyTypeShort, ff.PLYPropertyTypeUchar,
			ff.PLYPropertyTypeFloat, ff.PLYPropertyTypeChar, ff.PLYPropertyTypeDouble}[r.Intn(7)]
		note("ftype")
	}
	if hit(7, 12) { // vertex_index a scalar
		fp.LenType = ff.PLYPropertyTypeNone
		note("fscalar")
	}
	if hit(8, 12) { // a second property
		extra := &ff.PLYProperty{Name: []string{"flags", "vertex_index", "red"}[r.Intn(3)], ElemType: ff.PLYPropertyTypeUchar}
		if r.Intn(2) == 0 {
			face.Properties = append(face.Properties, extra)
		} else {
			face.Properties = append([]*ff.PLYProperty{extra}, face.Properties...)
		}
		note("f2props")
	}

	// other elements around them (ReadColorPLY skips their rows), sometimes a second vertex / face element
	other := func() *ff.PLYElement {
		e := &ff.PLYElement{Name: []string{"edge", "material", "misc"}[r.Intn(3)], Count: int64(r.Intn(3))}
		np := 1 + r.Intn(3)
		for j := 0; j < np; j++ {
			p := &ff.PLYProperty{Name: []string{"a", "b", "x", "vertex_index", "red"}[r.Intn(5)], ElemType: otherTypes[r.Intn(len(otherTypes))]}
			if r.Intn(3) == 0 {
				p.LenType = intLenTypes[r.Intn(len(intLenTypes))]
			}
			e.Properties = append(e.Properties, p)
		}
		return e
	}
	var els []*ff.PLYElement
	if r.Intn(5) == 0 {
		els = append(els, other())
	}
	els = append(els, vertex)
	if r.Intn(5) == 0 {
		els = append(els, other())
	}
	els = append(els, face)
	if r.Intn(5) == 0 {
		els = append(els, other())
	}
	if hit(9, 15) {
		if r.Intn(2) == 0 {
			dup := *vertex
			dup.Count = 1
			els = append(els, &dup)
			note("vtwice")
		} else {
			r.Shuffle(len(els), func(i, j int) { els[i], els[j] = els[j], els[i] })
			note("order")
		}
	}

	pf := &plyFile{header: &ff.PLYHeader{Format: ff.PLYFormat(r.Intn(3)), Elements: els}, rows: make([][][]ff.PLYValue, len(els))}
	for k, e := range els {
		for j := int64(0); j < e.Count; j++ {
			switch e.Name {
			case "face":
				n := 3
				if r.Intn(8) == 0 {
					n = []int{0, 1, 2, 4}[r.Intn(4)]
				}
				pf.rows[k] = append(pf.rows[k], nearRow(r, e, nv-1+[]int{0, 0, 0, 0, 0, 1}[r.Intn(6)], n))
			case "vertex":
				pf.rows[k] = append(pf.rows[k], nearRow(r, e, 255, -1))
			default:
				pf.rows[k] = append(pf.rows[k], nearRow(r, e, 100, -1))
			}
		}
	}
	b, ok := pf.encode()
	if !ok {
		return nil, "unwritable"
	}
	return b, what
}

func (s *state) nearStandard(n int) {
	sm := sample{"near-standard-ply", "ply", nil}
	for i := 0; i < n; i++ {
		data, what := nearStandardFile(s.c.Rng)
		if data == nil {
			s.c.Stat("c16.nearstd.unwritable", 1)
			continue
		}
		if what == "" {
			what = "+standard"
		}
		s.c.Stat("c16.nearstd.files", 1)
		if what == "+vlist" {
			// the six standard names and element types, at least one of them declared as a list, the rows
			// consistent with it: what IsStandardVertex's LenType test is there for
			s.c.Stat("c16.nearstd.only_vertex_list", 1)
		}
		for _, w := range splitPlus(what) {
			s.c.Stat("c16.nearstd.perturbed."+w, 1)
		}
		sm.data = data
		s.tryAll(sm, data, "nearstd")
		// and one truncation of it (a list-typed vertex row cut short, a header cut inside a declaration)
		if len(data) > 0 {
			s.tryAll(sm, data[:s.c.Rng.Intn(len(data))], "nearstd-truncation")
		}
	}
}

func splitPlus(s string) []string {
	var out []string
	for _, p := range bytes.Split([]byte(s), []byte("+")) {
		if len(p) > 0 {
			out = append(out, string(p))
		}
	}
	return out
}

// shapeSweep runs shapeCorruptions over a PLY corpus file.
func (s *state) shapeSweep(sm sample) {
	if sm.format != "ply" {
		return
	}
	ms := shapeCorruptions(sm.data)
	s.c.Stat("c16.shape.files", len(ms))
	for _, m := range ms {
		s.tryAll(sm, m, "shape")
	}
}
